import Brax.Lemmas.C10
import Brax.Lemmas.Norm
import Brax.Gen.Mjx
import Mathlib.Tactic.Ring
import Mathlib.Tactic.Linarith
import Mathlib.Tactic.NormNum
import Mathlib.Tactic.Positivity
import Mathlib.Tactic.FieldSimp
import Mathlib.Tactic.LinearCombination
/-!
# C10 — the transcription `Mjx.*` of the external collision primitives returns the closed forms

`Brax/Model/C10.lean`, `namespace Mjx`, is a hand transcription of
`mujoco/mjx/_src/collision_primitive.py` (+ `math.py`) for plane / sphere / capsule pairs, with the
library's regularisers:

* `math.norm` returns `0` inside the box `jp.allclose(x, 0)` (all `|xᵢ| ≤ 1e-8`) — `Small` below;
* `math.normalize` divides by `n + 1e-6·(n == 0)`;
* `closest_segment_point` divides by `|ab|² + 1e-6`;
* `closest_segment_to_segment_points` divides by `1 − cos² + 1e-6` and re-projects with
  `closest_segment_point`.

This file proves, over ℝ, what the transcription returns in terms of the closed forms of
`Brax/Spec/C10.lean` (`planeSphere`, `planeCapsule`, `sphereSphere`, `sphereCapsule`,
`capsuleCapsule`): equality where there is no regulariser or outside its guard, explicit bounds
inside.  Restated (and combined with the optimality theorems) at the end of `Props/C10.lean`.
-/
set_option linter.unusedSectionVars false
set_option linter.unusedSimpArgs false
set_option linter.unusedVariables false
namespace Brax.C10
open Brax Spec

/-- a candidate as the row `(dist, pos, frame[0])` of `Mjx.pairRows` -/
def candRow {α : Type} (k : Cand α) : α × V3 α × V3 α := (k.dist, k.pos, k.n)

theorem half_eq : (0.5 : ℝ) = 1 / (1 + 1) := by norm_num

/-! ## `math.norm`, `math.normalize` -/

/-- the guard of `math.norm`: `jp.allclose(v, 0)`, i.e. every `|vᵢ| ≤ 1e-8` -/
def Small (v : V3 ℝ) : Prop := allClose0 [v.x, v.y, v.z] = true

theorem small_iff (v : V3 ℝ) : Small v ↔ |v.x| ≤ 1e-8 ∧ |v.y| ≤ 1e-8 ∧ |v.z| ≤ 1e-8 := by
  simp [Small, allClose0_iff]

theorem not_small_iff (v : V3 ℝ) : ¬ Small v ↔ allClose0 [v.x, v.y, v.z] = false := by
  simp [Small]

theorem small_zero : Small (V3.zero : V3 ℝ) := by
  rw [small_iff]; simp [V3.zero]; norm_num

theorem ne_zero_of_not_small {v : V3 ℝ} (h : ¬ Small v) : v ≠ V3.zero := by
  rintro rfl; exact h small_zero

theorem norm3_ne_zero_of_not_small {v : V3 ℝ} (h : ¬ Small v) : norm3 v ≠ 0 :=
  fun h0 => ne_zero_of_not_small h ((norm3_eq_zero_iff v).mp h0)

theorem eqZero_norm3_of_not_small {v : V3 ℝ} (h : ¬ Small v) : eqZero (norm3 v) = false := by
  rw [Bool.eq_false_iff]; intro hc
  exact norm3_ne_zero_of_not_small h ((eqZero_iff _).mp hc)

/-- a vector one of whose components exceeds `1e-8` is outside the guard -/
theorem not_small_of_dot {v : V3 ℝ} (h : 3e-16 < V3.dot v v) : ¬ Small v := by
  intro hs
  rw [small_iff] at hs
  obtain ⟨hx, hy, hz⟩ := hs
  have sq : ∀ a : ℝ, |a| ≤ 1e-8 → a * a ≤ 1e-16 := by
    intro a ha
    have := abs_mul_abs_self a
    have h0 := abs_nonneg a
    nlinarith
  have := sq _ hx; have := sq _ hy; have := sq _ hz
  simp only [V3.dot] at h
  norm_num at *
  linarith

/-- unit vectors are far outside the guard -/
theorem not_small_of_unit {v : V3 ℝ} (h : V3.dot v v = 1) : ¬ Small v := by
  apply not_small_of_dot; rw [h]; norm_num

/-- inside the guard the vector is shorter than `√3·1e-8` -/
theorem dot_le_of_small {v : V3 ℝ} (hs : Small v) : V3.dot v v ≤ 3e-16 := by
  rw [small_iff] at hs
  obtain ⟨hx, hy, hz⟩ := hs
  have sq : ∀ a : ℝ, |a| ≤ 1e-8 → a * a ≤ 1e-16 := by
    intro a ha
    have := abs_mul_abs_self a
    have h0 := abs_nonneg a
    nlinarith
  have := sq _ hx; have := sq _ hy; have := sq _ hz
  simp only [V3.dot]
  norm_num at *
  linarith

theorem norm3_le_of_small {v : V3 ℝ} (hs : Small v) : norm3 v ≤ 2e-8 := by
  have h := dot_le_of_small hs
  have h0 := norm3_nonneg v
  have hm := norm3_mul_self v
  by_contra hc
  have hc := not_le.mp hc
  have : (2e-8 : ℝ) * 2e-8 < norm3 v * norm3 v := by
    apply mul_self_lt_mul_self (by norm_num) hc
  norm_num at *
  linarith

/-- `math.norm` is the Euclidean norm outside the guard … -/
theorem safeNorm3_of_not_small {v : V3 ℝ} (h : ¬ Small v) : safeNorm3 v = norm3 v := by
  have hz := (not_small_iff v).mp h
  simp only [safeNorm3, safeNormL, hz, Bool.false_eq_true, if_false, List.foldl, norm3, V3.dot,
    zero_add]

/-- … and `0` inside -/
theorem safeNorm3_of_small {v : V3 ℝ} (h : Small v) : safeNorm3 v = 0 := by
  have hz : allClose0 [v.x, v.y, v.z] = true := h
  simp [safeNorm3, safeNormL, hz]

/-- `math.normalize` is `v / ‖v‖` outside the guard … -/
theorem normalize3_of_not_small {v : V3 ℝ} (h : ¬ Small v) : normalize3 v = unitOr v := by
  simp only [normalize3, safeNorm3_of_not_small h, unitOr, eqZero_norm3_of_not_small h,
    Bool.false_eq_true, if_false]

/-- … and `v / 1e-6` inside (what the code does; not a unit vector unless by accident) -/
theorem normalize3_of_small {v : V3 ℝ} (h : Small v) :
    normalize3 v = ⟨v.x / 1e-6, v.y / 1e-6, v.z / 1e-6⟩ := by
  have e0 : eqZero (0 : ℝ) = true := (eqZero_iff _).mpr rfl
  simp only [normalize3, safeNorm3_of_small h, e0, if_true, zero_add]

/-- `normalize` leaves unit vectors unchanged (exactly, over ℝ) -/
theorem normalize3_of_unit {v : V3 ℝ} (h : V3.dot v v = 1) : normalize3 v = v := by
  have hns := not_small_of_unit h
  have hn : norm3 v = 1 := by rw [norm3_def, h, Real.sqrt_one]
  rw [normalize3_of_not_small hns, unitOr_eq_smul (ne_zero_of_not_small hns), hn]
  cases v; simp [V3.smul]

theorem dot_unitOr (d : V3 ℝ) : V3.dot (unitOr d) (unitOr d) = 1 := by
  have := norm3_unitOr d
  rw [← norm3_mul_self, this, mul_one]

/-- `make_frame` re-normalises its argument: harmless on the unit normals it receives -/
theorem frame0_unitOr (d : V3 ℝ) : Mjx.frame0 (unitOr d) = unitOr d :=
  normalize3_of_unit (dot_unitOr d)

theorem frame0_of_unit {n : V3 ℝ} (h : V3.dot n n = 1) : Mjx.frame0 n = n := normalize3_of_unit h

theorem frame0_ex : Mjx.frame0 (⟨1, 0, 0⟩ : V3 ℝ) = ⟨1, 0, 0⟩ :=
  normalize3_of_unit (by norm_num [V3.dot])

/-! ## plane – sphere, plane – capsule: no regulariser -/

/-- `_plane_sphere` **is** the closed form, for all inputs -/
theorem mjx_planeSphere'_eq (n p c : V3 ℝ) (r : ℝ) :
    Mjx.planeSphere' n p c r = ((planeSphere p n c r).dist, (planeSphere p n c r).pos) := by
  have e : V3.dot (c - p) n = V3.dot n (c - p) := dot_comm _ _
  simp only [Mjx.planeSphere', planeSphere, e]
  refine Prod.ext rfl ?_
  simp only [V3.smul, V3.sub_def, half_eq]
  congr 1 <;> ring

/-- `plane_sphere` (unit plane normal): the row is the closed-form candidate -/
theorem mjx_plane_sphere_rows (s1 s2 : V3 ℝ) (w1 w2 : V3 ℝ × M3 ℝ)
    (hn : V3.dot w1.2.col2 w1.2.col2 = 1) :
    Mjx.pairRows 0 s1 w1 2 s2 w2 = some [candRow (planeSphere w1.1 w1.2.col2 w2.1 s2.x)] := by
  simp only [Mjx.pairRows, mjx_planeSphere'_eq, frame0_of_unit hn, candRow, planeSphere]

/-- `plane_sphere` for a plane matrix whose third column is not a unit vector (never produced by
`contact.get` from unit quaternions): `dist`, `pos` are still the closed form of that `n`, and
`frame[0]` is `n / ‖n‖` -/
theorem mjx_plane_sphere_rows_general (s1 s2 : V3 ℝ) (w1 w2 : V3 ℝ × M3 ℝ)
    (hn : ¬ Small w1.2.col2) :
    Mjx.pairRows 0 s1 w1 2 s2 w2
      = some [((planeSphere w1.1 w1.2.col2 w2.1 s2.x).dist, (planeSphere w1.1 w1.2.col2 w2.1 s2.x).pos,
          unitOr w1.2.col2)] := by
  simp only [Mjx.pairRows, mjx_planeSphere'_eq, Mjx.frame0, normalize3_of_not_small hn]

/-- `plane_capsule`: both rows are the closed-form candidates, **for all inputs** (the library puts
the plane normal itself into `frame[0]`, without normalising) -/
theorem mjx_plane_capsule_rows (s1 s2 : V3 ℝ) (w1 w2 : V3 ℝ × M3 ℝ) :
    Mjx.pairRows 0 s1 w1 3 s2 w2
      = some ((planeCapsule w1.1 w1.2.col2 w2.1 w2.2.col2 s2.y s2.x).map candRow) := by
  simp only [Mjx.pairRows, mjx_planeSphere'_eq, planeCapsule, List.map_cons, List.map_nil, candRow,
    planeSphere]

/-! ## sphere – sphere: the guard of `math.norm` -/

/-- `_sphere_sphere` is the closed form whenever the centre difference is outside the guard
(some `|Δᵢ| > 1e-8`) -/
theorem mjx_sphereSphere'_eq (p1 : V3 ℝ) (r1 : ℝ) (p2 : V3 ℝ) (r2 : ℝ) (h : ¬ Small (p2 - p1)) :
    Mjx.sphereSphere' p1 r1 p2 r2 = candRow (sphereSphere p1 r1 p2 r2) := by
  simp only [Mjx.sphereSphere', Mjx.normalizeWithNorm, normalize3_of_not_small h,
    safeNorm3_of_not_small h, eqZero_norm3_of_not_small h, Bool.false_eq_true, if_false,
    sphereSphere, candRow]
  refine Prod.ext (by ring) (Prod.ext ?_ rfl)
  simp only [V3.smul, V3.add_def, half_eq]
  congr 1 <;> ring

/-- inside the guard `_sphere_sphere` treats the centres as coincident: depth `r₁ + r₂`, normal
`e_x` -/
theorem mjx_sphereSphere'_small (p1 : V3 ℝ) (r1 : ℝ) (p2 : V3 ℝ) (r2 : ℝ) (h : Small (p2 - p1)) :
    Mjx.sphereSphere' p1 r1 p2 r2
      = (-(r1 + r2), p1 + V3.smul (r1 + -(r1 + r2) * 0.5) ⟨1, 0, 0⟩, ⟨1, 0, 0⟩) := by
  have e0 : eqZero (0 : ℝ) = true := (eqZero_iff _).mpr rfl
  simp only [Mjx.sphereSphere', Mjx.normalizeWithNorm, safeNorm3_of_small h, e0, if_true, zero_sub]

/-- exactly coincident centres: the closed form adopts the same convention, so equality holds -/
theorem mjx_sphereSphere'_coincident (p : V3 ℝ) (r1 r2 : ℝ) :
    Mjx.sphereSphere' p r1 p r2 = candRow (sphereSphere p r1 p r2) := by
  have hz : p - p = V3.zero := (sub_eq_zero_iff _ _).mpr rfl
  have hs : Small (p - p) := by rw [hz]; exact small_zero
  have hn : norm3 (V3.zero : V3 ℝ) = 0 := (norm3_eq_zero_iff _).mpr rfl
  rw [mjx_sphereSphere'_small p r1 p r2 hs]
  simp only [sphereSphere, candRow, hz, unitOr_zero, hn]
  refine Prod.ext (by ring) (Prod.ext ?_ rfl)
  simp only [V3.smul, V3.add_def, half_eq]
  congr 1 <;> ring

/-- inside the guard (but centres not coincident) the reported distance is **below** the closed
form by exactly `‖c₂ − c₁‖ ≤ 2e-8`; the reported normal is `e_x` whatever the true direction -/
theorem mjx_sphereSphere'_small_err (p1 : V3 ℝ) (r1 : ℝ) (p2 : V3 ℝ) (r2 : ℝ)
    (h : Small (p2 - p1)) :
    (sphereSphere p1 r1 p2 r2).dist - (Mjx.sphereSphere' p1 r1 p2 r2).1 = norm3 (p2 - p1)
    ∧ 0 ≤ norm3 (p2 - p1) ∧ norm3 (p2 - p1) ≤ 2e-8
    ∧ (Mjx.sphereSphere' p1 r1 p2 r2).2.2 = ⟨1, 0, 0⟩ := by
  rw [mjx_sphereSphere'_small p1 r1 p2 r2 h]
  refine ⟨?_, norm3_nonneg _, norm3_le_of_small h, rfl⟩
  simp only [sphereSphere]; ring

/-- for every input: `|reported − closed form| ≤ 2e-8` on the distance -/
theorem mjx_sphereSphere'_dist_err (p1 : V3 ℝ) (r1 : ℝ) (p2 : V3 ℝ) (r2 : ℝ) :
    (Mjx.sphereSphere' p1 r1 p2 r2).1 ≤ (sphereSphere p1 r1 p2 r2).dist
    ∧ (sphereSphere p1 r1 p2 r2).dist ≤ (Mjx.sphereSphere' p1 r1 p2 r2).1 + 2e-8 := by
  by_cases h : Small (p2 - p1)
  · obtain ⟨he, h0, h1, _⟩ := mjx_sphereSphere'_small_err p1 r1 p2 r2 h
    constructor <;> linarith
  · rw [mjx_sphereSphere'_eq p1 r1 p2 r2 h]
    simp only [candRow]
    constructor <;> norm_num

/-- the normal reported by `_sphere_sphere` is always a unit vector, so `make_frame` returns it
unchanged -/
theorem frame0_sphereSphere' (p1 : V3 ℝ) (r1 : ℝ) (p2 : V3 ℝ) (r2 : ℝ) :
    Mjx.frame0 (Mjx.sphereSphere' p1 r1 p2 r2).2.2 = (Mjx.sphereSphere' p1 r1 p2 r2).2.2 := by
  by_cases h : Small (p2 - p1)
  · rw [mjx_sphereSphere'_small p1 r1 p2 r2 h]; exact frame0_ex
  · rw [mjx_sphereSphere'_eq p1 r1 p2 r2 h]; exact frame0_unitOr _

/-- `sphere_sphere`: the row is the closed-form candidate when the centres are outside the guard -/
theorem mjx_sphere_sphere_rows (s1 s2 : V3 ℝ) (w1 w2 : V3 ℝ × M3 ℝ) (h : ¬ Small (w2.1 - w1.1)) :
    Mjx.pairRows 2 s1 w1 2 s2 w2 = some [candRow (sphereSphere w1.1 s1.x w2.1 s2.x)] := by
  simp only [Mjx.pairRows, frame0_sphereSphere']
  rw [mjx_sphereSphere'_eq _ _ _ _ h]

/-- … and when they coincide exactly -/
theorem mjx_sphere_sphere_rows_coincident (s1 s2 : V3 ℝ) (w1 w2 : V3 ℝ × M3 ℝ) (h : w2.1 = w1.1) :
    Mjx.pairRows 2 s1 w1 2 s2 w2 = some [candRow (sphereSphere w1.1 s1.x w2.1 s2.x)] := by
  simp only [Mjx.pairRows, frame0_sphereSphere']
  rw [h, mjx_sphereSphere'_coincident]

/-! ## `closest_segment_point`: the `+1e-6` in the denominator -/

/-- scalar core: the regularised clamped parameter `clip (W/(A+ε))` against the exact one
`clip (W/A)`; four regimes -/
theorem clip_div_cases (A W ε : ℝ) (hA : 0 < A) (hε : 0 < ε) :
    (W ≤ 0 ∧ clip (W / (A + ε)) 0 1 = 0 ∧ clip (W / A) 0 1 = 0)
    ∨ (0 < W ∧ W ≤ A ∧ clip (W / (A + ε)) 0 1 = W / (A + ε) ∧ clip (W / A) 0 1 = W / A)
    ∨ (A < W ∧ W < A + ε ∧ clip (W / (A + ε)) 0 1 = W / (A + ε) ∧ clip (W / A) 0 1 = 1)
    ∨ (A + ε ≤ W ∧ clip (W / (A + ε)) 0 1 = 1 ∧ clip (W / A) 0 1 = 1) := by
  have hAe : 0 < A + ε := by linarith
  rw [clip_eq, clip_eq]
  rcases le_or_gt W 0 with h0 | h0
  · left
    have h1 : W / (A + ε) ≤ 0 := div_nonpos_of_nonpos_of_nonneg h0 hAe.le
    have h2 : W / A ≤ 0 := div_nonpos_of_nonpos_of_nonneg h0 hA.le
    exact ⟨h0, by rw [max_eq_right h1, min_eq_left zero_le_one],
      by rw [max_eq_right h2, min_eq_left zero_le_one]⟩
  · right
    have p1 : 0 ≤ W / (A + ε) := (div_pos h0 hAe).le
    have p2 : 0 ≤ W / A := (div_pos h0 hA).le
    rcases le_or_gt W A with h1 | h1
    · left
      have q1 : W / (A + ε) ≤ 1 := by rw [div_le_one hAe]; linarith
      have q2 : W / A ≤ 1 := by rw [div_le_one hA]; exact h1
      exact ⟨h0, h1, by rw [max_eq_left p1, min_eq_left q1], by rw [max_eq_left p2, min_eq_left q2]⟩
    · right
      have q2 : 1 ≤ W / A := by rw [one_le_div hA]; exact h1.le
      rcases lt_or_ge W (A + ε) with h2 | h2
      · left
        have q1 : W / (A + ε) ≤ 1 := by rw [div_le_one hAe]; exact h2.le
        exact ⟨h1, h2, by rw [max_eq_left p1, min_eq_left q1],
          by rw [max_eq_left p2, min_eq_right q2]⟩
      · right
        have q1 : 1 ≤ W / (A + ε) := by rw [one_le_div hAe]; exact h2
        exact ⟨h2, by rw [max_eq_left p1, min_eq_right q1], by rw [max_eq_left p2, min_eq_right q2]⟩

/-- the regularised parameter is never beyond the exact one and short of it by at most `ε/(A+ε)` -/
theorem clip_div_param_err (A W ε : ℝ) (hA : 0 < A) (hε : 0 < ε) :
    0 ≤ clip (W / A) 0 1 - clip (W / (A + ε)) 0 1
    ∧ clip (W / A) 0 1 - clip (W / (A + ε)) 0 1 ≤ ε / (A + ε) := by
  have hAe : 0 < A + ε := by linarith
  have hpos : 0 ≤ ε / (A + ε) := (div_pos hε hAe).le
  rcases clip_div_cases A W ε hA hε with ⟨_, e1, e2⟩ | ⟨h0, h1, e1, e2⟩ | ⟨h1, h2, e1, e2⟩ | ⟨_, e1, e2⟩
  · rw [e1, e2]; simpa using hpos
  · rw [e1, e2]
    set u := W / A with hu
    set v := W / (A + ε) with hv
    have hW : W = u * A := by rw [hu]; field_simp
    have hW' : W = v * (A + ε) := by rw [hv]; field_simp
    have hu1 : u ≤ 1 := by rw [hu, div_le_one hA]; exact h1
    have hu0 : 0 ≤ u := by rw [hu]; exact (div_pos h0 hA).le
    have key : (u - v) * (A + ε) = u * ε := by linear_combination hW' - hW
    constructor
    · have : 0 ≤ (u - v) * (A + ε) := by rw [key]; positivity
      exact nonneg_of_mul_nonneg_left this hAe
    · rw [le_div_iff₀ hAe, key]; nlinarith
  · rw [e1, e2]
    set v := W / (A + ε) with hv
    have hW' : W = v * (A + ε) := by rw [hv]; field_simp
    constructor
    · have : v ≤ 1 := by rw [hv, div_le_one hAe]; exact h2.le
      linarith
    · rw [le_div_iff₀ hAe]; nlinarith
  · rw [e1, e2]; simpa using hpos

/-- second order: on the quadratic `Q t = A t² − 2 W t` (squared distance up to a constant) the
regularised parameter loses at most `3 ε² / (A + ε)` -/
theorem clip_div_quad_err (A W ε : ℝ) (hA : 0 < A) (hε : 0 < ε) :
    0 ≤ (A * clip (W / (A + ε)) 0 1 ^ 2 - 2 * W * clip (W / (A + ε)) 0 1)
          - (A * clip (W / A) 0 1 ^ 2 - 2 * W * clip (W / A) 0 1)
    ∧ (A * clip (W / (A + ε)) 0 1 ^ 2 - 2 * W * clip (W / (A + ε)) 0 1)
          - (A * clip (W / A) 0 1 ^ 2 - 2 * W * clip (W / A) 0 1) ≤ 3 * ε ^ 2 / (A + ε) := by
  have hAe : 0 < A + ε := by linarith
  have hpos : 0 ≤ 3 * ε ^ 2 / (A + ε) := by positivity
  rcases clip_div_cases A W ε hA hε with ⟨_, e1, e2⟩ | ⟨h0, h1, e1, e2⟩ | ⟨h1, h2, e1, e2⟩ | ⟨_, e1, e2⟩
  · rw [e1, e2]; simpa using hpos
  · rw [e1, e2]
    set u := W / A with hu
    set v := W / (A + ε) with hv
    have hW : W = u * A := by rw [hu]; field_simp
    have hW' : W = v * (A + ε) := by rw [hv]; field_simp
    have hu1 : u ≤ 1 := by rw [hu, div_le_one hA]; exact h1
    have hu0 : 0 ≤ u := by rw [hu]; exact (div_pos h0 hA).le
    have key : (u - v) * (A + ε) = u * ε := by linear_combination hW' - hW
    have hd0 : 0 ≤ u - v := by
      have : 0 ≤ (u - v) * (A + ε) := by rw [key]; positivity
      exact nonneg_of_mul_nonneg_left this hAe
    have hquad : (A * v ^ 2 - 2 * W * v) - (A * u ^ 2 - 2 * W * u) = A * (u - v) ^ 2 := by
      rw [hW]; ring
    rw [hquad]
    constructor
    · positivity
    · rw [le_div_iff₀ hAe]
      have hAd : A * (u - v) ≤ ε := by nlinarith
      have h2 : A * (u - v) ^ 2 * (A + ε) = (A * (u - v)) * (u * ε) := by rw [← key]; ring
      rw [h2]
      have : A * (u - v) * (u * ε) ≤ ε * (1 * ε) := by
        apply mul_le_mul hAd _ (by positivity) hε.le
        exact mul_le_mul_of_nonneg_right hu1 hε.le
      nlinarith
  · rw [e1, e2]
    set v := W / (A + ε) with hv
    have hW' : W = v * (A + ε) := by rw [hv]; field_simp
    have hv1 : v ≤ 1 := by rw [hv, div_le_one hAe]; exact h2.le
    have hv0 : 0 ≤ v := by rw [hv]; exact (div_pos (by linarith) hAe).le
    have hquad : (A * v ^ 2 - 2 * W * v) - (A * 1 ^ 2 - 2 * W * 1)
        = (1 - v) * (2 * W - A * (1 + v)) := by ring
    rw [hquad]
    have hm : (1 - v) * (A + ε) = A + ε - W := by linear_combination hW'
    have hK0 : 0 ≤ 2 * W - A * (1 + v) := by nlinarith
    have hK : 2 * W - A * (1 + v) ≤ 3 * ε := by nlinarith
    constructor
    · exact mul_nonneg (by linarith) hK0
    · rw [le_div_iff₀ hAe]
      have : (1 - v) * (2 * W - A * (1 + v)) * (A + ε) = (A + ε - W) * (2 * W - A * (1 + v)) := by
        rw [← hm]; ring
      rw [this]
      have : (A + ε - W) * (2 * W - A * (1 + v)) ≤ ε * (3 * ε) :=
        mul_le_mul (by linarith) hK hK0 hε.le
      nlinarith
  · rw [e1, e2]; simpa using hpos

/-- the clamped parameter `closest_segment_point` uses -/
noncomputable def mjxSegParam (a b q : V3 ℝ) : ℝ :=
  clip (V3.dot (q - a) (b - a) / (V3.dot (b - a) (b - a) + 1e-6)) 0 1

theorem mjx_closestSegmentPoint_eq (a b q : V3 ℝ) :
    Mjx.closestSegmentPoint a b q = a + V3.smul (mjxSegParam a b q) (b - a) := rfl

/-- the point `closest_segment_point` returns is a point of the segment -/
theorem mjxSegParam_mem (a b q : V3 ℝ) : 0 ≤ mjxSegParam a b q ∧ mjxSegParam a b q ≤ 1 :=
  clip_mem _

theorem dot_seg_pos {a b : V3 ℝ} (hab : a ≠ b) : 0 < V3.dot (b - a) (b - a) := by
  have := norm3_pos_of_ne hab
  rw [← norm3_mul_self]; positivity

/-- `closest_segment_point` **is** the nearest point when the query projects before the start of
the segment (`(q − a)·(b − a) ≤ 0`: both return `a`) … -/
theorem mjx_closestSegmentPoint_eq_start (a b q : V3 ℝ) (hab : a ≠ b)
    (h : V3.dot (q - a) (b - a) ≤ 0) : Mjx.closestSegmentPoint a b q = closestOnSeg a b q := by
  rcases clip_div_cases _ (V3.dot (q - a) (b - a)) 1e-6 (dot_seg_pos hab) (by norm_num) with
    ⟨_, e1, e2⟩ | ⟨h0, _⟩ | ⟨h1, _⟩ | ⟨h2, _⟩
  · rw [mjx_closestSegmentPoint_eq, mjxSegParam, closestOnSeg, segParam, e1, e2]
  · linarith
  · linarith [dot_seg_pos hab]
  · linarith [dot_seg_pos hab]

/-- … or at/after its end by the margin of the regulariser
(`(q − a)·(b − a) ≥ |b − a|² + 1e-6`: both return `b`) -/
theorem mjx_closestSegmentPoint_eq_end (a b q : V3 ℝ) (hab : a ≠ b)
    (h : V3.dot (b - a) (b - a) + 1e-6 ≤ V3.dot (q - a) (b - a)) :
    Mjx.closestSegmentPoint a b q = closestOnSeg a b q := by
  rcases clip_div_cases _ (V3.dot (q - a) (b - a)) 1e-6 (dot_seg_pos hab) (by norm_num) with
    ⟨h0, _⟩ | ⟨_, h1, _⟩ | ⟨_, h2, _⟩ | ⟨_, e1, e2⟩
  · linarith [dot_seg_pos hab]
  · linarith
  · linarith
  · rw [mjx_closestSegmentPoint_eq, mjxSegParam, closestOnSeg, segParam, e1, e2]

/-- in between the parameter is short of the exact one by at most `1e-6 / (|b − a|² + 1e-6)` -/
theorem mjxSegParam_err (a b q : V3 ℝ) (hab : a ≠ b) :
    0 ≤ segParam a b q - mjxSegParam a b q
    ∧ segParam a b q - mjxSegParam a b q ≤ 1e-6 / (V3.dot (b - a) (b - a) + 1e-6) :=
  clip_div_param_err _ (V3.dot (q - a) (b - a)) 1e-6 (dot_seg_pos hab) (by norm_num)

/-- … so the returned point is within `1e-6·|b − a| / (|b − a|² + 1e-6)` of the nearest point -/
theorem mjx_closestSegmentPoint_err (a b q : V3 ℝ) (hab : a ≠ b) :
    norm3 (closestOnSeg a b q - Mjx.closestSegmentPoint a b q)
      ≤ 1e-6 / (V3.dot (b - a) (b - a) + 1e-6) * norm3 (b - a) := by
  obtain ⟨h0, h1⟩ := mjxSegParam_err a b q hab
  have e : closestOnSeg a b q - Mjx.closestSegmentPoint a b q
      = V3.smul (segParam a b q - mjxSegParam a b q) (b - a) := by
    rw [mjx_closestSegmentPoint_eq, closestOnSeg]
    simp only [V3.smul, V3.add_def, V3.sub_def]; congr 1 <;> ring
  rw [e, norm3_smul, abs_of_nonneg h0]
  exact mul_le_mul_of_nonneg_right h1 (norm3_nonneg _)

/-- squared distance from `q` to the point with parameter `t` of the segment -/
theorem sqdist_param (a b q : V3 ℝ) (t : ℝ) :
    V3.dot (q - (a + V3.smul t (b - a))) (q - (a + V3.smul t (b - a)))
      = V3.dot (q - a) (q - a) + (V3.dot (b - a) (b - a) * t ^ 2 - 2 * V3.dot (q - a) (b - a) * t) := by
  simp only [V3.dot, V3.smul, V3.add_def, V3.sub_def]; ring

/-- **second-order bound**: the squared distance from `q` to the returned point exceeds the least
squared distance to the segment by at most `3e-12 / (|b − a|² + 1e-6)` (and is never below it) -/
theorem mjx_closestSegmentPoint_sqdist_err (a b q : V3 ℝ) (hab : a ≠ b) :
    0 ≤ V3.dot (q - Mjx.closestSegmentPoint a b q) (q - Mjx.closestSegmentPoint a b q)
          - V3.dot (q - closestOnSeg a b q) (q - closestOnSeg a b q)
    ∧ V3.dot (q - Mjx.closestSegmentPoint a b q) (q - Mjx.closestSegmentPoint a b q)
          - V3.dot (q - closestOnSeg a b q) (q - closestOnSeg a b q)
        ≤ 3e-12 / (V3.dot (b - a) (b - a) + 1e-6) := by
  have h := clip_div_quad_err _ (V3.dot (q - a) (b - a)) 1e-6 (dot_seg_pos hab) (by norm_num)
  rw [mjx_closestSegmentPoint_eq, closestOnSeg, sqdist_param, sqdist_param, mjxSegParam, segParam]
  have e3 : (3 : ℝ) * 1e-6 ^ 2 = 3e-12 := by norm_num
  rw [e3] at h
  constructor
  · linarith [h.1]
  · linarith [h.2]

/-- the same as a bound on the distances: `(d_mjx − d_exact)·(d_mjx + d_exact) ≤ 3e-12/(|b−a|²+1e-6)`
with `0 ≤ d_mjx − d_exact` — e.g. `|b − a| = 0.1`, `d ≈ 0.1` gives `1.5e-9` -/
theorem mjx_closestSegmentPoint_dist_err (a b q : V3 ℝ) (hab : a ≠ b) :
    norm3 (q - closestOnSeg a b q) ≤ norm3 (q - Mjx.closestSegmentPoint a b q)
    ∧ (norm3 (q - Mjx.closestSegmentPoint a b q) - norm3 (q - closestOnSeg a b q))
        * (norm3 (q - Mjx.closestSegmentPoint a b q) + norm3 (q - closestOnSeg a b q))
      ≤ 3e-12 / (V3.dot (b - a) (b - a) + 1e-6) := by
  obtain ⟨h0, h1⟩ := mjx_closestSegmentPoint_sqdist_err a b q hab
  constructor
  · rw [norm3_def, norm3_def]
    apply Real.sqrt_le_sqrt
    linarith
  · have e : ∀ x y : ℝ, (x - y) * (x + y) = x * x - y * y := by intro x y; ring
    rw [e, norm3_mul_self, norm3_mul_self]
    exact h1

/-! ## sphere – capsule -/

/-- `sphere_capsule`: the row is the exact sphere–sphere candidate against the ball centred at the
point `P` that `closest_segment_point` returns (a point of the capsule's axis segment), provided
`P − c` is outside the guard of `math.norm` -/
theorem mjx_sphere_capsule_rows (s1 s2 : V3 ℝ) (w1 w2 : V3 ℝ × M3 ℝ)
    (h : ¬ Small (Mjx.closestSegmentPoint (w2.1 - V3.smul s2.y w2.2.col2)
            (w2.1 + V3.smul s2.y w2.2.col2) w1.1 - w1.1)) :
    Mjx.pairRows 2 s1 w1 3 s2 w2
      = some [candRow (sphereSphere w1.1 s1.x
          (Mjx.closestSegmentPoint (w2.1 - V3.smul s2.y w2.2.col2) (w2.1 + V3.smul s2.y w2.2.col2) w1.1)
          s2.x)] := by
  simp only [Mjx.pairRows, frame0_sphereSphere']
  rw [mjx_sphereSphere'_eq _ _ _ _ h]

/-- `sphere_capsule` **is** the closed form when the sphere centre projects outside the open axis
segment (nearest point = an end-cap centre; at the far end by the margin `1e-6`) -/
theorem mjx_sphere_capsule_rows_eq (s1 s2 : V3 ℝ) (w1 w2 : V3 ℝ × M3 ℝ)
    (hab : w2.1 - V3.smul s2.y w2.2.col2 ≠ w2.1 + V3.smul s2.y w2.2.col2)
    (hend : V3.dot (w1.1 - (w2.1 - V3.smul s2.y w2.2.col2))
              ((w2.1 + V3.smul s2.y w2.2.col2) - (w2.1 - V3.smul s2.y w2.2.col2)) ≤ 0
          ∨ V3.dot ((w2.1 + V3.smul s2.y w2.2.col2) - (w2.1 - V3.smul s2.y w2.2.col2))
                ((w2.1 + V3.smul s2.y w2.2.col2) - (w2.1 - V3.smul s2.y w2.2.col2)) + 1e-6
              ≤ V3.dot (w1.1 - (w2.1 - V3.smul s2.y w2.2.col2))
                  ((w2.1 + V3.smul s2.y w2.2.col2) - (w2.1 - V3.smul s2.y w2.2.col2)))
    (h : ¬ Small (closestOnSeg (w2.1 - V3.smul s2.y w2.2.col2) (w2.1 + V3.smul s2.y w2.2.col2) w1.1
            - w1.1)) :
    Mjx.pairRows 2 s1 w1 3 s2 w2
      = some [candRow (sphereCapsule w1.1 s1.x w2.1 w2.2.col2 s2.y s2.x)] := by
  have e : Mjx.closestSegmentPoint (w2.1 - V3.smul s2.y w2.2.col2) (w2.1 + V3.smul s2.y w2.2.col2) w1.1
      = closestOnSeg (w2.1 - V3.smul s2.y w2.2.col2) (w2.1 + V3.smul s2.y w2.2.col2) w1.1 := by
    rcases hend with h1 | h1
    · exact mjx_closestSegmentPoint_eq_start _ _ _ hab h1
    · exact mjx_closestSegmentPoint_eq_end _ _ _ hab h1
  rw [mjx_sphere_capsule_rows s1 s2 w1 w2 (by rw [e]; exact h), e]
  rfl

/-! ## capsule – capsule: the returned points are points of the two axis segments -/

/-- `p` is a point of the segment `a…b` -/
def OnSeg (a b p : V3 ℝ) : Prop := ∃ s : ℝ, 0 ≤ s ∧ s ≤ 1 ∧ p = a + V3.smul s (b - a)

theorem onSeg_closestSegmentPoint (a b q : V3 ℝ) : OnSeg a b (Mjx.closestSegmentPoint a b q) :=
  ⟨_, (mjxSegParam_mem a b q).1, (mjxSegParam_mem a b q).2, mjx_closestSegmentPoint_eq a b q⟩

theorem clip_mem_of_le (u lo hi : ℝ) (h : lo ≤ hi) : lo ≤ clip u lo hi ∧ clip u lo hi ≤ hi := by
  rw [clip_eq]; exact ⟨le_min (le_max_right _ _) h, min_le_right _ _⟩

/-- mid-point parametrisation of `closest_segment_to_segment_points`: `mid + clip τ (−half) half · dir`
is a point of the segment, whatever `τ` — also for a segment inside the guard of `math.norm`
(`half = 0`, the point is `a`) -/
theorem onSeg_mid (a b : V3 ℝ) (τ : ℝ) :
    OnSeg a b (a + V3.smul (safeNorm3 (b - a) * 0.5) (normalize3 (b - a))
      + V3.smul (clip τ (-(safeNorm3 (b - a) * 0.5)) (safeNorm3 (b - a) * 0.5)) (normalize3 (b - a))) := by
  by_cases hs : Small (b - a)
  · refine ⟨0, le_refl _, zero_le_one, ?_⟩
    have hc : clip τ (-((0 : ℝ) * 0.5)) (0 * 0.5) = 0 := by
      have := clip_mem_of_le τ (-((0 : ℝ) * 0.5)) (0 * 0.5) (by norm_num)
      norm_num at this ⊢
      linarith [this.1, this.2]
    rw [safeNorm3_of_small hs, hc]
    simp only [V3.smul, V3.add_def]; congr 1 <;> ring
  · have hL : 0 < norm3 (b - a) :=
      lt_of_le_of_ne (norm3_nonneg _) (Ne.symm (norm3_ne_zero_of_not_small hs))
    rw [safeNorm3_of_not_small hs, normalize3_of_not_small hs,
      unitOr_eq_smul (ne_zero_of_not_small hs)]
    set L := norm3 (b - a) with hLdef
    have hm := clip_mem_of_le τ (-(L * 0.5)) (L * 0.5) (by norm_num; linarith)
    set t := clip τ (-(L * 0.5)) (L * 0.5) with ht
    refine ⟨(L * 0.5 + t) / L, ?_, ?_, ?_⟩
    · apply div_nonneg _ hL.le; linarith [hm.1]
    · rw [div_le_one hL]; norm_num at hm ⊢; linarith [hm.2]
    · simp only [V3.smul, V3.add_def]
      congr 1 <;> field_simp <;> ring

theorem ite_pair_props {c : Prop} [Decidable c] {P Q : V3 ℝ → Prop} {x y : V3 ℝ × V3 ℝ}
    (hx : P x.1 ∧ Q x.2) (hy : P y.1 ∧ Q y.2) :
    P (if c then x else y).1 ∧ Q (if c then x else y).2 := by
  split_ifs <;> assumption

/-- **both points returned by `closest_segment_to_segment_points` lie on their segments**, for all
inputs (so the distance between them is never below the true distance of the segments) -/
theorem mjx_segseg_onSeg (a0 a1 b0 b1 : V3 ℝ) :
    OnSeg a0 a1 (Mjx.closestSegmentToSegmentPoints a0 a1 b0 b1).1
    ∧ OnSeg b0 b1 (Mjx.closestSegmentToSegmentPoints a0 a1 b0 b1).2 := by
  unfold Mjx.closestSegmentToSegmentPoints
  simp only [Mjx.normalizeWithNorm]
  exact ite_pair_props (P := OnSeg a0 a1) (Q := OnSeg b0 b1)
    ⟨onSeg_closestSegmentPoint _ _ _, onSeg_mid _ _ _⟩
    ⟨onSeg_mid _ _ _, onSeg_closestSegmentPoint _ _ _⟩

/-- `capsule_capsule`: the row is the exact sphere–sphere candidate of the balls centred at the two
points `closest_segment_to_segment_points` returns, provided their difference is outside the guard -/
theorem mjx_capsule_capsule_rows (s1 s2 : V3 ℝ) (w1 w2 : V3 ℝ × M3 ℝ)
    (h : ¬ Small
      ((Mjx.closestSegmentToSegmentPoints (w1.1 - V3.smul s1.y w1.2.col2) (w1.1 + V3.smul s1.y w1.2.col2)
          (w2.1 - V3.smul s2.y w2.2.col2) (w2.1 + V3.smul s2.y w2.2.col2)).2
       - (Mjx.closestSegmentToSegmentPoints (w1.1 - V3.smul s1.y w1.2.col2) (w1.1 + V3.smul s1.y w1.2.col2)
          (w2.1 - V3.smul s2.y w2.2.col2) (w2.1 + V3.smul s2.y w2.2.col2)).1)) :
    Mjx.pairRows 3 s1 w1 3 s2 w2
      = some [candRow (sphereSphere
          (Mjx.closestSegmentToSegmentPoints (w1.1 - V3.smul s1.y w1.2.col2) (w1.1 + V3.smul s1.y w1.2.col2)
            (w2.1 - V3.smul s2.y w2.2.col2) (w2.1 + V3.smul s2.y w2.2.col2)).1 s1.x
          (Mjx.closestSegmentToSegmentPoints (w1.1 - V3.smul s1.y w1.2.col2) (w1.1 + V3.smul s1.y w1.2.col2)
            (w2.1 - V3.smul s2.y w2.2.col2) (w2.1 + V3.smul s2.y w2.2.col2)).2 s2.x)] := by
  simp only [Mjx.pairRows, frame0_sphereSphere']
  rw [mjx_sphereSphere'_eq _ _ _ _ h]


/-! ## translator tie: the definitions generated from the real `mujoco.mjx` functions

`Brax/Gen/Mjx.lean` is produced by `harness/gen_lean_mjx.py` from the jaxprs of the real
`collision_primitive.plane_sphere / plane_capsule / sphere_sphere / sphere_capsule / capsule_capsule`
(called through their `@collider` wrapper).  The bridge theorems below say that the hand
transcription `Mjx.pairRows` returns exactly those rows. -/

theorem isclose_comp (x : ℝ) :
    (eqR x 0 || decide (absv (x - 0) ≤ (1e-8 : ℝ) + (1e-5 : ℝ) * absv 0)) = decide (absv x ≤ (1e-8 : ℝ)) := by
  have h0 : absv (0 : ℝ) = 0 := by simp
  rw [h0, mul_zero, add_zero, sub_zero]
  by_cases h : absv x ≤ (1e-8 : ℝ)
  · rw [decide_eq_true h, Bool.or_true]
  · simp only [h, decide_false, Bool.or_false]
    rw [Bool.eq_false_iff]
    intro hc
    rw [eqR_iff] at hc
    apply h; rw [hc]; simp; norm_num

theorem allclose3 (x y z : ℝ) :
    ((decide (absv x ≤ (1e-8 : ℝ)) && decide (absv y ≤ (1e-8 : ℝ))) && decide (absv z ≤ (1e-8 : ℝ)))
      = allClose0 [x, y, z] := by
  simp [allClose0, List.all_cons, Bool.and_assoc]

theorem eqR_zero (x : ℝ) : eqR x 0 = eqZero x := by
  rw [Bool.eq_iff_iff, eqR_iff, eqZero_iff]

theorem isclose_comp' (x : ℝ) :
    (eqZero x || decide (absv (x - 0) ≤ (1e-8 : ℝ) + (1e-5 : ℝ) * absv 0)) = decide (absv x ≤ (1e-8 : ℝ)) := by
  rw [← eqR_zero]; exact isclose_comp x

theorem gen_norm_pat (b : Bool) (x y z : ℝ) :
    (if b = true then (0 : ℝ) else HasSqrt.sqrt (((if b = true then 1 else x) * (if b = true then 1 else x)
        + (if b = true then 1 else y) * (if b = true then 1 else y))
        + (if b = true then 1 else z) * (if b = true then 1 else z)))
      = if b = true then 0 else HasSqrt.sqrt (x * x + y * y + z * z) := by
  cases b <;> simp

theorem safeNorm3_mk (x y z : ℝ) :
    safeNorm3 (⟨x, y, z⟩ : V3 ℝ) = if allClose0 [x, y, z] = true then 0 else HasSqrt.sqrt (x * x + y * y + z * z) := by
  by_cases hz : allClose0 [x, y, z] = true
  · simp [safeNorm3, safeNormL, hz]
  · have hz' : allClose0 [x, y, z] = false := by simpa using hz
    simp only [safeNorm3, safeNormL, hz', Bool.false_eq_true, if_false, List.foldl, zero_add]

/-- the generated norm pattern is `math.norm` -/
theorem gen_norm (x y z : ℝ) :
    (if allClose0 [x, y, z] = true then (0 : ℝ) else HasSqrt.sqrt (x * x + y * y + z * z))
      = safeNorm3 ⟨x, y, z⟩ := (safeNorm3_mk x y z).symm

theorem guard_pat (n : ℝ) (b : Bool) :
    n + (1e-6 : ℝ) * (if b = true then 1 else 0) = if b = true then n + 1e-6 else n := by
  cases b <;> simp

theorem bridge_planeSphere_dist (s1 p1 : V3 ℝ) (m1 : M3 ℝ) (s2 p2 : V3 ℝ) (m2 : M3 ℝ) :
    Gen.Mjx.planeSphere_dist s1 p1 m1 s2 p2 m2 = (Mjx.planeSphere' m1.col2 p1 p2 s2.x).1 := by
  simp only [Gen.Mjx.planeSphere_dist, Mjx.planeSphere', V3.dot, V3.sub_def, M3.col2]

theorem bridge_planeSphere_pos (s1 p1 : V3 ℝ) (m1 : M3 ℝ) (s2 p2 : V3 ℝ) (m2 : M3 ℝ) :
    Gen.Mjx.planeSphere_pos s1 p1 m1 s2 p2 m2 = (Mjx.planeSphere' m1.col2 p1 p2 s2.x).2 := by
  simp only [Gen.Mjx.planeSphere_pos, Mjx.planeSphere', V3.dot, V3.sub_def, V3.smul, M3.col2]
  congr 1 <;> ring

theorem bridge_planeSphere_n (s1 p1 : V3 ℝ) (m1 : M3 ℝ) (s2 p2 : V3 ℝ) (m2 : M3 ℝ) :
    Gen.Mjx.planeSphere_n s1 p1 m1 s2 p2 m2 = Mjx.frame0 m1.col2 := by
  simp only [Gen.Mjx.planeSphere_n, isclose_comp, isclose_comp', allclose3, gen_norm_pat, gen_norm, eqR_zero, guard_pat,
    Mjx.frame0, normalize3, M3.col2]
  rfl

/-- **bridge**: `plane_sphere` -/
theorem bridge_planeSphere (s1 p1 : V3 ℝ) (m1 : M3 ℝ) (s2 p2 : V3 ℝ) (m2 : M3 ℝ) :
    Mjx.pairRows 0 s1 (p1, m1) 2 s2 (p2, m2) = some (Gen.Mjx.planeSphere s1 p1 m1 s2 p2 m2) := by
  simp only [Mjx.pairRows, Gen.Mjx.planeSphere, bridge_planeSphere_dist, bridge_planeSphere_pos,
    bridge_planeSphere_n]

theorem bridge_planeCapsule_dist0 (s1 p1 : V3 ℝ) (m1 : M3 ℝ) (s2 p2 : V3 ℝ) (m2 : M3 ℝ) :
    Gen.Mjx.planeCapsule_dist0 s1 p1 m1 s2 p2 m2
      = (Mjx.planeSphere' m1.col2 p1 (p2 + V3.smul s2.y m2.col2) s2.x).1 := by
  simp only [Gen.Mjx.planeCapsule_dist0, Mjx.planeSphere', V3.dot, V3.sub_def, V3.add_def, V3.smul,
    M3.col2]
  ring

theorem bridge_planeCapsule_pos0 (s1 p1 : V3 ℝ) (m1 : M3 ℝ) (s2 p2 : V3 ℝ) (m2 : M3 ℝ) :
    Gen.Mjx.planeCapsule_pos0 s1 p1 m1 s2 p2 m2
      = (Mjx.planeSphere' m1.col2 p1 (p2 + V3.smul s2.y m2.col2) s2.x).2 := by
  simp only [Gen.Mjx.planeCapsule_pos0, Mjx.planeSphere', V3.dot, V3.sub_def, V3.add_def, V3.smul,
    M3.col2]
  congr 1 <;> ring

theorem bridge_planeCapsule_dist1 (s1 p1 : V3 ℝ) (m1 : M3 ℝ) (s2 p2 : V3 ℝ) (m2 : M3 ℝ) :
    Gen.Mjx.planeCapsule_dist1 s1 p1 m1 s2 p2 m2
      = (Mjx.planeSphere' m1.col2 p1 (p2 - V3.smul s2.y m2.col2) s2.x).1 := by
  simp only [Gen.Mjx.planeCapsule_dist1, Mjx.planeSphere', V3.dot, V3.sub_def, V3.add_def, V3.smul,
    M3.col2]
  ring

theorem bridge_planeCapsule_pos1 (s1 p1 : V3 ℝ) (m1 : M3 ℝ) (s2 p2 : V3 ℝ) (m2 : M3 ℝ) :
    Gen.Mjx.planeCapsule_pos1 s1 p1 m1 s2 p2 m2
      = (Mjx.planeSphere' m1.col2 p1 (p2 - V3.smul s2.y m2.col2) s2.x).2 := by
  simp only [Gen.Mjx.planeCapsule_pos1, Mjx.planeSphere', V3.dot, V3.sub_def, V3.add_def, V3.smul,
    M3.col2]
  congr 1 <;> ring

/-- **bridge**: `plane_capsule` (both rows, in order) -/
theorem bridge_planeCapsule (s1 p1 : V3 ℝ) (m1 : M3 ℝ) (s2 p2 : V3 ℝ) (m2 : M3 ℝ) :
    Mjx.pairRows 0 s1 (p1, m1) 3 s2 (p2, m2) = some (Gen.Mjx.planeCapsule s1 p1 m1 s2 p2 m2) := by
  simp only [Mjx.pairRows, Gen.Mjx.planeCapsule, bridge_planeCapsule_dist0, bridge_planeCapsule_pos0,
    bridge_planeCapsule_dist1, bridge_planeCapsule_pos1]
  rfl

theorem bridge_sphereSphere_dist (s1 p1 : V3 ℝ) (m1 : M3 ℝ) (s2 p2 : V3 ℝ) (m2 : M3 ℝ) :
    Gen.Mjx.sphereSphere_dist s1 p1 m1 s2 p2 m2 = (Mjx.sphereSphere' p1 s1.x p2 s2.x).1 := by
  simp only [Gen.Mjx.sphereSphere_dist, isclose_comp, isclose_comp', allclose3, gen_norm_pat, gen_norm,
    eqR_zero, guard_pat, Mjx.sphereSphere', Mjx.normalizeWithNorm, V3.sub_def]

theorem bridge_sphereSphere_pos (s1 p1 : V3 ℝ) (m1 : M3 ℝ) (s2 p2 : V3 ℝ) (m2 : M3 ℝ) :
    Gen.Mjx.sphereSphere_pos s1 p1 m1 s2 p2 m2 = (Mjx.sphereSphere' p1 s1.x p2 s2.x).2.1 := by
  simp only [Gen.Mjx.sphereSphere_pos, isclose_comp, isclose_comp', allclose3, gen_norm_pat, gen_norm,
    eqR_zero, guard_pat, Mjx.sphereSphere', Mjx.normalizeWithNorm, normalize3, V3.sub_def]
  by_cases hN : eqZero (safeNorm3 (⟨p2.x - p1.x, p2.y - p1.y, p2.z - p1.z⟩ : V3 ℝ)) = true
  · simp only [hN, if_true, V3.smul, V3.add_def]
    congr 1 <;> ring
  · simp only [hN, Bool.false_eq_true, if_false, V3.smul, V3.add_def]
    congr 1 <;> ring

theorem bridge_sphereSphere_n (s1 p1 : V3 ℝ) (m1 : M3 ℝ) (s2 p2 : V3 ℝ) (m2 : M3 ℝ) :
    Gen.Mjx.sphereSphere_n s1 p1 m1 s2 p2 m2 = Mjx.frame0 (Mjx.sphereSphere' p1 s1.x p2 s2.x).2.2 := by
  simp only [Gen.Mjx.sphereSphere_n, isclose_comp, isclose_comp', allclose3, gen_norm_pat, gen_norm,
    eqR_zero, guard_pat, Mjx.sphereSphere', Mjx.normalizeWithNorm, Mjx.frame0, normalize3, V3.sub_def]
  by_cases hN : eqZero (safeNorm3 (⟨p2.x - p1.x, p2.y - p1.y, p2.z - p1.z⟩ : V3 ℝ)) = true
  · simp only [hN, if_true]
  · simp only [hN, Bool.false_eq_true, if_false]

/-- **bridge**: `sphere_sphere` -/
theorem bridge_sphereSphere (s1 p1 : V3 ℝ) (m1 : M3 ℝ) (s2 p2 : V3 ℝ) (m2 : M3 ℝ) :
    Mjx.pairRows 2 s1 (p1, m1) 2 s2 (p2, m2) = some (Gen.Mjx.sphereSphere s1 p1 m1 s2 p2 m2) := by
  simp only [Mjx.pairRows, Gen.Mjx.sphereSphere, bridge_sphereSphere_dist, bridge_sphereSphere_pos,
    bridge_sphereSphere_n]

/-- `jp.clip(t, 0, 1)` as the jaxpr spells it (`max` then `min` by `select`) -/
theorem clip01_pat (t : ℝ) :
    (if decide (1 < (if decide (0 < t) = true then t else 0)) = true then (1 : ℝ)
      else (if decide (0 < t) = true then t else 0)) = clip t 0 1 := by
  simp only [decide_eq_true_eq, clip]
  by_cases h0 : 0 < t
  · have h0' : ¬ t < 0 := not_lt.mpr h0.le
    simp only [h0, h0', if_true, if_false]
  · have : (if t < 0 then (0 : ℝ) else t) = 0 := by
      split_ifs with h
      · rfl
      · linarith [not_lt.mp h0, not_lt.mp h]
    simp only [h0, if_false, this]

theorem bridge_sphereCapsule_dist (s1 p1 : V3 ℝ) (m1 : M3 ℝ) (s2 p2 : V3 ℝ) (m2 : M3 ℝ) :
    Gen.Mjx.sphereCapsule_dist s1 p1 m1 s2 p2 m2
      = (Mjx.sphereSphere' p1 s1.x (Mjx.closestSegmentPoint (p2 - V3.smul s2.y m2.col2)
          (p2 + V3.smul s2.y m2.col2) p1) s2.x).1 := by
  simp only [Gen.Mjx.sphereCapsule_dist, isclose_comp, isclose_comp', allclose3, gen_norm_pat, gen_norm,
    eqR_zero, guard_pat, clip01_pat, mul_comm m2.r0.z s2.y, mul_comm m2.r1.z s2.y, mul_comm m2.r2.z s2.y,
    Mjx.sphereSphere', Mjx.normalizeWithNorm, Mjx.closestSegmentPoint, V3.dot, V3.smul, V3.sub_def,
    V3.add_def, M3.col2]

theorem bridge_sphereCapsule_pos (s1 p1 : V3 ℝ) (m1 : M3 ℝ) (s2 p2 : V3 ℝ) (m2 : M3 ℝ) :
    Gen.Mjx.sphereCapsule_pos s1 p1 m1 s2 p2 m2
      = (Mjx.sphereSphere' p1 s1.x (Mjx.closestSegmentPoint (p2 - V3.smul s2.y m2.col2) (p2 + V3.smul s2.y m2.col2) p1) s2.x).2.1 := by
  have hPx : (Mjx.closestSegmentPoint (p2 - V3.smul s2.y m2.col2) (p2 + V3.smul s2.y m2.col2) p1).x
      = p2.x - s2.y * m2.r0.z + clip (((p1.x - (p2.x - s2.y * m2.r0.z)) * (p2.x + s2.y * m2.r0.z - (p2.x - s2.y * m2.r0.z)) + (p1.y - (p2.y - s2.y * m2.r1.z)) * (p2.y + s2.y * m2.r1.z - (p2.y - s2.y * m2.r1.z)) + (p1.z - (p2.z - s2.y * m2.r2.z)) * (p2.z + s2.y * m2.r2.z - (p2.z - s2.y * m2.r2.z))) / ((p2.x + s2.y * m2.r0.z - (p2.x - s2.y * m2.r0.z)) * (p2.x + s2.y * m2.r0.z - (p2.x - s2.y * m2.r0.z)) + (p2.y + s2.y * m2.r1.z - (p2.y - s2.y * m2.r1.z)) * (p2.y + s2.y * m2.r1.z - (p2.y - s2.y * m2.r1.z)) + (p2.z + s2.y * m2.r2.z - (p2.z - s2.y * m2.r2.z)) * (p2.z + s2.y * m2.r2.z - (p2.z - s2.y * m2.r2.z)) + 1e-6)) 0 1 * (p2.x + s2.y * m2.r0.z - (p2.x - s2.y * m2.r0.z)) := by
    simp only [Mjx.closestSegmentPoint, V3.dot, V3.smul, V3.sub_def, V3.add_def, M3.col2]
  have hPy : (Mjx.closestSegmentPoint (p2 - V3.smul s2.y m2.col2) (p2 + V3.smul s2.y m2.col2) p1).y
      = p2.y - s2.y * m2.r1.z + clip (((p1.x - (p2.x - s2.y * m2.r0.z)) * (p2.x + s2.y * m2.r0.z - (p2.x - s2.y * m2.r0.z)) + (p1.y - (p2.y - s2.y * m2.r1.z)) * (p2.y + s2.y * m2.r1.z - (p2.y - s2.y * m2.r1.z)) + (p1.z - (p2.z - s2.y * m2.r2.z)) * (p2.z + s2.y * m2.r2.z - (p2.z - s2.y * m2.r2.z))) / ((p2.x + s2.y * m2.r0.z - (p2.x - s2.y * m2.r0.z)) * (p2.x + s2.y * m2.r0.z - (p2.x - s2.y * m2.r0.z)) + (p2.y + s2.y * m2.r1.z - (p2.y - s2.y * m2.r1.z)) * (p2.y + s2.y * m2.r1.z - (p2.y - s2.y * m2.r1.z)) + (p2.z + s2.y * m2.r2.z - (p2.z - s2.y * m2.r2.z)) * (p2.z + s2.y * m2.r2.z - (p2.z - s2.y * m2.r2.z)) + 1e-6)) 0 1 * (p2.y + s2.y * m2.r1.z - (p2.y - s2.y * m2.r1.z)) := by
    simp only [Mjx.closestSegmentPoint, V3.dot, V3.smul, V3.sub_def, V3.add_def, M3.col2]
  have hPz : (Mjx.closestSegmentPoint (p2 - V3.smul s2.y m2.col2) (p2 + V3.smul s2.y m2.col2) p1).z
      = p2.z - s2.y * m2.r2.z + clip (((p1.x - (p2.x - s2.y * m2.r0.z)) * (p2.x + s2.y * m2.r0.z - (p2.x - s2.y * m2.r0.z)) + (p1.y - (p2.y - s2.y * m2.r1.z)) * (p2.y + s2.y * m2.r1.z - (p2.y - s2.y * m2.r1.z)) + (p1.z - (p2.z - s2.y * m2.r2.z)) * (p2.z + s2.y * m2.r2.z - (p2.z - s2.y * m2.r2.z))) / ((p2.x + s2.y * m2.r0.z - (p2.x - s2.y * m2.r0.z)) * (p2.x + s2.y * m2.r0.z - (p2.x - s2.y * m2.r0.z)) + (p2.y + s2.y * m2.r1.z - (p2.y - s2.y * m2.r1.z)) * (p2.y + s2.y * m2.r1.z - (p2.y - s2.y * m2.r1.z)) + (p2.z + s2.y * m2.r2.z - (p2.z - s2.y * m2.r2.z)) * (p2.z + s2.y * m2.r2.z - (p2.z - s2.y * m2.r2.z)) + 1e-6)) 0 1 * (p2.z + s2.y * m2.r2.z - (p2.z - s2.y * m2.r2.z)) := by
    simp only [Mjx.closestSegmentPoint, V3.dot, V3.smul, V3.sub_def, V3.add_def, M3.col2]
  simp only [Gen.Mjx.sphereCapsule_pos, clip01_pat, mul_comm m2.r0.z s2.y, mul_comm m2.r1.z s2.y,
    mul_comm m2.r2.z s2.y, ← hPx, ← hPy, ← hPz]
  generalize Mjx.closestSegmentPoint (p2 - V3.smul s2.y m2.col2) (p2 + V3.smul s2.y m2.col2) p1 = P
  simp only [isclose_comp, isclose_comp', allclose3, gen_norm_pat, gen_norm, eqR_zero, guard_pat,
    Mjx.sphereSphere', Mjx.normalizeWithNorm, Mjx.frame0, normalize3, V3.sub_def, V3.smul, V3.add_def]
  by_cases hN : eqZero (safeNorm3 (⟨P.x - p1.x, P.y - p1.y, P.z - p1.z⟩ : V3 ℝ)) = true
  · simp only [hN, if_true]
    congr 1 <;> ring
  · simp only [hN, Bool.false_eq_true, if_false]
    congr 1 <;> ring

theorem bridge_sphereCapsule_n (s1 p1 : V3 ℝ) (m1 : M3 ℝ) (s2 p2 : V3 ℝ) (m2 : M3 ℝ) :
    Gen.Mjx.sphereCapsule_n s1 p1 m1 s2 p2 m2
      = Mjx.frame0 (Mjx.sphereSphere' p1 s1.x (Mjx.closestSegmentPoint (p2 - V3.smul s2.y m2.col2) (p2 + V3.smul s2.y m2.col2) p1) s2.x).2.2 := by
  have hPx : (Mjx.closestSegmentPoint (p2 - V3.smul s2.y m2.col2) (p2 + V3.smul s2.y m2.col2) p1).x
      = p2.x - s2.y * m2.r0.z + clip (((p1.x - (p2.x - s2.y * m2.r0.z)) * (p2.x + s2.y * m2.r0.z - (p2.x - s2.y * m2.r0.z)) + (p1.y - (p2.y - s2.y * m2.r1.z)) * (p2.y + s2.y * m2.r1.z - (p2.y - s2.y * m2.r1.z)) + (p1.z - (p2.z - s2.y * m2.r2.z)) * (p2.z + s2.y * m2.r2.z - (p2.z - s2.y * m2.r2.z))) / ((p2.x + s2.y * m2.r0.z - (p2.x - s2.y * m2.r0.z)) * (p2.x + s2.y * m2.r0.z - (p2.x - s2.y * m2.r0.z)) + (p2.y + s2.y * m2.r1.z - (p2.y - s2.y * m2.r1.z)) * (p2.y + s2.y * m2.r1.z - (p2.y - s2.y * m2.r1.z)) + (p2.z + s2.y * m2.r2.z - (p2.z - s2.y * m2.r2.z)) * (p2.z + s2.y * m2.r2.z - (p2.z - s2.y * m2.r2.z)) + 1e-6)) 0 1 * (p2.x + s2.y * m2.r0.z - (p2.x - s2.y * m2.r0.z)) := by
    simp only [Mjx.closestSegmentPoint, V3.dot, V3.smul, V3.sub_def, V3.add_def, M3.col2]
  have hPy : (Mjx.closestSegmentPoint (p2 - V3.smul s2.y m2.col2) (p2 + V3.smul s2.y m2.col2) p1).y
      = p2.y - s2.y * m2.r1.z + clip (((p1.x - (p2.x - s2.y * m2.r0.z)) * (p2.x + s2.y * m2.r0.z - (p2.x - s2.y * m2.r0.z)) + (p1.y - (p2.y - s2.y * m2.r1.z)) * (p2.y + s2.y * m2.r1.z - (p2.y - s2.y * m2.r1.z)) + (p1.z - (p2.z - s2.y * m2.r2.z)) * (p2.z + s2.y * m2.r2.z - (p2.z - s2.y * m2.r2.z))) / ((p2.x + s2.y * m2.r0.z - (p2.x - s2.y * m2.r0.z)) * (p2.x + s2.y * m2.r0.z - (p2.x - s2.y * m2.r0.z)) + (p2.y + s2.y * m2.r1.z - (p2.y - s2.y * m2.r1.z)) * (p2.y + s2.y * m2.r1.z - (p2.y - s2.y * m2.r1.z)) + (p2.z + s2.y * m2.r2.z - (p2.z - s2.y * m2.r2.z)) * (p2.z + s2.y * m2.r2.z - (p2.z - s2.y * m2.r2.z)) + 1e-6)) 0 1 * (p2.y + s2.y * m2.r1.z - (p2.y - s2.y * m2.r1.z)) := by
    simp only [Mjx.closestSegmentPoint, V3.dot, V3.smul, V3.sub_def, V3.add_def, M3.col2]
  have hPz : (Mjx.closestSegmentPoint (p2 - V3.smul s2.y m2.col2) (p2 + V3.smul s2.y m2.col2) p1).z
      = p2.z - s2.y * m2.r2.z + clip (((p1.x - (p2.x - s2.y * m2.r0.z)) * (p2.x + s2.y * m2.r0.z - (p2.x - s2.y * m2.r0.z)) + (p1.y - (p2.y - s2.y * m2.r1.z)) * (p2.y + s2.y * m2.r1.z - (p2.y - s2.y * m2.r1.z)) + (p1.z - (p2.z - s2.y * m2.r2.z)) * (p2.z + s2.y * m2.r2.z - (p2.z - s2.y * m2.r2.z))) / ((p2.x + s2.y * m2.r0.z - (p2.x - s2.y * m2.r0.z)) * (p2.x + s2.y * m2.r0.z - (p2.x - s2.y * m2.r0.z)) + (p2.y + s2.y * m2.r1.z - (p2.y - s2.y * m2.r1.z)) * (p2.y + s2.y * m2.r1.z - (p2.y - s2.y * m2.r1.z)) + (p2.z + s2.y * m2.r2.z - (p2.z - s2.y * m2.r2.z)) * (p2.z + s2.y * m2.r2.z - (p2.z - s2.y * m2.r2.z)) + 1e-6)) 0 1 * (p2.z + s2.y * m2.r2.z - (p2.z - s2.y * m2.r2.z)) := by
    simp only [Mjx.closestSegmentPoint, V3.dot, V3.smul, V3.sub_def, V3.add_def, M3.col2]
  simp only [Gen.Mjx.sphereCapsule_n, clip01_pat, mul_comm m2.r0.z s2.y, mul_comm m2.r1.z s2.y,
    mul_comm m2.r2.z s2.y, ← hPx, ← hPy, ← hPz, isclose_comp, isclose_comp', allclose3, gen_norm_pat,
    gen_norm, eqR_zero, guard_pat]
  generalize Mjx.closestSegmentPoint (p2 - V3.smul s2.y m2.col2) (p2 + V3.smul s2.y m2.col2) p1 = P
  simp only [Mjx.sphereSphere', Mjx.normalizeWithNorm, Mjx.frame0, normalize3, V3.sub_def]
  by_cases hN : eqZero (safeNorm3 (⟨P.x - p1.x, P.y - p1.y, P.z - p1.z⟩ : V3 ℝ)) = true
  · simp only [hN, if_true]
  · simp only [hN, Bool.false_eq_true, if_false]

/-- **bridge**: `sphere_capsule` -/
theorem bridge_sphereCapsule (s1 p1 : V3 ℝ) (m1 : M3 ℝ) (s2 p2 : V3 ℝ) (m2 : M3 ℝ) :
    Mjx.pairRows 2 s1 (p1, m1) 3 s2 (p2, m2) = some (Gen.Mjx.sphereCapsule s1 p1 m1 s2 p2 m2) := by
  simp only [Mjx.pairRows, Gen.Mjx.sphereCapsule, bridge_sphereCapsule_dist, bridge_sphereCapsule_pos,
    bridge_sphereCapsule_n]

end Brax.C10
