import Brax.Lemmas.C02Dyn
import Brax.Lemmas.KinPos
/-!
# C02 helper lemmas: brax's `cdof` (stacked `inv_do` pushes, world rotation, CoM offset) equals
MuJoCo's `cdof` built from `xanchor`/`xaxis`
-/
set_option linter.unusedSectionVars false
set_option linter.unusedSimpArgs false
namespace Brax.Gd
open Brax Kin KinPos

theorem rotate_quatInv_one (v : V3 ℝ) : rotate v (quatInv Q4.one) = v := by
  cases v; simp only [rotate, quatInv, Q4.one, V3.dot, V3.cross, Q4.vec]; congr 1 <;> ring

theorem cross_zero_right' (v : V3 ℝ) : V3.cross v V3.zero = V3.zero := by
  simp [V3.cross, V3.zero]
theorem cross_zero_left' (v : V3 ℝ) : V3.cross V3.zero v = V3.zero := by
  simp [V3.cross, V3.zero]
theorem sub_zero' (v : V3 ℝ) : v - V3.zero = v := by
  cases v; simp [V3.sub_def, V3.zero]
theorem zero_eq : (⟨0, 0, 0⟩ : V3 ℝ) = V3.zero := rfl

/-- **one joint**: MuJoCo's cdof of a joint met at the running pose `stackPose start a J` equals
brax's pushed, rotated and shifted dof axis -/
theorem joint_cdof_eq (start : Tf ℝ) (hs : start.rot.IsUnit) (a c : V3 ℝ) (J : Tf ℝ)
    (d : DofP ℝ) (q : ℝ) (hd : IsHinge d ∨ IsSlide d q) :
    MjD.jointCdof c
        ⟨Mj.v3IsZero d.motion.vel,
         (stackPose start a J).pos + rotate a (stackPose start a J).rot,
         rotate (if Mj.v3IsZero d.motion.vel then d.motion.ang else d.motion.vel) (stackPose start a J).rot⟩
      = Tf.doMotion ⟨c - (start.pos + rotate a start.rot), Q4.one⟩
          (cdofWorld false start.rot (Tf.invDoMotion J d.motion)) := by
  rcases hd with hh | hsl
  · have hz : Mj.v3IsZero d.motion.vel = true := (v3IsZero_iff _).mpr hh.1
    have hv : d.motion.vel = V3.zero := hh.1
    simp only [MjD.jointCdof, hz, if_true, MjD.dofComRot]
    simp only [Tf.doMotion, cdofWorld, Tf.invDoMotion,
      Bool.false_eq_true, if_false, rotate_quatInv_one, hv, rotate_zero, V3.zero_add',
      stackPose, Tf.doTf, rotate_quatMul, rotate_add, rotate_sub]
    rw [← rotate_cross_unit _ _ hs]
    apply Motion.ext'
    · rfl
    · simp only [V3.cross, V3.add_def, V3.sub_def]
      apply V3.ext' <;> simp only <;> ring
  · have hnz : Mj.v3IsZero d.motion.vel = false := by
      rw [Bool.eq_false_iff]; intro hc
      rw [v3IsZero_iff] at hc
      have := hsl.2.1
      rw [hc] at this; simp [V3.dot] at this
    have ha : d.motion.ang = V3.zero := hsl.1
    simp only [MjD.jointCdof, hnz, Bool.false_eq_true, if_false, MjD.dofComLin]
    simp only [Tf.doMotion, cdofWorld, Bool.false_eq_true, if_false,
      Tf.invDoMotion, rotate_quatInv_one, ha, rotate_zero, cross_zero_right', V3.add_zero', sub_zero',
      stackPose, Tf.doTf, rotate_quatMul]

/-- **whole stack**, by induction on the joint list -/
theorem stack_cdof_eq (start : Tf ℝ) (hs : start.rot.IsUnit) (a c : V3 ℝ) :
    ∀ (dqs : List (DofP ℝ × ℝ)) (J : Tf ℝ), J.rot.IsUnit →
      (∀ dq ∈ dqs, IsHinge dq.1 ∨ IsSlide dq.1 dq.2) → ∀ (acc : List (MjD.JointW ℝ)),
      ((dqs.foldl (MjD.jointStep a) (stackPose start a J, acc)).2).map (MjD.jointCdof c)
        = acc.map (MjD.jointCdof c)
          ++ (cdofStack dqs J).map fun m =>
              Tf.doMotion ⟨c - (start.pos + rotate a start.rot), Q4.one⟩ (cdofWorld false start.rot m) := by
  intro dqs
  induction dqs with
  | nil => intro J _ _ acc; simp [cdofStack]
  | cons dq rest ih =>
    intro J hJ hd acc
    obtain ⟨h1, h2⟩ := applyJoint_stackPose start a J dq.1 dq.2 hs hJ (hd dq (by simp))
    simp only [List.foldl, cdofStack, List.map_cons]
    have hstep : MjD.jointStep a (stackPose start a J, acc) dq
        = (stackPose start a (Tf.doTf J (dofTf dq.1 dq.2)),
           acc ++ [⟨Mj.v3IsZero dq.1.motion.vel,
             (stackPose start a J).pos + rotate a (stackPose start a J).rot,
             rotate (if Mj.v3IsZero dq.1.motion.vel then dq.1.motion.ang else dq.1.motion.vel)
               (stackPose start a J).rot⟩]) := by
      unfold MjD.jointStep
      simp only
      rw [show (dq.1, dq.2) = dq from rfl] at h1
      rw [h1]
    rw [hstep]
    have hj : (jcalcDof dq.1 dq.2 0).1 = dofTf dq.1 dq.2 := rfl
    rw [hj, ih _ h2 (fun x hx => hd x (by simp [hx]))]
    rw [List.map_append, List.map_cons, List.map_nil, List.append_assoc, List.singleton_append]
    rw [joint_cdof_eq start hs a c J dq.1 dq.2 (hd dq (by simp))]

end Brax.Gd
