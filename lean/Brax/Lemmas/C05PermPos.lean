import Brax.Lemmas.C05Perm
import Brax.Lemmas.C05Pos
/-!
# C05, sibling order and disconnected components for a whole `positional.pipeline.step`

Same method as `C05Perm.lean`: `pstep_restr` (one contact-free positional step restricts along an
embedding `EmbP` of a union of connected components), then the disjoint union (`ι = id`,
`ι = (· + n1)`) and the relabelling (`ι = σ`).  The two stages that are not row-by-row are
`Spring.assemble` (shared with the spring pipeline, `assemble_restr`) and
`joints.position_update`'s `positionAssemble`: parent lookup through the appended `Transform.zero`
row, `i_inv[p_idx] * (p_idx > -1)` / `mass_inv[p_idx] * (p_idx > -1)` (the wrapped row is masked),
`segment_sum` of the parent deltas over the parent ids.
-/
set_option linter.unusedSectionVars false
set_option linter.unusedSimpArgs false
set_option linter.unusedVariables false
namespace Brax.C05Perm
open Brax MC C04L C05L C05P

/-- `Emb` plus the three further options the positional step reads -/
structure EmbP (ι : Nat → Nat) (s1 s : Sys ℝ) : Prop where
  emb : Emb ι s1 s
  massScale : s.springMassScale = s1.springMassScale
  scalePos : s.jointScalePos = s1.jointScalePos
  scaleAng : s.jointScaleAng = s1.jointScaleAng

/-- `segment_sum` over the parent ids restricts along an embedding, for per-link values that agree
on the non-root links (the values of roots carry id `-1` and are dropped) -/
theorem segParents_restr {M : Type} [AddCommMonoid M] [Inhabited M] {ι : Nat → Nat} {s1 s : Sys ℝ}
    (hE : Emb ι s1 s) (f f1 : Nat → M)
    (hf : ∀ c1, c1 < s1.numLinks → 0 ≤ parentOf s1.parents c1 → f (ι c1) = f1 c1)
    {i : Nat} (hi : i < s1.numLinks) :
    nth (segmentSum (tab s.numLinks f) s.parents s.numLinks) (ι i)
      = nth (segmentSum (tab s1.numLinks f1) s1.parents s1.numLinks) i := by
  rw [nth_segmentSum_eq _ _ (hE.lt i hi), nth_segmentSum_eq _ _ hi, zip_tab_parents _ _ _ hE.plen,
    zip_tab_parents _ _ _ hE.plen1, segAt_tab, segAt_tab]
  apply sum_emb ι s1.numLinks s.numLinks hE.lt hE.inj
  · intro c1 hc1
    rw [hE.par c1 hc1]
    by_cases hp : parentOf s1.parents c1 = (i : Int)
    · rw [if_pos ((mapPar_eq_iff hE hi hc1).mpr hp), if_pos hp, hf c1 hc1 (by omega)]
    · rw [if_neg hp, if_neg (fun h => hp ((mapPar_eq_iff hE hi hc1).mp h))]
  · intro c hc hnot
    rw [if_neg]
    intro hpc
    obtain ⟨c1, hc1, rfl⟩ := hE.closed c hc i hi hpc
    exact hnot c1 hc1 rfl

section stages
variable {ι : Nat → Nat} {s1 s : Sys ℝ} (hE : Emb ι s1 s)
include hE

theorem posJointForces_restr (jd jd1 : List (Motion ℝ)) (tau tau1 : List ℝ)
    (hjd : Restr ι s1.numLinks jd jd1) (hins : InsAgree ι s1 s tau1 tau) :
    Restr ι s1.numLinks (Positional.jointForces s jd tau) (Positional.jointForces s1 jd1 tau1) := by
  intro i hi
  unfold Positional.jointForces
  rw [nth_tab _ (hE.lt i hi), nth_tab _ hi, hins i hi, hE.link i hi, hjd i hi]

theorem acceleration_restr (iInv iInv1 : List (M3 ℝ)) (mass mass1 : List ℝ) (xf xf1 : List (Force ℝ))
    (h1 : Restr ι s1.numLinks iInv iInv1) (h2 : RestrS ι s1.numLinks mass mass1)
    (h4 : Restr ι s1.numLinks xf xf1) :
    Restr ι s1.numLinks (Positional.acceleration s iInv mass xf)
      (Positional.acceleration s1 iInv1 mass1 xf1) := by
  intro i hi
  unfold Positional.acceleration
  rw [nth_tab _ (hE.lt i hi), nth_tab _ hi, h1 i hi, h2 i hi, h4 i hi, hE.gravity]

theorem integrateXddLink_globals (x : Tf ℝ) (xd xdd : Motion ℝ) :
    Positional.integrateXddLink s x xd xdd = Positional.integrateXddLink s1 x xd xdd := by
  unfold Positional.integrateXddLink
  rw [hE.dt, hE.velDamping, hE.angDamping]

theorem integrateXdd_restr (x x1 : List (Tf ℝ)) (xd xd1 xdd xdd1 : List (Motion ℝ))
    (h1 : Restr ι s1.numLinks x x1) (h2 : Restr ι s1.numLinks xd xd1)
    (h3 : Restr ι s1.numLinks xdd xdd1) :
    Restr ι s1.numLinks (Positional.integrateXdd s x xd xdd).1 (Positional.integrateXdd s1 x1 xd1 xdd1).1
    ∧ Restr ι s1.numLinks (Positional.integrateXdd s x xd xdd).2
        (Positional.integrateXdd s1 x1 xd1 xdd1).2 := by
  unfold Positional.integrateXdd
  constructor
  · intro i hi
    simp only []
    rw [nth_tab _ (hE.lt i hi), nth_tab _ hi, h1 i hi, h2 i hi, h3 i hi, integrateXddLink_globals hE]
  · intro i hi
    simp only []
    rw [nth_tab _ (hE.lt i hi), nth_tab _ hi, h1 i hi, h2 i hi, h3 i hi, integrateXddLink_globals hE]

theorem integrateXdv_restr (xd xd1 : List (Motion ℝ)) (h1 : Restr ι s1.numLinks xd xd1) :
    Restr ι s1.numLinks
      (Positional.integrateXdv s xd (tab s.numLinks fun _ => (0 : Motion ℝ)))
      (Positional.integrateXdv s1 xd1 (tab s1.numLinks fun _ => (0 : Motion ℝ))) := by
  intro i hi
  unfold Positional.integrateXdv
  simp only []
  rw [nth_tab _ (hE.lt i hi), nth_tab _ hi, nth_tab _ (hE.lt i hi), nth_tab _ hi, h1 i hi,
    hE.dt, hE.velDamping, hE.angDamping]

theorem projectXd_restr (x x1 xp xp1 : List (Tf ℝ)) (h1 : Restr ι s1.numLinks x x1)
    (h2 : Restr ι s1.numLinks xp xp1) :
    Restr ι s1.numLinks (Positional.projectXd s x xp) (Positional.projectXd s1 x1 xp1) := by
  intro i hi
  unfold Positional.projectXd
  rw [nth_tab _ (hE.lt i hi), nth_tab _ hi, h1 i hi, h2 i hi, hE.dt]

theorem map_restr {β γ : Type} [Inhabited β] [Inhabited γ] (F : β → γ) (l l1 : List β)
    (hl : l.length = s.numLinks) (hl1 : l1.length = s1.numLinks) (h : Restr ι s1.numLinks l l1) :
    Restr ι s1.numLinks (l.map F) (l1.map F) := by
  intro i hi
  have := hE.lt i hi
  rw [nth_map_lt _ _ (by omega), nth_map_lt _ _ (by omega), h i hi]

theorem jointDisplacements_restr (j j1 a_p a_p1 : List (Tf ℝ)) (hj : Restr ι s1.numLinks j j1)
    (hap : Restr ι s1.numLinks a_p a_p1) (hins : InsAgree ι s1 s [] []) :
    Restr ι s1.numLinks (Positional.jointDisplacements s j a_p)
      (Positional.jointDisplacements s1 j1 a_p1) := by
  intro i hi
  unfold Positional.jointDisplacements
  rw [nth_tab _ (hE.lt i hi), nth_tab _ hi, hins i hi, hj i hi, hap i hi, hE.hasLimit]

/-- one link's `(parent delta, child delta)` of `position_update` restricts -/
theorem paUpd_restr (sp sa : ℝ) (a_p a_c x_i a_p1 a_c1 x_i1 : List (Tf ℝ)) (iInv iInv1 : List (M3 ℝ))
    (mI mI1 : List ℝ) (dw dw1 : List (V3 ℝ × V3 ℝ))
    (hap : Restr ι s1.numLinks a_p a_p1) (hac : Restr ι s1.numLinks a_c a_c1)
    (hxi : Restr ι s1.numLinks x_i x_i1) (hI : Restr ι s1.numLinks iInv iInv1)
    (hm : RestrS ι s1.numLinks mI mI1) (hdw : Restr ι s1.numLinks dw dw1)
    (lx : x_i.length = s.numLinks) (lx1 : x_i1.length = s1.numLinks)
    (lI : iInv.length = s.numLinks) (lI1 : iInv1.length = s1.numLinks)
    (lm : mI.length = s.numLinks) (lm1 : mI1.length = s1.numLinks) {i : Nat} (hi : i < s1.numLinks) :
    paUpd s.parents sp sa a_p a_c x_i iInv mI dw (ι i)
      = paUpd s1.parents sp sa a_p1 a_c1 x_i1 iInv1 mI1 dw1 i := by
  have hp : s.parents.getD (ι i) (-1) = mapPar ι (s1.parents.getD i (-1)) := hE.par i hi
  obtain ⟨p1, p2⟩ := hE.par1 i hi
  have hp1 : parentOf s1.parents i = s1.parents.getD i (-1) := rfl
  rw [hp1] at p1 p2
  unfold paUpd
  simp only []
  rw [hp, hap i hi, hac i hi, hxi i hi, hI i hi, hm i hi, hdw i hi]
  unfold mapPar
  by_cases hneg : s1.parents.getD i (-1) < 0
  · have : s1.parents.getD i (-1) = -1 := by omega
    rw [if_pos hneg, this, takeParent_neg_one, takeParent_neg_one]
    simp [maskM, maskS]
  · rw [if_neg hneg]
    obtain ⟨k, hk⟩ := Int.eq_ofNat_of_zero_le (not_lt.mp hneg)
    rw [hk] at p2 ⊢
    have hk' : k < s1.numLinks := by exact_mod_cast p2
    have hιk := hE.lt k hk'
    simp only [Int.toNat_natCast]
    rw [C05Perm.takeParent_nat _ _ (by omega), C05Perm.takeParent_nat _ _ (by omega),
      takeWrap_nat _ (by omega), takeWrap_nat _ (by omega), hxi k hk', hI k hk']
    have e1 : (((ι k : Nat) : Int) % (mI.length : Int)).toNat = ι k := by
      rw [Int.emod_eq_of_lt (by omega) (by omega)]; simp
    have e2 : (((k : Nat) : Int) % (mI1.length : Int)).toNat = k := by
      rw [Int.emod_eq_of_lt (by omega) (by omega)]; simp
    rw [e1, e2]
    have := hm k hk'
    unfold nthS at this
    rw [this]
    have d1 : decide ((-1 : Int) < ((ι k : Nat) : Int)) = true := by simp; omega
    have d2 : decide ((-1 : Int) < ((k : Nat) : Int)) = true := by simp; omega
    rw [d1, d2]

/-- **the assembly of `joints.position_update` restricts along an embedding** -/
theorem positionAssemble_restr (sp sa : ℝ) (a_p a_c x_i a_p1 a_c1 x_i1 : List (Tf ℝ))
    (iInv iInv1 : List (M3 ℝ)) (mI mI1 : List ℝ) (dw dw1 : List (V3 ℝ × V3 ℝ))
    (hap : Restr ι s1.numLinks a_p a_p1) (hac : Restr ι s1.numLinks a_c a_c1)
    (hxi : Restr ι s1.numLinks x_i x_i1) (hI : Restr ι s1.numLinks iInv iInv1)
    (hm : RestrS ι s1.numLinks mI mI1) (hdw : Restr ι s1.numLinks dw dw1)
    (lx : x_i.length = s.numLinks) (lx1 : x_i1.length = s1.numLinks)
    (lI : iInv.length = s.numLinks) (lI1 : iInv1.length = s1.numLinks)
    (lm : mI.length = s.numLinks) (lm1 : mI1.length = s1.numLinks) :
    Restr ι s1.numLinks (Positional.positionAssemble s.parents sp sa a_p a_c x_i iInv mI dw)
      (Positional.positionAssemble s1.parents sp sa a_p1 a_c1 x_i1 iInv1 mI1 dw1) := by
  intro i hi
  have hrow : ∀ c1, c1 < s1.numLinks → _ := fun c1 hc1 =>
    paUpd_restr hE sp sa a_p a_c x_i a_p1 a_c1 x_i1 iInv iInv1 mI mI1 dw dw1 hap hac hxi hI hm hdw
      lx lx1 lI lI1 lm lm1 hc1
  rw [positionAssemble_eq, positionAssemble_eq, hE.plen, hE.plen1, nth_tab _ (hE.lt i hi),
    nth_tab _ hi, hxi i hi, hrow i hi,
    segParents_restr hE _ (fun c1 => (paUpd s1.parents sp sa a_p1 a_c1 x_i1 iInv1 mI1 dw1 c1).1)
      (fun c1 hc1 _ => by rw [hrow c1 hc1]) hi]

end stages

/-! ## composition: one contact-free `Positional.step` -/

/-- what the positional step reads of the two states -/
structure RestrInP (ι : Nat → Nat) (s1 s : Sys ℝ) (st1 st : Positional.State ℝ) : Prop where
  x : Restr ι s1.numLinks st.x st1.x
  x_i : Restr ι s1.numLinks st.x_i st1.x_i
  xd_i : Restr ι s1.numLinks st.xd_i st1.xd_i
  jd : Restr ι s1.numLinks st.jd st1.jd
  a_p : Restr ι s1.numLinks st.a_p st1.a_p
  a_c : Restr ι s1.numLinks st.a_c st1.a_c
  mass : RestrS ι s1.numLinks st.mass st1.mass
  x_il : st.x_i.length = s.numLinks
  x_il1 : st1.x_i.length = s1.numLinks

/-- every per-link field of `st1` is the restriction of the field of `st` along `ι` -/
structure RestrStP (ι : Nat → Nat) (m : Nat) (st1 st : Positional.State ℝ) : Prop where
  x : Restr ι m st.x st1.x
  xd : Restr ι m st.xd st1.xd
  x_i : Restr ι m st.x_i st1.x_i
  xd_i : Restr ι m st.xd_i st1.xd_i
  j : Restr ι m st.j st1.j
  jd : Restr ι m st.jd st1.jd
  a_p : Restr ι m st.a_p st1.a_p
  a_c : Restr ι m st.a_c st1.a_c
  mass : RestrS ι m st.mass st1.mass

theorem massInv_eq_tab (s : Sys ℝ) (hl : s.links.length = s.numLinks) :
    Positional.massInv s = tab s.numLinks fun i =>
      1 / HasPow.pow (nth s.links i).inertia.mass (1 - s.springMassScale) := by
  unfold Positional.massInv effMass
  rw [List.map_map, map_eq_tab _ _ hl]
  rfl

theorem massInv_length (s : Sys ℝ) : (Positional.massInv s).length = s.links.length := by
  simp [Positional.massInv, effMass]

theorem pXi2_len (s : Sys ℝ) (st : Positional.State ℝ) (act : List ℝ)
    (hp : s.parents.length = s.numLinks) : (pXi2 s st act).length = s.numLinks := by
  unfold pXi2
  rw [positionAssemble_eq, tab_length, hp]

section compose
variable {ι : Nat → Nat} {s1 s : Sys ℝ} (hP : EmbP ι s1 s) {st1 st : Positional.State ℝ}
  (hst : RestrInP ι s1 s st1 st) (act1 act : List ℝ)
  (hins : InsAgree ι s1 s (toTau s1 act1 st1.q st1.qd) (toTau s act st.q st.qd))
  (hins0 : InsAgree ι s1 s [] [])
include hP hst hins hins0

theorem massInv_restr : RestrS ι s1.numLinks (Positional.massInv s) (Positional.massInv s1) := by
  intro i hi
  rw [massInv_eq_tab s hP.emb.llen, massInv_eq_tab s1 hP.emb.llen1, nthS_tab _ (hP.emb.lt i hi),
    nthS_tab _ hi, hP.emb.link i hi, hP.massScale]

theorem pXi1_restr :
    Restr ι s1.numLinks (pXi1 s st act).1 (pXi1 s1 st1 act1).1
    ∧ Restr ι s1.numLinks (pXi1 s st act).2 (pXi1 s1 st1 act1).2 := by
  have hE := hP.emb
  unfold pXi1 Positional.accelerationUpdate
  apply integrateXdd_restr hE _ _ _ _ _ _ hst.x_i hst.xd_i
  apply acceleration_restr hE _ _ _ _ _ _ (invInertia_restr hE _ _ hst.x) hst.mass
  exact assemble_restr hE _ _ _ _ _ _ _ _ hst.a_p hst.a_c hst.x_i
    (posJointForces_restr hE _ _ _ _ hst.jd hins) hst.x_il hst.x_il1

theorem pXw1_restr :
    Restr ι s1.numLinks (pXw1 s st act).1 (pXw1 s1 st1 act1).1
    ∧ Restr ι s1.numLinks (pXw1 s st act).2 (pXw1 s1 st1 act1).2 := by
  unfold pXw1
  obtain ⟨h1, h2⟩ := pXi1_restr hP hst act1 act hins hins0
  exact toWorld_restr hP.emb _ _ _ _ h1 h2

theorem pW1_restr :
    Restr ι s1.numLinks ((pW1 s st act).map (·.1)) ((pW1 s1 st1 act1).map (·.1))
    ∧ Restr ι s1.numLinks ((pW1 s st act).map (·.2.1)) ((pW1 s1 st1 act1).map (·.2.1))
    ∧ Restr ι s1.numLinks ((pW1 s st act).map (·.2.2.1)) ((pW1 s1 st1 act1).map (·.2.2.1))
    ∧ Restr ι s1.numLinks ((pW1 s st act).map (·.2.2.2)) ((pW1 s1 st1 act1).map (·.2.2.2)) := by
  obtain ⟨h1, h2⟩ := pXw1_restr hP hst act1 act hins hins0
  have hl : (pXw1 s st act).1.length = s.numLinks ∧ (pXw1 s st act).2.length = s.numLinks := by
    simp [pXw1, Com.toWorld, tab_length]
  have hl1 : (pXw1 s1 st1 act1).1.length = s1.numLinks ∧ (pXw1 s1 st1 act1).2.length = s1.numLinks := by
    simp [pXw1, Com.toWorld, tab_length]
  exact worldToJoint_restr hP.emb _ _ _ _ h1 h2 hl.1 hl1.1 hl.2 hl1.2

theorem pXi2_restr : Restr ι s1.numLinks (pXi2 s st act) (pXi2 s1 st1 act1) := by
  have hE := hP.emb
  obtain ⟨hw1, _, hw3, hw4⟩ := pW1_restr hP hst act1 act hins hins0
  obtain ⟨hx1, _⟩ := pXi1_restr hP hst act1 act hins hins0
  obtain ⟨hxw1, _⟩ := pXw1_restr hP hst act1 act hins hins0
  unfold pXi2 pDisp
  rw [hP.scalePos, hP.scaleAng]
  apply positionAssemble_restr hE _ _ _ _ _ _ _ _ _ _ _ _ _ _ hw3 hw4 hx1
    (invInertia_restr hE _ _ hxw1) (massInv_restr hP hst act1 act hins hins0)
    (jointDisplacements_restr hE _ _ _ _ hw1 hw3 hins0)
  · simp [pXi1, Positional.integrateXdd, tab_length]
  · simp [pXi1, Positional.integrateXdd, tab_length]
  · simp [Com.invInertia, tab_length]
  · simp [Com.invInertia, tab_length]
  · rw [massInv_length, hE.llen]
  · rw [massInv_length, hE.llen1]

theorem pXi3_restr : Restr ι s1.numLinks (pXi3 s st act) (pXi3 s1 st1 act1) := by
  unfold pXi3
  exact map_restr hP.emb normTf _ _ (pXi2_len s st act hP.emb.plen) (pXi2_len s1 st1 act1 hP.emb.plen1)
    (pXi2_restr hP hst act1 act hins hins0)

theorem pXd4_restr : Restr ι s1.numLinks (pXd4 s st act) (pXd4 s1 st1 act1) := by
  unfold pXd4
  exact integrateXdv_restr hP.emb _ _
    (projectXd_restr hP.emb _ _ _ _ (pXi3_restr hP hst act1 act hins hins0) hst.x_i)

theorem pXw4_restr :
    Restr ι s1.numLinks (pXw4 s st act).1 (pXw4 s1 st1 act1).1
    ∧ Restr ι s1.numLinks (pXw4 s st act).2 (pXw4 s1 st1 act1).2 := by
  unfold pXw4
  exact toWorld_restr hP.emb _ _ _ _ (pXi3_restr hP hst act1 act hins hins0)
    (pXd4_restr hP hst act1 act hins hins0)

/-- **one contact-free `positional.pipeline.step` restricts along an embedding of a union of
components**, field by field -/
theorem pstep_restr (inv inv1 : List (Tf ℝ) → List (Motion ℝ) → List ℝ × List ℝ) :
    RestrStP ι s1.numLinks (Positional.step inv1 (fun _ => []) s1 st1 act1)
      (Positional.step inv (fun _ => []) s st act) := by
  obtain ⟨hxw1, hxw2⟩ := pXw4_restr hP hst act1 act hins hins0
  have hl : (pXw4 s st act).1.length = s.numLinks ∧ (pXw4 s st act).2.length = s.numLinks := by
    simp [pXw4, Com.toWorld, tab_length]
  have hl1 : (pXw4 s1 st1 act1).1.length = s1.numLinks ∧ (pXw4 s1 st1 act1).2.length = s1.numLinks := by
    simp [pXw4, Com.toWorld, tab_length]
  obtain ⟨hw1, hw2, hw3, hw4⟩ := worldToJoint_restr hP.emb _ _ _ _ hxw1 hxw2 hl.1 hl1.1 hl.2 hl1.2
  rw [pstep_nil_eq, pstep_nil_eq]
  exact ⟨hxw1, hxw2, pXi3_restr hP hst act1 act hins hins0, pXd4_restr hP hst act1 act hins hins0,
    hw1, hw2, hw3, hw4, hst.mass⟩

end compose

/-! ## lengths, extensionality -/

theorem pstate_ext {a b : Positional.State ℝ} (h1 : a.q = b.q) (h2 : a.qd = b.qd) (h3 : a.x = b.x)
    (h4 : a.xd = b.xd) (h5 : a.x_i = b.x_i) (h6 : a.xd_i = b.xd_i) (h7 : a.j = b.j) (h8 : a.jd = b.jd)
    (h9 : a.a_p = b.a_p) (h10 : a.a_c = b.a_c) (h12 : a.mass = b.mass) : a = b := by
  cases a; cases b; simp only [Positional.State.mk.injEq]
  exact ⟨h1, h2, h3, h4, h5, h6, h7, h8, h9, h10, h12⟩

structure PStepLens (n : Nat) (st : Positional.State ℝ) : Prop where
  x : st.x.length = n
  xd : st.xd.length = n
  x_i : st.x_i.length = n
  xd_i : st.xd_i.length = n
  j : st.j.length = n
  jd : st.jd.length = n
  a_p : st.a_p.length = n
  a_c : st.a_c.length = n

theorem pstep_lens (inv : List (Tf ℝ) → List (Motion ℝ) → List ℝ × List ℝ) (s : Sys ℝ)
    (st : Positional.State ℝ) (act : List ℝ) (hlinks : s.links.length = s.numLinks)
    (hp : s.parents.length = s.numLinks) :
    PStepLens s.numLinks (Positional.step inv (fun _ => []) s st act) := by
  have h1 : (pXw4 s st act).1.length = s.numLinks := by simp [pXw4, Com.toWorld, tab_length]
  have h2 : (pXw4 s st act).2.length = s.numLinks := by simp [pXw4, Com.toWorld, tab_length]
  have hW : (pW4 s st act).length = s.numLinks := by
    rw [pW4, worldToJoint_eq_tab s _ _ hlinks h1 h2, tab_length]
  rw [pstep_nil_eq]
  exact ⟨h1, h2, by simp [pXi3, pXi2_len s st act hp],
    by simp [pXd4, Positional.integrateXdv, tab_length], by simp [hW], by simp [hW], by simp [hW],
    by simp [hW]⟩

/-! ## the slicing without torques (`_sphericalize` reads types and dofs only) -/

theorem linkSlices_nil_nil_append (t1 t2 : List LinkType) (d1 d2 : List (DofP ℝ))
    (h2 : d1.length = (t1.map LinkType.qdWidth).sum) :
    Kin.linkSlices (t1 ++ t2) ([] : List ℝ) [] (d1 ++ d2)
      = Kin.linkSlices t1 [] [] d1 ++ Kin.linkSlices t2 [] [] d2 := by
  induction t1 generalizing d1 with
  | nil =>
    simp only [List.map_nil, List.sum_nil, List.length_eq_zero_iff] at h2
    subst h2
    simp [Kin.linkSlices]
  | cons t ts ih =>
    simp only [List.map_cons, List.sum_cons] at h2
    simp only [List.cons_append, Kin.linkSlices, List.take_nil, List.drop_nil]
    rw [List.take_append_of_le_length (by omega), List.drop_append_of_le_length (by omega),
      ih _ (by simp; omega)]

theorem insAgree0_left (s1 s2 : Sys ℝ) (h1 : WFParts s1) : InsAgree id s1 (unionSys s1 s2) [] [] := by
  intro i hi
  show (Kin.linkSlices (s1.types ++ s2.types) [] [] (s1.dofs ++ s2.dofs))[i]? = _
  rw [linkSlices_nil_nil_append _ _ _ _ h1.dlen,
    List.getElem?_append_left (by rw [Kin.linkSlices_length]; exact hi)]

theorem insAgree0_right (s1 s2 : Sys ℝ) (h1 : WFParts s1) :
    InsAgree (· + s1.numLinks) s2 (unionSys s1 s2) [] [] := by
  intro i hi
  show (Kin.linkSlices (s1.types ++ s2.types) [] [] (s1.dofs ++ s2.dofs))[i + s1.numLinks]? = _
  rw [linkSlices_nil_nil_append _ _ _ _ h1.dlen,
    List.getElem?_append_right (by rw [Kin.linkSlices_length]; exact Nat.le_add_left _ _),
    Kin.linkSlices_length]
  congr 1
  show i + s1.types.length - s1.types.length = i
  omega

theorem insAgree0_of_dofs (σ : Nat → Nat) (s s' : Sys ℝ) (hD : DofsRelabel σ s s') :
    InsAgree σ s' s [] [] := by
  intro k hk
  have hk' : k < s'.types.length := hk
  obtain ⟨ht, hdofs⟩ := hD k s'.types[k] (List.getElem?_eq_getElem hk')
  rw [linkSlices_nil_getElem? s.types _ _ (σ k) _ ht,
    linkSlices_nil_getElem? s'.types _ _ k _ (List.getElem?_eq_getElem hk'), hdofs]
  simp [Kin.slice]

/-! ## components: the whole positional step of a disjoint union -/

/-- the further options the positional step reads -/
structure SameGlobalsP (s1 s2 : Sys ℝ) : Prop where
  base : SameGlobals s1 s2
  massScale : s1.springMassScale = s2.springMassScale
  scalePos : s1.jointScalePos = s2.jointScalePos
  scaleAng : s1.jointScaleAng = s2.jointScaleAng

/-- field-wise concatenation of two positional states -/
def unionStateP (a b : Positional.State ℝ) : Positional.State ℝ :=
  { q := a.q ++ b.q, qd := a.qd ++ b.qd, x := a.x ++ b.x, xd := a.xd ++ b.xd,
    x_i := a.x_i ++ b.x_i, xd_i := a.xd_i ++ b.xd_i, j := a.j ++ b.j, jd := a.jd ++ b.jd,
    a_p := a.a_p ++ b.a_p, a_c := a.a_c ++ b.a_c, mass := a.mass ++ b.mass }

/-- the lengths `Positional.State.WF` guarantees -/
structure PStLens (s : Sys ℝ) (st : Positional.State ℝ) : Prop where
  q : st.q.length = s.nq
  qd : st.qd.length = s.nv
  x : st.x.length = s.numLinks
  xd : st.xd.length = s.numLinks
  x_i : st.x_i.length = s.numLinks
  xd_i : st.xd_i.length = s.numLinks
  j : st.j.length = s.numLinks
  jd : st.jd.length = s.numLinks
  a_p : st.a_p.length = s.numLinks
  a_c : st.a_c.length = s.numLinks
  mass : st.mass.length = s.numLinks

theorem PStLens.of_wf {s : Sys ℝ} {st : Positional.State ℝ} (h : Positional.State.WF s st = true) :
    PStLens s st := by
  simp only [Positional.State.WF, Bool.and_eq_true, beq_iff_eq] at h
  obtain ⟨⟨⟨⟨⟨⟨⟨⟨⟨⟨h1, h2⟩, h3⟩, h4⟩, h5⟩, h6⟩, h7⟩, h8⟩, h9⟩, h10⟩, h11⟩ := h
  exact ⟨h1, h2, h3, h4, h5, h6, h7, h8, h9, h10, h11⟩

theorem restrInP_left {s1 s2 : Sys ℝ} {st1 st2 : Positional.State ℝ} (hl1 : PStLens s1 st1)
    (hl2 : PStLens s2 st2) : RestrInP id s1 (unionSys s1 s2) st1 (unionStateP st1 st2) where
  x := restr_id_append _ _ hl1.x
  x_i := restr_id_append _ _ hl1.x_i
  xd_i := restr_id_append _ _ hl1.xd_i
  jd := restr_id_append _ _ hl1.jd
  a_p := restr_id_append _ _ hl1.a_p
  a_c := restr_id_append _ _ hl1.a_c
  mass := restrS_id_append _ _ hl1.mass
  x_il := by
    rw [unionSys_numLinks]; simp only [unionStateP, List.length_append, hl1.x_i, hl2.x_i]
  x_il1 := hl1.x_i

theorem restrInP_right {s1 s2 : Sys ℝ} {st1 st2 : Positional.State ℝ} (hl1 : PStLens s1 st1)
    (hl2 : PStLens s2 st2) :
    RestrInP (· + s1.numLinks) s2 (unionSys s1 s2) st2 (unionStateP st1 st2) where
  x := restr_shift_append _ _ hl1.x _
  x_i := restr_shift_append _ _ hl1.x_i _
  xd_i := restr_shift_append _ _ hl1.xd_i _
  jd := restr_shift_append _ _ hl1.jd _
  a_p := restr_shift_append _ _ hl1.a_p _
  a_c := restr_shift_append _ _ hl1.a_c _
  mass := restrS_shift_append _ _ hl1.mass _
  x_il := by
    rw [unionSys_numLinks]; simp only [unionStateP, List.length_append, hl1.x_i, hl2.x_i]
  x_il1 := hl2.x_i

/-- **C05, mechanically disconnected parts, whole positional step (contact-free).** -/
theorem positional_step_union (inv12 inv1 inv2 : List (Tf ℝ) → List (Motion ℝ) → List ℝ × List ℝ)
    (s1 s2 : Sys ℝ) (st1 st2 : Positional.State ℝ) (act1 act2 : List ℝ)
    (h1 : WFParts s1) (h2 : WFParts s2) (hg : SameGlobalsP s1 s2)
    (hl1 : PStLens s1 st1) (hl2 : PStLens s2 st2) (hact : act1.length = s1.acts.length)
    (hinv : InvSplit s1.numLinks inv12 inv1 inv2) :
    Positional.step inv12 (fun _ => []) (unionSys s1 s2) (unionStateP st1 st2) (act1 ++ act2)
      = unionStateP (Positional.step inv1 (fun _ => []) s1 st1 act1)
          (Positional.step inv2 (fun _ => []) s2 st2 act2) := by
  have hP1 : EmbP id s1 (unionSys s1 s2) := ⟨emb_left h1 h2 hg.base, rfl, rfl, rfl⟩
  have hP2 : EmbP (· + s1.numLinks) s2 (unionSys s1 s2) :=
    ⟨emb_right h1 h2 hg.base, hg.massScale, hg.scalePos, hg.scaleAng⟩
  have htau : toTau (unionSys s1 s2) (act1 ++ act2) (unionStateP st1 st2).q (unionStateP st1 st2).qd
      = toTau s1 act1 st1.q st1.qd ++ toTau s2 act2 st2.q st2.qd :=
    toTau_union s1 s2 act1 act2 st1.q st2.q st1.qd st2.qd hact hl1.q hl1.qd h1.acts
  have hR1 := pstep_restr hP1 (restrInP_left hl1 hl2) act1 (act1 ++ act2)
    (by rw [htau]; exact insAgree_left s1 s2 _ _ h1 (toTau_length _ _ _ _))
    (insAgree0_left s1 s2 h1) inv12 inv1
  have hR2 := pstep_restr hP2 (restrInP_right hl1 hl2) act2 (act1 ++ act2)
    (by rw [htau]; exact insAgree_right s1 s2 _ _ h1 (toTau_length _ _ _ _))
    (insAgree0_right s1 s2 h1) inv12 inv2
  have hL := pstep_lens inv12 (unionSys s1 s2) (unionStateP st1 st2) (act1 ++ act2) hP1.emb.llen
    hP1.emb.plen
  have hL1 := pstep_lens inv1 s1 st1 act1 h1.llen h1.plen
  have hL2 := pstep_lens inv2 s2 st2 act2 h2.llen h2.plen
  rw [unionSys_numLinks] at hL
  have hj := eq_append_of_restr hL.j hL1.j hL2.j hR1.j hR2.j
  have hjd := eq_append_of_restr hL.jd hL1.jd hL2.jd hR1.jd hR2.jd
  have hqq := hinv (Positional.step inv1 (fun _ => []) s1 st1 act1).j
    (Positional.step inv2 (fun _ => []) s2 st2 act2).j (Positional.step inv1 (fun _ => []) s1 st1 act1).jd
    (Positional.step inv2 (fun _ => []) s2 st2 act2).jd hL1.j hL1.jd
  apply pstate_ext
  · rw [pstep_q, hj, hjd, hqq]; rfl
  · rw [pstep_qd, hj, hjd, hqq]; rfl
  · exact eq_append_of_restr hL.x hL1.x hL2.x hR1.x hR2.x
  · exact eq_append_of_restr hL.xd hL1.xd hL2.xd hR1.xd hR2.xd
  · exact eq_append_of_restr hL.x_i hL1.x_i hL2.x_i hR1.x_i hR2.x_i
  · exact eq_append_of_restr hL.xd_i hL1.xd_i hL2.xd_i hR1.xd_i hR2.xd_i
  · exact hj
  · exact hjd
  · exact eq_append_of_restr hL.a_p hL1.a_p hL2.a_p hR1.a_p hR2.a_p
  · exact eq_append_of_restr hL.a_c hL1.a_c hL2.a_c hR1.a_c hR2.a_c
  · rfl

/-! ## sibling order: the whole positional step of a relabelled system -/

/-- the positional state relabelled by `σ` -/
def permStateP (σ : Nat → Nat) (n : Nat) (st : Positional.State ℝ) (q' qd' : List ℝ) :
    Positional.State ℝ :=
  { q := q', qd := qd', x := permList σ n st.x, xd := permList σ n st.xd,
    x_i := permList σ n st.x_i, xd_i := permList σ n st.xd_i, j := permList σ n st.j,
    jd := permList σ n st.jd, a_p := permList σ n st.a_p, a_c := permList σ n st.a_c,
    mass := permListS σ n st.mass }

/-- `Relabel` plus the three further options of the positional step -/
structure RelabelP (σ τ : Nat → Nat) (s s' : Sys ℝ) : Prop where
  base : Relabel σ τ s s'
  massScale : s.springMassScale = s'.springMassScale
  scalePos : s.jointScalePos = s'.jointScalePos
  scaleAng : s.jointScaleAng = s'.jointScaleAng

/-- **C05, sibling order, whole positional step (contact-free).** -/
theorem positional_step_relabel (inv inv' : List (Tf ℝ) → List (Motion ℝ) → List ℝ × List ℝ)
    {σ τ : Nat → Nat} {s s' : Sys ℝ} (hR : RelabelP σ τ s s') (st : Positional.State ℝ)
    (act act' q' qd' : List ℝ) (hxi : st.x_i.length = s.numLinks)
    (hins : InsAgree σ s' s (toTau s' act' q' qd') (toTau s act st.q st.qd))
    (hins0 : InsAgree σ s' s [] []) :
    Positional.step inv' (fun _ => []) s' (permStateP σ s.numLinks st q' qd') act'
      = permStateP σ s.numLinks (Positional.step inv (fun _ => []) s st act)
          (inv' (permList σ s.numLinks (Positional.step inv (fun _ => []) s st act).j)
                (permList σ s.numLinks (Positional.step inv (fun _ => []) s st act).jd)).1
          (inv' (permList σ s.numLinks (Positional.step inv (fun _ => []) s st act).j)
                (permList σ s.numLinks (Positional.step inv (fun _ => []) s st act).jd)).2 := by
  have hE := hR.base.emb
  have hP : EmbP σ s' s := ⟨hE, hR.massScale, hR.scalePos, hR.scaleAng⟩
  have hin : RestrInP σ s' s (permStateP σ s.numLinks st q' qd') st := by
    rw [← hR.base.n']
    refine ⟨restr_permList _ _ _, restr_permList _ _ _, restr_permList _ _ _, restr_permList _ _ _,
      restr_permList _ _ _, restr_permList _ _ _, restrS_permListS _ _ _, hxi, ?_⟩
    show (permList σ s'.numLinks st.x_i).length = s'.numLinks
    rw [permList, tab_length]
  have hRes := pstep_restr hP hin act' act hins hins0 inv inv'
  have hL := pstep_lens inv' s' (permStateP σ s.numLinks st q' qd') act' hE.llen1 hE.plen1
  rw [hR.base.n'] at hL hRes
  have hj := eq_permList_of_restr hL.j hRes.j
  have hjd := eq_permList_of_restr hL.jd hRes.jd
  apply pstate_ext
  · rw [pstep_q, hj, hjd]; rfl
  · rw [pstep_qd, hj, hjd]; rfl
  · exact eq_permList_of_restr hL.x hRes.x
  · exact eq_permList_of_restr hL.xd hRes.xd
  · exact eq_permList_of_restr hL.x_i hRes.x_i
  · exact eq_permList_of_restr hL.xd_i hRes.xd_i
  · exact hj
  · exact hjd
  · exact eq_permList_of_restr hL.a_p hRes.a_p
  · exact eq_permList_of_restr hL.a_c hRes.a_c
  · rfl

/-! ## components: whole trajectories -/

theorem PStLens.step {s : Sys ℝ} {st : Positional.State ℝ} (h : PStLens s st)
    (inv : List (Tf ℝ) → List (Motion ℝ) → List ℝ × List ℝ) (hinv : InvLen s inv) (act : List ℝ)
    (hlinks : s.links.length = s.numLinks) (hp : s.parents.length = s.numLinks) :
    PStLens s (Positional.step inv (fun _ => []) s st act) := by
  have hL := pstep_lens inv s st act hlinks hp
  refine ⟨?_, ?_, hL.x, hL.xd, hL.x_i, hL.xd_i, hL.j, hL.jd, hL.a_p, hL.a_c, ?_⟩
  · rw [pstep_q]; exact (hinv _ _ hL.j hL.jd).1
  · rw [pstep_qd]; exact (hinv _ _ hL.j hL.jd).2
  · rw [pstep_mass]; exact h.mass

/-- **C05, mechanically disconnected parts, any number of contact-free positional steps** -/
theorem positional_steps_union (inv12 inv1 inv2 : List (Tf ℝ) → List (Motion ℝ) → List ℝ × List ℝ)
    (s1 s2 : Sys ℝ) (h1 : WFParts s1) (h2 : WFParts s2) (hg : SameGlobalsP s1 s2)
    (hinv : InvSplit s1.numLinks inv12 inv1 inv2) (hi1 : InvLen s1 inv1) (hi2 : InvLen s2 inv2)
    (acts : List (List ℝ × List ℝ)) (hact : ∀ p ∈ acts, p.1.length = s1.acts.length) :
    ∀ (st1 st2 : Positional.State ℝ), PStLens s1 st1 → PStLens s2 st2 →
      psteps inv12 (unionSys s1 s2) (unionStateP st1 st2) (acts.map fun p => p.1 ++ p.2)
        = unionStateP (psteps inv1 s1 st1 (acts.map (·.1))) (psteps inv2 s2 st2 (acts.map (·.2))) := by
  induction acts with
  | nil => intro st1 st2 _ _; rfl
  | cons p ps ih =>
    intro st1 st2 hl1 hl2
    simp only [psteps, List.map_cons, List.foldl_cons]
    rw [positional_step_union inv12 inv1 inv2 s1 s2 st1 st2 p.1 p.2 h1 h2 hg hl1 hl2
      (hact p (by simp)) hinv]
    exact ih (fun q hq => hact q (by simp [hq])) _ _ (hl1.step inv1 hi1 p.1 h1.llen h1.plen)
      (hl2.step inv2 hi2 p.2 h2.llen h2.plen)

/-! ## components: `positional.pipeline.init` and whole trajectories -/

theorem positional_init_union (s1 s2 : Sys ℝ) (h1 : WFParts s1) (h2 : WFParts s2)
    (hg : SameGlobalsP s1 s2) (q1 q2 qd1 qd2 : List ℝ)
    (hq : q1.length = s1.nq) (hqd : qd1.length = s1.nv) :
    Positional.init (unionSys s1 s2) (q1 ++ q2) (qd1 ++ qd2)
      = unionStateP (Positional.init s1 q1 qd1) (Positional.init s2 q2 qd2) := by
  have hS := spring_init_union s1 s2 h1 h2 hg.base hg.massScale q1 q2 qd1 qd2 hq hqd
  have f : ∀ (s : Sys ℝ) (q qd : List ℝ), Positional.init s q qd
      = { q := (Spring.init s q qd).q, qd := (Spring.init s q qd).qd, x := (Spring.init s q qd).x,
          xd := (Spring.init s q qd).xd, x_i := (Spring.init s q qd).x_i,
          xd_i := (Spring.init s q qd).xd_i, j := (Spring.init s q qd).j, jd := (Spring.init s q qd).jd,
          a_p := (Spring.init s q qd).a_p, a_c := (Spring.init s q qd).a_c,
          mass := (Spring.init s q qd).mass } := fun _ _ _ => rfl
  rw [f, f, f, hS]
  rfl

theorem PStLens.init (s : Sys ℝ) (h : WFParts s) (q qd : List ℝ) (hq : q.length = s.nq)
    (hqd : qd.length = s.nv) : PStLens s (Positional.init s q qd) := by
  have hS := StLens.init s h q qd hq hqd
  exact ⟨hS.q, hS.qd, hS.x, hS.xd, hS.x_i, hS.xd_i, hS.j, hS.jd, hS.a_p, hS.a_c, hS.mass⟩

/-- **C05, mechanically disconnected parts, whole contact-free positional trajectories** -/
theorem positional_trajectory_union
    (inv12 inv1 inv2 : List (Tf ℝ) → List (Motion ℝ) → List ℝ × List ℝ)
    (s1 s2 : Sys ℝ) (h1 : WFParts s1) (h2 : WFParts s2) (hg : SameGlobalsP s1 s2)
    (hinv : InvSplit s1.numLinks inv12 inv1 inv2) (hi1 : InvLen s1 inv1) (hi2 : InvLen s2 inv2)
    (acts : List (List ℝ × List ℝ)) (hact : ∀ p ∈ acts, p.1.length = s1.acts.length)
    (q1 q2 qd1 qd2 : List ℝ) (hq1 : q1.length = s1.nq) (hqd1 : qd1.length = s1.nv)
    (hq2 : q2.length = s2.nq) (hqd2 : qd2.length = s2.nv) :
    psteps inv12 (unionSys s1 s2) (Positional.init (unionSys s1 s2) (q1 ++ q2) (qd1 ++ qd2))
        (acts.map fun p => p.1 ++ p.2)
      = unionStateP (psteps inv1 s1 (Positional.init s1 q1 qd1) (acts.map (·.1)))
          (psteps inv2 s2 (Positional.init s2 q2 qd2) (acts.map (·.2))) := by
  rw [positional_init_union s1 s2 h1 h2 hg q1 q2 qd1 qd2 hq1 hqd1]
  exact positional_steps_union inv12 inv1 inv2 s1 s2 h1 h2 hg hinv hi1 hi2 acts hact _ _
    (PStLens.init s1 h1 q1 qd1 hq1 hqd1) (PStLens.init s2 h2 q2 qd2 hq2 hqd2)

end Brax.C05Perm
