import Brax.Spec.MjKinematics
import Brax.Lemmas.Norm
import Brax.Lemmas.Scan
/-!
# Positions: brax's joint-stack accumulation = MuJoCo's sequential joint application

Helper lemmas for `Props/C01.lean`.
-/
set_option linter.unusedSectionVars false
set_option linter.unusedSimpArgs false
namespace Brax.KinPos
open Brax Kin

/-- a dof that is a hinge: no translational part, unit axis -/
def IsHinge (d : DofP ℝ) : Prop :=
  d.motion.vel = ⟨0, 0, 0⟩ ∧ V3.dot d.motion.ang d.motion.ang = 1

/-- a dof that is a slide with coordinate `q`: no rotational part, unit axis, and the
half-angle cosine above the `allclose` threshold of `safe_norm` (|q| < π − 2e-8) -/
def IsSlide (d : DofP ℝ) (q : ℝ) : Prop :=
  d.motion.ang = ⟨0, 0, 0⟩ ∧ V3.dot d.motion.vel d.motion.vel = 1 ∧ 1e-8 < Real.cos (q / 2)

/-- the transform part of `jcalcDof` -/
noncomputable def dofTf (d : DofP ℝ) (q : ℝ) : Tf ℝ :=
  ⟨⟨d.motion.vel.x * q, d.motion.vel.y * q, d.motion.vel.z * q⟩,
   normalize4 (quatRotAxis d.motion.ang q)⟩

theorem jcalcDof_fst (d : DofP ℝ) (q qd : ℝ) : (jcalcDof d q qd).1 = dofTf d q := rfl

theorem dofTf_hinge {d : DofP ℝ} (h : IsHinge d) (q : ℝ) :
    dofTf d q = ⟨V3.zero, quatRotAxis d.motion.ang q⟩ ∧ (quatRotAxis d.motion.ang q).IsUnit := by
  obtain ⟨hv, ha⟩ := h
  have hu := quatRotAxis_isUnit d.motion.ang q ha
  refine ⟨?_, hu⟩
  simp only [dofTf, hv, zero_mul, normalize4_unit hu, V3.zero]

theorem dofTf_slide {d : DofP ℝ} {q : ℝ} (h : IsSlide d q) :
    dofTf d q = ⟨⟨d.motion.vel.x * q, d.motion.vel.y * q, d.motion.vel.z * q⟩, Q4.one⟩ := by
  obtain ⟨ha, _, hc⟩ := h
  simp only [dofTf, ha, normalize4_quatRotAxis_zero q hc]

theorem v3IsZero_iff (v : V3 ℝ) : Mj.v3IsZero v = true ↔ v = ⟨0, 0, 0⟩ := by
  cases v
  simp [Mj.v3IsZero, eqZero_iff, and_assoc]

/-- first components of the stack accumulation are a fold of `Tf.doTf` -/
theorem foldl_jcalcAcc_fst (l : List (Tf ℝ × Motion ℝ)) (j0 : Tf ℝ × Motion ℝ) :
    (l.foldl jcalcAcc j0).1 = (l.map (·.1)).foldl Tf.doTf j0.1 := by
  induction l generalizing j0 with
  | nil => rfl
  | cons x xs ih => simp only [List.foldl, List.map_cons]; rw [ih]; rfl

/-- accumulated joint transform of a non-free link, as a fold from the identity -/
noncomputable def stackTf (dqs : List (DofP ℝ × ℝ)) : Tf ℝ :=
  (dqs.map fun dq => dofTf dq.1 dq.2).foldl Tf.doTf Tf.id

theorem foldl_doTf_from (l : List (Tf ℝ)) (a : Tf ℝ) :
    l.foldl Tf.doTf a = Tf.doTf a (l.foldl Tf.doTf Tf.id) := by
  induction l generalizing a with
  | nil => simp [Tf.doTf_id]
  | cons x xs ih =>
    simp only [List.foldl]
    rw [ih (Tf.doTf a x), ih (Tf.doTf Tf.id x), Tf.id_doTf, Tf.doTf_assoc]

/-- the pose MuJoCo reaches after a stack, in terms of brax's accumulated `J`:
`start ∘ (J.pos + a − R(J.rot) a, J.rot)` -/
noncomputable def stackPose (start : Tf ℝ) (a : V3 ℝ) (J : Tf ℝ) : Tf ℝ :=
  Tf.doTf start ⟨J.pos + a - rotate a J.rot, J.rot⟩

/-- **one joint**: applying MuJoCo's joint rule to `stackPose start a J` gives
`stackPose start a (J ∘ dofTf)` — for a hinge about any unit axis and for a slide -/
theorem applyJoint_stackPose (start : Tf ℝ) (a : V3 ℝ) (J : Tf ℝ) (d : DofP ℝ) (q : ℝ)
    (hs : start.rot.IsUnit) (hJ : J.rot.IsUnit) (hd : IsHinge d ∨ IsSlide d q) :
    Mj.applyJoint a (stackPose start a J) (d, q) = stackPose start a (Tf.doTf J (dofTf d q))
      ∧ (Tf.doTf J (dofTf d q)).rot.IsUnit := by
  rcases hd with hh | hsl
  · obtain ⟨he, hu⟩ := dofTf_hinge hh q
    have hz : Mj.v3IsZero d.motion.vel = true := (v3IsZero_iff _).mpr hh.1
    rw [he]
    refine ⟨?_, ?_⟩
    · simp only [Mj.applyJoint, hz, if_true, stackPose, Tf.doTf, rotate_zero, V3.add_zero',
        rotate_quatMul, rotate_add, rotate_sub, quatMul_assoc]
      apply Tf.ext'
      · simp only [V3.add_def, V3.sub_def]; apply V3.ext' <;> simp only <;> ring
      · rfl
    · exact Q4.IsUnit.mul hJ hu
  · have he := dofTf_slide hsl
    have hnz : Mj.v3IsZero d.motion.vel = false := by
      rw [Bool.eq_false_iff]; intro hc
      rw [v3IsZero_iff] at hc
      have := hsl.2.1
      rw [hc] at this; simp [V3.dot] at this
    rw [he]
    refine ⟨?_, ?_⟩
    · simp only [Mj.applyJoint, hnz, Bool.false_eq_true, if_false, stackPose, Tf.doTf, quatMul_one,
        rotate_quatMul, rotate_add, rotate_sub]
      apply Tf.ext'
      · simp only [V3.add_def, V3.sub_def]; apply V3.ext' <;> simp only <;> ring
      · rfl
    · simp only [Tf.doTf, quatMul_one]; exact hJ

/-- **whole stack**, by induction on the joint list (any length, any mix of hinges and slides,
any — also non-orthogonal — axes) -/
theorem foldl_applyJoint (start : Tf ℝ) (a : V3 ℝ) (hs : start.rot.IsUnit)
    (dqs : List (DofP ℝ × ℝ)) (J : Tf ℝ) (hJ : J.rot.IsUnit)
    (hd : ∀ dq ∈ dqs, IsHinge dq.1 ∨ IsSlide dq.1 dq.2) :
    dqs.foldl (Mj.applyJoint a) (stackPose start a J)
        = stackPose start a ((dqs.map fun dq => dofTf dq.1 dq.2).foldl Tf.doTf J)
      ∧ ((dqs.map fun dq => dofTf dq.1 dq.2).foldl Tf.doTf J).rot.IsUnit := by
  induction dqs generalizing J with
  | nil => exact ⟨rfl, hJ⟩
  | cons dq rest ih =>
    obtain ⟨h1, h2⟩ := applyJoint_stackPose start a J dq.1 dq.2 hs hJ (hd dq (by simp))
    simp only [List.foldl, List.map_cons]
    rw [show (dq.1, dq.2) = dq from rfl] at h1
    rw [h1]
    exact ih _ h2 (fun x hx => hd x (by simp [hx]))

theorem stackPose_id (start : Tf ℝ) (a : V3 ℝ) : stackPose start a Tf.id = start := by
  simp only [stackPose, Tf.id, rotate_one, V3.zero_add', V3.sub_self']
  exact Tf.doTf_id start

/-- `placeJoint` is `link.transform ∘ (J.pos + a − R(J.rot)a, J.rot)` when the joint frame has
identity rotation (as `mjcf.load_model` builds it) -/
theorem placeJoint_eq (lk : LinkP ℝ) (J : Tf ℝ) (hj : lk.joint.rot = Q4.one) :
    placeJoint lk J = stackPose lk.tf lk.joint.pos J := by
  simp only [placeJoint, stackPose, Tf.doTf, V3.zero_add', hj, quatMul_one]

/-- what a link must satisfy (this is what `mjcf.load_model` produces from a compiled MuJoCo
model, and what the property's quantifier generates): unit body quaternion, joint frame with
identity rotation; a free link is a root with cleared link transform, zero anchor and a unit
root quaternion in `q`; every dof of a non-free link is a hinge or a slide about a unit axis. -/
structure LinkOK (p : Int) (lk : LinkP ℝ) (l : LinkIn ℝ) : Prop where
  bodyUnit : lk.tf.rot.IsUnit
  jointRot : lk.joint.rot = Q4.one
  free : l.typ = .free → p < 0 ∧ lk.tf = Tf.id ∧ lk.joint.pos = V3.zero ∧ l.qd.length = 6 ∧
    ∃ p0 p1 p2 r0 r1 r2 r3, l.q = [p0, p1, p2, r0, r1, r2, r3] ∧ (⟨r0, r1, r2, r3⟩ : Q4 ℝ).IsUnit
  nonfree : l.typ ≠ .free → l.q.length = l.dofs.length ∧ l.qd.length = l.dofs.length ∧
    ∀ dq ∈ l.dofs.zip l.q, IsHinge dq.1 ∨ IsSlide dq.1 dq.2

/-- position part of `jcalc` for a non-free link is the stack fold -/
theorem jcalc_fst_nonfree (l : LinkIn ℝ) (ht : l.typ ≠ .free) (hq : l.q.length = l.dofs.length)
    (hqd : l.qd.length = l.dofs.length) :
    (jcalc l).1 = stackTf (l.dofs.zip l.q) := by
  have hmap : ((l.dofs.zip (l.q.zip l.qd)).map (fun d => jcalcDof d.1 d.2.1 d.2.2)).map (·.1)
      = (l.dofs.zip l.q).map (fun dq => dofTf dq.1 dq.2) := by
    generalize l.dofs = ds at hq hqd
    generalize l.q = q at hq
    generalize l.qd = qd at hqd
    induction ds generalizing q qd with
    | nil => simp
    | cons d ds ih =>
      cases q with
      | nil => simp at hq
      | cons a q =>
        cases qd with
        | nil => simp at hqd
        | cons b qd =>
          simp only [List.zip_cons_cons, List.map_cons, jcalcDof_fst]
          rw [ih q (by simpa using hq) qd (by simpa using hqd)]
  unfold jcalc stackTf
  cases htyp : l.typ with
  | free => exact absurd htyp ht
  | one | two | three =>
    all_goals
      simp only
      rw [← hmap]
      cases hl : (l.dofs.zip (l.q.zip l.qd)).map (fun d => jcalcDof d.1 d.2.1 d.2.2) with
      | nil => rfl
      | cons j0 rest =>
        simp only [List.map_cons, List.foldl]
        rw [foldl_jcalcAcc_fst, Tf.id_doTf]

/-- MuJoCo's starting pose of a body: parent ∘ (body_pos, body_quat) -/
def startPose (par' : Option (Tf ℝ)) (lk : LinkP ℝ) : Tf ℝ :=
  match par' with
  | none => lk.tf
  | some p => Tf.doTf p lk.tf

theorem bodyPose_nonfree (par' : Option (Tf ℝ)) (lk : LinkP ℝ) (l : LinkIn ℝ) (hfree : l.typ ≠ .free) :
    Mj.bodyPose par' lk l
      = ⟨((l.dofs.zip l.q).foldl (Mj.applyJoint lk.joint.pos) (startPose par' lk)).pos,
         normalize4 ((l.dofs.zip l.q).foldl (Mj.applyJoint lk.joint.pos) (startPose par' lk)).rot⟩ := by
  unfold Mj.bodyPose startPose
  cases par' <;> cases htyp : l.typ <;> first | exact absurd htyp hfree | rfl


/-- **one link**: brax's world transform of a link equals MuJoCo's body pose, given the same
parent pose (a unit quaternion), and is again a unit quaternion -/
theorem link_pose_eq (p : Int) (par : Option (Tf ℝ × Motion ℝ)) (par' : Option (Tf ℝ))
    (lk : LinkP ℝ) (l : LinkIn ℝ) (jd : Motion ℝ)
    (hpar : OptRel (fun (x : Tf ℝ × Motion ℝ) (s : Tf ℝ) => x.1 = s ∧ s.rot.IsUnit) par par')
    (hok : LinkOK p lk l) (hroot : p < 0 → par = none) :
    (world par (placeJoint lk (jcalc l).1, jd)).1 = Mj.bodyPose par' lk l
      ∧ (Mj.bodyPose par' lk l).rot.IsUnit := by
  by_cases hfree : l.typ = .free
  · -- free link: a root; q is the world pose
    obtain ⟨hp, htf, hjp, hqd, p0, p1, p2, r0, r1, r2, r3, hq, hu⟩ := hok.free hfree
    have hnone := hroot hp
    subst hnone
    cases hpar
    obtain ⟨v0, v1, v2, w0, w1, w2, hqd'⟩ : ∃ v0 v1 v2 w0 w1 w2, l.qd = [v0, v1, v2, w0, w1, w2] := by
      match hm : l.qd, hqd with
      | [a, b, c, d, e, f], _ => exact ⟨a, b, c, d, e, f, rfl⟩
    have hj : (jcalc l).1 = ⟨⟨p0, p1, p2⟩, ⟨r0, r1, r2, r3⟩⟩ := by
      unfold jcalc; rw [hfree]; simp only [hq, hqd']
    have hpose : Mj.bodyPose none lk l = ⟨⟨p0, p1, p2⟩, ⟨r0, r1, r2, r3⟩⟩ := by
      unfold Mj.bodyPose; rw [hfree]; simp only [hq, normalize4_unit hu]
    rw [hpose, hj]
    refine ⟨?_, hu⟩
    simp only [world, placeJoint_eq lk _ hok.jointRot, htf, hjp, stackPose, Tf.id_doTf, rotate_zero,
      V3.add_zero', V3.sub_def, V3.zero, sub_zero]
    congr 1
    apply V3.ext' <;> simp [rotate, V3.dot, V3.cross, Q4.vec]
  · -- hinge/slide stack
    obtain ⟨hq, hqd, hd⟩ := hok.nonfree hfree
    have hj := jcalc_fst_nonfree l hfree hq hqd
    rw [hj, placeJoint_eq lk _ hok.jointRot]
    -- the start pose and its unit quaternion
    have key : ∀ (start : Tf ℝ), start.rot.IsUnit →
        (l.dofs.zip l.q).foldl (Mj.applyJoint lk.joint.pos) start
          = stackPose start lk.joint.pos (stackTf (l.dofs.zip l.q))
        ∧ (stackTf (l.dofs.zip l.q)).rot.IsUnit := by
      intro start hs
      have := foldl_applyJoint start lk.joint.pos hs (l.dofs.zip l.q) Tf.id Q4.isUnit_one hd
      rw [stackPose_id] at this
      exact this
    have hunitPose : ∀ (start : Tf ℝ), start.rot.IsUnit →
        (stackPose start lk.joint.pos (stackTf (l.dofs.zip l.q))).rot.IsUnit := by
      intro start hs
      simp only [stackPose, Tf.doTf]
      exact Q4.IsUnit.mul hs (key start hs).2
    have hstartU : (startPose par' lk).rot.IsUnit := by
      cases hpar with
      | none => exact hok.bodyUnit
      | some hab => simp only [startPose, Tf.doTf]; exact Q4.IsUnit.mul hab.2 hok.bodyUnit
    rw [bodyPose_nonfree par' lk l hfree, (key _ hstartU).1, normalize4_unit (hunitPose _ hstartU)]
    refine ⟨?_, hunitPose _ hstartU⟩
    cases hpar with
    | none => rfl
    | @some a b hab =>
      obtain ⟨a1, a2⟩ := a
      obtain ⟨hab1, _⟩ := hab
      simp only at hab1
      subst hab1
      simp only [world, startPose, stackPose, Tf.doTf_assoc]

/-- the spec reads only `typ`, `q`, `dofs` of a link input -/
theorem bodyPose_congr (par' : Option (Tf ℝ)) (lk : LinkP ℝ) (l l' : LinkIn ℝ)
    (h : l.typ = l'.typ ∧ l.q = l'.q ∧ l.dofs = l'.dofs) :
    Mj.bodyPose par' lk l = Mj.bodyPose par' lk l' := by
  obtain ⟨h1, h2, h3⟩ := h
  unfold Mj.bodyPose; rw [h1, h2, h3]

theorem linkSlices_q_rel (ts : List LinkType) (q qd qd' : List ℝ) (ds : List (DofP ℝ)) :
    List.Forall₂ (fun (l l' : LinkIn ℝ) => l.typ = l'.typ ∧ l.q = l'.q ∧ l.dofs = l'.dofs)
      (linkSlices ts q qd ds) (linkSlices ts q qd' ds) := by
  induction ts generalizing q qd qd' ds with
  | nil => exact List.Forall₂.nil
  | cons t ts ih => exact List.Forall₂.cons ⟨rfl, rfl, rfl⟩ (ih _ _ _ _)

/-- what `forward` feeds to the tree scan for one link -/
noncomputable def linkArg (li : LinkP ℝ × LinkIn ℝ) : Tf ℝ × Motion ℝ :=
  (placeJoint li.1 (jcalc li.2).1, ⟨(jcalc li.2).2.ang, rotate (jcalc li.2).2.vel li.1.tf.rot⟩)

theorem zip_rel (ps : List Int) (lks : List (LinkP ℝ)) (ins ins' : List (LinkIn ℝ))
    (hins : List.Forall₂ (fun (l l' : LinkIn ℝ) => l.typ = l'.typ ∧ l.q = l'.q ∧ l.dofs = l'.dofs) ins ins')
    (hok : ∀ x ∈ ps.zip (lks.zip ins), LinkOK x.1 x.2.1 x.2.2) :
    List.Forall₂ (fun (x : Int × (Tf ℝ × Motion ℝ)) (y : Int × (LinkP ℝ × LinkIn ℝ)) =>
        x.1 = y.1 ∧ ∃ l, x.2 = linkArg (y.2.1, l)
          ∧ (l.typ = y.2.2.typ ∧ l.q = y.2.2.q ∧ l.dofs = y.2.2.dofs) ∧ LinkOK x.1 y.2.1 l)
      (ps.zip ((lks.zip ins).map linkArg)) (ps.zip (lks.zip ins')) := by
  induction hins generalizing ps lks with
  | nil => simp
  | @cons l l' ins ins' hl _ ih =>
    cases ps with
    | nil => simp
    | cons p ps =>
      cases lks with
      | nil => simp
      | cons lk lks =>
        simp only [List.zip_cons_cons, List.map_cons]
        refine List.Forall₂.cons ⟨rfl, l, rfl, hl, ?_⟩ (ih ps lks ?_)
        · exact hok (p, lk, l) (by simp)
        · intro x hx; exact hok x (by simp [hx])


end Brax.KinPos
