import Brax.Lemmas.C05Gen
import Brax.Lemmas.C05Perm
import Brax.Lemmas.ScanLevelsRev
/-!
# C05, generalized pipeline: disconnected components (and sibling order) for a whole
`generalized.pipeline.step`

`unionSys s1 s2` is the disjoint union of `C05Perm`.  Everything `pipeline.step` computes for the
union at the concatenated coordinates is the concatenation of what it computes for the two parts:

* Layer B: `revAcc_union` (the leaves→root accumulation of a disjoint union), `ancs_union_left/right`
  (the ancestor walk never leaves a component), `rootIdx_union`, `segSum_union_left/right`;
* `transformCom_union` (`root_com` is per tree, all other stages are per link or a tree scan);
* `massMatrix_union`: the mass matrix of the union is **block diagonal** (`blockDiag`);
* `inverse_union`, `passiveFlat_union`, `toTau_union`, `qfSmooth_union`;
* `integrate_union` for a linear solve that splits (`SolveSplit`), `solveSplit_of_exact` derives the
  splitting from exactness on the parts and uniqueness on the union;
* `dynInit_union`, `step_union`, `step_union_exact`.

Sibling order (section 11, partial): `ancs_perm`, `csum_perm`, `revAcc_perm`, `crb_perm`, `massEntry_relabel`,
`massEntry_sibling` — the mass matrix of a relabelled system is the blockwise permuted mass matrix.
-/
set_option linter.unusedSectionVars false
set_option linter.unusedSimpArgs false
set_option linter.unusedVariables false
namespace Brax.C05GP
open Brax Kin Gd

/-! ## 1. lists -/
section lists
variable {β : Type}

theorem modify_append_right (f : β → β) : ∀ (a b : List β) (k : Nat),
    (a ++ b).modify (k + a.length) f = a ++ b.modify k f
  | [], b, k => by simp
  | x :: a, b, k => by
    simp only [List.cons_append, List.length_cons]
    rw [show k + (a.length + 1) = (k + a.length) + 1 by omega, List.modify_succ_cons,
      modify_append_right f a b k]

theorem getD_app_left (a b : List β) (d : β) {i : Nat} (h : i < a.length) :
    (a ++ b).getD i d = a.getD i d := by
  simp only [List.getD_eq_getElem?_getD, List.getElem?_append_left h]

theorem getD_app_right (a b : List β) (d : β) (i : Nat) {n : Nat} (h : a.length = n) :
    (a ++ b).getD (i + n) d = b.getD i d := by
  simp only [List.getD_eq_getElem?_getD]
  rw [List.getElem?_append_right (by omega)]
  congr 2; omega

theorem range_add' (n1 n2 : Nat) :
    List.range (n1 + n2) = List.range n1 ++ (List.range n2).map (· + n1) := by
  rw [List.range_add]
  congr 1
  apply List.map_congr_left
  intro i _
  omega

end lists

/-- the shift of a parent id of the second forest -/
def shI (n : Nat) (p : Int) : Int := if p < 0 then p else p + (n : Int)

theorem shiftParents_eq (n : Nat) (ps : List Int) : shiftParents n ps = ps.map (shI n) := rfl

theorem shiftParents_length (n : Nat) (ps : List Int) : (shiftParents n ps).length = ps.length := by
  simp [shiftParents]

theorem getD_union_right (p1 p2 : List Int) (i : Nat) {n : Nat} (h : p1.length = n) :
    (p1 ++ shiftParents n p2).getD (i + n) (-1) = shI n (p2.getD i (-1)) := by
  rw [getD_app_right p1 _ (-1) i h, shiftParents_eq]
  simp only [List.getD_eq_getElem?_getD, List.getElem?_map]
  cases p2[i]? with
  | none => simp [shI]
  | some p => simp

/-! ## 2. Layer B: the leaves→root accumulation of a disjoint union -/
section revacc
variable {β : Type}

theorem revStep_right (add : β → β → β) (a b : List β) (n1 : Nat) (ha : a.length = n1) (i : Nat)
    (p : Int) :
    revStep add (a ++ b) (i + n1, shI n1 p) = a ++ revStep add b (i, p) := by
  unfold revStep shI
  by_cases hneg : p < 0
  · simp [hneg]
  · have h2 : ¬ (p + (n1 : Int) < 0) := by omega
    simp only [hneg, if_false, h2]
    rw [List.getElem?_append_right (by omega), show i + n1 - a.length = i by omega]
    cases b[i]? with
    | none => rfl
    | some v =>
      simp only
      have : (p + (n1 : Int)).toNat = p.toNat + a.length := by omega
      rw [this, modify_append_right]

theorem revStep_left (add : β → β → β) (a b : List β) (ip : Nat × Int)
    (h1 : ip.1 < a.length) (h2 : ip.2 < (a.length : Int)) :
    revStep add (a ++ b) ip = revStep add a ip ++ b := by
  unfold revStep
  by_cases hneg : ip.2 < 0
  · simp [hneg]
  · simp only [hneg, if_false]
    rw [List.getElem?_append_left h1, List.getElem?_eq_getElem h1]
    simp only
    rw [modify_append_left _ _ _ _ (by omega)]

theorem foldl_revStep_right (add : β → β → β) (a : List β) (n1 : Nat) (ha : a.length = n1)
    (steps : List (Nat × Int)) : ∀ (b : List β),
    (steps.map fun ip => (ip.1 + n1, shI n1 ip.2)).foldl (revStep add) (a ++ b)
      = a ++ steps.foldl (revStep add) b := by
  induction steps with
  | nil => intro b; rfl
  | cons ip rest ih =>
    intro b
    simp only [List.map_cons, List.foldl_cons]
    rw [revStep_right add a b n1 ha, ih]

theorem foldl_revStep_left (add : β → β → β) (steps : List (Nat × Int)) :
    ∀ (a b : List β), (∀ ip ∈ steps, ip.1 < a.length ∧ ip.2 < (a.length : Int)) →
    steps.foldl (revStep add) (a ++ b) = steps.foldl (revStep add) a ++ b := by
  induction steps with
  | nil => intro a b _; rfl
  | cons ip rest ih =>
    intro a b h
    simp only [List.foldl_cons]
    obtain ⟨h1, h2⟩ := h ip (by simp)
    rw [revStep_left add a b ip h1 h2]
    apply ih
    intro jp hjp
    rw [revStep_length]
    exact h jp (by simp [hjp])

/-- **the leaves→root accumulation (`scan.tree(reverse=True)` with an additive carry) of a disjoint
union is the concatenation of the two accumulations** -/
theorem revAcc_union (add : β → β → β) (p1 p2 : List Int) (a1 a2 : List β)
    (h1 : p1.length = a1.length)
    (hlt : ∀ i (h : i < p1.length), p1[i] < (p1.length : Int)) :
    revAcc add (p1 ++ shiftParents p1.length p2) (a1 ++ a2)
      = revAcc add p1 a1 ++ revAcc add p2 a2 := by
  unfold revAcc
  have hz : (List.range (p1 ++ shiftParents p1.length p2).length).zip (p1 ++ shiftParents p1.length p2)
      = (List.range p1.length).zip p1
        ++ ((List.range p2.length).zip p2).map fun ip => (ip.1 + p1.length, shI p1.length ip.2) := by
    rw [List.length_append, shiftParents_length, range_add', List.zip_append (by simp),
      shiftParents_eq, List.zip_map]
    rfl
  rw [hz, List.reverse_append, List.foldl_append, ← List.map_reverse,
    foldl_revStep_right add a1 p1.length h1.symm, foldl_revStep_left]
  intro ip hip
  rw [List.mem_reverse] at hip
  rw [List.mem_iff_getElem] at hip
  obtain ⟨k, hk, rfl⟩ := hip
  have hk' : k < p1.length := by simpa using hk
  simp only [List.getElem_zip, List.getElem_range]
  exact ⟨by omega, by rw [← h1]; exact hlt k hk'⟩

end revacc

/-! ## 3. the ancestor walk of a disjoint union -/

theorem ancsFuel_union_left (p1 X : List Int)
    (hlt : ∀ i, i < p1.length → p1.getD i (-1) < (p1.length : Int)) :
    ∀ f i, i < p1.length → ancsFuel (p1 ++ X) f i = ancsFuel p1 f i
  | 0, _, _ => rfl
  | f + 1, i, hi => by
    simp only [ancsFuel]
    rw [getD_app_left p1 X (-1) hi]
    by_cases hneg : p1.getD i (-1) < 0
    · rw [if_pos hneg, if_pos hneg]
    · rw [if_neg hneg, if_neg hneg,
        ancsFuel_union_left p1 X hlt f _ (by have := hlt i hi; omega)]

theorem ancs_union_left (p1 X : List Int)
    (hlt : ∀ i, i < p1.length → p1.getD i (-1) < (p1.length : Int)) (i : Nat) (hi : i < p1.length) :
    ancs (p1 ++ X) i = ancs p1 i := ancsFuel_union_left p1 X hlt (i + 1) i hi

theorem ancsFuel_union_right (p1 p2 : List Int) (n1 : Nat) (h : p1.length = n1) :
    ∀ f i, ancsFuel (p1 ++ shiftParents n1 p2) f (i + n1) = (ancsFuel p2 f i).map (· + n1)
  | 0, _ => rfl
  | f + 1, i => by
    simp only [ancsFuel, List.map_cons]
    rw [getD_union_right p1 p2 i h]
    congr 1
    unfold shI
    by_cases hneg : p2.getD i (-1) < 0
    · rw [if_pos hneg, if_pos hneg, if_pos hneg]; rfl
    · have h2 : ¬ (p2.getD i (-1) + (n1 : Int) < 0) := by omega
      rw [if_neg hneg, if_neg h2, if_neg hneg]
      have : (p2.getD i (-1) + (n1 : Int)).toNat = (p2.getD i (-1)).toNat + n1 := by omega
      rw [this, ancsFuel_union_right p1 p2 n1 h f]

theorem ancs_union_right (p1 p2 : List Int) (n1 : Nat) (h : p1.length = n1) (hwf : PWF p2) (i : Nat) :
    ancs (p1 ++ shiftParents n1 p2) (i + n1) = (ancs p2 i).map (· + n1) := by
  unfold ancs
  rw [ancsFuel_union_right p1 p2 n1 h, ancsFuel_indep hwf (i + n1 + 1) i (by omega)]
  rfl

/-! ## 4. `root_fn`, `segment_sum` and `root_com` of a disjoint union -/

theorem pwf_parentsWF {ps : List Int} (h : PWF ps) : ParentsWF ps := by
  intro i hi
  have := h i
  rwa [List.getD_eq_getElem?_getD, List.getElem?_eq_getElem hi, Option.getD_some] at this

/-- a scan whose step commutes with the index shift, over shifted link indices, is the shifted scan -/
theorem scan_shift (f : Option Nat → Nat → Nat) (n1 : Nat)
    (hf : ∀ par i, f (par.map (· + n1)) (i + n1) = f par i + n1)
    (ps : List Int) (as : List Nat) (hl : ps.length = as.length) :
    scanFwd f ps (as.map (· + n1)) = (scanFwd f ps as).map (· + n1) := by
  apply C05G.forall₂_eq_map
  apply scanFwd_rel (fun a b => b = a + n1) (fun _ a b => b = a + n1)
  · intro p par par' a b hpar hS _
    cases hpar with
    | none => rw [hS]; exact hf none a
    | some hab => rw [hS, hab]; exact hf (some _) a
  · apply C05G.zipS (fun _ a b => b = a + n1) _ _ _ (by simp)
    intro i h0 h1 h2
    simp

theorem rootIdx_union (p1 p2 : List Int) (hwf : ParentsWF p2) :
    rootIdx (p1 ++ shiftParents p1.length p2) = rootIdx p1 ++ (rootIdx p2).map (· + p1.length) := by
  unfold rootIdx
  rw [List.length_append, shiftParents_length, range_add',
    scanFwd_disjoint_union _ p1 p2 _ _ (by simp) (by simp) hwf,
    scan_shift _ _ (by intro par i; cases par <;> rfl) _ _ (by simp)]

section seg
variable {β : Type} (zero : β) (add : β → β → β)

theorem segSum_shift (n1 k : Nat) : ∀ (v : List β) (ids : List Nat),
    segSum zero add v (ids.map (· + n1)) (k + n1) = segSum zero add v ids k
  | [], _ => by simp [segSum]
  | _ :: _, [] => by simp [segSum]
  | a :: v, i :: ids => by
    have ih := segSum_shift n1 k v ids
    unfold segSum at ih ⊢
    simp only [List.map_cons, List.zip_cons_cons, List.filter_cons]
    have hb : ((i + n1 == k + n1) = (i == k)) := by
      by_cases h : i = k
      · subst h; simp
      · have : ¬ (i + n1 = k + n1) := by omega
        simp [h, this]
    rw [hb]
    split
    · simp only [List.foldr_cons, ih]
    · exact ih

theorem segSum_nil_of_ne (v : List β) (ids : List Nat) (k : Nat) (h : ∀ i ∈ ids, i ≠ k) :
    (v.zip ids).filter (fun p => p.2 == k) = [] := by
  rw [List.filter_eq_nil_iff]
  intro p hp
  have := h p.2 (List.of_mem_zip hp).2
  simpa using this

theorem segSum_union_left (v1 v2 : List β) (ids1 ids2 : List Nat) (n1 k : Nat)
    (hl : v1.length = ids1.length) (hk : k < n1) :
    segSum zero add (v1 ++ v2) (ids1 ++ ids2.map (· + n1)) k = segSum zero add v1 ids1 k := by
  unfold segSum
  rw [List.zip_append hl, List.filter_append, segSum_nil_of_ne v2 _ k, List.append_nil]
  intro i hi
  obtain ⟨j, _, rfl⟩ := List.mem_map.mp hi
  omega

theorem segSum_union_right (v1 v2 : List β) (ids1 ids2 : List Nat) (n1 k : Nat)
    (hl : v1.length = ids1.length) (h1 : ∀ i ∈ ids1, i < n1) :
    segSum zero add (v1 ++ v2) (ids1 ++ ids2.map (· + n1)) (k + n1) = segSum zero add v2 ids2 k := by
  rw [← segSum_shift zero add n1 k v2 ids2]
  unfold segSum
  rw [List.zip_append hl, List.filter_append, segSum_nil_of_ne v1 _ (k + n1), List.nil_append]
  intro i hi
  have := h1 i hi
  omega

end seg

/-- **`root_com` is per tree**: the per-tree centres of mass of a disjoint union are those of the parts -/
theorem rootCom_union (p1 p2 : List Int) (m1 m2 : List ℝ) (xi1 xi2 : List (Tf ℝ))
    (hwf1 : PWF p1) (hwf2 : PWF p2) (hm1 : m1.length = p1.length) (hxi1 : xi1.length = p1.length) :
    rootCom (p1 ++ shiftParents p1.length p2) (m1 ++ m2) (xi1 ++ xi2)
      = rootCom p1 m1 xi1 ++ rootCom p2 m2 xi2 := by
  unfold rootCom
  simp only []
  rw [rootIdx_union p1 p2 (pwf_parentsWF hwf2), List.zipWith_append (by rw [hm1, hxi1]),
    List.map_append, List.map_map]
  have hlt := rootIdx_lt p1.length p1 rfl hwf1
  have hl1 : (List.zipWith (fun m (t : Tf ℝ) => V3.smul m t.pos) m1 xi1).length = (rootIdx p1).length := by
    simp [rootIdx_length, hm1, hxi1]
  have hl2 : m1.length = (rootIdx p1).length := by rw [rootIdx_length, hm1]
  congr 1
  · apply List.map_congr_left
    intro r hr
    rw [segSum_union_left _ _ _ _ _ _ _ r hl1 (hlt r hr), segSum_union_left _ _ _ _ _ _ _ r hl2 (hlt r hr)]
  · apply List.map_congr_left
    intro r hr
    simp only [Function.comp]
    rw [segSum_union_right _ _ _ _ _ _ _ r hl1 hlt, segSum_union_right _ _ _ _ _ _ _ r hl2 hlt]

/-! ## 5. parent lookups of a disjoint union -/
section par
variable {β : Type}

theorem takeParent_nat' (xs : List β) (d : β) {k : Nat} (h : k < xs.length) :
    takeParent xs d (k : Int) = xs.getD k d := by
  unfold takeParent
  have : ((k : Int) % ((xs.length : Int) + 1)).toNat = k := by
    rw [Int.emod_eq_of_lt (by omega) (by omega)]; simp
  simp only [this]
  exact getD_app_left xs [d] d h

theorem takeParent_union_left (x1 x2 : List β) (d : β) (p : Int) (h1 : -1 ≤ p)
    (h2 : p < (x1.length : Int)) : takeParent (x1 ++ x2) d p = takeParent x1 d p := by
  by_cases hneg : p < 0
  · have : p = -1 := by omega
    rw [this, C05L.takeParent_neg_one, C05L.takeParent_neg_one]
  · obtain ⟨k, rfl⟩ := Int.eq_ofNat_of_zero_le (not_lt.mp hneg)
    have hk : k < x1.length := by exact_mod_cast h2
    rw [takeParent_nat' _ _ (by rw [List.length_append]; omega), takeParent_nat' _ _ hk,
      getD_app_left _ _ _ hk]

theorem takeParent_union_right (x1 x2 : List β) (d : β) (p : Int) (n1 : Nat) (hx : x1.length = n1)
    (h1 : -1 ≤ p) (h2 : p < (x2.length : Int)) :
    takeParent (x1 ++ x2) d (shI n1 p) = takeParent x2 d p := by
  unfold shI
  by_cases hneg : p < 0
  · have : p = -1 := by omega
    rw [if_pos hneg, this, C05L.takeParent_neg_one, C05L.takeParent_neg_one]
  · obtain ⟨k, rfl⟩ := Int.eq_ofNat_of_zero_le (not_lt.mp hneg)
    have hk : k < x2.length := by exact_mod_cast h2
    rw [if_neg hneg, show ((k : Int) + (n1 : Int)) = ((k + n1 : Nat) : Int) by push_cast; rfl,
      takeParent_nat' _ _ (by rw [List.length_append]; omega), takeParent_nat' _ _ hk,
      getD_app_right _ _ _ _ hx]

end par

/-- `parent_idx` (a free link is its own parent) of a disjoint union -/
theorem parentIdx_union (t1 t2 : List LinkType) (p1 p2 : List Int) (ht : t1.length = p1.length) :
    parentIdx (t1 ++ t2) (p1 ++ shiftParents p1.length p2)
      = parentIdx t1 p1 ++ shiftParents p1.length (parentIdx t2 p2) := by
  unfold parentIdx
  rw [List.length_append, shiftParents_length, range_add', List.zip_append (by simp),
    List.zip_append (by simp [ht]), List.map_append, shiftParents_eq, shiftParents_eq, List.zip_map,
    List.zip_map_right, List.map_map, List.map_map]
  congr 1
  apply List.map_congr_left
  intro x _
  simp only [Function.comp, Prod.map, id]
  split
  · unfold shI; push_cast; rw [if_neg (by omega)]
  · rfl

theorem parentIdx_bounds (ts : List LinkType) (ps : List Int) (hl : ps.length = ts.length)
    (hp : ∀ i (h : i < ps.length), -1 ≤ ps[i] ∧ ps[i] < (ps.length : Int)) :
    ∀ p ∈ parentIdx ts ps, -1 ≤ p ∧ p < (ps.length : Int) := by
  intro p hp'
  unfold parentIdx at hp'
  obtain ⟨x, hx, rfl⟩ := List.mem_map.mp hp'
  obtain ⟨k, hk, rfl⟩ := List.mem_iff_getElem.mp hx
  simp only [List.length_zip, List.length_range] at hk
  simp only [List.getElem_zip, List.getElem_range]
  split
  · constructor <;> omega
  · exact hp k (by omega)

/-! ## 6. `transform_com` of a disjoint union -/

theorem _root_.Brax.C05Perm.WFParts.pwf {s : Sys ℝ} (h : C05Perm.WFParts s) : PWF s.parents := by
  intro i
  by_cases hi : i < s.numLinks
  · exact (h.par i hi).2
  · rw [List.getD_eq_getElem?_getD, List.getElem?_eq_none (by rw [h.plen]; omega)]
    simp only [Option.getD_none]; omega

theorem _root_.Brax.C05Perm.WFParts.bounds {s : Sys ℝ} (h : C05Perm.WFParts s) :
    ∀ i (hi : i < s.parents.length), -1 ≤ s.parents[i] ∧ s.parents[i] < (s.parents.length : Int) := by
  intro i hi
  have hi' : i < s.numLinks := by rw [← h.plen]; exact hi
  have := h.par i hi'
  unfold C04L.parentOf at this
  rw [List.getD_eq_getElem?_getD, List.getElem?_eq_getElem hi, Option.getD_some] at this
  exact ⟨this.1, by omega⟩

theorem _root_.Brax.C05Perm.WFParts.tlen {s : Sys ℝ} (h : C05Perm.WFParts s) : s.parents.length = s.types.length := h.plen
theorem _root_.Brax.C05Perm.WFParts.llen' {s : Sys ℝ} (h : C05Perm.WFParts s) : s.links.length = s.types.length := h.llen

/-- field-wise concatenation of the `transform_com` outputs -/
def unionCom (a b : ComState ℝ) : ComState ℝ :=
  ⟨a.rootCom ++ b.rootCom, a.cinr ++ b.cinr, a.cdof ++ b.cdof, a.cd ++ b.cd, a.cdofd ++ b.cdofd⟩

section tcu
variable (s1 s2 : Sys ℝ) (h1 : C05Perm.WFParts s1) (h2 : C05Perm.WFParts s2) (x1 x2 : List (Tf ℝ))
  (hx1 : x1.length = s1.types.length) (hx2 : x2.length = s2.types.length)
  (ins1 ins2 : List (LinkIn ℝ)) (hi1 : ins1.length = s1.types.length)
  (hi2 : ins2.length = s2.types.length)
include h1 h2 hx1 hx2

theorem union_parents :
    (C05Perm.unionSys s1 s2).parents = s1.parents ++ shiftParents s1.parents.length s2.parents := by
  show s1.parents ++ shiftParents s1.numLinks s2.parents = _
  rw [h1.plen]

theorem tcXi_union : C05G.tcXi (C05Perm.unionSys s1 s2) (x1 ++ x2) = C05G.tcXi s1 x1 ++ C05G.tcXi s2 x2 := by
  unfold C05G.tcXi
  show List.zipWith _ (x1 ++ x2) (s1.links ++ s2.links) = _
  rw [List.zipWith_append (by rw [hx1, h1.llen'])]

theorem tcXi_length : (C05G.tcXi s1 x1).length = s1.types.length := by
  unfold C05G.tcXi; simp [hx1, h1.llen']

theorem tcCom_union : C05G.tcCom (C05Perm.unionSys s1 s2) (x1 ++ x2) = C05G.tcCom s1 x1 ++ C05G.tcCom s2 x2 := by
  unfold C05G.tcCom
  rw [tcXi_union s1 s2 h1 h2 x1 x2 hx1 hx2, union_parents s1 s2 h1 h2 x1 x2 hx1 hx2]
  show rootCom _ ((s1.links ++ s2.links).map _) _ = _
  rw [List.map_append, rootCom_union _ _ _ _ _ _ h1.pwf h2.pwf (by simp [h1.llen', h1.tlen])
    (by rw [tcXi_length s1 s2 h1 h2 x1 x2 hx1 hx2, h1.tlen])]

theorem tcCom_length : (C05G.tcCom s1 x1).length = s1.types.length := by
  unfold C05G.tcCom; rw [rootCom_length, h1.tlen]

theorem tcCinr_union :
    C05G.tcCinr (C05Perm.unionSys s1 s2) (x1 ++ x2) = C05G.tcCinr s1 x1 ++ C05G.tcCinr s2 x2 := by
  unfold C05G.tcCinr
  rw [tcXi_union s1 s2 h1 h2 x1 x2 hx1 hx2, tcCom_union s1 s2 h1 h2 x1 x2 hx1 hx2]
  show List.zipWith _ _ (s1.links ++ s2.links) = _
  rw [List.zip_append (by rw [tcXi_length s1 s2 h1 h2 x1 x2 hx1 hx2, tcCom_length s1 s2 h1 h2 x1 x2 hx1 hx2]),
    List.zipWith_append (by
      rw [List.length_zip, tcXi_length s1 s2 h1 h2 x1 x2 hx1 hx2, tcCom_length s1 s2 h1 h2 x1 x2 hx1 hx2,
        h1.llen']; simp)]

theorem parentIdx_union_sys :
    parentIdx (C05Perm.unionSys s1 s2).types (C05Perm.unionSys s1 s2).parents
      = parentIdx s1.types s1.parents ++ shiftParents s1.parents.length (parentIdx s2.types s2.parents) := by
  rw [union_parents s1 s2 h1 h2 x1 x2 hx1 hx2]
  exact parentIdx_union s1.types s2.types s1.parents s2.parents h1.tlen.symm

theorem jointFrames_union :
    jointFrames (C05Perm.unionSys s1 s2) (x1 ++ x2) = jointFrames s1 x1 ++ jointFrames s2 x2 := by
  unfold jointFrames
  rw [parentIdx_union_sys s1 s2 h1 h2 x1 x2 hx1 hx2]
  show ((s1.links ++ s2.links).zip _).map _ = _
  rw [List.zip_append (by rw [h1.llen', parentIdx_length _ _ h1.tlen]), List.map_append,
    shiftParents_eq, List.zip_map_right, List.map_map]
  congr 1
  · apply List.map_congr_left
    intro lp hlp
    obtain ⟨b1, b2⟩ := parentIdx_bounds _ _ h1.tlen h1.bounds lp.2 (List.of_mem_zip hlp).2
    rw [takeParent_union_left x1 x2 Tf.id lp.2 b1 (by rw [hx1, ← h1.tlen]; exact b2)]
  · apply List.map_congr_left
    intro lp hlp
    obtain ⟨b1, b2⟩ := parentIdx_bounds _ _ h2.tlen h2.bounds lp.2 (List.of_mem_zip hlp).2
    simp only [Function.comp, Prod.map, id]
    rw [takeParent_union_right x1 x2 Tf.id lp.2 _ (by rw [hx1, h1.tlen]) b1
      (by rw [hx2, ← h2.tlen]; exact b2)]

theorem jointFrames_length' : (jointFrames s1 x1).length = s1.types.length :=
  jointFrames_length s1 x1 h1.tlen h1.llen'

include hi1 hi2

theorem tcCdof_union :
    C05G.tcCdof (C05Perm.unionSys s1 s2) (x1 ++ x2) (ins1 ++ ins2)
      = C05G.tcCdof s1 x1 ins1 ++ C05G.tcCdof s2 x2 ins2 := by
  unfold C05G.tcCdof
  rw [jointFrames_union s1 s2 h1 h2 x1 x2 hx1 hx2, tcCom_union s1 s2 h1 h2 x1 x2 hx1 hx2,
    List.zip_append (by
      rw [jointFrames_length' s1 s2 h1 h2 x1 x2 hx1 hx2, tcCom_length s1 s2 h1 h2 x1 x2 hx1 hx2]),
    List.zipWith_append (by
      rw [List.length_zip, jointFrames_length' s1 s2 h1 h2 x1 x2 hx1 hx2,
        tcCom_length s1 s2 h1 h2 x1 x2 hx1 hx2, hi1]; simp)]

theorem tcCdof_length : (C05G.tcCdof s1 x1 ins1).length = s1.types.length := by
  unfold C05G.tcCdof
  simp [hi1, jointFrames_length' s1 s2 h1 h2 x1 x2 hx1 hx2, tcCom_length s1 s2 h1 h2 x1 x2 hx1 hx2]

theorem tcCdofQd_union :
    C05G.tcCdofQd (C05Perm.unionSys s1 s2) (x1 ++ x2) (ins1 ++ ins2)
      = C05G.tcCdofQd s1 x1 ins1 ++ C05G.tcCdofQd s2 x2 ins2 := by
  unfold C05G.tcCdofQd
  rw [tcCdof_union s1 s2 h1 h2 x1 x2 hx1 hx2 ins1 ins2 hi1 hi2,
    List.zipWith_append (by rw [tcCdof_length s1 s2 h1 h2 x1 x2 hx1 hx2 ins1 ins2 hi1 hi2, hi1])]

theorem tcCdofQd_length : (C05G.tcCdofQd s1 x1 ins1).length = s1.types.length := by
  unfold C05G.tcCdofQd
  simp [hi1, tcCdof_length s1 s2 h1 h2 x1 x2 hx1 hx2 ins1 ins2 hi1 hi2]

theorem tcCd_union :
    C05G.tcCd (C05Perm.unionSys s1 s2) (x1 ++ x2) (ins1 ++ ins2)
      = C05G.tcCd s1 x1 ins1 ++ C05G.tcCd s2 x2 ins2 := by
  unfold C05G.tcCd
  rw [tcCdofQd_union s1 s2 h1 h2 x1 x2 hx1 hx2 ins1 ins2 hi1 hi2, union_parents s1 s2 h1 h2 x1 x2 hx1 hx2,
    scanFwd_disjoint_union _ _ _ _ _
      (by rw [tcCdofQd_length s1 s2 h1 h2 x1 x2 hx1 hx2 ins1 ins2 hi1 hi2, h1.tlen])
      (by rw [tcCdofQd_length s2 s1 h2 h1 x2 x1 hx2 hx1 ins2 ins1 hi2 hi1, h2.tlen])
      (pwf_parentsWF h2.pwf)]

theorem tcCd_length : (C05G.tcCd s1 x1 ins1).length = s1.types.length := by
  unfold C05G.tcCd
  rw [scanFwd_length, tcCdofQd_length s1 s2 h1 h2 x1 x2 hx1 hx2 ins1 ins2 hi1 hi2, h1.tlen]
  simp

theorem tcCdofd_union :
    C05G.tcCdofd (C05Perm.unionSys s1 s2) (x1 ++ x2) (ins1 ++ ins2)
      = C05G.tcCdofd s1 x1 ins1 ++ C05G.tcCdofd s2 x2 ins2 := by
  unfold C05G.tcCdofd
  have hl1 := tcCd_length s1 s2 h1 h2 x1 x2 hx1 hx2 ins1 ins2 hi1 hi2
  have hl2 := tcCd_length s2 s1 h2 h1 x2 x1 hx2 hx1 ins2 ins1 hi2 hi1
  rw [tcCd_union s1 s2 h1 h2 x1 x2 hx1 hx2 ins1 ins2 hi1 hi2,
    tcCdof_union s1 s2 h1 h2 x1 x2 hx1 hx2 ins1 ins2 hi1 hi2,
    tcCdofQd_union s1 s2 h1 h2 x1 x2 hx1 hx2 ins1 ins2 hi1 hi2,
    parentIdx_union_sys s1 s2 h1 h2 x1 x2 hx1 hx2,
    List.zip_append (by rw [hi1, parentIdx_length _ _ h1.tlen]),
    List.zip_append (by
      rw [tcCdof_length s1 s2 h1 h2 x1 x2 hx1 hx2 ins1 ins2 hi1 hi2,
        tcCdofQd_length s1 s2 h1 h2 x1 x2 hx1 hx2 ins1 ins2 hi1 hi2]),
    List.zipWith_append (by
      simp [hi1, parentIdx_length _ _ h1.tlen, tcCdof_length s1 s2 h1 h2 x1 x2 hx1 hx2 ins1 ins2 hi1 hi2,
        tcCdofQd_length s1 s2 h1 h2 x1 x2 hx1 hx2 ins1 ins2 hi1 hi2])]
  congr 1
  · apply C05L.zipWith_congr_mem
    intro lp hlp cc
    obtain ⟨b1, b2⟩ := parentIdx_bounds _ _ h1.tlen h1.bounds lp.2 (List.of_mem_zip hlp).2
    rw [takeParent_union_left _ _ Motion.zero lp.2 b1 (by rw [hl1, ← h1.tlen]; exact b2)]
  · rw [shiftParents_eq, List.zip_map_right, List.zipWith_map_left]
    apply C05L.zipWith_congr_mem
    intro lp hlp cc
    obtain ⟨b1, b2⟩ := parentIdx_bounds _ _ h2.tlen h2.bounds lp.2 (List.of_mem_zip hlp).2
    simp only [Prod.map, id]
    rw [takeParent_union_right _ _ Motion.zero lp.2 _ (by rw [hl1, h1.tlen]) b1
      (by rw [hl2, ← h2.tlen]; exact b2)]

end tcu

/-- **`dynamics.transform_com` of a disjoint union** is the field-wise concatenation -/
theorem transformCom_union (s1 s2 : Sys ℝ) (h1 : C05Perm.WFParts s1) (h2 : C05Perm.WFParts s2)
    (x1 x2 : List (Tf ℝ)) (hx1 : x1.length = s1.types.length) (hx2 : x2.length = s2.types.length)
    (q1 q2 qd1 qd2 : List ℝ) (hq : q1.length = s1.nq) (hqd : qd1.length = s1.nv) :
    transformCom (C05Perm.unionSys s1 s2) (x1 ++ x2) (q1 ++ q2) (qd1 ++ qd2)
      = unionCom (transformCom s1 x1 q1 qd1) (transformCom s2 x2 q2 qd2) := by
  rw [C05G.transformCom_eq, C05G.transformCom_eq, C05G.transformCom_eq]
  have hins : linkSlices (C05Perm.unionSys s1 s2).types (q1 ++ q2) (qd1 ++ qd2) (C05Perm.unionSys s1 s2).dofs
      = linkSlices s1.types q1 qd1 s1.dofs ++ linkSlices s2.types q2 qd2 s2.dofs :=
    C05Perm.linkSlices_append _ _ _ _ _ _ _ _ hq hqd h1.dlen
  rw [hins]
  have hi1 := linkSlices_length s1.types q1 qd1 s1.dofs
  have hi2 := linkSlices_length s2.types q2 qd2 s2.dofs
  unfold unionCom
  simp only []
  rw [tcCom_union s1 s2 h1 h2 x1 x2 hx1 hx2, tcCinr_union s1 s2 h1 h2 x1 x2 hx1 hx2,
    tcCdof_union s1 s2 h1 h2 x1 x2 hx1 hx2 _ _ hi1 hi2, tcCd_union s1 s2 h1 h2 x1 x2 hx1 hx2 _ _ hi1 hi2,
    tcCdofd_union s1 s2 h1 h2 x1 x2 hx1 hx2 _ _ hi1 hi2]

/-! ## 7. the mass matrix of a disjoint union is block diagonal -/

/-- `diag(M1, M2)` for square matrices given as lists of rows -/
def blockDiag (M1 M2 : List (List ℝ)) : List (List ℝ) :=
  M1.map (· ++ List.replicate M2.length 0) ++ M2.map (List.replicate M1.length 0 ++ ·)

theorem contains_map_add (L : List Nat) (a n1 : Nat) :
    (L.map (· + n1)).contains (a + n1) = L.contains a := by
  induction L with
  | nil => rfl
  | cons x L ih =>
    simp only [List.map_cons, List.contains_cons, ih]
    congr 1
    by_cases h : a = x
    · subst h; simp
    · have : ¬ (a + n1 = x + n1) := by omega
      simp [h, this]

theorem contains_map_add_lt (L : List Nat) (l n1 : Nat) (h : l < n1) :
    (L.map (· + n1)).contains l = false := by
  induction L with
  | nil => rfl
  | cons x L ih =>
    simp only [List.map_cons, List.contains_cons, ih, Bool.or_false]
    have : ¬ (l = x + n1) := by omega
    simp [this]

/-- `massEntry` only reads the two ancestor tests, the two composite inertias, the two dof-row blocks
and the armature block of the row link, and compares the two link indices -/
theorem massEntry_congr (ps ps' : List Int) (C C' : List (Inertia ℝ)) (cdof cdof' : List (List (Motion ℝ)))
    (arm arm' : List (List ℝ)) (l a l' a' r s : Nat)
    (h1 : (ancs ps l).contains a = (ancs ps' l').contains a')
    (h2 : (ancs ps a).contains l = (ancs ps' a').contains l')
    (h3 : C.getD l ⟨Tf.id, M3.zero, 0⟩ = C'.getD l' ⟨Tf.id, M3.zero, 0⟩)
    (h4 : C.getD a ⟨Tf.id, M3.zero, 0⟩ = C'.getD a' ⟨Tf.id, M3.zero, 0⟩)
    (h5 : cdof.getD l [] = cdof'.getD l' []) (h6 : cdof.getD a [] = cdof'.getD a' [])
    (h7 : arm.getD l [] = arm'.getD l' []) (h8 : a < l ↔ a' < l') (h9 : a = l ↔ a' = l') :
    massEntry ps C cdof arm l r a s = massEntry ps' C' cdof' arm' l' r a' s := by
  unfold massEntry
  simp only [h1, h2, h3, h4, h5, h6, h7, h8, h9]

section mm
variable (p1 p2 : List Int) (C1 C2 : List (Inertia ℝ)) (cdof1 cdof2 : List (List (Motion ℝ)))
  (arm1 arm2 : List (List ℝ)) (n1 : Nat) (hp : p1.length = n1) (hC : C1.length = n1)
  (hcd : cdof1.length = n1) (har : arm1.length = n1)
  (hlt : ∀ i, i < p1.length → p1.getD i (-1) < (p1.length : Int)) (hwf2 : PWF p2)
include hp hC hcd har hlt hwf2

theorem massEntry_LL (l r a s : Nat) (hl : l < n1) (ha : a < n1) :
    massEntry (p1 ++ shiftParents n1 p2) (C1 ++ C2) (cdof1 ++ cdof2) (arm1 ++ arm2) l r a s
      = massEntry p1 C1 cdof1 arm1 l r a s := by
  apply massEntry_congr
  · rw [ancs_union_left p1 _ hlt l (by omega)]
  · rw [ancs_union_left p1 _ hlt a (by omega)]
  · exact getD_app_left _ _ _ (by omega)
  · exact getD_app_left _ _ _ (by omega)
  · exact getD_app_left _ _ _ (by omega)
  · exact getD_app_left _ _ _ (by omega)
  · exact getD_app_left _ _ _ (by omega)
  · exact Iff.rfl
  · exact Iff.rfl

theorem massEntry_RR (l r a s : Nat) :
    massEntry (p1 ++ shiftParents n1 p2) (C1 ++ C2) (cdof1 ++ cdof2) (arm1 ++ arm2) (l + n1) r (a + n1) s
      = massEntry p2 C2 cdof2 arm2 l r a s := by
  apply massEntry_congr
  · rw [ancs_union_right p1 p2 n1 hp hwf2, contains_map_add]
  · rw [ancs_union_right p1 p2 n1 hp hwf2, contains_map_add]
  · exact getD_app_right _ _ _ _ hC
  · exact getD_app_right _ _ _ _ hC
  · exact getD_app_right _ _ _ _ hcd
  · exact getD_app_right _ _ _ _ hcd
  · exact getD_app_right _ _ _ _ har
  · omega
  · omega

theorem massEntry_LR (l r a s : Nat) (hl : l < n1) :
    massEntry (p1 ++ shiftParents n1 p2) (C1 ++ C2) (cdof1 ++ cdof2) (arm1 ++ arm2) l r (a + n1) s = 0 := by
  unfold massEntry
  have e1 : ¬ (a + n1 < l ∨ (a + n1 = l ∧ s ≤ r)) := by omega
  have e2 : ¬ (a + n1 = l ∧ s = r) := by omega
  simp only [if_neg e1, if_neg e2]
  rw [ancs_union_right p1 p2 n1 hp hwf2, contains_map_add_lt _ _ _ hl]
  rfl

theorem massEntry_RL (l r a s : Nat) (ha : a < n1) :
    massEntry (p1 ++ shiftParents n1 p2) (C1 ++ C2) (cdof1 ++ cdof2) (arm1 ++ arm2) (l + n1) r a s = 0 := by
  unfold massEntry
  have e1 : (a < l + n1 ∨ (a = l + n1 ∧ s ≤ r)) := by omega
  have e2 : ¬ (a = l + n1 ∧ s = r) := by omega
  simp only [if_pos e1, if_neg e2]
  rw [ancs_union_right p1 p2 n1 hp hwf2, contains_map_add_lt _ _ _ ha]
  rfl

end mm

theorem dofIdx_union (cdof1 cdof2 : List (List (Motion ℝ))) :
    dofIdx (cdof1 ++ cdof2).length (wAt (cdof1 ++ cdof2))
      = dofIdx cdof1.length (wAt cdof1)
        ++ (dofIdx cdof2.length (wAt cdof2)).map fun lr => (lr.1 + cdof1.length, lr.2) := by
  unfold dofIdx
  rw [List.length_append, range_add', List.flatMap_append, List.flatMap_map, List.map_flatMap]
  congr 1
  · apply List.flatMap_congr
    intro l hl
    have : wAt (cdof1 ++ cdof2) l = wAt cdof1 l := by
      unfold wAt; rw [getD_app_left _ _ _ (List.mem_range.mp hl)]
    rw [this]
  · apply List.flatMap_congr
    intro l hl
    have : wAt (cdof1 ++ cdof2) (l + cdof1.length) = wAt cdof2 l := by
      unfold wAt; rw [getD_app_right _ _ _ _ rfl]
    rw [this, List.map_map]
    rfl

theorem dofIdx_fst_lt (n : Nat) (w : Nat → Nat) : ∀ lr ∈ dofIdx n w, lr.1 < n := by
  intro lr h
  unfold dofIdx at h
  obtain ⟨l, hl, h2⟩ := List.mem_flatMap.mp h
  obtain ⟨r, _, rfl⟩ := List.mem_map.mp h2
  exact List.mem_range.mp hl

theorem massMatrix_def (ps : List Int) (cinr : List (Inertia ℝ)) (cdof : List (List (Motion ℝ)))
    (arm : List (List ℝ)) :
    massMatrix ps cinr cdof arm
      = (dofIdx cdof.length (wAt cdof)).map fun lr => (dofIdx cdof.length (wAt cdof)).map fun as =>
          massEntry ps (crb ps cinr) cdof arm lr.1 lr.2 as.1 as.2 := rfl

/-- **the mass matrix of a disjoint union is block diagonal**: the ancestor mask of `mass.matrix` is
empty across components and the composite inertias are per tree -/
theorem massMatrix_union (p1 p2 : List Int) (cinr1 cinr2 : List (Inertia ℝ))
    (cdof1 cdof2 : List (List (Motion ℝ))) (arm1 arm2 : List (List ℝ))
    (hC : cinr1.length = p1.length) (hcd : cdof1.length = p1.length) (har : arm1.length = p1.length)
    (hwf1 : PWF p1) (hwf2 : PWF p2) :
    massMatrix (p1 ++ shiftParents p1.length p2) (cinr1 ++ cinr2) (cdof1 ++ cdof2) (arm1 ++ arm2)
      = blockDiag (massMatrix p1 cinr1 cdof1 arm1) (massMatrix p2 cinr2 cdof2 arm2) := by
  have hlt : ∀ i, i < p1.length → p1.getD i (-1) < (p1.length : Int) := by
    intro i hi; have := hwf1 i; omega
  have hlt' : ∀ i (h : i < p1.length), p1[i] < (p1.length : Int) := by
    intro i hi
    have := hlt i hi
    rwa [List.getD_eq_getElem?_getD, List.getElem?_eq_getElem hi, Option.getD_some] at this
  have hcrb : crb (p1 ++ shiftParents p1.length p2) (cinr1 ++ cinr2) = crb p1 cinr1 ++ crb p2 cinr2 :=
    revAcc_union inertiaAdd p1 p2 cinr1 cinr2 hC.symm hlt'
  have hCl : (crb p1 cinr1).length = p1.length := by unfold crb; rw [revAcc_length, hC]
  rw [massMatrix_def, massMatrix_def, massMatrix_def, hcrb, dofIdx_union, hcd]
  unfold blockDiag
  simp only [List.map_append, List.map_map, List.length_map]
  congr 1
  · apply List.map_congr_left
    intro lr hlr
    have hl : lr.1 < p1.length := by
      have := dofIdx_fst_lt _ _ lr hlr; omega
    simp only [Function.comp]
    congr 1
    · apply List.map_congr_left
      intro as has
      have ha : as.1 < p1.length := by
        have := dofIdx_fst_lt _ _ as has; omega
      exact massEntry_LL p1 p2 _ _ _ _ _ _ p1.length rfl hCl hcd har hlt hwf2 _ _ _ _ hl ha
    · rw [← List.map_const']
      apply List.map_congr_left
      intro as _
      exact massEntry_LR p1 p2 _ _ _ _ _ _ p1.length rfl hCl hcd har hlt hwf2 _ _ _ _ hl
  · apply List.map_congr_left
    intro lr _
    simp only [Function.comp]
    congr 1
    · rw [← List.map_const']
      apply List.map_congr_left
      intro as has
      have ha : as.1 < p1.length := by
        have := dofIdx_fst_lt _ _ as has; omega
      exact massEntry_RL p1 p2 _ _ _ _ _ _ p1.length rfl hCl hcd har hlt hwf2 _ _ _ _ ha
    · apply List.map_congr_left
      intro as _
      exact massEntry_RR p1 p2 _ _ _ _ _ _ p1.length rfl hCl hcd har hlt hwf2 _ _ _ _

/-! ## 8. the bias force (`dynamics.inverse`) of a disjoint union -/

theorem hlt_of_pwf {p1 : List Int} (hwf1 : PWF p1) :
    ∀ i (h : i < p1.length), p1[i] < (p1.length : Int) := by
  intro i hi
  have := hwf1 i
  rw [List.getD_eq_getElem?_getD, List.getElem?_eq_getElem hi, Option.getD_some] at this
  omega

theorem inverse_union (p1 p2 : List Int) (grav : V3 ℝ) (c1 c2 : ComState ℝ) (N1 N2 : List (List ℝ))
    (hwf1 : PWF p1) (hwf2 : PWF p2)
    (l1 : c1.cinr.length = p1.length) (l2 : c1.cdof.length = p1.length) (l3 : c1.cd.length = p1.length)
    (l4 : c1.cdofd.length = p1.length) (l5 : N1.length = p1.length)
    (m4 : c2.cdofd.length = p2.length) (m5 : N2.length = p2.length) :
    inverse (p1 ++ shiftParents p1.length p2) grav (unionCom c1 c2) (N1 ++ N2)
      = inverse p1 grav c1 N1 ++ inverse p2 grav c2 N2 := by
  have hU : C05G.invU (unionCom c1 c2) (N1 ++ N2) = C05G.invU c1 N1 ++ C05G.invU c2 N2 := by
    unfold C05G.invU unionCom
    simp only []
    rw [List.zipWith_append (by rw [l4, l5])]
  have hUl1 : (C05G.invU c1 N1).length = p1.length := by simp [C05G.invU, l4, l5]
  have hUl2 : (C05G.invU c2 N2).length = p2.length := by simp [C05G.invU, m4, m5]
  have hCdd : C05G.invCdd (p1 ++ shiftParents p1.length p2) grav (unionCom c1 c2) (N1 ++ N2)
      = C05G.invCdd p1 grav c1 N1 ++ C05G.invCdd p2 grav c2 N2 := by
    unfold C05G.invCdd
    rw [hU, scanFwd_disjoint_union _ _ _ _ _ hUl1.symm hUl2.symm (pwf_parentsWF hwf2)]
  have hCddl1 : (C05G.invCdd p1 grav c1 N1).length = p1.length := by
    unfold C05G.invCdd; rw [scanFwd_length, hUl1]; simp
  have hFlat : C05G.invFlat (p1 ++ shiftParents p1.length p2) grav (unionCom c1 c2) (N1 ++ N2)
      = C05G.invFlat p1 grav c1 N1 ++ C05G.invFlat p2 grav c2 N2 := by
    unfold C05G.invFlat
    rw [hCdd]
    show List.zipWith _ ((c1.cinr ++ c2.cinr).zip _) (c1.cd ++ c2.cd) = _
    rw [List.zip_append (by rw [l1, hCddl1]), List.zipWith_append (by simp [l1, hCddl1, l3])]
  have hFlatl1 : (C05G.invFlat p1 grav c1 N1).length = p1.length := by
    unfold C05G.invFlat; simp [l1, hCddl1, l3]
  have hCfrc : C05G.invCfrc (p1 ++ shiftParents p1.length p2) grav (unionCom c1 c2) (N1 ++ N2)
      = C05G.invCfrc p1 grav c1 N1 ++ C05G.invCfrc p2 grav c2 N2 := by
    unfold C05G.invCfrc
    rw [hFlat, revAcc_union Force.add p1 p2 _ _ hFlatl1.symm (hlt_of_pwf hwf1)]
  have hCfrcl1 : (C05G.invCfrc p1 grav c1 N1).length = p1.length := by
    unfold C05G.invCfrc; rw [revAcc_length, hFlatl1]
  rw [C05G.inverse_eq, C05G.inverse_eq, C05G.inverse_eq, hCfrc]
  show List.zipWith _ (c1.cdof ++ c2.cdof) _ = _
  rw [List.zipWith_append (by rw [l2, hCfrcl1])]

/-- shapes of the `transform_com` outputs a step reads -/
structure ComShape (ts : List LinkType) (c : ComState ℝ) : Prop where
  lcinr : c.cinr.length = ts.length
  lcdof : List.Forall₂ (fun (t : LinkType) (r : List (Motion ℝ)) => r.length = t.qdWidth) ts c.cdof
  lcd : c.cd.length = ts.length
  lcdofd : c.cdofd.length = ts.length

theorem inverse_flatten_length (ts : List LinkType) (ps : List Int) (grav : V3 ℝ) (c : ComState ℝ)
    (N : List (List ℝ)) (hc : ComShape ts c) (hps : ps.length = ts.length) (hN : N.length = ts.length) :
    (inverse ps grav c N).flatten.length = (ts.map LinkType.qdWidth).sum := by
  have hl : c.cdof.length = ts.length := (List.Forall₂.length_eq hc.lcdof).symm
  have hcf : (C05G.invCfrc ps grav c N).length = ts.length := by
    simp [C05G.invCfrc, revAcc_length, C05G.invFlat, C05G.invCdd, C05G.invU, scanFwd_length, hc.lcinr,
      hc.lcd, hc.lcdofd, hps, hN]
  apply C05G.chunks_flatten_length
  rw [C05G.inverse_eq]
  apply C05G.forall₂_of_getElem
  · simp [hl, hcf]
  · intro i h1 h2
    simp only [List.getElem_zipWith, List.length_map]
    exact forall₂_getElem hc.lcdof i h1 (by rw [hl]; exact h1)

/-! ## 9. passive force, actuator force, `qf_smooth` of a disjoint union -/

theorem passiveFlat_length (s : Sys ℝ) (q qd : List ℝ) (hf : C05G.Full s q qd) :
    (passiveFlat s q qd).length = s.nv := by
  have hfl := C05G.linkSlices_full s.types q qd s.dofs (by rw [hf.hq]; exact le_refl _)
    (by rw [hf.hqd]; exact le_refl _) (by rw [hf.hds]; exact le_refl _)
  have hch : C05G.ChunksQd s.types ((linkSlices s.types q qd s.dofs).map passiveLink) := by
    apply C05G.chunks_map passiveLink LinkType.qdWidth _ hfl
    intro t l hl
    obtain ⟨ht, hq, hqd, hd⟩ := hl
    unfold passiveLink
    cases hti : l.typ <;> simp [hq, hqd, hd, ← ht, hti, LinkType.qWidth, LinkType.qdWidth]
  exact C05G.chunks_flatten_length hch

/-- one actuator of `actuator.to_tau` -/
noncomputable def tauStep (q qd : List ℝ) (tau : List ℝ) (au : ActP ℝ × ℝ) : List ℝ :=
  addAt tau au.1.qdId
    (clipO (au.1.gain * clipO au.2 au.1.ctrlLo au.1.ctrlHi
        + au.1.gear * (gather q au.1.qId * au.1.biasQ + gather qd au.1.qdId * au.1.biasQd))
      au.1.forceLo au.1.forceHi * au.1.gear)

theorem toTau_def (nv : Nat) (acts : List (ActP ℝ)) (u q qd : List ℝ) :
    toTau nv acts u q qd = (acts.zip u).foldl (tauStep q qd) (List.replicate nv 0) := rfl

theorem gather_left (q1 q2 : List ℝ) {i : Nat} (h : i < q1.length) :
    gather (q1 ++ q2) i = gather q1 i := by
  unfold gather
  rw [List.length_append, Nat.min_eq_left (by omega), Nat.min_eq_left (by omega), getD_app_left _ _ _ h]

theorem gather_right (q1 q2 : List ℝ) {i : Nat} (h : i < q2.length) :
    gather (q1 ++ q2) (i + q1.length) = gather q2 i := by
  unfold gather
  rw [List.length_append, Nat.min_eq_left (by omega), Nat.min_eq_left (by omega),
    getD_app_right _ _ _ _ rfl]

theorem addAt_left : ∀ (t1 t2 : List ℝ) (i : Nat) (f : ℝ), i < t1.length →
    addAt (t1 ++ t2) i f = addAt t1 i f ++ t2
  | [], _, _, _, h => by simp at h
  | x :: t1, t2, 0, f, _ => rfl
  | x :: t1, t2, i + 1, f, h => by
    simp only [List.cons_append, addAt]
    rw [addAt_left t1 t2 i f (by simpa using h)]

theorem addAt_right : ∀ (t1 t2 : List ℝ) (i : Nat) (f : ℝ),
    addAt (t1 ++ t2) (i + t1.length) f = t1 ++ addAt t2 i f
  | [], t2, i, f => by simp
  | x :: t1, t2, i, f => by
    simp only [List.cons_append, List.length_cons]
    rw [show i + (t1.length + 1) = (i + t1.length) + 1 by omega]
    simp only [addAt]
    rw [addAt_right t1 t2 i f]

theorem tauStep_length (q qd tau : List ℝ) (au : ActP ℝ × ℝ) :
    (tauStep q qd tau au).length = tau.length := by
  unfold tauStep; rw [addAt_length]

theorem foldl_tauStep_length (q qd : List ℝ) (L : List (ActP ℝ × ℝ)) :
    ∀ t : List ℝ, (L.foldl (tauStep q qd) t).length = t.length := by
  induction L with
  | nil => intro t; rfl
  | cons au L ih => intro t; simp only [List.foldl_cons]; rw [ih, tauStep_length]

theorem foldl_tauStep_left (q1 q2 qd1 qd2 : List ℝ) (L : List (ActP ℝ × ℝ)) :
    ∀ (t1 t2 : List ℝ), qd1.length = t1.length →
    (∀ au ∈ L, au.1.qId < q1.length ∧ au.1.qdId < qd1.length) →
    L.foldl (tauStep (q1 ++ q2) (qd1 ++ qd2)) (t1 ++ t2) = L.foldl (tauStep q1 qd1) t1 ++ t2 := by
  induction L with
  | nil => intro t1 t2 _ _; rfl
  | cons au L ih =>
    intro t1 t2 hl h
    obtain ⟨b1, b2⟩ := h au (by simp)
    simp only [List.foldl_cons]
    have : tauStep (q1 ++ q2) (qd1 ++ qd2) (t1 ++ t2) au = tauStep q1 qd1 t1 au ++ t2 := by
      unfold tauStep
      rw [gather_left q1 q2 b1, gather_left qd1 qd2 b2, addAt_left _ _ _ _ (by omega)]
    rw [this]
    exact ih _ _ (by rw [tauStep_length]; exact hl) (fun a ha => h a (by simp [ha]))

theorem foldl_tauStep_right (q1 q2 qd1 qd2 : List ℝ) (L : List (ActP ℝ × ℝ)) :
    ∀ (t1 t2 : List ℝ), qd1.length = t1.length →
    (∀ au ∈ L, au.1.qId < q2.length ∧ au.1.qdId < qd2.length) →
    (L.map fun au => (C05Perm.shiftAct q1.length qd1.length au.1, au.2)).foldl
        (tauStep (q1 ++ q2) (qd1 ++ qd2)) (t1 ++ t2)
      = t1 ++ L.foldl (tauStep q2 qd2) t2 := by
  induction L with
  | nil => intro t1 t2 _ _; rfl
  | cons au L ih =>
    intro t1 t2 hl h
    obtain ⟨b1, b2⟩ := h au (by simp)
    simp only [List.map_cons, List.foldl_cons]
    have : tauStep (q1 ++ q2) (qd1 ++ qd2) (t1 ++ t2) (C05Perm.shiftAct q1.length qd1.length au.1, au.2)
        = t1 ++ tauStep q2 qd2 t2 au := by
      unfold tauStep
      show addAt (t1 ++ t2) (au.1.qdId + qd1.length)
        (clipO (au.1.gain * clipO au.2 au.1.ctrlLo au.1.ctrlHi
          + au.1.gear * (gather (q1 ++ q2) (au.1.qId + q1.length) * au.1.biasQ
            + gather (qd1 ++ qd2) (au.1.qdId + qd1.length) * au.1.biasQd))
          au.1.forceLo au.1.forceHi * au.1.gear) = _
      rw [gather_right q1 q2 b1, gather_right qd1 qd2 b2, hl, addAt_right]
    rw [this]
    exact ih _ _ hl (fun a ha => h a (by simp [ha]))

/-- **`actuator.to_tau` of a disjoint union** -/
theorem toTau_union (s1 s2 : Sys ℝ) (act1 act2 q1 q2 qd1 qd2 : List ℝ)
    (hact : act1.length = s1.acts.length) (hq1 : q1.length = s1.nq) (hqd1 : qd1.length = s1.nv)
    (hq2 : q2.length = s2.nq) (hqd2 : qd2.length = s2.nv)
    (ha1 : ∀ a ∈ s1.acts, a.qId < s1.nq ∧ a.qdId < s1.nv)
    (ha2 : ∀ a ∈ s2.acts, a.qId < s2.nq ∧ a.qdId < s2.nv) :
    toTau (C05Perm.unionSys s1 s2).nv (C05Perm.unionSys s1 s2).acts (act1 ++ act2) (q1 ++ q2) (qd1 ++ qd2)
      = toTau s1.nv s1.acts act1 q1 qd1 ++ toTau s2.nv s2.acts act2 q2 qd2 := by
  rw [toTau_def, toTau_def, toTau_def, C05Perm.unionSys_nv]
  show ((s1.acts ++ s2.acts.map (C05Perm.shiftAct s1.nq s1.nv)).zip (act1 ++ act2)).foldl _ _ = _
  rw [List.zip_append hact.symm, List.foldl_append, List.replicate_add, List.zip_map_left,
    foldl_tauStep_left q1 q2 qd1 qd2 _ _ _ (by simp [hqd1])
      (by
        intro au hau
        have := ha1 au.1 (List.of_mem_zip hau).1
        rw [hq1, hqd1]; exact this)]
  have e : (fun (au : ActP ℝ × ℝ) => Prod.map (C05Perm.shiftAct s1.nq s1.nv) id au)
      = fun au => (C05Perm.shiftAct q1.length qd1.length au.1, au.2) := by
    funext au; rw [hq1, hqd1]; rfl
  rw [show (List.map (Prod.map (C05Perm.shiftAct s1.nq s1.nv) id) (s2.acts.zip act2))
      = (s2.acts.zip act2).map fun au => (C05Perm.shiftAct q1.length qd1.length au.1, au.2) from by
        rw [← e]]
  rw [foldl_tauStep_right q1 q2 qd1 qd2 _ _ _
      (by rw [foldl_tauStep_length]; simp [hqd1])
      (by
        intro au hau
        have := ha2 au.1 (List.of_mem_zip hau).1
        rw [hq2, hqd2]; exact this)]

/-! ## 10. `qf_smooth`, the integrator, `pipeline.init` and `pipeline.step` of a disjoint union -/

/-- concatenated CoM terms, block-diagonal mass matrix -/
def unionDyn (a b : DynState ℝ) : DynState ℝ := ⟨unionCom a.com b.com, blockDiag a.massMx b.massMx⟩

/-- the two global options a generalized step reads (`unionSys` carries those of `s1`) -/
structure SameGlobalsG (s1 s2 : Sys ℝ) : Prop where
  gravity : s1.gravity = s2.gravity
  dt : s1.dt = s2.dt

theorem nested_union (s1 s2 : Sys ℝ) (h1 : C05Perm.WFParts s1) (q1 q2 qd1 qd2 : List ℝ)
    (hq : q1.length = s1.nq) (hqd : qd1.length = s1.nv) :
    nested (C05Perm.unionSys s1 s2) (q1 ++ q2) (qd1 ++ qd2) = nested s1 q1 qd1 ++ nested s2 q2 qd2 :=
  C05Perm.linkSlices_append _ _ _ _ _ _ _ _ hq hqd h1.dlen

theorem nested_length (s : Sys ℝ) (q qd : List ℝ) : (nested s q qd).length = s.types.length :=
  linkSlices_length _ _ _ _

theorem passiveFlat_union (s1 s2 : Sys ℝ) (h1 : C05Perm.WFParts s1) (q1 q2 qd1 qd2 : List ℝ)
    (hq : q1.length = s1.nq) (hqd : qd1.length = s1.nv) :
    passiveFlat (C05Perm.unionSys s1 s2) (q1 ++ q2) (qd1 ++ qd2)
      = passiveFlat s1 q1 qd1 ++ passiveFlat s2 q2 qd2 := by
  unfold passiveFlat
  rw [nested_union s1 s2 h1 _ _ _ _ hq hqd, List.map_append, List.flatten_append]

section qf
variable (s1 s2 : Sys ℝ) (h1 : C05Perm.WFParts s1) (h2 : C05Perm.WFParts s2) (hg : SameGlobalsG s1 s2)
  (st1 st2 : DynState ℝ) (hc1 : ComShape s1.types st1.com) (hc2 : ComShape s2.types st2.com)
  (q1 q2 qd1 qd2 : List ℝ) (hf1 : C05G.Full s1 q1 qd1) (hf2 : C05G.Full s2 q2 qd2)
include h1 h2 hg hc1 hc2 hf1 hf2

theorem union_parents' :
    (C05Perm.unionSys s1 s2).parents = s1.parents ++ shiftParents s1.parents.length s2.parents := by
  show s1.parents ++ shiftParents s1.numLinks s2.parents = _
  rw [h1.plen]

theorem biasFlat_union :
    biasFlat (C05Perm.unionSys s1 s2) (unionDyn st1 st2) (q1 ++ q2) (qd1 ++ qd2)
      = biasFlat s1 st1 q1 qd1 ++ biasFlat s2 st2 q2 qd2 := by
  unfold biasFlat
  rw [nested_union s1 s2 h1 _ _ _ _ hf1.hq hf1.hqd, List.map_append,
    union_parents' s1 s2 h1 h2 hg st1 st2 hc1 hc2 q1 q2 qd1 qd2 hf1 hf2]
  show (inverse _ s1.gravity (unionCom st1.com st2.com) _).flatten = _
  have hl1 : st1.com.cdof.length = s1.types.length := (List.Forall₂.length_eq hc1.lcdof).symm
  rw [inverse_union _ _ _ _ _ _ _ h1.pwf h2.pwf (by rw [hc1.lcinr, h1.tlen]) (by rw [hl1, h1.tlen])
    (by rw [hc1.lcd, h1.tlen]) (by rw [hc1.lcdofd, h1.tlen])
    (by rw [List.length_map, nested_length, h1.tlen]) (by rw [hc2.lcdofd, h2.tlen])
    (by rw [List.length_map, nested_length, h2.tlen]), List.flatten_append, hg.gravity]

theorem biasFlat_length : (biasFlat s1 st1 q1 qd1).length = s1.nv := by
  unfold biasFlat
  exact inverse_flatten_length s1.types _ _ _ _ hc1 h1.tlen (by rw [List.length_map, nested_length])

theorem qfSmooth_union (act1 act2 : List ℝ) (hact : act1.length = s1.acts.length) :
    qfSmooth (C05Perm.unionSys s1 s2) (unionDyn st1 st2) (q1 ++ q2) (qd1 ++ qd2) (act1 ++ act2)
      = qfSmooth s1 st1 q1 qd1 act1 ++ qfSmooth s2 st2 q2 qd2 act2 := by
  unfold qfSmooth Gd.forward
  rw [passiveFlat_union s1 s2 h1 _ _ _ _ hf1.hq hf1.hqd,
    biasFlat_union s1 s2 h1 h2 hg st1 st2 hc1 hc2 q1 q2 qd1 qd2 hf1 hf2,
    toTau_union s1 s2 act1 act2 q1 q2 qd1 qd2 hact hf1.hq hf1.hqd hf2.hq hf2.hqd h1.acts h2.acts]
  have l1 := passiveFlat_length s1 q1 qd1 hf1
  have l2 := biasFlat_length s1 s2 h1 h2 hg st1 st2 hc1 hc2 q1 q2 qd1 qd2 hf1 hf2
  have l3 := C05G.toTau_length s1.nv s1.acts act1 q1 qd1
  rw [List.zipWith_append (by rw [l1, l2]), List.zipWith_append (by simp [l1, l2, l3])]

theorem qfSmooth_length (act1 : List ℝ) : (qfSmooth s1 st1 q1 qd1 act1).length = s1.nv := by
  have l1 := passiveFlat_length s1 q1 qd1 hf1
  have l2 := biasFlat_length s1 s2 h1 h2 hg st1 st2 hc1 hc2 q1 q2 qd1 qd2 hf1 hf2
  have l3 := C05G.toTau_length s1.nv s1.acts act1 q1 qd1
  simp [qfSmooth, Gd.forward, l1, l2, l3]

end qf

/-- the damped matrix `pipeline.step` hands to the linear solve, for the union -/
noncomputable def dampedU (s1 s2 : Sys ℝ) (M1 M2 : List (List ℝ)) : List (List ℝ) :=
  dampedMatrix (blockDiag M1 M2) ((C05Perm.unionSys s1 s2).dofs.map (·.damping)) (C05Perm.unionSys s1 s2).dt

/-- the damped matrix of one part -/
noncomputable def dampedP (s : Sys ℝ) (M : List (List ℝ)) : List (List ℝ) :=
  dampedMatrix M (s.dofs.map (·.damping)) s.dt

theorem chunksQ_flatten_length {ts : List LinkType} {N : List (List ℝ)} (h : C05G.ChunksQ ts N) :
    N.flatten.length = (ts.map LinkType.qWidth).sum := by
  induction h with
  | nil => rfl
  | @cons t r ts N hr _ ih =>
    simp only [List.flatten_cons, List.length_append, List.map_cons, List.sum_cons, hr, ih]

theorem integrate_lengths (solve : List (List ℝ) → List ℝ → List ℝ) (s : Sys ℝ) (M : List (List ℝ))
    (q qd f c : List ℝ) (hf : C05G.Full s q qd)
    (hlen : (solve (dampedP s M) (List.zipWith (· + ·) f c)).length = s.nv) :
    (integrate solve s M q qd f c).1.length = s.nq ∧ (integrate solve s M q qd f c).2.1.length = s.nv := by
  have h2 : (integrate solve s M q qd f c).2.1.length = s.nv := by
    show (List.zipWith _ qd (solve (dampedP s M) (List.zipWith (· + ·) f c))).length = _
    rw [List.length_zipWith, hf.hqd, hlen, min_self]
  refine ⟨?_, h2⟩
  show ((linkSlices s.types q (integrate solve s M q qd f c).2.1 s.dofs).map (integrateQLink s.dt)).flatten.length = _
  have hs := C05G.linkSlices_shape s.types q (integrate solve s M q qd f c).2.1 s.dofs
    (by rw [hf.hq]; exact le_refl _) (by rw [h2]; exact le_refl _)
  exact chunksQ_flatten_length
    (C05G.chunks_map (integrateQLink s.dt) LinkType.qWidth
      (fun t l hl => C05G.integrateQLink_length s.dt t l hl) hs)

/-- **`integrator.integrate` of a disjoint union**, for a linear solve that splits over the two blocks
(`hsolve`; see `solve_split_of_exact`) -/
theorem integrate_union (solve : List (List ℝ) → List ℝ → List ℝ) (s1 s2 : Sys ℝ)
    (h1 : C05Perm.WFParts s1) (hg : SameGlobalsG s1 s2) (M1 M2 : List (List ℝ))
    (q1 q2 qd1 qd2 f1 f2 c1 c2 : List ℝ) (hf1 : C05G.Full s1 q1 qd1)
    (hfl : f1.length = s1.nv) (hcl : c1.length = s1.nv)
    (hlen : (solve (dampedP s1 M1) (List.zipWith (· + ·) f1 c1)).length = s1.nv)
    (hsolve : solve (dampedU s1 s2 M1 M2) (List.zipWith (· + ·) f1 c1 ++ List.zipWith (· + ·) f2 c2)
      = solve (dampedP s1 M1) (List.zipWith (· + ·) f1 c1)
        ++ solve (dampedP s2 M2) (List.zipWith (· + ·) f2 c2)) :
    integrate solve (C05Perm.unionSys s1 s2) (blockDiag M1 M2) (q1 ++ q2) (qd1 ++ qd2) (f1 ++ f2) (c1 ++ c2)
      = ((integrate solve s1 M1 q1 qd1 f1 c1).1 ++ (integrate solve s2 M2 q2 qd2 f2 c2).1,
         (integrate solve s1 M1 q1 qd1 f1 c1).2.1 ++ (integrate solve s2 M2 q2 qd2 f2 c2).2.1,
         (integrate solve s1 M1 q1 qd1 f1 c1).2.2 ++ (integrate solve s2 M2 q2 qd2 f2 c2).2.2) := by
  have e3 : (integrate solve (C05Perm.unionSys s1 s2) (blockDiag M1 M2) (q1 ++ q2) (qd1 ++ qd2) (f1 ++ f2)
      (c1 ++ c2)).2.2
      = (integrate solve s1 M1 q1 qd1 f1 c1).2.2 ++ (integrate solve s2 M2 q2 qd2 f2 c2).2.2 := by
    show solve (dampedU s1 s2 M1 M2) (List.zipWith (· + ·) (f1 ++ f2) (c1 ++ c2)) = _
    rw [List.zipWith_append (by rw [hfl, hcl]), hsolve]
    rfl
  have hdt2 : s2.dt = (C05Perm.unionSys s1 s2).dt := hg.dt.symm
  have e2 : (integrate solve (C05Perm.unionSys s1 s2) (blockDiag M1 M2) (q1 ++ q2) (qd1 ++ qd2) (f1 ++ f2)
      (c1 ++ c2)).2.1
      = (integrate solve s1 M1 q1 qd1 f1 c1).2.1 ++ (integrate solve s2 M2 q2 qd2 f2 c2).2.1 := by
    show List.zipWith (fun v a => v + a * (C05Perm.unionSys s1 s2).dt) (qd1 ++ qd2)
      (integrate solve (C05Perm.unionSys s1 s2) (blockDiag M1 M2) (q1 ++ q2) (qd1 ++ qd2) (f1 ++ f2)
        (c1 ++ c2)).2.2 = _
    rw [e3, List.zipWith_append (by rw [hf1.hqd]; exact hlen.symm)]
    congr 1
    show List.zipWith (fun v a => v + a * s1.dt) qd2 _ = List.zipWith (fun v a => v + a * s2.dt) qd2 _
    rw [hg.dt]
    rfl
  have hl := integrate_lengths solve s1 M1 q1 qd1 f1 c1 hf1 hlen
  have e1 : (integrate solve (C05Perm.unionSys s1 s2) (blockDiag M1 M2) (q1 ++ q2) (qd1 ++ qd2) (f1 ++ f2)
      (c1 ++ c2)).1
      = (integrate solve s1 M1 q1 qd1 f1 c1).1 ++ (integrate solve s2 M2 q2 qd2 f2 c2).1 := by
    show ((linkSlices (C05Perm.unionSys s1 s2).types (q1 ++ q2)
      (integrate solve (C05Perm.unionSys s1 s2) (blockDiag M1 M2) (q1 ++ q2) (qd1 ++ qd2) (f1 ++ f2)
        (c1 ++ c2)).2.1 (C05Perm.unionSys s1 s2).dofs).map
        (integrateQLink (C05Perm.unionSys s1 s2).dt)).flatten = _
    rw [e2]
    show ((linkSlices (s1.types ++ s2.types) _ _ (s1.dofs ++ s2.dofs)).map _).flatten = _
    rw [C05Perm.linkSlices_append _ _ _ _ _ _ _ _ hf1.hq hl.2 h1.dlen, List.map_append,
      List.flatten_append]
    congr 1
    show ((linkSlices s2.types q2 _ s2.dofs).map (integrateQLink s1.dt)).flatten
      = ((linkSlices s2.types q2 _ s2.dofs).map (integrateQLink s2.dt)).flatten
    rw [hg.dt]
    rfl
  exact Prod.ext e1 (Prod.ext e2 e3)

/-! ### shapes of what `pipeline.init` computes -/

theorem forward_x_length (s : Sys ℝ) (h : C05Perm.WFParts s) (q qd : List ℝ) :
    ((Kin.forward s q qd).map (·.1)).length = s.types.length := by
  rw [List.length_map, forward_length s q qd h.tlen h.llen']

theorem comShape_dynInit (s : Sys ℝ) (h : C05Perm.WFParts s) (q qd : List ℝ) (hf : C05G.Full s q qd) :
    ComShape s.types (dynInit s q qd).com := by
  have hx := forward_x_length s h q qd
  have hi := linkSlices_length s.types q qd s.dofs
  have hfl := C05G.linkSlices_full s.types q qd s.dofs (by rw [hf.hq]; exact le_refl _)
    (by rw [hf.hqd]; exact le_refl _) (by rw [hf.hds]; exact le_refl _)
  show ComShape s.types (transformCom s _ q qd)
  rw [C05G.transformCom_eq]
  refine ⟨?_, ?_, tcCd_length s s h h _ _ hx hx _ _ hi hi, ?_⟩
  · show (C05G.tcCinr s _).length = _
    unfold C05G.tcCinr
    simp [tcXi_length s s h h _ _ hx hx, tcCom_length s s h h _ _ hx hx, h.llen']
  · show List.Forall₂ _ s.types (C05G.tcCdof s _ _)
    apply C05G.forall₂_of_getElem
    · rw [tcCdof_length s s h h _ _ hx hx _ _ hi hi]
    · intro i h1 h2
      have hii : i < (linkSlices s.types q qd s.dofs).length := by rw [hi]; exact h1
      have hrow := forall₂_getElem hfl i h1 hii
      simp only [C05G.tcCdof, List.getElem_zipWith]
      rw [cdofLink_length, hrow.2.2.2]
      intro hnf
      rw [hrow.2.1, hrow.2.2.2]
      have ht := hrow.1
      cases hti : s.types[i] <;> first | (rw [hti] at ht; exact absurd ht hnf) | rfl
  · show (C05G.tcCdofd s _ _).length = _
    unfold C05G.tcCdofd
    simp [hi, parentIdx_length _ _ h.tlen, tcCdof_length s s h h _ _ hx hx _ _ hi hi,
      tcCdofQd_length s s h h _ _ hx hx _ _ hi hi]

/-- **`pipeline.init` (dynamics part) of a disjoint union**: concatenated CoM terms and the
block-diagonal mass matrix -/
theorem dynInit_union (s1 s2 : Sys ℝ) (h1 : C05Perm.WFParts s1) (h2 : C05Perm.WFParts s2)
    (q1 q2 qd1 qd2 : List ℝ) (hq : q1.length = s1.nq) (hqd : qd1.length = s1.nv) :
    dynInit (C05Perm.unionSys s1 s2) (q1 ++ q2) (qd1 ++ qd2)
      = unionDyn (dynInit s1 q1 qd1) (dynInit s2 q2 qd2) := by
  have hx1 := forward_x_length s1 h1 q1 qd1
  have hx2 := forward_x_length s2 h2 q2 qd2
  have hfw : (Kin.forward (C05Perm.unionSys s1 s2) (q1 ++ q2) (qd1 ++ qd2)).map (·.1)
      = (Kin.forward s1 q1 qd1).map (·.1) ++ (Kin.forward s2 q2 qd2).map (·.1) := by
    rw [C05Perm.forward_union s1 s2 h1 h2 _ _ _ _ hq hqd, List.map_append]
  have hcom : (dynInit (C05Perm.unionSys s1 s2) (q1 ++ q2) (qd1 ++ qd2)).com
      = unionCom (dynInit s1 q1 qd1).com (dynInit s2 q2 qd2).com := by
    show transformCom _ _ _ _ = _
    rw [hfw]
    exact transformCom_union s1 s2 h1 h2 _ _ hx1 hx2 q1 q2 qd1 qd2 hq hqd
  have hl := transformCom_lengths s1 ((Kin.forward s1 q1 qd1).map (·.1)) q1 qd1 hx1 h1.tlen h1.llen'
  have hmx : (dynInit (C05Perm.unionSys s1 s2) (q1 ++ q2) (qd1 ++ qd2)).massMx
      = blockDiag (dynInit s1 q1 qd1).massMx (dynInit s2 q2 qd2).massMx := by
    show massMatrix (C05Perm.unionSys s1 s2).parents
      (dynInit (C05Perm.unionSys s1 s2) (q1 ++ q2) (qd1 ++ qd2)).com.cinr
      (dynInit (C05Perm.unionSys s1 s2) (q1 ++ q2) (qd1 ++ qd2)).com.cdof
      ((nested (C05Perm.unionSys s1 s2) (q1 ++ q2) (qd1 ++ qd2)).map fun l => l.dofs.map (·.armature)) = _
    rw [hcom, nested_union s1 s2 h1 _ _ _ _ hq hqd, List.map_append]
    have hp : (C05Perm.unionSys s1 s2).parents = s1.parents ++ shiftParents s1.parents.length s2.parents := by
      show s1.parents ++ shiftParents s1.numLinks s2.parents = _
      rw [h1.plen]
    rw [hp]
    exact massMatrix_union _ _ _ _ _ _ _ _ (by rw [h1.tlen]; exact hl.1) (by rw [h1.tlen]; exact hl.2)
      (by rw [List.length_map, nested_length, h1.tlen]) h1.pwf h2.pwf
  show (⟨_, _⟩ : DynState ℝ) = ⟨_, _⟩
  exact congrArg₂ DynState.mk hcom hmx

/-! ### the linear solve on a block-diagonal matrix -/

theorem foldr_zeros (c : ℝ) : ∀ (k : Nat) (y : List ℝ),
    (List.zipWith (· * ·) (List.replicate k (0 : ℝ)) y).foldr (· + ·) c = c
  | 0, _ => by simp
  | k + 1, [] => by simp
  | k + 1, b :: y => by
    simp only [List.replicate_succ, List.zipWith_cons_cons, List.foldr_cons, foldr_zeros c k y]
    ring

theorem dot_pad_right (r y1 y2 : List ℝ) (k : Nat) (h : r.length = y1.length) :
    dot (r ++ List.replicate k 0) (y1 ++ y2) = dot r y1 := by
  unfold dot
  rw [List.zipWith_append h, List.foldr_append, foldr_zeros]

theorem dot_pad_left (r y1 y2 : List ℝ) :
    dot (List.replicate y1.length 0 ++ r) (y1 ++ y2) = dot r y2 := by
  unfold dot
  rw [List.zipWith_append (by simp), List.foldr_append, foldr_zeros]

theorem matVec_blockDiag (M1 M2 : List (List ℝ)) (y1 y2 : List ℝ)
    (hr1 : ∀ r ∈ M1, r.length = y1.length) (hM1 : M1.length = y1.length) :
    matVec (blockDiag M1 M2) (y1 ++ y2) = matVec M1 y1 ++ matVec M2 y2 := by
  unfold matVec blockDiag
  rw [List.map_append, List.map_map, List.map_map]
  congr 1
  · apply List.map_congr_left
    intro r hr
    exact dot_pad_right r y1 y2 _ (hr1 r hr)
  · apply List.map_congr_left
    intro r _
    simp only [Function.comp]
    rw [hM1]
    exact dot_pad_left r y1 y2

theorem blockDiag_shape (M1 M2 : List (List ℝ)) (n1 n2 : Nat) (hM1 : M1.length = n1)
    (hr1 : ∀ r ∈ M1, r.length = n1) (hM2 : M2.length = n2) (hr2 : ∀ r ∈ M2, r.length = n2) :
    (blockDiag M1 M2).length = n1 + n2 ∧ ∀ r ∈ blockDiag M1 M2, r.length = n1 + n2 := by
  unfold blockDiag
  refine ⟨by simp [hM1, hM2], ?_⟩
  intro r hr
  rcases List.mem_append.mp hr with h | h
  · obtain ⟨r', hr', rfl⟩ := List.mem_map.mp h
    simp [hr1 r' hr', hM2]
  · obtain ⟨r', hr', rfl⟩ := List.mem_map.mp h
    simp [hr2 r' hr', hM1]

/-- `(diag(M1, M2) + diag(damping)·dt) · (y1 ++ y2)` is the concatenation of the two products -/
theorem matVec_dampedU (s1 s2 : Sys ℝ) (hg : SameGlobalsG s1 s2) (M1 M2 : List (List ℝ))
    (y1 y2 : List ℝ) (hM1 : M1.length = s1.nv) (hr1 : ∀ r ∈ M1, r.length = s1.nv)
    (hM2 : M2.length = s2.nv) (hr2 : ∀ r ∈ M2, r.length = s2.nv)
    (hd1 : s1.dofs.length = s1.nv) (hd2 : s2.dofs.length = s2.nv)
    (hy1 : y1.length = s1.nv) (hy2 : y2.length = s2.nv) :
    matVec (dampedU s1 s2 M1 M2) (y1 ++ y2) = matVec (dampedP s1 M1) y1 ++ matVec (dampedP s2 M2) y2 := by
  obtain ⟨hB, hBr⟩ := blockDiag_shape M1 M2 s1.nv s2.nv hM1 hr1 hM2 hr2
  unfold dampedU dampedP
  show matVec (dampedMatrix (blockDiag M1 M2) ((s1.dofs ++ s2.dofs).map (·.damping)) s1.dt) (y1 ++ y2) = _
  rw [C05G.matVec_damped _ _ _ s1.dt (s1.nv + s2.nv) hB hBr (by simp [hd1, hd2]) (by simp [hy1, hy2]),
    C05G.matVec_damped _ _ _ s1.dt s1.nv hM1 hr1 (by simp [hd1]) hy1,
    C05G.matVec_damped _ _ _ s2.dt s2.nv hM2 hr2 (by simp [hd2]) hy2,
    matVec_blockDiag M1 M2 y1 y2 (fun r hr => (hr1 r hr).trans hy1.symm) (hM1.trans hy1.symm),
    List.map_append, List.map_append, List.zipWith_append (by simp [hd1, hy1]),
    List.zipWith_append (by simp [matVec, hM1, hd1, hy1]), hg.dt]

/-- **an exact linear solve with a unique solution splits over the two diagonal blocks** -/
theorem solve_split_of_exact (solve : List (List ℝ) → List ℝ → List ℝ) (s1 s2 : Sys ℝ)
    (hg : SameGlobalsG s1 s2) (M1 M2 : List (List ℝ)) (b1 b2 : List ℝ)
    (hM1 : M1.length = s1.nv) (hr1 : ∀ r ∈ M1, r.length = s1.nv)
    (hM2 : M2.length = s2.nv) (hr2 : ∀ r ∈ M2, r.length = s2.nv)
    (hd1 : s1.dofs.length = s1.nv) (hd2 : s2.dofs.length = s2.nv)
    (hex1 : matVec (dampedP s1 M1) (solve (dampedP s1 M1) b1) = b1)
    (hlen1 : (solve (dampedP s1 M1) b1).length = s1.nv)
    (hex2 : matVec (dampedP s2 M2) (solve (dampedP s2 M2) b2) = b2)
    (hlen2 : (solve (dampedP s2 M2) b2).length = s2.nv)
    (huniq : ∀ y : List ℝ, y.length = s1.nv + s2.nv → matVec (dampedU s1 s2 M1 M2) y = b1 ++ b2 →
      solve (dampedU s1 s2 M1 M2) (b1 ++ b2) = y) :
    solve (dampedU s1 s2 M1 M2) (b1 ++ b2) = solve (dampedP s1 M1) b1 ++ solve (dampedP s2 M2) b2 := by
  apply huniq _ (by rw [List.length_append, hlen1, hlen2])
  rw [matVec_dampedU s1 s2 hg M1 M2 _ _ hM1 hr1 hM2 hr2 hd1 hd2 hlen1 hlen2, hex1, hex2]

/-! ### `pipeline.step` of a disjoint union -/

/-- **one `generalized.pipeline.step` of a disjoint union is the concatenation of the two steps**, given
that the linear solve splits over the two diagonal blocks (`hsolve`; see `solve_split_of_exact`) -/
theorem step_union (solve : List (List ℝ) → List ℝ → List ℝ) (s1 s2 : Sys ℝ)
    (h1 : C05Perm.WFParts s1) (h2 : C05Perm.WFParts s2) (hg : SameGlobalsG s1 s2)
    (st1 st2 : DynState ℝ) (hc1 : ComShape s1.types st1.com) (hc2 : ComShape s2.types st2.com)
    (q1 q2 qd1 qd2 act1 act2 qfc1 qfc2 : List ℝ) (hf1 : C05G.Full s1 q1 qd1) (hf2 : C05G.Full s2 q2 qd2)
    (hact : act1.length = s1.acts.length) (hqfc1 : qfc1.length = s1.nv)
    (hlen1 : (solve (dampedP s1 st1.massMx)
        (List.zipWith (· + ·) (qfSmooth s1 st1 q1 qd1 act1) qfc1)).length = s1.nv)
    (hsolve : solve (dampedU s1 s2 st1.massMx st2.massMx)
        (List.zipWith (· + ·) (qfSmooth s1 st1 q1 qd1 act1) qfc1
          ++ List.zipWith (· + ·) (qfSmooth s2 st2 q2 qd2 act2) qfc2)
      = solve (dampedP s1 st1.massMx) (List.zipWith (· + ·) (qfSmooth s1 st1 q1 qd1 act1) qfc1)
        ++ solve (dampedP s2 st2.massMx) (List.zipWith (· + ·) (qfSmooth s2 st2 q2 qd2 act2) qfc2)) :
    Gd.step solve (C05Perm.unionSys s1 s2) (unionDyn st1 st2) (q1 ++ q2) (qd1 ++ qd2) (act1 ++ act2)
        (qfc1 ++ qfc2)
      = (((Gd.step solve s1 st1 q1 qd1 act1 qfc1).1.1 ++ (Gd.step solve s2 st2 q2 qd2 act2 qfc2).1.1,
          (Gd.step solve s1 st1 q1 qd1 act1 qfc1).1.2.1 ++ (Gd.step solve s2 st2 q2 qd2 act2 qfc2).1.2.1,
          (Gd.step solve s1 st1 q1 qd1 act1 qfc1).1.2.2 ++ (Gd.step solve s2 st2 q2 qd2 act2 qfc2).1.2.2),
         unionDyn (Gd.step solve s1 st1 q1 qd1 act1 qfc1).2 (Gd.step solve s2 st2 q2 qd2 act2 qfc2).2) := by
  have hfl := qfSmooth_length s1 s2 h1 h2 hg st1 st2 hc1 hc2 q1 q2 qd1 qd2 hf1 hf2 act1
  have hi := integrate_union solve s1 s2 h1 hg st1.massMx st2.massMx q1 q2 qd1 qd2
    (qfSmooth s1 st1 q1 qd1 act1) (qfSmooth s2 st2 q2 qd2 act2) qfc1 qfc2 hf1 hfl hqfc1 hlen1 hsolve
  have e : (Gd.step solve (C05Perm.unionSys s1 s2) (unionDyn st1 st2) (q1 ++ q2) (qd1 ++ qd2) (act1 ++ act2)
        (qfc1 ++ qfc2)).1
      = ((Gd.step solve s1 st1 q1 qd1 act1 qfc1).1.1 ++ (Gd.step solve s2 st2 q2 qd2 act2 qfc2).1.1,
          (Gd.step solve s1 st1 q1 qd1 act1 qfc1).1.2.1 ++ (Gd.step solve s2 st2 q2 qd2 act2 qfc2).1.2.1,
          (Gd.step solve s1 st1 q1 qd1 act1 qfc1).1.2.2 ++ (Gd.step solve s2 st2 q2 qd2 act2 qfc2).1.2.2) := by
    show integrate solve (C05Perm.unionSys s1 s2) (blockDiag st1.massMx st2.massMx) _ _
      (qfSmooth (C05Perm.unionSys s1 s2) (unionDyn st1 st2) _ _ (act1 ++ act2)) _ = _
    rw [qfSmooth_union s1 s2 h1 h2 hg st1 st2 hc1 hc2 q1 q2 qd1 qd2 hf1 hf2 act1 act2 hact]
    exact hi
  refine Prod.ext e ?_
  show dynInit (C05Perm.unionSys s1 s2) (Gd.step solve (C05Perm.unionSys s1 s2) _ _ _ _ _).1.1
      (Gd.step solve (C05Perm.unionSys s1 s2) _ _ _ _ _).1.2.1 = _
  rw [e]
  have hl := integrate_lengths solve s1 st1.massMx q1 qd1 (qfSmooth s1 st1 q1 qd1 act1) qfc1 hf1 hlen1
  exact dynInit_union s1 s2 h1 h2 _ _ _ _ hl.1 hl.2

/-! ### the matrices `pipeline.init` computes are square -/

theorem dofIdx_length_of_chunks (ts : List LinkType) (cdof : List (List (Motion ℝ)))
    (h : List.Forall₂ (fun (t : LinkType) (r : List (Motion ℝ)) => r.length = t.qdWidth) ts cdof) :
    (dofIdx cdof.length (wAt cdof)).length = (ts.map LinkType.qdWidth).sum := by
  set N : List (List ℝ) := cdof.map (fun r => r.map (fun _ => (0 : ℝ))) with hN
  have hNl : N.length = cdof.length := by simp [hN]
  have hw : ∀ l, l < N.length → (N.getD l []).length = wAt cdof l := by
    intro l hl
    have hl' : l < cdof.length := by rw [← hNl]; exact hl
    unfold wAt
    simp [hN, List.getD_eq_getElem?_getD, List.getElem?_eq_getElem hl']
  have hflat := congrArg List.length (C05G.flatten_eq_dofIdx_map cdof N hNl hw)
  rw [List.length_map] at hflat
  rw [← hflat]
  apply C05G.chunks_flatten_length
  rw [hN]
  clear hflat hw hNl hN
  induction h with
  | nil => exact List.Forall₂.nil
  | cons hab _ ih => exact List.Forall₂.cons (by simpa using hab) ih

theorem massMx_square (s : Sys ℝ) (h : C05Perm.WFParts s) (q qd : List ℝ) (hf : C05G.Full s q qd) :
    (dynInit s q qd).massMx.length = s.nv ∧ ∀ r ∈ (dynInit s q qd).massMx, r.length = s.nv := by
  have hc := comShape_dynInit s h q qd hf
  have hn := dofIdx_length_of_chunks s.types _ hc.lcdof
  have hsh := C05G.massMatrix_shape s.parents (dynInit s q qd).com.cinr (dynInit s q qd).com.cdof
    ((nested s q qd).map (fun l => l.dofs.map (·.armature)))
  exact ⟨hsh.1.trans hn, fun r hr => (hsh.2 r hr).trans hn⟩

/-- **C05, generalized pipeline, mechanically disconnected parts**: for an exact linear solve whose
solution on the union's block system is unique, one `pipeline.step` of the union from the state
`pipeline.init` holds is the concatenation of the two steps -/
theorem step_union_exact (solve : List (List ℝ) → List ℝ → List ℝ) (s1 s2 : Sys ℝ)
    (h1 : C05Perm.WFParts s1) (h2 : C05Perm.WFParts s2) (hg : SameGlobalsG s1 s2)
    (q1 q2 qd1 qd2 act1 act2 qfc1 qfc2 : List ℝ) (hf1 : C05G.Full s1 q1 qd1) (hf2 : C05G.Full s2 q2 qd2)
    (hact : act1.length = s1.acts.length) (hqfc1 : qfc1.length = s1.nv)
    (hex1 : matVec (dampedP s1 (dynInit s1 q1 qd1).massMx)
        (solve (dampedP s1 (dynInit s1 q1 qd1).massMx)
          (List.zipWith (· + ·) (qfSmooth s1 (dynInit s1 q1 qd1) q1 qd1 act1) qfc1))
      = List.zipWith (· + ·) (qfSmooth s1 (dynInit s1 q1 qd1) q1 qd1 act1) qfc1)
    (hlen1 : (solve (dampedP s1 (dynInit s1 q1 qd1).massMx)
        (List.zipWith (· + ·) (qfSmooth s1 (dynInit s1 q1 qd1) q1 qd1 act1) qfc1)).length = s1.nv)
    (hex2 : matVec (dampedP s2 (dynInit s2 q2 qd2).massMx)
        (solve (dampedP s2 (dynInit s2 q2 qd2).massMx)
          (List.zipWith (· + ·) (qfSmooth s2 (dynInit s2 q2 qd2) q2 qd2 act2) qfc2))
      = List.zipWith (· + ·) (qfSmooth s2 (dynInit s2 q2 qd2) q2 qd2 act2) qfc2)
    (hlen2 : (solve (dampedP s2 (dynInit s2 q2 qd2).massMx)
        (List.zipWith (· + ·) (qfSmooth s2 (dynInit s2 q2 qd2) q2 qd2 act2) qfc2)).length = s2.nv)
    (huniq : ∀ y : List ℝ, y.length = s1.nv + s2.nv →
      matVec (dampedU s1 s2 (dynInit s1 q1 qd1).massMx (dynInit s2 q2 qd2).massMx) y
        = List.zipWith (· + ·) (qfSmooth s1 (dynInit s1 q1 qd1) q1 qd1 act1) qfc1
          ++ List.zipWith (· + ·) (qfSmooth s2 (dynInit s2 q2 qd2) q2 qd2 act2) qfc2 →
      solve (dampedU s1 s2 (dynInit s1 q1 qd1).massMx (dynInit s2 q2 qd2).massMx)
        (List.zipWith (· + ·) (qfSmooth s1 (dynInit s1 q1 qd1) q1 qd1 act1) qfc1
          ++ List.zipWith (· + ·) (qfSmooth s2 (dynInit s2 q2 qd2) q2 qd2 act2) qfc2) = y) :
    Gd.step solve (C05Perm.unionSys s1 s2)
        (dynInit (C05Perm.unionSys s1 s2) (q1 ++ q2) (qd1 ++ qd2)) (q1 ++ q2) (qd1 ++ qd2) (act1 ++ act2)
        (qfc1 ++ qfc2)
      = (((Gd.step solve s1 (dynInit s1 q1 qd1) q1 qd1 act1 qfc1).1.1
            ++ (Gd.step solve s2 (dynInit s2 q2 qd2) q2 qd2 act2 qfc2).1.1,
          (Gd.step solve s1 (dynInit s1 q1 qd1) q1 qd1 act1 qfc1).1.2.1
            ++ (Gd.step solve s2 (dynInit s2 q2 qd2) q2 qd2 act2 qfc2).1.2.1,
          (Gd.step solve s1 (dynInit s1 q1 qd1) q1 qd1 act1 qfc1).1.2.2
            ++ (Gd.step solve s2 (dynInit s2 q2 qd2) q2 qd2 act2 qfc2).1.2.2),
         unionDyn (Gd.step solve s1 (dynInit s1 q1 qd1) q1 qd1 act1 qfc1).2
          (Gd.step solve s2 (dynInit s2 q2 qd2) q2 qd2 act2 qfc2).2) := by
  rw [dynInit_union s1 s2 h1 h2 q1 q2 qd1 qd2 hf1.hq hf1.hqd]
  obtain ⟨m1, r1⟩ := massMx_square s1 h1 q1 qd1 hf1
  obtain ⟨m2, r2⟩ := massMx_square s2 h2 q2 qd2 hf2
  exact step_union solve s1 s2 h1 h2 hg _ _ (comShape_dynInit s1 h1 q1 qd1 hf1)
    (comShape_dynInit s2 h2 q2 qd2 hf2) q1 q2 qd1 qd2 act1 act2 qfc1 qfc2 hf1 hf2 hact hqfc1 hlen1
    (solve_split_of_exact solve s1 s2 hg _ _ _ _ m1 r1 m2 r2 hf1.hds hf2.hds hex1 hlen1 hex2 hlen2 huniq)

/-! ## 11. sibling order (partial): Layer B and the mass-matrix entries under a relabelling

`σ` (new index ↦ old index) and `τ` are mutually inverse on `[0, n)`; the relabelled parent array is
`permParents n σ τ ps` (as in `scan_sibling_permutation` / `C05Perm.Relabel`); parents precede children in
**both** numberings (`PWF ps`, `PWF (permParents n σ τ ps)`) — the generalized pipeline scans the tree. -/
section relabel
variable (n : Nat) (σ τ : Nat → Nat) (hσ : ∀ k, k < n → σ k < n) (hτ : ∀ i, i < n → τ i < n)
  (hτσ : ∀ k, k < n → τ (σ k) = k) (hστ : ∀ i, i < n → σ (τ i) = i)
  (ps : List Int) (hps : ps.length = n) (hwf : PWF ps) (hwf' : PWF (permParents n σ τ ps))

theorem getD_permParents {k : Nat} (hk : k < n) :
    (permParents n σ τ ps).getD k (-1)
      = if ps.getD (σ k) (-1) < 0 then ps.getD (σ k) (-1)
        else ((τ (ps.getD (σ k) (-1)).toNat : Nat) : Int) :=
  C05Perm.parentOf_perm n σ τ ps hk

include hσ hτ hτσ hστ hwf hwf'

/-- the ancestor walk of the relabelled forest is the relabelled ancestor walk -/
theorem ancs_perm : ∀ k, k < n → ancs (permParents n σ τ ps) k = (ancs ps (σ k)).map τ := by
  intro k
  induction k using Nat.strongRecOn with
  | _ k ih =>
    intro hk
    rw [ancs_unfold hwf', ancs_unfold hwf, getD_permParents n σ τ ps hk, List.map_cons, hτσ k hk]
    congr 1
    have hp := hwf (σ k)
    by_cases hneg : ps.getD (σ k) (-1) < 0
    · simp only [if_pos hneg, List.map_nil]
    · have hnn : ¬ ((τ (ps.getD (σ k) (-1)).toNat : Nat) : Int) < 0 := by omega
      simp only [if_neg hneg, if_neg hnn, Int.toNat_natCast]
      have hpn : (ps.getD (σ k) (-1)).toNat < n := by have := hσ k hk; omega
      have hlt : τ (ps.getD (σ k) (-1)).toNat < k := by
        have := hwf' k
        rw [getD_permParents n σ τ ps hk, if_neg hneg] at this
        exact_mod_cast this
      rw [ih _ hlt (hτ _ hpn), hστ _ hpn]

omit hwf hwf' in
theorem range_map_perm : ((List.range n).map σ).Perm (List.range n) := by
  apply (List.perm_ext_iff_of_nodup (List.Nodup.map_on ?_ List.nodup_range) List.nodup_range).2
  · intro a
    simp only [List.mem_map, List.mem_range]
    constructor
    · rintro ⟨k, hk, rfl⟩; exact hσ k hk
    · intro ha; exact ⟨τ a, hτ a ha, hστ a ha⟩
  · intro x hx y hy hxy
    rw [← hτσ x (List.mem_range.mp hx), ← hτσ y (List.mem_range.mp hy), hxy]

section cm
variable {M : Type} {add : M → M → M} {z : M}

omit hσ hτ hτσ hστ hwf hwf' in
theorem csum_eq_foldl (m : Nat) (g : Nat → M) :
    csum add z m g = ((List.range m).map g).foldl add z := by
  induction m with
  | zero => rfl
  | succ m ih =>
    rw [List.range_succ, List.map_append, List.foldl_append]
    simp only [csum, ih, List.map_cons, List.map_nil, List.foldl_cons, List.foldl_nil]

omit hwf hwf' in
/-- a sum over all links does not depend on the numbering (commutative monoid) -/
theorem csum_perm (h : CMon add z) (G : Nat → M) :
    csum add z n (fun c => G (σ c)) = csum add z n G := by
  rw [csum_eq_foldl, csum_eq_foldl]
  have e : (List.range n).map (fun c => G (σ c)) = ((List.range n).map σ).map G := by
    rw [List.map_map]; rfl
  rw [e]
  have : RightCommutative add := ⟨fun b x y => by rw [h.assoc, h.comm x y, ← h.assoc]⟩
  exact ((range_map_perm n σ τ hσ hτ hτσ hστ).map G).foldl_eq z

include hps in
/-- **the leaves→root accumulation of the relabelled forest is the relabelled accumulation** (the children
of a link are summed in a different order: commutative monoid) -/
theorem revAcc_perm (h : CMon add z) (as : List M) (has : as.length = n) :
    ∀ k, k < n → (revAcc add (permParents n σ τ ps) (permArgs n σ as z)).getD k z
      = (revAcc add ps as).getD (σ k) z := by
  have hl' : (permParents n σ τ ps).length = n := by simp [permParents]
  have hla : (permArgs n σ as z).length = n := by simp [permArgs]
  suffices H : ∀ m k, k < n → n - k ≤ m →
      (revAcc add (permParents n σ τ ps) (permArgs n σ as z)).getD k z = (revAcc add ps as).getD (σ k) z from
    fun k hk => H (n - k) k hk (le_refl _)
  intro m
  induction m with
  | zero => intro k hk hm; omega
  | succ m ih =>
    intro k hk hm
    rw [revAcc_rec h n _ _ hl' hla hwf' k hk, revAcc_rec h n ps as hps has hwf (σ k) (hσ k hk)]
    have ha : (permArgs n σ as z).getD k z = as.getD (σ k) z := by
      simp [permArgs, List.getD_eq_getElem?_getD, List.getElem?_map, List.getElem?_range hk]
    rw [ha, ← csum_perm n σ τ hσ hτ hτσ hστ h
      (fun c' => if ps.getD c' (-1) = ((σ k : Nat) : Int) then (revAcc add ps as).getD c' z else z)]
    congr 1
    apply csum_congr
    intro c hc
    rw [getD_permParents n σ τ ps hc]
    have hpc := hwf (σ c)
    have hσc := hσ c hc
    by_cases hneg : ps.getD (σ c) (-1) < 0
    · rw [if_pos hneg, if_neg (by omega), if_neg (by omega)]
    · rw [if_neg hneg]
      have hpn : (ps.getD (σ c) (-1)).toNat < n := by omega
      by_cases hpk : ps.getD (σ c) (-1) = ((σ k : Nat) : Int)
      · have hτk : τ (ps.getD (σ c) (-1)).toNat = k := by
          rw [hpk, Int.toNat_natCast, hτσ k hk]
        rw [if_pos (by rw [hτk]), if_pos hpk]
        have hck : k < c := by
          have := hwf' c
          rw [getD_permParents n σ τ ps hc, if_neg hneg, hτk] at this
          exact_mod_cast this
        exact ih c hc (by omega)
      · have hne : ¬ (((τ (ps.getD (σ c) (-1)).toNat : Nat) : Int) = (k : Int)) := by
          intro he
          apply hpk
          have he' : τ (ps.getD (σ c) (-1)).toNat = k := by exact_mod_cast he
          have := hστ _ hpn
          rw [he'] at this
          omega
        rw [if_neg hne, if_neg hpk]

end cm

omit hwf hwf' in
theorem contains_map_perm (L : List Nat) (hL : ∀ x ∈ L, x < n) (a : Nat) (ha : a < n) :
    (L.map τ).contains (τ a) = L.contains a := by
  rw [Bool.eq_iff_iff, List.contains_iff_mem, List.contains_iff_mem, List.mem_map]
  constructor
  · rintro ⟨x, hx, hxa⟩
    have : x = a := by rw [← hστ x (hL x hx), ← hστ a ha, hxa]
    rw [← this]; exact hx
  · intro h; exact ⟨a, h, rfl⟩

/-- **an entry of `mass.matrix` does not depend on the numbering of the links**: the ancestor mask, the
choice "lower triangle, else mirrored" (`a < l` may flip under a relabelling — but never for an
ancestor/descendant pair, and other pairs are masked to zero) and the diagonal armature term are all
invariant.  `C`, `C'` are the composite inertias (see `crb_perm`). -/
theorem massEntry_relabel (C C' : List (Inertia ℝ)) (cdof cdof' : List (List (Motion ℝ)))
    (arm arm' : List (List ℝ))
    (hC : ∀ k, k < n → C'.getD k ⟨Tf.id, M3.zero, 0⟩ = C.getD (σ k) ⟨Tf.id, M3.zero, 0⟩)
    (hcd : ∀ k, k < n → cdof'.getD k [] = cdof.getD (σ k) [])
    (har : ∀ k, k < n → arm'.getD k [] = arm.getD (σ k) [])
    (k b r s : Nat) (hk : k < n) (hb : b < n) :
    massEntry (permParents n σ τ ps) C' cdof' arm' k r b s
      = massEntry ps C cdof arm (σ k) r (σ b) s := by
  have hA : (ancs (permParents n σ τ ps) k).contains b = (ancs ps (σ k)).contains (σ b) := by
    rw [ancs_perm n σ τ hσ hτ hτσ hστ ps hwf hwf' k hk]
    conv_lhs => rw [← hτσ b hb]
    exact contains_map_perm n σ τ hσ hτ hτσ hστ _
      (fun x hx => by have := ancs_le hwf (σ k) x hx; have := hσ k hk; omega) _ (hσ b hb)
  have hB : (ancs (permParents n σ τ ps) b).contains k = (ancs ps (σ b)).contains (σ k) := by
    rw [ancs_perm n σ τ hσ hτ hτσ hστ ps hwf hwf' b hb]
    conv_lhs => rw [← hτσ k hk]
    exact contains_map_perm n σ τ hσ hτ hτσ hστ _
      (fun x hx => by have := ancs_le hwf (σ b) x hx; have := hσ b hb; omega) _ (hσ k hk)
  have hinj : b = k ↔ σ b = σ k := by
    constructor
    · intro h; rw [h]
    · intro h; rw [← hτσ b hb, ← hτσ k hk, h]
  unfold massEntry
  simp only [hA, hB, hC k hk, hC b hb, hcd k hk, hcd b hb, har k hk, hinj]
  -- the two sides now differ only in `b < k` against `σ b < σ k`
  by_cases hA' : (ancs ps (σ k)).contains (σ b) = true
  · have h1 : σ b ≤ σ k := ancs_le hwf (σ k) (σ b) (List.contains_iff_mem.mp hA')
    have h2 : b ≤ k := by
      have hm : b ∈ ancs (permParents n σ τ ps) k := List.contains_iff_mem.mp (by rw [hA]; exact hA')
      exact ancs_le hwf' k b hm
    by_cases he : σ b = σ k
    · have : b = k := hinj.mpr he
      subst this
      simp
    · have hbk : b ≠ k := fun h => he (hinj.mp h)
      have c1 : b < k ∨ (σ b = σ k ∧ s ≤ r) := Or.inl (by omega)
      have c2 : σ b < σ k ∨ (σ b = σ k ∧ s ≤ r) := Or.inl (by omega)
      simp only [if_pos c1, if_pos c2]
  · by_cases hB' : (ancs ps (σ b)).contains (σ k) = true
    · have h1 : σ k ≤ σ b := ancs_le hwf (σ b) (σ k) (List.contains_iff_mem.mp hB')
      have h2 : k ≤ b := by
        have hm : k ∈ ancs (permParents n σ τ ps) b := List.contains_iff_mem.mp (by rw [hB]; exact hB')
        exact ancs_le hwf' b k hm
      have he : σ b ≠ σ k := by
        intro he
        apply hA'
        rw [he]
        exact List.contains_iff_mem.mpr (self_mem_ancs ps (σ k))
      have hbk : b ≠ k := fun h => he (hinj.mp h)
      have c1 : ¬ (b < k ∨ (σ b = σ k ∧ s ≤ r)) := by omega
      have c2 : ¬ (σ b < σ k ∨ (σ b = σ k ∧ s ≤ r)) := by omega
      simp only [if_neg c1, if_neg c2]
    · simp only [hA', hB']
      simp

/-- the zero of `Inertia.__add__` (all leaves zero; **not** the `getD` default of `massEntry`) -/
noncomputable def zI : Inertia ℝ := ⟨⟨V3.zero, ⟨0, 0, 0, 0⟩⟩, M3.zero, 0⟩

omit hσ hτ hτσ hστ hwf hwf' in
theorem cmon_inertia : CMon (inertiaAdd : Inertia ℝ → Inertia ℝ → Inertia ℝ) zI := by
  refine ⟨?_, ?_, ?_⟩
  · rintro ⟨⟨⟨a1, a2, a3⟩, ⟨a4, a5, a6, a7⟩⟩, ⟨⟨b1, b2, b3⟩, ⟨b4, b5, b6⟩, ⟨b7, b8, b9⟩⟩, am⟩
      ⟨⟨⟨c1, c2, c3⟩, ⟨c4, c5, c6, c7⟩⟩, ⟨⟨d1, d2, d3⟩, ⟨d4, d5, d6⟩, ⟨d7, d8, d9⟩⟩, cm⟩
      ⟨⟨⟨e1, e2, e3⟩, ⟨e4, e5, e6, e7⟩⟩, ⟨⟨f1, f2, f3⟩, ⟨f4, f5, f6⟩, ⟨f7, f8, f9⟩⟩, em⟩
    simp only [inertiaAdd, Q4.add, M3.add, V3.add_def, add_assoc]
  · rintro ⟨⟨⟨a1, a2, a3⟩, ⟨a4, a5, a6, a7⟩⟩, ⟨⟨b1, b2, b3⟩, ⟨b4, b5, b6⟩, ⟨b7, b8, b9⟩⟩, am⟩
      ⟨⟨⟨c1, c2, c3⟩, ⟨c4, c5, c6, c7⟩⟩, ⟨⟨d1, d2, d3⟩, ⟨d4, d5, d6⟩, ⟨d7, d8, d9⟩⟩, cm⟩
    simp only [inertiaAdd, Q4.add, M3.add, V3.add_def]
    simp only [Inertia.mk.injEq, Tf.mk.injEq, V3.mk.injEq, Q4.mk.injEq, M3.mk.injEq]
    refine ⟨⟨⟨?_, ?_, ?_⟩, ?_, ?_, ?_, ?_⟩, ⟨⟨?_, ?_, ?_⟩, ⟨?_, ?_, ?_⟩, ?_, ?_, ?_⟩, ?_⟩ <;> exact add_comm _ _
  · rintro ⟨⟨⟨a1, a2, a3⟩, ⟨a4, a5, a6, a7⟩⟩, ⟨⟨b1, b2, b3⟩, ⟨b4, b5, b6⟩, ⟨b7, b8, b9⟩⟩, am⟩
    simp [zI, inertiaAdd, Q4.add, M3.add, V3.add_def, M3.zero, V3.zero]

include hps in
/-- the composite inertias (`crb`) of the relabelled forest are the relabelled composite inertias -/
theorem crb_perm (cinr : List (Inertia ℝ)) (hc : cinr.length = n) (k : Nat) (hk : k < n) :
    (crb (permParents n σ τ ps) (permArgs n σ cinr zI)).getD k ⟨Tf.id, M3.zero, 0⟩
      = (crb ps cinr).getD (σ k) ⟨Tf.id, M3.zero, 0⟩ := by
  have h := revAcc_perm n σ τ hσ hτ hτσ hστ ps hps hwf hwf' cmon_inertia cinr hc k hk
  have l1 : (crb (permParents n σ τ ps) (permArgs n σ cinr zI)).length = n := by
    unfold crb; rw [revAcc_length]; simp [permArgs]
  have l2 : (crb ps cinr).length = n := by unfold crb; rw [revAcc_length, hc]
  unfold crb at h l1 l2 ⊢
  rw [List.getD_eq_getElem?_getD, List.getElem?_eq_getElem (by rw [l1]; exact hk)] at h ⊢
  rw [List.getD_eq_getElem?_getD, List.getElem?_eq_getElem (by rw [l2]; exact hσ k hk)] at h
  rw [List.getD_eq_getElem?_getD, List.getElem?_eq_getElem (by rw [l2]; exact hσ k hk)]
  simpa using h

include hps in
/-- **sibling order, `mass.matrix` (partial result of the sibling-order clause)**: with the per-link CoM
inertias, dof rows and armatures relabelled by `σ`, the entry of the relabelled system's mass matrix at the
dofs `(k, r)`, `(b, s)` is the entry of the original one at `(σ k, r)`, `(σ b, s)` — i.e. the mass matrix is
permuted blockwise, `M' = Π M Πᵀ` -/
theorem massEntry_sibling (cinr : List (Inertia ℝ)) (hc : cinr.length = n)
    (cdof : List (List (Motion ℝ))) (arm : List (List ℝ)) (k b r s : Nat) (hk : k < n) (hb : b < n) :
    massEntry (permParents n σ τ ps) (crb (permParents n σ τ ps) (permArgs n σ cinr zI))
        (permArgs n σ cdof []) (permArgs n σ arm []) k r b s
      = massEntry ps (crb ps cinr) cdof arm (σ k) r (σ b) s := by
  apply massEntry_relabel n σ τ hσ hτ hτσ hστ ps hwf hwf'
  · intro k hk; exact crb_perm n σ τ hσ hτ hτσ hστ ps hps hwf hwf' cinr hc k hk
  · intro k hk
    simp [permArgs, List.getD_eq_getElem?_getD, List.getElem?_map, List.getElem?_range hk]
  · intro k hk
    simp [permArgs, List.getD_eq_getElem?_getD, List.getElem?_map, List.getElem?_range hk]
  · exact hk
  · exact hb

end relabel

end Brax.C05GP
