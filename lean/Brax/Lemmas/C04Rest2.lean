import Brax.Lemmas.C04Real
import Brax.Lemmas.C08
/-!
# C04 rest clause, spring pipeline: 2- and 3-dof links (gaps (a), (b) of notes/C04.md)

Part 1 (any ordered field, opaque `sqrt`/trig): `_two_dof` / `_three_dof` return the zero force at
`jd = 0`, `tau = 0` under *algebraic* conditions on the joint transform `j` (anchors coincide or the
offset lies in the span of the slide axes; the turned hinge axes satisfy the orthogonality the
alignment torque tests; the extracted angles / coordinates are inside the limits).

Part 2 (ℝ): those conditions hold for the pure joint configuration `j = jcalc q` of the stack kinds
C08 covers — two / three hinges with orthonormal axes (either handedness), slide stacks, slides then
a hinge — by C08's Euler-angle identities (`hinge2_angles`, `hinge3_angles`, `hinge_theta`,
`hinge_phi`).
-/
set_option linter.unusedSectionVars false
set_option linter.unusedSimpArgs false
set_option linter.unusedVariables false
namespace Brax.C04L
open Brax MC

section general
variable {K : Type} [Field K] [LinearOrder K] [IsStrictOrderedRing K]
  [HasSqrt K] [HasTrig K] [HasExp K] [HasPow K] [HasF32 K]

/-! ### vector algebra on literal zeros -/

theorem zsmul_lit (v : V3 K) : V3.smul 0 v = ⟨0, 0, 0⟩ := by simp [V3.smul]
theorem neg_zero_lit : -(⟨0, 0, 0⟩ : V3 K) = ⟨0, 0, 0⟩ := by simp
theorem add_zero_lit (v : V3 K) : v + ⟨0, 0, 0⟩ = v := by cases v; simp
theorem zero_add_lit (v : V3 K) : (⟨0, 0, 0⟩ : V3 K) + v = v := by cases v; simp
theorem sub_zero_lit (v : V3 K) : v - ⟨0, 0, 0⟩ = v := by cases v; simp
theorem dot_zero_left_lit (v : V3 K) : V3.dot ⟨0, 0, 0⟩ v = 0 := by simp [V3.dot]
theorem dot_zero_right_lit (v : V3 K) : V3.dot v ⟨0, 0, 0⟩ = 0 := by simp [V3.dot]
theorem cross_self_lit (v : V3 K) : V3.cross v v = ⟨0, 0, 0⟩ := by
  simp only [V3.cross, V3.mk.injEq]; refine ⟨by ring, by ring, by ring⟩
theorem cross_div_self (v : V3 K) (n : K) : V3.cross ⟨v.x / n, v.y / n, v.z / n⟩ v = ⟨0, 0, 0⟩ := by
  simp only [V3.cross, V3.mk.injEq]; refine ⟨by ring, by ring, by ring⟩
theorem maskV_zero_lit (b : Bool) : maskV b (⟨0, 0, 0⟩ : V3 K) = ⟨0, 0, 0⟩ := by cases b <;> rfl
theorem vec_eta (v : V3 K) : (⟨v.x, v.y, v.z⟩ : V3 K) = v := rfl
/-- a limit term `d · (mask b axis)` vanishes when `d = 0` whenever the mask is on -/
theorem smul_mask_lim (b : Bool) (d : K) (v : V3 K) (h : b = true → d = 0) :
    V3.smul d (maskV b v) = ⟨0, 0, 0⟩ := by
  cases b
  · exact smul_zero_lit d
  · rw [h rfl]; exact zsmul_lit _

/-- **two hinges at rest**: no translational axes, anchors coincide, the turned second frame axis
is orthogonal to the first frame axis (what the plane-alignment torque tests), angles inside the
limits ⇒ `_two_dof` returns the zero force. -/
theorem twoDof_rest_hinges (hasLimit : Bool) (lk : LinkP K) (j : Tf K) (d0 d1 : DofP K)
    (hv0 : v3Any d0.motion.vel = false) (hv1 : v3Any d1.motion.vel = false)
    (hpos : j.pos = ⟨0, 0, 0⟩)
    (hperp : V3.dot (rotate (frame2 d0.motion d1.motion).ang.r1 j.rot)
      (frame2 d0.motion d1.motion).ang.r0 = 0)
    (hlim0 : hasLimit = true → v3Any d0.motion.ang = true → Spring.limDelta
      (axisAngleAng j (frame2 d0.motion d1.motion).ang (frame2 d0.motion d1.motion).parity).psi
      d0.lo d0.hi = 0)
    (hlim1 : hasLimit = true → v3Any d1.motion.ang = true → Spring.limDelta
      (axisAngleAng j (frame2 d0.motion d1.motion).ang (frame2 d0.motion d1.motion).parity).theta
      d1.lo d1.hi = 0) :
    Spring.twoDof hasLimit lk j ⟨⟨0, 0, 0⟩, ⟨0, 0, 0⟩⟩ d0 d1 0 0 = ⟨⟨0, 0, 0⟩, ⟨0, 0, 0⟩⟩ := by
  unfold Spring.twoDof
  have haxis2 : (axisAngleAng j (frame2 d0.motion d1.motion).ang
      (frame2 d0.motion d1.motion).parity).axis.r1
      = rotate (frame2 d0.motion d1.motion).ang.r1 j.rot := rfl
  simp only [hv0, hv1, hpos, haxis2, hperp, Bool.or_self, Bool.false_and, maskV_false,
    Bool.false_eq_true, if_false, zsmul_lit, neg_zero_lit, smul_zero_lit, add_zero_lit, zero_add_lit,
    sub_zero_lit, cross_div_self, vec_eta]
  cases hL : hasLimit
  · simp only [Bool.false_eq_true, if_false]
  · simp only [if_true, smul_mask_lim _ _ _ (hlim0 hL), smul_mask_lim _ _ _ (hlim1 hL), add_zero_lit,
      smul_zero_lit, maskV_zero_lit, sub_zero_lit]

/-- **three hinges at rest**: no translational axes, anchors coincide, the three extracted angles
inside the limits ⇒ `_three_dof` returns the zero force (a spherical joint has no alignment
torque: nothing is asked of `j.rot` beyond the limits). -/
theorem threeDof_rest_hinges (hasLimit : Bool) (lk : LinkP K) (j : Tf K) (d0 d1 d2 : DofP K)
    (hv0 : v3Any d0.motion.vel = false) (hv1 : v3Any d1.motion.vel = false)
    (hv2 : v3Any d2.motion.vel = false) (hpos : j.pos = ⟨0, 0, 0⟩)
    (hlim0 : hasLimit = true → v3Any d0.motion.ang = true → Spring.limDelta
      (axisAngleAng j (frame3 d0.motion d1.motion d2.motion).ang
        (frame3 d0.motion d1.motion d2.motion).parity).psi d0.lo d0.hi = 0)
    (hlim1 : hasLimit = true → v3Any d1.motion.ang = true → Spring.limDelta
      (axisAngleAng j (frame3 d0.motion d1.motion d2.motion).ang
        (frame3 d0.motion d1.motion d2.motion).parity).theta d1.lo d1.hi = 0)
    (hlim2 : hasLimit = true → v3Any d2.motion.ang = true → Spring.limDelta
      (axisAngleAng j (frame3 d0.motion d1.motion d2.motion).ang
        (frame3 d0.motion d1.motion d2.motion).parity).phi d2.lo d2.hi = 0) :
    Spring.threeDof hasLimit lk j ⟨⟨0, 0, 0⟩, ⟨0, 0, 0⟩⟩ d0 d1 d2 0 0 0 = ⟨⟨0, 0, 0⟩, ⟨0, 0, 0⟩⟩ := by
  unfold Spring.threeDof
  simp only [hv0, hv1, hv2, hpos, Bool.or_self, Bool.false_and, maskV_false,
    Bool.false_eq_true, if_false, zsmul_lit, neg_zero_lit, smul_zero_lit, add_zero_lit, zero_add_lit,
    sub_zero_lit, vec_eta]
  cases hL : hasLimit
  · simp only [Bool.false_eq_true, if_false]
  · simp only [if_true, smul_mask_lim _ _ _ (hlim0 hL), smul_mask_lim _ _ _ (hlim1 hL),
      smul_mask_lim _ _ _ (hlim2 hL), add_zero_lit, smul_zero_lit, maskV_zero_lit, sub_zero_lit]


/-- the stiffness force on an offset in the span of two orthonormal slide axes is removed entirely
by the projection `vel -= (vel·e0) e0 + (vel·e1) e1` -/
theorem span2_residual (e0 e1 : V3 K) (c0 c1 k : K) (h00 : V3.dot e0 e0 = 1) (h11 : V3.dot e1 e1 = 1)
    (h01 : V3.dot e0 e1 = 0) :
    V3.smul k (-(V3.smul c0 e0 + V3.smul c1 e1))
      - (V3.smul (V3.dot (V3.smul k (-(V3.smul c0 e0 + V3.smul c1 e1))) e0) e0
        + V3.smul (V3.dot (V3.smul k (-(V3.smul c0 e0 + V3.smul c1 e1))) e1) e1) = ⟨0, 0, 0⟩ := by
  obtain ⟨x0, y0, z0⟩ := e0
  obtain ⟨x1, y1, z1⟩ := e1
  simp only [V3.dot] at h00 h11 h01
  simp only [V3.smul, V3.dot, V3.neg_def, V3.add_def, V3.sub_def, V3.mk.injEq]
  refine ⟨?_, ?_, ?_⟩
  · linear_combination (k * c0 * x0) * h00 + (k * c1 * x0 + k * c0 * x1) * h01 + (k * c1 * x1) * h11
  · linear_combination (k * c0 * y0) * h00 + (k * c1 * y0 + k * c0 * y1) * h01 + (k * c1 * y1) * h11
  · linear_combination (k * c0 * z0) * h00 + (k * c1 * z0 + k * c0 * z1) * h01 + (k * c1 * z1) * h11

/-- the same for three orthonormal slide axes (argument order of `_three_dof`) -/
theorem span3_residual (e0 e1 e2 : V3 K) (c0 c1 c2 k : K) (h00 : V3.dot e0 e0 = 1)
    (h11 : V3.dot e1 e1 = 1) (h22 : V3.dot e2 e2 = 1) (h01 : V3.dot e0 e1 = 0)
    (h02 : V3.dot e0 e2 = 0) (h12 : V3.dot e1 e2 = 0) :
    V3.smul k (-(V3.smul c0 e0 + V3.smul c1 e1 + V3.smul c2 e2))
      - (V3.smul (V3.dot e0 (V3.smul k (-(V3.smul c0 e0 + V3.smul c1 e1 + V3.smul c2 e2)))) e0
        + V3.smul (V3.dot e1 (V3.smul k (-(V3.smul c0 e0 + V3.smul c1 e1 + V3.smul c2 e2)))) e1
        + V3.smul (V3.dot e2 (V3.smul k (-(V3.smul c0 e0 + V3.smul c1 e1 + V3.smul c2 e2)))) e2)
      = ⟨0, 0, 0⟩ := by
  obtain ⟨x0, y0, z0⟩ := e0
  obtain ⟨x1, y1, z1⟩ := e1
  obtain ⟨x2, y2, z2⟩ := e2
  simp only [V3.dot] at h00 h11 h22 h01 h02 h12
  simp only [V3.smul, V3.dot, V3.neg_def, V3.add_def, V3.sub_def, V3.mk.injEq]
  refine ⟨?_, ?_, ?_⟩
  · linear_combination (k * c0 * x0) * h00 + (k * c1 * x1) * h11 + (k * c2 * x2) * h22
      + (k * c1 * x0 + k * c0 * x1) * h01 + (k * c2 * x0 + k * c0 * x2) * h02
      + (k * c2 * x1 + k * c1 * x2) * h12
  · linear_combination (k * c0 * y0) * h00 + (k * c1 * y1) * h11 + (k * c2 * y2) * h22
      + (k * c1 * y0 + k * c0 * y1) * h01 + (k * c2 * y0 + k * c0 * y2) * h02
      + (k * c2 * y1 + k * c1 * y2) * h12
  · linear_combination (k * c0 * z0) * h00 + (k * c1 * z1) * h11 + (k * c2 * z2) * h22
      + (k * c1 * z0 + k * c0 * z1) * h01 + (k * c2 * z0 + k * c0 * z2) * h02
      + (k * c2 * z1 + k * c1 * z2) * h12

/-- **two slides at rest**: no rotational axes, orthonormal slide axes, the offset in their span, no
rotation, coordinates inside the limits ⇒ `_two_dof` returns the zero force. -/
theorem twoDof_rest_slides (hasLimit : Bool) (lk : LinkP K) (j : Tf K) (d0 d1 : DofP K) (c0 c1 : K)
    (ha0 : v3Any d0.motion.ang = false) (ha1 : v3Any d1.motion.ang = false)
    (hv0 : v3Any d0.motion.vel = true) (hv1 : v3Any d1.motion.vel = true)
    (h00 : V3.dot d0.motion.vel d0.motion.vel = 1) (h11 : V3.dot d1.motion.vel d1.motion.vel = 1)
    (h01 : V3.dot d0.motion.vel d1.motion.vel = 0)
    (hpos : j.pos = V3.smul c0 d0.motion.vel + V3.smul c1 d1.motion.vel) (hrot : j.rot = Q4.one)
    (hlim0 : hasLimit = true → Spring.limDelta (V3.dot j.pos d0.motion.vel) d0.lo d0.hi = 0)
    (hlim1 : hasLimit = true → Spring.limDelta (V3.dot j.pos d1.motion.vel) d1.lo d1.hi = 0) :
    Spring.twoDof hasLimit lk j ⟨⟨0, 0, 0⟩, ⟨0, 0, 0⟩⟩ d0 d1 0 0 = ⟨⟨0, 0, 0⟩, ⟨0, 0, 0⟩⟩ := by
  have hfr : (frame2 d0.motion d1.motion).ang = eye := by simp [frame2, ha0, ha1, hv0, hv1]
  unfold Spring.twoDof
  simp only [hfr, ha0, ha1, hv0, hv1, hrot, rotate_one, Bool.or_self, Bool.true_and, Bool.not_false,
    Bool.false_eq_true, if_false, if_true, maskV_false, maskV_true, zsmul_lit, neg_zero_lit, smul_zero_lit,
    add_zero_lit, zero_add_lit, sub_zero_lit, cross_self_lit, vec_eta, eye]
  cases hL : hasLimit
  · simp only [Bool.false_eq_true, if_false]
    rw [hpos, span2_residual _ _ _ _ _ h00 h11 h01]
  · simp only [if_true, hlim0 hL, hlim1 hL, zsmul_lit, add_zero_lit, smul_zero_lit, sub_zero_lit]
    rw [hpos, span2_residual _ _ _ _ _ h00 h11 h01]

/-- **three slides at rest** -/
theorem threeDof_rest_slides (hasLimit : Bool) (lk : LinkP K) (j : Tf K) (d0 d1 d2 : DofP K)
    (c0 c1 c2 : K)
    (ha0 : v3Any d0.motion.ang = false) (ha1 : v3Any d1.motion.ang = false)
    (ha2 : v3Any d2.motion.ang = false)
    (hv0 : v3Any d0.motion.vel = true)
    (h00 : V3.dot d0.motion.vel d0.motion.vel = 1) (h11 : V3.dot d1.motion.vel d1.motion.vel = 1)
    (h22 : V3.dot d2.motion.vel d2.motion.vel = 1)
    (h01 : V3.dot d0.motion.vel d1.motion.vel = 0) (h02 : V3.dot d0.motion.vel d2.motion.vel = 0)
    (h12 : V3.dot d1.motion.vel d2.motion.vel = 0)
    (hpos : j.pos = V3.smul c0 d0.motion.vel + V3.smul c1 d1.motion.vel + V3.smul c2 d2.motion.vel)
    (hlim0 : hasLimit = true → Spring.limDelta (V3.dot d0.motion.vel j.pos) d0.lo d0.hi = 0)
    (hlim1 : hasLimit = true → Spring.limDelta (V3.dot d1.motion.vel j.pos) d1.lo d1.hi = 0)
    (hlim2 : hasLimit = true → Spring.limDelta (V3.dot d2.motion.vel j.pos) d2.lo d2.hi = 0) :
    Spring.threeDof hasLimit lk j ⟨⟨0, 0, 0⟩, ⟨0, 0, 0⟩⟩ d0 d1 d2 0 0 0 = ⟨⟨0, 0, 0⟩, ⟨0, 0, 0⟩⟩ := by
  unfold Spring.threeDof
  simp only [ha0, ha1, ha2, hv0, Bool.or_self, Bool.true_or, Bool.and_false, Bool.false_eq_true,
    if_false, if_true, maskV_false, maskV_true, zsmul_lit, neg_zero_lit, smul_zero_lit,
    add_zero_lit, zero_add_lit, sub_zero_lit, vec_eta]
  cases hL : hasLimit
  · simp only [Bool.false_eq_true, if_false]
    rw [hpos, span3_residual _ _ _ _ _ _ _ h00 h11 h22 h01 h02 h12]
  · simp only [if_true, hlim0 hL, hlim1 hL, hlim2 hL, zsmul_lit, add_zero_lit, smul_zero_lit, sub_zero_lit]
    rw [hpos, span3_residual _ _ _ _ _ _ _ h00 h11 h22 h01 h02 h12]

theorem span1_residual (e : V3 K) (c k : K) (hee : V3.dot e e = 1) :
    V3.smul k (-(V3.smul c e)) - V3.smul (V3.dot (V3.smul k (-(V3.smul c e))) e) e = ⟨0, 0, 0⟩ := by
  obtain ⟨x, y, z⟩ := e
  simp only [V3.dot] at hee
  simp only [V3.smul, V3.dot, V3.neg_def, V3.sub_def, V3.mk.injEq]
  refine ⟨?_, ?_, ?_⟩
  · linear_combination (k * c * x) * hee
  · linear_combination (k * c * y) * hee
  · linear_combination (k * c * z) * hee

theorem span2_residual' (e0 e1 : V3 K) (c0 c1 k : K) (h00 : V3.dot e0 e0 = 1) (h11 : V3.dot e1 e1 = 1)
    (h01 : V3.dot e0 e1 = 0) :
    V3.smul k (-(V3.smul c0 e0 + V3.smul c1 e1))
      - (V3.smul (V3.dot e0 (V3.smul k (-(V3.smul c0 e0 + V3.smul c1 e1)))) e0
        + V3.smul (V3.dot e1 (V3.smul k (-(V3.smul c0 e0 + V3.smul c1 e1)))) e1) = ⟨0, 0, 0⟩ := by
  obtain ⟨x0, y0, z0⟩ := e0
  obtain ⟨x1, y1, z1⟩ := e1
  simp only [V3.dot] at h00 h11 h01
  simp only [V3.smul, V3.dot, V3.neg_def, V3.add_def, V3.sub_def, V3.mk.injEq]
  refine ⟨?_, ?_, ?_⟩
  · linear_combination (k * c0 * x0) * h00 + (k * c1 * x0 + k * c0 * x1) * h01 + (k * c1 * x1) * h11
  · linear_combination (k * c0 * y0) * h00 + (k * c1 * y0 + k * c0 * y1) * h01 + (k * c1 * y1) * h11
  · linear_combination (k * c0 * z0) * h00 + (k * c1 * z0 + k * c0 * z1) * h01 + (k * c1 * z1) * h11

theorem v3Any_zero_lit : v3Any (⟨0, 0, 0⟩ : V3 K) = false := by simp [v3Any, eqZero]

/-- **slide then hinge at rest**: slide along the unit axis `e`, hinge about `a`; offset `c·e`, the
turned hinge axis parallel to `a` (`a × R(j.rot) a = 0`), coordinate and angle inside the limits ⇒
`_two_dof` returns the zero force.  (The hinge angle is the `theta` of `axis_angle_ang` in the
`is_both` frame.) -/
theorem twoDof_rest_slide_hinge (hasLimit : Bool) (lk : LinkP K) (j : Tf K) (d0 d1 : DofP K)
    (e a : V3 K) (c : K)
    (hd0 : d0.motion = ⟨⟨0, 0, 0⟩, e⟩) (hd1 : d1.motion = ⟨a, ⟨0, 0, 0⟩⟩)
    (hve : v3Any e = true) (hva : v3Any a = true) (hee : V3.dot e e = 1)
    (hpos : j.pos = V3.smul c e)
    (haxis : V3.cross a (rotate a j.rot) = ⟨0, 0, 0⟩)
    (hlim0 : hasLimit = true → Spring.limDelta (V3.dot j.pos e) d0.lo d0.hi = 0)
    (hlim1 : hasLimit = true → Spring.limDelta
      (axisAngleAng j (frame2 d0.motion d1.motion).ang (frame2 d0.motion d1.motion).parity).theta
      d1.lo d1.hi = 0) :
    Spring.twoDof hasLimit lk j ⟨⟨0, 0, 0⟩, ⟨0, 0, 0⟩⟩ d0 d1 0 0 = ⟨⟨0, 0, 0⟩, ⟨0, 0, 0⟩⟩ := by
  have hr1 : (frame2 d0.motion d1.motion).ang.r1 = a := by
    simp [frame2, hd0, hd1, hve, hva, v3Any_zero_lit]
  rw [hd0, hd1] at hlim1
  unfold Spring.twoDof
  simp only [hr1]
  simp only [hd0, hd1, hve, hva, v3Any_zero_lit, haxis, Bool.or_self, Bool.true_and, Bool.not_false,
    Bool.or_false, Bool.false_or, Bool.not_true, Bool.and_false,
    Bool.false_eq_true, if_false, if_true, maskV_false, maskV_true, zsmul_lit, neg_zero_lit, smul_zero_lit,
    add_zero_lit, zero_add_lit, sub_zero_lit, vec_eta, dot_zero_right_lit]
  cases hL : hasLimit
  · simp only [Bool.false_eq_true, if_false]
    rw [hpos, span1_residual _ _ _ hee]
  · simp only [if_true, hlim0 hL, hlim1 hL, zsmul_lit, add_zero_lit, smul_zero_lit, sub_zero_lit]
    rw [hpos, span1_residual _ _ _ hee]

/-- **two slides then a hinge at rest**: orthonormal slide axes `e0, e1`, hinge about `a`; offset in
the span of the slide axes, the turned hinge axis parallel to `a`, coordinates and angle inside the
limits ⇒ `_three_dof` returns the zero force.  (The hinge angle is the `phi` of `axis_angle_ang`.) -/
theorem threeDof_rest_slides_hinge (hasLimit : Bool) (lk : LinkP K) (j : Tf K) (d0 d1 d2 : DofP K)
    (e0 e1 a : V3 K) (c0 c1 : K)
    (hd0 : d0.motion = ⟨⟨0, 0, 0⟩, e0⟩) (hd1 : d1.motion = ⟨⟨0, 0, 0⟩, e1⟩)
    (hd2 : d2.motion = ⟨a, ⟨0, 0, 0⟩⟩)
    (hve : v3Any e0 = true) (hva : v3Any a = true)
    (h00 : V3.dot e0 e0 = 1) (h11 : V3.dot e1 e1 = 1) (h01 : V3.dot e0 e1 = 0)
    (hpos : j.pos = V3.smul c0 e0 + V3.smul c1 e1)
    (haxis : V3.cross a (rotate a j.rot) = ⟨0, 0, 0⟩)
    (hlim0 : hasLimit = true → Spring.limDelta (V3.dot e0 j.pos) d0.lo d0.hi = 0)
    (hlim1 : hasLimit = true → Spring.limDelta (V3.dot e1 j.pos) d1.lo d1.hi = 0)
    (hlim2 : hasLimit = true → Spring.limDelta
      (axisAngleAng j (frame3 d0.motion d1.motion d2.motion).ang
        (frame3 d0.motion d1.motion d2.motion).parity).phi d2.lo d2.hi = 0) :
    Spring.threeDof hasLimit lk j ⟨⟨0, 0, 0⟩, ⟨0, 0, 0⟩⟩ d0 d1 d2 0 0 0 = ⟨⟨0, 0, 0⟩, ⟨0, 0, 0⟩⟩ := by
  rw [hd0, hd1, hd2] at hlim2
  have hrot0 : rotate (⟨0, 0, 0⟩ : V3 K) j.rot = ⟨0, 0, 0⟩ := rotate_zero j.rot
  unfold Spring.threeDof
  simp only [hd0, hd1, hd2, hve, hva, v3Any_zero_lit, hrot0, haxis, Bool.or_self, Bool.true_and,
    Bool.not_false, Bool.or_false, Bool.false_or, Bool.not_true, Bool.and_false, Bool.true_or, Bool.or_true,
    Bool.and_self, Bool.and_true,
    Bool.false_eq_true, if_false, if_true, maskV_false, maskV_true, zsmul_lit, neg_zero_lit, smul_zero_lit,
    add_zero_lit, zero_add_lit, sub_zero_lit, vec_eta, dot_zero_left_lit]
  cases hL : hasLimit
  · simp only [Bool.false_eq_true, if_false]
    rw [hpos, span2_residual' _ _ _ _ _ h00 h11 h01]
  · simp only [if_true, hlim0 hL, hlim1 hL, hlim2 hL, zsmul_lit, add_zero_lit, smul_zero_lit, sub_zero_lit]
    rw [hpos, span2_residual' _ _ _ _ _ h00 h11 h01]


end general
/-! ## Part 2 (ℝ): the pure joint configuration `j = jcalc q` of the stack kinds C08 covers -/
section real

/-- `q` inside the (possibly one-sided or absent) limits `[lo, hi]` -/
def InLim (q : ℝ) (lo hi : Option ℝ) : Prop :=
  (∀ l, lo = some l → l ≤ q) ∧ (∀ h, hi = some h → q ≤ h)

/-- inside the limits the limit spring is not stretched -/
theorem limDelta_inside (q : ℝ) (lo hi : Option ℝ) (h : InLim q lo hi) : Spring.limDelta q lo hi = 0 := by
  obtain ⟨h1, h2⟩ := h
  unfold Spring.limDelta
  cases lo with
  | none =>
    cases hi with
    | none => rfl
    | some u => simp only; rw [if_neg (not_lt.mpr (h2 u rfl))]
  | some l =>
    simp only [if_neg (not_lt.mpr (h1 l rfl))]
    cases hi with
    | none => rfl
    | some u => simp only; rw [if_neg (not_lt.mpr (h2 u rfl))]

theorem v3Any_unit (a : V3 ℝ) (h : V3.dot a a = 1) : v3Any a = true :=
  Inv.v3Any_of_ne a (by rw [h]; norm_num)

theorem aa_psi (j : Tf ℝ) (f : M3 ℝ) (p : ℝ) :
    (axisAngleAng j f p).psi = (Inv.axisAngleAng j f p).2.psi := rfl
theorem aa_theta (j : Tf ℝ) (f : M3 ℝ) (p : ℝ) :
    (axisAngleAng j f p).theta = (Inv.axisAngleAng j f p).2.theta := rfl
theorem aa_phi (j : Tf ℝ) (f : M3 ℝ) (p : ℝ) :
    (axisAngleAng j f p).phi = (Inv.axisAngleAng j f p).2.phi := rfl
theorem orth_eq (a : V3 ℝ) : orthogonals a = Inv.orthogonals a := rfl

/-- **two hinges, orthonormal axes, `j = jcalc (q0, q1)`, inside the limits: zero joint force** -/
theorem twoDof_rest_two_hinges (hasLimit : Bool) (lk : LinkP ℝ) (d0 d1 : DofP ℝ) (a0 a1 : V3 ℝ)
    (hd0 : d0.motion = ⟨a0, ⟨0, 0, 0⟩⟩) (hd1 : d1.motion = ⟨a1, ⟨0, 0, 0⟩⟩)
    (h00 : V3.dot a0 a0 = 1) (h11 : V3.dot a1 a1 = 1) (h01 : V3.dot a0 a1 = 0)
    (q0 q1 qd0 qd1 : ℝ) (hq0 : -Real.pi < q0) (hq0' : q0 ≤ Real.pi) (hq1 : |q1| ≤ 6 / 5)
    (hl0 : hasLimit = true → InLim q0 d0.lo d0.hi) (hl1 : hasLimit = true → InLim q1 d1.lo d1.hi) :
    Spring.twoDof hasLimit lk (Kin.jcalc ⟨.two, [q0, q1], [qd0, qd1], [d0, d1]⟩).1
      ⟨⟨0, 0, 0⟩, ⟨0, 0, 0⟩⟩ d0 d1 0 0 = ⟨⟨0, 0, 0⟩, ⟨0, 0, 0⟩⟩ := by
  rw [Inv.jcalc_two_hinges d0 d1 a0 a1 q0 q1 qd0 qd1 hd0 hd1 h00 h11]
  have hA0 := v3Any_unit a0 h00
  have hA1 := v3Any_unit a1 h11
  have hfr : (frame2 d0.motion d1.motion).ang = ⟨a0, a1, V3.cross a0 a1⟩ := by
    simp [frame2, hd0, hd1, hA0, hA1, v3Any_zero_lit]
  have hang := Inv.hinge2_angles a0 a1 h00 h11 h01 ⟨0, 0, 0⟩ q0 q1
    (frame2 d0.motion d1.motion).parity hq0 hq0' hq1
  apply twoDof_rest_hinges
  · rw [hd0]; exact v3Any_zero_lit
  · rw [hd1]; exact v3Any_zero_lit
  · rfl
  · rw [hfr]
    simp only
    have hc1 := Inv.child_hh a0 a1 h00 h11 h01 q0 q1 ⟨0, 1, 0⟩
    rw [Inv.L_e1] at hc1
    rw [hc1, Inv.dot_comm, Inv.dot_a0_L a0 a1 h00 h11 h01]
    simp [Inv.rx, Inv.ry]
  · intro hL _
    rw [hfr, aa_psi, hang.1]
    exact limDelta_inside _ _ _ (hl0 hL)
  · intro hL _
    rw [hfr, aa_theta, hang.2]
    exact limDelta_inside _ _ _ (hl1 hL)

/-- **three hinges, orthonormal axes of either handedness (`a2 = ±a0×a1`), `j = jcalc (q0,q1,q2)`,
inside the limits: zero joint force** -/
theorem threeDof_rest_three_hinges (hasLimit : Bool) (lk : LinkP ℝ) (d0 d1 d2 : DofP ℝ)
    (a0 a1 a2 : V3 ℝ) (hd0 : d0.motion = ⟨a0, ⟨0, 0, 0⟩⟩) (hd1 : d1.motion = ⟨a1, ⟨0, 0, 0⟩⟩)
    (hd2 : d2.motion = ⟨a2, ⟨0, 0, 0⟩⟩)
    (h00 : V3.dot a0 a0 = 1) (h11 : V3.dot a1 a1 = 1) (h01 : V3.dot a0 a1 = 0)
    (h2 : a2 = V3.cross a0 a1 ∨ a2 = -V3.cross a0 a1)
    (q0 q1 q2 qd0 qd1 qd2 : ℝ) (hq0 : -Real.pi < q0) (hq0' : q0 ≤ Real.pi) (hq1 : |q1| ≤ 6 / 5)
    (hq2 : -Real.pi < q2) (hq2' : q2 ≤ Real.pi)
    (hl0 : hasLimit = true → InLim q0 d0.lo d0.hi) (hl1 : hasLimit = true → InLim q1 d1.lo d1.hi)
    (hl2 : hasLimit = true → InLim q2 d2.lo d2.hi) :
    Spring.threeDof hasLimit lk
      (Kin.jcalc ⟨.three, [q0, q1, q2], [qd0, qd1, qd2], [d0, d1, d2]⟩).1
      ⟨⟨0, 0, 0⟩, ⟨0, 0, 0⟩⟩ d0 d1 d2 0 0 0 = ⟨⟨0, 0, 0⟩, ⟨0, 0, 0⟩⟩ := by
  obtain ⟨σ, hσ, ha2⟩ : ∃ σ : ℝ, σ * σ = 1 ∧ a2 = Inv.L a0 a1 ⟨0, 0, σ⟩ := by
    rcases h2 with h | h
    · exact ⟨1, by norm_num, by rw [h]; simp [Inv.L]⟩
    · exact ⟨-1, by norm_num, by rw [h]; simp [Inv.L, V3.neg_def]⟩
  have h22 : V3.dot a2 a2 = 1 := by rw [ha2, Inv.L_dot a0 a1 h00 h11 h01]; simp [V3.dot, hσ]
  rw [Inv.jcalc_three_hinges d0 d1 d2 a0 a1 a2 q0 q1 q2 qd0 qd1 qd2 hd0 hd1 hd2 h00 h11 h22]
  have hA0 := v3Any_unit a0 h00
  have hA1 := v3Any_unit a1 h11
  have hA2 := v3Any_unit a2 h22
  have hpar : V3.dot (V3.cross a0 a1) a2 = σ := by
    rw [ha2, ← Inv.L_e2 a0 a1, Inv.L_dot a0 a1 h00 h11 h01]; simp [V3.dot]
  have hfr : (frame3 d0.motion d1.motion d2.motion).ang = ⟨a0, a1, V3.cross a0 a1⟩ := by
    simp [frame3, hd0, hd1, hd2, hA0, hA1, hA2, v3Any_zero_lit]
  have hpr : (frame3 d0.motion d1.motion d2.motion).parity = σ := by
    simp [frame3, hd0, hd1, hd2, hA0, hA1, hA2, v3Any_zero_lit, hpar]
  have hang := Inv.hinge3_angles a0 a1 h00 h11 h01 ⟨0, 0, 0⟩ σ q0 q1 q2 hσ hq0 hq0' hq1 hq2 hq2'
  simp only at hang
  rw [← ha2] at hang
  apply threeDof_rest_hinges
  · rw [hd0]; exact v3Any_zero_lit
  · rw [hd1]; exact v3Any_zero_lit
  · rw [hd2]; exact v3Any_zero_lit
  · rfl
  · intro hL _
    rw [hfr, hpr, aa_psi, hang.1]
    exact limDelta_inside _ _ _ (hl0 hL)
  · intro hL _
    rw [hfr, hpr, aa_theta, hang.2.1]
    exact limDelta_inside _ _ _ (hl1 hL)
  · intro hL _
    rw [hfr, hpr, aa_phi, hang.2.2]
    exact limDelta_inside _ _ _ (hl2 hL)

theorem smul_add2 (e0 e1 : V3 ℝ) (q0 q1 : ℝ) :
    (⟨e0.x * q0 + e1.x * q1, e0.y * q0 + e1.y * q1, e0.z * q0 + e1.z * q1⟩ : V3 ℝ)
      = V3.smul q0 e0 + V3.smul q1 e1 := by
  simp only [V3.smul, V3.add_def, V3.mk.injEq]; refine ⟨by ring, by ring, by ring⟩

theorem smul_add3 (e0 e1 e2 : V3 ℝ) (q0 q1 q2 : ℝ) :
    (⟨e0.x * q0 + e1.x * q1 + e2.x * q2, e0.y * q0 + e1.y * q1 + e2.y * q2,
      e0.z * q0 + e1.z * q1 + e2.z * q2⟩ : V3 ℝ)
      = V3.smul q0 e0 + V3.smul q1 e1 + V3.smul q2 e2 := by
  simp only [V3.smul, V3.add_def, V3.mk.injEq]; refine ⟨by ring, by ring, by ring⟩

theorem smul_1 (e : V3 ℝ) (q : ℝ) : (⟨e.x * q, e.y * q, e.z * q⟩ : V3 ℝ) = V3.smul q e := by
  simp only [V3.smul, V3.mk.injEq]; refine ⟨by ring, by ring, by ring⟩

/-- **two slides, orthonormal axes, `j = jcalc (q0, q1)`, inside the limits: zero joint force** -/
theorem twoDof_rest_two_slides (hasLimit : Bool) (lk : LinkP ℝ) (d0 d1 : DofP ℝ) (e0 e1 : V3 ℝ)
    (hd0 : d0.motion = ⟨⟨0, 0, 0⟩, e0⟩) (hd1 : d1.motion = ⟨⟨0, 0, 0⟩, e1⟩)
    (h00 : V3.dot e0 e0 = 1) (h11 : V3.dot e1 e1 = 1) (h01 : V3.dot e0 e1 = 0)
    (q0 q1 qd0 qd1 : ℝ) (hq0 : |q0| ≤ 2) (hq1 : |q1| ≤ 2)
    (hl0 : hasLimit = true → InLim q0 d0.lo d0.hi) (hl1 : hasLimit = true → InLim q1 d1.lo d1.hi) :
    Spring.twoDof hasLimit lk (Kin.jcalc ⟨.two, [q0, q1], [qd0, qd1], [d0, d1]⟩).1
      ⟨⟨0, 0, 0⟩, ⟨0, 0, 0⟩⟩ d0 d1 0 0 = ⟨⟨0, 0, 0⟩, ⟨0, 0, 0⟩⟩ := by
  rw [Inv.jcalc_slides2 d0 d1 e0 e1 q0 q1 qd0 qd1 hd0 hd1 hq0 hq1]
  simp only
  rw [smul_add2]
  have hd0v : d0.motion.vel = e0 := by rw [hd0]
  have hd1v : d1.motion.vel = e1 := by rw [hd1]
  have hdot0 : V3.dot (V3.smul q0 e0 + V3.smul q1 e1) e0 = q0 := by
    simp only [V3.dot] at h00 h01 ⊢
    simp only [V3.smul, V3.add_def]
    linear_combination q0 * h00 + q1 * h01
  have hdot1 : V3.dot (V3.smul q0 e0 + V3.smul q1 e1) e1 = q1 := by
    simp only [V3.dot] at h11 h01 ⊢
    simp only [V3.smul, V3.add_def]
    linear_combination q0 * h01 + q1 * h11
  apply twoDof_rest_slides hasLimit lk _ d0 d1 q0 q1
  · rw [hd0]; exact v3Any_zero_lit
  · rw [hd1]; exact v3Any_zero_lit
  · rw [hd0v]; exact v3Any_unit e0 h00
  · rw [hd1v]; exact v3Any_unit e1 h11
  · rw [hd0v]; exact h00
  · rw [hd1v]; exact h11
  · rw [hd0v, hd1v]; exact h01
  · rw [hd0v, hd1v]
  · rfl
  · intro hL; simp only [hd0v]; rw [hdot0]; exact limDelta_inside _ _ _ (hl0 hL)
  · intro hL; simp only [hd1v]; rw [hdot1]; exact limDelta_inside _ _ _ (hl1 hL)

/-- **three slides, orthonormal axes, `j = jcalc (q0, q1, q2)`, inside the limits** -/
theorem threeDof_rest_three_slides (hasLimit : Bool) (lk : LinkP ℝ) (d0 d1 d2 : DofP ℝ)
    (e0 e1 e2 : V3 ℝ)
    (hd0 : d0.motion = ⟨⟨0, 0, 0⟩, e0⟩) (hd1 : d1.motion = ⟨⟨0, 0, 0⟩, e1⟩)
    (hd2 : d2.motion = ⟨⟨0, 0, 0⟩, e2⟩)
    (h00 : V3.dot e0 e0 = 1) (h11 : V3.dot e1 e1 = 1) (h22 : V3.dot e2 e2 = 1)
    (h01 : V3.dot e0 e1 = 0) (h02 : V3.dot e0 e2 = 0) (h12 : V3.dot e1 e2 = 0)
    (q0 q1 q2 qd0 qd1 qd2 : ℝ) (hq0 : |q0| ≤ 2) (hq1 : |q1| ≤ 2) (hq2 : |q2| ≤ 2)
    (hl0 : hasLimit = true → InLim q0 d0.lo d0.hi) (hl1 : hasLimit = true → InLim q1 d1.lo d1.hi)
    (hl2 : hasLimit = true → InLim q2 d2.lo d2.hi) :
    Spring.threeDof hasLimit lk
      (Kin.jcalc ⟨.three, [q0, q1, q2], [qd0, qd1, qd2], [d0, d1, d2]⟩).1
      ⟨⟨0, 0, 0⟩, ⟨0, 0, 0⟩⟩ d0 d1 d2 0 0 0 = ⟨⟨0, 0, 0⟩, ⟨0, 0, 0⟩⟩ := by
  rw [Inv.jcalc_slides3 d0 d1 d2 e0 e1 e2 q0 q1 q2 qd0 qd1 qd2 hd0 hd1 hd2 hq0 hq1 hq2]
  simp only
  rw [smul_add3]
  have hd0v : d0.motion.vel = e0 := by rw [hd0]
  have hd1v : d1.motion.vel = e1 := by rw [hd1]
  have hd2v : d2.motion.vel = e2 := by rw [hd2]
  have hdot0 : V3.dot e0 (V3.smul q0 e0 + V3.smul q1 e1 + V3.smul q2 e2) = q0 := by
    simp only [V3.dot] at h00 h01 h02 ⊢
    simp only [V3.smul, V3.add_def]
    linear_combination q0 * h00 + q1 * h01 + q2 * h02
  have hdot1 : V3.dot e1 (V3.smul q0 e0 + V3.smul q1 e1 + V3.smul q2 e2) = q1 := by
    simp only [V3.dot] at h11 h01 h12 ⊢
    simp only [V3.smul, V3.add_def]
    linear_combination q0 * h01 + q1 * h11 + q2 * h12
  have hdot2 : V3.dot e2 (V3.smul q0 e0 + V3.smul q1 e1 + V3.smul q2 e2) = q2 := by
    simp only [V3.dot] at h22 h02 h12 ⊢
    simp only [V3.smul, V3.add_def]
    linear_combination q0 * h02 + q1 * h12 + q2 * h22
  apply threeDof_rest_slides hasLimit lk _ d0 d1 d2 q0 q1 q2
  · rw [hd0]; exact v3Any_zero_lit
  · rw [hd1]; exact v3Any_zero_lit
  · rw [hd2]; exact v3Any_zero_lit
  · rw [hd0v]; exact v3Any_unit e0 h00
  · rw [hd0v]; exact h00
  · rw [hd1v]; exact h11
  · rw [hd2v]; exact h22
  · rw [hd0v, hd1v]; exact h01
  · rw [hd0v, hd2v]; exact h02
  · rw [hd1v, hd2v]; exact h12
  · rw [hd0v, hd1v, hd2v]
  · intro hL; simp only [hd0v]; rw [hdot0]; exact limDelta_inside _ _ _ (hl0 hL)
  · intro hL; simp only [hd1v]; rw [hdot1]; exact limDelta_inside _ _ _ (hl1 hL)
  · intro hL; simp only [hd2v]; rw [hdot2]; exact limDelta_inside _ _ _ (hl2 hL)

/-- **slide then hinge (unit axes), `j = jcalc (q0, q1)`, inside the limits** -/
theorem twoDof_rest_slide_then_hinge (hasLimit : Bool) (lk : LinkP ℝ) (ds dh : DofP ℝ) (e a : V3 ℝ)
    (hs : ds.motion = ⟨⟨0, 0, 0⟩, e⟩) (hh : dh.motion = ⟨a, ⟨0, 0, 0⟩⟩)
    (hee : V3.dot e e = 1) (haa : V3.dot a a = 1)
    (q0 q1 qd0 qd1 : ℝ) (hq0 : |q0| ≤ 2) (hq1 : |q1| ≤ 6 / 5)
    (hl0 : hasLimit = true → InLim q0 ds.lo ds.hi) (hl1 : hasLimit = true → InLim q1 dh.lo dh.hi) :
    Spring.twoDof hasLimit lk (Kin.jcalc ⟨.two, [q0, q1], [qd0, qd1], [ds, dh]⟩).1
      ⟨⟨0, 0, 0⟩, ⟨0, 0, 0⟩⟩ ds dh 0 0 = ⟨⟨0, 0, 0⟩, ⟨0, 0, 0⟩⟩ := by
  rw [Inv.jcalc_slide_hinge ds dh a e q0 q1 qd0 qd1 hs hh haa hq0]
  simp only
  rw [smul_1]
  have hA := v3Any_unit a haa
  have hE := v3Any_unit e hee
  obtain ⟨hb, hab, hc⟩ := Inv.orthogonals_spec a haa
  have hth := Inv.hinge_theta a (Inv.orthogonals a).1 (V3.smul q0 e) q1 haa hb hab hq1
  have hfr : (frame2 ds.motion dh.motion).ang
      = ⟨V3.cross a (Inv.orthogonals a).1, a, (Inv.orthogonals a).1⟩ := by
    simp [frame2, hs, hh, hA, hE, v3Any_zero_lit, orth_eq, hc, Inv.cross_cross_a a _ haa hab]
  have hpr : (frame2 ds.motion dh.motion).parity = 1 := rfl
  apply twoDof_rest_slide_hinge hasLimit lk _ ds dh e a q0 hs hh hE hA hee rfl
  · simp only
    rw [Inv.rotate_axis a q1 haa, cross_self_lit]
  · intro hL
    have : V3.dot (V3.smul q0 e) e = q0 := by
      simp only [V3.dot] at hee ⊢
      simp only [V3.smul]
      linear_combination q0 * hee
    simp only [this]
    exact limDelta_inside _ _ _ (hl0 hL)
  · intro hL
    rw [hfr, hpr, aa_theta, hth.1]
    exact limDelta_inside _ _ _ (hl1 hL)

/-- **two slides then a hinge (orthonormal slide axes, unit hinge axis), `j = jcalc (q0,q1,q2)`** -/
theorem threeDof_rest_slides_then_hinge (hasLimit : Bool) (lk : LinkP ℝ) (d0 d1 dh : DofP ℝ)
    (e0 e1 a : V3 ℝ)
    (h0 : d0.motion = ⟨⟨0, 0, 0⟩, e0⟩) (h1 : d1.motion = ⟨⟨0, 0, 0⟩, e1⟩)
    (hh : dh.motion = ⟨a, ⟨0, 0, 0⟩⟩)
    (h00 : V3.dot e0 e0 = 1) (h11 : V3.dot e1 e1 = 1) (h01 : V3.dot e0 e1 = 0)
    (haa : V3.dot a a = 1)
    (q0 q1 q2 qd0 qd1 qd2 : ℝ) (hq0 : |q0| ≤ 2) (hq1 : |q1| ≤ 2)
    (hq2 : -Real.pi < q2) (hq2' : q2 ≤ Real.pi)
    (hl0 : hasLimit = true → InLim q0 d0.lo d0.hi) (hl1 : hasLimit = true → InLim q1 d1.lo d1.hi)
    (hl2 : hasLimit = true → InLim q2 dh.lo dh.hi) :
    Spring.threeDof hasLimit lk
      (Kin.jcalc ⟨.three, [q0, q1, q2], [qd0, qd1, qd2], [d0, d1, dh]⟩).1
      ⟨⟨0, 0, 0⟩, ⟨0, 0, 0⟩⟩ d0 d1 dh 0 0 0 = ⟨⟨0, 0, 0⟩, ⟨0, 0, 0⟩⟩ := by
  rw [Inv.jcalc_slide_slide_hinge d0 d1 dh a e0 e1 q0 q1 q2 qd0 qd1 qd2 h0 h1 hh haa hq0 hq1]
  simp only
  rw [smul_add2]
  have hA := v3Any_unit a haa
  have hE := v3Any_unit e0 h00
  obtain ⟨hb, hab, hc⟩ := Inv.orthogonals_spec a haa
  have hph := Inv.hinge_phi a (Inv.orthogonals a).1 (V3.smul q0 e0 + V3.smul q1 e1) q2 haa hb hab hq2 hq2'
  have hfr : (frame3 d0.motion d1.motion dh.motion).ang
      = ⟨(Inv.orthogonals a).1, V3.cross a (Inv.orthogonals a).1, a⟩ := by
    simp [frame3, h0, h1, hh, hA, hE, v3Any_zero_lit, orth_eq, hc, Inv.cross_b_cross a _ hb hab]
  have hpr : (frame3 d0.motion d1.motion dh.motion).parity = 1 := by
    simp [frame3, h0, h1, hh, hA, hE, v3Any_zero_lit]
  have hdot0 : V3.dot e0 (V3.smul q0 e0 + V3.smul q1 e1) = q0 := by
    simp only [V3.dot] at h00 h01 ⊢
    simp only [V3.smul, V3.add_def]
    linear_combination q0 * h00 + q1 * h01
  have hdot1 : V3.dot e1 (V3.smul q0 e0 + V3.smul q1 e1) = q1 := by
    simp only [V3.dot] at h11 h01 ⊢
    simp only [V3.smul, V3.add_def]
    linear_combination q0 * h01 + q1 * h11
  apply threeDof_rest_slides_hinge hasLimit lk _ d0 d1 dh e0 e1 a q0 q1 h0 h1 hh hE hA h00 h11 h01 rfl
  · simp only
    rw [Inv.rotate_axis a q2 haa, cross_self_lit]
  · intro hL; simp only [hdot0]; exact limDelta_inside _ _ _ (hl0 hL)
  · intro hL; simp only [hdot1]; exact limDelta_inside _ _ _ (hl1 hL)
  · intro hL
    rw [hfr, hpr, aa_phi, hph.1]
    exact limDelta_inside _ _ _ (hl2 hL)

/-! ### one predicate for the six stack kinds -/

/-- `lq` (a link's slice of `q`, `qd`, dofs) is a 2- or 3-dof stack of one of the kinds whose pure
joint configuration the spring joint model holds at rest — two / three hinges with orthonormal axes
(either handedness), two / three orthonormal slides, one or two (orthonormal) slides followed by a
hinge — at coordinates inside the chart of `axis_angle_ang` (`(−π, π]`, middle angle and the hinge of
slide-hinge `|q| ≤ 1.2`; slides `|q| ≤ 2`: beyond that `jcalc` itself turns a slide into a rotation
through `normalize(quat_rot_axis(0, q))`) and inside the joint limits. -/
inductive PureStack (hasLimit : Bool) (lq : Kin.LinkIn ℝ) : Prop
  | hh (d0 d1 : DofP ℝ) (a0 a1 : V3 ℝ) (q0 q1 qd0 qd1 : ℝ)
      (hlq : lq = ⟨.two, [q0, q1], [qd0, qd1], [d0, d1]⟩)
      (hd0 : d0.motion = ⟨a0, ⟨0, 0, 0⟩⟩) (hd1 : d1.motion = ⟨a1, ⟨0, 0, 0⟩⟩)
      (h00 : V3.dot a0 a0 = 1) (h11 : V3.dot a1 a1 = 1) (h01 : V3.dot a0 a1 = 0)
      (hq0 : -Real.pi < q0) (hq0' : q0 ≤ Real.pi) (hq1 : |q1| ≤ 6 / 5)
      (hl0 : hasLimit = true → InLim q0 d0.lo d0.hi) (hl1 : hasLimit = true → InLim q1 d1.lo d1.hi) :
      PureStack hasLimit lq
  | hhh (d0 d1 d2 : DofP ℝ) (a0 a1 a2 : V3 ℝ) (q0 q1 q2 qd0 qd1 qd2 : ℝ)
      (hlq : lq = ⟨.three, [q0, q1, q2], [qd0, qd1, qd2], [d0, d1, d2]⟩)
      (hd0 : d0.motion = ⟨a0, ⟨0, 0, 0⟩⟩) (hd1 : d1.motion = ⟨a1, ⟨0, 0, 0⟩⟩)
      (hd2 : d2.motion = ⟨a2, ⟨0, 0, 0⟩⟩)
      (h00 : V3.dot a0 a0 = 1) (h11 : V3.dot a1 a1 = 1) (h01 : V3.dot a0 a1 = 0)
      (h2 : a2 = V3.cross a0 a1 ∨ a2 = -V3.cross a0 a1)
      (hq0 : -Real.pi < q0) (hq0' : q0 ≤ Real.pi) (hq1 : |q1| ≤ 6 / 5)
      (hq2 : -Real.pi < q2) (hq2' : q2 ≤ Real.pi)
      (hl0 : hasLimit = true → InLim q0 d0.lo d0.hi) (hl1 : hasLimit = true → InLim q1 d1.lo d1.hi)
      (hl2 : hasLimit = true → InLim q2 d2.lo d2.hi) : PureStack hasLimit lq
  | ss (d0 d1 : DofP ℝ) (e0 e1 : V3 ℝ) (q0 q1 qd0 qd1 : ℝ)
      (hlq : lq = ⟨.two, [q0, q1], [qd0, qd1], [d0, d1]⟩)
      (hd0 : d0.motion = ⟨⟨0, 0, 0⟩, e0⟩) (hd1 : d1.motion = ⟨⟨0, 0, 0⟩, e1⟩)
      (h00 : V3.dot e0 e0 = 1) (h11 : V3.dot e1 e1 = 1) (h01 : V3.dot e0 e1 = 0)
      (hq0 : |q0| ≤ 2) (hq1 : |q1| ≤ 2)
      (hl0 : hasLimit = true → InLim q0 d0.lo d0.hi) (hl1 : hasLimit = true → InLim q1 d1.lo d1.hi) :
      PureStack hasLimit lq
  | sss (d0 d1 d2 : DofP ℝ) (e0 e1 e2 : V3 ℝ) (q0 q1 q2 qd0 qd1 qd2 : ℝ)
      (hlq : lq = ⟨.three, [q0, q1, q2], [qd0, qd1, qd2], [d0, d1, d2]⟩)
      (hd0 : d0.motion = ⟨⟨0, 0, 0⟩, e0⟩) (hd1 : d1.motion = ⟨⟨0, 0, 0⟩, e1⟩)
      (hd2 : d2.motion = ⟨⟨0, 0, 0⟩, e2⟩)
      (h00 : V3.dot e0 e0 = 1) (h11 : V3.dot e1 e1 = 1) (h22 : V3.dot e2 e2 = 1)
      (h01 : V3.dot e0 e1 = 0) (h02 : V3.dot e0 e2 = 0) (h12 : V3.dot e1 e2 = 0)
      (hq0 : |q0| ≤ 2) (hq1 : |q1| ≤ 2) (hq2 : |q2| ≤ 2)
      (hl0 : hasLimit = true → InLim q0 d0.lo d0.hi) (hl1 : hasLimit = true → InLim q1 d1.lo d1.hi)
      (hl2 : hasLimit = true → InLim q2 d2.lo d2.hi) : PureStack hasLimit lq
  | sh (ds dh : DofP ℝ) (e a : V3 ℝ) (q0 q1 qd0 qd1 : ℝ)
      (hlq : lq = ⟨.two, [q0, q1], [qd0, qd1], [ds, dh]⟩)
      (hs : ds.motion = ⟨⟨0, 0, 0⟩, e⟩) (hh : dh.motion = ⟨a, ⟨0, 0, 0⟩⟩)
      (hee : V3.dot e e = 1) (haa : V3.dot a a = 1) (hq0 : |q0| ≤ 2) (hq1 : |q1| ≤ 6 / 5)
      (hl0 : hasLimit = true → InLim q0 ds.lo ds.hi) (hl1 : hasLimit = true → InLim q1 dh.lo dh.hi) :
      PureStack hasLimit lq
  | ssh (d0 d1 dh : DofP ℝ) (e0 e1 a : V3 ℝ) (q0 q1 q2 qd0 qd1 qd2 : ℝ)
      (hlq : lq = ⟨.three, [q0, q1, q2], [qd0, qd1, qd2], [d0, d1, dh]⟩)
      (h0 : d0.motion = ⟨⟨0, 0, 0⟩, e0⟩) (h1 : d1.motion = ⟨⟨0, 0, 0⟩, e1⟩)
      (hh : dh.motion = ⟨a, ⟨0, 0, 0⟩⟩)
      (h00 : V3.dot e0 e0 = 1) (h11 : V3.dot e1 e1 = 1) (h01 : V3.dot e0 e1 = 0)
      (haa : V3.dot a a = 1) (hq0 : |q0| ≤ 2) (hq1 : |q1| ≤ 2)
      (hq2 : -Real.pi < q2) (hq2' : q2 ≤ Real.pi)
      (hl0 : hasLimit = true → InLim q0 d0.lo d0.hi) (hl1 : hasLimit = true → InLim q1 d1.lo d1.hi)
      (hl2 : hasLimit = true → InLim q2 dh.lo dh.hi) : PureStack hasLimit lq

/-- **the spring joint-frame force of a `PureStack` link vanishes** at `j = jcalc q`, `jd = 0`,
`tau = 0` (`l` is the link's slice of `(types, dofs, tau)`, as `joints.resolve` receives it) -/
theorem jointForce_pureStack (hasLimit : Bool) (lk : LinkP ℝ) (lq l : Kin.LinkIn ℝ)
    (h : PureStack hasLimit lq) (ht : l.typ = lq.typ) (hd : l.dofs = lq.dofs)
    (htau : l.qd = List.replicate lq.dofs.length 0) :
    Spring.jointForce hasLimit lk (Kin.jcalc lq).1 ⟨⟨0, 0, 0⟩, ⟨0, 0, 0⟩⟩ l = ⟨0, 0⟩ := by
  cases h with
  | hh d0 d1 a0 a1 q0 q1 qd0 qd1 hlq hd0 hd1 h00 h11 h01 hq0 hq0' hq1 hl0 hl1 =>
    subst hlq
    simp only [Spring.jointForce, ht, hd, htau, List.length_cons, List.length_nil, List.replicate]
    exact twoDof_rest_two_hinges hasLimit lk d0 d1 a0 a1 hd0 hd1 h00 h11 h01 q0 q1 qd0 qd1 hq0 hq0'
      hq1 hl0 hl1
  | hhh d0 d1 d2 a0 a1 a2 q0 q1 q2 qd0 qd1 qd2 hlq hd0 hd1 hd2 h00 h11 h01 h2 hq0 hq0' hq1 hq2 hq2'
      hl0 hl1 hl2 =>
    subst hlq
    simp only [Spring.jointForce, ht, hd, htau, List.length_cons, List.length_nil, List.replicate]
    exact threeDof_rest_three_hinges hasLimit lk d0 d1 d2 a0 a1 a2 hd0 hd1 hd2 h00 h11 h01 h2
      q0 q1 q2 qd0 qd1 qd2 hq0 hq0' hq1 hq2 hq2' hl0 hl1 hl2
  | ss d0 d1 e0 e1 q0 q1 qd0 qd1 hlq hd0 hd1 h00 h11 h01 hq0 hq1 hl0 hl1 =>
    subst hlq
    simp only [Spring.jointForce, ht, hd, htau, List.length_cons, List.length_nil, List.replicate]
    exact twoDof_rest_two_slides hasLimit lk d0 d1 e0 e1 hd0 hd1 h00 h11 h01 q0 q1 qd0 qd1 hq0 hq1
      hl0 hl1
  | sss d0 d1 d2 e0 e1 e2 q0 q1 q2 qd0 qd1 qd2 hlq hd0 hd1 hd2 h00 h11 h22 h01 h02 h12 hq0 hq1 hq2
      hl0 hl1 hl2 =>
    subst hlq
    simp only [Spring.jointForce, ht, hd, htau, List.length_cons, List.length_nil, List.replicate]
    exact threeDof_rest_three_slides hasLimit lk d0 d1 d2 e0 e1 e2 hd0 hd1 hd2 h00 h11 h22 h01 h02
      h12 q0 q1 q2 qd0 qd1 qd2 hq0 hq1 hq2 hl0 hl1 hl2
  | sh ds dh e a q0 q1 qd0 qd1 hlq hs hh hee haa hq0 hq1 hl0 hl1 =>
    subst hlq
    simp only [Spring.jointForce, ht, hd, htau, List.length_cons, List.length_nil, List.replicate]
    exact twoDof_rest_slide_then_hinge hasLimit lk ds dh e a hs hh hee haa q0 q1 qd0 qd1 hq0 hq1
      hl0 hl1
  | ssh d0 d1 dh e0 e1 a q0 q1 q2 qd0 qd1 qd2 hlq h0 h1 hh h00 h11 h01 haa hq0 hq1 hq2 hq2'
      hl0 hl1 hl2 =>
    subst hlq
    simp only [Spring.jointForce, ht, hd, htau, List.length_cons, List.length_nil, List.replicate]
    exact threeDof_rest_slides_then_hinge hasLimit lk d0 d1 dh e0 e1 a h0 h1 hh h00 h11 h01 haa
      q0 q1 q2 qd0 qd1 qd2 hq0 hq1 hq2 hq2' hl0 hl1 hl2

/-- the joint rotation of a `PureStack` configuration is a unit quaternion (hypothesis `hj` of
C08's `worldToJoint_forward`) -/
theorem PureStack.unit {hasLimit : Bool} {lq : Kin.LinkIn ℝ} (h : PureStack hasLimit lq) :
    Q4.normSq (Kin.jcalc lq).1.rot = 1 := by
  cases h with
  | hh d0 d1 a0 a1 q0 q1 qd0 qd1 hlq hd0 hd1 h00 h11 h01 hq0 hq0' hq1 hl0 hl1 =>
    subst hlq
    rw [Inv.jcalc_two_hinges d0 d1 a0 a1 q0 q1 qd0 qd1 hd0 hd1 h00 h11]
    simp only
    rw [Inv.normSq_quatMul, Inv.quatRotAxis_normSq a0 q0 h00, Inv.quatRotAxis_normSq a1 q1 h11]; ring
  | hhh d0 d1 d2 a0 a1 a2 q0 q1 q2 qd0 qd1 qd2 hlq hd0 hd1 hd2 h00 h11 h01 h2 hq0 hq0' hq1 hq2 hq2'
      hl0 hl1 hl2 =>
    subst hlq
    have h22 : V3.dot a2 a2 = 1 := by
      have hc := Inv.cross_unit_normSq a0 a1 h00 h11 h01
      rcases h2 with h | h <;> rw [h]
      · exact hc
      · simp only [V3.dot, V3.neg_def] at hc ⊢; linear_combination hc
    rw [Inv.jcalc_three_hinges d0 d1 d2 a0 a1 a2 q0 q1 q2 qd0 qd1 qd2 hd0 hd1 hd2 h00 h11 h22]
    simp only
    rw [Inv.normSq_quatMul, Inv.normSq_quatMul, Inv.quatRotAxis_normSq a0 q0 h00,
      Inv.quatRotAxis_normSq a1 q1 h11, Inv.quatRotAxis_normSq a2 q2 h22]; ring
  | ss d0 d1 e0 e1 q0 q1 qd0 qd1 hlq hd0 hd1 h00 h11 h01 hq0 hq1 hl0 hl1 =>
    subst hlq
    rw [Inv.jcalc_slides2 d0 d1 e0 e1 q0 q1 qd0 qd1 hd0 hd1 hq0 hq1]
    simp [Q4.normSq]
  | sss d0 d1 d2 e0 e1 e2 q0 q1 q2 qd0 qd1 qd2 hlq hd0 hd1 hd2 h00 h11 h22 h01 h02 h12 hq0 hq1 hq2
      hl0 hl1 hl2 =>
    subst hlq
    rw [Inv.jcalc_slides3 d0 d1 d2 e0 e1 e2 q0 q1 q2 qd0 qd1 qd2 hd0 hd1 hd2 hq0 hq1 hq2]
    simp [Q4.normSq]
  | sh ds dh e a q0 q1 qd0 qd1 hlq hs hh hee haa hq0 hq1 hl0 hl1 =>
    subst hlq
    rw [Inv.jcalc_slide_hinge ds dh a e q0 q1 qd0 qd1 hs hh haa hq0]
    exact Inv.quatRotAxis_normSq a q1 haa
  | ssh d0 d1 dh e0 e1 a q0 q1 q2 qd0 qd1 qd2 hlq h0 h1 hh h00 h11 h01 haa hq0 hq1 hq2 hq2'
      hl0 hl1 hl2 =>
    subst hlq
    rw [Inv.jcalc_slide_slide_hinge d0 d1 dh a e0 e1 q0 q1 q2 qd0 qd1 qd2 h0 h1 hh haa hq0 hq1]
    exact Inv.quatRotAxis_normSq a q2 haa

end real

end Brax.C04L
