import Brax.Model.C20
import Brax.Lemmas.Real
import Mathlib.Analysis.SpecialFunctions.Artanh
import Mathlib.Analysis.SpecialFunctions.Log.Basic
import Mathlib.Analysis.SpecialFunctions.Exp
import Mathlib.Analysis.SpecialFunctions.Sqrt
import Mathlib.Analysis.SpecialFunctions.Trigonometric.DerivHyp
import Mathlib.MeasureTheory.Function.JacobianOneDim
import Mathlib.MeasureTheory.Integral.Pi
import Mathlib.Probability.Distributions.Gaussian.Real
import Mathlib.Tactic.Ring
import Mathlib.Tactic.FieldSimp
import Mathlib.Tactic.Linarith
import Mathlib.Tactic.Positivity
import Mathlib.Tactic.NormNum
/-!
# Helper lemmas for C20: the scalar classes of the model at ℝ and real-analysis facts

`HasPi ℝ = Real.pi`, `HasLog1p ℝ = fun t => log (1 + t)`; `HasExp ℝ` (exp, log, tanh) comes from
`Brax/Lemmas/Real.lean`.
-/
namespace Brax.C20
open Brax Real

noncomputable instance : HasPi ℝ := ⟨Real.pi⟩
noncomputable instance : HasLog1p ℝ := ⟨fun t => Real.log (1 + t)⟩

@[simp] theorem two_eq : (two : ℝ) = 2 := by norm_num [two]
@[simp] theorem half_eq : (half : ℝ) = 1 / 2 := by norm_num [half]
@[simp] theorem pi_eq : (HasPi.pi : ℝ) = Real.pi := rfl
@[simp] theorem log1p_eq (t : ℝ) : HasLog1p.log1p t = Real.log (1 + t) := rfl
@[simp] theorem hexp_eq (t : ℝ) : HasExp.exp t = Real.exp t := rfl
@[simp] theorem hlog_eq (t : ℝ) : HasExp.log t = Real.log t := rfl
@[simp] theorem htanh_eq (t : ℝ) : HasExp.tanh t = Real.tanh t := rfl

/-- the stable form used by `jnp.logaddexp(x, 0)` is `log (1 + exp x)` -/
theorem softplus_eq (x : ℝ) : softplus x = Real.log (1 + Real.exp x) := by
  simp only [softplus, maxv_eq, absv_eq_abs, log1p_eq, hexp_eq]
  rcases le_or_gt 0 x with h | h
  · rw [max_eq_left h, abs_of_nonneg h]
    have h1 : (0 : ℝ) < 1 + Real.exp (-x) := by positivity
    have h2 : 1 + Real.exp x = Real.exp x * (1 + Real.exp (-x)) := by
      rw [mul_add, mul_one, ← Real.exp_add, add_neg_cancel, Real.exp_zero, add_comm]
    rw [h2, Real.log_mul (Real.exp_pos x).ne' h1.ne', Real.log_exp]
  · rw [max_eq_right h.le, abs_of_neg h, neg_neg, zero_add]

theorem softplus_pos (x : ℝ) : 0 < softplus x := by
  rw [softplus_eq]
  exact Real.log_pos (by linarith [Real.exp_pos x])

/-- `d/dx tanh x = 1 - tanh² x` -/
theorem hasDerivAt_tanh (x : ℝ) : HasDerivAt Real.tanh (1 - Real.tanh x ^ 2) x := by
  have hc : Real.cosh x ≠ 0 := (Real.cosh_pos x).ne'
  have h := (Real.hasDerivAt_sinh x).div (Real.hasDerivAt_cosh x) hc
  have hfun : Real.tanh = Real.sinh / Real.cosh := by
    funext y; simp only [Pi.div_apply]; exact Real.tanh_eq_sinh_div_cosh y
  have hd : (Real.cosh x * Real.cosh x - Real.sinh x * Real.sinh x) / Real.cosh x ^ 2
      = 1 - Real.tanh x ^ 2 := by
    rw [Real.tanh_eq_sinh_div_cosh]; field_simp
  rw [← hd, hfun]
  exact h

/-- `1 - tanh² x` written with `a = exp x` -/
theorem one_sub_tanh_sq (x : ℝ) :
    1 - Real.tanh x ^ 2 = 4 * Real.exp x ^ 2 / (Real.exp x ^ 2 + 1) ^ 2 := by
  have ha : 0 < Real.exp x := Real.exp_pos x
  rw [Real.tanh_eq, Real.exp_neg]
  field_simp
  ring

theorem one_sub_tanh_sq_pos (x : ℝ) : 0 < 1 - Real.tanh x ^ 2 := by
  have := Real.tanh_sq_lt_one x
  linarith

/-- the log-det-Jacobian of the code, in closed form -/
theorem fldj_eq_log (x : ℝ) : fldj x = Real.log (1 - Real.tanh x ^ 2) := by
  have ha : 0 < Real.exp x := Real.exp_pos x
  have he : Real.exp (-2 * x) = (Real.exp x ^ 2)⁻¹ := by
    rw [show -2 * x = -(x + x) by ring, Real.exp_neg, Real.exp_add]; ring_nf
  have h1 : (0 : ℝ) < Real.exp x ^ 2 + 1 := by positivity
  have hs : 1 + (Real.exp x ^ 2)⁻¹ = (Real.exp x ^ 2 + 1) / Real.exp x ^ 2 := by
    field_simp
  simp only [fldj, two_eq, softplus_eq, hlog_eq]
  rw [he, hs, one_sub_tanh_sq, Real.log_div (by positivity) (by positivity),
    Real.log_div (by positivity) (by positivity), Real.log_mul (by norm_num) (by positivity),
    Real.log_pow, Real.log_pow, Real.log_exp,
    show (4 : ℝ) = 2 ^ 2 by norm_num, Real.log_pow]
  push_cast
  ring

theorem fldj_neg (x : ℝ) : fldj (-x) = fldj x := by
  rw [fldj_eq_log, fldj_eq_log, Real.tanh_neg, neg_sq]

/-- no large terms cancel: `fldj x = 2 log 2 - 2|x| - 2 log(1 + exp(-2|x|))` -/
theorem fldj_abs_form (x : ℝ) :
    fldj x = 2 * Real.log 2 - 2 * |x| - 2 * Real.log (1 + Real.exp (-2 * |x|)) := by
  have key : ∀ y : ℝ, 0 ≤ y →
      fldj y = 2 * Real.log 2 - 2 * y - 2 * Real.log (1 + Real.exp (-2 * y)) := by
    intro y _
    simp only [fldj, two_eq, softplus_eq, hlog_eq]
    ring
  rcases le_or_gt 0 x with h | h
  · rw [abs_of_nonneg h]; exact key x h
  · rw [abs_of_neg h, ← fldj_neg]; exact key (-x) (by linarith)

theorem log_one_add_exp_neg_bounds (t : ℝ) (ht : 0 ≤ t) :
    0 < Real.log (1 + Real.exp (-t)) ∧ Real.log (1 + Real.exp (-t)) ≤ Real.log 2 := by
  have h0 : 0 < Real.exp (-t) := Real.exp_pos _
  have h1 : Real.exp (-t) ≤ 1 := by
    rw [← Real.exp_zero]; exact Real.exp_le_exp.mpr (by linarith)
  constructor
  · exact Real.log_pos (by linarith)
  · exact Real.log_le_log (by linarith) (by linarith)

/-- the Gaussian density with mean `μ` and standard deviation `σ` -/
noncomputable def gaussianPdf (μ σ x : ℝ) : ℝ :=
  1 / (σ * Real.sqrt (2 * Real.pi)) * Real.exp (-(x - μ) ^ 2 / (2 * σ ^ 2))

theorem gaussianPdf_pos (μ σ x : ℝ) (hσ : 0 < σ) : 0 < gaussianPdf μ σ x := by
  unfold gaussianPdf
  have : 0 < Real.sqrt (2 * Real.pi) := Real.sqrt_pos.mpr (by positivity)
  positivity

/-- the code's `-0.5·(x/σ - μ/σ)² - (0.5·log(2π) + log σ)` is the log of the Gaussian density -/
theorem normalLogProb1_eq (μ σ x : ℝ) (hσ : 0 < σ) :
    normalLogProb1 μ σ x = Real.log (gaussianPdf μ σ x) := by
  have hp : (0 : ℝ) < 2 * Real.pi := by positivity
  have hs : 0 < Real.sqrt (2 * Real.pi) := Real.sqrt_pos.mpr hp
  simp only [normalLogProb1, gaussianPdf, half_eq, two_eq, pi_eq, hlog_eq, sq]
  rw [Real.log_mul (by positivity) (Real.exp_pos _).ne', Real.log_exp,
    Real.log_div one_ne_zero (by positivity), Real.log_one, Real.log_mul hσ.ne' hs.ne', Real.log_sqrt hp.le]
  field_simp
  ring

/-! ## lists -/

theorem zipWith3_map_mid {β γ δ ε : Type} (f : α → γ → δ → ε) (g : β → γ)
    (l : List α) (s : List β) (x : List δ) :
    zipWith3 f l (s.map g) x = zipWith3 (fun a b c => f a (g b) c) l s x := by
  induction l generalizing s x with
  | nil => simp [zipWith3]
  | cons a l ih =>
    cases s with
    | nil => simp [zipWith3]
    | cons b s =>
      cases x with
      | nil => simp [zipWith3]
      | cons c x => simp [zipWith3, ih]

theorem zipWith_zipWith3_map {β γ ε ζ η : Type} (op : ε → ζ → η) (f : α → β → γ → ε) (h : γ → ζ)
    (l : List α) (s : List β) (x : List γ) :
    List.zipWith op (zipWith3 f l s x) (x.map h) = zipWith3 (fun a b c => op (f a b c) (h c)) l s x := by
  induction l generalizing s x with
  | nil => simp [zipWith3]
  | cons a l ih =>
    cases s with
    | nil => simp [zipWith3]
    | cons b s =>
      cases x with
      | nil => simp [zipWith3]
      | cons c x => simp [zipWith3, ih]

theorem map_zipWith3 {β γ δ ε : Type} (g : δ → ε) (f : α → β → γ → δ)
    (l : List α) (s : List β) (x : List γ) :
    (zipWith3 f l s x).map g = zipWith3 (fun a b c => g (f a b c)) l s x := by
  induction l generalizing s x with
  | nil => simp [zipWith3]
  | cons a l ih =>
    cases s with
    | nil => simp [zipWith3]
    | cons b s =>
      cases x with
      | nil => simp [zipWith3]
      | cons c x => simp [zipWith3, ih]

theorem zipWith3_congr {β γ δ : Type} (f g : α → β → γ → δ) (l : List α) (s : List β) (x : List γ)
    (P : β → Prop) (hs : ∀ b ∈ s, P b) (h : ∀ a b c, P b → f a b c = g a b c) :
    zipWith3 f l s x = zipWith3 g l s x := by
  induction l generalizing s x with
  | nil => simp [zipWith3]
  | cons a l ih =>
    cases s with
    | nil => simp [zipWith3]
    | cons b s =>
      cases x with
      | nil => simp [zipWith3]
      | cons c x =>
        simp only [zipWith3]
        rw [h a b c (hs b (by simp)), ih s x (fun b' hb' => hs b' (by simp [hb']))]

theorem mem_zipWith3 {β γ δ : Type} (f : α → β → γ → δ) (l : List α) (s : List β) (x : List γ)
    (d : δ) (hd : d ∈ zipWith3 f l s x) : ∃ a ∈ l, ∃ b ∈ s, ∃ c ∈ x, d = f a b c := by
  induction l generalizing s x with
  | nil => simp [zipWith3] at hd
  | cons a l ih =>
    cases s with
    | nil => simp [zipWith3] at hd
    | cons b s =>
      cases x with
      | nil => simp [zipWith3] at hd
      | cons c x =>
        simp only [zipWith3, List.mem_cons] at hd
        rcases hd with rfl | hd
        · exact ⟨a, by simp, b, by simp, c, by simp, rfl⟩
        · obtain ⟨a', ha', b', hb', c', hc', e⟩ := ih s x hd
          exact ⟨a', by simp [ha'], b', by simp [hb'], c', by simp [hc'], e⟩

theorem length_zipWith3 {β γ δ : Type} (f : α → β → γ → δ) (l : List α) (s : List β) (x : List γ)
    (h1 : s.length = l.length) (h2 : x.length = l.length) : (zipWith3 f l s x).length = l.length := by
  induction l generalizing s x with
  | nil => simp [zipWith3]
  | cons a l ih =>
    cases s with
    | nil => simp at h1
    | cons b s =>
      cases x with
      | nil => simp at h2
      | cons c x =>
        simp only [zipWith3, List.length_cons] at h1 h2 ⊢
        rw [ih s x (by omega) (by omega)]

/-- `jnp.split(parameters, 2, axis=-1)` of `loc ++ raw` with equally long halves -/
theorem createDist_append (c : Cfg ℝ) (loc raw : List ℝ) (h : raw.length = loc.length) :
    createDist c (loc ++ raw) = ⟨loc, raw.map (scaleOf c)⟩ := by
  have hl : (loc ++ raw).length / 2 = loc.length := by
    rw [List.length_append, h]; omega
  simp only [createDist, hl, List.take_left', List.drop_left']

/-! ## the squashed density and its integral -/

open MeasureTheory in
theorem gaussianPdf_eq_mathlib (μ σ : ℝ) (hσ : 0 < σ) (x : ℝ) :
    gaussianPdf μ σ x = ProbabilityTheory.gaussianPDFReal μ (Real.toNNReal (σ ^ 2)) x := by
  simp only [gaussianPdf, ProbabilityTheory.gaussianPDFReal, Real.coe_toNNReal _ (sq_nonneg σ)]
  have h : Real.sqrt (2 * Real.pi * σ ^ 2) = σ * Real.sqrt (2 * Real.pi) := by
    rw [Real.sqrt_mul (by positivity), Real.sqrt_sq hσ.le, mul_comm]
  rw [h, one_div]

/-- the Gaussian density integrates to one (Mathlib's `integral_gaussianPDFReal_eq_one`) -/
theorem integral_gaussianPdf (μ σ : ℝ) (hσ : 0 < σ) : ∫ x, gaussianPdf μ σ x = 1 := by
  have hv : Real.toNNReal (σ ^ 2) ≠ 0 := by
    rw [Ne, Real.toNNReal_eq_zero, not_le]; positivity
  rw [← ProbabilityTheory.integral_gaussianPDFReal_eq_one μ hv]
  congr 1
  funext x
  exact gaussianPdf_eq_mathlib μ σ hσ x

/-- density of the squashed action `y = tanh x` that `log_prob` assigns (one action dimension):
`exp(normal log-density(artanh y) − fldj(artanh y))` -/
noncomputable def squashedDensity (μ σ y : ℝ) : ℝ :=
  Real.exp (normalLogProb1 μ σ (tanhInverse y) - fldj (tanhInverse y))

theorem tanhInverse_tanh (x : ℝ) : tanhInverse (Real.tanh x) = x := by
  have hx : Real.tanh x ∈ Set.Ioo (-1 : ℝ) 1 := ⟨Real.neg_one_lt_tanh x, Real.tanh_lt_one x⟩
  have : tanhInverse (Real.tanh x) = Real.artanh (Real.tanh x) := by
    rw [Real.artanh_eq_half_log (Set.Ioo_subset_Icc_self hx)]
    simp only [tanhInverse, half_eq, hlog_eq]
  rw [this, Real.artanh_tanh]

/-- change of variables, pointwise: `|tanh' x| · density(tanh x) = pdf x` -/
theorem squashedDensity_tanh (μ σ : ℝ) (hσ : 0 < σ) (x : ℝ) :
    |1 - Real.tanh x ^ 2| • squashedDensity μ σ (Real.tanh x) = gaussianPdf μ σ x := by
  have hp := one_sub_tanh_sq_pos x
  rw [squashedDensity, tanhInverse_tanh, normalLogProb1_eq μ σ x hσ, fldj_eq_log, Real.exp_sub,
    Real.exp_log (gaussianPdf_pos μ σ x hσ), Real.exp_log hp, abs_of_pos hp, smul_eq_mul]
  field_simp

theorem zipWith3_ofFn {β γ δ ε : Type} (f : β → γ → δ → ε) :
    ∀ {n : ℕ} (a : Fin n → β) (b : Fin n → γ) (c : Fin n → δ),
    zipWith3 f (List.ofFn a) (List.ofFn b) (List.ofFn c) = List.ofFn (fun i => f (a i) (b i) (c i))
  | 0, a, b, c => by simp [zipWith3]
  | n + 1, a, b, c => by
    simp only [List.ofFn_succ, zipWith3]
    rw [zipWith3_ofFn f (fun i => a i.succ) (fun i => b i.succ) (fun i => c i.succ)]

/-- the joint density of the squashed action vector factorises over the action dimensions -/
theorem exp_logProb_ofFn (c : Cfg ℝ) {n : ℕ} (μ s : Fin n → ℝ) (y : Fin n → ℝ) :
    Real.exp (logProb c (List.ofFn μ ++ List.ofFn s) (List.ofFn fun i => tanhInverse (y i)))
      = ∏ i, squashedDensity (μ i) (scaleOf c (s i)) (y i) := by
  have hlen : (List.ofFn s).length = (List.ofFn μ).length := by simp
  simp only [logProb, createDist_append c _ _ hlen, Normal.logProb]
  rw [zipWith_zipWith3_map, zipWith3_map_mid, zipWith3_ofFn, Real.exp_list_sum, List.map_ofFn,
    List.prod_ofFn]
  rfl

end Brax.C20
