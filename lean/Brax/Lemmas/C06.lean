import Brax.Model.C06
import Brax.Lemmas.C04Rest
import Mathlib.Tactic.Ring
import Mathlib.Tactic.Linarith
import Mathlib.Tactic.NormNum
import Mathlib.Tactic.Positivity
import Mathlib.Tactic.FieldSimp
import Mathlib.Tactic.LinearCombination
/-!
# C06 helper lemmas, part 1: the generalized constraint rows and the constraint force

Everything is over an arbitrary ordered field `K` with arbitrary interpretations of the opaque
scalar functions (`HasPow`, …): the masks decide, not the numerics.
-/
set_option linter.unusedSectionVars false
set_option linter.unusedSimpArgs false
set_option linter.unusedVariables false
namespace Brax.C06L
open Brax MC C04L C06

/-- the coordinate `x` lies in the closed range `[lo, hi]`; an absent bound (`none`) is `∓∞` -/
def InRange {K : Type} [LE K] (x : K) (lo hi : Option K) : Prop :=
  (∀ l, lo = some l → l ≤ x) ∧ (∀ h, hi = some h → x ≤ h)

/-- strictly inside `(lo, hi)` (the property's hypothesis) -/
def StrictlyInside {K : Type} [LT K] (x : K) (lo hi : Option K) : Prop :=
  (∀ l, lo = some l → l < x) ∧ (∀ h, hi = some h → x < h)

theorem StrictlyInside.inRange {K : Type} [Preorder K] {x : K} {lo hi : Option K}
    (h : StrictlyInside x lo hi) : InRange x lo hi :=
  ⟨fun l hl => le_of_lt (h.1 l hl), fun u hu => le_of_lt (h.2 u hu)⟩

section lists
variable {K : Type} [Field K]

theorem tab_const_zero (n : Nat) : (tab n fun _ => (0 : K)) = List.replicate n 0 := by
  simp [tab]

theorem sum_zipWith_zero {β γ : Type} (f : β → γ → K) (l : List β) (x : List γ)
    (h : ∀ b ∈ l, ∀ c, f b c = 0) : (List.zipWith f l x).sum = 0 := by
  induction l generalizing x with
  | nil => simp
  | cons b l ih =>
    cases x with
    | nil => simp
    | cons c x =>
      simp only [List.zipWith_cons_cons, List.sum_cons]
      rw [h b (by simp) c, ih x (fun b' hb' => h b' (List.mem_cons_of_mem _ hb')), add_zero]

theorem getD_zero_of_all_zero (r : List K) (j : Nat) (h : ∀ e ∈ r, e = 0) : r.getD j 0 = 0 := by
  rw [List.getD_eq_getElem?_getD]
  cases hj : r[j]? with
  | none => rfl
  | some e => exact h e (List.mem_of_getElem? hj)

end lists

section limit
variable {K : Type} [Field K] [LinearOrder K] [IsStrictOrderedRing K] [HasPow K]

theorem minv_zero_of_nonneg {m : K} (h : 0 ≤ m) : minv m 0 = 0 := by
  unfold minv
  split
  · rfl
  · exact le_antisymm (not_lt.mp ‹_›) h

theorem minv_nonneg {a b : K} (ha : 0 ≤ a) (hb : 0 ≤ b) : 0 ≤ minv a b := by
  unfold minv; split <;> assumption

/-- inside the closed range the limit "position" is `0`: `min(min(q − lo, hi − q), 0) = 0` -/
theorem limitPos_eq_zero {q : K} {lo hi : Option K} (h : InRange q lo hi) : limitPos q lo hi = 0 := by
  obtain ⟨h1, h2⟩ := h
  unfold limitPos posMin posMax
  cases lo with
  | none =>
    cases hi with
    | none => simp [minE]
    | some u =>
      simp only [Option.map, minE]
      exact minv_zero_of_nonneg (sub_nonneg.mpr (h2 u rfl))
  | some l =>
    cases hi with
    | none =>
      simp only [Option.map, minE]
      exact minv_zero_of_nonneg (sub_nonneg.mpr (h1 l rfl))
    | some u =>
      simp only [Option.map, minE]
      exact minv_zero_of_nonneg (minv_nonneg (sub_nonneg.mpr (h1 l rfl)) (sub_nonneg.mpr (h2 u rfl)))

theorem limitSide_eq_zero {q : K} {lo hi : Option K} (h : InRange q lo hi) : limitSide q lo hi = 0 := by
  unfold limitSide
  rw [limitPos_eq_zero h, if_neg (lt_irrefl 0), mul_zero]

/-- one limit row of a dof inside its range: zero jacobian row, `diag = 0`, `aref = 0` -/
theorem limitRow_inactive (nv : Nat) (d : DofP K) (p : SolverParams K) (di : Nat) (q : K)
    (qd : List K) (h : InRange q d.lo d.hi) :
    limitRow nv d p di q qd = (List.replicate nv 0, 0, 0) := by
  unfold limitRow
  simp only [limitPos_eq_zero h, limitSide_eq_zero h, mul_zero, if_neg (lt_irrefl (0 : K)),
    zero_mul, zero_div, tab_const_zero]

/-- conversely, beyond the upper limit the row is active with `pos = hi − q < 0` -/
theorem limitPos_above {q u : K} {lo : Option K} (h : u < q) (hlo : ∀ l, lo = some l → l ≤ q) :
    limitPos q lo (some u) = u - q := by
  have hneg : u - q < 0 := sub_neg.mpr h
  unfold limitPos posMin posMax
  cases lo with
  | none =>
    simp only [Option.map, minE]
    unfold minv; rw [if_neg (not_lt.mpr (le_of_lt hneg))]
  | some l =>
    simp only [Option.map, minE]
    have h0 : 0 ≤ q - l := sub_nonneg.mpr (hlo l rfl)
    have : minv (q - l) (u - q) = u - q := by
      unfold minv; rw [if_pos (lt_of_lt_of_le hneg h0)]
    rw [this]; unfold minv; rw [if_neg (not_lt.mpr (le_of_lt hneg))]

end limit

section contact
variable {K : Type} [Field K] [LinearOrder K] [IsStrictOrderedRing K] [HasPow K]

/-- a contact candidate that does not penetrate (`¬ dist < 0`, i.e. `dist ≥ 0`) contributes four
zero rows: zero jacobian, zero `diag`, zero `aref` -/
theorem contactRows_inactive (invw qd : List K) (diff : List (V3 K)) (c : GContact K)
    (h : ¬ c.dist < 0) :
    ∀ r ∈ contactRows invw qd diff c, (∀ e ∈ r.1, e = 0) ∧ r.2.1 = 0 ∧ r.2.2 = 0 := by
  intro r hr
  unfold contactRows at hr
  simp only [if_neg h, mul_zero, List.mem_map] at hr
  obtain ⟨dir, _, rfl⟩ := hr
  refine ⟨?_, rfl, rfl⟩
  intro e he
  simp only [List.map_map, List.mem_map, Function.comp] at he
  obtain ⟨_, _, rfl⟩ := he
  rfl

end contact

section force
variable {K : Type} [Field K]

/-- `Jᵀ x = 0` when every entry of `J` is zero — for WHATEVER `x` is -/
theorem jacTx_zero (nv : Nat) (jac : List (List K)) (x : List K)
    (h : ∀ row ∈ jac, ∀ e ∈ row, e = 0) : jacTx nv jac x = List.replicate nv 0 := by
  unfold jacTx
  rw [← tab_const_zero]
  apply tab_congr
  intro j _
  apply sum_zipWith_zero
  intro r hr c
  rw [getD_zero_of_all_zero r j (h r hr), zero_mul]

theorem force_zero (solver : List (List K) → List K → List K) (nv : Nat) (jac : List (List K))
    (diag aref : List K) (minv : List (List K)) (qfs : List K)
    (h : ∀ row ∈ jac, ∀ e ∈ row, e = 0) :
    force solver nv jac diag aref minv qfs = List.replicate nv 0 := by
  unfold force
  split
  · rfl
  · exact jacTx_zero nv jac _ h

end force

section rows
variable {K : Type} [Field K] [LinearOrder K] [IsStrictOrderedRing K] [HasPow K]

/-- dof `i` of the system as `jac_limit` reads it -/
def dofAt (s : Sys K) (i : Nat) : DofP K := s.dofs.getD i ⟨⟨0, 0⟩, 0, 0, 0, none, none, 0⟩

/-- every limited coordinate lies in its (closed) range -/
def AllInRange (s : Sys K) (q : List K) : Prop :=
  ∀ ix ∈ limitIdx s.types, InRange (nthS q ix.1) (dofAt s ix.2).lo (dofAt s ix.2).hi

/-- a block of constraint rows `(jac, diag, aref)` that is identically zero -/
def RowsZero (nv : Nat) (r : List (List K) × List K × List K) : Prop :=
  (∀ row ∈ r.1, row = List.replicate nv 0) ∧ (∀ d ∈ r.2.1, d = 0) ∧ (∀ a ∈ r.2.2, a = 0)

theorem jacLimit_inactive (s : Sys K) (sp : List (SolverParams K)) (q qd : List K)
    (h : AllInRange s q) : RowsZero s.nv (jacLimit s sp q qd) := by
  unfold jacLimit
  split
  · exact ⟨by simp, by simp, by simp⟩
  · simp only [RowsZero, List.map_map, List.mem_map, Function.comp]
    refine ⟨?_, ?_, ?_⟩
    · rintro row ⟨ix, hix, rfl⟩
      have := limitRow_inactive s.nv (dofAt s ix.2) (nth sp ix.2) ix.2 (nthS q ix.1) qd (h ix hix)
      unfold dofAt at this; rw [this]
    · rintro d ⟨ix, hix, rfl⟩
      have := limitRow_inactive s.nv (dofAt s ix.2) (nth sp ix.2) ix.2 (nthS q ix.1) qd (h ix hix)
      unfold dofAt at this; rw [this]
    · rintro a ⟨ix, hix, rfl⟩
      have := limitRow_inactive s.nv (dofAt s ix.2) (nth sp ix.2) ix.2 (nthS q ix.1) qd (h ix hix)
      unfold dofAt at this; rw [this]

/-- the jacobian rows of a contact block have one entry per dof -/
theorem jacContact_inactive (s : Sys K) (com : List (V3 K)) (cdof : List (Motion K)) (qd : List K)
    (cs : List (GContact K)) (h : ∀ c ∈ cs, ¬ c.dist < 0) :
    (∀ row ∈ (jacContact s com cdof qd cs).1, ∀ e ∈ row, e = 0)
    ∧ (∀ d ∈ (jacContact s com cdof qd cs).2.1, d = 0)
    ∧ (∀ a ∈ (jacContact s com cdof qd cs).2.2, a = 0) := by
  unfold jacContact
  simp only [List.mem_map, List.mem_flatMap]
  refine ⟨?_, ?_, ?_⟩
  · rintro row ⟨r, ⟨c, hc, hr⟩, rfl⟩
    exact (contactRows_inactive _ _ _ c (h c hc) r hr).1
  · rintro d ⟨r, ⟨c, hc, hr⟩, rfl⟩
    exact (contactRows_inactive _ _ _ c (h c hc) r hr).2.1
  · rintro a ⟨r, ⟨c, hc, hr⟩, rfl⟩
    exact (contactRows_inactive _ _ _ c (h c hc) r hr).2.2

theorem mem_replicate_zero {n : Nat} {row : List K} (h : row = List.replicate n 0) :
    ∀ e ∈ row, e = 0 := by
  intro e he; rw [h] at he; exact (List.mem_replicate.mp he).2

/-- all limits unreached and all contacts separated: every row of `con_jac` is zero -/
theorem jacobian_inactive (s : Sys K) (sp : List (SolverParams K)) (com : List (V3 K))
    (cdof : List (Motion K)) (q qd : List K) (cs : List (GContact K))
    (hl : AllInRange s q) (hc : ∀ c ∈ cs, ¬ c.dist < 0) :
    ∀ row ∈ (jacobian s sp com cdof q qd cs).1, ∀ e ∈ row, e = 0 := by
  unfold jacobian
  intro row hrow
  simp only [List.mem_append] at hrow
  rcases hrow with h1 | h1
  · exact (jacContact_inactive s com cdof qd cs hc).1 row h1
  · exact mem_replicate_zero ((jacLimit_inactive s sp q qd hl).1 row h1)

end rows

section pyramid
variable {K : Type} [Field K] [LinearOrder K] [IsStrictOrderedRing K]

/-- every pyramid direction `±f·t + n` has normal component `1` when `frame` is orthonormal in
its first row -/
theorem contactDirs_dot_normal (c : GContact K) (hn : V3.dot c.frame.r0 c.frame.r0 = 1)
    (h1 : V3.dot c.frame.r0 c.frame.r1 = 0) (h2 : V3.dot c.frame.r0 c.frame.r2 = 0) :
    ∀ d ∈ contactDirs c, V3.dot c.frame.r0 d = 1 := by
  intro d hd
  simp only [contactDirs, List.mem_cons, List.mem_nil_iff, or_false] at hd
  simp only [V3.dot] at hn h1 h2
  rcases hd with rfl | rfl | rfl | rfl <;> simp only [V3.dot, V3.neg_def]
  · linear_combination hn + c.friction * h1
  · linear_combination hn - c.friction * h1
  · linear_combination hn + c.friction * h2
  · linear_combination hn - c.friction * h2

/-- the contact force `F = Σ_k x_k · dir_k` that four multipliers put on the second body -/
def pyramidForce (c : GContact K) (x : List K) : V3 K :=
  (List.zipWith (fun xk d => V3.smul xk d) x (contactDirs c)).sum

theorem dot_sum_smul (n : V3 K) (x : List K) (ds : List (V3 K)) (h : ∀ d ∈ ds, V3.dot n d = 1)
    (hlen : x.length = ds.length) :
    V3.dot n (List.zipWith (fun xk d => V3.smul xk d) x ds).sum = x.sum := by
  induction x generalizing ds with
  | nil => simp [V3.dot]
  | cons a x ih =>
    cases ds with
    | nil => simp at hlen
    | cons d ds =>
      simp only [List.zipWith_cons_cons, List.sum_cons]
      have hd := h d (by simp)
      have ih' := ih ds (fun d' hd' => h d' (List.mem_cons_of_mem _ hd')) (by simpa using hlen)
      have hadd : ∀ u v : V3 K, V3.dot n (u + v) = V3.dot n u + V3.dot n v := by
        intro u v; simp only [V3.dot, V3.add_def]; ring
      have hsm : V3.dot n (V3.smul a d) = a * V3.dot n d := by
        simp only [V3.dot, V3.smul]; ring
      rw [hadd, hsm, hd, ih', mul_one]

theorem list_sum_nonneg (x : List K) (h : ∀ v ∈ x, 0 ≤ v) : 0 ≤ x.sum := by
  induction x with
  | nil => simp
  | cons a x ih =>
    rw [List.sum_cons]
    exact add_nonneg (h a (by simp)) (ih fun v hv => h v (List.mem_cons_of_mem _ hv))

end pyramid

section contactForce
variable {K : Type} [Field K] [LinearOrder K] [IsStrictOrderedRing K] [HasPow K]

theorem getD_map_mul_one (diff : List (V3 K)) (dir : V3 K) (j : Nat) (hj : j < diff.length) :
    ((diff.map fun dj => V3.dot dj dir).map (· * (1 : K))).getD j 0 = V3.dot diff[j] dir := by
  rw [List.getD_eq_getElem?_getD]
  simp [hj]

/-- **the generalized contact force is `Jᵀx = (∂p/∂q̇)ᵀ F`** with `F = Σ_k x_k·dir_k` the pyramid
force: entry `j` of `con_jac.T @ x` restricted to the four rows of a penetrating contact is
`diff_j · F` (`diff_j` = relative point velocity of the two bodies per unit `q̇_j`) -/
theorem contact_jacTx (invw qd : List K) (diff : List (V3 K)) (c : GContact K) (x0 x1 x2 x3 : K)
    (hd : c.dist < 0) :
    jacTx diff.length ((contactRows invw qd diff c).map (·.1)) [x0, x1, x2, x3]
      = tab diff.length fun j => V3.dot (diff.getD j ⟨0, 0, 0⟩) (pyramidForce c [x0, x1, x2, x3]) := by
  unfold jacTx
  apply tab_congr
  intro j hj
  unfold contactRows pyramidForce
  simp only [hd, if_true, contactDirs, List.map_cons, List.map_nil, List.zipWith_cons_cons,
    List.zipWith_nil_right, List.sum_cons, List.sum_nil, getD_map_mul_one _ _ _ hj]
  rw [List.getD_eq_getElem?_getD, List.getElem?_eq_getElem hj, Option.getD_some]
  simp only [V3.dot, V3.smul, V3.add_def, V3.neg_def, v3_zero_x, v3_zero_y, v3_zero_z]
  ring

end contactForce

end Brax.C06L
