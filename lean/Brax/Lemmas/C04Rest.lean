import Brax.Lemmas.C04Pos
import Brax.Lemmas.Real
import Mathlib.Tactic.GCongr
/-!
# C04 helper lemmas, part 4: a system at rest stays at rest (spring and positional pipelines)

`spring_rest_of_zero_jointForces`, `positional_rest_of_zero_displacements`: if the joint-frame
forces (resp. the joint position corrections) vanish, one step without gravity, control and
contact returns the state it was given.  `oneDof_rest_hinge`, `oneDof_rest_slide`: the spring
joint force of a 1-dof link in a pure joint configuration inside its limits is zero.
-/
set_option linter.unusedSectionVars false
set_option linter.unusedSimpArgs false
set_option linter.unusedVariables false
namespace Brax.C04L
open Brax MC

section algebra
variable {K : Type} [Field K]

theorem motion_zero_eq : (0 : Motion K) = ⟨0, 0⟩ := rfl
theorem force_zero_eq : (0 : Force K) = ⟨0, 0⟩ := rfl

theorem cross_zero_right (p : V3 K) : V3.cross p (0 : V3 K) = 0 := by
  simp only [V3.cross, v3_zero_x, v3_zero_y, v3_zero_z, mul_zero, sub_zero]; rfl
theorem cross_zero_left (p : V3 K) : V3.cross (0 : V3 K) p = 0 := by
  simp only [V3.cross, v3_zero_x, v3_zero_y, v3_zero_z, zero_mul, sub_zero]; rfl
theorem rotate_zero' (q : Q4 K) : rotate (0 : V3 K) q = 0 := rotate_zero q
theorem mulVec_zero (m : M3 K) : M3.mulVec m (0 : V3 K) = 0 := by
  simp only [M3.mulVec, V3.dot, v3_zero_x, v3_zero_y, v3_zero_z, mul_zero, add_zero]; rfl
theorem v3_add_zero (a : V3 K) : a + (0 : V3 K) = a := V3.add_zero' a
theorem v3_zero_add (a : V3 K) : (0 : V3 K) + a = a := V3.zero_add' a
theorem v3_sub_zero (a : V3 K) : a - (0 : V3 K) = a := by
  cases a; simp only [V3.sub_def, v3_zero_x, v3_zero_y, v3_zero_z, sub_zero]
theorem v3_neg_zero' : -(0 : V3 K) = 0 := by
  show (⟨-0, -0, -0⟩ : V3 K) = ⟨0, 0, 0⟩; simp

theorem smul_zero_lit (s : K) : V3.smul s (⟨0, 0, 0⟩ : V3 K) = ⟨0, 0, 0⟩ := by
  simp only [V3.smul, mul_zero]

theorem doForce_zero (t : Tf K) : Tf.doForce t (⟨0, 0⟩ : Force K) = ⟨0, 0⟩ := by
  simp only [Tf.doForce, rotate_zero', cross_zero_right, v3_add_zero]

theorem doMotion_zero (t : Tf K) : Tf.doMotion t (⟨0, 0⟩ : Motion K) = ⟨0, 0⟩ := by
  simp only [Tf.doMotion, rotate_zero', cross_zero_right, v3_sub_zero]

theorem force_sub_zero : ((⟨0, 0⟩ : Force K) - (0 : Force K)) = ⟨0, 0⟩ := by
  rw [force_zero_eq, Force.sub_def, v3_sub_zero]

theorem segAt_zero {M : Type} [AddCommMonoid M] (l : List (M × Int)) (k : Nat)
    (h : ∀ p ∈ l, p.1 = 0) : segAt l k = 0 := by
  induction l with
  | nil => exact segAt_nil k
  | cons p l ih =>
    rw [segAt_cons, ih (fun q hq => h q (List.mem_cons_of_mem _ hq)), h p (by simp)]
    simp

/-- the assembly of a vanishing joint-frame force vanishes -/
theorem assemble_zero (parents : List Int) (a_p a_c x_i : List (Tf K)) (jf : List (Force K))
    (h : ∀ i, i < parents.length → nth jf i = ⟨0, 0⟩) {i : Nat} (hi : i < parents.length) :
    nth (Spring.assemble parents a_p a_c x_i jf) i = ⟨0, 0⟩ := by
  unfold Spring.assemble
  simp only []
  rw [nth_tab _ hi, nth_segmentSum_eq _ _ hi, segAt_zero, h i hi]
  · simp only [Spring.worldForce, doForce_zero]; exact force_sub_zero
  · intro p hp
    have hp1 := (List.of_mem_zip hp).1
    simp only [tab, List.mem_map, List.mem_range] at hp1
    obtain ⟨k, hk, hk2⟩ := hp1
    rw [← hk2, h k hk]
    simp only [Spring.worldForce, doForce_zero]; rfl

theorem toWorld_fromWorld_pos (x : Tf K) (com : V3 K) :
    Tf.doTf (Tf.doTf x (tfPos com)) (tfPos (-com)) = x := by
  cases x
  simp only [Tf.doTf, tfPos, quatMul_one, rotate_neg]
  congr 1
  simp only [V3.add_def, V3.neg_def]; congr 1 <;> ring

end algebra

section springRest
variable {K : Type} [Field K] [LinearOrder K] [IsStrictOrderedRing K]
  [HasSqrt K] [HasTrig K] [HasExp K] [HasPow K] [HasF32 K]

/-- the derived fields of a spring state are what `pipeline.init` / `pipeline.step` compute from
`x`, `xd` -/
structure SpringConsistent (inv : List (Tf K) → List (Motion K) → List K × List K) (s : Sys K)
    (st : Spring.State K) : Prop where
  hx : st.x.length = s.numLinks
  hxd : st.xd.length = s.numLinks
  hcom : Com.fromWorld s st.x st.xd = (st.x_i, st.xd_i)
  hj : (Kin.worldToJoint s st.x st.xd).map (·.1) = st.j
  hjd : (Kin.worldToJoint s st.x st.xd).map (·.2.1) = st.jd
  hap : (Kin.worldToJoint s st.x st.xd).map (·.2.2.1) = st.a_p
  hac : (Kin.worldToJoint s st.x st.xd).map (·.2.2.2) = st.a_c
  hinv : inv st.j st.jd = (st.q, st.qd)
  hiinv : st.i_inv = Com.invInertia s st.x

/-- no gravity, no actuators, and the square root of one is one -/
structure Quiet (s : Sys K) : Prop where
  hg : s.gravity = 0
  hacts : s.acts = []
  hsqrt : HasSqrt.sqrt (1 : K) = 1
  hpar : s.parents.length = s.numLinks

theorem toTau_noacts (s : Sys K) (h : s.acts = []) (act q qd : List K) :
    toTau s act q qd = List.replicate s.nv 0 := by
  unfold toTau; simp [h]

theorem integrateLink_rest (s : Sys K) (x_i : Tf K) (hs : HasSqrt.sqrt (1 : K) = 1)
    (hu : Q4.normSq x_i.rot = 1) :
    Spring.integrateLink s x_i (⟨0, 0⟩ : Motion K) ⟨0, 0⟩ = (x_i, ⟨0, 0⟩) := by
  obtain ⟨⟨p1, p2, p3⟩, ⟨w, x, y, z⟩⟩ := x_i
  have hu' : w * w + x * x + y * y + z * z = 1 := hu
  simp only [Spring.integrateLink, angToQuat, quatMul, q4_add_def, V3.smul, V3.add_def, v3_zero_x,
    v3_zero_y, v3_zero_z, mul_zero, zero_mul, add_zero, sub_zero, hu', hs, div_one]
  rfl

/-- **spring pipeline, rest case.**  A consistent state with zero velocities and unit link
quaternions, in a system without gravity, actuators and contact, whose joint-frame forces all
vanish, is returned unchanged by `pipeline.step`. -/
theorem spring_rest_of_zero_jointForces (inv : List (Tf K) → List (Motion K) → List K × List K)
    (cf : List (Tf K) → List (Contact K)) (s : Sys K) (st : Spring.State K) (act : List K)
    (hc : SpringConsistent inv s st) (hq : Quiet s)
    (hrest : ∀ i, i < s.numLinks → nth st.xd i = ⟨0, 0⟩)
    (hunit : ∀ i, i < s.numLinks → Q4.normSq (nth st.x i).rot = 1)
    (hcf : cf st.x = [])
    (hjf : ∀ i, i < s.numLinks →
      nth (Spring.jointForces s st.j st.jd (List.replicate s.nv 0)) i = ⟨0, 0⟩) :
    Spring.step inv cf s st act = st := by
  -- the centre-of-mass fields
  have hxi : st.x_i = tab s.numLinks fun i => Tf.doTf (nth st.x i) (tfPos (nth s.links i).inertia.tf.pos) := by
    have := hc.hcom; simp only [Com.fromWorld] at this; exact (Prod.mk.inj this).1.symm
  have hxdi : st.xd_i = tab s.numLinks fun _ => (⟨0, 0⟩ : Motion K) := by
    have := hc.hcom; simp only [Com.fromWorld] at this
    rw [← (Prod.mk.inj this).2]
    apply tab_congr
    intro i hi
    simp only [hrest i hi, doMotion_zero]
  -- forces vanish
  have hxf : ∀ i, i < s.numLinks →
      nth (Spring.resolve s { st with i_inv := Com.invInertia s st.x }
        (toTau s act st.q st.qd)) i = ⟨0, 0⟩ := by
    intro i hi
    unfold Spring.resolve
    rw [toTau_noacts s hq.hacts]
    exact assemble_zero _ _ _ _ _ (by rw [hq.hpar]; exact hjf) (by rw [hq.hpar]; exact hi)
  have hacc : Spring.accelerate s (Com.invInertia s st.x) st.mass st.xd_i
      (Spring.resolve s { st with i_inv := Com.invInertia s st.x } (toTau s act st.q st.qd))
      = st.xd_i := by
    conv_rhs => rw [hxdi]
    unfold Spring.accelerate
    apply tab_congr
    intro i hi
    rw [hxf i hi, hxdi, nth_tab _ hi, hq.hg]
    simp only [mulVec_zero, v3_zero_add, v3_zero_x, v3_zero_y, v3_zero_z, zero_div, smul_zero',
      smul_zero_lit, Motion.add_def, v3_add_zero]
    rfl
  have hcol : Spring.collide s { st with i_inv := Com.invInertia s st.x, xd_i := st.xd_i } [] =
      tab s.numLinks fun _ => (⟨0, 0⟩ : Motion K) := by
    simp [Spring.collide]
  have hint : Spring.integrate s st.x_i st.xd_i (tab s.numLinks fun _ => (⟨0, 0⟩ : Motion K))
      = (st.x_i, st.xd_i) := by
    unfold Spring.integrate
    simp only []
    have hrow : ∀ i, i < s.numLinks →
        Spring.integrateLink s (nth st.x_i i) (nth st.xd_i i)
          (nth (tab s.numLinks fun _ => (⟨0, 0⟩ : Motion K)) i) = (nth st.x_i i, ⟨0, 0⟩) := by
      intro i hi
      rw [nth_tab _ hi]
      have : nth st.xd_i i = ⟨0, 0⟩ := by rw [hxdi, nth_tab _ hi]
      rw [this]
      apply integrateLink_rest s _ hq.hsqrt
      rw [hxi, nth_tab _ hi]
      simp only [Tf.doTf, tfPos, quatMul_one]
      exact hunit i hi
    congr 1
    · conv_rhs => rw [eq_tab_of_length (show st.x_i.length = s.numLinks by rw [hxi, tab_length])]
      apply tab_congr; intro i hi; rw [hrow i hi]
    · conv_rhs => rw [hxdi]
      apply tab_congr; intro i hi; rw [hrow i hi]
  have htw : Com.toWorld s st.x_i st.xd_i = (st.x, st.xd) := by
    unfold Com.toWorld
    simp only []
    congr 1
    · conv_rhs => rw [eq_tab_of_length hc.hx]
      apply tab_congr; intro i hi
      rw [hxi, nth_tab _ hi, toWorld_fromWorld_pos]
    · conv_rhs => rw [eq_tab_of_length hc.hxd]
      apply tab_congr; intro i hi
      rw [hxdi, nth_tab _ hi, doMotion_zero, hrest i hi]
  -- put the step together
  unfold Spring.step
  simp only [hacc, hcf, hcol, hint, htw, hc.hj, hc.hjd, hc.hap, hc.hac, hc.hinv]
  cases st
  simp only [Spring.State.mk.injEq, true_and, and_true]
  exact hc.hiinv.symm

/-! ### the joint-frame force of a 1-dof link in a pure joint configuration -/

theorem maskV_false (v : V3 K) : maskV false v = ⟨0, 0, 0⟩ := rfl
theorem maskV_true (v : V3 K) : maskV true v = v := rfl

/-- **hinge at rest**: no translational axis, the child anchor on the parent anchor (`j.pos = 0`),
the child's copy of the hinge axis parallel to the parent's (`axis × R(j.rot) axis = 0`), no
joint-frame velocity, no torque, and the extracted angle inside the limits ⇒ `_one_dof` returns
the zero force. -/
theorem oneDof_rest_hinge (hasLimit : Bool) (lk : LinkP K) (j : Tf K) (d : DofP K)
    (hvel : v3Any d.motion.vel = false) (hpos : j.pos = ⟨0, 0, 0⟩)
    (haxis : V3.cross (frame1 d.motion).ang.r0 (rotate (frame1 d.motion).ang.r0 j.rot) = ⟨0, 0, 0⟩)
    (hlim : hasLimit = true →
      Spring.limDelta (axisAngleAng j (frame1 d.motion).ang (frame1 d.motion).parity).psi d.lo d.hi = 0) :
    Spring.oneDof hasLimit lk j ⟨⟨0, 0, 0⟩, ⟨0, 0, 0⟩⟩ d 0 = ⟨⟨0, 0, 0⟩, ⟨0, 0, 0⟩⟩ := by
  unfold Spring.oneDof
  simp only [hvel, hpos, haxis, Bool.false_and, maskV_false, Bool.not_false, maskV_true]
  cases hR : v3Any d.motion.ang <;> cases hL : hasLimit
  all_goals simp only [maskV_false, maskV_true, Bool.false_eq_true, if_false, if_true, hlim, hL]
  all_goals (try simp [V3.smul, V3.neg_def, V3.sub_def, V3.add_def])
  all_goals (try rfl)

/-- **slide at rest**: unit slide axis `a`, no rotational axis, `j.pos = c·a`, `j.rot = 1`, no
joint-frame velocity, no force, and the coordinate inside the limits ⇒ `_one_dof` returns zero. -/
theorem oneDof_rest_slide (hasLimit : Bool) (lk : LinkP K) (j : Tf K) (d : DofP K) (c : K)
    (hvel : v3Any d.motion.vel = true) (hang : v3Any d.motion.ang = false)
    (hunit : V3.dot d.motion.vel d.motion.vel = 1)
    (hpos : j.pos = V3.smul c d.motion.vel) (hrot : j.rot = Q4.one)
    (hlim : hasLimit = true → Spring.limDelta (V3.dot j.pos d.motion.vel) d.lo d.hi = 0) :
    Spring.oneDof hasLimit lk j ⟨⟨0, 0, 0⟩, ⟨0, 0, 0⟩⟩ d 0 = ⟨⟨0, 0, 0⟩, ⟨0, 0, 0⟩⟩ := by
  have hfv : (frame1 d.motion).vel.r0 = d.motion.vel := by simp [frame1, hvel]
  have hfa0 : (frame1 d.motion).ang.r0 = ⟨1, 0, 0⟩ := by simp [frame1, hang, eye]
  have hfa1 : (frame1 d.motion).ang.r1 = ⟨0, 1, 0⟩ := by simp [frame1, hang, eye]
  rcases hm : d.motion.vel with ⟨a1, a2, a3⟩
  have hu : a1 * a1 + a2 * a2 + a3 * a3 = 1 := by rw [hm] at hunit; exact hunit
  have hvel' : v3Any (⟨a1, a2, a3⟩ : V3 K) = true := by rw [← hm]; exact hvel
  unfold Spring.oneDof
  simp only [hvel, hvel', hang, hfv, hfa0, hfa1, hpos, hrot, hm, rotate_one, Bool.true_and, Bool.not_false,
    Bool.not_true, maskV_true, maskV_false]
  cases hL : hasLimit
  · simp only [Bool.false_eq_true, if_false]
    simp only [V3.smul, V3.neg_def, V3.sub_def, V3.add_def, V3.dot, V3.cross, Force.mk.injEq, V3.mk.injEq]
    refine ⟨⟨by ring, by ring, by ring⟩, ?_, ?_, ?_⟩
    · linear_combination (lk.cStiffness * c * a1) * hu
    · linear_combination (lk.cStiffness * c * a2) * hu
    · linear_combination (lk.cStiffness * c * a3) * hu
  · have hl := hlim hL
    rw [hpos, hm] at hl
    simp only [if_true, hl]
    simp only [V3.smul, V3.neg_def, V3.sub_def, V3.add_def, V3.dot, V3.cross, Force.mk.injEq, V3.mk.injEq]
    refine ⟨⟨by ring, by ring, by ring⟩, ?_, ?_, ?_⟩
    · linear_combination (lk.cStiffness * c * a1) * hu
    · linear_combination (lk.cStiffness * c * a2) * hu
    · linear_combination (lk.cStiffness * c * a3) * hu

end springRest

/-! ## positional pipeline -/
section posRest
variable {K : Type} [Field K] [LinearOrder K] [IsStrictOrderedRing K]
  [HasSqrt K] [HasTrig K] [HasExp K] [HasPow K] [HasF32 K]

theorem not_allClose0_unit (q : Q4 K) (h : Q4.normSq q = 1) : allClose0 [q.w, q.x, q.y, q.z] = false := by
  by_contra hc
  rw [Bool.not_eq_false] at hc
  simp only [allClose0, List.all_cons, List.all_nil, Bool.and_true, Bool.and_eq_true, decide_eq_true_eq,
    absv_eq_abs] at hc
  obtain ⟨hw, hx, hy, hz⟩ := hc
  have h' : q.w * q.w + q.x * q.x + q.y * q.y + q.z * q.z = 1 := h
  have sq : ∀ a : K, |a| ≤ 1e-8 → a * a ≤ 1e-16 := by
    intro a ha
    have h0 := abs_nonneg a
    have := abs_mul_abs_self a
    have h2 : |a| * |a| ≤ 1e-8 * 1e-8 := mul_le_mul ha ha h0 (by norm_num)
    rw [this] at h2
    calc a * a ≤ 1e-8 * 1e-8 := h2
      _ = 1e-16 := by norm_num
  have := sq _ hw; have := sq _ hx; have := sq _ hy; have := sq _ hz
  have : (1 : K) ≤ 4e-16 := by
    calc (1 : K) = q.w * q.w + q.x * q.x + q.y * q.y + q.z * q.z := h'.symm
      _ ≤ 1e-16 + 1e-16 + 1e-16 + 1e-16 := by gcongr
      _ = 4e-16 := by norm_num
  norm_num at this

/-- `normalize` leaves a unit quaternion unchanged when `sqrt 1 = 1` -/
theorem normalize4_unit' (q : Q4 K) (hs : HasSqrt.sqrt (1 : K) = 1) (h : Q4.normSq q = 1) :
    normalize4 q = q := by
  have h' : q.w * q.w + q.x * q.x + q.y * q.y + q.z * q.z = 1 := h
  have e1 : eqZero (1 : K) = false := by
    rw [Bool.eq_false_iff]; intro hc; rw [eqZero_iff] at hc; exact one_ne_zero hc
  have hn : safeNorm4 q = 1 := by
    simp only [safeNorm4, safeNormL, not_allClose0_unit q h, Bool.false_eq_true, if_false, List.foldl]
    rw [show (0 : K) + q.w * q.w + q.x * q.x + q.y * q.y + q.z * q.z = 1 by rw [← h']; ring]
    exact hs
  cases q
  simp only [normalize4, hn, e1, Bool.false_eq_true, if_false, div_one]

/-- the derived fields of a positional state are what `pipeline.init` / `step` compute -/
structure PosConsistent (inv : List (Tf K) → List (Motion K) → List K × List K) (s : Sys K)
    (st : Positional.State K) : Prop where
  hx : st.x.length = s.numLinks
  hxd : st.xd.length = s.numLinks
  hcom : Com.fromWorld s st.x st.xd = (st.x_i, st.xd_i)
  hj : (Kin.worldToJoint s st.x st.xd).map (·.1) = st.j
  hjd : (Kin.worldToJoint s st.x st.xd).map (·.2.1) = st.jd
  hap : (Kin.worldToJoint s st.x st.xd).map (·.2.2.1) = st.a_p
  hac : (Kin.worldToJoint s st.x st.xd).map (·.2.2.2) = st.a_c
  hinv : inv st.j st.jd = (st.q, st.qd)

theorem dtf_zero_eq : (0 : Positional.DTf K) = ⟨0, 0⟩ := rfl
theorem q4_zero_eq : (0 : Q4 K) = ⟨0, 0, 0, 0⟩ := rfl

theorem vecQuatMul_zero (q : Q4 K) : vecQuatMul (0 : V3 K) q = 0 := by
  simp only [vecQuatMul, v3_zero_x, v3_zero_y, v3_zero_z, neg_zero, zero_mul, sub_zero, add_zero]; rfl

theorem halfVq_zero (c : K) (q : Q4 K) : Positional.halfVq c (0 : V3 K) q = 0 := by
  simp only [Positional.halfVq, vecQuatMul_zero, Q4.smul, q4_zero_eq, mul_zero]

theorem translationUpdate_zero (a_p xi_p : Tf K) (iInvP : M3 K) (massInvP : K) (a_c xi_c : Tf K)
    (iInvC : M3 K) (massInvC : K) :
    Positional.translationUpdate a_p xi_p iInvP massInvP a_c xi_c iInvC massInvC (0 : V3 K) = (0, 0) := by
  simp only [Positional.translationUpdate, normalize3_zero, smul_zero', cross_zero_right, mulVec_zero,
    halfVq_zero, v3_neg_zero']
  rfl

theorem rotationUpdate_zero (xi_p : Tf K) (iInvP : M3 K) (xi_c : Tf K) (iInvC : M3 K) :
    Positional.rotationUpdate xi_p iInvP xi_c iInvC (0 : V3 K) = (0, 0) := by
  simp only [Positional.rotationUpdate, normalize3_zero, smul_zero', mulVec_zero, halfVq_zero]
  rfl

theorem dtf_smul_zero (c : K) : Positional.DTf.smul c (0 : Positional.DTf K) = 0 := by
  simp only [Positional.DTf.smul, dtf_zero_eq, v3_zero_x, v3_zero_y, v3_zero_z, q4_zero_eq, zero_mul]
  rfl

theorem addDelta_zero (t : Tf K) : Positional.addDelta t (0 : Positional.DTf K) = t := by
  obtain ⟨⟨a, b, c⟩, ⟨w, x, y, z⟩⟩ := t
  simp only [Positional.addDelta, dtf_zero_eq, V3.add_def, v3_zero_x, v3_zero_y, v3_zero_z, add_zero,
    q4_add_def, q4_zero_eq]

/-- the assembly of a vanishing correction leaves the positions where they are -/
theorem positionAssemble_zero (parents : List Int) (jsp jsa : K) (a_p a_c x_i : List (Tf K))
    (iInv : List (M3 K)) (massInv : List K) (dw : List (V3 K × V3 K))
    (hlen : x_i.length = parents.length)
    (h : ∀ i, i < parents.length → nth dw i = (0, 0)) :
    Positional.positionAssemble parents jsp jsa a_p a_c x_i iInv massInv dw = x_i := by
  unfold Positional.positionAssemble
  simp only []
  conv_rhs => rw [eq_tab_of_length hlen]
  apply tab_congr
  intro i hi
  have hupd : ∀ k, k < parents.length →
      (Positional.DTf.smul jsp (Positional.translationUpdate (nth a_p k)
          (Kin.takeParent x_i default (parents.getD k (-1)))
          (maskM (decide (-1 < parents.getD k (-1))) (takeWrap iInv (parents.getD k (-1))))
          (maskS (decide (-1 < parents.getD k (-1)))
            (massInv.getD (parents.getD k (-1) % (massInv.length : Int)).toNat 0))
          (nth a_c k) (nth x_i k) (nth iInv k) (nthS massInv k) (-(nth dw k).1)).1
        + Positional.DTf.smul jsa (Positional.rotationUpdate
          (Kin.takeParent x_i default (parents.getD k (-1)))
          (maskM (decide (-1 < parents.getD k (-1))) (takeWrap iInv (parents.getD k (-1))))
          (nth x_i k) (nth iInv k) (nth dw k).2).1,
       Positional.DTf.smul jsp (Positional.translationUpdate (nth a_p k)
          (Kin.takeParent x_i default (parents.getD k (-1)))
          (maskM (decide (-1 < parents.getD k (-1))) (takeWrap iInv (parents.getD k (-1))))
          (maskS (decide (-1 < parents.getD k (-1)))
            (massInv.getD (parents.getD k (-1) % (massInv.length : Int)).toNat 0))
          (nth a_c k) (nth x_i k) (nth iInv k) (nthS massInv k) (-(nth dw k).1)).2
        + Positional.DTf.smul jsa (Positional.rotationUpdate
          (Kin.takeParent x_i default (parents.getD k (-1)))
          (maskM (decide (-1 < parents.getD k (-1))) (takeWrap iInv (parents.getD k (-1))))
          (nth x_i k) (nth iInv k) (nth dw k).2).2) = ((0 : Positional.DTf K), (0 : Positional.DTf K)) := by
    intro k hk
    rw [h k hk]
    simp only [v3_neg_zero', translationUpdate_zero, rotationUpdate_zero, dtf_smul_zero, dtf_add_zero]
  rw [nth_segmentSum_eq _ _ hi, segAt_zero]
  · rw [(Prod.mk.inj (hupd i hi)).2, addDelta_zero, addDelta_zero]
  · intro p hp
    have hp1 := (List.of_mem_zip hp).1
    simp only [tab, List.mem_map, List.mem_range] at hp1
    obtain ⟨k, hk, hk2⟩ := hp1
    rw [← hk2]
    exact (Prod.mk.inj (hupd k hk)).1

theorem integrateXddLink_rest (s : Sys K) (x : Tf K) (hs : HasSqrt.sqrt (1 : K) = 1)
    (hu : Q4.normSq x.rot = 1) :
    Positional.integrateXddLink s x (⟨0, 0⟩ : Motion K) ⟨0, 0⟩ = (x, ⟨0, 0⟩) := by
  obtain ⟨⟨p1, p2, p3⟩, ⟨w, a, b, c⟩⟩ := x
  have hq : (⟨w + (0 * w - 0 * a - 0 * b - 0 * c), a + (0 * a + 0 * w + 0 * c - 0 * b),
      b + (0 * b - 0 * c + 0 * w + 0 * a), c + (0 * c + 0 * b - 0 * a + 0 * w)⟩ : Q4 K) = ⟨w, a, b, c⟩ := by
    congr 1 <;> ring
  simp only [Positional.integrateXddLink, angToQuat, quatMul, q4_add_def, V3.smul, V3.add_def, v3_zero_x,
    v3_zero_y, v3_zero_z, mul_zero, zero_mul, add_zero, sub_zero]
  simp only [show ∀ t : K, (0 : K) - 0 * t = 0 from fun t => by ring, add_zero, zero_add,
    normalize4_unit' ⟨w, a, b, c⟩ hs hu]
  rfl

/-- **positional pipeline, rest case.**  A consistent state with zero velocities and unit link
quaternions, in a system without gravity, actuators and contact, whose joint-frame forces and joint
position corrections all vanish, is returned unchanged by `pipeline.step`. -/
theorem positional_rest_of_zero_displacements
    (inv : List (Tf K) → List (Motion K) → List K × List K)
    (cf : List (Tf K) → List (Contact K)) (s : Sys K) (st : Positional.State K) (act : List K)
    (hc : PosConsistent inv s st) (hq : Quiet s) (hdt : s.dt ≠ 0)
    (hrest : ∀ i, i < s.numLinks → nth st.xd i = ⟨0, 0⟩)
    (hunit : ∀ i, i < s.numLinks → Q4.normSq (nth st.x i).rot = 1)
    (hcf : ∀ x, cf x = [])
    (hjf : ∀ i, i < s.numLinks →
      nth (Positional.jointForces s st.jd (List.replicate s.nv 0)) i = ⟨0, 0⟩)
    (hdisp : ∀ i, i < s.numLinks → nth (Positional.jointDisplacements s st.j st.a_p) i = (0, 0)) :
    Positional.step inv cf s st act = st := by
  have hxi : st.x_i = tab s.numLinks fun i => Tf.doTf (nth st.x i) (tfPos (nth s.links i).inertia.tf.pos) := by
    have := hc.hcom; simp only [Com.fromWorld] at this; exact (Prod.mk.inj this).1.symm
  have hxdi : st.xd_i = tab s.numLinks fun _ => (⟨0, 0⟩ : Motion K) := by
    have := hc.hcom; simp only [Com.fromWorld] at this
    rw [← (Prod.mk.inj this).2]
    apply tab_congr
    intro i hi
    simp only [hrest i hi, doMotion_zero]
  have hxilen : st.x_i.length = s.numLinks := by rw [hxi, tab_length]
  have hxiunit : ∀ i, i < s.numLinks → Q4.normSq (nth st.x_i i).rot = 1 := by
    intro i hi
    rw [hxi, nth_tab _ hi]
    simp only [Tf.doTf, tfPos, quatMul_one]
    exact hunit i hi
  -- acceleration level
  have hxf : ∀ i, i < s.numLinks →
      nth (Positional.accelerationUpdate s st (toTau s act st.q st.qd)) i = ⟨0, 0⟩ := by
    intro i hi
    unfold Positional.accelerationUpdate
    rw [toTau_noacts s hq.hacts]
    exact assemble_zero _ _ _ _ _ (by rw [hq.hpar]; exact hjf) (by rw [hq.hpar]; exact hi)
  have hxdd : Positional.acceleration s (Com.invInertia s st.x) st.mass
      (Positional.accelerationUpdate s st (toTau s act st.q st.qd))
      = tab s.numLinks fun _ => (⟨0, 0⟩ : Motion K) := by
    unfold Positional.acceleration
    apply tab_congr
    intro i hi
    rw [hxf i hi, hq.hg]
    simp only [mulVec_zero, smul_zero', v3_zero_add]
  have hint : Positional.integrateXdd s st.x_i st.xd_i (tab s.numLinks fun _ => (⟨0, 0⟩ : Motion K))
      = (st.x_i, st.xd_i) := by
    unfold Positional.integrateXdd
    simp only []
    have hrow : ∀ i, i < s.numLinks →
        Positional.integrateXddLink s (nth st.x_i i) (nth st.xd_i i)
          (nth (tab s.numLinks fun _ => (⟨0, 0⟩ : Motion K)) i) = (nth st.x_i i, ⟨0, 0⟩) := by
      intro i hi
      rw [nth_tab _ hi]
      have : nth st.xd_i i = ⟨0, 0⟩ := by rw [hxdi, nth_tab _ hi]
      rw [this]
      exact integrateXddLink_rest s _ hq.hsqrt (hxiunit i hi)
    congr 1
    · conv_rhs => rw [eq_tab_of_length hxilen]
      apply tab_congr; intro i hi; rw [hrow i hi]
    · conv_rhs => rw [hxdi]
      apply tab_congr; intro i hi; rw [hrow i hi]
  have htw : Com.toWorld s st.x_i st.xd_i = (st.x, st.xd) := by
    unfold Com.toWorld
    simp only []
    congr 1
    · conv_rhs => rw [eq_tab_of_length hc.hx]
      apply tab_congr; intro i hi
      rw [hxi, nth_tab _ hi, toWorld_fromWorld_pos]
    · conv_rhs => rw [eq_tab_of_length hc.hxd]
      apply tab_congr; intro i hi
      rw [hxdi, nth_tab _ hi, doMotion_zero, hrest i hi]
  -- position level
  have hst1 : ({ st with x := st.x, xd := st.xd, x_i := st.x_i, xd_i := st.xd_i } : Positional.State K) = st := by
    cases st; rfl
  have hpu : Positional.positionUpdate s st = st.x_i := by
    unfold Positional.positionUpdate
    simp only [hc.hj, hc.hap, hc.hac]
    exact positionAssemble_zero _ _ _ _ _ _ _ _ _ (by rw [hxilen, hq.hpar]) (by rw [hq.hpar]; exact hdisp)
  have hproj : Positional.projectXd s st.x_i st.x_i = st.xd_i := by
    conv_rhs => rw [hxdi]
    unfold Positional.projectXd
    apply tab_congr
    intro i _
    obtain ⟨⟨p1, p2, p3⟩, ⟨w, a, b, c⟩⟩ := nth st.x_i i
    simp only [V3.sub_def, sub_self, zero_div, relativeQuat, quatMul, quatInv]
    have e1 : w * -a + a * w + b * -c - c * -b = 0 := by ring
    have e2 : w * -b - a * -c + b * w + c * -a = 0 := by ring
    have e3 : w * -c + a * -b - b * -a + c * w = 0 := by ring
    simp only [e1, e2, e3, mul_zero, zero_div, v3_zero_x, v3_zero_y, v3_zero_z]
    rfl
  have hxdv : Positional.integrateXdv s st.xd_i (tab s.numLinks fun _ => (⟨0, 0⟩ : Motion K)) = st.xd_i := by
    conv_rhs => rw [hxdi]
    unfold Positional.integrateXdv
    apply tab_congr
    intro i hi
    rw [hxdi, nth_tab _ hi]
    simp only [smul_zero', v3_add_zero]
  have hnorm : st.x_i.map (fun t => (⟨t.pos, normalize4 t.rot⟩ : Tf K)) = st.x_i := by
    conv_rhs => rw [← List.map_id st.x_i]
    apply List.map_congr_left
    intro t ht
    obtain ⟨i, hi, rfl⟩ := List.mem_iff_getElem.mp ht
    have hu := hxiunit i (by rw [← hxilen]; exact hi)
    have hnth : nth st.x_i i = st.x_i[i] := by
      simp only [nth, List.getD_eq_getElem?_getD, List.getElem?_eq_getElem hi]; rfl
    rw [hnth] at hu
    rw [normalize4_unit' _ hq.hsqrt hu]
    rfl
  -- put the step together
  unfold Positional.step
  simp only [hxdd, hint, htw, hst1, hpu, hcf, Positional.resolvePosition, Positional.resolveVelocity,
    List.isEmpty_nil, if_true, hnorm, hproj, hxdv, hc.hj, hc.hjd, hc.hap, hc.hac, hc.hinv]

theorem linkSlices_qd_mem {α : Type} (ts : List LinkType) :
    ∀ (q qd : List α) (ds : List (DofP α)), ∀ l ∈ Kin.linkSlices ts q qd ds, ∀ t ∈ l.qd, t ∈ qd := by
  induction ts with
  | nil => intro q qd ds l hl; simp [Kin.linkSlices] at hl
  | cons t ts ih =>
    intro q qd ds l hl x hx
    simp only [Kin.linkSlices, List.mem_cons] at hl
    rcases hl with rfl | hl
    · exact List.mem_of_mem_take hx
    · exact List.mem_of_mem_drop (ih _ _ _ l hl x hx)

theorem sumV_zipWith_zero (f : DofP K → V3 K) (ts : List K) (ds : List (DofP K))
    (h : ∀ t ∈ ts, t = 0) : sumV (List.zipWith (fun t d => V3.smul t (f d)) ts ds) = 0 := by
  induction ts generalizing ds with
  | nil => simp [sumV]
  | cons t ts ih =>
    cases ds with
    | nil => simp [sumV]
    | cons d ds =>
      have ht : t = 0 := h t (by simp)
      have := ih ds (fun x hx => h x (List.mem_cons_of_mem _ hx))
      simp only [sumV, List.zipWith_cons_cons, List.sum_cons] at this ⊢
      rw [this, ht, zero_smul']
      exact V3.add_zero' _

/-- `_damp` with no torque and no joint-frame velocity is the zero force (every link type) -/
theorem damp_zero (lk : LinkP K) (dofs : List (DofP K)) (tau : List K) (h : ∀ t ∈ tau, t = 0) :
    Positional.damp lk (⟨⟨0, 0, 0⟩, ⟨0, 0, 0⟩⟩ : Motion K) dofs tau = ⟨0, 0⟩ := by
  unfold Positional.damp
  simp only [sumV_zipWith_zero (fun d => d.motion.vel) tau dofs h,
    sumV_zipWith_zero (fun d => d.motion.ang) tau dofs h, smul_zero_lit]
  have : (0 : V3 K) - ⟨0, 0, 0⟩ = 0 := v3_sub_zero 0
  rw [this]

/-- the positional joint-frame forces vanish when the joint-frame velocities and the torques do -/
theorem posJointForces_zero (s : Sys K) (jd : List (Motion K))
    (hjd : ∀ i, i < s.numLinks → nth jd i = ⟨⟨0, 0, 0⟩, ⟨0, 0, 0⟩⟩) {i : Nat} (hi : i < s.numLinks) :
    nth (Positional.jointForces s jd (List.replicate s.nv 0)) i = ⟨0, 0⟩ := by
  unfold Positional.jointForces
  rw [nth_tab _ hi]
  cases hl : (Kin.linkSlices s.types ([] : List K) (List.replicate s.nv 0) s.dofs)[i]? with
  | none => rfl
  | some l =>
    have hmem : l ∈ Kin.linkSlices s.types ([] : List K) (List.replicate s.nv 0) s.dofs :=
      List.mem_of_getElem? hl
    have hz : ∀ t ∈ l.qd, t = 0 := fun t ht =>
      List.eq_of_mem_replicate (linkSlices_qd_mem s.types _ _ _ l hmem t ht)
    simp only []
    cases l.typ <;> simp only [hjd i hi, damp_zero _ _ _ hz]

end posRest

end Brax.C04L
