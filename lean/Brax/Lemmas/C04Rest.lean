import Brax.Lemmas.C04Pos
/-!
# C04 helper lemmas, part 4: a system at rest stays at rest (spring and positional pipelines)

`spring_rest_of_zero_jointForces`, `positional_rest_of_zero_displacements`: if the joint-frame
forces (resp. the joint position corrections) vanish, one step without gravity, control and
contact returns the state it was given.  `oneDof_rest_hinge`, `oneDof_rest_slide`: the spring
joint force of a 1-dof link in a pure joint configuration inside its limits is zero.
-/
set_option linter.unusedSectionVars false
set_option linter.unusedSimpArgs false
set_option linter.unusedVariables false
namespace Brax.C04L
open Brax MC

section algebra
variable {K : Type} [Field K]

theorem motion_zero_eq : (0 : Motion K) = ⟨0, 0⟩ := rfl
theorem force_zero_eq : (0 : Force K) = ⟨0, 0⟩ := rfl

theorem cross_zero_right (p : V3 K) : V3.cross p (0 : V3 K) = 0 := by
  simp only [V3.cross, v3_zero_x, v3_zero_y, v3_zero_z, mul_zero, sub_zero]; rfl
theorem cross_zero_left (p : V3 K) : V3.cross (0 : V3 K) p = 0 := by
  simp only [V3.cross, v3_zero_x, v3_zero_y, v3_zero_z, zero_mul, sub_zero]; rfl
theorem rotate_zero' (q : Q4 K) : rotate (0 : V3 K) q = 0 := rotate_zero q
theorem mulVec_zero (m : M3 K) : M3.mulVec m (0 : V3 K) = 0 := by
  simp only [M3.mulVec, V3.dot, v3_zero_x, v3_zero_y, v3_zero_z, mul_zero, add_zero]; rfl
theorem v3_add_zero (a : V3 K) : a + (0 : V3 K) = a := V3.add_zero' a
theorem v3_zero_add (a : V3 K) : (0 : V3 K) + a = a := V3.zero_add' a
theorem v3_sub_zero (a : V3 K) : a - (0 : V3 K) = a := by
  cases a; simp only [V3.sub_def, v3_zero_x, v3_zero_y, v3_zero_z, sub_zero]
theorem v3_neg_zero' : -(0 : V3 K) = 0 := by
  show (⟨-0, -0, -0⟩ : V3 K) = ⟨0, 0, 0⟩; simp

theorem smul_zero_lit (s : K) : V3.smul s (⟨0, 0, 0⟩ : V3 K) = ⟨0, 0, 0⟩ := by
  simp only [V3.smul, mul_zero]

theorem doForce_zero (t : Tf K) : Tf.doForce t (⟨0, 0⟩ : Force K) = ⟨0, 0⟩ := by
  simp only [Tf.doForce, rotate_zero', cross_zero_right, v3_add_zero]

theorem doMotion_zero (t : Tf K) : Tf.doMotion t (⟨0, 0⟩ : Motion K) = ⟨0, 0⟩ := by
  simp only [Tf.doMotion, rotate_zero', cross_zero_right, v3_sub_zero]

theorem force_sub_zero : ((⟨0, 0⟩ : Force K) - (0 : Force K)) = ⟨0, 0⟩ := by
  rw [force_zero_eq, Force.sub_def, v3_sub_zero]

theorem segAt_zero {M : Type} [AddCommMonoid M] (l : List (M × Int)) (k : Nat)
    (h : ∀ p ∈ l, p.1 = 0) : segAt l k = 0 := by
  induction l with
  | nil => exact segAt_nil k
  | cons p l ih =>
    rw [segAt_cons, ih (fun q hq => h q (List.mem_cons_of_mem _ hq)), h p (by simp)]
    simp

/-- the assembly of a vanishing joint-frame force vanishes -/
theorem assemble_zero (parents : List Int) (a_p a_c x_i : List (Tf K)) (jf : List (Force K))
    (h : ∀ i, i < parents.length → nth jf i = ⟨0, 0⟩) {i : Nat} (hi : i < parents.length) :
    nth (Spring.assemble parents a_p a_c x_i jf) i = ⟨0, 0⟩ := by
  unfold Spring.assemble
  simp only []
  rw [nth_tab _ hi, nth_segmentSum_eq _ _ hi, segAt_zero, h i hi]
  · simp only [Spring.worldForce, doForce_zero]; exact force_sub_zero
  · intro p hp
    have hp1 := (List.of_mem_zip hp).1
    simp only [tab, List.mem_map, List.mem_range] at hp1
    obtain ⟨k, hk, hk2⟩ := hp1
    rw [← hk2, h k hk]
    simp only [Spring.worldForce, doForce_zero]; rfl

theorem toWorld_fromWorld_pos (x : Tf K) (com : V3 K) :
    Tf.doTf (Tf.doTf x (tfPos com)) (tfPos (-com)) = x := by
  cases x
  simp only [Tf.doTf, tfPos, quatMul_one, rotate_neg]
  congr 1
  simp only [V3.add_def, V3.neg_def]; congr 1 <;> ring

end algebra

section springRest
variable {K : Type} [Field K] [LinearOrder K] [IsStrictOrderedRing K]
  [HasSqrt K] [HasTrig K] [HasExp K] [HasPow K] [HasF32 K]

/-- the derived fields of a spring state are what `pipeline.init` / `pipeline.step` compute from
`x`, `xd` -/
structure SpringConsistent (inv : List (Tf K) → List (Motion K) → List K × List K) (s : Sys K)
    (st : Spring.State K) : Prop where
  hx : st.x.length = s.numLinks
  hxd : st.xd.length = s.numLinks
  hcom : Com.fromWorld s st.x st.xd = (st.x_i, st.xd_i)
  hj : (Kin.worldToJoint s st.x st.xd).map (·.1) = st.j
  hjd : (Kin.worldToJoint s st.x st.xd).map (·.2.1) = st.jd
  hap : (Kin.worldToJoint s st.x st.xd).map (·.2.2.1) = st.a_p
  hac : (Kin.worldToJoint s st.x st.xd).map (·.2.2.2) = st.a_c
  hinv : inv st.j st.jd = (st.q, st.qd)
  hiinv : st.i_inv = Com.invInertia s st.x

/-- no gravity, no actuators, and the square root of one is one -/
structure Quiet (s : Sys K) : Prop where
  hg : s.gravity = 0
  hacts : s.acts = []
  hsqrt : HasSqrt.sqrt (1 : K) = 1
  hpar : s.parents.length = s.numLinks

theorem toTau_noacts (s : Sys K) (h : s.acts = []) (act q qd : List K) :
    toTau s act q qd = List.replicate s.nv 0 := by
  unfold toTau; simp [h]

theorem integrateLink_rest (s : Sys K) (x_i : Tf K) (hs : HasSqrt.sqrt (1 : K) = 1)
    (hu : Q4.normSq x_i.rot = 1) :
    Spring.integrateLink s x_i (⟨0, 0⟩ : Motion K) ⟨0, 0⟩ = (x_i, ⟨0, 0⟩) := by
  obtain ⟨⟨p1, p2, p3⟩, ⟨w, x, y, z⟩⟩ := x_i
  have hu' : w * w + x * x + y * y + z * z = 1 := hu
  simp only [Spring.integrateLink, angToQuat, quatMul, q4_add_def, V3.smul, V3.add_def, v3_zero_x,
    v3_zero_y, v3_zero_z, mul_zero, zero_mul, add_zero, sub_zero, hu', hs, div_one]
  rfl

/-- **spring pipeline, rest case.**  A consistent state with zero velocities and unit link
quaternions, in a system without gravity, actuators and contact, whose joint-frame forces all
vanish, is returned unchanged by `pipeline.step`. -/
theorem spring_rest_of_zero_jointForces (inv : List (Tf K) → List (Motion K) → List K × List K)
    (cf : List (Tf K) → List (Contact K)) (s : Sys K) (st : Spring.State K) (act : List K)
    (hc : SpringConsistent inv s st) (hq : Quiet s)
    (hrest : ∀ i, i < s.numLinks → nth st.xd i = ⟨0, 0⟩)
    (hunit : ∀ i, i < s.numLinks → Q4.normSq (nth st.x i).rot = 1)
    (hcf : cf st.x = [])
    (hjf : ∀ i, i < s.numLinks →
      nth (Spring.jointForces s st.j st.jd (List.replicate s.nv 0)) i = ⟨0, 0⟩) :
    Spring.step inv cf s st act = st := by
  -- the centre-of-mass fields
  have hxi : st.x_i = tab s.numLinks fun i => Tf.doTf (nth st.x i) (tfPos (nth s.links i).inertia.tf.pos) := by
    have := hc.hcom; simp only [Com.fromWorld] at this; exact (Prod.mk.inj this).1.symm
  have hxdi : st.xd_i = tab s.numLinks fun _ => (⟨0, 0⟩ : Motion K) := by
    have := hc.hcom; simp only [Com.fromWorld] at this
    rw [← (Prod.mk.inj this).2]
    apply tab_congr
    intro i hi
    simp only [hrest i hi, doMotion_zero]
  -- forces vanish
  have hxf : ∀ i, i < s.numLinks →
      nth (Spring.resolve s { st with i_inv := Com.invInertia s st.x }
        (toTau s act st.q st.qd)) i = ⟨0, 0⟩ := by
    intro i hi
    unfold Spring.resolve
    rw [toTau_noacts s hq.hacts]
    exact assemble_zero _ _ _ _ _ (by rw [hq.hpar]; exact hjf) (by rw [hq.hpar]; exact hi)
  have hacc : Spring.accelerate s (Com.invInertia s st.x) st.mass st.xd_i
      (Spring.resolve s { st with i_inv := Com.invInertia s st.x } (toTau s act st.q st.qd))
      = st.xd_i := by
    conv_rhs => rw [hxdi]
    unfold Spring.accelerate
    apply tab_congr
    intro i hi
    rw [hxf i hi, hxdi, nth_tab _ hi, hq.hg]
    simp only [mulVec_zero, v3_zero_add, v3_zero_x, v3_zero_y, v3_zero_z, zero_div, smul_zero',
      smul_zero_lit, Motion.add_def, v3_add_zero]
    rfl
  have hcol : Spring.collide s { st with i_inv := Com.invInertia s st.x, xd_i := st.xd_i } [] =
      tab s.numLinks fun _ => (⟨0, 0⟩ : Motion K) := by
    simp [Spring.collide]
  have hint : Spring.integrate s st.x_i st.xd_i (tab s.numLinks fun _ => (⟨0, 0⟩ : Motion K))
      = (st.x_i, st.xd_i) := by
    unfold Spring.integrate
    simp only []
    have hrow : ∀ i, i < s.numLinks →
        Spring.integrateLink s (nth st.x_i i) (nth st.xd_i i)
          (nth (tab s.numLinks fun _ => (⟨0, 0⟩ : Motion K)) i) = (nth st.x_i i, ⟨0, 0⟩) := by
      intro i hi
      rw [nth_tab _ hi]
      have : nth st.xd_i i = ⟨0, 0⟩ := by rw [hxdi, nth_tab _ hi]
      rw [this]
      apply integrateLink_rest s _ hq.hsqrt
      rw [hxi, nth_tab _ hi]
      simp only [Tf.doTf, tfPos, quatMul_one]
      exact hunit i hi
    congr 1
    · conv_rhs => rw [eq_tab_of_length (show st.x_i.length = s.numLinks by rw [hxi, tab_length])]
      apply tab_congr; intro i hi; rw [hrow i hi]
    · conv_rhs => rw [hxdi]
      apply tab_congr; intro i hi; rw [hrow i hi]
  have htw : Com.toWorld s st.x_i st.xd_i = (st.x, st.xd) := by
    unfold Com.toWorld
    simp only []
    congr 1
    · conv_rhs => rw [eq_tab_of_length hc.hx]
      apply tab_congr; intro i hi
      rw [hxi, nth_tab _ hi, toWorld_fromWorld_pos]
    · conv_rhs => rw [eq_tab_of_length hc.hxd]
      apply tab_congr; intro i hi
      rw [hxdi, nth_tab _ hi, doMotion_zero, hrest i hi]
  -- put the step together
  unfold Spring.step
  simp only [hacc, hcf, hcol, hint, htw, hc.hj, hc.hjd, hc.hap, hc.hac, hc.hinv]
  cases st
  simp only [Spring.State.mk.injEq, true_and, and_true]
  exact hc.hiinv.symm

/-! ### the joint-frame force of a 1-dof link in a pure joint configuration -/

theorem maskV_false (v : V3 K) : maskV false v = ⟨0, 0, 0⟩ := rfl
theorem maskV_true (v : V3 K) : maskV true v = v := rfl

/-- **hinge at rest**: no translational axis, the child anchor on the parent anchor (`j.pos = 0`),
the child's copy of the hinge axis parallel to the parent's (`axis × R(j.rot) axis = 0`), no
joint-frame velocity, no torque, and the extracted angle inside the limits ⇒ `_one_dof` returns
the zero force. -/
theorem oneDof_rest_hinge (hasLimit : Bool) (lk : LinkP K) (j : Tf K) (d : DofP K)
    (hvel : v3Any d.motion.vel = false) (hpos : j.pos = ⟨0, 0, 0⟩)
    (haxis : V3.cross (frame1 d.motion).ang.r0 (rotate (frame1 d.motion).ang.r0 j.rot) = ⟨0, 0, 0⟩)
    (hlim : hasLimit = true →
      Spring.limDelta (axisAngleAng j (frame1 d.motion).ang (frame1 d.motion).parity).psi d.lo d.hi = 0) :
    Spring.oneDof hasLimit lk j ⟨⟨0, 0, 0⟩, ⟨0, 0, 0⟩⟩ d 0 = ⟨⟨0, 0, 0⟩, ⟨0, 0, 0⟩⟩ := by
  unfold Spring.oneDof
  simp only [hvel, hpos, haxis, Bool.false_and, maskV_false, Bool.not_false, maskV_true]
  cases hR : v3Any d.motion.ang <;> cases hL : hasLimit
  all_goals simp only [maskV_false, maskV_true, Bool.false_eq_true, if_false, if_true, hlim, hL]
  all_goals (try simp [V3.smul, V3.neg_def, V3.sub_def, V3.add_def])
  all_goals (try rfl)

/-- **slide at rest**: unit slide axis `a`, no rotational axis, `j.pos = c·a`, `j.rot = 1`, no
joint-frame velocity, no force, and the coordinate inside the limits ⇒ `_one_dof` returns zero. -/
theorem oneDof_rest_slide (hasLimit : Bool) (lk : LinkP K) (j : Tf K) (d : DofP K) (c : K)
    (hvel : v3Any d.motion.vel = true) (hang : v3Any d.motion.ang = false)
    (hunit : V3.dot d.motion.vel d.motion.vel = 1)
    (hpos : j.pos = V3.smul c d.motion.vel) (hrot : j.rot = Q4.one)
    (hlim : hasLimit = true → Spring.limDelta (V3.dot j.pos d.motion.vel) d.lo d.hi = 0) :
    Spring.oneDof hasLimit lk j ⟨⟨0, 0, 0⟩, ⟨0, 0, 0⟩⟩ d 0 = ⟨⟨0, 0, 0⟩, ⟨0, 0, 0⟩⟩ := by
  have hfv : (frame1 d.motion).vel.r0 = d.motion.vel := by simp [frame1, hvel]
  have hfa0 : (frame1 d.motion).ang.r0 = ⟨1, 0, 0⟩ := by simp [frame1, hang, eye]
  have hfa1 : (frame1 d.motion).ang.r1 = ⟨0, 1, 0⟩ := by simp [frame1, hang, eye]
  rcases hm : d.motion.vel with ⟨a1, a2, a3⟩
  have hu : a1 * a1 + a2 * a2 + a3 * a3 = 1 := by rw [hm] at hunit; exact hunit
  have hvel' : v3Any (⟨a1, a2, a3⟩ : V3 K) = true := by rw [← hm]; exact hvel
  unfold Spring.oneDof
  simp only [hvel, hvel', hang, hfv, hfa0, hfa1, hpos, hrot, hm, rotate_one, Bool.true_and, Bool.not_false,
    Bool.not_true, maskV_true, maskV_false]
  cases hL : hasLimit
  · simp only [Bool.false_eq_true, if_false]
    simp only [V3.smul, V3.neg_def, V3.sub_def, V3.add_def, V3.dot, V3.cross, Force.mk.injEq, V3.mk.injEq]
    refine ⟨⟨by ring, by ring, by ring⟩, ?_, ?_, ?_⟩
    · linear_combination (lk.cStiffness * c * a1) * hu
    · linear_combination (lk.cStiffness * c * a2) * hu
    · linear_combination (lk.cStiffness * c * a3) * hu
  · have hl := hlim hL
    rw [hpos, hm] at hl
    simp only [if_true, hl]
    simp only [V3.smul, V3.neg_def, V3.sub_def, V3.add_def, V3.dot, V3.cross, Force.mk.injEq, V3.mk.injEq]
    refine ⟨⟨by ring, by ring, by ring⟩, ?_, ?_, ?_⟩
    · linear_combination (lk.cStiffness * c * a1) * hu
    · linear_combination (lk.cStiffness * c * a2) * hu
    · linear_combination (lk.cStiffness * c * a3) * hu

end springRest

end Brax.C04L
