import Brax.Lemmas.C05Spring
import Brax.Lemmas.ScanSpec
import Brax.Lemmas.ScanTypes
/-!
# C05, sibling order and disconnected components for a whole `spring.pipeline.step`

One general theorem, `step_restr`: if a system `s1` sits inside a system `s` along an index map
`ι : link of s1 ↦ link of s` as a **union of connected components** (`Emb`: `ι` injective, per-link
parameters and parent relation transported, every child in `s` of an embedded link is embedded,
same global options), and the state `st1` is the restriction of `st` along `ι`, and the actuator
torques agree link by link, then one contact-free `Spring.step` of `s1` is the restriction along `ι`
of one `Spring.step` of `s`.

* disjoint union (`unionSys`, `unionState`): apply it with `ι = id` and `ι = (· + n1)`;
* relabelling of the links: apply it with the relabelling `σ` (new index ↦ old index), which is
  surjective, so every child is embedded.

The only places of the step that are not row-by-row are the two parent lookups
(`x_i.take(parent_idx)` with its wrap of `-1` to the *last* link, `takeParent` of
`world_to_joint`) and the `segment_sum` over the parent ids; `assemble_restr` shows the wrapped row
is only ever used in an entry that `segment_sum` drops.
-/
set_option linter.unusedSectionVars false
set_option linter.unusedSimpArgs false
set_option linter.unusedVariables false
namespace Brax.C05Perm
open Brax MC C04L C05L

/-! ## restriction of a per-link array along an index map -/

/-- rows `ι i` of `big` are the rows `i` of `small`, `i < m` -/
def Restr {β : Type} [Inhabited β] (ι : Nat → Nat) (m : Nat) (big small : List β) : Prop :=
  ∀ i, i < m → nth big (ι i) = nth small i

/-- the same for scalar arrays read with `nthS` -/
def RestrS (ι : Nat → Nat) (m : Nat) (big small : List ℝ) : Prop :=
  ∀ i, i < m → nthS big (ι i) = nthS small i

/-- transport of a parent index (`-1` = world stays) -/
def mapPar (ι : Nat → Nat) (p : Int) : Int := if p < 0 then p else ((ι p.toNat : Nat) : Int)

theorem takeWrap_nat {β : Type} [Inhabited β] (xs : List β) {k : Nat} (h : k < xs.length) :
    takeWrap xs (k : Int) = nth xs k := by
  unfold takeWrap nth
  have : ((k : Int) % (xs.length : Int)).toNat = k := by
    rw [Int.emod_eq_of_lt (by omega) (by exact_mod_cast h)]; simp
  rw [this]

theorem takeParent_nat {β : Type} [Inhabited β] (xs : List β) (d : β) {k : Nat} (h : k < xs.length) :
    Kin.takeParent xs d (k : Int) = nth xs k := by
  unfold Kin.takeParent nth
  have : ((k : Int) % ((xs.length : Int) + 1)).toNat = k := by
    rw [Int.emod_eq_of_lt (by omega) (by omega)]; simp
  simp only [this, List.getD_eq_getElem?_getD]
  rw [List.getElem?_append_left h, List.getElem?_eq_getElem h]
  simp

/-! ## sums over an embedded index set -/

theorem segAt_tab {M : Type} [AddCommMonoid M] (m : Nat) (f : Nat → M) (ids : Nat → Int) (k : Nat) :
    segAt (tab m fun c => (f c, ids c)) k
      = ∑ c ∈ Finset.range m, if ids c = (k : Int) then f c else 0 := by
  induction m with
  | zero => simp [tab, segAt_nil]
  | succ m ih =>
    rw [tab_succ, segAt_append, ih, Finset.sum_range_succ, segAt_cons, segAt_nil, add_zero]

theorem zip_tab_parents {β : Type} (n : Nat) (f : Nat → β) (ps : List Int) (h : ps.length = n) :
    (tab n f).zip ps = tab n (fun c => (f c, parentOf ps c)) := by
  apply List.ext_getElem
  · simp [tab_length, h]
  · intro i h1 h2
    have hi : i < n := by simpa [tab_length] using h2
    simp only [tab, List.getElem_zip, List.getElem_map, List.getElem_range, parentOf]
    rw [List.getD_eq_getElem?_getD, List.getElem?_eq_getElem (by omega)]; rfl

/-- a sum over `range n` whose summand vanishes outside the image of an injective `ι` is the sum
over `range n1` of the summand pulled back along `ι` -/
theorem sum_emb {M : Type} [AddCommMonoid M] (ι : Nat → Nat) (n1 n : Nat)
    (hlt : ∀ i, i < n1 → ι i < n)
    (hinj : ∀ i j, i < n1 → j < n1 → ι i = ι j → i = j)
    (g g1 : Nat → M) (hin : ∀ c1, c1 < n1 → g (ι c1) = g1 c1)
    (hout : ∀ c, c < n → (∀ c1, c1 < n1 → c ≠ ι c1) → g c = 0) :
    ∑ c ∈ Finset.range n, g c = ∑ c1 ∈ Finset.range n1, g1 c1 := by
  classical
  have hsub : (Finset.range n1).image ι ⊆ Finset.range n := by
    intro c hc
    obtain ⟨c1, hc1, rfl⟩ := Finset.mem_image.mp hc
    exact Finset.mem_range.mpr (hlt c1 (Finset.mem_range.mp hc1))
  rw [← Finset.sum_subset hsub]
  · rw [Finset.sum_image]
    · apply Finset.sum_congr rfl
      intro c1 hc1
      exact hin c1 (Finset.mem_range.mp hc1)
    · intro a ha b hb hab
      exact hinj a b (Finset.mem_range.mp (Finset.mem_coe.mp ha))
        (Finset.mem_range.mp (Finset.mem_coe.mp hb)) hab
  · intro c hc hnot
    apply hout c (Finset.mem_range.mp hc)
    intro c1 hc1 heq
    exact hnot (Finset.mem_image.mpr ⟨c1, Finset.mem_range.mpr hc1, heq.symm⟩)

/-! ## the embedding of a system as a union of components -/

/-- `s1` sits inside `s` along `ι` as a union of connected components, with the same options -/
structure Emb (ι : Nat → Nat) (s1 s : Sys ℝ) : Prop where
  lt : ∀ i, i < s1.numLinks → ι i < s.numLinks
  inj : ∀ i j, i < s1.numLinks → j < s1.numLinks → ι i = ι j → i = j
  link : ∀ i, i < s1.numLinks → nth s.links (ι i) = nth s1.links i
  par : ∀ i, i < s1.numLinks → parentOf s.parents (ι i) = mapPar ι (parentOf s1.parents i)
  par1 : ∀ i, i < s1.numLinks →
    -1 ≤ parentOf s1.parents i ∧ parentOf s1.parents i < (s1.numLinks : Int)
  closed : ∀ c, c < s.numLinks → ∀ i, i < s1.numLinks → parentOf s.parents c = (ι i : Int) →
    ∃ c1, c1 < s1.numLinks ∧ c = ι c1
  plen1 : s1.parents.length = s1.numLinks
  plen : s.parents.length = s.numLinks
  llen1 : s1.links.length = s1.numLinks
  llen : s.links.length = s.numLinks
  hasLimit : s.hasLimit = s1.hasLimit
  gravity : s.gravity = s1.gravity
  dt : s.dt = s1.dt
  velDamping : s.velDamping = s1.velDamping
  angDamping : s.angDamping = s1.angDamping
  inertiaScale : s.springInertiaScale = s1.springInertiaScale

/-- the per-link inputs of the joint-force scan (`scan.link_types(…, tau)`) agree along `ι` -/
def InsAgree (ι : Nat → Nat) (s1 s : Sys ℝ) (tau1 tau : List ℝ) : Prop :=
  ∀ i, i < s1.numLinks →
    (Kin.linkSlices s.types ([] : List ℝ) tau s.dofs)[ι i]?
      = (Kin.linkSlices s1.types ([] : List ℝ) tau1 s1.dofs)[i]?

section stages
variable {ι : Nat → Nat} {s1 s : Sys ℝ} (hE : Emb ι s1 s)
include hE

/-! ## row-by-row stages -/

theorem invInertia_restr (x x1 : List (Tf ℝ)) (hx : Restr ι s1.numLinks x x1) :
    Restr ι s1.numLinks (Com.invInertia s x) (Com.invInertia s1 x1) := by
  intro i hi
  unfold Com.invInertia
  rw [nth_tab _ (hE.lt i hi), nth_tab _ hi, hE.link i hi, hx i hi, hE.inertiaScale]

theorem jointForces_restr (j j1 : List (Tf ℝ)) (jd jd1 : List (Motion ℝ)) (tau tau1 : List ℝ)
    (hj : Restr ι s1.numLinks j j1) (hjd : Restr ι s1.numLinks jd jd1)
    (hins : InsAgree ι s1 s tau1 tau) :
    Restr ι s1.numLinks (Spring.jointForces s j jd tau) (Spring.jointForces s1 j1 jd1 tau1) := by
  intro i hi
  unfold Spring.jointForces
  rw [nth_tab _ (hE.lt i hi), nth_tab _ hi, hins i hi, hE.link i hi, hj i hi, hjd i hi, hE.hasLimit]

theorem accelerate_restr (i_inv i_inv1 : List (M3 ℝ)) (mass mass1 : List ℝ)
    (xd_i xd_i1 : List (Motion ℝ)) (xf xf1 : List (Force ℝ))
    (h1 : Restr ι s1.numLinks i_inv i_inv1) (h2 : RestrS ι s1.numLinks mass mass1)
    (h3 : Restr ι s1.numLinks xd_i xd_i1) (h4 : Restr ι s1.numLinks xf xf1) :
    Restr ι s1.numLinks (Spring.accelerate s i_inv mass xd_i xf)
      (Spring.accelerate s1 i_inv1 mass1 xd_i1 xf1) := by
  intro i hi
  unfold Spring.accelerate
  rw [nth_tab _ (hE.lt i hi), nth_tab _ hi, h1 i hi, h2 i hi, h3 i hi, h4 i hi, hE.gravity, hE.dt]

theorem integrateLink_globals (x : Tf ℝ) (xd xdv : Motion ℝ) :
    Spring.integrateLink s x xd xdv = Spring.integrateLink s1 x xd xdv := by
  rw [integrateLink_eq, integrateLink_eq, hE.dt, hE.velDamping, hE.angDamping]

theorem integrate_restr (x_i x_i1 : List (Tf ℝ)) (xd_i xd_i1 : List (Motion ℝ))
    (h1 : Restr ι s1.numLinks x_i x_i1) (h2 : Restr ι s1.numLinks xd_i xd_i1) :
    Restr ι s1.numLinks
        (Spring.integrate s x_i xd_i (tab s.numLinks fun _ => (0 : Motion ℝ))).1
        (Spring.integrate s1 x_i1 xd_i1 (tab s1.numLinks fun _ => (0 : Motion ℝ))).1
    ∧ Restr ι s1.numLinks
        (Spring.integrate s x_i xd_i (tab s.numLinks fun _ => (0 : Motion ℝ))).2
        (Spring.integrate s1 x_i1 xd_i1 (tab s1.numLinks fun _ => (0 : Motion ℝ))).2 := by
  unfold Spring.integrate
  constructor
  · intro i hi
    simp only []
    rw [nth_tab _ (hE.lt i hi), nth_tab _ hi, nth_tab _ (hE.lt i hi), nth_tab _ hi, h1 i hi, h2 i hi,
      integrateLink_globals hE]
  · intro i hi
    simp only []
    rw [nth_tab _ (hE.lt i hi), nth_tab _ hi, nth_tab _ (hE.lt i hi), nth_tab _ hi, h1 i hi, h2 i hi,
      integrateLink_globals hE]

theorem toWorld_restr (x_i x_i1 : List (Tf ℝ)) (xd_i xd_i1 : List (Motion ℝ))
    (h1 : Restr ι s1.numLinks x_i x_i1) (h2 : Restr ι s1.numLinks xd_i xd_i1) :
    Restr ι s1.numLinks (Com.toWorld s x_i xd_i).1 (Com.toWorld s1 x_i1 xd_i1).1
    ∧ Restr ι s1.numLinks (Com.toWorld s x_i xd_i).2 (Com.toWorld s1 x_i1 xd_i1).2 := by
  unfold Com.toWorld
  constructor
  · intro i hi
    simp only []
    rw [nth_tab _ (hE.lt i hi), nth_tab _ hi, h1 i hi, hE.link i hi]
  · intro i hi
    simp only []
    rw [nth_tab _ (hE.lt i hi), nth_tab _ hi, h1 i hi, h2 i hi, hE.link i hi]

end stages

/-! ## the assembly (parent lookup with wrap + `segment_sum` over parents) -/

section assemble
variable {ι : Nat → Nat} {s1 s : Sys ℝ} (hE : Emb ι s1 s)
include hE

theorem mapPar_eq_iff {i c1 : Nat} (hi : i < s1.numLinks) (hc1 : c1 < s1.numLinks) :
    mapPar ι (parentOf s1.parents c1) = (ι i : Int) ↔ parentOf s1.parents c1 = (i : Int) := by
  obtain ⟨h1, h2⟩ := hE.par1 c1 hc1
  unfold mapPar
  by_cases hneg : parentOf s1.parents c1 < 0
  · rw [if_pos hneg]; constructor <;> intro h <;> omega
  · rw [if_neg hneg]
    obtain ⟨k, hk⟩ := Int.eq_ofNat_of_zero_le (not_lt.mp hneg)
    rw [hk] at h2 ⊢
    have hk' : k < s1.numLinks := by exact_mod_cast h2
    simp only [Int.toNat_natCast, Nat.cast_inj]
    constructor
    · intro h; exact hE.inj k i hk' hi h
    · intro h; rw [h]

/-- **the assembly of `joints.resolve` restricts along an embedding.**  The parent-side lever arm
of a root is computed against `x_i.take(-1)`, the *last* link of the array (a link of another
component in the big system); that entry has id `-1` and is dropped by `segment_sum`, so it does not
leak. -/
theorem assemble_restr (a_p a_c x_i a_p1 a_c1 x_i1 : List (Tf ℝ)) (jf jf1 : List (Force ℝ))
    (hap : Restr ι s1.numLinks a_p a_p1) (hac : Restr ι s1.numLinks a_c a_c1)
    (hxi : Restr ι s1.numLinks x_i x_i1) (hjf : Restr ι s1.numLinks jf jf1)
    (hxil : x_i.length = s.numLinks) (hxil1 : x_i1.length = s1.numLinks) :
    Restr ι s1.numLinks (Spring.assemble s.parents a_p a_c x_i jf)
      (Spring.assemble s1.parents a_p1 a_c1 x_i1 jf1) := by
  intro i hi
  have hιi := hE.lt i hi
  unfold Spring.assemble
  simp only []
  rw [hE.plen, hE.plen1, nth_tab _ hιi, nth_tab _ hi, hap i hi, hac i hi, hxi i hi, hjf i hi]
  congr 1
  rw [nth_segmentSum_eq _ _ hιi, nth_segmentSum_eq _ _ hi, zip_tab_parents _ _ _ hE.plen,
    zip_tab_parents _ _ _ hE.plen1, segAt_tab, segAt_tab]
  apply sum_emb ι s1.numLinks s.numLinks hE.lt hE.inj
  · intro c1 hc1
    rw [hE.par c1 hc1]
    by_cases hp : parentOf s1.parents c1 = (i : Int)
    · rw [if_pos ((mapPar_eq_iff hE hi hc1).mpr hp), if_pos hp]
      have hp12 : s.parents.getD (ι c1) (-1) = (ι i : Int) := by
        have := hE.par c1 hc1
        rw [(mapPar_eq_iff hE hi hc1).mpr hp] at this
        exact this
      have hp1 : s1.parents.getD c1 (-1) = (i : Int) := hp
      rw [hp12, hp1, takeWrap_nat _ (by omega), takeWrap_nat _ (by omega), hap c1 hc1, hjf c1 hc1,
        hxi i hi]
    · rw [if_neg hp, if_neg (fun h => hp ((mapPar_eq_iff hE hi hc1).mp h))]
  · intro c hc hnot
    rw [if_neg]
    intro hpc
    obtain ⟨c1, hc1, rfl⟩ := hE.closed c hc i hi hpc
    exact hnot c1 hc1 rfl

end assemble

/-! ## `kinematics.world_to_joint` -/

section w2j
variable {ι : Nat → Nat} {s1 s : Sys ℝ} (hE : Emb ι s1 s)
include hE

theorem w2jRow_restr (x x1 : List (Tf ℝ)) (xd xd1 : List (Motion ℝ))
    (hx : Restr ι s1.numLinks x x1) (hxd : Restr ι s1.numLinks xd xd1)
    (hxl : x.length = s.numLinks) (hxl1 : x1.length = s1.numLinks)
    (hxdl : xd.length = s.numLinks) (hxdl1 : xd1.length = s1.numLinks) {i : Nat} (hi : i < s1.numLinks) :
    w2jRow s x xd (ι i) = w2jRow s1 x1 xd1 i := by
  have hpar : Kin.takeParent x Tf.id (parentOf s.parents (ι i))
        = Kin.takeParent x1 Tf.id (parentOf s1.parents i)
      ∧ Kin.takeParent xd Motion.zero (parentOf s.parents (ι i))
        = Kin.takeParent xd1 Motion.zero (parentOf s1.parents i) := by
    rw [hE.par i hi]
    obtain ⟨h1, h2⟩ := hE.par1 i hi
    unfold mapPar
    by_cases hneg : parentOf s1.parents i < 0
    · have : parentOf s1.parents i = -1 := by omega
      rw [if_pos hneg, this, takeParent_neg_one, takeParent_neg_one, takeParent_neg_one,
        takeParent_neg_one]
      exact ⟨rfl, rfl⟩
    · rw [if_neg hneg]
      obtain ⟨k, hk⟩ := Int.eq_ofNat_of_zero_le (not_lt.mp hneg)
      rw [hk] at h2 ⊢
      have hk' : k < s1.numLinks := by exact_mod_cast h2
      have hιk := hE.lt k hk'
      simp only [Int.toNat_natCast]
      rw [takeParent_nat _ _ (by omega), takeParent_nat _ _ (by omega), takeParent_nat _ _ (by omega),
        takeParent_nat _ _ (by omega), hx k hk', hxd k hk']
      exact ⟨rfl, rfl⟩
  unfold w2jRow
  simp only []
  rw [hpar.1, hpar.2, hE.link i hi, hx i hi, hxd i hi]

theorem worldToJoint_restr (x x1 : List (Tf ℝ)) (xd xd1 : List (Motion ℝ))
    (hx : Restr ι s1.numLinks x x1) (hxd : Restr ι s1.numLinks xd xd1)
    (hxl : x.length = s.numLinks) (hxl1 : x1.length = s1.numLinks)
    (hxdl : xd.length = s.numLinks) (hxdl1 : xd1.length = s1.numLinks) :
    Restr ι s1.numLinks ((Kin.worldToJoint s x xd).map (·.1)) ((Kin.worldToJoint s1 x1 xd1).map (·.1))
    ∧ Restr ι s1.numLinks ((Kin.worldToJoint s x xd).map (·.2.1)) ((Kin.worldToJoint s1 x1 xd1).map (·.2.1))
    ∧ Restr ι s1.numLinks ((Kin.worldToJoint s x xd).map (·.2.2.1)) ((Kin.worldToJoint s1 x1 xd1).map (·.2.2.1))
    ∧ Restr ι s1.numLinks ((Kin.worldToJoint s x xd).map (·.2.2.2)) ((Kin.worldToJoint s1 x1 xd1).map (·.2.2.2)) := by
  rw [worldToJoint_eq_tab s x xd hE.llen hxl hxdl, worldToJoint_eq_tab s1 x1 xd1 hE.llen1 hxl1 hxdl1]
  simp only [tab_map]
  refine ⟨?_, ?_, ?_, ?_⟩ <;>
  · intro i hi
    rw [nth_tab _ (hE.lt i hi), nth_tab _ hi, w2jRow_restr hE x x1 xd xd1 hx hxd hxl hxl1 hxdl hxdl1 hi]

end w2j

/-! ## composition: one contact-free `Spring.step` -/

/-- what the step reads of the two states (per-link rows along `ι`, and the one array length the
wrapping parent lookup depends on) -/
structure RestrIn (ι : Nat → Nat) (s1 s : Sys ℝ) (st1 st : Spring.State ℝ) : Prop where
  x : Restr ι s1.numLinks st.x st1.x
  x_i : Restr ι s1.numLinks st.x_i st1.x_i
  xd_i : Restr ι s1.numLinks st.xd_i st1.xd_i
  j : Restr ι s1.numLinks st.j st1.j
  jd : Restr ι s1.numLinks st.jd st1.jd
  a_p : Restr ι s1.numLinks st.a_p st1.a_p
  a_c : Restr ι s1.numLinks st.a_c st1.a_c
  mass : RestrS ι s1.numLinks st.mass st1.mass
  x_il : st.x_i.length = s.numLinks
  x_il1 : st1.x_i.length = s1.numLinks

/-- every per-link field of `st1` is the restriction of the field of `st` along `ι` -/
structure RestrSt (ι : Nat → Nat) (m : Nat) (st1 st : Spring.State ℝ) : Prop where
  x : Restr ι m st.x st1.x
  xd : Restr ι m st.xd st1.xd
  x_i : Restr ι m st.x_i st1.x_i
  xd_i : Restr ι m st.xd_i st1.xd_i
  j : Restr ι m st.j st1.j
  jd : Restr ι m st.jd st1.jd
  a_p : Restr ι m st.a_p st1.a_p
  a_c : Restr ι m st.a_c st1.a_c
  i_inv : Restr ι m st.i_inv st1.i_inv
  mass : RestrS ι m st.mass st1.mass

section compose
variable {ι : Nat → Nat} {s1 s : Sys ℝ} (hE : Emb ι s1 s) {st1 st : Spring.State ℝ}
  (hst : RestrIn ι s1 s st1 st) (act1 act : List ℝ)
  (hins : InsAgree ι s1 s (toTau s1 act1 st1.q st1.qd) (toTau s act st.q st.qd))
include hE hst hins

theorem midXd_restr : Restr ι s1.numLinks (midXd s st act) (midXd s1 st1 act1) := by
  unfold midXd Spring.resolve
  apply accelerate_restr hE _ _ _ _ _ _ _ _ (invInertia_restr hE _ _ hst.x) hst.mass hst.xd_i
  exact assemble_restr hE _ _ _ _ _ _ _ _ hst.a_p hst.a_c hst.x_i
    (jointForces_restr hE _ _ _ _ _ _ hst.j hst.jd hins) hst.x_il hst.x_il1

theorem stepXi_restr :
    Restr ι s1.numLinks (stepXi s st act).1 (stepXi s1 st1 act1).1
    ∧ Restr ι s1.numLinks (stepXi s st act).2 (stepXi s1 st1 act1).2 := by
  unfold stepXi
  exact integrate_restr hE _ _ _ _ hst.x_i (midXd_restr hE hst act1 act hins)

theorem stepXw_restr :
    Restr ι s1.numLinks (stepXw s st act).1 (stepXw s1 st1 act1).1
    ∧ Restr ι s1.numLinks (stepXw s st act).2 (stepXw s1 st1 act1).2 := by
  unfold stepXw
  obtain ⟨h1, h2⟩ := stepXi_restr hE hst act1 act hins
  exact toWorld_restr hE _ _ _ _ h1 h2

/-- **one contact-free `spring.pipeline.step` restricts along an embedding of a union of
components**: every per-link output field (`x, xd, x_i, xd_i, j, jd, a_p, a_c, i_inv, mass`) of the
step of the small system is the restriction of the field of the step of the big system. (`q`, `qd`
are `kinematics.inverse` of `j`, `jd`; `inv`, `inv1` are arbitrary here.) -/
theorem step_restr (inv inv1 : List (Tf ℝ) → List (Motion ℝ) → List ℝ × List ℝ) :
    RestrSt ι s1.numLinks (Spring.step inv1 (fun _ => []) s1 st1 act1)
      (Spring.step inv (fun _ => []) s st act) := by
  obtain ⟨hxi1, hxi2⟩ := stepXi_restr hE hst act1 act hins
  obtain ⟨hxw1, hxw2⟩ := stepXw_restr hE hst act1 act hins
  have hl : (stepXw s st act).1.length = s.numLinks ∧ (stepXw s st act).2.length = s.numLinks := by
    simp [stepXw, Com.toWorld, tab_length]
  have hl1 : (stepXw s1 st1 act1).1.length = s1.numLinks
      ∧ (stepXw s1 st1 act1).2.length = s1.numLinks := by
    simp [stepXw, Com.toWorld, tab_length]
  obtain ⟨hw1, hw2, hw3, hw4⟩ := worldToJoint_restr hE _ _ _ _ hxw1 hxw2 hl.1 hl1.1 hl.2 hl1.2
  rw [step_nil_eq, step_nil_eq]
  exact ⟨hxw1, hxw2, hxi1, hxi2, hw1, hw2, hw3, hw4, invInertia_restr hE _ _ hst.x, hst.mass⟩

end compose

/-! ## lengths of the step's outputs; state extensionality -/

theorem state_ext {a b : Spring.State ℝ} (h1 : a.q = b.q) (h2 : a.qd = b.qd) (h3 : a.x = b.x)
    (h4 : a.xd = b.xd) (h5 : a.x_i = b.x_i) (h6 : a.xd_i = b.xd_i) (h7 : a.j = b.j) (h8 : a.jd = b.jd)
    (h9 : a.a_p = b.a_p) (h10 : a.a_c = b.a_c) (h11 : a.i_inv = b.i_inv) (h12 : a.mass = b.mass) :
    a = b := by
  cases a; cases b; simp only [Spring.State.mk.injEq]
  exact ⟨h1, h2, h3, h4, h5, h6, h7, h8, h9, h10, h11, h12⟩

/-- every per-link output array of a step has one row per link -/
structure StepLens (n : Nat) (st : Spring.State ℝ) : Prop where
  x : st.x.length = n
  xd : st.xd.length = n
  x_i : st.x_i.length = n
  xd_i : st.xd_i.length = n
  j : st.j.length = n
  jd : st.jd.length = n
  a_p : st.a_p.length = n
  a_c : st.a_c.length = n
  i_inv : st.i_inv.length = n

theorem step_lens (inv : List (Tf ℝ) → List (Motion ℝ) → List ℝ × List ℝ) (s : Sys ℝ)
    (st : Spring.State ℝ) (act : List ℝ) (hlinks : s.links.length = s.numLinks) :
    StepLens s.numLinks (Spring.step inv (fun _ => []) s st act) := by
  have h1 : (stepXw s st act).1.length = s.numLinks := by simp [stepXw, Com.toWorld, tab_length]
  have h2 : (stepXw s st act).2.length = s.numLinks := by simp [stepXw, Com.toWorld, tab_length]
  have hW : (stepW s st act).length = s.numLinks := by
    rw [stepW, worldToJoint_eq_tab s _ _ hlinks h1 h2, tab_length]
  rw [step_nil_eq]
  exact ⟨h1, h2, by simp [stepXi, Spring.integrate, tab_length],
    by simp [stepXi, Spring.integrate, tab_length], by simp [hW], by simp [hW], by simp [hW],
    by simp [hW], by simp [Com.invInertia, tab_length]⟩

/-! ## list bookkeeping for concatenations -/
section lists
variable {β : Type}

theorem tab_add (n1 n2 : Nat) (f : Nat → β) :
    tab (n1 + n2) f = tab n1 f ++ tab n2 (fun i => f (i + n1)) := by
  simp only [tab, List.range_add, List.map_append, List.map_map]
  congr 1
  apply List.map_congr_left
  intro i _
  simp [Nat.add_comm]

theorem getD_append_left' (a b : List β) (d : β) {i : Nat} (h : i < a.length) :
    (a ++ b).getD i d = a.getD i d := by
  simp only [List.getD_eq_getElem?_getD, List.getElem?_append_left h]

theorem getD_append_right' (a b : List β) (d : β) (i : Nat) {n : Nat} (h : a.length = n) :
    (a ++ b).getD (i + n) d = b.getD i d := by
  simp only [List.getD_eq_getElem?_getD]
  rw [List.getElem?_append_right (by omega)]
  congr 2; omega

/-- a list is the concatenation of its restrictions to the first `n1` and the last `n2` rows -/
theorem eq_append_of_getD (d : β) {big a b : List β} {n1 n2 : Nat} (hbig : big.length = n1 + n2)
    (ha : a.length = n1) (hb : b.length = n2) (h1 : ∀ i, i < n1 → big.getD i d = a.getD i d)
    (h2 : ∀ i, i < n2 → big.getD (i + n1) d = b.getD i d) : big = a ++ b := by
  apply List.ext_getElem
  · simp [hbig, ha, hb]
  · intro i hi1 hi2
    by_cases hi : i < n1
    · have := h1 i hi
      rw [List.getD_eq_getElem?_getD, List.getD_eq_getElem?_getD, List.getElem?_eq_getElem hi1,
        List.getElem?_eq_getElem (by omega)] at this
      rw [List.getElem_append_left (by omega)]
      simpa using this
    · have hlt : i - n1 < n2 := by omega
      have := h2 (i - n1) hlt
      rw [show i - n1 + n1 = i by omega, List.getD_eq_getElem?_getD, List.getD_eq_getElem?_getD,
        List.getElem?_eq_getElem hi1, List.getElem?_eq_getElem (by omega)] at this
      rw [List.getElem_append_right (by omega)]
      simp only [ha]
      simpa using this

end lists

theorem restr_id_append {β : Type} [Inhabited β] (a b : List β) {n1 : Nat} (ha : a.length = n1) :
    Restr id n1 (a ++ b) a := by
  intro i hi; exact getD_append_left' a b default (show i < a.length by omega)

theorem restr_shift_append {β : Type} [Inhabited β] (a b : List β) {n1 : Nat} (ha : a.length = n1)
    (n2 : Nat) : Restr (· + n1) n2 (a ++ b) b := by
  intro i hi; exact getD_append_right' a b default i ha

theorem restrS_id_append (a b : List ℝ) {n1 : Nat} (ha : a.length = n1) :
    RestrS id n1 (a ++ b) a := by
  intro i hi; exact getD_append_left' a b 0 (show i < a.length by omega)

theorem restrS_shift_append (a b : List ℝ) {n1 : Nat} (ha : a.length = n1) (n2 : Nat) :
    RestrS (· + n1) n2 (a ++ b) b := by
  intro i hi; exact getD_append_right' a b 0 i ha

theorem eq_append_of_restr {β : Type} [Inhabited β] {big a b : List β} {n1 n2 : Nat}
    (hbig : big.length = n1 + n2) (ha : a.length = n1) (hb : b.length = n2)
    (h1 : Restr id n1 big a) (h2 : Restr (· + n1) n2 big b) : big = a ++ b :=
  eq_append_of_getD default hbig ha hb h1 h2

/-! ## `segment_sum` of a concatenation with shifted ids -/
section seg
variable {M : Type} [AddCommMonoid M]

theorem segAt_none (l : List (M × Int)) (k : Nat) (h : ∀ p ∈ l, p.2 ≠ (k : Int)) : segAt l k = 0 := by
  induction l with
  | nil => exact segAt_nil k
  | cons p l ih =>
    rw [segAt_cons, if_neg (h p (by simp)), ih (fun q hq => h q (List.mem_cons_of_mem _ hq)), add_zero]

theorem segAt_shift (v : List M) (ids : List Int) (n1 k : Nat) :
    segAt (v.zip (ids.map (· + (n1 : Int)))) (k + n1) = segAt (v.zip ids) k := by
  induction v generalizing ids with
  | nil => simp [segAt_nil]
  | cons a v ih =>
    cases ids with
    | nil => simp [segAt_nil]
    | cons id ids =>
      simp only [List.map_cons, List.zip_cons_cons, segAt_cons, ih ids]
      congr 1
      have : (id + (n1 : Int) = ((k + n1 : Nat) : Int)) ↔ id = (k : Int) := by push_cast; omega
      by_cases hk : id = (k : Int)
      · rw [if_pos hk, if_pos (this.mpr hk)]
      · rw [if_neg hk, if_neg (fun h => hk (this.mp h))]

theorem segmentSum_union (v1 v2 : List M) (ids1 ids2 : List Int) (n1 n2 : Nat)
    (hl : v1.length = ids1.length) (h1 : ∀ id ∈ ids1, id < (n1 : Int)) (h2 : ∀ id ∈ ids2, 0 ≤ id) :
    segmentSum (v1 ++ v2) (ids1 ++ ids2.map (· + (n1 : Int))) (n1 + n2)
      = segmentSum v1 ids1 n1 ++ segmentSum v2 ids2 n2 := by
  unfold segmentSum
  rw [tab_add, List.zip_append hl]
  congr 1
  · apply tab_congr
    intro k hk
    change segAt (v1.zip ids1 ++ v2.zip (ids2.map (· + (n1 : Int)))) k = segAt (v1.zip ids1) k
    rw [segAt_append, segAt_none (v2.zip _) k, add_zero]
    intro p hp
    have := (List.of_mem_zip hp).2
    obtain ⟨id, hid, hidp⟩ := List.mem_map.mp this
    have := h2 id hid
    have hidp' : id + (n1 : Int) = p.2 := hidp
    omega
  · apply tab_congr
    intro k hk
    change segAt (v1.zip ids1 ++ v2.zip (ids2.map (· + (n1 : Int)))) (k + n1) = segAt (v2.zip ids2) k
    rw [segAt_append, segAt_shift, segAt_none (v1.zip ids1), zero_add]
    intro p hp
    have := h1 _ (List.of_mem_zip hp).2
    push_cast
    omega

end seg

/-! ## the disjoint union of two systems / states -/

/-- re-index an actuator of the second system: its `q_id`/`qd_id` move behind the first system's
coordinates -/
def shiftAct (dq dv : Nat) (a : ActP ℝ) : ActP ℝ := { a with qId := a.qId + dq, qdId := a.qdId + dv }

/-- **disjoint union**: links of `s1` followed by links of `s2`; the non-negative parent ids of `s2`
shifted by `s1.numLinks` (`Kin.shiftParents`, as in `components_independent`); dof arrays
concatenated; actuators of `s2` re-indexed; options of `s1` (see `SameGlobals`) -/
def unionSys (s1 s2 : Sys ℝ) : Sys ℝ :=
  { s1 with
    types := s1.types ++ s2.types
    parents := s1.parents ++ Kin.shiftParents s1.numLinks s2.parents
    links := s1.links ++ s2.links
    dofs := s1.dofs ++ s2.dofs
    acts := s1.acts ++ s2.acts.map (shiftAct s1.nq s1.nv) }

/-- the two systems have the same global options (the ones a contact-free spring step reads) -/
structure SameGlobals (s1 s2 : Sys ℝ) : Prop where
  hasLimit : s1.hasLimit = s2.hasLimit
  gravity : s1.gravity = s2.gravity
  dt : s1.dt = s2.dt
  velDamping : s1.velDamping = s2.velDamping
  angDamping : s1.angDamping = s2.angDamping
  inertiaScale : s1.springInertiaScale = s2.springInertiaScale

/-- field-wise concatenation of two spring states -/
def unionState (a b : Spring.State ℝ) : Spring.State ℝ :=
  { q := a.q ++ b.q, qd := a.qd ++ b.qd, x := a.x ++ b.x, xd := a.xd ++ b.xd,
    x_i := a.x_i ++ b.x_i, xd_i := a.xd_i ++ b.xd_i, j := a.j ++ b.j, jd := a.jd ++ b.jd,
    a_p := a.a_p ++ b.a_p, a_c := a.a_c ++ b.a_c, i_inv := a.i_inv ++ b.i_inv,
    mass := a.mass ++ b.mass }

@[simp] theorem unionSys_numLinks (s1 s2 : Sys ℝ) :
    (unionSys s1 s2).numLinks = s1.numLinks + s2.numLinks := by
  simp [unionSys, Sys.numLinks]
@[simp] theorem unionSys_nv (s1 s2 : Sys ℝ) : (unionSys s1 s2).nv = s1.nv + s2.nv := by
  simp [unionSys, Sys.nv]
@[simp] theorem unionSys_nq (s1 s2 : Sys ℝ) : (unionSys s1 s2).nq = s1.nq + s2.nq := by
  simp [unionSys, Sys.nq]

/-- the parts of `Sys.WF` used below -/
structure WFParts (s : Sys ℝ) : Prop where
  plen : s.parents.length = s.numLinks
  llen : s.links.length = s.numLinks
  dlen : s.dofs.length = s.nv
  par : ∀ i, i < s.numLinks → -1 ≤ parentOf s.parents i ∧ parentOf s.parents i < (i : Int)
  acts : ∀ a ∈ s.acts, a.qId < s.nq ∧ a.qdId < s.nv

theorem WFParts.of_wf {s : Sys ℝ} (h : s.WF = true) : WFParts s := by
  simp only [Sys.WF, Bool.and_eq_true, beq_iff_eq, List.all_eq_true, List.mem_range,
    decide_eq_true_eq] at h
  obtain ⟨⟨⟨⟨h1, h2⟩, h3⟩, h4⟩, h5⟩ := h
  exact ⟨h1, h2, h3, fun i hi => ⟨(h4 i hi).1.1, (h4 i hi).1.2⟩, h5⟩

theorem parentOf_union_left (p1 X : List Int) {i : Nat} (h : i < p1.length) :
    parentOf (p1 ++ X) i = parentOf p1 i := getD_append_left' p1 X (-1) h

theorem parentOf_union_right (p1 p2 : List Int) (i : Nat) {n : Nat} (h : p1.length = n) :
    parentOf (p1 ++ Kin.shiftParents n p2) (i + n)
      = if parentOf p2 i < 0 then parentOf p2 i else parentOf p2 i + (n : Int) := by
  unfold parentOf
  rw [getD_append_right' p1 _ (-1) i h]
  unfold Kin.shiftParents
  simp only [List.getD_eq_getElem?_getD, List.getElem?_map]
  cases p2[i]? with
  | none => simp
  | some p => simp

section unionEmb
variable {s1 s2 : Sys ℝ} (h1 : WFParts s1) (h2 : WFParts s2) (hg : SameGlobals s1 s2)
include h1 h2 hg

theorem emb_left : Emb id s1 (unionSys s1 s2) where
  lt := by intro i hi; simp only [unionSys_numLinks, id]; omega
  inj := by intro i j _ _ h; exact h
  link := by
    intro i hi
    exact getD_append_left' s1.links s2.links default (by rw [h1.llen]; exact hi)
  par := by
    intro i hi
    show parentOf (s1.parents ++ _) i = _
    rw [parentOf_union_left _ _ (by rw [h1.plen]; exact hi)]
    have := (h1.par i hi).1
    unfold mapPar
    by_cases hneg : parentOf s1.parents i < 0
    · rw [if_pos hneg]
    · rw [if_neg hneg]; simp only [id]; omega
  par1 := by intro i hi; have := h1.par i hi; omega
  closed := by
    intro c hc i hi hp
    by_cases hc1 : c < s1.numLinks
    · exact ⟨c, hc1, rfl⟩
    · exfalso
      have hc' : c = (c - s1.numLinks) + s1.numLinks := by omega
      rw [hc'] at hp
      have hp' : parentOf (s1.parents ++ Kin.shiftParents s1.numLinks s2.parents)
          (c - s1.numLinks + s1.numLinks) = (i : Int) := hp
      rw [parentOf_union_right _ _ _ h1.plen] at hp'
      split at hp' <;> omega
  plen1 := h1.plen
  plen := by
    rw [unionSys_numLinks]
    simp only [unionSys, List.length_append, Kin.shiftParents, List.length_map, h1.plen, h2.plen]
  llen1 := h1.llen
  llen := by
    rw [unionSys_numLinks]
    simp only [unionSys, List.length_append, h1.llen, h2.llen]
  hasLimit := rfl
  gravity := rfl
  dt := rfl
  velDamping := rfl
  angDamping := rfl
  inertiaScale := rfl

theorem emb_right : Emb (· + s1.numLinks) s2 (unionSys s1 s2) where
  lt := by intro i hi; simp only [unionSys_numLinks]; omega
  inj := by
    intro i j _ _ h
    have h' : i + s1.numLinks = j + s1.numLinks := h
    omega
  link := by
    intro i hi
    exact getD_append_right' s1.links s2.links default i h1.llen
  par := by
    intro i hi
    show parentOf (s1.parents ++ Kin.shiftParents s1.numLinks s2.parents) (i + s1.numLinks) = _
    rw [parentOf_union_right _ _ _ h1.plen]
    have := (h2.par i hi).1
    unfold mapPar
    by_cases hneg : parentOf s2.parents i < 0
    · rw [if_pos hneg, if_pos hneg]
    · rw [if_neg hneg, if_neg hneg]; push_cast; omega
  par1 := by intro i hi; have := h2.par i hi; omega
  closed := by
    intro c hc i hi hp
    by_cases hc1 : c < s1.numLinks
    · exfalso
      have hp' : parentOf (s1.parents ++ Kin.shiftParents s1.numLinks s2.parents) c
          = ((i + s1.numLinks : Nat) : Int) := hp
      rw [parentOf_union_left _ _ (by rw [h1.plen]; exact hc1)] at hp'
      have := (h1.par c hc1).2
      push_cast at hp'
      omega
    · refine ⟨c - s1.numLinks, ?_, by omega⟩
      simp only [unionSys_numLinks] at hc
      omega
  plen1 := h2.plen
  plen := by
    rw [unionSys_numLinks]
    simp only [unionSys, List.length_append, Kin.shiftParents, List.length_map, h1.plen, h2.plen]
  llen1 := h2.llen
  llen := by
    rw [unionSys_numLinks]
    simp only [unionSys, List.length_append, h1.llen, h2.llen]
  hasLimit := hg.hasLimit
  gravity := hg.gravity
  dt := hg.dt
  velDamping := hg.velDamping
  angDamping := hg.angDamping
  inertiaScale := hg.inertiaScale

end unionEmb

/-! ## actuator torques and the per-link slicing of a disjoint union -/

theorem toTau_eq (s : Sys ℝ) (act q qd : List ℝ) :
    toTau s act q qd
      = segmentSum (List.zipWith (fun a u => actForce a u (nthS q a.qId) (nthS qd a.qdId)) s.acts act)
          (s.acts.map fun a => (a.qdId : Int)) s.nv := by
  unfold toTau
  by_cases h : s.acts.length = 0
  · rw [if_pos h]
    have : s.acts = [] := List.length_eq_zero_iff.mp h
    rw [this]
    simp [segmentSum, tab]
  · rw [if_neg h]

theorem toTau_length (s : Sys ℝ) (act q qd : List ℝ) : (toTau s act q qd).length = s.nv := by
  rw [toTau_eq]; simp [segmentSum, tab_length]

theorem actForce_shift (dq dv : Nat) (a : ActP ℝ) (u x y : ℝ) :
    actForce (shiftAct dq dv a) u x y = actForce a u x y := rfl

/-- **`actuator.to_tau` of a disjoint union** is the concatenation of the two torque vectors -/
theorem toTau_union (s1 s2 : Sys ℝ) (act1 act2 q1 q2 qd1 qd2 : List ℝ)
    (hact : act1.length = s1.acts.length) (hq : q1.length = s1.nq) (hqd : qd1.length = s1.nv)
    (hacts : ∀ a ∈ s1.acts, a.qId < s1.nq ∧ a.qdId < s1.nv) :
    toTau (unionSys s1 s2) (act1 ++ act2) (q1 ++ q2) (qd1 ++ qd2)
      = toTau s1 act1 q1 qd1 ++ toTau s2 act2 q2 qd2 := by
  rw [toTau_eq, toTau_eq, toTau_eq, unionSys_nv]
  show segmentSum (List.zipWith _ (s1.acts ++ s2.acts.map (shiftAct s1.nq s1.nv)) (act1 ++ act2))
      ((s1.acts ++ s2.acts.map (shiftAct s1.nq s1.nv)).map fun a => (a.qdId : Int)) (s1.nv + s2.nv) = _
  rw [List.zipWith_append hact.symm, List.map_append, List.map_map]
  have hids : (s2.acts.map ((fun a : ActP ℝ => (a.qdId : Int)) ∘ shiftAct s1.nq s1.nv))
      = (s2.acts.map fun a => (a.qdId : Int)).map (· + (s1.nv : Int)) := by
    rw [List.map_map]
    apply List.map_congr_left
    intro a _
    simp [shiftAct]
  rw [hids, segmentSum_union _ _ _ _ _ _ (by simp [hact]) (by
      intro id hid
      obtain ⟨a, ha, rfl⟩ := List.mem_map.mp hid
      exact_mod_cast (hacts a ha).2) (by
      intro id hid
      obtain ⟨a, ha, rfl⟩ := List.mem_map.mp hid
      exact Int.natCast_nonneg _)]
  congr 2
  · apply zipWith_congr_mem
    intro a ha u
    rw [show nthS (q1 ++ q2) a.qId = nthS q1 a.qId from
        getD_append_left' q1 q2 0 (by rw [hq]; exact (hacts a ha).1),
      show nthS (qd1 ++ qd2) a.qdId = nthS qd1 a.qdId from
        getD_append_left' qd1 qd2 0 (by rw [hqd]; exact (hacts a ha).2)]
  · rw [List.zipWith_map_left]
    apply zipWith_congr_mem
    intro a ha u
    rw [actForce_shift]
    show actForce a u (nthS (q1 ++ q2) (a.qId + s1.nq)) (nthS (qd1 ++ qd2) (a.qdId + s1.nv)) = _
    rw [show nthS (q1 ++ q2) (a.qId + s1.nq) = nthS q2 a.qId from getD_append_right' q1 q2 0 _ hq,
      show nthS (qd1 ++ qd2) (a.qdId + s1.nv) = nthS qd2 a.qdId from getD_append_right' qd1 qd2 0 _ hqd]

/-- the per-link slicing (`scan.link_types`) of concatenated type/`qd`/dof arrays is the
concatenation of the slicings (the `q` argument of the joint-force scan is empty) -/
theorem linkSlices_nil_append (t1 t2 : List LinkType) (qd1 qd2 : List ℝ) (d1 d2 : List (DofP ℝ))
    (h1 : qd1.length = (t1.map LinkType.qdWidth).sum) (h2 : d1.length = (t1.map LinkType.qdWidth).sum) :
    Kin.linkSlices (t1 ++ t2) ([] : List ℝ) (qd1 ++ qd2) (d1 ++ d2)
      = Kin.linkSlices t1 [] qd1 d1 ++ Kin.linkSlices t2 [] qd2 d2 := by
  induction t1 generalizing qd1 d1 with
  | nil =>
    simp only [List.map_nil, List.sum_nil, List.length_eq_zero_iff] at h1 h2
    subst h1; subst h2
    simp [Kin.linkSlices]
  | cons t ts ih =>
    simp only [List.map_cons, List.sum_cons] at h1 h2
    simp only [List.cons_append, Kin.linkSlices, List.take_nil, List.drop_nil]
    rw [List.take_append_of_le_length (by omega), List.take_append_of_le_length (by omega),
      List.drop_append_of_le_length (by omega), List.drop_append_of_le_length (by omega),
      ih _ _ (by simp; omega) (by simp; omega)]

theorem insAgree_left (s1 s2 : Sys ℝ) (tau1 tau2 : List ℝ) (h1 : WFParts s1)
    (ht : tau1.length = s1.nv) :
    InsAgree id s1 (unionSys s1 s2) tau1 (tau1 ++ tau2) := by
  intro i hi
  show (Kin.linkSlices (s1.types ++ s2.types) [] (tau1 ++ tau2) (s1.dofs ++ s2.dofs))[i]? = _
  rw [linkSlices_nil_append _ _ _ _ _ _ ht h1.dlen,
    List.getElem?_append_left (by rw [Kin.linkSlices_length]; exact hi)]

theorem insAgree_right (s1 s2 : Sys ℝ) (tau1 tau2 : List ℝ) (h1 : WFParts s1)
    (ht : tau1.length = s1.nv) :
    InsAgree (· + s1.numLinks) s2 (unionSys s1 s2) tau2 (tau1 ++ tau2) := by
  intro i hi
  show (Kin.linkSlices (s1.types ++ s2.types) [] (tau1 ++ tau2) (s1.dofs ++ s2.dofs))[i + s1.numLinks]? = _
  rw [linkSlices_nil_append _ _ _ _ _ _ ht h1.dlen,
    List.getElem?_append_right (by rw [Kin.linkSlices_length]; exact Nat.le_add_left _ _),
    Kin.linkSlices_length]
  congr 1
  show i + s1.types.length - s1.types.length = i
  omega

/-! ## components: the whole step of a disjoint union -/

/-- the lengths `State.WF` guarantees -/
structure StLens (s : Sys ℝ) (st : Spring.State ℝ) : Prop where
  q : st.q.length = s.nq
  qd : st.qd.length = s.nv
  x : st.x.length = s.numLinks
  xd : st.xd.length = s.numLinks
  x_i : st.x_i.length = s.numLinks
  xd_i : st.xd_i.length = s.numLinks
  j : st.j.length = s.numLinks
  jd : st.jd.length = s.numLinks
  a_p : st.a_p.length = s.numLinks
  a_c : st.a_c.length = s.numLinks
  i_inv : st.i_inv.length = s.numLinks
  mass : st.mass.length = s.numLinks

theorem StLens.of_wf {s : Sys ℝ} {st : Spring.State ℝ} (h : Spring.State.WF s st = true) :
    StLens s st := by
  simp only [Spring.State.WF, Bool.and_eq_true, beq_iff_eq] at h
  obtain ⟨⟨⟨⟨⟨⟨⟨⟨⟨⟨⟨h1, h2⟩, h3⟩, h4⟩, h5⟩, h6⟩, h7⟩, h8⟩, h9⟩, h10⟩, h11⟩, h12⟩ := h
  exact ⟨h1, h2, h3, h4, h5, h6, h7, h8, h9, h10, h11, h12⟩

/-- what the components theorem needs from `kinematics.inverse` of the three systems: the inverse
of the union, applied to concatenated joint coordinates, is the concatenation of the inverses
(the real `kinematics.inverse` computes every link's `q`/`qd` slice from that link's own row) -/
def InvSplit (n1 : Nat) (inv12 inv1 inv2 : List (Tf ℝ) → List (Motion ℝ) → List ℝ × List ℝ) : Prop :=
  ∀ (j1 j2 : List (Tf ℝ)) (jd1 jd2 : List (Motion ℝ)), j1.length = n1 → jd1.length = n1 →
    inv12 (j1 ++ j2) (jd1 ++ jd2)
      = ((inv1 j1 jd1).1 ++ (inv2 j2 jd2).1, (inv1 j1 jd1).2 ++ (inv2 j2 jd2).2)

theorem restrIn_left {s1 s2 : Sys ℝ} {st1 st2 : Spring.State ℝ} (hl1 : StLens s1 st1)
    (hl2 : StLens s2 st2) : RestrIn id s1 (unionSys s1 s2) st1 (unionState st1 st2) where
  x := restr_id_append _ _ hl1.x
  x_i := restr_id_append _ _ hl1.x_i
  xd_i := restr_id_append _ _ hl1.xd_i
  j := restr_id_append _ _ hl1.j
  jd := restr_id_append _ _ hl1.jd
  a_p := restr_id_append _ _ hl1.a_p
  a_c := restr_id_append _ _ hl1.a_c
  mass := restrS_id_append _ _ hl1.mass
  x_il := by
    rw [unionSys_numLinks]; simp only [unionState, List.length_append, hl1.x_i, hl2.x_i]
  x_il1 := hl1.x_i

theorem restrIn_right {s1 s2 : Sys ℝ} {st1 st2 : Spring.State ℝ} (hl1 : StLens s1 st1)
    (hl2 : StLens s2 st2) :
    RestrIn (· + s1.numLinks) s2 (unionSys s1 s2) st2 (unionState st1 st2) where
  x := restr_shift_append _ _ hl1.x _
  x_i := restr_shift_append _ _ hl1.x_i _
  xd_i := restr_shift_append _ _ hl1.xd_i _
  j := restr_shift_append _ _ hl1.j _
  jd := restr_shift_append _ _ hl1.jd _
  a_p := restr_shift_append _ _ hl1.a_p _
  a_c := restr_shift_append _ _ hl1.a_c _
  mass := restrS_shift_append _ _ hl1.mass _
  x_il := by
    rw [unionSys_numLinks]; simp only [unionState, List.length_append, hl1.x_i, hl2.x_i]
  x_il1 := hl2.x_i

/-- **C05, mechanically disconnected parts, whole spring step (contact-free).**  One
`spring.pipeline.step` of the disjoint union of two systems, on the concatenated state and
controls, is the concatenation of the two separate steps — as an equality of whole states. -/
theorem spring_step_union (inv12 inv1 inv2 : List (Tf ℝ) → List (Motion ℝ) → List ℝ × List ℝ)
    (s1 s2 : Sys ℝ) (st1 st2 : Spring.State ℝ) (act1 act2 : List ℝ)
    (h1 : WFParts s1) (h2 : WFParts s2) (hg : SameGlobals s1 s2)
    (hl1 : StLens s1 st1) (hl2 : StLens s2 st2) (hact : act1.length = s1.acts.length)
    (hinv : InvSplit s1.numLinks inv12 inv1 inv2) :
    Spring.step inv12 (fun _ => []) (unionSys s1 s2) (unionState st1 st2) (act1 ++ act2)
      = unionState (Spring.step inv1 (fun _ => []) s1 st1 act1)
          (Spring.step inv2 (fun _ => []) s2 st2 act2) := by
  have hE1 := emb_left h1 h2 hg
  have hE2 := emb_right h1 h2 hg
  have htau : toTau (unionSys s1 s2) (act1 ++ act2) (unionState st1 st2).q (unionState st1 st2).qd
      = toTau s1 act1 st1.q st1.qd ++ toTau s2 act2 st2.q st2.qd :=
    toTau_union s1 s2 act1 act2 st1.q st2.q st1.qd st2.qd hact hl1.q hl1.qd h1.acts
  have hR1 := step_restr hE1 (restrIn_left hl1 hl2) act1 (act1 ++ act2)
    (by rw [htau]; exact insAgree_left s1 s2 _ _ h1 (toTau_length _ _ _ _)) inv12 inv1
  have hR2 := step_restr hE2 (restrIn_right hl1 hl2) act2 (act1 ++ act2)
    (by rw [htau]; exact insAgree_right s1 s2 _ _ h1 (toTau_length _ _ _ _)) inv12 inv2
  have hL := step_lens inv12 (unionSys s1 s2) (unionState st1 st2) (act1 ++ act2) hE1.llen
  have hL1 := step_lens inv1 s1 st1 act1 h1.llen
  have hL2 := step_lens inv2 s2 st2 act2 h2.llen
  rw [unionSys_numLinks] at hL
  have hj := eq_append_of_restr hL.j hL1.j hL2.j hR1.j hR2.j
  have hjd := eq_append_of_restr hL.jd hL1.jd hL2.jd hR1.jd hR2.jd
  have hqq := hinv (Spring.step inv1 (fun _ => []) s1 st1 act1).j
    (Spring.step inv2 (fun _ => []) s2 st2 act2).j (Spring.step inv1 (fun _ => []) s1 st1 act1).jd
    (Spring.step inv2 (fun _ => []) s2 st2 act2).jd hL1.j hL1.jd
  apply state_ext
  · rw [step_q, hj, hjd, hqq]; rfl
  · rw [step_qd, hj, hjd, hqq]; rfl
  · exact eq_append_of_restr hL.x hL1.x hL2.x hR1.x hR2.x
  · exact eq_append_of_restr hL.xd hL1.xd hL2.xd hR1.xd hR2.xd
  · exact eq_append_of_restr hL.x_i hL1.x_i hL2.x_i hR1.x_i hR2.x_i
  · exact eq_append_of_restr hL.xd_i hL1.xd_i hL2.xd_i hR1.xd_i hR2.xd_i
  · exact hj
  · exact hjd
  · exact eq_append_of_restr hL.a_p hL1.a_p hL2.a_p hR1.a_p hR2.a_p
  · exact eq_append_of_restr hL.a_c hL1.a_c hL2.a_c hR1.a_c hR2.a_c
  · exact eq_append_of_restr hL.i_inv hL1.i_inv hL2.i_inv hR1.i_inv hR2.i_inv
  · rfl

/-! ## sibling order: relabelling the links -/

/-- a per-link array relabelled by `σ` (new index ↦ old index) -/
def permList {β : Type} [Inhabited β] (σ : Nat → Nat) (n : Nat) (xs : List β) : List β :=
  tab n fun k => nth xs (σ k)
def permListS (σ : Nat → Nat) (n : Nat) (xs : List ℝ) : List ℝ := tab n fun k => nthS xs (σ k)

/-- the state relabelled by `σ`; `q'`, `qd'` are its generalized coordinates (the blockwise
relabelling of `st.q`, `st.qd`; the step reads them only through `actuator.to_tau`) -/
def permState (σ : Nat → Nat) (n : Nat) (st : Spring.State ℝ) (q' qd' : List ℝ) : Spring.State ℝ :=
  { q := q', qd := qd', x := permList σ n st.x, xd := permList σ n st.xd,
    x_i := permList σ n st.x_i, xd_i := permList σ n st.xd_i, j := permList σ n st.j,
    jd := permList σ n st.jd, a_p := permList σ n st.a_p, a_c := permList σ n st.a_c,
    i_inv := permList σ n st.i_inv, mass := permListS σ n st.mass }

/-- `s'` is `s` with its links relabelled by the bijection `σ` (new index ↦ old index, inverse `τ`):
per-link parameters moved, parent ids renamed (`Kin.permParents`, as in
`scan_sibling_permutation`), same options.  Nothing is assumed about the order of parents and
children in either numbering: a spring step does not scan the tree. -/
structure Relabel (σ τ : Nat → Nat) (s s' : Sys ℝ) : Prop where
  n' : s'.numLinks = s.numLinks
  σlt : ∀ k, k < s.numLinks → σ k < s.numLinks
  τlt : ∀ i, i < s.numLinks → τ i < s.numLinks
  τσ : ∀ k, k < s.numLinks → τ (σ k) = k
  στ : ∀ i, i < s.numLinks → σ (τ i) = i
  links : s'.links = permList σ s.numLinks s.links
  parents : s'.parents = Kin.permParents s.numLinks σ τ s.parents
  plen : s.parents.length = s.numLinks
  llen : s.links.length = s.numLinks
  par : ∀ i, i < s.numLinks → -1 ≤ parentOf s.parents i ∧ parentOf s.parents i < (s.numLinks : Int)
  hasLimit : s.hasLimit = s'.hasLimit
  gravity : s.gravity = s'.gravity
  dt : s.dt = s'.dt
  velDamping : s.velDamping = s'.velDamping
  angDamping : s.angDamping = s'.angDamping
  inertiaScale : s.springInertiaScale = s'.springInertiaScale

theorem parentOf_perm (n : Nat) (σ τ : Nat → Nat) (ps : List Int) {k : Nat} (hk : k < n) :
    parentOf (Kin.permParents n σ τ ps) k
      = if parentOf ps (σ k) < 0 then parentOf ps (σ k) else ((τ (parentOf ps (σ k)).toNat : Nat) : Int) := by
  unfold parentOf Kin.permParents
  simp only [List.getD_eq_getElem?_getD, List.getElem?_map, List.getElem?_range hk, Option.map_some,
    Option.getD_some]

theorem Relabel.emb {σ τ : Nat → Nat} {s s' : Sys ℝ} (h : Relabel σ τ s s') : Emb σ s' s where
  lt := by intro k hk; rw [h.n'] at hk; exact h.σlt k hk
  inj := by
    intro i j hi hj hij
    rw [h.n'] at hi hj
    rw [← h.τσ i hi, ← h.τσ j hj, hij]
  link := by
    intro k hk
    rw [h.n'] at hk
    rw [h.links, permList, nth_tab _ hk]
  par := by
    intro k hk
    rw [h.n'] at hk
    rw [h.parents, parentOf_perm _ _ _ _ hk]
    obtain ⟨p1, p2⟩ := h.par (σ k) (h.σlt k hk)
    unfold mapPar
    by_cases hneg : parentOf s.parents (σ k) < 0
    · rw [if_pos hneg, if_pos hneg]
    · rw [if_neg hneg]
      have hnn : ¬ (((τ (parentOf s.parents (σ k)).toNat : Nat) : Int) < 0) := by omega
      rw [if_neg hnn, Int.toNat_natCast, h.στ _ (by omega)]
      omega
  par1 := by
    intro k hk
    rw [h.n'] at hk ⊢
    rw [h.parents, parentOf_perm _ _ _ _ hk]
    obtain ⟨p1, p2⟩ := h.par (σ k) (h.σlt k hk)
    by_cases hneg : parentOf s.parents (σ k) < 0
    · rw [if_pos hneg]; omega
    · rw [if_neg hneg]
      have := h.τlt (parentOf s.parents (σ k)).toNat (by omega)
      omega
  closed := by
    intro c hc i hi _
    rw [h.n'] at hi ⊢
    exact ⟨τ c, h.τlt c hc, (h.στ c hc).symm⟩
  plen1 := by rw [h.parents, h.n']; simp [Kin.permParents]
  plen := h.plen
  llen1 := by rw [h.links, h.n', permList, tab_length]
  llen := h.llen
  hasLimit := h.hasLimit
  gravity := h.gravity
  dt := h.dt
  velDamping := h.velDamping
  angDamping := h.angDamping
  inertiaScale := h.inertiaScale

theorem restr_permList {β : Type} [Inhabited β] (σ : Nat → Nat) (n : Nat) (xs : List β) :
    Restr σ n xs (permList σ n xs) := by
  intro k hk; rw [permList, nth_tab _ hk]

theorem restrS_permListS (σ : Nat → Nat) (n : Nat) (xs : List ℝ) :
    RestrS σ n xs (permListS σ n xs) := by
  intro k hk; rw [permListS, nthS_tab _ hk]

theorem eq_permList_of_restr {β : Type} [Inhabited β] {σ : Nat → Nat} {n : Nat} {big small : List β}
    (hs : small.length = n) (h : Restr σ n big small) : small = permList σ n big := by
  rw [eq_tab_of_length hs, permList]
  apply tab_congr
  intro k hk
  exact (h k hk).symm

/-- **C05, sibling order, whole spring step (contact-free).**  For a relabelling `σ` of the links,
one `spring.pipeline.step` of the relabelled system on the relabelled state is the relabelling of
the step: every per-link array is permuted by `σ`; `q`, `qd` are `kinematics.inverse` (of the
relabelled system) of the permuted `j`, `jd`.  The hypothesis `hins` says that the slices of the
actuator torque vector handed to the links agree (`InsAgree`; see `insAgree_of_no_acts`). -/
theorem spring_step_relabel (inv inv' : List (Tf ℝ) → List (Motion ℝ) → List ℝ × List ℝ)
    {σ τ : Nat → Nat} {s s' : Sys ℝ} (hR : Relabel σ τ s s') (st : Spring.State ℝ)
    (act act' q' qd' : List ℝ) (hxi : st.x_i.length = s.numLinks)
    (hins : InsAgree σ s' s (toTau s' act' q' qd') (toTau s act st.q st.qd)) :
    Spring.step inv' (fun _ => []) s' (permState σ s.numLinks st q' qd') act'
      = permState σ s.numLinks (Spring.step inv (fun _ => []) s st act)
          (inv' (permList σ s.numLinks (Spring.step inv (fun _ => []) s st act).j)
                (permList σ s.numLinks (Spring.step inv (fun _ => []) s st act).jd)).1
          (inv' (permList σ s.numLinks (Spring.step inv (fun _ => []) s st act).j)
                (permList σ s.numLinks (Spring.step inv (fun _ => []) s st act).jd)).2 := by
  have hE := hR.emb
  have hin : RestrIn σ s' s (permState σ s.numLinks st q' qd') st := by
    rw [← hR.n']
    refine ⟨restr_permList _ _ _, restr_permList _ _ _, restr_permList _ _ _, restr_permList _ _ _,
      restr_permList _ _ _, restr_permList _ _ _, restr_permList _ _ _, restrS_permListS _ _ _, hxi, ?_⟩
    show (permList σ s'.numLinks st.x_i).length = s'.numLinks
    rw [permList, tab_length]
  have hRes := step_restr hE hin act' act hins inv inv'
  have hL := step_lens inv' s' (permState σ s.numLinks st q' qd') act' hE.llen1
  rw [hR.n'] at hL hRes
  have hj := eq_permList_of_restr hL.j hRes.j
  have hjd := eq_permList_of_restr hL.jd hRes.jd
  apply state_ext
  · rw [step_q, hj, hjd]; rfl
  · rw [step_qd, hj, hjd]; rfl
  · exact eq_permList_of_restr hL.x hRes.x
  · exact eq_permList_of_restr hL.xd hRes.xd
  · exact eq_permList_of_restr hL.x_i hRes.x_i
  · exact eq_permList_of_restr hL.xd_i hRes.xd_i
  · exact hj
  · exact hjd
  · exact eq_permList_of_restr hL.a_p hRes.a_p
  · exact eq_permList_of_restr hL.a_c hRes.a_c
  · exact eq_permList_of_restr hL.i_inv hRes.i_inv
  · rfl

/-! ## the flat arrays of a relabelled system: blockwise permutation of dofs, torques, actuators -/

/-- start of link `k`'s block in the flat `qd`/dof arrays (`scan.link_types` running offset) -/
def qdOff (ts : List LinkType) (k : Nat) : Nat := (Kin.offsets LinkType.qdWidth ts 0).getD k 0

/-- the link types and the dof array of `s'` are those of `s` permuted blockwise by `σ` -/
def DofsRelabel (σ : Nat → Nat) (s s' : Sys ℝ) : Prop :=
  ∀ k t, s'.types[k]? = some t →
    s.types[σ k]? = some t
    ∧ Kin.slice s'.dofs (qdOff s'.types k) t.qdWidth = Kin.slice s.dofs (qdOff s.types (σ k)) t.qdWidth

/-- one actuator of `s'` against the same actuator of `s`: same parameters (`actForce` reads
everything but the ids), it reads equal coordinates of `(q', qd')` and `(q, qd)`, and it drives dof
`r` of new link `k` iff the old one drives dof `r` of old link `σ k` -/
def ActRel (σ : Nat → Nat) (s s' : Sys ℝ) (q qd q' qd' : List ℝ) (a' a : ActP ℝ) : Prop :=
  (∀ u x y, actForce a' u x y = actForce a u x y)
  ∧ nthS q' a'.qId = nthS q a.qId ∧ nthS qd' a'.qdId = nthS qd a.qdId
  ∧ ∀ k t r, s'.types[k]? = some t → r < t.qdWidth →
      (a'.qdId = qdOff s'.types k + r ↔ a.qdId = qdOff s.types (σ k) + r)

section flat
variable {M : Type} [AddCommMonoid M]

theorem segAt_forall₂ (d' d : Nat) {l' l : List (M × Int)}
    (h : List.Forall₂ (fun p' p => p'.1 = p.1 ∧ (p'.2 = (d' : Int) ↔ p.2 = (d : Int))) l' l) :
    segAt l' d' = segAt l d := by
  induction h with
  | nil => rw [segAt_nil, segAt_nil]
  | @cons p' p l' l hp _ ih =>
    rw [segAt_cons, segAt_cons, ih, hp.1]
    by_cases hd : p.2 = (d : Int)
    · rw [if_pos hd, if_pos (hp.2.mpr hd)]
    · rw [if_neg hd, if_neg (fun h => hd (hp.2.mp h))]

theorem zip_forces_forall₂ {A U : Type} (R : A → A → Prop) (F' F : A → U → M) (i' i : A → Int)
    (d' d : Nat) (hR : ∀ a' a, R a' a → (∀ u, F' a' u = F a u) ∧ (i' a' = (d' : Int) ↔ i a = (d : Int)))
    {as' as : List A} (h : List.Forall₂ R as' as) (us : List U) :
    List.Forall₂ (fun (p' p : M × Int) => p'.1 = p.1 ∧ (p'.2 = (d' : Int) ↔ p.2 = (d : Int)))
      ((List.zipWith F' as' us).zip (as'.map i')) ((List.zipWith F as us).zip (as.map i)) := by
  induction h generalizing us with
  | nil => simp
  | @cons a' a as' as ha _ ih =>
    cases us with
    | nil => simp
    | cons u us =>
      simp only [List.zipWith_cons_cons, List.map_cons, List.zip_cons_cons]
      exact List.Forall₂.cons ⟨(hR a' a ha).1 u, (hR a' a ha).2⟩ (ih us)

end flat

theorem nthS_toTau (s : Sys ℝ) (act q qd : List ℝ) {d : Nat} (hd : d < s.nv) :
    nthS (toTau s act q qd) d
      = segAt ((List.zipWith (fun a u => actForce a u (nthS q a.qId) (nthS qd a.qdId)) s.acts act).zip
          (s.acts.map fun a => (a.qdId : Int))) d := by
  rw [toTau_eq, nthS_segmentSum_eq _ _ hd]

theorem slice_eq_of_getD (xs ys : List ℝ) (a b w : Nat) (hx : a + w ≤ xs.length)
    (hy : b + w ≤ ys.length) (h : ∀ r, r < w → nthS xs (a + r) = nthS ys (b + r)) :
    Kin.slice xs a w = Kin.slice ys b w := by
  rw [← Kin.map_range'_getD xs 0 a w hx, ← Kin.map_range'_getD ys 0 b w hy,
    List.range'_eq_map_range, List.range'_eq_map_range, List.map_map, List.map_map]
  apply List.map_congr_left
  intro r hr
  exact h r (List.mem_range.mp hr)

theorem linkSlices_nil_getElem? (ts : List LinkType) (tau : List ℝ) (ds : List (DofP ℝ)) (k : Nat)
    (t : LinkType) (ht : ts[k]? = some t) :
    (Kin.linkSlices ts ([] : List ℝ) tau ds)[k]?
      = some ⟨t, [], Kin.slice tau (qdOff ts k) t.qdWidth, Kin.slice ds (qdOff ts k) t.qdWidth⟩ := by
  obtain ⟨hk, rfl⟩ := List.getElem?_eq_some_iff.mp ht
  have h := Kin.linkSlices_getElem ts ([] : List ℝ) tau ds 0 0 k hk
  simp only [List.drop_zero] at h
  rw [List.getElem?_eq_getElem (by rw [Kin.linkSlices_length]; exact hk), h]
  simp [Kin.slice, qdOff]

/-- **the torque slices of a relabelled system**: if the types/dofs are permuted blockwise and the
actuators are the same actuators re-indexed accordingly (same order, same controls), every link
receives the same slice of `actuator.to_tau` in both numberings -/
theorem insAgree_of_flat (σ : Nat → Nat) (s s' : Sys ℝ) (act q qd q' qd' : List ℝ)
    (hD : DofsRelabel σ s s')
    (hA : List.Forall₂ (ActRel σ s s' q qd q' qd') s'.acts s.acts) :
    InsAgree σ s' s (toTau s' act q' qd') (toTau s act q qd) := by
  intro k hk
  have hk' : k < s'.types.length := hk
  obtain ⟨ht, hdofs⟩ := hD k s'.types[k] (List.getElem?_eq_getElem hk')
  rw [linkSlices_nil_getElem? s.types _ _ (σ k) _ ht,
    linkSlices_nil_getElem? s'.types _ _ k _ (List.getElem?_eq_getElem hk'), hdofs]
  congr 2
  obtain ⟨hσk, hteq⟩ := List.getElem?_eq_some_iff.mp ht
  have hb' := (Kin.offsets_bound LinkType.qdWidth s'.types 0 k hk').2
  have hb := (Kin.offsets_bound LinkType.qdWidth s.types 0 (σ k) hσk).2
  rw [hteq] at hb
  simp only [Nat.zero_add] at hb hb'
  have hb'' : qdOff s'.types k + (s'.types[k]).qdWidth ≤ s'.nv := hb'
  have hb2 : qdOff s.types (σ k) + (s'.types[k]).qdWidth ≤ s.nv := hb
  apply Eq.symm
  apply slice_eq_of_getD _ _ _ _ _ (by rw [toTau_length]; exact hb'') (by rw [toTau_length]; exact hb2)
  intro r hr
  rw [nthS_toTau _ _ _ _ (by omega), nthS_toTau _ _ _ _ (by omega)]
  apply segAt_forall₂
  apply zip_forces_forall₂ (ActRel σ s s' q qd q' qd') _ _ _ _ _ _ _ hA
  intro a' a hR
  obtain ⟨hf, hq, hqd, hid⟩ := hR
  refine ⟨fun u => ?_, ?_⟩
  · rw [hq, hqd, hf]
  · have := hid k _ r (List.getElem?_eq_getElem hk') hr
    constructor
    · intro h; exact_mod_cast this.mp (by exact_mod_cast h)
    · intro h; exact_mod_cast this.mpr (by exact_mod_cast h)

/-! ## components: whole trajectories -/

/-- `kinematics.inverse` returns `nq` positions and `nv` velocities (for one row per link) -/
def InvLen (s : Sys ℝ) (inv : List (Tf ℝ) → List (Motion ℝ) → List ℝ × List ℝ) : Prop :=
  ∀ j jd, j.length = s.numLinks → jd.length = s.numLinks →
    (inv j jd).1.length = s.nq ∧ (inv j jd).2.length = s.nv

theorem StLens.step {s : Sys ℝ} {st : Spring.State ℝ} (h : StLens s st)
    (inv : List (Tf ℝ) → List (Motion ℝ) → List ℝ × List ℝ) (hinv : InvLen s inv) (act : List ℝ)
    (hlinks : s.links.length = s.numLinks) : StLens s (Spring.step inv (fun _ => []) s st act) := by
  have hL := step_lens inv s st act hlinks
  refine ⟨?_, ?_, hL.x, hL.xd, hL.x_i, hL.xd_i, hL.j, hL.jd, hL.a_p, hL.a_c, hL.i_inv, ?_⟩
  · rw [step_q]; exact (hinv _ _ hL.j hL.jd).1
  · rw [step_qd]; exact (hinv _ _ hL.j hL.jd).2
  · rw [step_mass]; exact h.mass

/-- **C05, mechanically disconnected parts, any number of contact-free spring steps**: the union,
driven by the concatenated controls, evolves exactly as the two parts evolve alone -/
theorem spring_steps_union (inv12 inv1 inv2 : List (Tf ℝ) → List (Motion ℝ) → List ℝ × List ℝ)
    (s1 s2 : Sys ℝ) (h1 : WFParts s1) (h2 : WFParts s2) (hg : SameGlobals s1 s2)
    (hinv : InvSplit s1.numLinks inv12 inv1 inv2) (hi1 : InvLen s1 inv1) (hi2 : InvLen s2 inv2)
    (acts : List (List ℝ × List ℝ)) (hact : ∀ p ∈ acts, p.1.length = s1.acts.length) :
    ∀ (st1 st2 : Spring.State ℝ), StLens s1 st1 → StLens s2 st2 →
      steps inv12 (unionSys s1 s2) (unionState st1 st2) (acts.map fun p => p.1 ++ p.2)
        = unionState (steps inv1 s1 st1 (acts.map (·.1))) (steps inv2 s2 st2 (acts.map (·.2))) := by
  induction acts with
  | nil => intro st1 st2 _ _; rfl
  | cons p ps ih =>
    intro st1 st2 hl1 hl2
    simp only [steps, List.map_cons, List.foldl_cons]
    rw [spring_step_union inv12 inv1 inv2 s1 s2 st1 st2 p.1 p.2 h1 h2 hg hl1 hl2
      (hact p (by simp)) hinv]
    exact ih (fun q hq => hact q (by simp [hq])) _ _ (hl1.step inv1 hi1 p.1 h1.llen)
      (hl2.step inv2 hi2 p.2 h2.llen)

/-! ## components: `pipeline.init` of a disjoint union -/

theorem linkSlices_append (t1 t2 : List LinkType) (q1 q2 qd1 qd2 : List ℝ) (d1 d2 : List (DofP ℝ))
    (hq : q1.length = (t1.map LinkType.qWidth).sum) (h1 : qd1.length = (t1.map LinkType.qdWidth).sum)
    (h2 : d1.length = (t1.map LinkType.qdWidth).sum) :
    Kin.linkSlices (t1 ++ t2) (q1 ++ q2) (qd1 ++ qd2) (d1 ++ d2)
      = Kin.linkSlices t1 q1 qd1 d1 ++ Kin.linkSlices t2 q2 qd2 d2 := by
  induction t1 generalizing q1 qd1 d1 with
  | nil =>
    simp only [List.map_nil, List.sum_nil, List.length_eq_zero_iff] at hq h1 h2
    subst hq; subst h1; subst h2
    simp [Kin.linkSlices]
  | cons t ts ih =>
    simp only [List.map_cons, List.sum_cons] at hq h1 h2
    simp only [List.cons_append, Kin.linkSlices]
    rw [List.take_append_of_le_length (by omega), List.take_append_of_le_length (by omega),
      List.take_append_of_le_length (by omega), List.drop_append_of_le_length (by omega),
      List.drop_append_of_le_length (by omega), List.drop_append_of_le_length (by omega),
      ih _ _ _ (by simp; omega) (by simp; omega) (by simp; omega)]

theorem forward_def (s : Sys ℝ) (q qd : List ℝ) :
    Kin.forward s q qd
      = (Kin.scanFwd Kin.world s.parents
          ((s.links.zip (Kin.linkSlices s.types q qd s.dofs)).map (fun li =>
            (Kin.placeJoint li.1 (Kin.jcalc li.2).1,
             (⟨(Kin.jcalc li.2).2.ang, rotate (Kin.jcalc li.2).2.vel li.1.tf.rot⟩ : Motion ℝ))))).map
          (fun x => (⟨x.1.pos, normalize4 x.1.rot⟩, x.2)) := rfl

/-- **`kinematics.forward` of a disjoint union** is the concatenation of the two forward passes
(`scanFwd_disjoint_union` + the slicing of concatenated `q`, `qd`, dof arrays) -/
theorem forward_union (s1 s2 : Sys ℝ) (h1 : WFParts s1) (h2 : WFParts s2) (q1 q2 qd1 qd2 : List ℝ)
    (hq : q1.length = s1.nq) (hqd : qd1.length = s1.nv) :
    Kin.forward (unionSys s1 s2) (q1 ++ q2) (qd1 ++ qd2)
      = Kin.forward s1 q1 qd1 ++ Kin.forward s2 q2 qd2 := by
  rw [forward_def, forward_def, forward_def]
  show (Kin.scanFwd Kin.world (s1.parents ++ Kin.shiftParents s1.numLinks s2.parents)
      (((s1.links ++ s2.links).zip (Kin.linkSlices (s1.types ++ s2.types) (q1 ++ q2) (qd1 ++ qd2)
        (s1.dofs ++ s2.dofs))).map _)).map _ = _
  rw [linkSlices_append _ _ _ _ _ _ _ _ hq hqd h1.dlen,
    List.zip_append (by rw [Kin.linkSlices_length, h1.llen]; rfl), List.map_append, ← h1.plen,
    Kin.scanFwd_disjoint_union _ _ _ _ _
      (by simp [Kin.linkSlices_length, h1.llen, h1.plen]; rfl)
      (by simp [Kin.linkSlices_length, h2.llen, h2.plen]; rfl)
      (by
        intro i hi
        have := (h2.par i (by rw [← h2.plen]; exact hi)).2
        unfold parentOf at this
        rwa [List.getD_eq_getElem?_getD, List.getElem?_eq_getElem hi, Option.getD_some] at this),
    List.map_append]

section initStages
variable {ι : Nat → Nat} {s1 s : Sys ℝ} (hE : Emb ι s1 s)
include hE

theorem fromWorld_restr (x x1 : List (Tf ℝ)) (xd xd1 : List (Motion ℝ))
    (h1 : Restr ι s1.numLinks x x1) (h2 : Restr ι s1.numLinks xd xd1) :
    Restr ι s1.numLinks (Com.fromWorld s x xd).1 (Com.fromWorld s1 x1 xd1).1
    ∧ Restr ι s1.numLinks (Com.fromWorld s x xd).2 (Com.fromWorld s1 x1 xd1).2 := by
  unfold Com.fromWorld
  constructor
  · intro i hi
    simp only []
    rw [nth_tab _ (hE.lt i hi), nth_tab _ hi, h1 i hi, hE.link i hi]
  · intro i hi
    simp only []
    rw [nth_tab _ (hE.lt i hi), nth_tab _ hi, h1 i hi, h2 i hi, hE.link i hi]

end initStages

theorem effMass_union (s1 s2 : Sys ℝ) (hm : s1.springMassScale = s2.springMassScale) :
    effMass (unionSys s1 s2) = effMass s1 ++ effMass s2 := by
  unfold effMass
  show (s1.links ++ s2.links).map _ = _
  rw [List.map_append, ← hm]
  rfl

/-- **C05, mechanically disconnected parts, `spring.pipeline.init`**: the initial state of the
union at the concatenated coordinates is the concatenation of the two initial states -/
theorem spring_init_union (s1 s2 : Sys ℝ) (h1 : WFParts s1) (h2 : WFParts s2) (hg : SameGlobals s1 s2)
    (hm : s1.springMassScale = s2.springMassScale) (q1 q2 qd1 qd2 : List ℝ)
    (hq : q1.length = s1.nq) (hqd : qd1.length = s1.nv) :
    Spring.init (unionSys s1 s2) (q1 ++ q2) (qd1 ++ qd2)
      = unionState (Spring.init s1 q1 qd1) (Spring.init s2 q2 qd2) := by
  have hE1 := emb_left h1 h2 hg
  have hE2 := emb_right h1 h2 hg
  have hF1 := forward_length s1 q1 qd1 h1.llen h1.plen
  have hF2 := forward_length s2 q2 qd2 h2.llen h2.plen
  have hx1 : ((Kin.forward s1 q1 qd1).map (·.1)).length = s1.numLinks := by simp [hF1]
  have hxd1 : ((Kin.forward s1 q1 qd1).map (·.2)).length = s1.numLinks := by simp [hF1]
  have hx2 : ((Kin.forward s2 q2 qd2).map (·.1)).length = s2.numLinks := by simp [hF2]
  have hxd2 : ((Kin.forward s2 q2 qd2).map (·.2)).length = s2.numLinks := by simp [hF2]
  set x1 := (Kin.forward s1 q1 qd1).map (·.1) with hx1def
  set xd1 := (Kin.forward s1 q1 qd1).map (·.2) with hxd1def
  set x2 := (Kin.forward s2 q2 qd2).map (·.1) with hx2def
  set xd2 := (Kin.forward s2 q2 qd2).map (·.2) with hxd2def
  have hx : (Kin.forward (unionSys s1 s2) (q1 ++ q2) (qd1 ++ qd2)).map (·.1) = x1 ++ x2 := by
    rw [forward_union s1 s2 h1 h2 _ _ _ _ hq hqd, List.map_append]
  have hxd : (Kin.forward (unionSys s1 s2) (q1 ++ q2) (qd1 ++ qd2)).map (·.2) = xd1 ++ xd2 := by
    rw [forward_union s1 s2 h1 h2 _ _ _ _ hq hqd, List.map_append]
  have hxl : (x1 ++ x2).length = (unionSys s1 s2).numLinks := by
    rw [unionSys_numLinks, List.length_append, hx1, hx2]
  have hxdl : (xd1 ++ xd2).length = (unionSys s1 s2).numLinks := by
    rw [unionSys_numLinks, List.length_append, hxd1, hxd2]
  -- world_to_joint
  obtain ⟨a1, a2, a3, a4⟩ := worldToJoint_restr hE1 (x1 ++ x2) x1 (xd1 ++ xd2) xd1
    (restr_id_append _ _ hx1) (restr_id_append _ _ hxd1) hxl hx1 hxdl hxd1
  obtain ⟨b1, b2, b3, b4⟩ := worldToJoint_restr hE2 (x1 ++ x2) x2 (xd1 ++ xd2) xd2
    (restr_shift_append _ _ hx1 _) (restr_shift_append _ _ hxd1 _) hxl hx2 hxdl hxd2
  have hWl : (Kin.worldToJoint (unionSys s1 s2) (x1 ++ x2) (xd1 ++ xd2)).length
      = s1.numLinks + s2.numLinks := by
    rw [worldToJoint_eq_tab _ _ _ hE1.llen hxl hxdl, tab_length, unionSys_numLinks]
  have hWl1 : (Kin.worldToJoint s1 x1 xd1).length = s1.numLinks := by
    rw [worldToJoint_eq_tab _ _ _ h1.llen hx1 hxd1, tab_length]
  have hWl2 : (Kin.worldToJoint s2 x2 xd2).length = s2.numLinks := by
    rw [worldToJoint_eq_tab _ _ _ h2.llen hx2 hxd2, tab_length]
  -- from_world, inv_inertia
  obtain ⟨c1, c2⟩ := fromWorld_restr hE1 (x1 ++ x2) x1 (xd1 ++ xd2) xd1
    (restr_id_append _ _ hx1) (restr_id_append _ _ hxd1)
  obtain ⟨d1, d2⟩ := fromWorld_restr hE2 (x1 ++ x2) x2 (xd1 ++ xd2) xd2
    (restr_shift_append _ _ hx1 _) (restr_shift_append _ _ hxd1 _)
  have e1 := invInertia_restr hE1 (x1 ++ x2) x1 (restr_id_append _ _ hx1)
  have e2 := invInertia_restr hE2 (x1 ++ x2) x2 (restr_shift_append _ _ hx1 _)
  unfold Spring.init
  simp only [hx, hxd]
  apply state_ext
  · rfl
  · rfl
  · rfl
  · rfl
  · exact eq_append_of_restr (by simp [Com.fromWorld, tab_length]) (by simp [Com.fromWorld, tab_length])
      (by simp [Com.fromWorld, tab_length]) c1 d1
  · exact eq_append_of_restr (by simp [Com.fromWorld, tab_length]) (by simp [Com.fromWorld, tab_length])
      (by simp [Com.fromWorld, tab_length]) c2 d2
  · exact eq_append_of_restr (by rw [List.length_map]; exact hWl) (by rw [List.length_map]; exact hWl1)
      (by rw [List.length_map]; exact hWl2) a1 b1
  · exact eq_append_of_restr (by rw [List.length_map]; exact hWl) (by rw [List.length_map]; exact hWl1)
      (by rw [List.length_map]; exact hWl2) a2 b2
  · exact eq_append_of_restr (by rw [List.length_map]; exact hWl) (by rw [List.length_map]; exact hWl1)
      (by rw [List.length_map]; exact hWl2) a3 b3
  · exact eq_append_of_restr (by rw [List.length_map]; exact hWl) (by rw [List.length_map]; exact hWl1)
      (by rw [List.length_map]; exact hWl2) a4 b4
  · exact eq_append_of_restr (by simp [Com.invInertia, tab_length]) (by simp [Com.invInertia, tab_length])
      (by simp [Com.invInertia, tab_length]) e1 e2
  · exact effMass_union s1 s2 hm

theorem StLens.init (s : Sys ℝ) (h : WFParts s) (q qd : List ℝ) (hq : q.length = s.nq)
    (hqd : qd.length = s.nv) : StLens s (Spring.init s q qd) := by
  have hF := forward_length s q qd h.llen h.plen
  have hx : ((Kin.forward s q qd).map (·.1)).length = s.numLinks := by simp [hF]
  have hxd : ((Kin.forward s q qd).map (·.2)).length = s.numLinks := by simp [hF]
  have hW : (Kin.worldToJoint s ((Kin.forward s q qd).map (·.1)) ((Kin.forward s q qd).map (·.2))).length
      = s.numLinks := by rw [worldToJoint_eq_tab _ _ _ h.llen hx hxd, tab_length]
  refine ⟨hq, hqd, hx, hxd, by simp [Spring.init, Com.fromWorld, tab_length],
    by simp [Spring.init, Com.fromWorld, tab_length], ?_, ?_, ?_, ?_,
    by simp [Spring.init, Com.invInertia, tab_length], by simp [Spring.init, effMass, h.llen]⟩
  all_goals (show (List.map _ _).length = _; rw [List.length_map]; exact hW)

/-- **C05, mechanically disconnected parts, whole contact-free spring trajectories**: `init` at the
concatenated coordinates followed by any number of steps on the concatenated controls -/
theorem spring_trajectory_union (inv12 inv1 inv2 : List (Tf ℝ) → List (Motion ℝ) → List ℝ × List ℝ)
    (s1 s2 : Sys ℝ) (h1 : WFParts s1) (h2 : WFParts s2) (hg : SameGlobals s1 s2)
    (hm : s1.springMassScale = s2.springMassScale)
    (hinv : InvSplit s1.numLinks inv12 inv1 inv2) (hi1 : InvLen s1 inv1) (hi2 : InvLen s2 inv2)
    (acts : List (List ℝ × List ℝ)) (hact : ∀ p ∈ acts, p.1.length = s1.acts.length)
    (q1 q2 qd1 qd2 : List ℝ) (hq1 : q1.length = s1.nq) (hqd1 : qd1.length = s1.nv)
    (hq2 : q2.length = s2.nq) (hqd2 : qd2.length = s2.nv) :
    steps inv12 (unionSys s1 s2) (Spring.init (unionSys s1 s2) (q1 ++ q2) (qd1 ++ qd2))
        (acts.map fun p => p.1 ++ p.2)
      = unionState (steps inv1 s1 (Spring.init s1 q1 qd1) (acts.map (·.1)))
          (steps inv2 s2 (Spring.init s2 q2 qd2) (acts.map (·.2))) := by
  rw [spring_init_union s1 s2 h1 h2 hg hm q1 q2 qd1 qd2 hq1 hqd1]
  exact spring_steps_union inv12 inv1 inv2 s1 s2 h1 h2 hg hinv hi1 hi2 acts hact _ _
    (StLens.init s1 h1 q1 qd1 hq1 hqd1) (StLens.init s2 h2 q2 qd2 hq2 hqd2)

end Brax.C05Perm
