import Brax.Lemmas.C04Rest
import Brax.Lemmas.Real
import Mathlib.Analysis.SpecialFunctions.Pow.Real
/-!
# C04: the remaining scalar classes at ℝ (for the non-vacuity examples)

`x ** y` is `Real.rpow`; the `float32` cast of the contact counter is the identity on ℝ.
-/
namespace Brax
noncomputable instance : MC.HasPow ℝ := ⟨Real.rpow⟩
instance : MC.HasF32 ℝ := ⟨id⟩
end Brax
