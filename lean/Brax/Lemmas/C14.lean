import Brax.Model.C14
import Brax.Spec.C14
import Mathlib.Data.List.Basic
import Mathlib.Tactic.Linarith
import Mathlib.Data.List.Sort
/-!
# C14 — helper lemmas (no property theorems here)

`firstErr` / `failIf`, `groupRuns` (python `itertools.groupby`), the non-free mask, the
`base.System` index helpers, `List.mapM` in `Option`.
-/
namespace Brax.C14

theorem failIf_eq_ok_iff (b : Bool) (e : Err) : failIf b e = .ok () ↔ b = false := by
  cases b <;> simp [failIf]

theorem firstErr_eq_ok_iff (l : List (Except Err Unit)) : firstErr l = .ok () ↔ ∀ x ∈ l, x = .ok () := by
  induction l with
  | nil => simp [firstErr]
  | cons x xs ih =>
    cases x with
    | ok u => cases u; simp [firstErr, ih]
    | error e => simp [firstErr]

theorem firstErr_append_error (l1 l2 : List (Except Err Unit)) (e : Err)
    (h : ∀ x ∈ l1, x = .ok ()) : firstErr (l1 ++ .error e :: l2) = .error e := by
  induction l1 with
  | nil => simp [firstErr]
  | cons x xs ih =>
    have hx : x = .ok () := h x (by simp)
    subst hx
    simp only [List.cons_append, firstErr]
    exact ih (fun y hy => h y (by simp [hy]))

/-! ### groupRuns -/
variable {α : Type}

theorem groupRuns_cons_nil (k : Int) (a : α) (rest : List (Int × α)) (h : groupRuns rest = []) :
    groupRuns ((k, a) :: rest) = [(k, [a])] := by
  rw [groupRuns, h]

theorem groupRuns_cons_cons (k : Int) (a : α) (rest : List (Int × α)) (k' : Int) (g : List α)
    (gs : List (Int × List α)) (h : groupRuns rest = (k', g) :: gs) :
    groupRuns ((k, a) :: rest) = if k = k' then (k, a :: g) :: gs else (k, [a]) :: (k', g) :: gs := by
  rw [groupRuns, h]

/-- every element lands in a group carrying its key -/
theorem mem_groupRuns_of_mem (l : List (Int × α)) (k : Int) (a : α) (h : (k, a) ∈ l) :
    ∃ g ∈ groupRuns l, g.1 = k ∧ a ∈ g.2 := by
  induction l with
  | nil => simp at h
  | cons x rest ih =>
    obtain ⟨k0, a0⟩ := x
    rcases List.mem_cons.1 h with h | h
    · injection h with h1 h2
      subst h1; subst h2
      cases hgr : groupRuns rest with
      | nil => rw [groupRuns_cons_nil _ _ _ hgr]; simp
      | cons g gs =>
        obtain ⟨k', g'⟩ := g
        rw [groupRuns_cons_cons _ _ _ _ _ _ hgr]
        by_cases hk : k = k' <;> simp [hk]
    · obtain ⟨g, hg, hk, ha⟩ := ih h
      cases hgr : groupRuns rest with
      | nil => rw [hgr] at hg; simp at hg
      | cons g1 gs =>
        obtain ⟨k', g'⟩ := g1
        rw [groupRuns_cons_cons _ _ _ _ _ _ hgr]
        rw [hgr] at hg
        by_cases hkk : k0 = k'
        · simp only [hkk, if_true]
          rcases List.mem_cons.1 hg with hg | hg
          · subst hg
            exact ⟨(k', a0 :: g'), by simp, hk, by simp [ha]⟩
          · exact ⟨g, by simp [hg], hk, ha⟩
        · simp only [hkk, if_false]
          exact ⟨g, List.mem_cons_of_mem _ hg, hk, ha⟩

/-- every member of a group is an element of the list, with the group's key; groups are non-empty -/
theorem mem_of_mem_groupRuns (l : List (Int × α)) (g : Int × List α) (hg : g ∈ groupRuns l) :
    g.2 ≠ [] ∧ ∀ a ∈ g.2, (g.1, a) ∈ l := by
  induction l generalizing g with
  | nil => simp [groupRuns] at hg
  | cons x rest ih =>
    obtain ⟨k0, a0⟩ := x
    cases hgr : groupRuns rest with
    | nil =>
      rw [groupRuns_cons_nil _ _ _ hgr] at hg
      simp at hg
      subst hg
      simp
    | cons g1 gs =>
      obtain ⟨k', g'⟩ := g1
      rw [groupRuns_cons_cons _ _ _ _ _ _ hgr] at hg
      have ih1 := ih (k', g') (by rw [hgr]; simp)
      by_cases hkk : k0 = k'
      · simp only [hkk, if_true] at hg
        rcases List.mem_cons.1 hg with hg | hg
        · subst hg
          refine ⟨by simp, ?_⟩
          intro a ha
          rcases List.mem_cons.1 ha with ha | ha
          · subst ha; simp [hkk]
          · exact List.mem_cons_of_mem _ (ih1.2 a ha)
        · have := ih g (by rw [hgr]; simp [hg])
          exact ⟨this.1, fun a ha => List.mem_cons_of_mem _ (this.2 a ha)⟩
      · simp only [hkk, if_false] at hg
        rcases List.mem_cons.1 hg with hg | hg
        · subst hg; simp
        · have := ih g (by rw [hgr]; exact hg)
          exact ⟨this.1, fun a ha => List.mem_cons_of_mem _ (this.2 a ha)⟩

/-- concatenating the groups gives back the values -/
theorem groupRuns_flatten (l : List (Int × α)) :
    ((groupRuns l).map (·.2)).flatten = l.map (·.2) := by
  induction l with
  | nil => simp [groupRuns]
  | cons x rest ih =>
    obtain ⟨k0, a0⟩ := x
    cases hgr : groupRuns rest with
    | nil =>
      rw [groupRuns_cons_nil _ _ _ hgr]
      rw [hgr] at ih; simp at ih ⊢; exact ih
    | cons g1 gs =>
      obtain ⟨k', g'⟩ := g1
      rw [groupRuns_cons_cons _ _ _ _ _ _ hgr]
      rw [hgr] at ih
      by_cases hkk : k0 = k' <;> simp [hkk] at ih ⊢ <;> exact ih

/-- on a list with non-decreasing keys the group keys are strictly increasing -/
theorem groupRuns_keys_lt (l : List (Int × α)) (hs : (l.map (·.1)).Pairwise (· ≤ ·)) :
    ((groupRuns l).map (·.1)).Pairwise (· < ·) := by
  induction l with
  | nil => simp [groupRuns]
  | cons x rest ih =>
    obtain ⟨k0, a0⟩ := x
    simp only [List.map_cons, List.pairwise_cons] at hs
    have ih' := ih hs.2
    cases hgr : groupRuns rest with
    | nil => rw [groupRuns_cons_nil _ _ _ hgr]; simp
    | cons g1 gs =>
      obtain ⟨k', g'⟩ := g1
      rw [groupRuns_cons_cons _ _ _ _ _ _ hgr]
      rw [hgr] at ih'
      by_cases hkk : k0 = k'
      · simp only [hkk, if_true]
        simpa using ih'
      · simp only [hkk, if_false, List.map_cons, List.pairwise_cons]
        simp only [List.map_cons, List.pairwise_cons] at ih'
        refine ⟨?_, ih'⟩
        have hk' : k0 < k' := by
          have hm := (mem_of_mem_groupRuns rest (k', g') (by rw [hgr]; simp))
          obtain ⟨hne, hall⟩ := hm
          obtain ⟨a, ha⟩ := List.exists_mem_of_ne_nil _ hne
          have := hs.1 k' (by simpa using ⟨a, hall a ha⟩)
          omega
        intro b hb
        rcases List.mem_cons.1 hb with hb | hb
        · subst hb; exact hk'
        · have := ih'.1 b hb
          omega


/-! ### the non-free mask of `validate_model` -/

theorem nonFreeMask_cons (t : Int) (ts : List Int) :
    nonFreeMask (t :: ts) = List.replicate (jntQWidth t) (t != 0) ++ nonFreeMask ts := by
  simp [nonFreeMask]

theorem nonFreeMask_length (ts : List Int) : (nonFreeMask ts).length = (ts.map jntQWidth).sum := by
  induction ts with
  | nil => simp [nonFreeMask]
  | cons t ts ih => rw [nonFreeMask_cons]; simp [ih]

/-- coordinate `c` of joint `k` sits at `prefixSum widths k + c` and carries `jntType[k] != 0` -/
theorem nonFreeMask_getElem? (ts : List Int) (k : Nat) (hk : k < ts.length) (c : Nat)
    (hc : c < jntQWidth ts[k]) :
    (nonFreeMask ts)[prefixSum (ts.map jntQWidth) k + c]? = some (ts[k] != 0) := by
  induction ts generalizing k with
  | nil => simp at hk
  | cons t ts ih =>
    rw [nonFreeMask_cons]
    cases k with
    | zero =>
      simp only [List.getElem_cons_zero] at hc
      simp only [prefixSum, List.take_zero, List.sum_nil, Nat.zero_add, List.getElem_cons_zero]
      rw [List.getElem?_append_left (by simpa using hc)]
      simp [hc]
    | succ k =>
      simp only [List.getElem_cons_succ] at hc
      have hk' : k < ts.length := by simpa using hk
      have := ih k hk' hc
      simp only [prefixSum, List.map_cons, List.take_succ_cons, List.sum_cons, List.getElem_cons_succ]
      rw [List.getElem?_append_right (by simp; omega)]
      simp only [List.length_replicate]
      rw [show jntQWidth t + (List.take k (List.map jntQWidth ts)).sum + c - jntQWidth t
            = prefixSum (ts.map jntQWidth) k + c by simp [prefixSum]; omega]
      exact this

/-! ### `base.System` index helpers -/

theorem dofRangesFrom_flatten (b : Nat) (ts : List Char) :
    (dofRangesFrom b ts).flatten = List.range' b ((ts.map qdWidth).sum) := by
  induction ts generalizing b with
  | nil => simp [dofRangesFrom]
  | cons t ts ih =>
    simp only [dofRangesFrom, List.flatten_cons, ih, List.map_cons, List.sum_cons]
    rw [← List.range'_append_1]

theorem dofRangesFrom_length (b : Nat) (ts : List Char) : (dofRangesFrom b ts).length = ts.length := by
  induction ts generalizing b with
  | nil => simp [dofRangesFrom]
  | cons t ts ih => simp [dofRangesFrom, ih]

/-- the i-th range starts at the prefix sum of the widths and has the width of link i -/
theorem dofRangesFrom_getElem (b : Nat) (ts : List Char) (i : Nat) (hi : i < ts.length) :
    (dofRangesFrom b ts)[i]'(by rw [dofRangesFrom_length]; exact hi) =
      List.range' (b + prefixSum (ts.map qdWidth) i) (qdWidth ts[i]) := by
  induction ts generalizing b i with
  | nil => simp at hi
  | cons t ts ih =>
    cases i with
    | zero => simp [dofRangesFrom, prefixSum]
    | succ i =>
      have hi' : i < ts.length := by simpa using hi
      simp only [dofRangesFrom, List.getElem_cons_succ]
      rw [ih (b + qdWidth t) i hi']
      simp [prefixSum, Nat.add_assoc]

theorem idxFrom_all (w : Char → Nat) (sel : List Char) (i : Nat) (ts : List Char)
    (h : ∀ t ∈ ts, t ∈ sel) : idxFrom w sel i ts = List.range' i ((ts.map w).sum) := by
  induction ts generalizing i with
  | nil => simp [idxFrom]
  | cons t ts ih =>
    have ht : t ∈ sel := h t (by simp)
    simp only [idxFrom, ht, if_true, List.map_cons, List.sum_cons]
    rw [ih (i + w t) (fun x hx => h x (by simp [hx])), ← List.range'_append_1]

theorem idxFrom_none (w : Char → Nat) (sel : List Char) (i : Nat) (ts : List Char)
    (h : ∀ t ∈ ts, t ∉ sel) : idxFrom w sel i ts = [] := by
  induction ts generalizing i with
  | nil => simp [idxFrom]
  | cons t ts ih =>
    have ht : t ∉ sel := h t (by simp)
    simp only [idxFrom, ht, if_false, List.nil_append]
    exact ih (i + w t) (fun x hx => h x (by simp [hx]))

/-- two selections that split the occurring types split the index range -/
theorem idxFrom_partition (w : Char → Nat) (s1 s2 : List Char) (i : Nat) (ts : List Char)
    (h : ∀ t ∈ ts, (t ∈ s1 ∧ t ∉ s2) ∨ (t ∉ s1 ∧ t ∈ s2)) :
    (idxFrom w s1 i ts ++ idxFrom w s2 i ts).Perm (List.range' i ((ts.map w).sum)) := by
  induction ts generalizing i with
  | nil => simp [idxFrom]
  | cons t ts ih =>
    have ih' := ih (i + w t) (fun x hx => h x (by simp [hx]))
    simp only [idxFrom, List.map_cons, List.sum_cons]
    rw [← List.range'_append_1]
    rcases h t (by simp) with ⟨h1, h2⟩ | ⟨h1, h2⟩
    · simp only [h1, h2, if_true, if_false, List.nil_append, List.append_assoc]
      exact List.Perm.append_left _ ih'
    · simp only [h1, h2, if_true, if_false, List.nil_append]
      have : (idxFrom w s1 (i + w t) ts ++ (List.range' i (w t) ++ idxFrom w s2 (i + w t) ts)).Perm
          (List.range' i (w t) ++ (idxFrom w s1 (i + w t) ts ++ idxFrom w s2 (i + w t) ts)) := by
        rw [← List.append_assoc, ← List.append_assoc]
        exact List.Perm.append_right _ List.perm_append_comm
      exact this.trans (List.Perm.append_left _ ih')

/-- the selected indices are a sublist of the whole index range -/
theorem idxFrom_sublist (w : Char → Nat) (sel : List Char) (i : Nat) (ts : List Char) :
    (idxFrom w sel i ts).Sublist (List.range' i ((ts.map w).sum)) := by
  induction ts generalizing i with
  | nil => simp [idxFrom]
  | cons t ts ih =>
    simp only [idxFrom, List.map_cons, List.sum_cons]
    rw [← List.range'_append_1]
    by_cases ht : t ∈ sel
    · simp only [ht, if_true]; exact List.Sublist.append (List.Sublist.refl _) (ih _)
    · simp only [ht, if_false]; exact List.Sublist.append (List.nil_sublist _) (ih _)

theorem dofLinkFrom_length (i : Nat) (ts : List Char) :
    (dofLinkFrom i ts).length = (ts.map qdWidth).sum := by
  induction ts generalizing i with
  | nil => simp [dofLinkFrom]
  | cons t ts ih => simp [dofLinkFrom, ih]

theorem dofLinkFrom_ge (i : Nat) (ts : List Char) : ∀ x ∈ dofLinkFrom i ts, i ≤ x := by
  induction ts generalizing i with
  | nil => simp [dofLinkFrom]
  | cons t ts ih =>
    intro x hx
    simp only [dofLinkFrom, List.mem_append, List.mem_replicate] at hx
    rcases hx with hx | hx
    · omega
    · have := ih (i + 1) x hx; omega

theorem dofLinkFrom_lt (i : Nat) (ts : List Char) : ∀ x ∈ dofLinkFrom i ts, x < i + ts.length := by
  induction ts generalizing i with
  | nil => simp [dofLinkFrom]
  | cons t ts ih =>
    intro x hx
    simp only [dofLinkFrom, List.mem_append, List.mem_replicate] at hx
    rcases hx with hx | hx
    · simp; omega
    · have := ih (i + 1) x hx; simp; omega

theorem dofLinkFrom_sorted (i : Nat) (ts : List Char) : (dofLinkFrom i ts).Pairwise (· ≤ ·) := by
  induction ts generalizing i with
  | nil => simp [dofLinkFrom]
  | cons t ts ih =>
    simp only [dofLinkFrom, List.pairwise_append]
    refine ⟨by simp [List.pairwise_replicate], ih (i + 1), ?_⟩
    intro a ha b hb
    have := dofLinkFrom_ge (i + 1) ts b hb
    simp only [List.mem_replicate] at ha
    omega

/-- `dof_link` is the link index repeated over that link's `dof_ranges` entry -/
theorem dofLinkFrom_eq_ranges (i b : Nat) (ts : List Char) :
    dofLinkFrom i ts =
      (((dofRangesFrom b ts).zipIdx i).map fun rk => List.replicate rk.1.length rk.2).flatten := by
  induction ts generalizing i b with
  | nil => simp [dofLinkFrom, dofRangesFrom]
  | cons t ts ih =>
    simp only [dofLinkFrom, dofRangesFrom, List.zipIdx_cons, List.map_cons, List.flatten_cons,
      List.length_range']
    rw [← ih (i + 1) (b + qdWidth t)]

/-! ### `List.mapM` in `Option` -/

theorem mapM_option_some {α β : Type} (f : α → Option β) (l : List α) (h : ∀ x ∈ l, (f x).isSome) :
    ∃ r, l.mapM f = some r ∧ r.map some = l.map f := by
  induction l with
  | nil => exact ⟨[], by simp⟩
  | cons x xs ih =>
    obtain ⟨r, hr, hm⟩ := ih (fun y hy => h y (by simp [hy]))
    have hx := h x (by simp)
    obtain ⟨y, hy⟩ := Option.isSome_iff_exists.1 hx
    exact ⟨y :: r, by simp [List.mapM_cons, hy, hr], by simp [hy, hm]⟩


/-! ### each check of `validate_model` passes iff its feature is absent -/


theorem chkIntegrator_ok_iff (m : MjFeatures) : chkIntegrator m = .ok () ↔ m.integrator = 0 := by
  simp [chkIntegrator, failIf_eq_ok_iff]
theorem chkCone_ok_iff (m : MjFeatures) : chkCone m = .ok () ↔ m.cone = 0 := by
  simp [chkCone, failIf_eq_ok_iff]
theorem chkFluid_ok_iff (m : MjFeatures) : chkFluid m = .ok () ↔ FluidClean m := by
  simp [chkFluid, failIf_eq_ok_iff, FluidClean]
theorem chkWind_ok_iff (m : MjFeatures) : chkWind m = .ok () ↔ WindClean m := by
  simp [chkWind, failIf_eq_ok_iff, WindClean]
theorem chkImpratio_ok_iff (m : MjFeatures) : chkImpratio m = .ok () ↔ m.impratio = 1 := by
  simp [chkImpratio, failIf_eq_ok_iff]
theorem chkBias_ok_iff (m : MjFeatures) : chkBias m = .ok () ↔ ∀ b ∈ m.actBiastype, b = 0 ∨ b = 1 := by
  simp only [chkBias, failIf_eq_ok_iff, List.any_eq_false]
  constructor
  · intro h b hb
    have := h b hb
    by_cases h0 : b = 0
    · exact Or.inl h0
    · right; simpa [h0] using this
  · intro h b hb
    rcases h b hb with h0 | h1
    · simp [h0]
    · simp [h1]
theorem chkGain_ok_iff (m : MjFeatures) : chkGain m = .ok () ↔ ∀ g ∈ m.actGaintype, g = 0 := by
  simp [chkGain, failIf_eq_ok_iff]
theorem chkTrn_ok_iff (m : MjFeatures) : chkTrn m = .ok () ↔ ∀ t ∈ m.actTrntype, t = 0 := by
  simp [chkTrn, failIf_eq_ok_iff]
theorem chkSolmix_ok_iff (m : MjFeatures) :
    chkSolmix m = .ok () ↔ (m.geomSolmix ≠ [] ∧ ∀ s ∈ m.geomSolmix, some s = m.geomSolmix.head?) := by
  unfold chkSolmix
  cases h : m.geomSolmix with
  | nil => simp
  | cons s0 rest =>
    simp only [failIf_eq_ok_iff, List.any_eq_false, List.head?_cons]
    constructor
    · intro h
      refine ⟨by simp, ?_⟩
      intro s hs
      have h' := h s hs
      have : s0 = s := by simpa using h'
      rw [this]
    · intro h s hs
      have h' := h.2 s hs
      have : s = s0 := by simpa using h'
      simp [this]
theorem chkPriority_ok_iff (m : MjFeatures) :
    chkPriority m = .ok () ↔ (m.geomPriority ≠ [] ∧ ∀ p ∈ m.geomPriority, some p = m.geomPriority.head?) := by
  unfold chkPriority
  cases h : m.geomPriority with
  | nil => simp
  | cons s0 rest =>
    simp only [failIf_eq_ok_iff, List.any_eq_false, List.head?_cons]
    constructor
    · intro h
      refine ⟨by simp, ?_⟩
      intro s hs
      have h' := h s hs
      have : s0 = s := by simpa using h'
      rw [this]
    · intro h s hs
      have h' := h.2 s hs
      have : s = s0 := by simpa using h'
      simp [this]
theorem chkRef_ok_iff (m : MjFeatures) : chkRef m = .ok () ↔ RefClean m := by
  unfold chkRef RefClean
  by_cases h1 : m.jntType = []
  · simp [h1]
  · have e1 : m.jntType.isEmpty = false := by simpa using h1
    by_cases h2 : m.jntType.all validJntType = true
    · have h2f : ∀ j ∈ m.jntType, validJntType j = true := by simpa using h2
      by_cases h3 : (nonFreeMask m.jntType).length = m.qpos0.length
      · have e3 : ((nonFreeMask m.jntType).length != m.qpos0.length) = false := by simp [h3]
        rw [e1, h2, e3]
        simp only [Bool.false_eq_true, if_false, Bool.not_true, failIf_eq_ok_iff, List.any_eq_false]
        constructor
        · intro h
          refine ⟨h1, h2f, h3, ?_⟩
          intro bx hbx hb
          have := h bx hbx
          simpa [hb] using this
        · intro h bx hbx
          by_cases hb : bx.1 = true
          · simp [hb, h.2.2.2 bx hbx hb]
          · simp [hb]
      · have e3 : ((nonFreeMask m.jntType).length != m.qpos0.length) = true := by simp [h3]
        rw [e1, h2, e3]
        simp [h3]
    · rw [e1]
      have h2f : ¬ ∀ j ∈ m.jntType, validJntType j = true := by simpa using h2
      simp only [Bool.false_eq_true, if_false, h2, Bool.not_false, if_true]
      simp only [reduceCtorEq, false_iff, not_and]
      intro _ hh
      exact absurd hh h2f
theorem anchorsDiffer_eq_false_iff (ps : List (Rat × Rat × Rat)) :
    anchorsDiffer ps = false ↔ ∀ p ∈ ps, some p = ps.head? := by
  cases ps with
  | nil => simp [anchorsDiffer]
  | cons p0 rest => simp [anchorsDiffer]
theorem chkAnchors_ok_iff (m : MjFeatures) : chkAnchors m = .ok () ↔ AnchorsClean m := by
  simp only [chkAnchors, failIf_eq_ok_iff, AnchorsClean, List.any_eq_false]
  constructor
  · intro h g hg
    have := h g hg
    exact (anchorsDiffer_eq_false_iff g.2).1 (by simpa using this)
  · intro h g hg
    simpa using (anchorsDiffer_eq_false_iff g.2).2 (h g hg)
theorem chkDof_ok_iff (typ : Int) (lim : Option Rat × Option Rat) (k : Rat) :
    chkDof typ lim k = .ok () ↔
      (typ = 0 → ¬ k > 0) ∧ (typ = 1 → lim.1 = none ∧ lim.2 = none) ∧ (typ = 0 ∨ typ = 1 ∨ typ = 2 ∨ typ = 3) := by
  unfold chkDof
  by_cases h0 : typ = 0
  · subst h0; simp [failIf_eq_ok_iff]
  · by_cases h1 : typ = 1
    · subst h1; simp [failIf_eq_ok_iff]
    · by_cases h2 : typ = 2 ∨ typ = 3
      · simp [h0, h1, h2]
      · have h2' := h2
        rw [not_or] at h2'
        simp [h0, h1, h2'.1, h2'.2]
theorem chkDofs_ok_iff (m : MjFeatures) : chkDofs m = .ok () ↔ DofsClean m := by
  simp only [chkDofs, firstErr_eq_ok_iff, List.mem_map, forall_exists_index, and_imp,
    forall_apply_eq_imp_iff₂, chkDof_ok_iff, DofsClean]
theorem chkStack_ok_iff (typs : List Int) : chkStack typs = .ok () ↔ (typs = [0] ∨ (0 ∉ typs ∧ 1 ∉ typs)) := by
  unfold chkStack
  by_cases h : typs = [0]
  · simp [h]
  · by_cases h0 : 0 ∈ typs
    · simp [h, h0]
    · by_cases h1 : 1 ∈ typs <;> simp [h, h0, h1]
theorem chkStacks_ok_iff (m : MjFeatures) : chkStacks m = .ok () ↔ StacksClean m := by
  simp only [chkStacks, firstErr_eq_ok_iff, List.mem_map, forall_exists_index, and_imp,
    forall_apply_eq_imp_iff₂, chkStack_ok_iff, StacksClean]
theorem chkCylinders_ok_iff (m : MjFeatures) : chkCylinders m = .ok () ↔ CylindersClean m := by
  simp only [chkCylinders, failIf_eq_ok_iff, CylindersClean, List.any_eq_false, badCylinder]
  constructor
  · intro h r hr hc
    apply h r hr
    simp [hc.1, hc.2.1, hc.2.2]
  · intro h r hr hb
    apply h r hr
    have : (r.1 = 5 ∧ cylThreshold < r.2.1.2.1) ∧ 0 < collisionMask r.2.2.1 r.2.2.2 := by simpa using hb
    exact ⟨this.1.1, this.1.2, this.2⟩


/-! ### group uniqueness, zip membership, sums over groups -/

theorem eq_of_mem_of_key_eq {β : Type} (L : List (Int × β)) (h : (L.map (·.1)).Pairwise (· < ·))
    (a b : Int × β) (ha : a ∈ L) (hb : b ∈ L) (hk : a.1 = b.1) : a = b := by
  induction L with
  | nil => simp at ha
  | cons x xs ih =>
    simp only [List.map_cons, List.pairwise_cons] at h
    rcases List.mem_cons.1 ha with ha1 | ha1
    · rcases List.mem_cons.1 hb with hb1 | hb1
      · rw [ha1, hb1]
      · have := h.1 b.1 (List.mem_map_of_mem hb1)
        rw [ha1] at hk
        omega
    · rcases List.mem_cons.1 hb with hb1 | hb1
      · have := h.1 a.1 (List.mem_map_of_mem ha1)
        rw [hb1] at hk
        omega
      · exact ih h.2 ha1 hb1

/-- with non-decreasing keys, two entries with the same key land in the same group -/
theorem same_group {α : Type} (l : List (Int × α)) (hs : (l.map (·.1)).Pairwise (· ≤ ·)) (k : Int) (a b : α)
    (ha : (k, a) ∈ l) (hb : (k, b) ∈ l) : ∃ g ∈ groupRuns l, g.1 = k ∧ a ∈ g.2 ∧ b ∈ g.2 := by
  obtain ⟨g1, hg1, hk1, ha1⟩ := mem_groupRuns_of_mem l k a ha
  obtain ⟨g2, hg2, hk2, hb2⟩ := mem_groupRuns_of_mem l k b hb
  have := eq_of_mem_of_key_eq (groupRuns l) (groupRuns_keys_lt l hs) g1 g2 hg1 hg2 (by rw [hk1, hk2])
  subst this
  exact ⟨g1, hg1, hk1, ha1, hb2⟩

theorem mem_zip_of_getElem? {α β : Type} (l1 : List α) (l2 : List β) (i : Nat) (a : α) (b : β)
    (h1 : l1[i]? = some a) (h2 : l2[i]? = some b) : (a, b) ∈ l1.zip l2 := by
  apply List.mem_of_getElem? (i := i)
  rw [List.getElem?_zip_eq_some]
  exact ⟨h1, h2⟩

theorem getElem?_some_of_lt {α : Type} (l : List α) (i : Nat) (h : i < l.length) : ∃ a, l[i]? = some a :=
  ⟨l[i], List.getElem?_eq_getElem h⟩

theorem lt_of_getElem?_some {α : Type} (l : List α) (i : Nat) (a : α) (h : l[i]? = some a) : i < l.length := by
  by_contra hc
  rw [List.getElem?_eq_none (by omega)] at h
  cases h

theorem sum_map_eq_length {α : Type} (f : α → Nat) (l : List α) (h : ∀ x ∈ l, f x = 1) :
    (l.map f).sum = l.length := by
  induction l with
  | nil => simp
  | cons x xs ih =>
    simp only [List.map_cons, List.sum_cons, List.length_cons, h x (by simp)]
    rw [ih (fun y hy => h y (by simp [hy]))]; omega

theorem sum_groups {κ : Type} (gs : List (κ × List Int)) (f : List Int → Nat) (w : Int → Nat)
    (h : ∀ g ∈ gs, f g.2 = (g.2.map w).sum) :
    (gs.map (fun g => f g.2)).sum = (((gs.map (·.2)).flatten).map w).sum := by
  induction gs with
  | nil => simp
  | cons g gs ih =>
    simp only [List.map_cons, List.sum_cons, List.flatten_cons, List.map_append, List.sum_append]
    rw [h g (by simp), ih (fun g' hg' => h g' (by simp [hg']))]

theorem filterMap_eq_map_of_forall {α β : Type} (f : α → Option β) (g : α → β) (l : List α)
    (h : ∀ x ∈ l, f x = some (g x)) : l.filterMap f = l.map g := by
  induction l with
  | nil => simp
  | cons x xs ih =>
    rw [List.filterMap_cons, h x (by simp), List.map_cons, ih (fun y hy => h y (by simp [hy]))]

theorem flatten_map_singleton {α β : Type} (g : α → β) (l : List α) :
    (l.map fun x => [g x]).flatten = l.map g := by
  induction l with
  | nil => simp
  | cons x xs ih => simp [ih]

theorem dofRows_getElem? (m : MjFeatures) (i : Nat) (t : Int) (l : Bool) (r : Option Rat × Option Rat) (k : Rat)
    (ht : m.jntType[i]? = some t) (hl : m.jntLimited[i]? = some l) (hr : m.jntRange[i]? = some r)
    (hk : m.jntStiffness[i]? = some k) : (t, effRange l r, k) ∈ dofRows m := by
  unfold dofRows
  apply mem_zip_of_getElem? _ _ i _ _ ht
  rw [List.getElem?_zip_eq_some]
  refine ⟨?_, hk⟩
  rw [List.getElem?_map]
  have : (m.jntLimited.zip m.jntRange)[i]? = some (l, r) := by
    rw [List.getElem?_zip_eq_some]; exact ⟨hl, hr⟩
  rw [this]; rfl

theorem geomRows_getElem? (m : MjFeatures) (i : Nat) (t : Int) (sz : Rat × Rat × Rat) (ct ca : Int)
    (ht : m.geomType[i]? = some t) (hs : m.geomSize[i]? = some sz) (hc : m.geomContype[i]? = some ct)
    (ha : m.geomConaffinity[i]? = some ca) : (t, sz, ct, ca) ∈ geomRows m := by
  unfold geomRows
  apply mem_zip_of_getElem? _ _ i _ _ ht
  rw [List.getElem?_zip_eq_some]
  refine ⟨hs, ?_⟩
  rw [List.getElem?_zip_eq_some]
  exact ⟨hc, ha⟩

/-! ### joint groups of accepted models and their link types -/


theorem validJntType_cases (t : Int) (h : validJntType t = true) : t = 0 ∨ t = 1 ∨ t = 2 ∨ t = 3 := by
  simp only [validJntType, Bool.or_eq_true, beq_iff_eq] at h
  omega

/-- shape of a joint group of an accepted model -/
def GroupShape (typs : List Int) : Prop := typs = [0] ∨ (typs ≠ [] ∧ ∀ t ∈ typs, t = 2 ∨ t = 3)

theorem GroupShape.not_free {typs : List Int} (h : typs ≠ [] ∧ ∀ t ∈ typs, t = 2 ∨ t = 3) :
    typs ≠ [0] ∧ 0 ∉ typs ∧ 1 ∉ typs := by
  refine ⟨?_, ?_, ?_⟩
  · intro h0; have := h.2 0 (by simp [h0]); omega
  · intro h0; have := h.2 0 h0; omega
  · intro h1; have := h.2 1 h1; omega

theorem linkTypeOf_shape (typs : List Int) (h : GroupShape typs) (h3 : typs.length ≤ 3) :
    linkTypeOf typs = some [specLinkType typs] := by
  rcases h with h0 | h
  · subst h0; simp [linkTypeOf, specLinkType]
  · obtain ⟨hn, h0, h1⟩ := GroupShape.not_free h
    have hlen : typs.length = 1 ∨ typs.length = 2 ∨ typs.length = 3 := by
      have : typs.length ≠ 0 := by simpa using h.1
      omega
    simp only [linkTypeOf, hn, if_false, h0, h1, or_self, specLinkType]
    rcases hlen with hl | hl | hl <;> rw [hl] <;> rfl

theorem qWidth_specLinkType (typs : List Int) (h : GroupShape typs) (h3 : typs.length ≤ 3) :
    qWidth (specLinkType typs) = (typs.map jntQWidth).sum := by
  rcases h with h0 | h
  · subst h0; decide
  · obtain ⟨hn, _, _⟩ := GroupShape.not_free h
    have hsum : (typs.map jntQWidth).sum = typs.length := by
      apply sum_map_eq_length
      intro t ht
      rcases h.2 t ht with h2 | h2 <;> subst h2 <;> decide
    have hlen : typs.length = 1 ∨ typs.length = 2 ∨ typs.length = 3 := by
      have : typs.length ≠ 0 := by simpa using h.1
      omega
    rw [hsum]
    simp only [specLinkType, hn, if_false]
    rcases hlen with hl | hl | hl <;> rw [hl] <;> decide

theorem qdWidth_specLinkType (typs : List Int) (h : GroupShape typs) (h3 : typs.length ≤ 3) :
    qdWidth (specLinkType typs) = (typs.map jntQdWidth).sum := by
  rcases h with h0 | h
  · subst h0; decide
  · obtain ⟨hn, _, _⟩ := GroupShape.not_free h
    have hsum : (typs.map jntQdWidth).sum = typs.length := by
      apply sum_map_eq_length
      intro t ht
      rcases h.2 t ht with h2 | h2 <;> subst h2 <;> decide
    have hlen : typs.length = 1 ∨ typs.length = 2 ∨ typs.length = 3 := by
      have : typs.length ≠ 0 := by simpa using h.1
      omega
    rw [hsum]
    simp only [specLinkType, hn, if_false]
    rcases hlen with hl | hl | hl <;> rw [hl] <;> decide

theorem validLinkType_specLinkType (typs : List Int) : validLinkType (specLinkType typs) = true := by
  unfold specLinkType
  split_ifs <;> decide


/-- selections that never both contain an occurring type add up -/
theorem idxFrom_union (w : Char → Nat) (s1 s2 : List Char) (i : Nat) (ts : List Char)
    (h : ∀ t ∈ ts, ¬ (t ∈ s1 ∧ t ∈ s2)) :
    (idxFrom w s1 i ts ++ idxFrom w s2 i ts).Perm (idxFrom w (s1 ++ s2) i ts) := by
  induction ts generalizing i with
  | nil => simp [idxFrom]
  | cons t ts ih =>
    have ih' := ih (i + w t) (fun x hx => h x (by simp [hx]))
    have ht := h t (by simp)
    simp only [idxFrom, List.mem_append]
    by_cases h1 : t ∈ s1
    · have h2 : t ∉ s2 := fun h2 => ht ⟨h1, h2⟩
      simp only [h1, h2, if_true, if_false, List.nil_append, List.append_assoc, or_false]
      exact List.Perm.append_left _ ih'
    · by_cases h2 : t ∈ s2
      · simp only [h1, h2, if_true, if_false, List.nil_append, false_or]
        have : (idxFrom w s1 (i + w t) ts ++ (List.range' i (w t) ++ idxFrom w s2 (i + w t) ts)).Perm
            (List.range' i (w t) ++ (idxFrom w s1 (i + w t) ts ++ idxFrom w s2 (i + w t) ts)) := by
          rw [← List.append_assoc, ← List.append_assoc]
          exact List.Perm.append_right _ List.perm_append_comm
        exact this.trans (List.Perm.append_left _ ih')
      · simp only [h1, h2, if_false, List.nil_append, or_self]
        exact ih'

theorem mem_all_types_of_typesOk (ts : List Char) (h : typesOk ts = true) :
    ∀ t ∈ ts, t ∈ ['f', '1', '2', '3'] := by
  intro t ht
  have := (List.all_eq_true.1 h) t ht
  simp only [validLinkType, Bool.or_eq_true, beq_iff_eq] at this
  simp only [List.mem_cons, List.mem_nil_iff, or_false]
  tauto

end Brax.C14
