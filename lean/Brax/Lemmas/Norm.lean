import Brax.Lemmas.Algebra
import Brax.Lemmas.Real
import Mathlib.Tactic.Linarith
import Mathlib.Tactic.NormNum
import Mathlib.Tactic.Positivity
/-!
# `safe_norm` / `normalize` over ℝ
-/
set_option linter.unusedSectionVars false
set_option linter.unusedSimpArgs false
namespace Brax

theorem allClose0_iff (xs : List ℝ) : allClose0 xs = true ↔ ∀ x ∈ xs, |x| ≤ 1e-8 := by
  simp [allClose0, List.all_eq_true]

/-- a unit quaternion is not "all close to zero" -/
theorem not_allClose0_of_unit {q : Q4 ℝ} (h : q.IsUnit) : allClose0 [q.w, q.x, q.y, q.z] = false := by
  by_contra hc
  rw [Bool.not_eq_false, allClose0_iff] at hc
  have hw := hc q.w (by simp)
  have hx := hc q.x (by simp)
  have hy := hc q.y (by simp)
  have hz := hc q.z (by simp)
  have h' : q.w * q.w + q.x * q.x + q.y * q.y + q.z * q.z = 1 := h
  have sq : ∀ a : ℝ, |a| ≤ 1e-8 → a * a ≤ 1e-16 := by
    intro a ha
    have := abs_mul_abs_self a
    have h0 := abs_nonneg a
    nlinarith
  have := sq _ hw; have := sq _ hx; have := sq _ hy; have := sq _ hz
  norm_num at *
  linarith

theorem safeNorm4_unit {q : Q4 ℝ} (h : q.IsUnit) : safeNorm4 q = 1 := by
  have h' : q.w * q.w + q.x * q.x + q.y * q.y + q.z * q.z = 1 := h
  simp only [safeNorm4, safeNormL, not_allClose0_of_unit h, Bool.false_eq_true, if_false,
    List.foldl, HasSqrt.sqrt]
  rw [show (0 : ℝ) + q.w * q.w + q.x * q.x + q.y * q.y + q.z * q.z = 1 by linarith]
  exact Real.sqrt_one

/-- `normalize` leaves a unit quaternion unchanged (exactly, over ℝ) -/
theorem normalize4_unit {q : Q4 ℝ} (h : q.IsUnit) : normalize4 q = q := by
  have e1 : eqZero (1 : ℝ) = false := by
    rw [Bool.eq_false_iff]; intro hc; rw [eqZero_iff] at hc; exact one_ne_zero hc
  cases q
  simp only [normalize4, safeNorm4_unit h, e1, Bool.false_eq_true, if_false, div_one]

/-- general form: away from the `allclose` ball, `normalize q = q / ‖q‖` and is unit -/
theorem normalize4_isUnit {q : Q4 ℝ} (h : allClose0 [q.w, q.x, q.y, q.z] = false) :
    (normalize4 q).IsUnit := by
  have hpos : 0 < q.w * q.w + q.x * q.x + q.y * q.y + q.z * q.z := by
    by_contra hc
    have h0 : q.w * q.w + q.x * q.x + q.y * q.y + q.z * q.z = 0 :=
      le_antisymm (not_lt.mp hc) (by nlinarith [mul_self_nonneg q.w, mul_self_nonneg q.x, mul_self_nonneg q.y, mul_self_nonneg q.z])
    have hw : q.w = 0 := by nlinarith [mul_self_nonneg q.w, mul_self_nonneg q.x, mul_self_nonneg q.y, mul_self_nonneg q.z]
    have hx : q.x = 0 := by nlinarith [mul_self_nonneg q.w, mul_self_nonneg q.x, mul_self_nonneg q.y, mul_self_nonneg q.z]
    have hy : q.y = 0 := by nlinarith [mul_self_nonneg q.w, mul_self_nonneg q.x, mul_self_nonneg q.y, mul_self_nonneg q.z]
    have hz : q.z = 0 := by nlinarith [mul_self_nonneg q.w, mul_self_nonneg q.x, mul_self_nonneg q.y, mul_self_nonneg q.z]
    have : allClose0 [q.w, q.x, q.y, q.z] = true := by
      rw [allClose0_iff]; intro x hx'
      simp only [List.mem_cons, List.mem_nil_iff, or_false] at hx'
      rcases hx' with rfl | rfl | rfl | rfl <;> simp [*] <;> norm_num
    rw [h] at this; exact Bool.false_ne_true this
  set s := q.w * q.w + q.x * q.x + q.y * q.y + q.z * q.z with hs
  have hn : safeNorm4 q = Real.sqrt s := by
    simp only [safeNorm4, safeNormL, h, Bool.false_eq_true, if_false, List.foldl, HasSqrt.sqrt]
    congr 1; rw [hs]; ring
  have hsq : 0 < Real.sqrt s := Real.sqrt_pos.mpr hpos
  have e1 : eqZero (Real.sqrt s) = false := by
    rw [Bool.eq_false_iff]; intro hc; rw [eqZero_iff] at hc; exact (ne_of_gt hsq) hc
  simp only [Q4.IsUnit, normalize4, hn, e1, Bool.false_eq_true, if_false, Q4.normSq]
  have hss : Real.sqrt s * Real.sqrt s = s := Real.mul_self_sqrt (le_of_lt hpos)
  field_simp
  rw [hs] at hss ⊢
  nlinarith [hss]

/-- `quat_rot_axis` of a unit axis is a unit quaternion -/
theorem quatRotAxis_isUnit (a : V3 ℝ) (θ : ℝ) (ha : V3.dot a a = 1) :
    (quatRotAxis a θ).IsUnit := by
  simp only [V3.dot] at ha
  simp only [Q4.IsUnit, quatRotAxis, Q4.normSq, HasTrig.sin, HasTrig.cos]
  have := Real.sin_sq_add_cos_sq (θ / (1 + 1))
  linear_combination (Real.sin (θ / (1 + 1)) ^ 2) * ha + this

/-- a slide dof (`motion.ang = 0`) contributes the identity rotation while `cos(q/2) > 1e-8` -/
theorem normalize4_quatRotAxis_zero (θ : ℝ) (h : 1e-8 < Real.cos (θ / 2)) :
    normalize4 (quatRotAxis (⟨0, 0, 0⟩ : V3 ℝ) θ) = Q4.one := by
  have h2 : (1 + 1 : ℝ) = 2 := by norm_num
  have hc : 0 < Real.cos (θ / 2) := lt_trans (by norm_num) h
  have hq : quatRotAxis (⟨0, 0, 0⟩ : V3 ℝ) θ = ⟨Real.cos (θ / 2), 0, 0, 0⟩ := by
    simp only [quatRotAxis, HasTrig.sin, HasTrig.cos, h2, zero_mul]
  rw [hq]
  have hnc : allClose0 [Real.cos (θ / 2), (0 : ℝ), 0, 0] = false := by
    rw [Bool.eq_false_iff]; intro hcl; rw [allClose0_iff] at hcl
    have := hcl (Real.cos (θ / 2)) (by simp)
    rw [abs_of_pos hc] at this; linarith
  have hn : safeNorm4 (⟨Real.cos (θ / 2), 0, 0, 0⟩ : Q4 ℝ) = Real.cos (θ / 2) := by
    simp only [safeNorm4, safeNormL, hnc, Bool.false_eq_true, if_false, List.foldl, HasSqrt.sqrt]
    rw [show (0 : ℝ) + Real.cos (θ / 2) * Real.cos (θ / 2) + 0 * 0 + 0 * 0 + 0 * 0
        = Real.cos (θ / 2) * Real.cos (θ / 2) by ring]
    exact Real.sqrt_mul_self (le_of_lt hc)
  have e1 : eqZero (Real.cos (θ / 2)) = false := by
    rw [Bool.eq_false_iff]; intro hcz; rw [eqZero_iff] at hcz; exact (ne_of_gt hc) hcz
  simp only [normalize4, hn, e1, Bool.false_eq_true, if_false, Q4.one, zero_div, div_self (ne_of_gt hc)]

end Brax
