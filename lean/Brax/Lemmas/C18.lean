import Brax.Spec.C18
import Mathlib.Tactic.Ring
import Mathlib.Tactic.FieldSimp
import Mathlib.Tactic.Linarith
import Mathlib.Tactic.Positivity
import Mathlib.Tactic.Order
import Mathlib.Algebra.BigOperators.Group.List.Basic
import Mathlib.Algebra.Order.BigOperators.Group.List
/-!
# C18 — helper lemmas: sums, raw moments, the division-free Welford invariant
-/
set_option linter.unusedSectionVars false
set_option linter.unusedSimpArgs false
namespace Brax.C18
open Brax

section sums
variable {K : Type} [Field K]

@[simp] theorem sumL_nil : sumL ([] : List K) = 0 := rfl
@[simp] theorem sumL_cons (x : K) (xs : List K) : sumL (x :: xs) = x + sumL xs := rfl

theorem sumL_eq_sum (xs : List K) : sumL xs = xs.sum := by
  induction xs with
  | nil => rfl
  | cons x xs ih => simp [ih]

@[simp] theorem sumL_append (xs ys : List K) : sumL (xs ++ ys) = sumL xs + sumL ys := by
  simp [sumL_eq_sum]

theorem sumL_flatten (xss : List (List K)) : sumL (xss.map sumL) = sumL xss.flatten := by
  induction xss with
  | nil => rfl
  | cons x xs ih => simp [ih]

theorem sumL_map_flatten {ι : Type} (g : ι → K) (b : List (List ι)) :
    sumL (b.map fun r => sumL (r.map g)) = sumL (b.flatten.map g) := by
  induction b with
  | nil => rfl
  | cons x xs ih => simp [ih]

theorem sumL_perm {xs ys : List K} (h : xs.Perm ys) : sumL xs = sumL ys := by
  rw [sumL_eq_sum, sumL_eq_sum]; exact h.sum_eq

theorem sumL_map_div {ι : Type} (f : ι → K) (c : K) (l : List ι) :
    sumL (l.map fun i => f i / c) = sumL (l.map f) / c := by
  induction l with
  | nil => simp
  | cons x xs ih => simp [ih, add_div]

theorem sumL_replicate (n : ℕ) (x : K) : sumL (List.replicate n x) = n * x := by
  induction n with
  | zero => simp
  | succ n ih => simp [List.replicate_succ, ih]; ring

end sums

/-! ### raw moments of weighted data -/
section moments
variable {K : Type} [Field K]

/-- `Σ w` -/
def W (d : List (K × K)) : K := sumL (d.map fun p => p.1)
/-- `Σ w x` -/
def M1 (d : List (K × K)) : K := sumL (d.map fun p => p.1 * p.2)
/-- `Σ w x²` -/
def M2 (d : List (K × K)) : K := sumL (d.map fun p => p.1 * (p.2 * p.2))

@[simp] theorem W_nil : W ([] : List (K × K)) = 0 := rfl
@[simp] theorem M1_nil : M1 ([] : List (K × K)) = 0 := rfl
@[simp] theorem M2_nil : M2 ([] : List (K × K)) = 0 := rfl
@[simp] theorem W_cons (p : K × K) (d) : W (p :: d) = p.1 + W d := rfl
@[simp] theorem M1_cons (p : K × K) (d) : M1 (p :: d) = p.1 * p.2 + M1 d := rfl
@[simp] theorem M2_cons (p : K × K) (d) : M2 (p :: d) = p.1 * (p.2 * p.2) + M2 d := rfl
@[simp] theorem W_append (a b : List (K × K)) : W (a ++ b) = W a + W b := by simp [W]
@[simp] theorem M1_append (a b : List (K × K)) : M1 (a ++ b) = M1 a + M1 b := by simp [M1]
@[simp] theorem M2_append (a b : List (K × K)) : M2 (a ++ b) = M2 a + M2 b := by simp [M2]

theorem W_perm {a b : List (K × K)} (h : a.Perm b) : W a = W b := sumL_perm (h.map _)
theorem M1_perm {a b : List (K × K)} (h : a.Perm b) : M1 a = M1 b := sumL_perm (h.map _)
theorem M2_perm {a b : List (K × K)} (h : a.Perm b) : M2 a = M2 b := sumL_perm (h.map _)

theorem Spec.count_eq (d : List (K × K)) : Spec.count d = W d := rfl

/-- `Σ (x − m) w = M1 − m W` -/
theorem sum_diffOld (m : K) (d : List (K × K)) :
    sumL (d.map fun p => (p.2 - m) * p.1) = M1 d - m * W d := by
  induction d with
  | nil => simp
  | cons p d ih => simp only [List.map_cons, sumL_cons, ih, M1_cons, W_cons]; ring

/-- `Σ (x − m) w (x − m') = M2 − (m + m') M1 + m m' W` -/
theorem sum_varUpd (m m' : K) (d : List (K × K)) :
    sumL (d.map fun p => (p.2 - m) * p.1 * (p.2 - m')) = M2 d - (m + m') * M1 d + m * m' * W d := by
  induction d with
  | nil => simp
  | cons p d ih => simp only [List.map_cons, sumL_cons, ih, M1_cons, M2_cons, W_cons]; ring

/-- `Σ w (x − μ)² = M2 − 2 μ M1 + μ² W` -/
theorem sum_sqDev (μ : K) (d : List (K × K)) :
    sumL (d.map fun p => p.1 * ((p.2 - μ) * (p.2 - μ))) = M2 d - 2 * μ * M1 d + μ * μ * W d := by
  induction d with
  | nil => simp
  | cons p d ih => simp only [List.map_cons, sumL_cons, ih, M1_cons, M2_cons, W_cons]; ring

theorem Spec.mean_eq (d : List (K × K)) : Spec.mean d = M1 d / W d := rfl

theorem Spec.sv_eq (d : List (K × K)) :
    Spec.sv d = M2 d - 2 * Spec.mean d * M1 d + Spec.mean d * Spec.mean d * W d :=
  sum_sqDev _ d

/-- the spec is a function of the three raw moments only -/
theorem Spec.acc_congr {a b : List (K × K)} (h0 : W a = W b) (h1 : M1 a = M1 b) (h2 : M2 a = M2 b) :
    Spec.acc a = Spec.acc b := by
  simp only [Spec.acc, Spec.sv_eq, Spec.mean_eq, Spec.count_eq, h0, h1, h2]

/-- `step` in terms of the raw moments of the batch -/
theorem step_eq (s : Acc K) (b : List (K × K)) :
    step s b =
      ⟨s.count + W b,
       s.mean + (M1 b - s.mean * W b) / (s.count + W b),
       s.sv + (M2 b - (s.mean + (s.mean + (M1 b - s.mean * W b) / (s.count + W b))) * M1 b
          + s.mean * (s.mean + (M1 b - s.mean * W b) / (s.count + W b)) * W b)⟩ := by
  simp only [step, stepWith, S1, sum_diffOld, sum_varUpd]
  rfl

/-- Division-free Welford invariant: `s` summarises the data `d`. -/
structure Inv (s : Acc K) (d : List (K × K)) : Prop where
  count : s.count = W d
  mean : s.count * s.mean = M1 d
  sv : s.sv = M2 d - s.mean * M1 d

theorem inv_init : Inv (initAcc : Acc K) [] := ⟨rfl, by simp [initAcc], by simp [initAcc]⟩

/-- one batch preserves the invariant as soon as the new count is non-zero -/
theorem inv_step {s : Acc K} {d : List (K × K)} (h : Inv s d) (b : List (K × K))
    (hc : W d + W b ≠ 0) : Inv (step s b) (d ++ b) := by
  obtain ⟨h0, h1, h2⟩ := h
  rw [step_eq]
  have hc' : s.count + W b ≠ 0 := by rw [h0]; exact hc
  refine ⟨by simp [h0], ?_, ?_⟩
  · simp only [M1_append, ← h1]
    field_simp
    ring
  · simp only [M1_append, M2_append, h2, ← h1]
    field_simp
    ring

/-- with a non-zero count the invariant pins the state to the spec -/
theorem inv_spec {s : Acc K} {d : List (K × K)} (h : Inv s d) (hc : W d ≠ 0) : s = Spec.acc d := by
  obtain ⟨h0, h1, h2⟩ := h
  have hm : s.mean = M1 d / W d := by
    rw [← h1, h0]; field_simp
  cases s with
  | mk c m v =>
    simp only at h0 h1 h2 hm
    simp only [Spec.acc, Spec.sv_eq, Spec.mean_eq, Spec.count_eq, Acc.mk.injEq]
    refine ⟨h0, hm, ?_⟩
    rw [h2, hm]
    field_simp
    ring

end moments

/-! ### order facts -/
section order
variable {K : Type} [Field K] [LinearOrder K] [IsStrictOrderedRing K]

theorem W_nonneg {d : List (K × K)} (h : ∀ p ∈ d, 0 ≤ p.1) : 0 ≤ W d := by
  induction d with
  | nil => simp
  | cons p d ih =>
    simp only [W_cons]
    have := h p (by simp)
    have := ih (fun q hq => h q (by simp [hq]))
    linarith

theorem sv_nonneg {d : List (K × K)} (h : ∀ p ∈ d, 0 ≤ p.1) : 0 ≤ Spec.sv d := by
  unfold Spec.sv
  generalize Spec.mean d = μ
  induction d with
  | nil => simp
  | cons p d ih =>
    simp only [List.map_cons, sumL_cons]
    have h1 := h p (by simp)
    have h2 := ih (fun q hq => h q (by simp [hq]))
    have : 0 ≤ p.1 * ((p.2 - μ) * (p.2 - μ)) := mul_nonneg h1 (mul_self_nonneg _)
    linarith

theorem clip_mem (x lo hi : K) (h : lo ≤ hi) : lo ≤ clip x lo hi ∧ clip x lo hi ≤ hi := by
  unfold clip
  simp only
  split <;> split <;> constructor <;> order

/-- `clip` with swapped bounds returns the upper argument, whatever `x` is -/
theorem clip_swapped (x lo hi : K) (h : hi < lo) : clip x lo hi = hi := by
  unfold clip
  simp only
  by_cases h1 : x < lo
  · simp [h1, h]
  · have h2 : hi < x := by order
    simp [h1, h2]

theorem clip_of_mem (x lo hi : K) (h1 : lo ≤ x) (h2 : x ≤ hi) : clip x lo hi = x := by
  unfold clip
  have a : ¬ x < lo := not_lt.mpr h1
  have b : ¬ hi < x := not_lt.mpr h2
  simp [a, b]

end order
end Brax.C18
