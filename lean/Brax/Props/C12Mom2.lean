import Brax.Props.C12
import Brax.Lemmas.C12Mom2
/-!
# C12, second deepening: one-step momentum change at fixed `q`, later roots, exact one-step kinetic-energy
identity of the articulated model at fixed `q`

Everything is about the existing model of the generalized pipeline (`Brax.Gd`, `Model/C02.lean`, tied to
`/repo` by the C02/C05 correspondences); no new model of the code.  Specification-side definitions
(`Lemmas/C12Mom2.lean`): `linMom s q qd ρ y` = `P(q, y)` (linear part of `treeMom` at the configuration of the
state, joint velocity `y`), `stCddV` (the `cdd` scan of `dynamics.inverse` run with zero gravity), `vpAcc` (the
velocity-product acceleration `c_b` of a link's centre of mass), `stTreeMass`, `stTreeVp = Σ_b m_b c_b`,
`dofOff` (flat index of a link's first dof), `MomOKAt` (`MomOK` at a root other than link 0), `SqSymm`, `dampPow`.

**Proved**
* `mom_step_fixed_q` / `mom_fixed_q_of_exact`: `P(q, qd′) − P(q, qd) = dt·(M_tot g − Σ_b m_b c_b)`, first tree.
* `mom_root_balance_at`, `mom_fixed_q_at`, `mom_step_fixed_q_at`: the same and the root-row balance for the tree
  of ANY free root `ρ` (flat dof offset `dofOff s.types ρ`).
* `ke_step_damped_exact`, `ke_step_exact`, `ke_step_exact_init`: exact one-step identity of the kinetic energy at
  FIXED `q` for the semi-implicit step, every system.

**Not proved** (kept visible)
def momentum_limit_Stmt : Prop :=
  ∀ (free-floating conservative generator model) (state) (horizon T),
    ∃ C, ∀ dt small, ‖P(step_dt^(T/dt) state) − P(state) − M_tot·g·T‖ ≤ C · dt
def drift_first_order_Stmt : Prop :=           -- energy clause, articulated
  ∀ (conservative generator model) (state) (horizon), ∃ C, ∀ dt small, |E(step^(T/dt) state) − E state| ≤ C·dt
What is still missing for both: the comparison of `P(q′, qd′)` with `P(q, qd′)` (resp. `qd′ᵀM(q′)qd′` with
`qd′ᵀM(q)qd′`), i.e. the derivative of `cinr`, `cdof` (hence of `M(q)`) along `integrate` — the Lagrangian
identity `d/dt (∂T/∂q̇) − ∂T/∂q = M q̈ + bias` for the model's `massMatrix`/`inverse`, which needs a
differentiable (dual-number or `HasDerivAt`) reading of `Kin.forward`/`transformCom`; the fixed-`q` halves are
`mom_step_fixed_q` and `ke_step_exact` below.  `Σ_b m_b c_b` is exactly the term `d/dt` of `cinr`,`cdof` must
cancel in the `O(dt)` limit.  Existence of an exact solve stays a hypothesis (`hex`/`hsolve`), as in C05.
-/
set_option linter.unusedVariables false
namespace Brax.C12
open Brax Kin Gd C05G C12M C12M2

/-! ## 1. one-step momentum change at fixed `q` -/

/-- `P(q,y) = Σ_{b ∈ tree ρ} m_b · (velocity of the centre of mass of link b under joint velocity y)`.
Hypothesis: `GenOK` of the state (`MomOK.ok`). -/
theorem mom_linMom_eq {s : Sys ℝ} {q qd : List ℝ} (hok : StOK s q qd) (ρ : Nat) (y : List ℝ) :
    linMom s q qd ρ y = vrsum s.types.length fun b => if inTree s.parents ρ b then
      V3.smul ((dynInit s q qd).com.cinr.getD b dI).mass
        (pointVel (velAnc s.parents (dynInit s q qd).com.cdof (qddN s y) b) (comOff s q qd b))
      else V3.zero :=
  linMom_eq hok ρ y

/-- linearity of `treeMom` in the joint velocity, every forest: `P(y + t·z) = P(y) + t·P(z)` -/
theorem mom_treeMom_lin (ps : List Int) (cinr : List (Inertia ℝ)) (cdof : List (List (Motion ℝ)))
    (Y Z : Nat → Nat → ℝ) (t : ℝ) (n ρ : Nat) :
    (treeMom ps cinr cdof (fun a r => Y a r + Z a r * t) n ρ).vel
      = (treeMom ps cinr cdof Y n ρ).vel + V3.smul t (treeMom ps cinr cdof Z n ρ).vel :=
  treeMom_vel_lin ps cinr cdof Y Z t n ρ

/-- the split of `cdd`: the recursive Newton–Euler accelerations are `(0, −g)` plus the zero-gravity scan
(`cddV`, the velocity-product part), link by link, every forest -/
theorem mom_cdd_split (ps : List Int) (grav : V3 ℝ) (c : ComState ℝ) (qdN : List (List ℝ)) :
    List.Forall₂ (fun a b => a = (⟨V3.zero, -grav⟩ : Motion ℝ) + b)
      (invCdd ps grav c qdN) (cddV ps c qdN) :=
  invCdd_split ps grav c qdN

/-- the split of `pointAcc`: `pointAcc (a + ((0,−g) + c)) v r = pointVel a r + (pointAcc c v r − g)` —
joint-acceleration part, velocity-product part `c_b = pointAcc c v r`, and `−g` -/
theorem mom_pointAcc_split (g : V3 ℝ) (a c v : Motion ℝ) (r : V3 ℝ) :
    pointAcc (a + ((⟨V3.zero, -g⟩ : Motion ℝ) + c)) v r = pointVel a r + (pointAcc c v r - g) := by
  rw [pointAcc_add, pointAcc_grav]

/-- forest level: root-row balance ⇒ `P(y + dt·ÿ) − P(y) = dt·(M_tot g − Σ_b m_b c_b)`.  Hypotheses:
`cinr_b.tf.pos = m_b r_b`; `cdd = (0,−g) + cddv` on the links; the balance `P(ÿ) + treeFrc.vel = 0`. -/
theorem mom_step_forest (ps : List Int) (cinr : List (Inertia ℝ)) (cdof : List (List (Motion ℝ)))
    (cdd cddv cd : List (Motion ℝ)) (g : V3 ℝ) (Y Ydd : Nat → Nat → ℝ) (dt : ℝ) (n ρ : Nat) (r : Nat → V3 ℝ)
    (hr : ∀ b, b < n → (cinr.getD b dI).tf.pos = V3.smul (cinr.getD b dI).mass (r b))
    (hsplit : ∀ b, b < n → cdd.getD b Motion.zero = (⟨V3.zero, -g⟩ : Motion ℝ) + cddv.getD b Motion.zero)
    (hbal : (treeMom ps cinr cdof Ydd n ρ).vel + (treeFrc ps cinr cdd cd n ρ).vel = V3.zero) :
    (treeMom ps cinr cdof (fun a s => Y a s + Ydd a s * dt) n ρ).vel - (treeMom ps cinr cdof Y n ρ).vel
      = V3.smul dt (V3.smul (treeMass ps cinr n ρ) g - treeVp ps cinr cddv cd r n ρ) :=
  C12M2.mom_step_forest ps cinr cdof cdd cddv cd g Y Ydd dt n ρ r hr hsplit hbal

/-- **pipeline level, first tree, any exact `qdd`.**  `MomOK s q qd`; `qdd` (length `nv`) solves
`(M + diag(damping)·dt) qdd = qf_smooth + qfc` exactly; `lin3 tau = 0`, `lin3 qfc = 0`, `qfc.length = nv`
⇒ `P(q, qd + dt·qdd) − P(q, qd) = dt·(M_tot g − Σ_{b∈tree 0} m_b c_b)`. -/
theorem mom_fixed_q_of_exact {s : Sys ℝ} {q qd : List ℝ} (h : MomOK s q qd) (act qfc qdd : List ℝ)
    (hqdd : qdd.length = s.nv) (hqfc : qfc.length = s.nv)
    (htau : lin3 (toTau s.nv s.acts act q qd) = V3.zero) (hqfc0 : lin3 qfc = V3.zero)
    (hex : matVec (dampedMatrix (dynInit s q qd).massMx (s.dofs.map (·.damping)) s.dt) qdd
        = List.zipWith (· + ·) (qfSmooth s (dynInit s q qd) q qd act) qfc) :
    linMom s q qd 0 (List.zipWith (fun v a => v + a * s.dt) qd qdd) - linMom s q qd 0 qd
      = V3.smul s.dt (V3.smul (stTreeMass s q qd 0) s.gravity - stTreeVp s q qd 0) :=
  linMom_step_root0 h act qfc qdd hqdd hqfc htau hqfc0 hex

/-- **`mom_step_fixed_q`**: the same for the `(qd′, qdd)` that `Gd.step` really returns
(`qd′ = (Gd.step …).1.2.1`, `qdd = (Gd.step …).1.2.2`), when its linear solve is exact. -/
theorem mom_step_fixed_q {s : Sys ℝ} {q qd : List ℝ} (h : MomOK s q qd)
    (solve : List (List ℝ) → List ℝ → List ℝ) (act qfc : List ℝ) (hqfc : qfc.length = s.nv)
    (htau : lin3 (toTau s.nv s.acts act q qd) = V3.zero) (hqfc0 : lin3 qfc = V3.zero)
    (hlen : (Gd.step solve s (dynInit s q qd) q qd act qfc).1.2.2.length = s.nv)
    (hex : matVec (dampedMatrix (dynInit s q qd).massMx (s.dofs.map (·.damping)) s.dt)
        (Gd.step solve s (dynInit s q qd) q qd act qfc).1.2.2
      = List.zipWith (· + ·) (qfSmooth s (dynInit s q qd) q qd act) qfc) :
    linMom s q qd 0 (Gd.step solve s (dynInit s q qd) q qd act qfc).1.2.1 - linMom s q qd 0 qd
      = V3.smul s.dt (V3.smul (stTreeMass s q qd 0) s.gravity - stTreeVp s q qd 0) := by
  rw [step_qd]
  exact linMom_step_root0 h act qfc _ hlen hqfc htau hqfc0 hex

/-! ## 2. roots other than link 0 -/

/-- `MomOK` is `MomOKAt` at link 0 -/
theorem momOK_toAt {s : Sys ℝ} {q qd : List ℝ} (h : MomOK s q qd) : MomOKAt s q qd 0 := C12M2.MomOK.toAt h

/-- **root-row balance for the tree of any free root `ρ`** (`MomOKAt s q qd ρ`; the zero-force hypotheses at the
flat dofs `dofOff s.types ρ + 0,1,2`): `P(q, qdd) + (linear part of the tree's Newton–Euler force) = 0` -/
theorem mom_root_balance_at {s : Sys ℝ} {q qd : List ℝ} {ρ : Nat} (h : MomOKAt s q qd ρ)
    (act qfc qdd : List ℝ) (hqdd : qdd.length = s.nv) (hqfc : qfc.length = s.nv)
    (htau : lin3 ((toTau s.nv s.acts act q qd).drop (dofOff s.types ρ)) = V3.zero)
    (hqfc0 : lin3 (qfc.drop (dofOff s.types ρ)) = V3.zero)
    (hex : matVec (dampedMatrix (dynInit s q qd).massMx (s.dofs.map (·.damping)) s.dt) qdd
        = List.zipWith (· + ·) (qfSmooth s (dynInit s q qd) q qd act) qfc) :
    linMom s q qd ρ qdd
      + (treeFrc s.parents (dynInit s q qd).com.cinr (stCdd s q qd) (dynInit s q qd).com.cd
          s.types.length ρ).vel = V3.zero :=
  root_balance_at h act qfc qdd hqdd hqfc htau hqfc0 hex

/-- … in physical form: `Σ_{b ∈ tree ρ} m_b (a_b − g) = 0` -/
theorem mom_root_balance_physical_at {s : Sys ℝ} {q qd : List ℝ} {ρ : Nat} (h : MomOKAt s q qd ρ)
    (act qfc qdd : List ℝ) (hqdd : qdd.length = s.nv) (hqfc : qfc.length = s.nv)
    (htau : lin3 ((toTau s.nv s.acts act q qd).drop (dofOff s.types ρ)) = V3.zero)
    (hqfc0 : lin3 (qfc.drop (dofOff s.types ρ)) = V3.zero)
    (hex : matVec (dampedMatrix (dynInit s q qd).massMx (s.dofs.map (·.damping)) s.dt) qdd
        = List.zipWith (· + ·) (qfSmooth s (dynInit s q qd) q qd act) qfc) :
    (vrsum s.types.length fun b => if inTree s.parents ρ b then
        V3.smul ((dynInit s q qd).com.cinr.getD b dI).mass
          (pointAcc (velAnc s.parents (dynInit s q qd).com.cdof (qddN s qdd) b
              + (stCdd s q qd).getD b Motion.zero)
            ((dynInit s q qd).com.cd.getD b Motion.zero) (comOff s q qd b))
        else V3.zero) = V3.zero :=
  root_balance_physical_at h act qfc qdd hqdd hqfc htau hqfc0 hex

/-- **one-step momentum change at fixed `q`, tree of any free root `ρ`** -/
theorem mom_fixed_q_at {s : Sys ℝ} {q qd : List ℝ} {ρ : Nat} (h : MomOKAt s q qd ρ)
    (act qfc qdd : List ℝ) (hqdd : qdd.length = s.nv) (hqfc : qfc.length = s.nv)
    (htau : lin3 ((toTau s.nv s.acts act q qd).drop (dofOff s.types ρ)) = V3.zero)
    (hqfc0 : lin3 (qfc.drop (dofOff s.types ρ)) = V3.zero)
    (hex : matVec (dampedMatrix (dynInit s q qd).massMx (s.dofs.map (·.damping)) s.dt) qdd
        = List.zipWith (· + ·) (qfSmooth s (dynInit s q qd) q qd act) qfc) :
    linMom s q qd ρ (List.zipWith (fun v a => v + a * s.dt) qd qdd) - linMom s q qd ρ qd
      = V3.smul s.dt (V3.smul (stTreeMass s q qd ρ) s.gravity - stTreeVp s q qd ρ) :=
  linMom_step_at h act qfc qdd hqdd hqfc htau hqfc0 hex

/-- … for the `(qd′, qdd)` of `Gd.step` -/
theorem mom_step_fixed_q_at {s : Sys ℝ} {q qd : List ℝ} {ρ : Nat} (h : MomOKAt s q qd ρ)
    (solve : List (List ℝ) → List ℝ → List ℝ) (act qfc : List ℝ) (hqfc : qfc.length = s.nv)
    (htau : lin3 ((toTau s.nv s.acts act q qd).drop (dofOff s.types ρ)) = V3.zero)
    (hqfc0 : lin3 (qfc.drop (dofOff s.types ρ)) = V3.zero)
    (hlen : (Gd.step solve s (dynInit s q qd) q qd act qfc).1.2.2.length = s.nv)
    (hex : matVec (dampedMatrix (dynInit s q qd).massMx (s.dofs.map (·.damping)) s.dt)
        (Gd.step solve s (dynInit s q qd) q qd act qfc).1.2.2
      = List.zipWith (· + ·) (qfSmooth s (dynInit s q qd) q qd act) qfc) :
    linMom s q qd ρ (Gd.step solve s (dynInit s q qd) q qd act qfc).1.2.1 - linMom s q qd ρ qd
      = V3.smul s.dt (V3.smul (stTreeMass s q qd ρ) s.gravity - stTreeVp s q qd ρ) := by
  rw [step_qd]
  exact linMom_step_at h act qfc _ hlen hqfc htau hqfc0 hex

/-! ## 3. energy, articulated: the exact one-step identity at fixed `q` -/

/-- `xᵀAx − yᵀAy = (x+y)ᵀ A (x−y)` for a symmetric square list matrix -/
theorem ke_quadForm_diff (A : List (List ℝ)) (n : Nat) (hA : SqSymm A n) (x y : List ℝ)
    (hx : x.length = n) (hy : y.length = n) :
    quadForm A x - quadForm A y
      = dot (List.zipWith (· + ·) x y) (matVec A (List.zipWith (· - ·) x y)) :=
  quadForm_diff A n hA x y hx hy

/-- `mass.matrix` is symmetric and square (`C02.massMatrix_symm` + shape), every forest -/
theorem ke_massMatrix_sqSymm (ps : List Int) (cinr : List (Inertia ℝ)) (cdof : List (List (Motion ℝ)))
    (arm : List (List ℝ)) :
    SqSymm (massMatrix ps cinr cdof arm) (dofIdx cdof.length (wAt cdof)).length :=
  sqSymm_massMatrix ps cinr cdof arm

/-- **every system, any `DynState` with a symmetric `nv × nv` mass matrix, exact solve**:
`q̇′ᵀM′q̇′ − q̇ᵀM′q̇ = dt·(q̇′+q̇)ᵀ(qf_smooth + qf_constraint)` with `M′ = mass_mx + dt·diag(damping)`
(`C02.integrate_semiImplicit` + symmetry). -/
theorem ke_step_damped_exact (solve : List (List ℝ) → List ℝ → List ℝ) (s : Sys ℝ) (st : DynState ℝ)
    (q qd act qfc : List ℝ) (hM : SqSymm st.massMx qd.length)
    (hsolve : matVec (dampedMatrix st.massMx (s.dofs.map (·.damping)) s.dt)
        (solve (dampedMatrix st.massMx (s.dofs.map (·.damping)) s.dt)
          (List.zipWith (· + ·) (qfSmooth s st q qd act) qfc))
      = List.zipWith (· + ·) (qfSmooth s st q qd act) qfc)
    (hlen : (solve (dampedMatrix st.massMx (s.dofs.map (·.damping)) s.dt)
        (List.zipWith (· + ·) (qfSmooth s st q qd act) qfc)).length = qd.length) :
    quadForm (dampedMatrix st.massMx (s.dofs.map (·.damping)) s.dt) (Gd.step solve s st q qd act qfc).1.2.1
        - quadForm (dampedMatrix st.massMx (s.dofs.map (·.damping)) s.dt) qd
      = s.dt * dot (List.zipWith (· + ·) (Gd.step solve s st q qd act qfc).1.2.1 qd)
          (List.zipWith (· + ·) (qfSmooth s st q qd act) qfc) :=
  ke_step_damped solve s st q qd act qfc hM hsolve hlen

/-- **kinetic energy `½ q̇ᵀ M q̇` at fixed `q`** (twice it):
`q̇′ᵀMq̇′ − q̇ᵀMq̇ = dt·(q̇′+q̇)ᵀ(qf_smooth + qf_constraint) − dt·Σ_i d_i (q̇′_i² − q̇_i²)`;
with zero joint damping the last term vanishes: `ΔT = dt · q̇_midᵀ (qf_smooth + qf_constraint)`. -/
theorem ke_step_exact (solve : List (List ℝ) → List ℝ → List ℝ) (s : Sys ℝ) (st : DynState ℝ)
    (q qd act qfc : List ℝ) (hM : SqSymm st.massMx qd.length) (hd : s.dofs.length = qd.length)
    (hsolve : matVec (dampedMatrix st.massMx (s.dofs.map (·.damping)) s.dt)
        (solve (dampedMatrix st.massMx (s.dofs.map (·.damping)) s.dt)
          (List.zipWith (· + ·) (qfSmooth s st q qd act) qfc))
      = List.zipWith (· + ·) (qfSmooth s st q qd act) qfc)
    (hlen : (solve (dampedMatrix st.massMx (s.dofs.map (·.damping)) s.dt)
        (List.zipWith (· + ·) (qfSmooth s st q qd act) qfc)).length = qd.length) :
    quadForm st.massMx (Gd.step solve s st q qd act qfc).1.2.1 - quadForm st.massMx qd
      = s.dt * dot (List.zipWith (· + ·) (Gd.step solve s st q qd act qfc).1.2.1 qd)
          (List.zipWith (· + ·) (qfSmooth s st q qd act) qfc)
        - s.dt * (dampPow (s.dofs.map (·.damping)) (Gd.step solve s st q qd act qfc).1.2.1 qd.length
            - dampPow (s.dofs.map (·.damping)) qd qd.length) :=
  ke_step solve s st q qd act qfc hM hd hsolve hlen

/-- the mass matrix of `pipeline.init` is a symmetric `nv × nv` matrix (`Full` sizes + `GenOK`) -/
theorem ke_init_sqSymm {s : Sys ℝ} {q qd : List ℝ} (hf : Full s q qd) (hok : StOK s q qd) :
    SqSymm (dynInit s q qd).massMx qd.length := by
  have h := sqSymm_massMatrix s.parents (dynInit s q qd).com.cinr (dynInit s q qd).com.cdof
    ((nested s q qd).map (fun l => l.dofs.map (·.armature)))
  rw [massMx_dim hf hok, ← hf.hqd] at h
  exact h

/-- `ke_step_exact` for the state `pipeline.init` builds: only `Full`, `GenOK` and the exact solve are assumed -/
theorem ke_step_exact_init (solve : List (List ℝ) → List ℝ → List ℝ) {s : Sys ℝ} {q qd : List ℝ}
    (hf : Full s q qd) (hok : StOK s q qd) (act qfc : List ℝ)
    (hsolve : matVec (dampedMatrix (dynInit s q qd).massMx (s.dofs.map (·.damping)) s.dt)
        (solve (dampedMatrix (dynInit s q qd).massMx (s.dofs.map (·.damping)) s.dt)
          (List.zipWith (· + ·) (qfSmooth s (dynInit s q qd) q qd act) qfc))
      = List.zipWith (· + ·) (qfSmooth s (dynInit s q qd) q qd act) qfc)
    (hlen : (solve (dampedMatrix (dynInit s q qd).massMx (s.dofs.map (·.damping)) s.dt)
        (List.zipWith (· + ·) (qfSmooth s (dynInit s q qd) q qd act) qfc)).length = qd.length) :
    quadForm (dynInit s q qd).massMx (Gd.step solve s (dynInit s q qd) q qd act qfc).1.2.1
        - quadForm (dynInit s q qd).massMx qd
      = s.dt * dot (List.zipWith (· + ·) (Gd.step solve s (dynInit s q qd) q qd act qfc).1.2.1 qd)
          (List.zipWith (· + ·) (qfSmooth s (dynInit s q qd) q qd act) qfc)
        - s.dt * (dampPow (s.dofs.map (·.damping))
              (Gd.step solve s (dynInit s q qd) q qd act qfc).1.2.1 qd.length
            - dampPow (s.dofs.map (·.damping)) qd qd.length) :=
  ke_step solve s (dynInit s q qd) q qd act qfc (ke_init_sqSymm hf hok) (by rw [hf.hds, hf.hqd]) hsolve hlen

/-! ### non-vacuity -/

/-- the algebraic hypotheses of `quadForm_step` are satisfiable with a non-trivial step:
`A = [[2,1],[1,3]]`, `y = (1,0)`, `x = (2,1)`, `dt = 1/2`, `f = A(x−y)/dt = (6,8)`; and the identity gives
`xᵀAx − yᵀAy = 15 − 2 = 13 = ½·(3·6 + 1·8)` -/
example : SqSymm [[2, 1], [1, 3]] 2
    ∧ matVec [[2, 1], [1, 3]] (List.zipWith (· - ·) [2, 1] [1, 0]) = ([6, 8] : List ℝ).map (· * (1 / 2))
    ∧ quadForm [[2, 1], [1, 3]] ([2, 1] : List ℝ) - quadForm [[2, 1], [1, 3]] [1, 0] = 13 := by
  refine ⟨⟨rfl, ?_, ?_⟩, ?_, ?_⟩
  · intro r hr
    simp only [List.mem_cons, List.not_mem_nil, or_false] at hr
    rcases hr with rfl | rfl <;> rfl
  · intro i j hi hj
    have : i = 0 ∨ i = 1 := by omega
    have : j = 0 ∨ j = 1 := by omega
    rcases ‹i = 0 ∨ i = 1› with rfl | rfl <;> rcases ‹j = 0 ∨ j = 1› with rfl | rfl <;> simp [entry]
  · simp [matVec, dot]; norm_num
  · simp [quadForm, matVec, dot]; norm_num

/-- the six dofs of a free joint without damping/armature -/
noncomputable def momDofs6 : List (DofP ℝ) :=
  [momDof ⟨0, 0, 0⟩ ⟨1, 0, 0⟩, momDof ⟨0, 0, 0⟩ ⟨0, 1, 0⟩, momDof ⟨0, 0, 0⟩ ⟨0, 0, 1⟩,
   momDof ⟨1, 0, 0⟩ ⟨0, 0, 0⟩, momDof ⟨0, 1, 0⟩ ⟨0, 0, 0⟩, momDof ⟨0, 0, 1⟩ ⟨0, 0, 0⟩]

/-- two free bodies (two trees): unit mass, unit inertia, no damping, no armature, no actuator -/
noncomputable def momSys2 : Sys ℝ :=
  { momSys with types := [.free, .free], parents := [-1, -1], links := [momLink, momLink],
                dofs := momDofs6 ++ momDofs6 }

/-- the hypotheses of `mom_root_balance_at` / `mom_fixed_q_at` on the system, the state and the forces hold at the
SECOND root (`ρ = 1`, flat dof offset 6) of a scene with two free bodies (`MomOKAt`, no actuator force, zero
constraint force) -/
example (act : List ℝ) :
    let q : List ℝ := [0, 0, 1, 1, 0, 0, 0, 2, 0, 1, 1, 0, 0, 0]
    let qd : List ℝ := [1, 0, 0, 0.3, 0, 0.5, 0, 1, 0, 0, 0.2, 0]
    MomOKAt momSys2 q qd 1 ∧ dofOff momSys2.types 1 = 6
    ∧ lin3 ((toTau momSys2.nv momSys2.acts act q qd).drop (dofOff momSys2.types 1)) = V3.zero
    ∧ lin3 ((List.replicate momSys2.nv (0 : ℝ)).drop (dofOff momSys2.types 1)) = V3.zero := by
  intro q qd
  have hslice : linkSlices momSys2.types q qd momSys2.dofs
      = [⟨.free, [0, 0, 1, 1, 0, 0, 0], [1, 0, 0, 0.3, 0, 0.5], momDofs6⟩,
         ⟨.free, [2, 0, 1, 1, 0, 0, 0], [0, 1, 0, 0, 0.2, 0], momDofs6⟩] := by
    simp [momSys2, momDofs6, linkSlices, LinkType.qWidth, LinkType.qdWidth, q, qd]
  have hlinkok : ∀ x ∈ momSys2.parents.zip (momSys2.links.zip (linkSlices momSys2.types q qd momSys2.dofs)),
      KinPos.LinkOK x.1 x.2.1 x.2.2 := by
    intro x hx
    rw [hslice] at hx
    simp only [momSys2, List.zip_cons_cons, List.zip_nil_right, List.mem_cons, List.not_mem_nil, or_false] at hx
    rcases hx with rfl | rfl
    · refine ⟨?_, rfl, ?_, ?_⟩
      · simp [momLink, Tf.id, Q4.IsUnit, Q4.normSq, Q4.one]
      · intro _
        refine ⟨by norm_num, rfl, rfl, by simp, 0, 0, 1, 1, 0, 0, 0, by simp, ?_⟩
        simp [Q4.IsUnit, Q4.normSq]
      · intro h; simp at h
    · refine ⟨?_, rfl, ?_, ?_⟩
      · simp [momLink, Tf.id, Q4.IsUnit, Q4.normSq, Q4.one]
      · intro _
        refine ⟨by norm_num, rfl, rfl, by simp, 2, 0, 1, 1, 0, 0, 0, by simp, ?_⟩
        simp [Q4.IsUnit, Q4.normSq]
      · intro h; simp at h
  have hfull : Full momSys2 q qd := ⟨rfl, rfl, rfl⟩
  have hpar : ∀ i (h : i < momSys2.parents.length), -1 ≤ momSys2.parents[i] ∧ momSys2.parents[i] < (i : Int) := by
    intro i hi
    have hi' : i < 2 := hi
    match i, hi' with
    | 0, _ => simp [momSys2]
    | 1, _ => simp [momSys2]
  have hroot : ∀ i (h : i < momSys2.parents.length) (h' : i < momSys2.types.length),
      momSys2.parents[i] < 0 → momSys2.types[i] = .free := by
    intro i hi _ _
    have hi' : i < 2 := hi
    match i, hi' with
    | 0, _ => simp [momSys2]
    | 1, _ => simp [momSys2]
  have hbasis : ∀ l ∈ linkSlices momSys2.types q qd momSys2.dofs, l.typ = .free →
      l.dofs.map (·.motion) = freeBasis := by
    intro l hl _
    rw [hslice] at hl
    simp only [List.mem_cons, List.not_mem_nil, or_false] at hl
    rcases hl with rfl | rfl <;> simp [momDofs6, momDof, freeBasis, V3.zero]
  have hmass : ∀ r ∈ rootIdx momSys2.parents,
      segSum 0 (· + ·) (momSys2.links.map (·.inertia.mass)) (rootIdx momSys2.parents) r ≠ 0 := by
    have hri : rootIdx momSys2.parents = [0, 1] := by
      show rootIdx [-1, -1] = [0, 1]
      decide
    intro r hr
    rw [hri] at hr ⊢
    simp only [List.mem_cons, List.not_mem_nil, or_false] at hr
    rcases hr with rfl | rfl <;> simp [momSys2, segSum, momLink]
  have hirot : ∀ lk ∈ momSys2.links, Q4.normSq lk.inertia.tf.rot ≠ 0 := by
    intro lk hlk
    simp [momSys2] at hlk
    subst hlk
    simp [momLink, Tf.id, Q4.normSq, Q4.one]
  have hoff : dofOff momSys2.types 1 = 6 := by simp [dofOff, momSys2, LinkType.qdWidth]
  have hmom : MomOKAt momSys2 q qd 1 :=
    { full := hfull
      ok := GenOK.of_linkOK momSys2 q qd rfl rfl hpar hroot hlinkok hbasis hmass hirot
      lt := by simp [momSys2]
      root := by simp [momSys2]
      symm := by
        intro lk hlk
        simp [momSys2] at hlk
        subst hlk
        simp [SymmI, momLink, M3.one]
      damp0 := by rw [hoff]; simp [momSys2, momDofs6, momDof, lin3, V3.zero]
      arm0 := by rw [hoff]; simp [momSys2, momDofs6, momDof, lin3, V3.zero] }
  refine ⟨hmom, hoff, ?_, ?_⟩
  · rw [hoff]; simp [momSys2, momSys, toTau, lin3, Sys.nv, LinkType.qdWidth, V3.zero]
  · rw [hoff]; simp [momSys2, lin3, Sys.nv, LinkType.qdWidth, V3.zero]

end Brax.C12
