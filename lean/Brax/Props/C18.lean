import Brax.Lemmas.C18
import Brax.Lemmas.Real
import Mathlib.Tactic.Ring
import Mathlib.Tactic.FieldSimp
import Mathlib.Tactic.Linarith
import Mathlib.Tactic.NormNum
/-!
# C18 — running observation statistics equal the statistics of all data seen

Model: `Brax/Model/C18.lean` (transcription of `running_statistics.update / normalize /
denormalize`, one feature at a time; `count` is shared).  Spec: `Brax/Spec/C18.lean`
(weighted population count / mean / summed squared deviation of the concatenated data).

All theorems hold for every history, every batch size and every field element (ℚ, ℝ, …) —
no bound on the number of batches, samples or on the weights.  The only hypothesis is the one
under which the code itself is defined: **every running count is non-zero** (the code divides
by it; IEEE gives NaN, a Lean field gives 0, so outside it model and code differ).  In an
ordered field this follows from "weights ≥ 0 and the first batch has positive total weight"
(`update_closed_form_nonneg`), which is the property's quantifier.

Exact real-number semantics: floating-point round-off is not modelled.
Only property theorems (and their non-vacuity examples) live in this file.
-/
set_option linter.unusedSectionVars false
set_option linter.unusedSimpArgs false
namespace Brax.C18
open Brax

/-! ## 1. Field identities (ℚ, ℝ, any field) -/
section field
variable {K : Type} [Field K]

/-- every running count (`count` after 1, 2, … batches) is non-zero -/
def RunningCountsNe (h : List (List (K × K))) : Prop :=
  ∀ k, 0 < k → k ≤ h.length → Spec.count (h.take k).flatten ≠ 0

/-- **Leading batch axes are flattened.**  Summing over two batch axes (`axis=(0,1)`) is the
update on the row-major flattening. -/
theorem batch_axes_flatten (s : Acc K) (b : List (List (K × K))) :
    step2 s b = step s b.flatten := by
  have key : ∀ f : K → K → K, S2 b f = S1 b.flatten f := by
    intro f
    simp only [S2, S1, sumL_map_flatten]
  simp only [step2, step, stepWith, key]

/-- no batch axis: one sample with a scalar weight is a batch of one -/
theorem no_batch_axis (s : Acc K) (w x : K) : step0 s w x = step s [(w, x)] := by
  simp [step0, step, stepWith, S0, S1]

/-- `weights=None` is `weights = 1` (one batch axis: `prod(batch_dims)` = number of samples) -/
theorem unweighted_eq_weight_one (s : Acc K) (b : List K) :
    stepU [(b.length : K)] s b = step s (b.map fun x => (1, x)) := by
  have hn : (b.length : K) = sumL ((b.map fun x => ((1 : K), x)).map fun p => p.1) := by
    induction b with
    | nil => simp
    | cons x xs ih => simp only [List.map_cons, sumL_cons, List.length_cons, ← ih]; push_cast; ring
  simp only [stepU, step, stepWithU, stepWith, prodDims, S1u, S1, List.foldr_cons, List.foldr_nil,
    mul_one, List.map_map, Function.comp_def]
  rw [hn]
  simp only [List.map_map, Function.comp_def]

/-- `weights=None`, no batch axis: one sample of weight 1 (`prod(()) = 1`) -/
theorem unweighted0_eq_weight_one (s : Acc K) (x : K) : stepU0 s x = step s [(1, x)] := by
  simp [stepU0, step, stepWithU, stepWith, prodDims, S1]

/-- `weights=None`, two batch axes `[d1, d2]` -/
theorem unweighted2_eq_weight_one (s : Acc K) (b : List (List K)) (d2 : ℕ)
    (hrow : ∀ r ∈ b, r.length = d2) :
    stepU2 [(b.length : K), (d2 : K)] s b = step s (b.flatten.map fun x => (1, x)) := by
  rw [← unweighted_eq_weight_one]
  have hlen : (b.flatten.length : K) = (b.length : K) * (d2 : K) := by
    induction b with
    | nil => simp
    | cons r rs ih =>
      have h1 := hrow r (by simp)
      have h2 := ih (fun q hq => hrow q (by simp [hq]))
      simp only [List.flatten_cons, List.length_append, List.length_cons]
      push_cast
      rw [h2, h1]; ring
  have key : ∀ f : K → K, S2u b f = S1u b.flatten f := by
    intro f
    simp only [S2u, S1u, sumL_map_flatten]
  simp only [stepU2, stepU, stepWithU, key, prodDims, List.foldr_cons, List.foldr_nil, mul_one, hlen]

/-- **`pmap_axis_name`**: the three `psum`s make the sharded update equal to the update on the
concatenation of all shards (in particular `psum (Σ_local / count) = Σ_global / count`). -/
theorem pmap_eq_flatten (s : Acc K) (devs : List (List (K × K))) :
    stepPmap s devs = step s devs.flatten := by
  have key : ∀ f : K → K → K, sumL (devs.map fun d => S1 d f) = S1 devs.flatten f := by
    intro f
    simp only [S1, sumL_map_flatten]
  simp only [stepPmap, step, stepWith, sumL_map_div, key]

/-- **The very first update** starts from `count = 0, mean = 0, summed_variance = 0`. -/
theorem first_update (b : List (K × K)) (hb : Spec.count b ≠ 0) :
    step (initAcc : Acc K) b = Spec.acc b := by
  have h := inv_step (inv_init (K := K)) b (by simpa [Spec.count_eq] using hb)
  simp only [List.nil_append] at h
  exact inv_spec h hb

/-- Invariant form, from any state that already summarises some data `d`. -/
theorem run_inv {s : Acc K} {d : List (K × K)} (hi : Inv s d) (h : List (List (K × K)))
    (hne : ∀ k, 0 < k → k ≤ h.length → Spec.count (d ++ (h.take k).flatten) ≠ 0) :
    Inv (run s h) (d ++ h.flatten) := by
  induction h generalizing s d with
  | nil => simpa [run] using hi
  | cons b h ih =>
    have h1 : W d + W b ≠ 0 := by
      have := hne 1 Nat.one_pos (by simp)
      simpa [Spec.count_eq] using this
    have := ih (inv_step hi b h1) (fun k hk hk' => by
      have := hne (k + 1) (Nat.succ_pos _) (by simpa using hk')
      simpa [List.append_assoc] using this)
    simpa [run, List.append_assoc] using this

/-- **Closed form.**  After ANY list of weighted batches all of whose running counts are
non-zero, the accumulator started at `init_state` is exactly the population statistics of the
concatenated data: `count = Σw`, `mean = Σwx/Σw`, `summed_variance = Σ w (x − mean)²`. -/
theorem update_closed_form (h : List (List (K × K))) (hne : RunningCountsNe h) (hh : h ≠ []) :
    run initAcc h = Spec.acc h.flatten := by
  have hi := run_inv (inv_init (K := K)) h (by simpa [RunningCountsNe] using hne)
  simp only [List.nil_append] at hi
  refine inv_spec hi ?_
  have := hne h.length (List.length_pos_iff.mpr hh) le_rfl
  simpa [Spec.count_eq] using this

/-- the closed form continues from any state that is itself the statistics of earlier data -/
theorem update_closed_form_from (d : List (K × K)) (hd : Spec.count d ≠ 0)
    (h : List (List (K × K)))
    (hne : ∀ k, 0 < k → k ≤ h.length → Spec.count (d ++ (h.take k).flatten) ≠ 0) :
    run (Spec.acc d) h = Spec.acc (d ++ h.flatten) := by
  have hi : Inv (Spec.acc d) d := by
    refine ⟨rfl, ?_, ?_⟩
    · simp only [Spec.acc, Spec.mean_eq, Spec.count_eq]
      rw [Spec.count_eq] at hd; field_simp
    · simp only [Spec.acc, Spec.sv_eq, Spec.mean_eq]
      rw [Spec.count_eq] at hd; field_simp; ring
  have := run_inv hi h hne
  rcases List.eq_nil_or_concat' h with rfl | ⟨h', b, rfl⟩
  · simp [run]
  · refine inv_spec this ?_
    have := hne (h' ++ [b]).length (by simp) le_rfl
    rw [List.take_length] at this
    simpa [Spec.count_eq] using this

/-- **Split invariance.**  Two histories that present the same multiset of weighted samples —
whatever the number of batches, the batch sizes and the order — end in the same state. -/
theorem split_invariant (h₁ h₂ : List (List (K × K))) (hp : h₁.flatten.Perm h₂.flatten)
    (n₁ : RunningCountsNe h₁) (n₂ : RunningCountsNe h₂) (e₁ : h₁ ≠ []) (e₂ : h₂ ≠ []) :
    run initAcc h₁ = run initAcc h₂ := by
  rw [update_closed_form h₁ n₁ e₁, update_closed_form h₂ n₂ e₂]
  exact Spec.acc_congr (W_perm hp) (M1_perm hp) (M2_perm hp)

/-- split invariance across batch-axis layouts: a `[B1, B2]` batch equals the `B1` row batches
presented one after the other equals one flat batch -/
theorem split_invariant_axes (b : List (List (K × K))) (n : RunningCountsNe b) (e : b ≠ [])
    (hb : Spec.count b.flatten ≠ 0) :
    step2 initAcc b = run initAcc b := by
  rw [batch_axes_flatten, first_update _ hb, update_closed_form b n e]

/-- weighted samples with natural-number weights -/
def weighted (d : List (ℕ × K)) : List (K × K) := d.map fun p => ((p.1 : K), p.2)
/-- the same samples, each presented `w` times with weight 1 -/
def repeated (d : List (ℕ × K)) : List (K × K) := d.flatMap fun p => List.replicate p.1 (1, p.2)

/-- **An integer weight `w` is `w` presentations** (statistics level). -/
theorem weight_is_repetition_spec (d : List (ℕ × K)) :
    Spec.acc (weighted d) = Spec.acc (repeated d) := by
  apply Spec.acc_congr
  all_goals
    induction d with
    | nil => rfl
    | cons p d ih =>
      simp only [weighted, repeated, List.map_cons, List.flatMap_cons, W_cons, M1_cons, M2_cons,
        W_append, M1_append, M2_append] at ih ⊢
      rw [ih]
      simp only [W, M1, M2, List.map_replicate, sumL_replicate]
      try ring

/-- **An integer weight `w` is `w` presentations** (history level): replacing, in every batch,
each sample of weight `w ∈ ℕ` by `w` copies of weight 1 does not change the final state. -/
theorem weight_is_repetition (h : List (List (ℕ × K)))
    (n₁ : RunningCountsNe (h.map weighted)) (n₂ : RunningCountsNe (h.map repeated)) (e : h ≠ []) :
    run initAcc (h.map weighted) = run initAcc (h.map repeated) := by
  rw [update_closed_form _ n₁ (by simpa using e), update_closed_form _ n₂ (by simpa using e)]
  have hw : (h.map weighted).flatten = weighted h.flatten := by
    clear n₁ n₂ e
    induction h with
    | nil => rfl
    | cons c h ih => simp only [List.map_cons, List.flatten_cons, ih]; simp [weighted]
  have hr : (h.map repeated).flatten = repeated h.flatten := by
    clear n₁ n₂ e hw
    induction h with
    | nil => rfl
    | cons c h ih => simp only [List.map_cons, List.flatten_cons, ih]; simp [repeated]
  rw [hw, hr, weight_is_repetition_spec]

end field

/-! ## 2. Ordered fields: the property's own hypothesis, clipping -/
section ordered
variable {K : Type} [Field K] [LinearOrder K] [IsStrictOrderedRing K]

/-- weights ≥ 0 and first batch of positive total weight ⇒ every running count is non-zero -/
theorem runningCountsNe_of_nonneg (b : List (K × K)) (h : List (List (K × K)))
    (hw : ∀ c ∈ b :: h, ∀ p ∈ c, 0 ≤ p.1) (hb : 0 < Spec.count b) :
    RunningCountsNe (b :: h) := by
  intro k hk hk'
  obtain ⟨k, rfl⟩ : ∃ j, k = j + 1 := ⟨k - 1, by omega⟩
  simp only [List.take_succ_cons, List.flatten_cons, Spec.count_eq, W_append]
  rw [Spec.count_eq] at hb
  have : 0 ≤ W (h.take k).flatten := by
    apply W_nonneg
    intro p hp
    obtain ⟨c, hc, hpc⟩ := List.mem_flatten.mp hp
    exact hw c (by simp [List.mem_of_mem_take hc]) p hpc
  linarith

/-- **Closed form under the property's quantifier**: all weights ≥ 0, first batch total > 0. -/
theorem update_closed_form_nonneg (b : List (K × K)) (h : List (List (K × K)))
    (hw : ∀ c ∈ b :: h, ∀ p ∈ c, 0 ≤ p.1) (hb : 0 < Spec.count b) :
    run initAcc (b :: h) = Spec.acc (b :: h).flatten :=
  update_closed_form _ (runningCountsNe_of_nonneg b h hw hb) (by simp)

/-- **Split invariance under the property's quantifier**: weights ≥ 0, both first batches of
positive total weight, same multiset of weighted samples ⇒ same final state. -/
theorem split_invariant_nonneg (b₁ b₂ : List (K × K)) (h₁ h₂ : List (List (K × K)))
    (hp : (b₁ :: h₁).flatten.Perm (b₂ :: h₂).flatten)
    (w₁ : ∀ c ∈ b₁ :: h₁, ∀ p ∈ c, 0 ≤ p.1) (w₂ : ∀ c ∈ b₂ :: h₂, ∀ p ∈ c, 0 ≤ p.1)
    (p₁ : 0 < Spec.count b₁) (p₂ : 0 < Spec.count b₂) :
    run initAcc (b₁ :: h₁) = run initAcc (b₂ :: h₂) :=
  split_invariant _ _ hp (runningCountsNe_of_nonneg b₁ h₁ w₁ p₁) (runningCountsNe_of_nonneg b₂ h₂ w₂ p₂)
    (by simp) (by simp)
/-- **Integer weight = repetition under the property's quantifier**: natural-number weights, first
batch of positive total weight — nothing else is assumed. -/
theorem weight_is_repetition_nonneg (b : List (ℕ × K)) (h : List (List (ℕ × K)))
    (hb : 0 < Spec.count (weighted b)) :
    run initAcc ((b :: h).map weighted) = run initAcc ((b :: h).map repeated) := by
  have hb' : 0 < Spec.count (repeated b) := by
    have := congrArg Acc.count (weight_is_repetition_spec b)
    simp only [Spec.acc] at this
    rw [← this]; exact hb
  refine weight_is_repetition (b :: h) ?_ ?_ (by simp)
  · refine runningCountsNe_of_nonneg (weighted b) (h.map weighted) ?_ hb
    intro c hc p hp
    simp only [← List.map_cons, List.mem_map] at hc
    obtain ⟨c', _, rfl⟩ := hc
    simp only [weighted, List.mem_map] at hp
    obtain ⟨q, _, rfl⟩ := hp
    exact Nat.cast_nonneg _
  · refine runningCountsNe_of_nonneg (repeated b) (h.map repeated) ?_ hb'
    intro c hc p hp
    simp only [← List.map_cons, List.mem_map] at hc
    obtain ⟨c', _, rfl⟩ := hc
    simp only [repeated, List.mem_flatMap, List.mem_replicate] at hp
    obtain ⟨q, _, _, rfl⟩ := hp
    exact zero_le_one
/-- normalise then denormalise returns the input (no clipping) -/
theorem normalize_denormalize (x μ σ : K) (hσ : σ ≠ 0) :
    denormalize (normalize none x μ σ) μ σ = x := by
  simp only [normalize, denormalize]; field_simp; ring

/-- denormalise then normalise returns the input -/
theorem denormalize_normalize (y μ σ : K) (hσ : σ ≠ 0) :
    normalize none (denormalize y μ σ) μ σ = y := by
  simp only [normalize, denormalize]; field_simp; ring

/-- **Non-float leaves are untouched** by `normalize` and `denormalize`, whatever the statistics
and `max_abs_value`. -/
theorem non_float_untouched (m : Option K) (i : Int) (μ σ : K) :
    normalizeLeaf m (Leaf.exact i : Leaf K) μ σ = .exact i ∧ denormalizeLeaf (Leaf.exact i : Leaf K) μ σ = .exact i :=
  ⟨rfl, rfl⟩

/-- leaf-level round trip, any dtype -/
theorem normalize_denormalize_leaf (d : Leaf K) (μ σ : K) (hσ : σ ≠ 0) :
    denormalizeLeaf (normalizeLeaf none d μ σ) μ σ = d := by
  cases d with
  | inexact x => simp only [normalizeLeaf, denormalizeLeaf, normalize_denormalize x μ σ hσ]
  | exact i => rfl

/-- `normalize(..., max_abs_value=m)` is bounded by `m` -/
theorem normalize_bounded (m x μ σ : K) (hm : 0 ≤ m) :
    -m ≤ normalize (some m) x μ σ ∧ normalize (some m) x μ σ ≤ m := by
  simp only [normalize]
  exact clip_mem _ _ _ (by linarith)

/-- with `max_abs_value`, the round trip holds exactly for inputs that are not clipped -/
theorem normalize_denormalize_clip (m x μ σ : K) (hσ : σ ≠ 0)
    (h1 : -m ≤ (x - μ) / σ) (h2 : (x - μ) / σ ≤ m) :
    denormalize (normalize (some m) x μ σ) μ σ = x := by
  have : normalize (some m) x μ σ = normalize none x μ σ := by
    simp only [normalize]; exact clip_of_mem _ _ _ h1 h2
  rw [this, normalize_denormalize x μ σ hσ]

end ordered

/-! ## 3. ℝ: the standard deviation -/
section real

/-- **std is clipped** to `[std_min_value, std_max_value]` after every update, from any state
and for any batch (even where the statistics themselves are meaningless). -/
theorem std_clipped (lo hi : ℝ) (hlh : lo ≤ hi) (s : State ℝ) (b : List (ℝ × ℝ)) :
    lo ≤ (update lo hi s b).std ∧ (update lo hi s b).std ≤ hi := by
  simp only [update, stdOf]
  exact clip_mem _ _ _ hlh

/-- the code does not check `lo ≤ hi`: with swapped bounds the std is the constant `hi` -/
theorem std_clip_swapped (lo hi : ℝ) (hlh : hi < lo) (s : State ℝ) (b : List (ℝ × ℝ)) :
    (update lo hi s b).std = hi := by
  simp only [update, stdOf]
  exact clip_swapped _ _ _ hlh

theorem runState_acc (lo hi : ℝ) (s : State ℝ) (h : List (List (ℝ × ℝ))) :
    (runState lo hi s h).acc = run s.acc h := by
  induction h generalizing s with
  | nil => rfl
  | cons b h ih => simp only [runState, run, List.foldl_cons] at ih ⊢; rw [ih]; rfl

/-- **Running std = clipped population std.**  Under the property's quantifier the state after
any non-empty history is `(Σw, Σwx/Σw, Σw(x−mean)², clip(sqrt(population variance), lo, hi))`. -/
theorem std_closed_form (lo hi : ℝ) (b : List (ℝ × ℝ)) (h : List (List (ℝ × ℝ)))
    (hw : ∀ c ∈ b :: h, ∀ p ∈ c, 0 ≤ p.1) (hb : 0 < Spec.count b) :
    runState lo hi init (b :: h) =
      ⟨Spec.acc (b :: h).flatten, clip (Real.sqrt (Spec.var (b :: h).flatten)) lo hi⟩ := by
  have hacc := runState_acc lo hi init (b :: h)
  rw [show (init : State ℝ).acc = initAcc from rfl, update_closed_form_nonneg b h hw hb] at hacc
  have hstd : (runState lo hi init (b :: h)).std =
      stdOf lo hi (runState lo hi init (b :: h)).acc.sv (runState lo hi init (b :: h)).acc.count := by
    rcases List.eq_nil_or_concat' (b :: h) with hnil | ⟨h', c, hc⟩
    · simp at hnil
    · rw [hc]; simp only [runState, List.foldl_append, List.foldl_cons, List.foldl_nil, update]
  have hsv : 0 ≤ Spec.sv (b :: h).flatten := by
    apply sv_nonneg
    intro p hp
    obtain ⟨c, hc, hpc⟩ := List.mem_flatten.mp hp
    exact hw c hc p hpc
  have : runState lo hi init (b :: h) = ⟨(runState lo hi init (b :: h)).acc,
      (runState lo hi init (b :: h)).std⟩ := rfl
  rw [this, hstd, hacc]
  simp only [Spec.acc, stdOf, Spec.var, maxv_eq, max_eq_left hsv]
  rfl

/-- **normalise ∘ denormalise = id with the running statistics**: `std ≥ std_min_value > 0`
by `std_clipped`, so the division is by a non-zero number. -/
theorem normalize_denormalize_state (lo hi : ℝ) (hlo : 0 < lo) (hlh : lo ≤ hi)
    (s : State ℝ) (b : List (ℝ × ℝ)) (x : ℝ) :
    let st := update lo hi s b
    denormalize (normalize none x st.acc.mean st.std) st.acc.mean st.std = x := by
  intro st
  have := (std_clipped lo hi hlh s b).1
  exact normalize_denormalize x _ _ (by change (update lo hi s b).std ≠ 0; linarith)

/-- the initial state (`std = 1`) normalises by the identity scale -/
theorem normalize_init (x : ℝ) :
    normalize none x (init : State ℝ).acc.mean (init : State ℝ).std = x := by
  simp [normalize, init, initAcc]

end real

/-! ## 4. `validate_shapes` -/

/-- accepted shapes ⇒ every leaf is `batch_dims ++ feature shape` with one common `batch_dims`,
and the weights have exactly that shape (so flattening gives lists of equal length) -/
theorem validate_sound (w : List Nat) (l0 m0 : List Nat) (ls ms : List (List Nat))
    (h : validate (some w) (l0 :: ls) (m0 :: ms) = true) :
    w = batchDims l0 m0.length ∧
      List.Forall₂ (fun l m => l = batchDims l0 m0.length ++ m) (l0 :: ls) (m0 :: ms) := by
  simp only [validate, Bool.and_eq_true, beq_iff_eq, List.all_eq_true] at h
  obtain ⟨⟨hw, hlen⟩, hall⟩ := h
  refine ⟨hw, ?_⟩
  generalize batchDims l0 m0.length = bd at hall
  generalize l0 :: ls = L at hlen hall
  generalize m0 :: ms = M at hlen hall
  induction L generalizing M with
  | nil =>
    cases M with
    | nil => exact List.Forall₂.nil
    | cons _ _ => simp at hlen
  | cons l L ih =>
    cases M with
    | nil => simp at hlen
    | cons m M =>
      simp only [List.zipWith_cons_cons, List.mem_cons, forall_eq_or_imp, id, beq_iff_eq] at hall
      exact List.Forall₂.cons hall.1 (ih M (by simpa using hlen) hall.2)

/-! ## 5. Non-vacuity: the hypotheses are satisfiable and the statements are not trivial -/

/-- a concrete history over ℚ: 2 batches, weights in {0,…,3}; every running count ≠ 0 -/
def exHist : List (List (ℚ × ℚ)) := [[(1, 2), (2, 5)], [(0, 7), (3, 1)]]

example : RunningCountsNe exHist := by
  intro k hk hk'
  have : k = 1 ∨ k = 2 := by simp [exHist] at hk'; omega
  rcases this with rfl | rfl <;> norm_num [exHist, Spec.count, sumL]

/-- the model really computes, and lands on the population statistics (count 6, mean 5/2,
summed variance 39/2) — which are not those of either batch alone -/
example : run initAcc exHist = ⟨6, 5 / 2, 39 / 2⟩ := by
  norm_num [exHist, run, step, stepWith, S1, sumL, initAcc]
example : Spec.acc exHist.flatten = ⟨6, 5 / 2, 39 / 2⟩ := by
  norm_num [exHist, Spec.acc, Spec.count, Spec.mean, Spec.sv, sumL]
example : step initAcc (exHist.headD []) = (⟨3, 4, 6⟩ : Acc ℚ) := by
  norm_num [exHist, step, stepWith, S1, sumL, initAcc]

/-- the hypothesis cannot be dropped: a first batch of total weight 0 leaves the *model* at
mean 0 (the code: NaN) and the next batch does not repair `summed_variance` in general -/
example : run initAcc [[((1 : ℚ), 1), (-1, 3)], [(1, 0)]] ≠ Spec.acc [((1 : ℚ), 1), (-1, 3), (1, 0)] := by
  norm_num [run, step, stepWith, S1, sumL, initAcc, Spec.acc, Spec.count, Spec.mean, Spec.sv]

/-- weight 2 ≡ two presentations, concretely -/
example : run (initAcc : Acc ℚ) [[(2, 3), (1, 6)]] = run initAcc [[(1, 3), (1, 3), (1, 6)]] := by
  norm_num [run, step, stepWith, S1, sumL, initAcc]

/-- split invariance, concretely: 3 batches in another order give the state of `exHist` -/
example : run initAcc exHist = run initAcc [[(3, 1), (2, 5)], [(1, 2)], [(0, 7)]] := by
  norm_num [exHist, run, step, stepWith, S1, sumL, initAcc]
example : exHist.flatten.Perm ([[(3, 1), (2, 5)], [(1, 2)], [(0, 7)]] : List (List (ℚ × ℚ))).flatten := by
  decide

/-- two batch axes, `psum` over two devices and `weights=None`, concretely -/
example : step2 (initAcc : Acc ℚ) [[(1, 2), (2, 5)], [(0, 7), (3, 1)]] = ⟨6, 5 / 2, 39 / 2⟩ := by
  norm_num [step2, stepWith, S2, sumL, initAcc]
example : stepPmap (initAcc : Acc ℚ) [[(1, 2), (2, 5)], [(0, 7), (3, 1)]] = ⟨6, 5 / 2, 39 / 2⟩ := by
  norm_num [stepPmap, S1, sumL, initAcc]
example : stepU [3] (initAcc : Acc ℚ) [1, 2, 6] = ⟨3, 3, 14⟩ := by
  norm_num [stepU, stepWithU, prodDims, S1u, sumL, initAcc]

/-- hypotheses of `std_closed_form` / `update_closed_form_nonneg` are met by a real history -/
example : ∃ (b : List (ℝ × ℝ)) (h : List (List (ℝ × ℝ))),
    (∀ c ∈ b :: h, ∀ p ∈ c, 0 ≤ p.1) ∧ 0 < Spec.count b ∧ h ≠ [] :=
  ⟨[(1, 2), (2, 5)], [[(0, 7), (3, 1)]], by
    intro c hc p hp
    simp only [List.mem_cons, List.not_mem_nil, or_false] at hc
    rcases hc with rfl | rfl <;> simp only [List.mem_cons, List.not_mem_nil, or_false] at hp <;>
      rcases hp with rfl | rfl <;> norm_num,
    by norm_num [Spec.count, sumL], by simp⟩

/-- clipping is active on both sides -/
example : clip (0 : ℚ) (1 / 1000000) 1000000 = 1 / 1000000 := by norm_num [clip]
example : clip (10000000 : ℚ) (1 / 1000000) 1000000 = 1000000 := by norm_num [clip]
example : normalize (some (5 : ℚ)) 100 0 1 = 5 := by norm_num [normalize, clip]
example : denormalize (normalize none (7 : ℚ) 3 2) 3 2 = 7 := by norm_num [normalize, denormalize]

example : validate (some [3, 2]) [[3, 2, 2], [3, 2]] [[2], []] = true := by decide
example : validate (some [3]) [[3, 2, 2], [3, 2]] [[2], []] = false := by decide
example : validate none [[3, 2, 2], [3, 4]] [[2], []] = false := by decide

end Brax.C18
