import Brax.Props.C05GenPerm
import Brax.Lemmas.C05GenPerm2
/-!
# C05, generalized pipeline — sibling order for a WHOLE `pipeline.step`

`s'` is `s` with its links relabelled by `σ` (new index ↦ old index, inverse `τ`): `RelabelG σ τ s s'` — link
types and per-link parameters moved, parent ids renamed (`permParents`, as in `scan_sibling_permutation`), the
flat dof array permuted **blockwise** (`bperm`: cut into the per-link blocks of `scan.link_types`, blocks
reordered by `σ`, concatenated), the actuators re-indexed (`ActRelG`: same parameters, coordinate `r` of new
link `k` where the original reads/drives coordinate `r` of old link `σ k`), same gravity and `dt`, and parents
before children in the new numbering too.  `bq σ s`, `bv σ s` are the blockwise permutations of flat `q`-like /
`qd`-like arrays of `s`.

* `blockwise_permutation_entries`, `blockwise_permutation_perm` — what `bperm` is;
* `root_com_sibling_order` — `root_com` (two `segment_sum`s over `root_fn`) of a relabelled forest;
* `link_slices_sibling_order` — `scan.link_types` of the blockwise permuted arrays is the relabelled slicing;
* `generalized_init_sibling_order` — `pipeline.init`: `transform_com` fields relabelled, mass matrix `Π M Πᵀ`;
* `generalized_massMatrix_sibling_order` — the flat mass matrix `M' = Π M Πᵀ`, for any CoM terms;
* `generalized_toTau_sibling_order` — `actuator.to_tau` with re-indexed actuators;
* `generalized_solve_transport` — an exact solve whose result on the relabelled system is unique returns `Π qdd`;
* **`generalized_step_sibling_order`** — one whole `pipeline.step`: new `q`, `qd`, `qdd` permuted blockwise,
  the recomputed dynamics terms relabelled; `generalized_step_sibling_order_state` — they are `pipeline.init`
  of the relabelled system at the permuted new coordinates (so the statement iterates);
* `generalized_trajectory_sibling_order` — any number of steps (solve hypotheses at every state);
* `exists_exact_solve_relabel` — the solve hypotheses are satisfiable;
* `example` — the free root with two hinged children listed in either order (`exSys3`, `exSys3'`).

**The constraint force is a parameter** (`qfc` of `Gd.step`), handed to the relabelled system permuted blockwise
(as in `generalized_step_components`).

Hypotheses, and why: `RelabelG` — what "the same model, siblings listed in another order" means; its field
`pwf'` and `s.WF` give parents before children in both numberings (needed: the pipeline scans the tree, and the
lower-triangle test of `mass.matrix` compares link indices); `s.WF` also gives `-1 ≤ parent` (the parent lookup
`x.take(parent_idx)` wraps: `-2` would read the *last* link, which a relabelling moves), lengths, actuator ids
in range; `Full` — `q`, `qd`, dofs have `q_size`/`qd_size` entries (where the blocks are cut); `qfc.length`;
`hex`, `hlen` — `solve` (the model's parameter for `jax.scipy.linalg.solve`) is exact on the original system;
`huniq` — its result on the relabelled system `(Π M Πᵀ + diag(Π damping)·dt) y = Π b` is the unique solution.
Not needed: free roots, unit quaternions, positive masses, non-zero tree masses, symmetric inertias.
-/
set_option linter.unusedSectionVars false
set_option linter.unusedSimpArgs false
set_option linter.unusedVariables false
namespace Brax.C05
section genSibling
open Brax Kin Gd C05G C05GP C05GP2 C05Perm

/-- **what the blockwise permutation is, entry by entry**: coordinate `r` of new link `k` (at the running offset
of the relabelled link types) is coordinate `r` of old link `σ k` -/
theorem blockwise_permutation_entries {β : Type} {n : Nat} {σ : Nat → Nat} (hσ : ∀ k, k < n → σ k < n)
    (w : LinkType → Nat) {ts' ts : List LinkType} (hts : PRL n σ ts' ts) (xs : List β)
    (hx : xs.length = (ts.map w).sum) (d : β) {k : Nat} (hk : k < n) {r : Nat}
    (hr : r < w (ts'.getD k .free)) :
    (bperm w n σ ts xs).getD (off w ts' k + r) d = xs.getD (off w ts (σ k) + r) d :=
  getD_bperm hσ w hts xs hx d hk hr

/-- the blockwise permutation is a permutation (same length, same entries) -/
theorem blockwise_permutation_perm {β : Type} {n : Nat} {σ τ : Nat → Nat} (hσ : ∀ k, k < n → σ k < n)
    (hτ : ∀ i, i < n → τ i < n) (hτσ : ∀ k, k < n → τ (σ k) = k) (hστ : ∀ i, i < n → σ (τ i) = i)
    (w : LinkType → Nat) (ts : List LinkType) (hn : ts.length = n) (xs : List β)
    (hx : xs.length = (ts.map w).sum) : (bperm w n σ ts xs).Perm xs :=
  bperm_perm hσ hτ hτσ hστ w ts hn xs hx

/-- **sibling order, `root_com`**: with masses and CoM poses relabelled by `σ`, the per-tree centres of mass
of the relabelled forest are the relabelled centres of mass (`PRL n σ xs' xs`: both have `n` rows and
`xs'[k] = xs[σ k]`) -/
theorem root_com_sibling_order (n : Nat) (σ τ : Nat → Nat) (hσ : ∀ k, k < n → σ k < n)
    (hτ : ∀ i, i < n → τ i < n) (hτσ : ∀ k, k < n → τ (σ k) = k) (hστ : ∀ i, i < n → σ (τ i) = i)
    (ps : List Int) (hps : ps.length = n) (hwf : PWF ps) (hwf' : PWF (permParents n σ τ ps))
    {mass' mass : List ℝ} {xi' xi : List (Tf ℝ)} (hm : PRL n σ mass' mass) (hxi : PRL n σ xi' xi) :
    PRL n σ (rootCom (permParents n σ τ ps) mass' xi') (rootCom ps mass xi) :=
  rootCom_prl n σ τ hσ hτ hτσ hστ ps hps hwf hwf' hm hxi

/-- **sibling order, `scan.link_types`**: the per-link slicing of the blockwise permuted flat `q`, `qd`, dof
arrays, for the relabelled link types, is the relabelled slicing -/
theorem link_slices_sibling_order {n : Nat} {σ : Nat → Nat} (hσ : ∀ k, k < n → σ k < n)
    (ts ts' : List LinkType) (hts : PRL n σ ts' ts) (q qd : List ℝ) (ds : List (DofP ℝ))
    (hq : (ts.map LinkType.qWidth).sum ≤ q.length) (hqd : (ts.map LinkType.qdWidth).sum ≤ qd.length)
    (hds : (ts.map LinkType.qdWidth).sum ≤ ds.length) :
    PRL n σ (linkSlices ts' (bperm LinkType.qWidth n σ ts q) (bperm LinkType.qdWidth n σ ts qd)
        (bperm LinkType.qdWidth n σ ts ds)) (linkSlices ts q qd ds) :=
  linkSlices_bperm hσ ts ts' hts q qd ds hq hqd hds

/-- **sibling order, `pipeline.init`** (`transform_com` + `mass.matrix`): at the blockwise permuted coordinates
the relabelled system has the relabelled CoM terms and the mass matrix `Π M Πᵀ` -/
theorem generalized_init_sibling_order {σ τ : Nat → Nat} {s s' : Sys ℝ} (hR : RelabelG σ τ s s')
    (hwf : s.WF = true) (q qd : List ℝ) (hf : Full s q qd) :
    dynInit s' (bq σ s q) (bv σ s qd) = permDyn σ s (dynInit s q qd) :=
  dynInit_relabel hR (WFParts.of_wf hwf) q qd hf

/-- **sibling order, the flat mass matrix**: for any per-link CoM inertias, dof rows (with the widths of the
link types) and armatures relabelled by `σ`, `mass.matrix` of the relabelled forest is `Π M Πᵀ` — rows and
columns permuted blockwise (as lists of rows) -/
theorem generalized_massMatrix_sibling_order {n : Nat} {σ τ : Nat → Nat} {ps : List Int} (H : FR n σ τ ps)
    (ts : List LinkType) (hn : ts.length = n) {cinr' cinr : List (Inertia ℝ)} (hci : PRL n σ cinr' cinr)
    {cdof' cdof : List (List (Motion ℝ))} (hcd : PRL n σ cdof' cdof)
    (hsh : Shaped LinkType.qdWidth ts cdof) {arm' arm : List (List ℝ)} (har : PRL n σ arm' arm) :
    massMatrix (permParents n σ τ ps) cinr' cdof' arm'
      = permMx LinkType.qdWidth n σ ts (massMatrix ps cinr cdof arm) :=
  massMatrix_permMx H ts hn hci hcd hsh har

/-- **sibling order, `actuator.to_tau`** with re-indexed actuators -/
theorem generalized_toTau_sibling_order {σ τ : Nat → Nat} {s s' : Sys ℝ} (hR : RelabelG σ τ s s')
    (hwf : s.WF = true) (u q qd : List ℝ) (hf : Full s q qd) :
    toTau s'.nv s'.acts u (bq σ s q) (bv σ s qd) = bv σ s (toTau s.nv s.acts u q qd) :=
  toTau_relabel hR (WFParts.of_wf hwf) u q qd hf

/-- **transport of the linear solve along the permutation matrix**: `(Π M Πᵀ + diag(Π d)·dt)(Π y) = Π((M +
diag(d)·dt) y)`, so an exact solve whose result on the permuted system is unique returns the permuted solution -/
theorem generalized_solve_transport {n : Nat} {σ τ : Nat → Nat} (hσ : ∀ k, k < n → σ k < n)
    (hτ : ∀ i, i < n → τ i < n) (hτσ : ∀ k, k < n → τ (σ k) = k) (hστ : ∀ i, i < n → σ (τ i) = i)
    (w : LinkType → Nat) (ts : List LinkType) (hn : ts.length = n)
    (solve : List (List ℝ) → List ℝ → List ℝ) (M : List (List ℝ)) (d b : List ℝ) (dt : ℝ)
    (hM : M.length = (ts.map w).sum) (hr : ∀ r ∈ M, r.length = (ts.map w).sum)
    (hd : d.length = (ts.map w).sum)
    (hex : matVec (dampedMatrix M d dt) (solve (dampedMatrix M d dt) b) = b)
    (hlen : (solve (dampedMatrix M d dt) b).length = (ts.map w).sum)
    (huniq : ∀ y : List ℝ, y.length = (ts.map w).sum →
      matVec (dampedMatrix (permMx w n σ ts M) (bperm w n σ ts d) dt) y = bperm w n σ ts b →
      solve (dampedMatrix (permMx w n σ ts M) (bperm w n σ ts d) dt) (bperm w n σ ts b) = y) :
    solve (dampedMatrix (permMx w n σ ts M) (bperm w n σ ts d) dt) (bperm w n σ ts b)
      = bperm w n σ ts (solve (dampedMatrix M d dt) b) :=
  solve_bperm hσ hτ hτσ hστ w ts hn solve M d b dt hM hr hd hex hlen huniq

/-- **C05, generalized pipeline, sibling order, one whole `pipeline.step`** from the state `pipeline.init`
holds, for an exact linear solve with a unique solution: the step of the relabelled system at the blockwise
permuted coordinates, controls `act` (same actuators, re-indexed) and blockwise permuted constraint force is
the relabelling of the step — new `q`, `qd`, `qdd` permuted blockwise, recomputed dynamics terms relabelled
(CoM fields by `σ`, mass matrix `Π M Πᵀ`) -/
theorem generalized_step_sibling_order (solve : List (List ℝ) → List ℝ → List ℝ) {σ τ : Nat → Nat}
    {s s' : Sys ℝ} (hR : RelabelG σ τ s s') (hwf : s.WF = true) (q qd act qfc : List ℝ)
    (hf : Full s q qd) (hqfc : qfc.length = s.nv)
    (hex : matVec (dampedP s (dynInit s q qd).massMx)
        (solve (dampedP s (dynInit s q qd).massMx)
          (List.zipWith (· + ·) (qfSmooth s (dynInit s q qd) q qd act) qfc))
      = List.zipWith (· + ·) (qfSmooth s (dynInit s q qd) q qd act) qfc)
    (hlen : (solve (dampedP s (dynInit s q qd).massMx)
        (List.zipWith (· + ·) (qfSmooth s (dynInit s q qd) q qd act) qfc)).length = s.nv)
    (huniq : ∀ y : List ℝ, y.length = s.nv →
      matVec (dampedP s' (permMx LinkType.qdWidth s.types.length σ s.types (dynInit s q qd).massMx)) y
        = bv σ s (List.zipWith (· + ·) (qfSmooth s (dynInit s q qd) q qd act) qfc) →
      solve (dampedP s' (permMx LinkType.qdWidth s.types.length σ s.types (dynInit s q qd).massMx))
        (bv σ s (List.zipWith (· + ·) (qfSmooth s (dynInit s q qd) q qd act) qfc)) = y) :
    Gd.step solve s' (dynInit s' (bq σ s q) (bv σ s qd)) (bq σ s q) (bv σ s qd) act (bv σ s qfc)
      = ((bq σ s (Gd.step solve s (dynInit s q qd) q qd act qfc).1.1,
          bv σ s (Gd.step solve s (dynInit s q qd) q qd act qfc).1.2.1,
          bv σ s (Gd.step solve s (dynInit s q qd) q qd act qfc).1.2.2),
         permDyn σ s (Gd.step solve s (dynInit s q qd) q qd act qfc).2) :=
  step_relabel hR (WFParts.of_wf hwf) solve q qd act qfc hf hqfc hex hlen huniq

/-- the relabelled dynamics terms of `generalized_step_sibling_order` are `pipeline.init` of the relabelled
system at the blockwise permuted new coordinates (so the theorem applies to the next step) -/
theorem generalized_step_sibling_order_state (solve : List (List ℝ) → List ℝ → List ℝ) {σ τ : Nat → Nat}
    {s s' : Sys ℝ} (hR : RelabelG σ τ s s') (hwf : s.WF = true) (q qd act qfc : List ℝ)
    (hf : Full s q qd)
    (hlen : (solve (dampedP s (dynInit s q qd).massMx)
        (List.zipWith (· + ·) (qfSmooth s (dynInit s q qd) q qd act) qfc)).length = s.nv) :
    permDyn σ s (Gd.step solve s (dynInit s q qd) q qd act qfc).2
      = dynInit s' (bq σ s (Gd.step solve s (dynInit s q qd) q qd act qfc).1.1)
          (bv σ s (Gd.step solve s (dynInit s q qd) q qd act qfc).1.2.1) := by
  have hl := integrate_lengths solve s (dynInit s q qd).massMx q qd (qfSmooth s (dynInit s q qd) q qd act)
    qfc hf hlen
  exact (dynInit_relabel hR (WFParts.of_wf hwf) _ _ ⟨hl.1, hl.2, hf.hds⟩).symm

/-- **C05, generalized pipeline, sibling order, any number of `pipeline.step`s** (`gsteps`: from `pipeline.init`
at `(q, qd)`, one `(act, qfc)` per step; returns the final `(q, qd)`): the relabelled system, started at the
blockwise permuted coordinates and fed the same controls and the blockwise permuted constraint forces, stays
the relabelling of the original trajectory.  `GoodSolve`: `hex`, `hlen`, `huniq` of
`generalized_step_sibling_order` at every state and input of the right sizes. -/
theorem generalized_trajectory_sibling_order (solve : List (List ℝ) → List ℝ → List ℝ) {σ τ : Nat → Nat}
    {s s' : Sys ℝ} (hR : RelabelG σ τ s s') (hwf : s.WF = true) (hS : GoodSolve solve σ s s')
    (inputs : List (List ℝ × List ℝ)) (hin : ∀ p ∈ inputs, p.2.length = s.nv) (q qd : List ℝ)
    (hf : Full s q qd) :
    gsteps solve s' (inputs.map fun p => (p.1, bv σ s p.2)) (bq σ s q, bv σ s qd)
      = (bq σ s (gsteps solve s inputs (q, qd)).1, bv σ s (gsteps solve s inputs (q, qd)).2) :=
  gsteps_relabel hR (WFParts.of_wf hwf) solve hS inputs hin q qd hf

/-- **the solve hypotheses `hex`, `hlen`, `huniq` are satisfiable**: whenever the original system is solvable
and the relabelled matrix is injective on vectors of the right size, a solve with the three properties exists -/
theorem exists_exact_solve_relabel (D D' : List (List ℝ)) (b b' : List ℝ) (m : Nat)
    (hD : D.length = m) (hD' : D'.length = m)
    (hsol : ∃ y : List ℝ, y.length = m ∧ matVec D y = b)
    (hinj : ∀ y z : List ℝ, y.length = m → z.length = m → matVec D' y = matVec D' z → y = z) :
    ∃ solve : List (List ℝ) → List ℝ → List ℝ,
      matVec D (solve D b) = b ∧ (solve D b).length = m
      ∧ ∀ y : List ℝ, y.length = m → matVec D' y = b' → solve D' b' = y := by
  classical
  refine ⟨fun M c => if h : ∃ y : List ℝ, y.length = M.length ∧ matVec M y = c then Classical.choose h else [],
    ?_, ?_, ?_⟩
  · have h : ∃ y : List ℝ, y.length = D.length ∧ matVec D y = b := by rw [hD]; exact hsol
    simp only [dif_pos h]; exact (Classical.choose_spec h).2
  · have h : ∃ y : List ℝ, y.length = D.length ∧ matVec D y = b := by rw [hD]; exact hsol
    simp only [dif_pos h]; rw [(Classical.choose_spec h).1, hD]
  · intro y hy hyb
    have h' : ∃ z : List ℝ, z.length = D'.length ∧ matVec D' z = b' := ⟨y, by rw [hy, hD'], hyb⟩
    simp only [dif_pos h']
    exact hinj _ _ (by rw [(Classical.choose_spec h').1, hD']) hy
      ((Classical.choose_spec h').2.trans hyb.symm)

/-! ### non-vacuity: the free root with two hinged children (about `z` and about `y`, different link
parameters, a motor on the `z` hinge), listed in either order — `exSys3`, `exSys3'`, `exSwap` of `Props/C05.lean` -/

theorem exRelabelG : RelabelG exSwap exSwap exSys3 exSys3' where
  σlt := by
    intro k hk; have hk' : k < 3 := hk
    show exSwap k < 3
    match k, hk' with | 0, _ | 1, _ | 2, _ => decide
  τlt := by
    intro k hk; have hk' : k < 3 := hk
    show exSwap k < 3
    match k, hk' with | 0, _ | 1, _ | 2, _ => decide
  τσ := by
    intro k hk; have hk' : k < 3 := hk
    match k, hk' with | 0, _ | 1, _ | 2, _ => decide
  στ := by
    intro k hk; have hk' : k < 3 := hk
    match k, hk' with | 0, _ | 1, _ | 2, _ => decide
  types := by
    refine ⟨rfl, rfl, ?_⟩
    intro k hk; have hk' : k < 3 := hk
    match k, hk' with | 0, _ | 1, _ | 2, _ => rfl
  parents := by
    simp [exSys3, exSys3', Kin.permParents, exSwap, List.range_succ]
  links := by
    refine ⟨rfl, rfl, ?_⟩
    intro k hk; have hk' : k < 3 := hk
    match k, hk' with | 0, _ | 1, _ | 2, _ => rfl
  dofs := by
    simp [exSys3, exSys3', exSys, bperm, chunk, Kin.permArgs, exSwap, List.range_succ, LinkType.qdWidth]
  acts := by
    show List.Forall₂ _ [_] [_]
    refine List.Forall₂.cons ⟨rfl, rfl, rfl, rfl, rfl, rfl, rfl, rfl, ?_, ?_⟩ List.Forall₂.nil
    · exact ⟨2, 0, by decide, by decide, by decide, by decide⟩
    · exact ⟨2, 0, by decide, by decide, by decide, by decide⟩
  gravity := rfl
  dt := rfl
  pwf' := by
    intro i
    match i with
    | 0 => simp [exSys3']
    | 1 => simp [exSys3']
    | 2 => simp [exSys3']
    | i + 3 => simp [exSys3']; omega

theorem exSys3_wf : exSys3.WF = true := by
  simp [Sys.WF, exSys3, exSys, Sys.nq, Sys.nv, LinkType.qWidth, LinkType.qdWidth, List.range_succ]
  decide

/-- all structural hypotheses of `generalized_step_sibling_order` hold for the two listings of the free root
with two hinged children; the coordinates of the two hinges are exchanged in `q'`, `qd'`, `qfc'` -/
example :
    let q : List ℝ := [0, 0, 1, 1, 0, 0, 0, 0.3, -0.2]
    let qd : List ℝ := [0, 0, 0, 0, 0, 0, 0.1, 0.4]
    let qfc : List ℝ := [0, 0, 0, 0, 0, 0, 0.5, 0.25]
    RelabelG exSwap exSwap exSys3 exSys3' ∧ exSys3.WF = true ∧ Full exSys3 q qd ∧ qfc.length = exSys3.nv
    ∧ bq exSwap exSys3 q = [0, 0, 1, 1, 0, 0, 0, -0.2, 0.3]
    ∧ bv exSwap exSys3 qd = [0, 0, 0, 0, 0, 0, 0.4, 0.1]
    ∧ bv exSwap exSys3 qfc = [0, 0, 0, 0, 0, 0, 0.25, 0.5]
    ∧ exSys3'.acts.map (fun a => (a.qId, a.qdId)) = [(8, 7)]
    ∧ exSys3.acts.map (fun a => (a.qId, a.qdId)) = [(7, 6)] := by
  intro q qd qfc
  refine ⟨exRelabelG, exSys3_wf, ⟨?_, ?_, ?_⟩, ?_, ?_, ?_, ?_, rfl, rfl⟩
  · simp [q, exSys3, Sys.nq, LinkType.qWidth]
  · simp [qd, exSys3, Sys.nv, LinkType.qdWidth]
  · simp [exSys3, exSys, Sys.nv, LinkType.qdWidth]
  · simp [qfc, exSys3, Sys.nv, LinkType.qdWidth]
  · simp [q, bq, bperm, chunk, Kin.permArgs, exSys3, exSwap, List.range_succ, LinkType.qWidth]
  · simp [qd, bv, bperm, chunk, Kin.permArgs, exSys3, exSwap, List.range_succ, LinkType.qdWidth]
  · simp [qfc, bv, bperm, chunk, Kin.permArgs, exSys3, exSwap, List.range_succ, LinkType.qdWidth]

end genSibling
end Brax.C05
