import Brax.Lemmas.C14
import Mathlib.Data.List.Sort
import Mathlib.Tactic.Linarith
/-!
# C14 — unsupported models are rejected, accepted models load consistently

Model: `Brax/Model/C14.lean` (`validate`, `init`, `loadStructure`, the `base.System` index
helpers), spec predicates: `Brax/Spec/C14.lean` (`Clean`, `specLinkType`, `CollidingLongCylinder`).

* `validate_ok_iff_clean` — `validate_model` accepts exactly the models with none of the features;
* `validate_rejects_*` — one theorem per unsupported feature of the property statement: the
  feature at ANY element of the model makes `validate` fail (the premises are the array-shape
  facts of a compiled `MjModel` that the code's `zip`/`groupby` really need);
* `init_*` — each pipeline's `init` is `validate >>= rest`;
* `load_*`, `dofRanges_*`, `qIdx_*`, `dofLink_*` — consistency of an accepted model's system;
* the cylinder check uses `contype | conaffinity << 32` on python ints since fix 132d4d7 (before, an
  int32 shift lost the conaffinity half and a colliding `contype = 0, conaffinity = 1` cylinder was
  accepted); `validate_rejects_cylinder` / `validate_rejects_colliding_long_cylinder` are now the
  full statement and `exCylinder` is a rejected example.

Only property theorems and non-vacuity examples live in this file.
-/
namespace Brax.C14

/-! ## `validate_model` accepts exactly the clean models -/

theorem validate_ok_iff_clean (m : MjFeatures) : validate m = .ok () ↔ Clean m := by
  simp only [validate, firstErr_eq_ok_iff, checks, List.mem_cons, List.mem_nil_iff, or_false,
    forall_eq_or_imp, forall_eq, chkIntegrator_ok_iff, chkCone_ok_iff, chkFluid_ok_iff,
    chkWind_ok_iff, chkImpratio_ok_iff, chkBias_ok_iff, chkGain_ok_iff, chkTrn_ok_iff,
    chkSolmix_ok_iff, chkPriority_ok_iff, chkRef_ok_iff, chkAnchors_ok_iff, chkDofs_ok_iff,
    chkStacks_ok_iff, chkCylinders_ok_iff, Clean, ActClean, SolverClean]
  tauto

/-- a model with none of the features is accepted -/
theorem validate_accepts_clean (m : MjFeatures) (h : Clean m) : validate m = .ok () :=
  (validate_ok_iff_clean m).2 h

/-- the only outcomes are acceptance, `NotImplementedError`, `RuntimeError` or an index/key error -/
theorem validate_rejects_of_not_clean (m : MjFeatures) (h : ¬ Clean m) : ∃ e, validate m = .error e := by
  cases hv : validate m with
  | ok u => cases u; exact absurd ((validate_ok_iff_clean m).1 hv) h
  | error e => exact ⟨e, rfl⟩

/-! ## one rejection theorem per unsupported feature, wherever it occurs -/

/-- non-Euler integrator -/
theorem validate_rejects_integrator (m : MjFeatures) (h : m.integrator ≠ 0) : validate m ≠ .ok () :=
  fun hok => h ((validate_ok_iff_clean m).1 hok).1

/-- it is the first check: the kind is `NotImplementedError` -/
theorem validate_integrator_kind (m : MjFeatures) (h : m.integrator ≠ 0) :
    validate m = .error .notImplemented := by
  have : chkIntegrator m = .error .notImplemented := by simp [chkIntegrator, failIf, h]
  simp [validate, checks, this, firstErr]

/-- elliptic cone -/
theorem validate_rejects_cone (m : MjFeatures) (h : m.cone ≠ 0) : validate m ≠ .ok () :=
  fun hok => h ((validate_ok_iff_clean m).1 hok).2.1

/-- ellipsoid fluid model on any geom, any coefficient -/
theorem validate_rejects_fluid (m : MjFeatures)
    (h : ∃ (g : Nat) (row : List Rat) (k : Nat) (x : Rat), m.geomFluid[g]? = some row ∧ row[k]? = some x ∧ x ≠ 0) : validate m ≠ .ok () := by
  intro hok
  obtain ⟨g, row, k, x, hg, hk, hx⟩ := h
  exact hx (((validate_ok_iff_clean m).1 hok).2.2.1 row (List.mem_of_getElem? hg) x (List.mem_of_getElem? hk))

/-- wind in any component -/
theorem validate_rejects_wind (m : MjFeatures) (h : ∃ (i : Nat) (x : Rat), m.wind[i]? = some x ∧ x ≠ 0) :
    validate m ≠ .ok () := by
  intro hok
  obtain ⟨i, x, hi, hx⟩ := h
  exact hx (((validate_ok_iff_clean m).1 hok).2.2.2.1 x (List.mem_of_getElem? hi))

/-- impratio other than 1 (above or below) -/
theorem validate_rejects_impratio (m : MjFeatures) (h : m.impratio ≠ 1) : validate m ≠ .ok () :=
  fun hok => h ((validate_ok_iff_clean m).1 hok).2.2.2.2.1

/-- a bias type other than none / affine on any actuator -/
theorem validate_rejects_bias (m : MjFeatures) (h : ∃ (i : Nat) (b : Int), m.actBiastype[i]? = some b ∧ b ≠ 0 ∧ b ≠ 1) :
    validate m ≠ .ok () := by
  intro hok
  obtain ⟨i, b, hi, h0, h1⟩ := h
  rcases ((validate_ok_iff_clean m).1 hok).2.2.2.2.2.1.1 b (List.mem_of_getElem? hi) with hb | hb
  · exact h0 hb
  · exact h1 hb

/-- a non-fixed gain on any actuator -/
theorem validate_rejects_gain (m : MjFeatures) (h : ∃ (i : Nat) (g : Int), m.actGaintype[i]? = some g ∧ g ≠ 0) :
    validate m ≠ .ok () := by
  intro hok
  obtain ⟨i, g, hi, hg⟩ := h
  exact hg (((validate_ok_iff_clean m).1 hok).2.2.2.2.2.1.2.1 g (List.mem_of_getElem? hi))

/-- a non-joint transmission on any actuator -/
theorem validate_rejects_transmission (m : MjFeatures) (h : ∃ (i : Nat) (t : Int), m.actTrntype[i]? = some t ∧ t ≠ 0) :
    validate m ≠ .ok () := by
  intro hok
  obtain ⟨i, t, hi, ht⟩ := h
  exact ht (((validate_ok_iff_clean m).1 hok).2.2.2.2.2.1.2.2 t (List.mem_of_getElem? hi))

/-- two geoms with different solmix, whichever two -/
theorem validate_rejects_solmix (m : MjFeatures)
    (h : ∃ (i j : Nat) (a b : Rat), m.geomSolmix[i]? = some a ∧ m.geomSolmix[j]? = some b ∧ a ≠ b) : validate m ≠ .ok () := by
  intro hok
  obtain ⟨i, j, a, b, hi, hj, hab⟩ := h
  have hc := ((validate_ok_iff_clean m).1 hok).2.2.2.2.2.2.1.1.2
  have ha := hc a (List.mem_of_getElem? hi)
  have hb := hc b (List.mem_of_getElem? hj)
  rw [← hb] at ha
  exact hab (Option.some.inj ha)

/-- two geoms with different priority -/
theorem validate_rejects_priority (m : MjFeatures)
    (h : ∃ (i j : Nat) (a b : Int), m.geomPriority[i]? = some a ∧ m.geomPriority[j]? = some b ∧ a ≠ b) :
    validate m ≠ .ok () := by
  intro hok
  obtain ⟨i, j, a, b, hi, hj, hab⟩ := h
  have hc := ((validate_ok_iff_clean m).1 hok).2.2.2.2.2.2.1.2.2
  have ha := hc a (List.mem_of_getElem? hi)
  have hb := hc b (List.mem_of_getElem? hj)
  rw [← hb] at ha
  exact hab (Option.some.inj ha)

/-- a reference offset: `qpos0 ≠ 0` at coordinate `c` of any non-free joint `k` (the coordinate
sits at the prefix sum of the joint widths, MuJoCo's `jnt_qposadr`, see `AdrOk`) -/
theorem validate_rejects_ref (m : MjFeatures)
    (h : ∃ (k : Nat) (t : Int) (c : Nat) (x : Rat), m.jntType[k]? = some t ∧ t ≠ 0 ∧ c < jntQWidth t ∧
      m.qpos0[prefixSum (m.jntType.map jntQWidth) k + c]? = some x ∧ x ≠ 0) : validate m ≠ .ok () := by
  intro hok
  obtain ⟨k, t, c, x, hk, ht, hc, hq, hx⟩ := h
  have hclean := ((validate_ok_iff_clean m).1 hok).2.2.2.2.2.2.2.1
  have hlt := lt_of_getElem?_some _ _ _ hk
  have htk : m.jntType[k] = t := by
    rw [List.getElem?_eq_getElem hlt] at hk; exact Option.some.inj hk
  have hmask := nonFreeMask_getElem? m.jntType k hlt c (by rw [htk]; exact hc)
  rw [htk] at hmask
  have hmem := mem_zip_of_getElem? _ _ _ _ _ hmask hq
  exact hx (hclean.2.2.2 _ hmem (by simpa using ht))

/-- a ball joint anywhere -/
theorem validate_rejects_ball (m : MjFeatures) (hl : m.jntBodyid.length = m.jntType.length)
    (h : ∃ i : Nat, m.jntType[i]? = some 1) : validate m ≠ .ok () := by
  intro hok
  obtain ⟨i, hi⟩ := h
  have hst := ((validate_ok_iff_clean m).1 hok).2.2.2.2.2.2.2.2.2.2.1
  have hlt := lt_of_getElem?_some _ _ _ hi
  obtain ⟨b, hb⟩ := getElem?_some_of_lt m.jntBodyid i (by omega)
  obtain ⟨g, hg, _, h1⟩ := mem_groupRuns_of_mem _ b 1 (mem_zip_of_getElem? _ _ _ _ _ hb hi)
  rcases hst g hg with h0 | ⟨_, hn⟩
  · rw [h0] at h1; simp at h1
  · exact hn h1

/-- stiffness on any free joint -/
theorem validate_rejects_free_stiffness (m : MjFeatures) (hs : JntShapes m)
    (h : ∃ (i : Nat) (k : Rat), m.jntType[i]? = some 0 ∧ m.jntStiffness[i]? = some k ∧ k > 0) : validate m ≠ .ok () := by
  intro hok
  obtain ⟨i, k, hi, hk, hpos⟩ := h
  have hd := ((validate_ok_iff_clean m).1 hok).2.2.2.2.2.2.2.2.2.1
  obtain ⟨_, _, h3, h4, _, _, _⟩ := hs
  have hlt := lt_of_getElem?_some _ _ _ hi
  obtain ⟨l, hl⟩ := getElem?_some_of_lt m.jntLimited i (by omega)
  obtain ⟨r, hr⟩ := getElem?_some_of_lt m.jntRange i (by omega)
  exact (hd _ (dofRows_getElem? m i 0 l r k hi hl hr hk)).1 rfl hpos

/-- a range on a ball joint (the code's other `RuntimeError` of the dof loop) -/
theorem validate_rejects_ball_range (m : MjFeatures) (hs : JntShapes m)
    (h : ∃ (i : Nat) (r : Option Rat × Option Rat), m.jntType[i]? = some 1 ∧ m.jntLimited[i]? = some true ∧ m.jntRange[i]? = some r ∧
      (r.1 ≠ none ∨ r.2 ≠ none)) : validate m ≠ .ok () := by
  intro hok
  obtain ⟨i, r, hi, hl, hr, hfin⟩ := h
  have hd := ((validate_ok_iff_clean m).1 hok).2.2.2.2.2.2.2.2.2.1
  obtain ⟨_, _, _, _, h5, _, _⟩ := hs
  have hlt := lt_of_getElem?_some _ _ _ hi
  obtain ⟨k, hk⟩ := getElem?_some_of_lt m.jntStiffness i (by omega)
  have := (hd _ (dofRows_getElem? m i 1 true r k hi hl hr hk)).2.1 rfl
  simp only [effRange, if_true] at this
  rcases hfin with hf | hf
  · exact hf this.1
  · exact hf this.2

/-- stacked joints with different anchors: any two joints of one body -/
theorem validate_rejects_anchor (m : MjFeatures) (hsorted : JntSorted m)
    (hl : m.jntPos.length = m.jntBodyid.length)
    (h : ∃ (i j : Nat) (b : Int) (p q : Rat × Rat × Rat), m.jntBodyid[i]? = some b ∧ m.jntBodyid[j]? = some b ∧
      m.jntPos[i]? = some p ∧ m.jntPos[j]? = some q ∧ p ≠ q) : validate m ≠ .ok () := by
  intro hok
  obtain ⟨i, j, b, p, q, hbi, hbj, hpi, hpj, hpq⟩ := h
  have ha := ((validate_ok_iff_clean m).1 hok).2.2.2.2.2.2.2.2.1
  have hkeys : ((m.jntBodyid.zip m.jntPos).map (·.1)).Pairwise (· ≤ ·) := by
    rw [List.map_fst_zip (by omega)]; exact hsorted
  obtain ⟨g, hg, _, hp, hq⟩ := same_group _ hkeys b p q
    (mem_zip_of_getElem? _ _ _ _ _ hbi hpi) (mem_zip_of_getElem? _ _ _ _ _ hbj hpj)
  have h1 := ha g hg p hp
  have h2 := ha g hg q hq
  rw [← h2] at h1
  exact hpq (Option.some.inj h1)

/-- a colliding long cylinder anywhere: half-length > 0.001 and either collision bit mask set -/
theorem validate_rejects_cylinder (m : MjFeatures)
    (h : ∃ (i : Nat) (sz : Rat × Rat × Rat) (ct ca : Int), m.geomType[i]? = some 5 ∧
      m.geomSize[i]? = some sz ∧ sz.2.1 > cylThreshold ∧ m.geomContype[i]? = some ct ∧
      m.geomConaffinity[i]? = some ca ∧ 0 ≤ ct ∧ 0 ≤ ca ∧ (ct ≠ 0 ∨ ca ≠ 0)) : validate m ≠ .ok () := by
  intro hok
  obtain ⟨i, sz, ct, ca, ht, hsz, hlong, hct, hca, h0, h1, hne⟩ := h
  have hc := ((validate_ok_iff_clean m).1 hok).2.2.2.2.2.2.2.2.2.2.2
  refine hc _ (geomRows_getElem? m i 5 sz ct ca ht hsz hct hca) ⟨rfl, hlong, ?_⟩
  simp only [collisionMask, shl32Int32]
  omega

/-- the same in the property's words (`CollidingLongCylinder`), for the bit masks of a compiled model -/
theorem validate_rejects_colliding_long_cylinder (m : MjFeatures) (hb : MaskBits m)
    (h : CollidingLongCylinder m) : validate m ≠ .ok () := by
  intro hok
  obtain ⟨r, hr, h5, hlong, hne⟩ := h
  obtain ⟨t, sz, ct, ca⟩ := r
  have hc := ((validate_ok_iff_clean m).1 hok).2.2.2.2.2.2.2.2.2.2.2
  have hz := (List.of_mem_zip (List.of_mem_zip (List.of_mem_zip hr).2).2)
  have h0 : 0 ≤ ct := (hb.1 _ hz.1).1
  have h1 : 0 ≤ ca := (hb.2 _ hz.2).1
  have hne' : ct ≠ 0 ∨ ca ≠ 0 := hne
  refine hc _ hr ⟨h5, hlong, ?_⟩
  show collisionMask ct ca > 0
  simp only [collisionMask, shl32Int32]
  omega

/-! ## `pipeline.init` of the three native pipelines -/

/-- each pipeline's `init` is `validate_model` followed by the rest -/
theorem init_validates {σ : Type} (p : Pipeline) (m : MjFeatures) (body : Except Err σ) :
    init p (some m) body = (validate m >>= fun _ => body) := by
  cases p <;> simp [init, initCallsValidate]

/-- a rejected model makes every pipeline's `init` raise, with the same kind -/
theorem init_rejects {σ : Type} (p : Pipeline) (m : MjFeatures) (body : Except Err σ) (e : Err)
    (h : validate m = .error e) : init p (some m) body = .error e := by
  rw [init_validates, h]; rfl

theorem init_rejects_of_not_clean {σ : Type} (p : Pipeline) (m : MjFeatures) (body : Except Err σ)
    (h : ¬ Clean m) : ∀ s, init p (some m) body ≠ .ok s := by
  obtain ⟨e, he⟩ := validate_rejects_of_not_clean m h
  intro s hs
  rw [init_rejects p m body e he] at hs
  cases hs

/-- an accepted model is handed to the rest of `init` unchanged -/
theorem init_accepts {σ : Type} (p : Pipeline) (m : MjFeatures) (body : Except Err σ)
    (h : validate m = .ok ()) : init p (some m) body = body := by
  rw [init_validates, h]; rfl

/-- without an attached `mj_model` nothing is validated -/
theorem init_no_model {σ : Type} (p : Pipeline) (body : Except Err σ) : init p none body = body := rfl

/-! ## accepted models load consistently -/

/-- every body of an accepted model carries one free joint or a stack of hinge/slide joints -/
theorem load_group_shape (m : MjFeatures) (hc : Clean m) : ∀ g ∈ jointGroups m, GroupShape g.2 := by
  obtain ⟨_, _, _, _, _, _, _, href, _, _, hst, _⟩ := hc
  intro g hg
  obtain ⟨hne, hmem⟩ := mem_of_mem_groupRuns _ g hg
  rcases hst g hg with h0 | ⟨h0, h1⟩
  · exact Or.inl h0
  · refine Or.inr ⟨hne, ?_⟩
    intro t ht
    have htm : t ∈ m.jntType := (List.of_mem_zip (hmem t ht)).2
    rcases validJntType_cases t (href.2.1 t htm) with h | h | h | h
    · subst h; exact absurd ht h0
    · subst h; exact absurd ht h1
    · exact Or.inl h
    · exact Or.inr h

/-- per-link joint type = 'f' for a free body, else the size of the joint stack; no body is
skipped, so link `i` is the `i`-th body that has joints -/
theorem load_link_types (m : MjFeatures) (hc : Clean m) (h3 : MaxStack3 m) :
    linkTypes m = (jointGroups m).map fun g => specLinkType g.2 := by
  unfold linkTypes
  rw [filterMap_eq_map_of_forall (fun g => linkTypeOf g.2) (fun g => [specLinkType g.2]) _
    (fun g hg => linkTypeOf_shape g.2 (load_group_shape m hc g hg) (h3 g hg))]
  exact flatten_map_singleton _ _

theorem load_link_count (m : MjFeatures) (hc : Clean m) (h3 : MaxStack3 m) :
    (linkTypes m).length = (jointGroups m).length := by
  rw [load_link_types m hc h3, List.length_map]

theorem load_types_valid (m : MjFeatures) (hc : Clean m) (h3 : MaxStack3 m) : typesOk (linkTypes m) = true := by
  rw [load_link_types m hc h3, typesOk, List.all_eq_true]
  intro c hcm
  obtain ⟨g, _, rfl⟩ := List.mem_map.1 hcm
  exact validLinkType_specLinkType g.2

/-- Σ Q_WIDTHS(link_types) = Σ joint q-widths (= nq) -/
theorem load_counts_q (m : MjFeatures) (hc : Clean m) (h3 : MaxStack3 m)
    (hl : m.jntBodyid.length = m.jntType.length) :
    ((linkTypes m).map qWidth).sum = (m.jntType.map jntQWidth).sum := by
  rw [load_link_types m hc h3, List.map_map]
  have := sum_groups (jointGroups m) (fun typs => qWidth (specLinkType typs)) jntQWidth
    (fun g hg => qWidth_specLinkType g.2 (load_group_shape m hc g hg) (h3 g hg))
  simp only [Function.comp_def]
  rw [this, jointGroups, groupRuns_flatten, List.map_snd_zip (by omega)]

/-- Σ QD_WIDTHS(link_types) = Σ joint dof-widths (= nv) -/
theorem load_counts_qd (m : MjFeatures) (hc : Clean m) (h3 : MaxStack3 m)
    (hl : m.jntBodyid.length = m.jntType.length) :
    ((linkTypes m).map qdWidth).sum = (m.jntType.map jntQdWidth).sum := by
  rw [load_link_types m hc h3, List.map_map]
  have := sum_groups (jointGroups m) (fun typs => qdWidth (specLinkType typs)) jntQdWidth
    (fun g hg => qdWidth_specLinkType g.2 (load_group_shape m hc g hg) (h3 g hg))
  simp only [Function.comp_def]
  rw [this, jointGroups, groupRuns_flatten, List.map_snd_zip (by omega)]

/-- coordinate counts agree with the source model -/
theorem load_counts (m : MjFeatures) (hc : Clean m) (h3 : MaxStack3 m) (hs : JntShapes m) (ha : AdrOk m) :
    ((linkTypes m).map qWidth).sum = m.nq ∧ ((linkTypes m).map qdWidth).sum = m.nv ∧
    m.qpos0.length = m.nq := by
  obtain ⟨_, _, _, hnq, hnv, hq0⟩ := ha
  exact ⟨by rw [load_counts_q m hc h3 hs.1, hnq], by rw [load_counts_qd m hc h3 hs.1, hnv], hq0⟩

/-- the bodies of the links: strictly increasing body ids, exactly the bodies that have joints -/
theorem load_link_bodies (m : MjFeatures) (hsorted : JntSorted m) (hl : m.jntBodyid.length = m.jntType.length) :
    ((jointGroups m).map (·.1)).Pairwise (· < ·) ∧
    ∀ b, b ∈ (jointGroups m).map (·.1) ↔ b ∈ m.jntBodyid := by
  have hkeys : ((m.jntBodyid.zip m.jntType).map (·.1)).Pairwise (· ≤ ·) := by
    rw [List.map_fst_zip (by omega)]; exact hsorted
  refine ⟨groupRuns_keys_lt _ hkeys, ?_⟩
  intro b
  constructor
  · intro hb
    obtain ⟨g, hg, rfl⟩ := List.mem_map.1 hb
    obtain ⟨hne, hmem⟩ := mem_of_mem_groupRuns _ g hg
    obtain ⟨a, ha⟩ := List.exists_mem_of_ne_nil _ hne
    exact (List.of_mem_zip (hmem a ha)).1
  · intro hb
    obtain ⟨i, hi, rfl⟩ := List.mem_iff_getElem.1 hb
    have h1 : m.jntBodyid[i]? = some m.jntBodyid[i] := List.getElem?_eq_getElem hi
    obtain ⟨t, ht⟩ := getElem?_some_of_lt m.jntType i (by omega)
    obtain ⟨g, hg, hk, _⟩ := mem_groupRuns_of_mem _ _ t (mem_zip_of_getElem? _ _ _ _ _ h1 ht)
    exact List.mem_map.2 ⟨g, hg, hk⟩

/-- with every non-world body jointed (after `_fuse_bodies`), link `i` is body `i + 1` -/
theorem load_link_body_ids (m : MjFeatures) (hsorted : JntSorted m) (hl : m.jntBodyid.length = m.jntType.length)
    (hb : BodiesJointed m) :
    (jointGroups m).map (·.1) = (List.range' 1 (m.bodyParentid.length - 1)).map Int.ofNat := by
  obtain ⟨hlt, hmem⟩ := load_link_bodies m hsorted hl
  apply List.Pairwise.eq_of_mem_iff hlt
  · rw [List.pairwise_map]
    exact (List.pairwise_lt_range' (s := 1) (n := m.bodyParentid.length - 1)).imp
      (by intro a b h; exact Int.ofNat_lt.2 h)
  · intro b
    rw [hmem b]
    constructor
    · intro hbm
      obtain ⟨h1, h2⟩ := hb.1 b hbm
      refine List.mem_map.2 ⟨b.toNat, ?_, ?_⟩
      · rw [List.mem_range'_1]; omega
      · simp only [Int.ofNat_eq_natCast]; omega
    · intro hbm
      obtain ⟨n, hn, rfl⟩ := List.mem_map.1 hbm
      exact hb.2 n hn

/-- as many links as non-world bodies, as many parents as links -/
theorem load_link_count_bodies (m : MjFeatures) (hc : Clean m) (h3 : MaxStack3 m) (hsorted : JntSorted m)
    (hl : m.jntBodyid.length = m.jntType.length) (hb : BodiesJointed m) :
    (linkTypes m).length = m.bodyParentid.length - 1 ∧ (linkParents m).length = (linkTypes m).length := by
  have h1 : (linkTypes m).length = m.bodyParentid.length - 1 := by
    rw [load_link_count m hc h3]
    have := congrArg List.length (load_link_body_ids m hsorted hl hb)
    simpa using this
  exact ⟨h1, by rw [h1]; simp [linkParents]⟩

/-- parent-before-child: `-1 ≤ link_parents[i] < i`, and it is the parent body's link -/
theorem load_parent_lt (m : MjFeatures) (hb : BodyOrder m) (i : Nat) (p : Int)
    (h : (linkParents m)[i]? = some p) :
    -1 ≤ p ∧ p < (i : Int) ∧ m.bodyParentid[i + 1]? = some (p + 1) := by
  unfold linkParents at h
  rw [List.getElem?_drop, List.getElem?_map] at h
  have hlt : 1 + i < m.bodyParentid.length := by
    by_contra hc
    rw [List.getElem?_eq_none (by omega)] at h
    cases h
  rw [List.getElem?_eq_getElem hlt] at h
  have hp : m.bodyParentid[1 + i] - 1 = p := by simpa using h
  obtain ⟨h0, h1⟩ := hb.2 (1 + i) hlt (by omega)
  refine ⟨by omega, by omega, ?_⟩
  rw [show i + 1 = 1 + i by omega, List.getElem?_eq_getElem hlt]
  congr 1; omega

/-- initial pose = source `qpos0`; on an accepted model every non-free coordinate of it is 0 -/
theorem load_init_q (m : MjFeatures) (o : LoadOut) (h : loadStructure m = some o) : o.initQ = m.qpos0 := by
  unfold loadStructure at h
  cases hq : actIds m m.jntQposadr with
  | none => simp [hq] at h
  | some q =>
    cases hqd : actIds m m.jntDofadr with
    | none => simp [hq, hqd] at h
    | some qd =>
      simp [hq, hqd] at h
      rw [← h]

/-- on an accepted, well-formed model `load_model` keeps every actuator, in order, and its
`q_id` / `qd_id` are the addresses of the actuated joint -/
theorem load_actuators (m : MjFeatures) (hc : Clean m) (hs : JntShapes m) (hsa : ActShapes m) (hao : ActOk m) :
    ∃ o, loadStructure m = some o ∧
      o.actQId.map some = m.actTrnid.map (fun id => m.jntQposadr[id.toNat]?) ∧
      o.actQdId.map some = m.actTrnid.map (fun id => m.jntDofadr[id.toNat]?) ∧
      o.linkTypes = linkTypes m ∧ o.linkParents = linkParents m := by
  obtain ⟨_, _, _, _, _, hact, _⟩ := hc
  have hall : ∀ ti ∈ m.actTrntype.zip m.actTrnid, ti.1 = 0 := fun ti hti => hact.2.2 ti.1 (List.of_mem_zip hti).1
  have hfilter : (m.actTrntype.zip m.actTrnid).filter (·.1 == 0) = m.actTrntype.zip m.actTrnid := by
    rw [List.filter_eq_self]; intro ti hti; simp [hall ti hti]
  have key : ∀ adr : List Int, adr.length = m.jntType.length →
      ∃ r, actIds m adr = some r ∧ r.map some = m.actTrnid.map (fun id => adr[id.toNat]?) := by
    intro adr hadr
    unfold actIds
    rw [hfilter]
    obtain ⟨r, hr, hm⟩ := mapM_option_some
      (fun ti : Int × Int => if ti.2 < 0 then none else adr[ti.2.toNat]?) (m.actTrntype.zip m.actTrnid)
      (by
        intro ti hti
        obtain ⟨h0, h1⟩ := hao ti hti (hall ti hti)
        have : ¬ ti.2 < 0 := by omega
        simp only [this, if_false]
        rw [List.getElem?_eq_getElem (by omega)]; rfl)
    refine ⟨r, hr, ?_⟩
    rw [hm]
    have hz : m.actTrnid = (m.actTrntype.zip m.actTrnid).map (·.2) := by
      rw [List.map_snd_zip (by rw [hsa.2.2])]
    conv_rhs => rw [hz]
    rw [List.map_map]
    apply List.map_congr_left
    intro ti hti
    obtain ⟨h0, _⟩ := hao ti hti (hall ti hti)
    have : ¬ ti.2 < 0 := by omega
    simp [this]
  obtain ⟨q, hq, hqm⟩ := key m.jntQposadr hs.2.2.2.2.2.1
  obtain ⟨qd, hqd, hqdm⟩ := key m.jntDofadr hs.2.2.2.2.2.2
  exact ⟨_, by simp [loadStructure, hq, hqd]; rfl, hqm, hqdm, rfl, rfl⟩



/-! ## the index helpers of `base.System` (any valid `link_types`, any number of links) -/

/-- `dof_ranges()` partitions `[0, nv)` contiguously and in link order; the i-th range starts at
the prefix sum of the widths and has link i's width -/
theorem dofRanges_partition (ts : List Char) (h : typesOk ts = true) :
    ∃ rs, dofRanges ts = some rs ∧ rs.length = ts.length ∧
      rs.flatten = List.range ((ts.map qdWidth).sum) ∧
      ∀ i (hi : i < ts.length), rs[i]? = some (List.range' (prefixSum (ts.map qdWidth) i) (qdWidth ts[i])) := by
  refine ⟨dofRangesFrom 0 ts, by simp [dofRanges, h], dofRangesFrom_length 0 ts, ?_, ?_⟩
  · rw [dofRangesFrom_flatten, List.range_eq_range']
  · intro i hi
    rw [List.getElem?_eq_getElem (by rw [dofRangesFrom_length]; exact hi), dofRangesFrom_getElem 0 ts i hi]
    simp

/-- `q_idx` of all four types enumerates `[0, nq)` -/
theorem qIdx_all (ts : List Char) (h : typesOk ts = true) :
    qIdx ts ['f', '1', '2', '3'] = some (List.range ((ts.map qWidth).sum)) := by
  simp only [qIdx, h, if_true]
  rw [idxFrom_all qWidth _ 0 ts (mem_all_types_of_typesOk ts h), List.range_eq_range']

theorem qdIdx_all (ts : List Char) (h : typesOk ts = true) :
    qdIdx ts ['f', '1', '2', '3'] = some (List.range ((ts.map qdWidth).sum)) := by
  simp only [qdIdx, h, if_true]
  rw [idxFrom_all qdWidth _ 0 ts (mem_all_types_of_typesOk ts h), List.range_eq_range']

/-- the per-type index sets are disjoint and together enumerate the whole range (for `q_idx` with
`w = qWidth`, for `qd_idx` with `w = qdWidth`), and each is an increasing sublist of it -/
theorem idx_types_partition (w : Char → Nat) (ts : List Char) (h : typesOk ts = true) :
    (idxFrom w ['f'] 0 ts ++ (idxFrom w ['1'] 0 ts ++ (idxFrom w ['2'] 0 ts ++ idxFrom w ['3'] 0 ts))).Perm
      (List.range ((ts.map w).sum)) ∧
    ∀ sel, (idxFrom w sel 0 ts).Sublist (List.range ((ts.map w).sum)) := by
  constructor
  · have h23 := idxFrom_union w ['2'] ['3'] 0 ts (by
      intro t _ hh
      simp only [List.mem_cons, List.mem_nil_iff, or_false] at hh
      have := hh.1.symm.trans hh.2
      exact absurd this (by decide))
    have h123 := idxFrom_union w ['1'] (['2'] ++ ['3']) 0 ts (by
      intro t _ hh
      simp only [List.cons_append, List.nil_append, List.mem_cons, List.mem_nil_iff, or_false] at hh
      rcases hh.2 with h2 | h2
      · exact absurd (hh.1.symm.trans h2) (by decide)
      · exact absurd (hh.1.symm.trans h2) (by decide))
    have hall := idxFrom_union w ['f'] (['1'] ++ (['2'] ++ ['3'])) 0 ts (by
      intro t _ hh
      simp only [List.cons_append, List.nil_append, List.mem_cons, List.mem_nil_iff, or_false] at hh
      rcases hh.2 with h2 | h2 | h2
      · exact absurd (hh.1.symm.trans h2) (by decide)
      · exact absurd (hh.1.symm.trans h2) (by decide)
      · exact absurd (hh.1.symm.trans h2) (by decide))
    have e : idxFrom w (['f'] ++ (['1'] ++ (['2'] ++ ['3']))) 0 ts = List.range ((ts.map w).sum) := by
      rw [show (['f'] ++ (['1'] ++ (['2'] ++ ['3']))) = ['f', '1', '2', '3'] from rfl,
        idxFrom_all w _ 0 ts (mem_all_types_of_typesOk ts h), List.range_eq_range']
    rw [← e]
    exact ((List.Perm.append_left _ ((List.Perm.append_left _ h23).trans h123)).trans hall)
  · intro sel
    rw [List.range_eq_range']
    exact idxFrom_sublist w sel 0 ts

/-- `dof_link()` has one entry per dof, is non-decreasing, names existing links, and repeats the
link index over that link's `dof_ranges()` entry -/
theorem dofLink_spec (ts : List Char) (h : typesOk ts = true) :
    ∃ dl rs, dofLink ts = some dl ∧ dofRanges ts = some rs ∧
      dl.length = (ts.map qdWidth).sum ∧ dl.Pairwise (· ≤ ·) ∧ (∀ x ∈ dl, x < ts.length) ∧
      dl = ((rs.zipIdx).map fun rk => List.replicate rk.1.length rk.2).flatten := by
  refine ⟨dofLinkFrom 0 ts, dofRangesFrom 0 ts, by simp [dofLink, h], by simp [dofRanges, h],
    dofLinkFrom_length 0 ts, dofLinkFrom_sorted 0 ts, ?_, dofLinkFrom_eq_ranges 0 0 ts⟩
  intro x hx
  simpa using dofLinkFrom_lt 0 ts x hx

/-- an unknown link type makes every helper raise (`KeyError`) -/
theorem helpers_keyError (ts : List Char) (h : typesOk ts = false) (sel : List Char) :
    dofLink ts = none ∧ dofRanges ts = none ∧ qIdx ts sel = none ∧ qdIdx ts sel = none := by
  simp [dofLink, dofRanges, qIdx, qdIdx, h]

/-! ## the system of an accepted model, in one statement -/

/-- For every model accepted by `validate_model` that has MuJoCo's array shapes (`WF`) and at most
three joints per body: `load_model` succeeds; coordinate counts, link count, per-link types,
parent order, actuator indices and the initial pose agree with the source model; the index
helpers succeed on its `link_types` and partition `[0,nq)` / `[0,nv)`. -/
theorem load_consistent (m : MjFeatures) (hok : validate m = .ok ()) (hwf : WF m) (h3 : MaxStack3 m) :
    ∃ o, loadStructure m = some o ∧
      o.initQ = m.qpos0 ∧ o.initQ.length = m.nq ∧
      (o.linkTypes.map qWidth).sum = m.nq ∧ (o.linkTypes.map qdWidth).sum = m.nv ∧
      o.linkTypes = (jointGroups m).map (fun g => specLinkType g.2) ∧
      (jointGroups m).map (·.1) = (List.range' 1 (m.bodyParentid.length - 1)).map Int.ofNat ∧
      o.linkTypes.length = m.bodyParentid.length - 1 ∧ o.linkParents.length = o.linkTypes.length ∧
      (∀ (i : Nat) (p : Int), o.linkParents[i]? = some p → -1 ≤ p ∧ p < (i : Int)) ∧
      o.actQId.map some = m.actTrnid.map (fun id => m.jntQposadr[id.toNat]?) ∧
      o.actQdId.map some = m.actTrnid.map (fun id => m.jntDofadr[id.toNat]?) ∧
      typesOk o.linkTypes = true := by
  have hc := (validate_ok_iff_clean m).1 hok
  obtain ⟨hs, _, hsa, hsorted, hadr, hbo, hbj, hao, _⟩ := hwf
  obtain ⟨o, ho, hq, hqd, hlt, hlp⟩ := load_actuators m hc hs hsa hao
  obtain ⟨hnq, hnv, hq0⟩ := load_counts m hc h3 hs hadr
  obtain ⟨hcnt, hpar⟩ := load_link_count_bodies m hc h3 hsorted hs.1 hbj
  refine ⟨o, ho, load_init_q m o ho, ?_, ?_, ?_, ?_, load_link_body_ids m hsorted hs.1 hbj, ?_, ?_, ?_, hq, hqd, ?_⟩
  · rw [load_init_q m o ho]; exact hq0
  · rw [hlt]; exact hnq
  · rw [hlt]; exact hnv
  · rw [hlt]; exact load_link_types m hc h3
  · rw [hlt]; exact hcnt
  · rw [hlt, hlp]; exact hpar
  · intro i p hp
    rw [hlp] at hp
    obtain ⟨h1, h2, _⟩ := load_parent_lt m hbo i p hp
    exact ⟨h1, h2⟩
  · rw [hlt]; exact load_types_valid m hc h3



/-! ## non-vacuity: a concrete accepted model, and one rejected model per feature -/

example : validate exClean = .ok () := by decide +kernel
example : Clean exClean ∧ WF exClean ∧ MaxStack3 exClean := by decide +kernel
example : loadStructure exClean =
    some ⟨['f', '2', '1'], [-1, 0, -1], [7, 9], [6, 8], exClean.qpos0⟩ := by decide +kernel
example : dofLink ['f', '2', '1'] = some [0, 0, 0, 0, 0, 0, 1, 1, 2] := by decide +kernel
example : dofLinkDepth ['f', '2', '1'] [-1, 0, -1] = some [0, 0, 0, 0, 0, 0, 0, 0, 1] := by decide +kernel
example : dofRanges ['f', '2', '1'] = some [[0, 1, 2, 3, 4, 5], [6, 7], [8]] := by decide +kernel
example : qIdx ['f', '2', '1'] ['1', '2'] = some [7, 8, 9] := by decide +kernel
example : dofLink ['f', '4'] = none := by decide +kernel

-- each unsupported feature at some element of the otherwise clean model, with the kind the code raises
example : validate { exClean with integrator := 3 } = .error .notImplemented := by decide +kernel
example : validate { exClean with cone := 1 } = .error .notImplemented := by decide +kernel
example : validate { exClean with wind := [0, 0, 1/2] } = .error .notImplemented := by decide +kernel
example : validate { exClean with
    geomFluid := [List.replicate 12 0, List.replicate 12 0, 1 :: List.replicate 11 (1/2), List.replicate 12 0] }
    = .error .notImplemented := by decide +kernel
example : validate { exClean with impratio := 1/2 } = .error .notImplemented := by decide +kernel
example : validate { exClean with actTrntype := [0, 4] } = .error .notImplemented := by decide +kernel
example : validate { exClean with actGaintype := [0, 1] } = .error .notImplemented := by decide +kernel
example : validate { exClean with actBiastype := [0, 2] } = .error .notImplemented := by decide +kernel
example : validate { exClean with qpos0 := [0, 0, 0, 1, 0, 0, 0, 0, 3/10, 0] } = .error .notImplemented := by
  decide +kernel
-- a ball joint on body 3 (qpos0 zero to reach the stack check; MuJoCo's own qpos0 has w = 1 and
-- is caught by the reference check already)
example : validate { exClean with jntType := [0, 3, 3, 1], qpos0 := List.replicate 13 0, nq := 13, nv := 11 }
    = .error .notImplemented := by decide +kernel
example : validate { exClean with jntType := [0, 3, 3, 1], qpos0 := [0, 0, 0, 1, 0, 0, 0, 0, 0, 1, 0, 0, 0] }
    = .error .notImplemented := by decide +kernel
example : validate { exClean with jntStiffness := [1/1000, 2, 0, 0] } = .error .runtime := by decide +kernel
example : validate { exClean with geomSolmix := [1, 1, 2, 1] } = .error .notImplemented := by decide +kernel
example : validate { exClean with geomPriority := [0, 0, 0, 1] } = .error .notImplemented := by decide +kernel
example : validate { exClean with geomContype := [1, 1, 1, 1] } = .error .notImplemented := by decide +kernel
-- the conaffinity-only long cylinder (accepted before fix 132d4d7) is rejected, by the model and by the theorem
example : WF exCylinder ∧ CollidingLongCylinder exCylinder ∧ validate exCylinder = .error .notImplemented := by
  decide +kernel
example : validate exCylinder ≠ .ok () :=
  validate_rejects_colliding_long_cylinder exCylinder (by decide +kernel) (by decide +kernel)
example (p : Pipeline) : init p (some exCylinder) (.ok ()) = .error .notImplemented :=
  init_rejects p exCylinder _ _ (by decide +kernel)
example : validate { exClean with jntPos := [(0, 0, 0), (1/10, 0, 0), (1/10, 0, 1/10), (0, 0, 0)] }
    = .error .runtime := by decide +kernel
-- boundaries: half-length exactly the double 0.001 is accepted even when colliding; no geoms / no
-- joints are index / value errors
example : validate { exClean with
    geomSize := [(5, 5, 1/10), (1/10, 0, 0), (1/20, 1/5, 0), (1/10, cylThreshold, 0)]
    geomContype := [1, 1, 1, 1] } = .ok () := by decide +kernel
example : validate { exClean with geomSolmix := [] } = .error .other := by decide +kernel
example : validate { exClean with jntType := [] } = .error .other := by decide +kernel
-- the hypotheses of the rejection theorems are satisfiable (here: two joints of body 2 with
-- different anchors; a reference offset on the slide joint; stiffness on the free joint)
example : validate { exClean with jntPos := [(0, 0, 0), (1/10, 0, 0), (1/10, 0, 1/10), (0, 0, 0)] } ≠ .ok () :=
  validate_rejects_anchor _ (by decide +kernel) (by decide +kernel)
    ⟨1, 2, 2, (1/10, 0, 0), (1/10, 0, 1/10), by decide +kernel⟩
example : validate { exClean with qpos0 := [0, 0, 0, 1, 0, 0, 0, 0, 0, 3/10] } ≠ .ok () :=
  validate_rejects_ref _ ⟨3, 2, 0, 3/10, by decide +kernel⟩
example : validate { exClean with jntStiffness := [1, 2, 0, 0] } ≠ .ok () :=
  validate_rejects_free_stiffness _ (by decide +kernel) ⟨0, 1, by decide +kernel⟩
example : ∃ o, loadStructure exClean = some o ∧ (o.linkTypes.map qWidth).sum = 10 := by
  obtain ⟨o, ho, _, _, hq, _⟩ := load_consistent exClean (by decide +kernel) (by decide +kernel) (by decide +kernel)
  exact ⟨o, ho, hq⟩


end Brax.C14
