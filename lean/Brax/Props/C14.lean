import Brax.Lemmas.C14
import Mathlib.Data.List.Sort
import Mathlib.Tactic.Linarith
/-!
# C14 — unsupported models are rejected, accepted models load consistently

Model: `Brax/Model/C14.lean` (`validate`, `init`, `loadStructure`, the `base.System` index
helpers), spec predicates: `Brax/Spec/C14.lean` (`Clean`, `specLinkType`, `CollidingLongCylinder`).

* `validate_ok_iff_clean` — `validate_model` accepts exactly the models with none of the features;
* `validate_rejects_*` — one theorem per unsupported feature of the property statement: the
  feature at ANY element of the model makes `validate` fail (the premises are the array-shape
  facts of a compiled `MjModel` that the code's `zip`/`groupby` really need);
* `init_*` — each pipeline's `init` is `validate >>= rest`;
* `load_*`, `dofRanges_*`, `qIdx_*`, `dofLink_*` — consistency of an accepted model's system;
* DEFECT (`cylinder_conaffinity_only_accepted`, `validate_rejects_cylinder_Stmt_false`): the
  collision mask of the cylinder check is computed in int32, `conaffinity << 32` is 0, so a long
  cylinder with `contype = 0, conaffinity = 1` — which collides — is accepted.

Only property theorems and non-vacuity examples live in this file.
-/
namespace Brax.C14

/-! ## `validate_model` accepts exactly the clean models -/

theorem validate_ok_iff_clean (m : MjFeatures) : validate m = .ok () ↔ Clean m := by
  simp only [validate, firstErr_eq_ok_iff, checks, List.mem_cons, List.mem_nil_iff, or_false,
    forall_eq_or_imp, forall_eq, chkIntegrator_ok_iff, chkCone_ok_iff, chkFluid_ok_iff,
    chkWind_ok_iff, chkImpratio_ok_iff, chkBias_ok_iff, chkGain_ok_iff, chkTrn_ok_iff,
    chkSolmix_ok_iff, chkPriority_ok_iff, chkRef_ok_iff, chkAnchors_ok_iff, chkDofs_ok_iff,
    chkStacks_ok_iff, chkCylinders_ok_iff, Clean, ActClean, SolverClean]
  tauto

/-- a model with none of the features is accepted -/
theorem validate_accepts_clean (m : MjFeatures) (h : Clean m) : validate m = .ok () :=
  (validate_ok_iff_clean m).2 h

/-- the only outcomes are acceptance, `NotImplementedError`, `RuntimeError` or an index/key error -/
theorem validate_rejects_of_not_clean (m : MjFeatures) (h : ¬ Clean m) : ∃ e, validate m = .error e := by
  cases hv : validate m with
  | ok u => cases u; exact absurd ((validate_ok_iff_clean m).1 hv) h
  | error e => exact ⟨e, rfl⟩

/-! ## one rejection theorem per unsupported feature, wherever it occurs -/

/-- non-Euler integrator -/
theorem validate_rejects_integrator (m : MjFeatures) (h : m.integrator ≠ 0) : validate m ≠ .ok () :=
  fun hok => h ((validate_ok_iff_clean m).1 hok).1

/-- it is the first check: the kind is `NotImplementedError` -/
theorem validate_integrator_kind (m : MjFeatures) (h : m.integrator ≠ 0) :
    validate m = .error .notImplemented := by
  have : chkIntegrator m = .error .notImplemented := by simp [chkIntegrator, failIf, h]
  simp [validate, checks, this, firstErr]

/-- elliptic cone -/
theorem validate_rejects_cone (m : MjFeatures) (h : m.cone ≠ 0) : validate m ≠ .ok () :=
  fun hok => h ((validate_ok_iff_clean m).1 hok).2.1

/-- ellipsoid fluid model on any geom, any coefficient -/
theorem validate_rejects_fluid (m : MjFeatures)
    (h : ∃ (g : Nat) (row : List Rat) (k : Nat) (x : Rat), m.geomFluid[g]? = some row ∧ row[k]? = some x ∧ x ≠ 0) : validate m ≠ .ok () := by
  intro hok
  obtain ⟨g, row, k, x, hg, hk, hx⟩ := h
  exact hx (((validate_ok_iff_clean m).1 hok).2.2.1 row (List.mem_of_getElem? hg) x (List.mem_of_getElem? hk))

/-- wind in any component -/
theorem validate_rejects_wind (m : MjFeatures) (h : ∃ (i : Nat) (x : Rat), m.wind[i]? = some x ∧ x ≠ 0) :
    validate m ≠ .ok () := by
  intro hok
  obtain ⟨i, x, hi, hx⟩ := h
  exact hx (((validate_ok_iff_clean m).1 hok).2.2.2.1 x (List.mem_of_getElem? hi))

/-- impratio other than 1 (above or below) -/
theorem validate_rejects_impratio (m : MjFeatures) (h : m.impratio ≠ 1) : validate m ≠ .ok () :=
  fun hok => h ((validate_ok_iff_clean m).1 hok).2.2.2.2.1

/-- a bias type other than none / affine on any actuator -/
theorem validate_rejects_bias (m : MjFeatures) (h : ∃ (i : Nat) (b : Int), m.actBiastype[i]? = some b ∧ b ≠ 0 ∧ b ≠ 1) :
    validate m ≠ .ok () := by
  intro hok
  obtain ⟨i, b, hi, h0, h1⟩ := h
  rcases ((validate_ok_iff_clean m).1 hok).2.2.2.2.2.1.1 b (List.mem_of_getElem? hi) with hb | hb
  · exact h0 hb
  · exact h1 hb

/-- a non-fixed gain on any actuator -/
theorem validate_rejects_gain (m : MjFeatures) (h : ∃ (i : Nat) (g : Int), m.actGaintype[i]? = some g ∧ g ≠ 0) :
    validate m ≠ .ok () := by
  intro hok
  obtain ⟨i, g, hi, hg⟩ := h
  exact hg (((validate_ok_iff_clean m).1 hok).2.2.2.2.2.1.2.1 g (List.mem_of_getElem? hi))

/-- a non-joint transmission on any actuator -/
theorem validate_rejects_transmission (m : MjFeatures) (h : ∃ (i : Nat) (t : Int), m.actTrntype[i]? = some t ∧ t ≠ 0) :
    validate m ≠ .ok () := by
  intro hok
  obtain ⟨i, t, hi, ht⟩ := h
  exact ht (((validate_ok_iff_clean m).1 hok).2.2.2.2.2.1.2.2 t (List.mem_of_getElem? hi))

/-- two geoms with different solmix, whichever two -/
theorem validate_rejects_solmix (m : MjFeatures)
    (h : ∃ (i j : Nat) (a b : Rat), m.geomSolmix[i]? = some a ∧ m.geomSolmix[j]? = some b ∧ a ≠ b) : validate m ≠ .ok () := by
  intro hok
  obtain ⟨i, j, a, b, hi, hj, hab⟩ := h
  have hc := ((validate_ok_iff_clean m).1 hok).2.2.2.2.2.2.1.1.2
  have ha := hc a (List.mem_of_getElem? hi)
  have hb := hc b (List.mem_of_getElem? hj)
  rw [← hb] at ha
  exact hab (Option.some.inj ha)

/-- two geoms with different priority -/
theorem validate_rejects_priority (m : MjFeatures)
    (h : ∃ (i j : Nat) (a b : Int), m.geomPriority[i]? = some a ∧ m.geomPriority[j]? = some b ∧ a ≠ b) :
    validate m ≠ .ok () := by
  intro hok
  obtain ⟨i, j, a, b, hi, hj, hab⟩ := h
  have hc := ((validate_ok_iff_clean m).1 hok).2.2.2.2.2.2.1.2.2
  have ha := hc a (List.mem_of_getElem? hi)
  have hb := hc b (List.mem_of_getElem? hj)
  rw [← hb] at ha
  exact hab (Option.some.inj ha)

/-- a reference offset: `qpos0 ≠ 0` at coordinate `c` of any non-free joint `k` (the coordinate
sits at the prefix sum of the joint widths, MuJoCo's `jnt_qposadr`, see `AdrOk`) -/
theorem validate_rejects_ref (m : MjFeatures)
    (h : ∃ (k : Nat) (t : Int) (c : Nat) (x : Rat), m.jntType[k]? = some t ∧ t ≠ 0 ∧ c < jntQWidth t ∧
      m.qpos0[prefixSum (m.jntType.map jntQWidth) k + c]? = some x ∧ x ≠ 0) : validate m ≠ .ok () := by
  intro hok
  obtain ⟨k, t, c, x, hk, ht, hc, hq, hx⟩ := h
  have hclean := ((validate_ok_iff_clean m).1 hok).2.2.2.2.2.2.2.1
  have hlt := lt_of_getElem?_some _ _ _ hk
  have htk : m.jntType[k] = t := by
    rw [List.getElem?_eq_getElem hlt] at hk; exact Option.some.inj hk
  have hmask := nonFreeMask_getElem? m.jntType k hlt c (by rw [htk]; exact hc)
  rw [htk] at hmask
  have hmem := mem_zip_of_getElem? _ _ _ _ _ hmask hq
  exact hx (hclean.2.2.2 _ hmem (by simpa using ht))

/-- a ball joint anywhere -/
theorem validate_rejects_ball (m : MjFeatures) (hl : m.jntBodyid.length = m.jntType.length)
    (h : ∃ i : Nat, m.jntType[i]? = some 1) : validate m ≠ .ok () := by
  intro hok
  obtain ⟨i, hi⟩ := h
  have hst := ((validate_ok_iff_clean m).1 hok).2.2.2.2.2.2.2.2.2.2.1
  have hlt := lt_of_getElem?_some _ _ _ hi
  obtain ⟨b, hb⟩ := getElem?_some_of_lt m.jntBodyid i (by omega)
  obtain ⟨g, hg, _, h1⟩ := mem_groupRuns_of_mem _ b 1 (mem_zip_of_getElem? _ _ _ _ _ hb hi)
  rcases hst g hg with h0 | ⟨_, hn⟩
  · rw [h0] at h1; simp at h1
  · exact hn h1

/-- stiffness on any free joint -/
theorem validate_rejects_free_stiffness (m : MjFeatures) (hs : JntShapes m)
    (h : ∃ (i : Nat) (k : Rat), m.jntType[i]? = some 0 ∧ m.jntStiffness[i]? = some k ∧ k > 0) : validate m ≠ .ok () := by
  intro hok
  obtain ⟨i, k, hi, hk, hpos⟩ := h
  have hd := ((validate_ok_iff_clean m).1 hok).2.2.2.2.2.2.2.2.2.1
  obtain ⟨_, _, h3, h4, _, _, _⟩ := hs
  have hlt := lt_of_getElem?_some _ _ _ hi
  obtain ⟨l, hl⟩ := getElem?_some_of_lt m.jntLimited i (by omega)
  obtain ⟨r, hr⟩ := getElem?_some_of_lt m.jntRange i (by omega)
  exact (hd _ (dofRows_getElem? m i 0 l r k hi hl hr hk)).1 rfl hpos

/-- a range on a ball joint (the code's other `RuntimeError` of the dof loop) -/
theorem validate_rejects_ball_range (m : MjFeatures) (hs : JntShapes m)
    (h : ∃ (i : Nat) (r : Option Rat × Option Rat), m.jntType[i]? = some 1 ∧ m.jntLimited[i]? = some true ∧ m.jntRange[i]? = some r ∧
      (r.1 ≠ none ∨ r.2 ≠ none)) : validate m ≠ .ok () := by
  intro hok
  obtain ⟨i, r, hi, hl, hr, hfin⟩ := h
  have hd := ((validate_ok_iff_clean m).1 hok).2.2.2.2.2.2.2.2.2.1
  obtain ⟨_, _, _, _, h5, _, _⟩ := hs
  have hlt := lt_of_getElem?_some _ _ _ hi
  obtain ⟨k, hk⟩ := getElem?_some_of_lt m.jntStiffness i (by omega)
  have := (hd _ (dofRows_getElem? m i 1 true r k hi hl hr hk)).2.1 rfl
  simp only [effRange, if_true] at this
  rcases hfin with hf | hf
  · exact hf this.1
  · exact hf this.2

/-- stacked joints with different anchors: any two joints of one body -/
theorem validate_rejects_anchor (m : MjFeatures) (hsorted : JntSorted m)
    (hl : m.jntPos.length = m.jntBodyid.length)
    (h : ∃ (i j : Nat) (b : Int) (p q : Rat × Rat × Rat), m.jntBodyid[i]? = some b ∧ m.jntBodyid[j]? = some b ∧
      m.jntPos[i]? = some p ∧ m.jntPos[j]? = some q ∧ p ≠ q) : validate m ≠ .ok () := by
  intro hok
  obtain ⟨i, j, b, p, q, hbi, hbj, hpi, hpj, hpq⟩ := h
  have ha := ((validate_ok_iff_clean m).1 hok).2.2.2.2.2.2.2.2.1
  have hkeys : ((m.jntBodyid.zip m.jntPos).map (·.1)).Pairwise (· ≤ ·) := by
    rw [List.map_fst_zip (by omega)]; exact hsorted
  obtain ⟨g, hg, _, hp, hq⟩ := same_group _ hkeys b p q
    (mem_zip_of_getElem? _ _ _ _ _ hbi hpi) (mem_zip_of_getElem? _ _ _ _ _ hbj hpj)
  have h1 := ha g hg p hp
  have h2 := ha g hg q hq
  rw [← h2] at h1
  exact hpq (Option.some.inj h1)

/-- a colliding long cylinder, **as the code defines colliding** (`contype > 0`; the conaffinity
half of the mask is lost, see the defect section) -/
theorem validate_rejects_cylinder_partial (m : MjFeatures) (hs : GeomShapes m)
    (h : ∃ (i : Nat) (sz : Rat × Rat × Rat) (ct : Int), m.geomType[i]? = some 5 ∧ m.geomSize[i]? = some sz ∧ sz.2.1 > cylThreshold ∧
      m.geomContype[i]? = some ct ∧ ct > 0) : validate m ≠ .ok () := by
  intro hok
  obtain ⟨i, sz, ct, ht, hsz, hlong, hct, hpos⟩ := h
  have hc := ((validate_ok_iff_clean m).1 hok).2.2.2.2.2.2.2.2.2.2.2
  obtain ⟨_, _, _, _, _, h6⟩ := hs
  have hlt := lt_of_getElem?_some _ _ _ ht
  obtain ⟨ca, hca⟩ := getElem?_some_of_lt m.geomConaffinity i (by omega)
  exact hc _ (geomRows_getElem? m i 5 sz ct ca ht hsz hct hca) ⟨rfl, hlong, by simpa [collisionMask, shl32Int32] using hpos⟩

/-! ## `pipeline.init` of the three native pipelines -/

/-- each pipeline's `init` is `validate_model` followed by the rest -/
theorem init_validates {σ : Type} (p : Pipeline) (m : MjFeatures) (body : Except Err σ) :
    init p (some m) body = (validate m >>= fun _ => body) := by
  cases p <;> simp [init, initCallsValidate]

/-- a rejected model makes every pipeline's `init` raise, with the same kind -/
theorem init_rejects {σ : Type} (p : Pipeline) (m : MjFeatures) (body : Except Err σ) (e : Err)
    (h : validate m = .error e) : init p (some m) body = .error e := by
  rw [init_validates, h]; rfl

theorem init_rejects_of_not_clean {σ : Type} (p : Pipeline) (m : MjFeatures) (body : Except Err σ)
    (h : ¬ Clean m) : ∀ s, init p (some m) body ≠ .ok s := by
  obtain ⟨e, he⟩ := validate_rejects_of_not_clean m h
  intro s hs
  rw [init_rejects p m body e he] at hs
  cases hs

/-- an accepted model is handed to the rest of `init` unchanged -/
theorem init_accepts {σ : Type} (p : Pipeline) (m : MjFeatures) (body : Except Err σ)
    (h : validate m = .ok ()) : init p (some m) body = body := by
  rw [init_validates, h]; rfl

/-- without an attached `mj_model` nothing is validated -/
theorem init_no_model {σ : Type} (p : Pipeline) (body : Except Err σ) : init p none body = body := rfl

end Brax.C14
