import Brax.Lemmas.C15
/-!
# C15 — Episode, auto-reset and evaluation wrappers keep exact episode accounting

Theorems about the model `Brax/Model/C15.lean` of `brax/envs/wrappers/training.py` and
`brax/training/acting.py`, for **every** inner environment (`env : Env …` is any pair of
functions), every episode length `L ≥ 1`, action repeat `r`, reset key and history (list of
actions; the termination pattern is whatever the inner environment does), over any linearly
ordered commutative ring of scalars (ℤ, ℚ, ℝ).  Only property theorems and non-vacuity
examples live here; helper lemmas are in `Brax/Lemmas/C15.lean`.

Reading guide: `run env L r k as` is `training.wrap(env, L, r)` after `reset(k)` and the actions
`as`; `count … as` is the 1-based position of the last wrapped step inside its episode;
`s.inner` is the inner state on which the sub-steps of the next wrapped step start (`done`
zeroed by `AutoResetWrapper`), `iter env a i s.inner` the inner state after `i` sub-steps.
-/
set_option linter.unusedSectionVars false
set_option linter.unusedVariables false
namespace Brax.C15
variable {K P O X R A : Type}
variable [CommRing R] [LinearOrder R] [IsStrictOrderedRing R]

/-! ## step counter -/

/-- `info['steps']` after any history is `r ×` the number of wrapped steps taken in the current
episode; that number restarts at 1 on the step after a done; `AutoResetWrapper` zeroes the
stored counter exactly when the incoming state is done (at the start of the next step — the
state returned *at* the done still shows the final count). -/
theorem steps_counter (env : Env K P O X R A) {L : Nat} (r : Nat) (hL : 1 ≤ L) (k : K)
    (as : List A) :
    (run env L r k as).steps = ((count env L r k as * r : Nat) : R) ∧
    count env L r k [] = 0 ∧
    (∀ a, count env L r k (as ++ [a])
        = (if (run env L r k as).done = 0 then count env L r k as else 0) + 1) ∧
    (arPre (run env L r k as)).steps
        = (if (run env L r k as).done = 0 then (run env L r k as).steps else 0) := by
  refine ⟨?_, rfl, fun a => count_snoc env L r k as a, ?_⟩
  · have := (inv_runC (R := R) env r hL k as).steps
    rwa [runC_fst] at this
  · simp only [arPre, whereNZ, ArSt.done, ArSt.steps]

/-! ## time limit -/

/-- Let `c` be the position of a wrapped step in its episode.  `done` is forced to 1 at the
first `c` with `c·r ≥ L` — the step is never later (`(c-1)·r < L`) and below the limit `done`
is just the inner environment's flag after the **last** sub-step.  A time-limit cut therefore
happens after `c·r = ⌈L/r⌉·r` simulated steps, which is `L` exactly when `r ∣ L`. -/
theorem time_limit (env : Env K P O X R A) {L r : Nat} (hL : 1 ≤ L) (hr : 1 ≤ r) (k : K)
    (as : List A) (a : A) :
    let c := count env L r k (as ++ [a])
    let s := run env L r k (as ++ [a])
    1 ≤ c ∧ (c - 1) * r < L ∧
    (L ≤ c * r → s.done = 1) ∧
    (c * r < L → s.done = (iter env a r (run env L r k as).inner).done) ∧
    (L ≤ c * r → c = (L + r - 1) / r ∧ s.steps = (((L + r - 1) / r * r : Nat) : R)) ∧
    (L ≤ c * r → (s.steps = (L : R) ↔ r ∣ L)) := by
  intro c s
  have hinv := inv_runC (R := R) env r hL k (as ++ [a])
  have hsteps : s.steps = ((c * r : Nat) : R) := by
    have := hinv.steps; rwa [runC_fst] at this
  have hlate : (c - 1) * r < L := hinv.notLate
  have hc1 : 1 ≤ c := by
    show 1 ≤ count env L r k (as ++ [a]); rw [count_snoc]; omega
  have hdone : s.done = if (L : R) ≤ s.steps then 1 else (iter env a r (run env L r k as).inner).done := by
    show (run env L r k (as ++ [a])).done
      = if (L : R) ≤ (run env L r k (as ++ [a])).steps then 1 else _
    rw [run_snoc]; exact done_eq env L r _ a
  have hsub : (c - 1) * r = c * r - r := by rw [Nat.sub_mul, Nat.one_mul]
  have hge : r ≤ c * r := Nat.le_mul_of_pos_left r hc1
  have hceil : L ≤ c * r → c = (L + r - 1) / r := by
    intro h
    symm
    apply Nat.div_eq_of_lt_le
    · omega
    · rw [Nat.succ_mul]; omega
  refine ⟨hc1, hlate, ?_, ?_, ?_, ?_⟩
  · intro h
    rw [hdone, hsteps, if_pos]
    exact_mod_cast h
  · intro h
    rw [hdone, hsteps, if_neg]
    exact not_le.mpr (by exact_mod_cast h)
  · intro h
    have := hceil h
    exact ⟨this, by rw [hsteps, ← this]⟩
  · intro h
    rw [hsteps]
    constructor
    · intro he
      have : c * r = L := by exact_mod_cast he
      exact ⟨c, by rw [← this, Nat.mul_comm]⟩
    · rintro ⟨q, hq⟩
      rw [hq] at hlate h ⊢
      have h1 : c - 1 < q := by
        have : (c - 1) * r < q * r := by rw [Nat.mul_comm q r]; exact hlate
        exact Nat.lt_of_mul_lt_mul_right this
      have h2 : q ≤ c := by
        have : q * r ≤ c * r := by rw [Nat.mul_comm q r]; exact h
        exact Nat.le_of_mul_le_mul_right this (by omega)
      have : q = c := by omega
      rw [this, Nat.mul_comm]

/-- the arithmetic of the cut: `⌈L/r⌉·r` is the first multiple of `r` that reaches `L`; it is
`L` iff `r ∣ L` (so for `r ∤ L` the code simulates more than `episode_length` steps) -/
theorem time_limit_ceil {L r : Nat} (hr : 1 ≤ r) :
    L ≤ (L + r - 1) / r * r ∧ (L + r - 1) / r * r < L + r ∧
    ((L + r - 1) / r * r = L ↔ r ∣ L) := by
  have h1 := Nat.div_add_mod (L + r - 1) r
  have h2 := Nat.mod_lt (L + r - 1) (show r > 0 by omega)
  have hm : (L + r - 1) / r * r = r * ((L + r - 1) / r) := Nat.mul_comm _ _
  refine ⟨?_, ?_, ?_⟩
  · by_contra hlt
    -- if q*r < L then, both being comparable through the remainder bound, q*r + r ≤ L + r - 1 < q*r + r
    rcases Nat.eq_zero_or_pos L with h0 | hpos
    · omega
    · -- (L + r - 1) = q*r + m, m < r, so q*r > L - 1, i.e. q*r ≥ L
      omega
  · omega
  · constructor
    · intro h; exact ⟨(L + r - 1) / r, by omega⟩
    · rintro ⟨q, rfl⟩
      rcases Nat.eq_zero_or_pos q with h0 | hq
      · subst h0
        simp only [Nat.mul_zero, Nat.zero_add]
        rw [Nat.div_eq_of_lt (by omega)]; simp
      · have : (r * q + r - 1) / r = q := by
          apply Nat.div_eq_of_lt_le
          · rw [Nat.mul_comm]; omega
          · rw [Nat.succ_mul, Nat.mul_comm q r]; omega
        rw [this, Nat.mul_comm]

/-! ## truncation -/

/-- `truncation = 1` exactly when the step reached the limit **and** the inner environment's
(last sub-step) flag is 0; otherwise it is 0 or the non-unit value `1 - done` of a
non-boolean flag.  For any wrapped state `s` and action. -/
theorem truncation_iff (env : Env K P O X R A) (L r : Nat) (s : ArSt P O X R) (a : A) :
    (arStep env L r s a).truncation = 1 ↔
      ((L : R) ≤ (arStep env L r s a).steps ∧ (iter env a r s.inner).done = 0) := by
  rw [truncation_eq]
  by_cases h : (L : R) ≤ (arStep env L r s a).steps
  · simp only [h, if_true, true_and, sub_eq_self]
  · simp only [h, if_false, false_and, iff_false]; exact zero_ne_one

/-- along a history, with the position `c` of the step in its episode: truncation is 1 iff the
cut is by the time limit (`c·r ≥ L`) and not by a termination; and then `done = 1`. -/
theorem truncation_iff_run (env : Env K P O X R A) {L : Nat} (r : Nat) (hL : 1 ≤ L) (k : K)
    (as : List A) (a : A) :
    ((run env L r k (as ++ [a])).truncation = 1 ↔
      (L ≤ count env L r k (as ++ [a]) * r ∧
        (iter env a r (run env L r k as).inner).done = 0)) ∧
    ((run env L r k (as ++ [a])).truncation = 1 → (run env L r k (as ++ [a])).done = 1) := by
  have hs : (run env L r k (as ++ [a])).steps = ((count env L r k (as ++ [a]) * r : Nat) : R) :=
    (steps_counter env r hL k (as ++ [a])).1
  have hiff : (run env L r k (as ++ [a])).truncation = 1 ↔
      (L ≤ count env L r k (as ++ [a]) * r ∧
        (iter env a r (run env L r k as).inner).done = 0) := by
    have := truncation_iff env L r (run env L r k as) a
    rw [← run_snoc, hs] at this
    rw [this, Nat.cast_le]
  refine ⟨hiff, fun h => ?_⟩
  have hle := (hiff.mp h).1
  rw [run_snoc, done_eq, ← run_snoc, hs, if_pos]
  exact_mod_cast hle

/-! ## reward of a wrapped step -/

/-- the wrapped reward is the sum of the rewards of the `r` sub-steps (for any state and
action); `done` before the time-limit override and the reported `metrics` are those of the
**last** sub-step only (a termination in the middle of an action repeat that the inner
environment does not latch is not seen — this is what the code does). -/
theorem reward_sum (env : Env K P O X R A) (L r : Nat) (s : ArSt P O X R) (a : A) :
    (arStep env L r s a).reward
      = ((List.range r).map fun i => (iter env a (i + 1) s.inner).reward).sum ∧
    (arStep env L r s a).done
      = (if (L : R) ≤ (arStep env L r s a).steps then 1 else (iter env a r s.inner).done) ∧
    (arStep env L r s a).metrics = (iter env a r s.inner).metrics :=
  ⟨reward_eq env L r s a, done_eq env L r s a, metrics_eq env L r s a⟩

/-! ## auto reset -/

/-- the snapshot taken at reset is never changed, and whenever a wrapped step reports done
(by termination or time limit) the returned `pipeline_state` and `obs` are that snapshot;
otherwise they are the inner environment's. -/
theorem autoreset_restores (env : Env K P O X R A) (L r : Nat) (k : K) (as : List A) (a : A) :
    (run env L r k as).firstPs = (env.reset k).ps ∧
    (run env L r k as).firstObs = (env.reset k).obs ∧
    ((run env L r k (as ++ [a])).done ≠ 0 →
      (run env L r k (as ++ [a])).ps = (env.reset k).ps ∧
      (run env L r k (as ++ [a])).obs = (env.reset k).obs) ∧
    ((run env L r k (as ++ [a])).done = 0 →
      (run env L r k (as ++ [a])).ps = (iter env a r (run env L r k as).inner).ps ∧
      (run env L r k (as ++ [a])).obs = (iter env a r (run env L r k as).inner).obs) := by
  have hfirst : ∀ as : List A, (run env L r k as).firstPs = (env.reset k).ps ∧
      (run env L r k as).firstObs = (env.reset k).obs := by
    intro as; exact foldl_first env L r (arReset env k) as
  refine ⟨(hfirst as).1, (hfirst as).2, ?_, ?_⟩
  · intro hd
    rw [run_snoc] at hd ⊢
    rw [ps_eq, obs_eq, if_neg hd, if_neg hd]
    exact hfirst as
  · intro hd
    rw [run_snoc] at hd ⊢
    rw [ps_eq, obs_eq, if_pos hd, if_pos hd]
    exact ⟨rfl, rfl⟩

/-- for an inner environment that is a function of `(pipeline_state, obs, action)` (`Markov`):
once a history ends in a done, everything the wrapped environment shows afterwards
(`pipeline_state, obs, reward, done, metrics, steps, truncation`) is what a freshly reset
environment shows for the same actions — the next episode replays a fresh one. -/
theorem episode_replays_fresh (env : Env K P O X R A) (hM : Markov env) (L : Nat) {r : Nat}
    (hr : 1 ≤ r) (k : K) (as : List A) (hd : (run env L r k as).done ≠ 0) (b : A) (bs : List A) :
    (run env L r k (as ++ b :: bs)).out = (run env L r k (b :: bs)).out := by
  have hsim : Sim (run env L r k as) (arReset env k) := by
    rcases List.eq_nil_or_concat as with rfl | ⟨as', a, rfl⟩
    · exact ⟨rfl, rfl, rfl, rfl, rfl⟩
    · rw [List.concat_eq_append] at hd ⊢
      have h := autoreset_restores env L r k as' a
      have hf := foldl_first env L r (arReset env k) (as' ++ [a])
      refine ⟨(h.2.2.1 hd).1, (h.2.2.1 hd).2, hf.1, hf.2, ?_⟩
      have hd' : (run env L r k (as' ++ [a])).ep.st.done ≠ 0 := hd
      simp only [arPre, whereNZ, hd', if_false, arReset, epReset]
      exact (ite_self _).symm
  have := sim_foldl env hM L hr _ _ hsim b bs
  simpa only [run, List.foldl_append] using this

/-! ## evaluation metrics -/

/-- `EvalWrapper(wrap(env))` after any history, for an inner environment with 0/1 `done`
flags: the accumulated reward is the sum of the wrapped rewards of the **first episode only**
(wrapped steps up to and including the first done), `episode_steps` is `info['steps']` at that
done (or of the last step so far), `active_episodes` is 1 until the first done and 0 for ever
after; the other fields are those of `wrap(env)`. -/
theorem eval_first_episode_only (env : Env K P O X R A)
    (hb : ∀ s a, (env.step s a).done = 0 ∨ (env.step s a).done = 1) (L r : Nat) (k : K)
    (as : List A) :
    (evRun env L r k as).ar = run env L r k as ∧
    (evRun env L r k as).emReward = ((firstEp (trace env L r k as)).map (·.reward)).sum ∧
    (evRun env L r k as).active
      = (if (trace env L r k as).any (fun t => decide (t.done ≠ 0)) then 0 else 1) ∧
    (evRun env L r k as).episodeSteps
      = (((firstEp (trace env L r k as)).getLast?).map (·.steps)).getD 0 := by
  have h := evFold_active env hb L r (evReset env k) rfl as
  refine ⟨(evFold_ar env L r (evReset env k) as).1, ?_, h.2.1, h.2.2⟩
  have := h.1
  simp only [evReset, zero_add] at this
  exact this

/-- the same for every entry of the environment's own `metrics` dict, when the environment
keeps its set of metric keys (as `jax.tree.map` requires) -/
theorem eval_metrics_first_episode_only (env : Env K P O X R A)
    (hb : ∀ s a, (env.step s a).done = 0 ∨ (env.step s a).done = 1)
    (hm : ∀ s a, (env.step s a).metrics.length = s.metrics.length) (L r : Nat) (k : K)
    (as : List A) :
    (evRun env L r k as).emMetrics
      = (firstEp (trace env L r k as)).foldl (fun acc t => List.zipWith (· + ·) acc t.metrics)
          (List.replicate (env.reset k).metrics.length 0) := by
  have h := evFold_active_metrics env hb hm L r (evReset env k) rfl
    (by simp [evReset, arReset, epReset, ArSt.metrics]) as
  have he : (evReset env k).emMetrics = List.replicate (env.reset k).metrics.length (0 : R) := by
    simp only [evReset, arReset, epReset, ArSt.metrics, List.map_const']
  rw [← he]
  exact h

/-- `active_episodes` is 0 or 1, never comes back (monotone), and once it is 0 the accumulated
reward and `episode_steps` are frozen whatever happens afterwards -/
theorem eval_frozen_after_done (env : Env K P O X R A)
    (hb : ∀ s a, (env.step s a).done = 0 ∨ (env.step s a).done = 1) (L r : Nat) (k : K)
    (as bs : List A) :
    ((evRun env L r k as).active = 0 ∨ (evRun env L r k as).active = 1) ∧
    (evRun env L r k (as ++ bs)).active ≤ (evRun env L r k as).active ∧
    ((evRun env L r k as).active = 0 →
      (evRun env L r k (as ++ bs)).active = 0 ∧
      (evRun env L r k (as ++ bs)).emReward = (evRun env L r k as).emReward ∧
      (evRun env L r k (as ++ bs)).episodeSteps = (evRun env L r k as).episodeSteps) := by
  have h01 : ∀ cs : List A,
      (evRun env L r k cs).active = 0 ∨ (evRun env L r k cs).active = 1 := by
    intro cs
    rw [(eval_first_episode_only env hb L r k cs).2.2.1]
    split
    · exact Or.inl rfl
    · exact Or.inr rfl
  have hfr : (evRun env L r k as).active = 0 →
      (evRun env L r k (as ++ bs)).active = 0 ∧
      (evRun env L r k (as ++ bs)).emReward = (evRun env L r k as).emReward ∧
      (evRun env L r k (as ++ bs)).episodeSteps = (evRun env L r k as).episodeSteps := by
    intro h0
    have := evFold_frozen env L r (evRun env L r k as) h0 bs
    simpa only [evRun, List.foldl_append] using this
  refine ⟨h01 as, ?_, hfr⟩
  rcases h01 as with h0 | h1
  · rw [(hfr h0).1, h0]
  · rw [h1]
    rcases h01 (as ++ bs) with h | h <;> rw [h]
    exact zero_le_one

/-! ## generate_unroll -/
section unroll
variable {S Ky : Type}

/-- `generate_unroll` (any environment step function, policy and key splitting): it returns `n`
transitions; transition `i` leads from the `i`-th to the `i+1`-st visited state by the policy's
action, records the observation before, and reward, `discount = 1 - done`, next observation
and truncation after the step; so consecutive transitions chain `next_observation` to
`observation`; the returned state is the last visited one. -/
theorem unroll_chains (v : View S O R) (step : S → A → S) (π : O → Ky → A)
    (split : Ky → Ky × Ky) (n : Nat) (s : S) (key : Ky) :
    let ts := (unroll v step π split n s key).2
    let ss := unrollStates v step π split n s key
    ts.length = n ∧ ss.length = n + 1 ∧ ss[0]? = some s ∧
    ss[n]? = some (unroll v step π split n s key).1 ∧
    (∀ i, i < n → ∃ t s₁ s₂, ts[i]? = some t ∧ ss[i]? = some s₁ ∧ ss[i + 1]? = some s₂ ∧
      s₂ = step s₁ t.action ∧ t.observation = v.obs s₁ ∧ t.nextObservation = v.obs s₂ ∧
      t.reward = v.reward s₂ ∧ t.discount = 1 - v.done s₂ ∧ t.truncation = v.truncation s₂) ∧
    (∀ i, i + 1 < n → ∃ t t', ts[i]? = some t ∧ ts[i + 1]? = some t' ∧
      t'.observation = t.nextObservation) ∧
    Chained ts := by
  intro ts ss
  have hmain : ts.length = n ∧ ss.length = n + 1 ∧ ss[0]? = some s ∧
      ss[n]? = some (unroll v step π split n s key).1 ∧
      (∀ i, i < n → ∃ t s₁ s₂, ts[i]? = some t ∧ ss[i]? = some s₁ ∧ ss[i + 1]? = some s₂ ∧
        s₂ = step s₁ t.action ∧ t.observation = v.obs s₁ ∧ t.nextObservation = v.obs s₂ ∧
        t.reward = v.reward s₂ ∧ t.discount = 1 - v.done s₂ ∧ t.truncation = v.truncation s₂) := by
    induction n generalizing s key with
    | zero => exact ⟨rfl, rfl, rfl, rfl, fun i h => absurd h (Nat.not_lt_zero i)⟩
    | succ n ih =>
      obtain ⟨h1, h2, h3, h4, h5⟩ := ih (step s (π (v.obs s) (split key).1)) (split key).2
      refine ⟨by simp only [ts, unroll, List.length_cons, actorStep, h1],
        by simp only [ss, unrollStates, List.length_cons, h2], rfl, ?_, ?_⟩
      · simpa only [ss, unrollStates, unroll, actorStep, List.getElem?_cons_succ] using h4
      · intro i hi
        cases i with
        | zero =>
          refine ⟨_, s, step s (π (v.obs s) (split key).1), rfl, rfl, ?_, rfl, rfl, rfl, rfl,
            rfl, rfl⟩
          simpa only [ss, unrollStates, List.getElem?_cons_succ] using h3
        | succ j =>
          obtain ⟨t, s₁, s₂, e1, e2, e3, rest⟩ := h5 j (by omega)
          refine ⟨t, s₁, s₂, ?_, ?_, ?_, rest⟩
          · simpa only [ts, unroll, actorStep, List.getElem?_cons_succ] using e1
          · simpa only [ss, unrollStates, List.getElem?_cons_succ] using e2
          · simpa only [ss, unrollStates, List.getElem?_cons_succ] using e3
  obtain ⟨h1, h2, h3, h4, h5⟩ := hmain
  have hchain : ∀ i, i + 1 < n → ∃ t t', ts[i]? = some t ∧ ts[i + 1]? = some t' ∧
      t'.observation = t.nextObservation := by
    intro i hi
    obtain ⟨t, s₁, s₂, e1, _, e3, _, _, e6, _⟩ := h5 i (by omega)
    obtain ⟨t', s₁', s₂', e1', e2', _, _, e5', _⟩ := h5 (i + 1) hi
    refine ⟨t, t', e1, e1', ?_⟩
    rw [e5', e6]
    rw [e3] at e2'
    exact congrArg v.obs (Option.some.inj e2').symm
  refine ⟨h1, h2, h3, h4, h5, hchain, ?_⟩
  -- `Chained` from the index form
  have : ∀ (l : List (Transition O A R)),
      (∀ i, i + 1 < l.length → ∃ t t', l[i]? = some t ∧ l[i + 1]? = some t' ∧
        t'.observation = t.nextObservation) → Chained l := by
    intro l
    induction l with
    | nil => intro _; trivial
    | cons x xs ih =>
      intro h
      cases xs with
      | nil => trivial
      | cons y ys =>
        refine ⟨?_, ih ?_⟩
        · obtain ⟨t, t', e1, e2, e3⟩ := h 0 (by simp)
          simp only [List.getElem?_cons_zero, Option.some.injEq, List.getElem?_cons_succ] at e1 e2
          rw [← e1, ← e2] at e3; exact e3
        · intro i hi
          obtain ⟨t, t', e1, e2, e3⟩ := h (i + 1) (by simp only [List.length_cons] at hi ⊢; omega)
          exact ⟨t, t', by simpa only [List.getElem?_cons_succ] using e1,
            by simpa only [List.getElem?_cons_succ] using e2, e3⟩
  exact this ts (by rw [h1]; exact hchain)

end unroll

/-! ## batches -/

/-- The wrappers as written over arrays with a leading batch axis (`bRun`: `VmapWrapper` →
`EpisodeWrapper` with `jp.sum(rewards, axis=0)` → `AutoResetWrapper` with the `done` mask
broadcast over the observation axis; `bEvRun`: plus `EvalWrapper`) compute, for every key
array and every history of action arrays of the batch's size, exactly the stacked results of
the single-member model run member by member (`memberRuns` is a `List.zipWith`/`List.map` of
the member functions).  Hypothesis: observations have the environment's `observation_size`. -/
theorem batched_wrappers_eq_map (env : BEnv K P X R A) (n : Nat)
    (hreset : ∀ k, (env.reset k).obs.length = n) (hstep : ∀ s a, (env.step s a).obs.length = n)
    (L r : Nat) (ks : List K) (hist : List (List A)) (hshape : ∀ as ∈ hist, as.length = ks.length) :
    bRun env L r ks hist = BArSt.stack (memberRuns env L r ks hist) ∧
    bEvRun env L r ks hist = BEvSt.stack (memberEvRuns env L r ks hist) := by
  constructor
  · rw [bRun, bArReset_eq, memberRuns]
    apply bRun_foldl env n hstep
    · intro s hs
      obtain ⟨k, _, rfl⟩ := List.mem_map.mp hs
      exact ⟨hreset k, hreset k⟩
    · simpa only [List.length_map] using hshape
  · rw [bEvRun, bEvReset_eq, memberEvRuns]
    apply bEvRun_foldl env n hstep
    · intro s hs
      obtain ⟨k, _, rfl⟩ := List.mem_map.mp hs
      exact ⟨hreset k, hreset k⟩
    · simpa only [List.length_map] using hshape

/-- member `i` of the member-wise runs is the single-member run on member `i`'s key and on
column `i` of the action history: nothing of any other member (state, action, done) enters. -/
theorem batched_member_independent (env : BEnv K P X R A) (L r : Nat) (ks : List K)
    (hist : List (List A)) (i : Nat) (k : K) (col : List A) (hk : ks[i]? = some k)
    (hcol : hist.map (·[i]?) = col.map some) :
    (memberRuns env L r ks hist)[i]? = some (run env L r k col) ∧
    (memberEvRuns env L r ks hist)[i]? = some (evRun env L r k col) := by
  constructor
  · apply foldl_zipWith_getElem? _ _ _ _ _ _ _ hcol
    rw [List.getElem?_map, hk]; rfl
  · apply foldl_zipWith_getElem? _ _ _ _ _ _ _ hcol
    rw [List.getElem?_map, hk]; rfl

/-- `actor_step` on a batch — one policy call on the stacked `[B, n]` observations (the policy
acting member-wise), one batched environment step, `1 - done` element-wise — is the stacked
member-wise `actor_step`; `generate_unroll` iterates it. -/
theorem batched_actor_step_eq_map {Ky : Type} (env : BEnv K P X R A) (n : Nat)
    (hstep : ∀ s a, (env.step s a).obs.length = n) (L r : Nat) (π : List R → Ky → A) (key : Ky)
    (l : List (ArSt P (List R) X R)) (hl : ∀ s ∈ l, s.firstObs.length = n ∧ s.obs.length = n) :
    bActorStep bArView (bArStep env L r) (fun obs k => obs.map (π · k)) (BArSt.stack l) key
      = (BArSt.stack (l.map fun s => (actorStep arView (arStep env L r) π s key).1),
         BTransition.stack (l.map fun s => (actorStep arView (arStep env L r) π s key).2)) := by
  have hobs : (bArView (P := P) (X := X)).obs (BArSt.stack l) = l.map (·.obs) := by
    simp only [bArView, BArSt.stack, BEpSt.stack, BSt.stack, List.map_map, Function.comp_def]
  have hstepb : bArStep env L r (BArSt.stack l) (l.map fun s => π s.obs key)
      = BArSt.stack (l.map fun s => arStep env L r s (π s.obs key)) := by
    have := bArStep_map env L r l (fun s => s) (fun s => π s.obs key) (by
      intro s hs
      rw [wfm_inner env n hstep L r s (hl s hs)]; exact (hl s hs).1)
    simpa only [List.map_id'] using this
  simp only [bActorStep, hobs, List.map_map, Function.comp_def, hstepb, actorStep, arView]
  simp only [bArView, BArSt.stack, BEpSt.stack, BSt.stack, BTransition.stack, List.map_map,
    Function.comp_def]

/-! ## the episode log -/

/-- Refinement of the executable spec.  Take the bare stream of inner sub-steps the wrapped
environment executed along a history, cut into chunks of `r` (`chunksFrom`).  From that stream
alone `specSteps` computes what every wrapped step must report — reward (sum of the chunk),
step counter, done (last sub-step terminated, or the episode reached `L` sub-steps) and
truncation — and `episodeLog` the list of episodes with their sub-step rewards.  The model's
reports after every step of every history are exactly `specSteps`, and the episodes delimited
by the model's `done` flags are exactly the episodes of the log. -/
theorem run_matches_log (env : Env K P O X R A) {L r : Nat} (hL : 1 ≤ L) (hr : 1 ≤ r) (k : K)
    (as : List A) :
    (trace env L r k as).map ArSt.report
      = (specSteps L r 0 (chunksFrom env L r (arReset env k) as)).map StepOut.toR ∧
    splitByDone [] ((trace env L r k as).map (·.done)) (chunksFrom env L r (arReset env k) as)
      = episodeLog L r (chunksFrom env L r (arReset env k) as) := by
  have h := trace_matches_spec env hL hr (arReset env k) 0 (inv_reset env r hL k) as
  rw [ite_self] at h
  refine ⟨h, ?_⟩
  have hd : (trace env L r k as).map (·.done)
      = (specSteps L r 0 (chunksFrom env L r (arReset env k) as)).map (·.done) := by
    have := congrArg (List.map fun (t : R × R × R × R) => t.2.2.1) h
    simpa only [List.map_map, Function.comp_def, ArSt.report, StepOut.toR, trace] using this
  rw [hd, splitByDone_spec]; rfl

/-! ## non-vacuity: concrete environments, concrete histories -/

/-- scripted schedule: the inner environment terminates at sub-step index 2 only -/
def exScript : Script Int :=
  { localIdx := false, c := 7, acc0 := 1, b0 := 0, b1 := 0, firstN := 0, aw := 0, kill := 3,
    dones := [0, 0, 1], rewards := [1, 2, 4, 8, 16, 32, 64] }

/-- `L = 5, r = 2`: the termination in the *middle* of the second action repeat is not seen,
the episode is cut by the time limit after `⌈5/2⌉·2 = 6` sub-steps with `truncation = 1`,
rewards are sums of two sub-steps, the observation returned is the reset observation, and the
counter restarts on the following step. -/
example :
    let s2 := run (R := Int) scripted 5 2 exScript [0, 0]
    let s3 := run (R := Int) scripted 5 2 exScript [0, 0, 0]
    let s4 := run (R := Int) scripted 5 2 exScript [0, 0, 0, 0]
    (s2.reward, s2.done, s2.steps, s2.truncation, s2.obs) = (12, 0, 4, 0, [4, 1, 7]) ∧
    (s3.reward, s3.done, s3.steps, s3.truncation, s3.obs) = (48, 1, 6, 1, [0, 1, 7]) ∧
    (s4.reward, s4.done, s4.steps, s4.truncation, s4.obs) = (64, 0, 2, 0, [2, 1, 7]) ∧
    count (R := Int) scripted 5 2 exScript [0, 0, 0] = 3 ∧
    count (R := Int) scripted 5 2 exScript [0, 0, 0, 0] = 1 := by decide

/-- a termination on the last sub-step of a repeat is seen: done without truncation; and
termination and time limit at the same step (`L = 4, r = 2`, done at index 3): no truncation -/
example :
    let sc := { exScript with dones := [0, 0, 0, 1] }
    let s := run (R := Int) scripted 6 2 sc [0, 0]
    let t := run (R := Int) scripted 4 2 sc [0, 0]
    (s.done, s.truncation, s.steps) = (1, 0, 4) ∧ (t.done, t.truncation, t.steps) = (1, 0, 4) := by
  decide

/-- the evaluation wrapper on the same script (two episodes long): only the first episode is
accumulated -/
example :
    let e := evRun (R := Int) scripted 5 2 exScript [0, 0, 0, 0, 0]
    (e.emReward, e.active, e.episodeSteps) = (63, 0, 6) := by decide

/-- observation (what the code does, not a violation): `Evaluator` unrolls `L // r` wrapped
steps; for `r ∤ L` that is fewer than the `⌈L/r⌉` steps at which the time limit fires, so an
evaluation episode that never terminates is still active at the end and is scored on
`⌊L/r⌋·r = 4 < 5` simulated steps. -/
example :
    let e := evalRun (R := Int) (Ky := Unit) scripted 5 2 (fun _ _ => 0) (fun _ => ((), ()))
      { exScript with dones := [] } ()
    (e.active, e.episodeSteps, e.emReward) = (1, 4, 15) := by decide

/-- an environment that is a function of `(pipeline_state, obs, action)`: a counter that
terminates at 3; the hypotheses of `episode_replays_fresh`, `eval_first_episode_only` and
`batched_wrappers_eq_map` hold for it and a done does occur -/
def counterEnv : BEnv Unit Nat Unit Int Int :=
  ⟨fun _ => ⟨0, [0], 0, 0, [0], ()⟩,
   fun s a => ⟨s.ps + 1, [(s.ps : Int) + 1], a, if 3 ≤ s.ps + 1 then 1 else 0, [a], ()⟩⟩

example : Markov counterEnv ∧
    (∀ s a, (counterEnv.step s a).done = 0 ∨ (counterEnv.step s a).done = 1) ∧
    (∀ s a, (counterEnv.step s a).metrics.length = s.metrics.length → True) ∧
    (∀ k, (counterEnv.reset k).obs.length = 1) ∧ (∀ s a, (counterEnv.step s a).obs.length = 1) ∧
    (run (R := Int) counterEnv 10 1 () [5, 6, 7]).done ≠ 0 ∧
    (run (R := Int) counterEnv 10 1 () [5, 6, 7, 8]).out = (run (R := Int) counterEnv 10 1 () [8]).out := by
  refine ⟨?_, ?_, fun _ _ _ => trivial, fun _ => rfl, fun _ _ => rfl, by decide, rfl⟩
  · intro s s' a h1 h2
    simp only [counterEnv, h1, and_self]
  · intro s a
    simp only [counterEnv]
    split
    · exact Or.inr rfl
    · exact Or.inl rfl

/-- a batch of two members with different scripts and actions: the batched code equals the
stacked member runs (both sides computed) -/
example :
    bRun (R := Int) scripted 5 2 [exScript, { exScript with dones := [1], c := 2 }] [[0, 1], [1, 0], [0, 0]]
      = BArSt.stack (memberRuns (R := Int) scripted 5 2
          [exScript, { exScript with dones := [1], c := 2 }] [[0, 1], [1, 0], [0, 0]]) := rfl

end Brax.C15

namespace Brax.C15
variable {K P O X R A : Type}
variable [CommRing R] [LinearOrder R] [IsStrictOrderedRing R]

/-! # Deepening (round 2): `generate_unroll` as a whole, batched unroll / evaluator = map of the
single-member ones, evaluation accumulators without the global 0/1 assumption, and the
`Evaluator` horizon `⌊L/r⌋` against the time-limit cut at `⌈L/r⌉·r`.

New vocabulary (defined in `Brax/Lemmas/C15.lean`): `unrollAt v step π split t s key` = the pair
`(nstate, transition)` produced by the `t`-th (0-based) `actor_step` of `generate_unroll` started at
`s` with `key`; `unrollActs … n s key` = the `n` actions the policy chose; `keyAt split t key` = the
key carried after `t` iterations; `polZip πs` = a batched policy acting member-wise with member
policy `πs[i]` on row `i` (one shared key — per-member noise is a per-member policy). -/

section unrollWhole
variable {Ky : Type}

/-- **`generate_unroll` over `training.wrap(env, L, r)`, one batch member, whole unroll**, started
after any history `as` (so also in the middle of an episode), for any policy, key splitting and any
extra field `ex` read from `nstate.info` (`truncation`, `steps`, …: `ex` is an arbitrary function of
the wrapped state).  The unroll returns `n` transitions and the state `run … (as ++ acts n)`;
transition `t` is taken from the state after the first `t` chosen actions to the state after
`t + 1` of them: `observation` is the observation before, `reward`, `discount = 1 − done`,
`next_observation` and the extra are those of the state **after** the environment step.  When that
step reported done (termination or time limit) `next_observation` is the **reset observation**
(`AutoResetWrapper` already replaced it: the terminal observation is never recorded), otherwise
the inner observation after `r` sub-steps; `discount = 0` exactly when `done = 1`.  Since the
state after step `t` is the state before step `t + 1`, `observation` of transition `t + 1` is
`next_observation` of transition `t` always, also across an auto-reset (`unroll_chains`). -/
theorem generate_unroll_wrapped (env : Env K P O X R A) (L r : Nat) (k : K) (as : List A)
    (π : O → Ky → A) (split : Ky → Ky × Ky) (ex : ArSt P O X R → R) (n : Nat) (key : Ky) :
    let v : View (ArSt P O X R) O R := ⟨ArSt.obs, ArSt.reward, ArSt.done, ex⟩
    let acts := fun t => unrollActs v (arStep env L r) π split t (run env L r k as) key
    let u := unroll v (arStep env L r) π split n (run env L r k as) key
    u.2.length = n ∧ u.1 = run env L r k (as ++ acts n) ∧
    ∀ t, t < n → ∃ tr, u.2[t]? = some tr ∧
      acts (t + 1) = acts t ++ [tr.action] ∧
      tr.action = π (run env L r k (as ++ acts t)).obs (split (keyAt split t key)).1 ∧
      tr.observation = (run env L r k (as ++ acts t)).obs ∧
      tr.nextObservation = (run env L r k (as ++ acts (t + 1))).obs ∧
      tr.reward = (run env L r k (as ++ acts (t + 1))).reward ∧
      tr.discount = 1 - (run env L r k (as ++ acts (t + 1))).done ∧
      tr.truncation = ex (run env L r k (as ++ acts (t + 1))) ∧
      ((run env L r k (as ++ acts (t + 1))).done ≠ 0 → tr.nextObservation = (env.reset k).obs) ∧
      ((run env L r k (as ++ acts (t + 1))).done = 0 →
        tr.nextObservation = (iter env tr.action r (run env L r k (as ++ acts t)).inner).obs) ∧
      (tr.discount = 0 ↔ (run env L r k (as ++ acts (t + 1))).done = 1) := by
  intro v acts u
  have hst : ∀ t, (unroll v (arStep env L r) π split t (run env L r k as) key).1
      = run env L r k (as ++ acts t) := by
    intro t; rw [unroll_fst_foldl, run_append]
  refine ⟨unroll_length _ _ _ _ _ _ _, hst n, ?_⟩
  intro t ht
  refine ⟨(unrollAt v (arStep env L r) π split t (run env L r k as) key).2,
    unroll_getElem? _ _ _ _ n t ht _ _, unrollActs_succ _ _ _ _ t _ _, ?_⟩
  have hsucc : acts (t + 1)
      = acts t ++ [(unrollAt v (arStep env L r) π split t (run env L r k as) key).2.action] :=
    unrollActs_succ _ _ _ _ t _ _
  have hafter : run env L r k (as ++ acts (t + 1))
      = (unrollAt v (arStep env L r) π split t (run env L r k as) key).1 := by
    rw [← hst (t + 1), unroll_fst_succ]
  rw [hafter]
  have hat := unrollAt_eq v (arStep env L r) π split t (run env L r k as) key
  rw [hst t] at hat
  rw [hat]
  refine ⟨rfl, rfl, rfl, rfl, rfl, rfl, ?_, ?_, ?_⟩
  · intro hd
    simp only [actorStep] at hd ⊢
    rw [← run_snoc] at hd ⊢
    exact ((autoreset_restores env L r k (as ++ acts t) _).2.2.1 hd).2
  · intro hd
    simp only [actorStep] at hd ⊢
    rw [← run_snoc] at hd ⊢
    exact ((autoreset_restores env L r k (as ++ acts t) _).2.2.2 hd).2
  · simp only [actorStep]
    constructor
    · intro h; exact (sub_eq_zero.mp h).symm
    · intro h; exact sub_eq_zero.mpr h.symm

/-- the transitions of a single-member unroll are the `unrollAt` ones, and the `t`-th `actor_step`
acts on the state returned by the unroll of length `t` (prefix property), with the first half of
the split of the carried key -/
theorem generate_unroll_prefix {S : Type} (v : View S O R) (step : S → A → S) (π : O → Ky → A)
    (split : Ky → Ky × Ky) (n : Nat) (s : S) (key : Ky) :
    (unroll v step π split n s key).2
      = (List.range n).map (fun t => (unrollAt v step π split t s key).2) ∧
    (∀ t, unrollAt v step π split t s key
      = actorStep v step π (unroll v step π split t s key).1 (split (keyAt split t key)).1) ∧
    (∀ t, (unroll v step π split (t + 1) s key).1 = (unrollAt v step π split t s key).1) ∧
    (unroll v step π split n s key).1 = (unrollActs v step π split n s key).foldl step s :=
  ⟨unroll_snd_eq_range _ _ _ _ _ _ _, fun t => unrollAt_eq _ _ _ _ t _ _,
   fun t => unroll_fst_succ _ _ _ _ t _ _, unroll_fst_foldl _ _ _ _ _ _ _⟩

/-- **batched `generate_unroll` = map of the single-member unrolls** (training stack
`VmapWrapper → EpisodeWrapper → AutoResetWrapper`), for every unroll length, key, key splitting and
member states with observations of the environment's size: the final batched state is the stack
of the members' final states and the `t`-th batched transition is the stack of the members'
`t`-th transitions.  The batched policy acts member-wise: row `i` is handled by `πs[i]` (all rows
get the same key, as in the code; different noise per row is a different `πs[i]`). -/
theorem batched_generate_unroll_eq_map (env : BEnv K P X R A) (n : Nat)
    (hstep : ∀ s a, (env.step s a).obs.length = n) (L r : Nat)
    (πs : List (List R → Ky → A)) (split : Ky → Ky × Ky) (N : Nat)
    (l : List (ArSt P (List R) X R)) (hl : ∀ s ∈ l, s.firstObs.length = n ∧ s.obs.length = n)
    (hlen : πs.length = l.length) (key : Ky) :
    bUnroll bArView (bArStep env L r) (polZip πs) split N (BArSt.stack l) key
      = (BArSt.stack (List.zipWith
            (fun π s => (unroll arView (arStep env L r) π split N s key).1) πs l),
         (List.range N).map fun t => BTransition.stack (List.zipWith
            (fun π s => (unrollAt arView (arStep env L r) π split t s key).2) πs l)) := by
  have h1 : πs = (πs.zip l).map (·.1) := (List.map_fst_zip (by omega)).symm
  have h2 : l = (πs.zip l).map (·.2) := (List.map_snd_zip (by omega)).symm
  have key' := bUnroll_ar_map env n hstep L r (πs.zip l) (·.1) (polZip ((πs.zip l).map (·.1)))
    (fun f key => polZip_map _ _ f key) split N (·.2)
    (fun x hx => hl x.2 (List.of_mem_zip hx).2) key
  rw [← h1, ← h2] at key'
  rw [key']
  simp only [zipWith_eq_map_zip']

/-- the same with one policy `π` applied to every row -/
theorem batched_generate_unroll_eq_map_uniform (env : BEnv K P X R A) (n : Nat)
    (hstep : ∀ s a, (env.step s a).obs.length = n) (L r : Nat)
    (π : List R → Ky → A) (split : Ky → Ky × Ky) (N : Nat)
    (l : List (ArSt P (List R) X R)) (hl : ∀ s ∈ l, s.firstObs.length = n ∧ s.obs.length = n)
    (key : Ky) :
    bUnroll bArView (bArStep env L r) (fun obs k => obs.map (π · k)) split N (BArSt.stack l) key
      = (BArSt.stack (l.map fun s => (unroll arView (arStep env L r) π split N s key).1),
         (List.range N).map fun t => BTransition.stack
           (l.map fun s => (unrollAt arView (arStep env L r) π split t s key).2)) := by
  have := bUnroll_ar_map env n hstep L r l (fun _ => π) (fun obs k => obs.map (π · k))
    (fun f key => by simp only [List.map_map, Function.comp_def]) split N (fun s => s) hl key
  simpa only [List.map_id'] using this

/-- from the batched reset: the whole batched rollout `reset(ks)`, then `generate_unroll`, is the
stack of the members' rollouts (member `i` from `reset(ks[i])`) -/
theorem batched_generate_unroll_from_reset (env : BEnv K P X R A) (n : Nat)
    (hreset : ∀ k, (env.reset k).obs.length = n) (hstep : ∀ s a, (env.step s a).obs.length = n)
    (L r : Nat) (π : List R → Ky → A) (split : Ky → Ky × Ky) (N : Nat) (ks : List K) (key : Ky) :
    bUnroll bArView (bArStep env L r) (fun obs k => obs.map (π · k)) split N (bArReset env ks) key
      = (BArSt.stack (ks.map fun k =>
            (unroll arView (arStep env L r) π split N (arReset env k) key).1),
         (List.range N).map fun t => BTransition.stack (ks.map fun k =>
            (unrollAt arView (arStep env L r) π split t (arReset env k) key).2)) := by
  rw [bArReset_eq]
  have := bUnroll_ar_map env n hstep L r ks (fun _ => π) (fun obs k => obs.map (π · k))
    (fun f key => by simp only [List.map_map, Function.comp_def]) split N (arReset env)
    (fun k _ => ⟨hreset k, hreset k⟩) key
  exact this

/-- **`bEvalRun = map evalRun`**: `Evaluator._generate_eval_unroll` on a batch (batched
`EvalWrapper` reset with the key array `ks`, then `L // r` batched policy steps) is the stack of the
single-member evaluator runs, for every episode length, action repeat, key array, policy key and
key splitting (hence every action history the policy produces). -/
theorem batched_eval_run_eq_map (env : BEnv K P X R A) (n : Nat)
    (hreset : ∀ k, (env.reset k).obs.length = n) (hstep : ∀ s a, (env.step s a).obs.length = n)
    (L r : Nat) (π : List R → Ky → A) (split : Ky → Ky × Ky) (ks : List K) (key : Ky) :
    bEvalRun env L r (fun obs k => obs.map (π · k)) split ks key
      = BEvSt.stack (ks.map fun k => evalRun env L r π split k key) := by
  have := bEvalRun_map_gen env n hreset hstep L r ks (fun _ => π) (fun obs k => obs.map (π · k))
    (fun f key => by simp only [List.map_map, Function.comp_def]) split (fun k => k) key
  simpa only [List.map_id'] using this

/-- the same with one member policy per row -/
theorem batched_eval_run_eq_map_policies (env : BEnv K P X R A) (n : Nat)
    (hreset : ∀ k, (env.reset k).obs.length = n) (hstep : ∀ s a, (env.step s a).obs.length = n)
    (L r : Nat) (πs : List (List R → Ky → A)) (split : Ky → Ky × Ky) (ks : List K)
    (hlen : πs.length = ks.length) (key : Ky) :
    bEvalRun env L r (polZip πs) split ks key
      = BEvSt.stack (List.zipWith (fun π k => evalRun env L r π split k key) πs ks) := by
  have h1 : πs = (πs.zip ks).map (·.1) := (List.map_fst_zip (by omega)).symm
  have h2 : ks = (πs.zip ks).map (·.2) := (List.map_snd_zip (by omega)).symm
  have key' := bEvalRun_map_gen env n hreset hstep L r (πs.zip ks) (·.1)
    (polZip ((πs.zip ks).map (·.1))) (fun f key => polZip_map _ _ f key) split (·.2) key
  rw [← h1, ← h2] at key'
  rw [key']
  simp only [zipWith_eq_map_zip']

end unrollWhole

/-! ## evaluation metrics without the global 0/1 assumption -/

/-- `eval_first_episode_only` needs the 0/1 assumption only for the wrapped `done` flags of the
**first episode of the history at hand** (so in fact only for the flag that closes it: flags in the
middle of an action repeat, flags of later episodes and flags on states never visited are
irrelevant).  `.ar = run` needs nothing. -/
theorem eval_first_episode_only_local (env : Env K P O X R A) (L r : Nat) (k : K) (as : List A)
    (hb : ∀ t ∈ firstEp (trace env L r k as), t.done = 0 ∨ t.done = 1) :
    (evRun env L r k as).ar = run env L r k as ∧
    (evRun env L r k as).emReward = ((firstEp (trace env L r k as)).map (·.reward)).sum ∧
    (evRun env L r k as).active
      = (if (trace env L r k as).any (fun t => decide (t.done ≠ 0)) then 0 else 1) ∧
    (evRun env L r k as).episodeSteps
      = (((firstEp (trace env L r k as)).getLast?).map (·.steps)).getD 0 := by
  have h := evFold_active' env L r (evReset env k) rfl as hb
  refine ⟨(evFold_ar env L r (evReset env k) as).1, ?_, h.2.1, h.2.2⟩
  have := h.1
  simp only [evReset, zero_add] at this
  exact this

theorem eval_metrics_first_episode_only_local (env : Env K P O X R A)
    (hm : ∀ s a, (env.step s a).metrics.length = s.metrics.length) (L r : Nat) (k : K)
    (as : List A) (hb : ∀ t ∈ firstEp (trace env L r k as), t.done = 0 ∨ t.done = 1) :
    (evRun env L r k as).emMetrics
      = (firstEp (trace env L r k as)).foldl (fun acc t => List.zipWith (· + ·) acc t.metrics)
          (List.replicate (env.reset k).metrics.length 0) := by
  have h := evFold_active_metrics' env hm L r (evReset env k) rfl
    (by simp [evReset, arReset, epReset, ArSt.metrics]) as hb
  have he : (evReset env k).emMetrics = List.replicate (env.reset k).metrics.length (0 : R) := by
    simp only [evReset, arReset, epReset, ArSt.metrics, List.map_const']
  rw [← he]
  exact h

/-- what holds with **no** assumption on the `done` flags at all:
* `active_episodes` is the product of `1 − done` over the wrapped steps so far;
* once it is 0 it stays 0 and `episode_metrics['reward']`, `episode_steps` are frozen;
* up to and including the first wrapped step with a non-zero flag the accumulators are exact: if
  no step of `as` reported done, then after `as ++ [a]` the accumulated reward is the sum of all
  wrapped rewards, `episode_steps` is `info['steps']` of the last step and
  `active_episodes = 1 − done` of the last step (which is 0 iff that flag is exactly 1). -/
theorem eval_no_assumption (env : Env K P O X R A) (L r : Nat) (k : K) (as bs : List A) (a : A) :
    (evRun env L r k as).active = ((trace env L r k as).map fun t => 1 - t.done).prod ∧
    ((evRun env L r k as).active = 0 →
      (evRun env L r k (as ++ bs)).active = 0 ∧
      (evRun env L r k (as ++ bs)).emReward = (evRun env L r k as).emReward ∧
      (evRun env L r k (as ++ bs)).episodeSteps = (evRun env L r k as).episodeSteps) ∧
    ((∀ t ∈ trace env L r k as, t.done = 0) →
      (evRun env L r k (as ++ [a])).emReward = ((trace env L r k (as ++ [a])).map (·.reward)).sum ∧
      (evRun env L r k (as ++ [a])).episodeSteps = (run env L r k (as ++ [a])).steps ∧
      (evRun env L r k (as ++ [a])).active = 1 - (run env L r k (as ++ [a])).done) := by
  refine ⟨?_, ?_, ?_⟩
  · have := evFold_active_prod env L r (evReset env k) as
    rw [show (evReset env k).active = (1 : R) from rfl, one_mul] at this
    exact this
  · intro h0
    have := evFold_frozen env L r (evRun env L r k as) h0 bs
    simpa only [evRun, List.foldl_append] using this
  · intro hz
    have hpre := eval_first_episode_only_local env L r k as
      (fun t ht => Or.inl (hz t (firstEp_subset _ t ht)))
    have hact : (evRun env L r k as).active = 1 := by
      rw [hpre.2.2.1, if_neg]
      simp only [List.any_eq_true, decide_eq_true_eq, not_exists, not_and, not_not]
      exact hz
    have hone := evStep_active_one env L r (evRun env L r k as) hact a
    have hsn : evRun env L r k (as ++ [a]) = evStep env L r (evRun env L r k as) a := by
      simp only [evRun, List.foldl_append, List.foldl_cons, List.foldl_nil]
    rw [hpre.1, ← run_snoc] at hone
    rw [hsn]
    refine ⟨?_, hone.2.1, hone.2.2⟩
    rw [hone.1, hpre.2.1, firstEp_all_zero _ hz, trace_snoc, List.map_append, List.sum_append]
    simp

/-- an inner environment with a non-boolean flag: it reports `done = 2` on its second step -/
def twoEnv : BEnv Unit Nat Unit Int Int :=
  ⟨fun _ => ⟨0, [0], 0, 0, [0], ()⟩,
   fun s a => ⟨s.ps + 1, [(s.ps : Int) + 1], a, if s.ps + 1 = 2 then 2 else 0, [a], ()⟩⟩

/-- **witness that the 0/1 assumption cannot be dropped** (confirmed on the real `EvalWrapper`,
see `notes/C15-deepen.md`): with a flag `done = 2` the other wrappers treat the step as an
episode end (`jp.where(done, …)`: auto-reset, counter restart) but `active_episodes` becomes
`1·(1 − 2) = −1`, the second episode is *subtracted* from `episode_metrics['reward']`, and after
the second such flag the member is "active" again: after 4 steps the first episode's reward is 2
but the accumulator shows 0, `active_episodes = 1`.  All three conclusions of
`eval_first_episode_only` fail. -/
theorem eval_nonboolean_done_counterexample :
    let tr := trace (R := Int) twoEnv 10 1 () [1, 1, 1, 1]
    let e := evRun (R := Int) twoEnv 10 1 () [1, 1, 1, 1]
    tr.map (·.done) = [0, 2, 0, 2] ∧ tr.map (·.steps) = [1, 2, 1, 2] ∧
    tr.map (·.obs) = [[1], [0], [1], [0]] ∧
    ((firstEp tr).map (·.reward)).sum = 2 ∧ e.emReward = 0 ∧ e.emReward ≠ ((firstEp tr).map (·.reward)).sum ∧
    e.active = 1 ∧ e.active ≠ (if tr.any (fun t => decide (t.done ≠ 0)) then 0 else 1) ∧
    (evRun (R := Int) twoEnv 10 1 () [1, 1]).active = -1 ∧
    (evRun (R := Int) twoEnv 10 1 () [1, 1, 1]).episodeSteps = 1 ∧
    (((firstEp (trace (R := Int) twoEnv 10 1 () [1, 1, 1])).getLast?).map (·.steps)).getD 0 = 2 := by
  decide

/-! ## the `Evaluator` horizon: `⌊L/r⌋` wrapped steps against the time-limit cut at `⌈L/r⌉·r` -/
section evaluator
variable {Ky : Type}

/-- an evaluator run is `EvalWrapper(wrap(env))` driven by the `L // r` actions the policy chose -/
theorem evaluator_run_eq (env : Env K P O X R A) (L r : Nat) (π : O → Ky → A)
    (split : Ky → Ky × Ky) (k : K) (key : Ky) :
    evalRun env L r π split k key = evRun env L r k (evalActs env L r π split k key) ∧
    (evalActs env L r π split k key).length = L / r :=
  ⟨unroll_fst_foldl _ _ _ _ _ _ _, unrollActs_length _ _ _ _ _ _ _⟩

/-- **what the evaluator can see.**  For any wrapped step within the first `⌊L/r⌋` steps after a
reset (`c` its position in its episode): `c·r ≤ L`.  The time limit (`L ≤ c·r`) can fire only if
`r ∣ L`, only on the **last** step of the unroll and only if no earlier step reported done.
Whenever `c·r < L` — in particular on every step when `r ∤ L` — `done` is the inner flag of the
last sub-step and `truncation = 0`: for `r ∤ L` the evaluator never sees a time-limit cut. -/
theorem evaluator_horizon (env : Env K P O X R A) {L r : Nat} (hL : 1 ≤ L) (hr : 1 ≤ r) (k : K)
    (as : List A) (a : A) (hlen : as.length + 1 ≤ L / r) :
    let c := count env L r k (as ++ [a])
    let s := run env L r k (as ++ [a])
    c * r ≤ L ∧
    (L ≤ c * r → r ∣ L ∧ as.length + 1 = L / r ∧ (∀ t ∈ trace env L r k as, t.done = 0) ∧
      s.done = 1) ∧
    (c * r < L → s.done = (iter env a r (run env L r k as).inner).done ∧ s.truncation = 0) ∧
    (¬ r ∣ L → c * r < L) := by
  intro c s
  have hc : c ≤ as.length + 1 := by
    have := count_le_length (R := R) env L r k (as ++ [a])
    rwa [List.length_append, List.length_singleton] at this
  have h1 : L / r * r ≤ L := Nat.div_mul_le_self L r
  have h2 : c * r ≤ L / r * r := Nat.mul_le_mul_right r (by omega)
  have htl := time_limit (R := R) env hL hr k as a
  refine ⟨by omega, ?_, ?_, ?_⟩
  · intro hle
    have heq : c * r = L := by omega
    have hcN : c = L / r := by rw [← heq, Nat.mul_div_cancel c (by omega)]
    have hfull : c = as.length + 1 := by omega
    exact ⟨⟨c, by rw [← heq, Nat.mul_comm]⟩, by omega,
      count_full_imp env L r k as a hfull, htl.2.2.1 hle⟩
  · intro hlt
    refine ⟨htl.2.2.2.1 hlt, ?_⟩
    have hs : s.steps = ((c * r : Nat) : R) := (steps_counter env r hL k (as ++ [a])).1
    show (run env L r k (as ++ [a])).truncation = 0
    have ht := truncation_eq env L r (run env L r k as) a
    rw [← run_snoc] at ht
    rw [ht, if_neg]
    rw [hs]
    exact not_le.mpr (by exact_mod_cast hlt)
  · intro hnd
    have : c * r ≠ L := fun heq => hnd ⟨c, by rw [← heq, Nat.mul_comm]⟩
    omega

/-- below the limit a never-terminating inner environment gives `done = 0`, `truncation = 0` -/
theorem nonterminating_below_limit (env : Env K P O X R A) {L r : Nat} (hL : 1 ≤ L) (hr : 1 ≤ r)
    (hnt : ∀ s a, (env.step s a).done = 0) (k : K) (as : List A) (hlen : as.length * r < L) :
    ∀ t ∈ trace env L r k as, t.done = 0 ∧ t.truncation = 0 := by
  induction as using list_snoc_induction with
  | nil => intro t ht; simp [trace, traceFrom] at ht
  | snoc as a ih =>
    rw [List.length_append, List.length_singleton, Nat.succ_mul] at hlen
    have hpre := ih (by omega)
    intro t ht
    rw [trace_snoc, List.mem_append, List.mem_singleton] at ht
    rcases ht with ht | rfl
    · exact hpre t ht
    · have hc : count env L r k (as ++ [a]) ≤ as.length + 1 := by
        have := count_le_length (R := R) env L r k (as ++ [a])
        rwa [List.length_append, List.length_singleton] at this
      have hcr : count env L r k (as ++ [a]) * r ≤ (as.length + 1) * r :=
        Nat.mul_le_mul_right r hc
      rw [Nat.succ_mul] at hcr
      have hlt : count env L r k (as ++ [a]) * r < L := by omega
      have htl := time_limit (R := R) env hL hr k as a
      refine ⟨?_, ?_⟩
      · rw [htl.2.2.2.1 hlt]; exact iter_done_zero env hnt a hr _
      · have hs := (steps_counter (R := R) env r hL k (as ++ [a])).1
        have ht := truncation_eq env L r (run env L r k as) a
        rw [← run_snoc] at ht
        rw [ht, if_neg]
        rw [hs]
        exact not_le.mpr (by exact_mod_cast hlt)

/-- **the evaluator on an episode that never terminates** (`done = 0` from the inner environment
always).  If `r ∤ L` the member is still active at the end of the evaluation, no step was flagged
done or truncated, and the episode is scored on `⌊L/r⌋·r < L` simulated steps (0 steps when
`r > L`).  If `r ∣ L` the time limit fires exactly on the last step of the unroll: the member is
closed with `truncation = 1` and `episode_steps = L`.  In both cases the accumulated reward is the
sum of all wrapped rewards of the unroll. -/
theorem evaluator_nonterminating (env : Env K P O X R A) {L r : Nat} (hL : 1 ≤ L) (hr : 1 ≤ r)
    (hnt : ∀ s a, (env.step s a).done = 0) (π : O → Ky → A) (split : Ky → Ky × Ky) (k : K)
    (key : Ky) :
    let acts := evalActs env L r π split k key
    let e := evalRun env L r π split k key
    e.emReward = ((trace env L r k acts).map (·.reward)).sum ∧
    (¬ r ∣ L → e.active = 1 ∧ e.episodeSteps = ((L / r * r : Nat) : R) ∧ L / r * r < L ∧
      ∀ t ∈ trace env L r k acts, t.done = 0 ∧ t.truncation = 0) ∧
    (r ∣ L → e.active = 0 ∧ e.episodeSteps = (L : R) ∧ (run env L r k acts).done = 1 ∧
      (run env L r k acts).truncation = 1) := by
  intro acts e
  obtain ⟨he, hlen⟩ := evaluator_run_eq (R := R) env L r π split k key
  have hee : e = evRun env L r k acts := he
  have hlen' : acts.length = L / r := hlen
  have h1 : L / r * r ≤ L := Nat.div_mul_le_self L r
  by_cases hdiv : r ∣ L
  · -- the limit fires on the last step
    have hN : L / r * r = L := Nat.div_mul_cancel hdiv
    have hNpos : 1 ≤ L / r := by
      rcases Nat.eq_zero_or_pos (L / r) with h0 | hp
      · rw [h0] at hN; omega
      · exact hp
    rcases List.eq_nil_or_concat acts with hnil | ⟨as', a, hcat⟩
    · rw [hnil] at hlen'; simp at hlen'; omega
    rw [List.concat_eq_append] at hcat
    have hl' : as'.length + 1 = L / r := by
      rw [← hlen', hcat, List.length_append, List.length_singleton]
    have hlt : as'.length * r < L := by
      have : (as'.length + 1) * r = L := by rw [hl', hN]
      rw [Nat.succ_mul] at this; omega
    have hz := nonterminating_below_limit (R := R) env hL hr hnt k as' hlt
    have hz0 : ∀ t ∈ trace env L r k as', t.done = 0 := fun t ht => (hz t ht).1
    have hc : count env L r k (as' ++ [a]) = as'.length + 1 :=
      count_snoc_of_zero env L r k as' a hz0
    have hle : L ≤ count env L r k (as' ++ [a]) * r := by rw [hc, hl', hN]
    have hd : (run env L r k (as' ++ [a])).done = 1 :=
      (time_limit (R := R) env hL hr k as' a).2.2.1 hle
    have htr : (run env L r k (as' ++ [a])).truncation = 1 :=
      (truncation_iff_run env r hL k as' a).1.mpr ⟨hle, iter_done_zero env hnt a hr _⟩
    have hfe : firstEp (trace env L r k (as' ++ [a])) = trace env L r k (as' ++ [a]) := by
      rw [trace_snoc]; exact firstEp_snoc_all_zero _ _ hz0
    have hev := eval_first_episode_only_local env L r k (as' ++ [a]) (by
      intro t ht
      rw [hfe, trace_snoc, List.mem_append, List.mem_singleton] at ht
      rcases ht with ht | rfl
      · exact Or.inl (hz0 t ht)
      · exact Or.inr hd)
    rw [hfe] at hev
    have hsteps : (run env L r k (as' ++ [a])).steps = (L : R) := by
      rw [(steps_counter (R := R) env r hL k (as' ++ [a])).1, hc, hl', hN]
    rw [hee, hcat]
    refine ⟨hev.2.1, fun h => absurd hdiv h, fun _ => ⟨?_, ?_, hd, htr⟩⟩
    · rw [hev.2.2.1, if_pos]
      rw [trace_snoc, List.any_append]
      simp [hd]
    · rw [hev.2.2.2, trace_getLast]
      exact hsteps
  · -- the limit is never reached inside the unroll
    have hlt : L / r * r < L := by
      have : L / r * r ≠ L := fun h => hdiv ⟨L / r, by rw [Nat.mul_comm]; exact h.symm⟩
      omega
    have hz := nonterminating_below_limit (R := R) env hL hr hnt k acts (by rw [hlen']; exact hlt)
    have hz0 : ∀ t ∈ trace env L r k acts, t.done = 0 := fun t ht => (hz t ht).1
    have hfe := firstEp_all_zero _ hz0
    have hev := eval_first_episode_only_local env L r k acts (by
      intro t ht; rw [hfe] at ht; exact Or.inl (hz0 t ht))
    rw [hfe] at hev
    rw [hee]
    refine ⟨hev.2.1, fun _ => ⟨?_, ?_, hlt, hz⟩, fun h => absurd h hdiv⟩
    · rw [hev.2.2.1, if_neg]
      simp only [List.any_eq_true, decide_eq_true_eq, not_exists, not_and, not_not]
      exact hz0
    · rw [hev.2.2.2]
      rcases List.eq_nil_or_concat acts with hnil | ⟨as', a, hcat⟩
      · rw [hnil] at hlen' ⊢
        simp only [List.length_nil] at hlen'
        rw [← hlen']; simp [trace, traceFrom]
      · rw [List.concat_eq_append] at hcat
        rw [hcat, trace_getLast]
        rw [hcat] at hz0 hlen'
        simp only [Option.map_some, Option.getD_some]
        rw [(steps_counter (R := R) env r hL k (as' ++ [a])).1,
          count_eq_length env L r k _ hz0, hlen']

/-- for `r ∣ L` every member finishes its first episode inside the evaluator's unroll (0/1 closing
flag): `active_episodes = 0` at the end, whatever the environment does -/
theorem evaluator_completes_of_dvd (env : Env K P O X R A) {L r : Nat} (hL : 1 ≤ L) (hr : 1 ≤ r)
    (hdiv : r ∣ L) (π : O → Ky → A) (split : Ky → Ky × Ky) (k : K) (key : Ky)
    (hb : ∀ t ∈ firstEp (trace env L r k (evalActs env L r π split k key)),
      t.done = 0 ∨ t.done = 1) :
    (evalRun env L r π split k key).active = 0 := by
  obtain ⟨he, hlen⟩ := evaluator_run_eq (R := R) env L r π split k key
  rw [he, (eval_first_episode_only_local env L r k _ hb).2.2.1, if_pos]
  by_contra hany
  have hz0 : ∀ t ∈ trace env L r k (evalActs env L r π split k key), t.done = 0 := by
    simpa only [List.any_eq_true, decide_eq_true_eq, not_exists, not_and, not_not] using hany
  have hN : L / r * r = L := Nat.div_mul_cancel hdiv
  rcases List.eq_nil_or_concat (evalActs env L r π split k key) with hnil | ⟨as', a, hcat⟩
  · rw [hnil] at hlen; simp only [List.length_nil] at hlen; rw [← hlen] at hN; omega
  · rw [List.concat_eq_append] at hcat
    rw [hcat] at hz0 hlen
    have hc := count_eq_length env L r k _ hz0
    have hd : (run env L r k (as' ++ [a])).done = 1 :=
      (time_limit (R := R) env hL hr k as' a).2.2.1 (by rw [hc, hlen, hN])
    have h0 : (run env L r k (as' ++ [a])).done = 0 := by
      apply hz0; rw [trace_snoc]; simp
    rw [h0] at hd
    exact zero_ne_one hd

end evaluator

/-! ### non-vacuity of the deepening theorems -/

/-- `generate_unroll` on the scripted environment (`L = 5, r = 2`, time-limit cut on the third
step): the recorded `next_observation` of the cut step is the reset observation, `discount = 0`,
`truncation = 1`, and the next transition starts from it -/
example :
    let u := unroll (R := Int) (Ky := Unit) arView (arStep scripted 5 2) (fun _ _ => 0)
      (fun _ => ((), ())) 4 (run scripted 5 2 exScript []) ()
    u.2.map (fun t => (t.observation, t.nextObservation, t.reward, t.discount, t.truncation))
      = [([0, 1, 7], [2, 1, 7], 3, 1, 0), ([2, 1, 7], [4, 1, 7], 12, 1, 0),
         ([4, 1, 7], [0, 1, 7], 48, 0, 1), ([0, 1, 7], [2, 1, 7], 64, 1, 0)] := by decide

/-- the batched evaluator on a 2-member batch with different scripts, computed both ways -/
example :
    bEvalRun (R := Int) (Ky := Unit) scripted 5 2 (fun obs k => obs.map ((fun _ _ => 0) · k))
        (fun _ => ((), ())) [exScript, { exScript with dones := [0, 1], c := 2 }] ()
      = BEvSt.stack ([exScript, { exScript with dones := [0, 1], c := 2 }].map fun k =>
          evalRun (R := Int) (Ky := Unit) scripted 5 2 (fun _ _ => 0) (fun _ => ((), ())) k ()) := rfl

/-- hypotheses of `evaluator_nonterminating` are satisfiable, both cases occur:
`L = 5, r = 2` (still active, scored on 4 steps) and `L = 6, r = 2` (closed by the limit) -/
def foreverEnv : BEnv Unit Nat Unit Int Int :=
  ⟨fun _ => ⟨0, [0], 0, 0, [0], ()⟩, fun s a => ⟨s.ps + 1, [(s.ps : Int) + 1], a, 0, [a], ()⟩⟩

example : (∀ s a, (foreverEnv.step s a).done = 0) ∧
    (let e := evalRun (R := Int) (Ky := Unit) foreverEnv 5 2 (fun _ _ => 1) (fun _ => ((), ())) () ()
     (e.active, e.episodeSteps, e.emReward, e.ar.truncation) = (1, 4, 4, 0)) ∧
    (let e := evalRun (R := Int) (Ky := Unit) foreverEnv 6 2 (fun _ _ => 1) (fun _ => ((), ())) () ()
     (e.active, e.episodeSteps, e.emReward, e.ar.truncation) = (0, 6, 6, 1)) ∧
    (let e := evalRun (R := Int) (Ky := Unit) foreverEnv 2 3 (fun _ _ => 1) (fun _ => ((), ())) () ()
     (e.active, e.episodeSteps, e.emReward) = (1, 0, 0)) :=
  ⟨fun _ _ => rfl, by decide, by decide, by decide⟩

end Brax.C15

namespace Brax.C15
variable {K P O X R A : Type}

/-- the extra field `steps` (`extra_fields=('steps',)`: the view's extra slot reads `info['steps']`)
is the counter of the state **after** the step — 2, 4, 6 (the cut), then 2 again -/
example :
    let v : View (ArSt (SPs Int) (List Int) (SInfo Int) Int) (List Int) Int :=
      ⟨ArSt.obs, ArSt.reward, ArSt.done, ArSt.steps⟩
    (unroll (Ky := Unit) v (arStep scripted 5 2) (fun _ _ => 0) (fun _ => ((), ())) 4
      (run scripted 5 2 exScript []) ()).2.map (·.truncation) = [2, 4, 6, 2] := by decide

/-- hypotheses of `batched_generate_unroll_eq_map` / `batched_eval_run_eq_map` hold for the scripted
environment (`observation_size = 3`), and a 2-member training unroll with two *different* member
policies computed both ways agrees (one member is cut by the time limit, the other terminates) -/
example :
    (∀ k : Script Int, ((scripted (R := Int)).reset k).obs.length = 3) ∧
    (∀ s a, ((scripted (R := Int)).step s a).obs.length = 3) ∧
    (let ks := [exScript, { exScript with dones := [0, 1], c := 2 }]
     let πs : List (List Int → Unit → Int) := [fun _ _ => 0, fun o _ => o.getD 0 0]
     bUnroll (R := Int) bArView (bArStep scripted 5 2) (polZip πs) (fun _ => ((), ())) 4
        (bArReset scripted ks) ()
      = (BArSt.stack (List.zipWith (fun π s =>
            (unroll arView (arStep scripted 5 2) π (fun _ => ((), ())) 4 s ()).1) πs
              (ks.map (arReset scripted))),
         (List.range 4).map fun t => BTransition.stack (List.zipWith (fun π s =>
            (unrollAt arView (arStep scripted 5 2) π (fun _ => ((), ())) t s ()).2) πs
              (ks.map (arReset scripted))))) :=
  ⟨fun _ => rfl, fun _ _ => rfl, rfl⟩

/-- an environment whose flag is the action value: the hypothesis of
`eval_first_episode_only_local` holds on the history `[0, 1, 2, 5]` (the first episode is closed by
a flag 1) although the global 0/1 assumption fails; only the first two steps are accumulated -/
def actEnv : BEnv Unit Nat Unit Int Int :=
  ⟨fun _ => ⟨0, [0], 0, 0, [0], ()⟩, fun s a => ⟨s.ps + 1, [(s.ps : Int) + 1], 1, a, [a], ()⟩⟩

example :
    (∀ t ∈ firstEp (trace (R := Int) actEnv 10 1 () [0, 1, 2, 5]), t.done = 0 ∨ t.done = 1) ∧
    ¬ (∀ s a, (actEnv.step s a).done = 0 ∨ (actEnv.step s a).done = 1) ∧
    (let e := evRun (R := Int) actEnv 10 1 () [0, 1, 2, 5]
     (e.emReward, e.active, e.episodeSteps) = (2, 0, 2)) := by
  refine ⟨by decide, ?_, by decide⟩
  intro h
  have := h ⟨0, [0], 0, 0, [0], ()⟩ 2
  simp [actEnv] at this

end Brax.C15
