import Brax.Lemmas.C15
/-!
# C15 — Episode, auto-reset and evaluation wrappers keep exact episode accounting

Theorems about the model `Brax/Model/C15.lean` of `brax/envs/wrappers/training.py` and
`brax/training/acting.py`, for **every** inner environment (`env : Env …` is any pair of
functions), every episode length `L ≥ 1`, action repeat `r`, reset key and history (list of
actions; the termination pattern is whatever the inner environment does), over any linearly
ordered commutative ring of scalars (ℤ, ℚ, ℝ).  Only property theorems and non-vacuity
examples live here; helper lemmas are in `Brax/Lemmas/C15.lean`.

Reading guide: `run env L r k as` is `training.wrap(env, L, r)` after `reset(k)` and the actions
`as`; `count … as` is the 1-based position of the last wrapped step inside its episode;
`s.inner` is the inner state on which the sub-steps of the next wrapped step start (`done`
zeroed by `AutoResetWrapper`), `iter env a i s.inner` the inner state after `i` sub-steps.
-/
set_option linter.unusedSectionVars false
set_option linter.unusedVariables false
namespace Brax.C15
variable {K P O X R A : Type}
variable [CommRing R] [LinearOrder R] [IsStrictOrderedRing R]

/-! ## step counter -/

/-- `info['steps']` after any history is `r ×` the number of wrapped steps taken in the current
episode; that number restarts at 1 on the step after a done; `AutoResetWrapper` zeroes the
stored counter exactly when the incoming state is done (at the start of the next step — the
state returned *at* the done still shows the final count). -/
theorem steps_counter (env : Env K P O X R A) {L : Nat} (r : Nat) (hL : 1 ≤ L) (k : K)
    (as : List A) :
    (run env L r k as).steps = ((count env L r k as * r : Nat) : R) ∧
    count env L r k [] = 0 ∧
    (∀ a, count env L r k (as ++ [a])
        = (if (run env L r k as).done = 0 then count env L r k as else 0) + 1) ∧
    (arPre (run env L r k as)).steps
        = (if (run env L r k as).done = 0 then (run env L r k as).steps else 0) := by
  refine ⟨?_, rfl, fun a => count_snoc env L r k as a, ?_⟩
  · have := (inv_runC (R := R) env r hL k as).steps
    rwa [runC_fst] at this
  · simp only [arPre, whereNZ, ArSt.done, ArSt.steps]

/-! ## time limit -/

/-- Let `c` be the position of a wrapped step in its episode.  `done` is forced to 1 at the
first `c` with `c·r ≥ L` — the step is never later (`(c-1)·r < L`) and below the limit `done`
is just the inner environment's flag after the **last** sub-step.  A time-limit cut therefore
happens after `c·r = ⌈L/r⌉·r` simulated steps, which is `L` exactly when `r ∣ L`. -/
theorem time_limit (env : Env K P O X R A) {L r : Nat} (hL : 1 ≤ L) (hr : 1 ≤ r) (k : K)
    (as : List A) (a : A) :
    let c := count env L r k (as ++ [a])
    let s := run env L r k (as ++ [a])
    1 ≤ c ∧ (c - 1) * r < L ∧
    (L ≤ c * r → s.done = 1) ∧
    (c * r < L → s.done = (iter env a r (run env L r k as).inner).done) ∧
    (L ≤ c * r → c = (L + r - 1) / r ∧ s.steps = (((L + r - 1) / r * r : Nat) : R)) ∧
    (L ≤ c * r → (s.steps = (L : R) ↔ r ∣ L)) := by
  intro c s
  have hinv := inv_runC (R := R) env r hL k (as ++ [a])
  have hsteps : s.steps = ((c * r : Nat) : R) := by
    have := hinv.steps; rwa [runC_fst] at this
  have hlate : (c - 1) * r < L := hinv.notLate
  have hc1 : 1 ≤ c := by
    show 1 ≤ count env L r k (as ++ [a]); rw [count_snoc]; omega
  have hdone : s.done = if (L : R) ≤ s.steps then 1 else (iter env a r (run env L r k as).inner).done := by
    show (run env L r k (as ++ [a])).done
      = if (L : R) ≤ (run env L r k (as ++ [a])).steps then 1 else _
    rw [run_snoc]; exact done_eq env L r _ a
  have hsub : (c - 1) * r = c * r - r := by rw [Nat.sub_mul, Nat.one_mul]
  have hge : r ≤ c * r := Nat.le_mul_of_pos_left r hc1
  have hceil : L ≤ c * r → c = (L + r - 1) / r := by
    intro h
    symm
    apply Nat.div_eq_of_lt_le
    · omega
    · rw [Nat.succ_mul]; omega
  refine ⟨hc1, hlate, ?_, ?_, ?_, ?_⟩
  · intro h
    rw [hdone, hsteps, if_pos]
    exact_mod_cast h
  · intro h
    rw [hdone, hsteps, if_neg]
    exact not_le.mpr (by exact_mod_cast h)
  · intro h
    have := hceil h
    exact ⟨this, by rw [hsteps, ← this]⟩
  · intro h
    rw [hsteps]
    constructor
    · intro he
      have : c * r = L := by exact_mod_cast he
      exact ⟨c, by rw [← this, Nat.mul_comm]⟩
    · rintro ⟨q, hq⟩
      rw [hq] at hlate h ⊢
      have h1 : c - 1 < q := by
        have : (c - 1) * r < q * r := by rw [Nat.mul_comm q r]; exact hlate
        exact Nat.lt_of_mul_lt_mul_right this
      have h2 : q ≤ c := by
        have : q * r ≤ c * r := by rw [Nat.mul_comm q r]; exact h
        exact Nat.le_of_mul_le_mul_right this (by omega)
      have : q = c := by omega
      rw [this, Nat.mul_comm]

/-- the arithmetic of the cut: `⌈L/r⌉·r` is the first multiple of `r` that reaches `L`; it is
`L` iff `r ∣ L` (so for `r ∤ L` the code simulates more than `episode_length` steps) -/
theorem time_limit_ceil {L r : Nat} (hr : 1 ≤ r) :
    L ≤ (L + r - 1) / r * r ∧ (L + r - 1) / r * r < L + r ∧
    ((L + r - 1) / r * r = L ↔ r ∣ L) := by
  have h1 := Nat.div_add_mod (L + r - 1) r
  have h2 := Nat.mod_lt (L + r - 1) (show r > 0 by omega)
  have hm : (L + r - 1) / r * r = r * ((L + r - 1) / r) := Nat.mul_comm _ _
  refine ⟨?_, ?_, ?_⟩
  · by_contra hlt
    -- if q*r < L then, both being comparable through the remainder bound, q*r + r ≤ L + r - 1 < q*r + r
    rcases Nat.eq_zero_or_pos L with h0 | hpos
    · omega
    · -- (L + r - 1) = q*r + m, m < r, so q*r > L - 1, i.e. q*r ≥ L
      omega
  · omega
  · constructor
    · intro h; exact ⟨(L + r - 1) / r, by omega⟩
    · rintro ⟨q, rfl⟩
      rcases Nat.eq_zero_or_pos q with h0 | hq
      · subst h0
        simp only [Nat.mul_zero, Nat.zero_add]
        rw [Nat.div_eq_of_lt (by omega)]; simp
      · have : (r * q + r - 1) / r = q := by
          apply Nat.div_eq_of_lt_le
          · rw [Nat.mul_comm]; omega
          · rw [Nat.succ_mul, Nat.mul_comm q r]; omega
        rw [this, Nat.mul_comm]

/-! ## truncation -/

/-- `truncation = 1` exactly when the step reached the limit **and** the inner environment's
(last sub-step) flag is 0; otherwise it is 0 or the non-unit value `1 - done` of a
non-boolean flag.  For any wrapped state `s` and action. -/
theorem truncation_iff (env : Env K P O X R A) (L r : Nat) (s : ArSt P O X R) (a : A) :
    (arStep env L r s a).truncation = 1 ↔
      ((L : R) ≤ (arStep env L r s a).steps ∧ (iter env a r s.inner).done = 0) := by
  rw [truncation_eq]
  by_cases h : (L : R) ≤ (arStep env L r s a).steps
  · simp only [h, if_true, true_and, sub_eq_self]
  · simp only [h, if_false, false_and, iff_false]; exact zero_ne_one

/-- along a history, with the position `c` of the step in its episode: truncation is 1 iff the
cut is by the time limit (`c·r ≥ L`) and not by a termination; and then `done = 1`. -/
theorem truncation_iff_run (env : Env K P O X R A) {L : Nat} (r : Nat) (hL : 1 ≤ L) (k : K)
    (as : List A) (a : A) :
    ((run env L r k (as ++ [a])).truncation = 1 ↔
      (L ≤ count env L r k (as ++ [a]) * r ∧
        (iter env a r (run env L r k as).inner).done = 0)) ∧
    ((run env L r k (as ++ [a])).truncation = 1 → (run env L r k (as ++ [a])).done = 1) := by
  have hs : (run env L r k (as ++ [a])).steps = ((count env L r k (as ++ [a]) * r : Nat) : R) :=
    (steps_counter env r hL k (as ++ [a])).1
  have hiff : (run env L r k (as ++ [a])).truncation = 1 ↔
      (L ≤ count env L r k (as ++ [a]) * r ∧
        (iter env a r (run env L r k as).inner).done = 0) := by
    have := truncation_iff env L r (run env L r k as) a
    rw [← run_snoc, hs] at this
    rw [this, Nat.cast_le]
  refine ⟨hiff, fun h => ?_⟩
  have hle := (hiff.mp h).1
  rw [run_snoc, done_eq, ← run_snoc, hs, if_pos]
  exact_mod_cast hle

/-! ## reward of a wrapped step -/

/-- the wrapped reward is the sum of the rewards of the `r` sub-steps (for any state and
action); `done` before the time-limit override and the reported `metrics` are those of the
**last** sub-step only (a termination in the middle of an action repeat that the inner
environment does not latch is not seen — this is what the code does). -/
theorem reward_sum (env : Env K P O X R A) (L r : Nat) (s : ArSt P O X R) (a : A) :
    (arStep env L r s a).reward
      = ((List.range r).map fun i => (iter env a (i + 1) s.inner).reward).sum ∧
    (arStep env L r s a).done
      = (if (L : R) ≤ (arStep env L r s a).steps then 1 else (iter env a r s.inner).done) ∧
    (arStep env L r s a).metrics = (iter env a r s.inner).metrics :=
  ⟨reward_eq env L r s a, done_eq env L r s a, metrics_eq env L r s a⟩

/-! ## auto reset -/

/-- the snapshot taken at reset is never changed, and whenever a wrapped step reports done
(by termination or time limit) the returned `pipeline_state` and `obs` are that snapshot;
otherwise they are the inner environment's. -/
theorem autoreset_restores (env : Env K P O X R A) (L r : Nat) (k : K) (as : List A) (a : A) :
    (run env L r k as).firstPs = (env.reset k).ps ∧
    (run env L r k as).firstObs = (env.reset k).obs ∧
    ((run env L r k (as ++ [a])).done ≠ 0 →
      (run env L r k (as ++ [a])).ps = (env.reset k).ps ∧
      (run env L r k (as ++ [a])).obs = (env.reset k).obs) ∧
    ((run env L r k (as ++ [a])).done = 0 →
      (run env L r k (as ++ [a])).ps = (iter env a r (run env L r k as).inner).ps ∧
      (run env L r k (as ++ [a])).obs = (iter env a r (run env L r k as).inner).obs) := by
  have hfirst : ∀ as : List A, (run env L r k as).firstPs = (env.reset k).ps ∧
      (run env L r k as).firstObs = (env.reset k).obs := by
    intro as; exact foldl_first env L r (arReset env k) as
  refine ⟨(hfirst as).1, (hfirst as).2, ?_, ?_⟩
  · intro hd
    rw [run_snoc] at hd ⊢
    rw [ps_eq, obs_eq, if_neg hd, if_neg hd]
    exact hfirst as
  · intro hd
    rw [run_snoc] at hd ⊢
    rw [ps_eq, obs_eq, if_pos hd, if_pos hd]
    exact ⟨rfl, rfl⟩

end Brax.C15
