import Brax.Lemmas.C08Forest
import Brax.Props.C04
/-!
# C08 for whole forests (deepening of `Props/C08.lean`)

The theorems of `Props/C08.lean` are per link, with the parent's world transform/motion as a
parameter.  Here they are lifted to whole systems: `Kin.forward` over an arbitrary well-formed forest
(`C04I.TreeOK`: parents precede children, unit link quaternions, identity joint orientation — what
`mjcf.load_model` writes), every link free / 1-dof / one of the six supported 2- and 3-dof stacks
inside the chart (`C08F.FwdKind`), **every** joint velocity vector `qd`.

This file lives beside `Props/C08.lean` (same namespace `Brax.C08`) and not at its end because the
forest induction reuses `Lemmas/C04Init.lean`, which imports `Props/C08.lean`.

Helper lemmas: `Brax/Lemmas/C08Forest.lean` (namespace `Brax.C08F`).
-/
namespace Brax.C08
open Brax Brax.Inv Brax.C08F

/-! ## positions: C08's first sentence for whole systems -/

/-- **Converting any joint position vector to link world poses and back returns the same joint
positions, for whole forests and every `qd`.**  For every system with `TreeOK s`, every `q`
(`q.length = nq`) and every `qd` such that each link's slice of `(q, qd, dofs)` is a `FwdKind`
(free link with unit quaternion; hinge about a unit axis, `q ∈ (−π, π]`; slide along a unit axis,
`|q| ≤ 2`; hh, hhh, ss, sss, sh, ssh with orthonormal axes inside C08's chart):
`kinematics.inverse(sys, *world_to_joint(sys, *forward(sys, q, qd)))` succeeds and its `q` component
is **equal** to `q` — including the quaternions of free links (equal, not only up to sign: with a
unit input quaternion no renormalisation or sign choice takes place anywhere on the way). -/
theorem inverse_forward_positions (s : Sys ℝ) (q qd : List ℝ) (h : FwdOK s q qd)
    (hq : q.length = s.nq) :
    ∃ qd', Inv.inverse s
        ((Kin.worldToJoint s ((Kin.forward s q qd).map (·.1)) ((Kin.forward s q qd).map (·.2))).map (·.1))
        ((Kin.worldToJoint s ((Kin.forward s q qd).map (·.1)) ((Kin.forward s q qd).map (·.2))).map (·.2.1))
      = some (q, qd') ∧ qd'.length = s.nv := by
  obtain ⟨qd', h1, h2, _⟩ := inverse_forward s q qd h hq
  exact ⟨qd', h1, h2⟩

/-- the joint coordinates `pipeline.init(sys, q, qd)` stores are the inverse image of the joint
transforms it stores (spring and positional `init` compute `j, jd` the same way) -/
theorem init_q_is_inverse (s : Sys ℝ) (q qd : List ℝ) (h : FwdOK s q qd) (hq : q.length = s.nq) :
    (∃ qd', Inv.inverse s (Spring.init s q qd).j (Spring.init s q qd).jd = some (q, qd'))
    ∧ (∃ qd', Inv.inverse s (Positional.init s q qd).j (Positional.init s q qd).jd = some (q, qd')) := by
  obtain ⟨qd', h1, _⟩ := inverse_forward s q qd h hq
  exact ⟨⟨qd', h1⟩, ⟨qd', h1⟩⟩

/-! ## velocities: C08's velocity clause for whole systems -/

/-- The full velocity statement — "`qd` comes back for every supported link" — is **false** of the
code (known finding K1: stacked hinges, slides under a rotating parent; `notes/C08.md`), so it is
kept as a `Prop` only. -/
def inverse_forward_velocitiesStmt : Prop :=
  ∀ (s : Sys ℝ) (q qd : List ℝ), FwdOK s q qd → q.length = s.nq → qd.length = s.nv →
    Inv.inverse s
        ((Kin.worldToJoint s ((Kin.forward s q qd).map (·.1)) ((Kin.forward s q qd).map (·.2))).map (·.1))
        ((Kin.worldToJoint s ((Kin.forward s q qd).map (·.1)) ((Kin.forward s q qd).map (·.2))).map (·.2.1))
      = some (q, qd)

/-- **The `qd` component round-trips link by link** for the links C08's velocity clause names —
and a few more.  `qd'` being the velocity vector `inverse` returns: for every link `i` whose slice `l`
of `(q, qd, dofs)` is a `VelKind` link, the slice of `qd'` at `i` equals the slice of `qd` at `i`.
`VelKind`:
* the link hangs on a **single hinge** — under ANY ancestors moving in ANY way; or
* the parent frame does not rotate (`Still`: world angular velocity of the parent is zero — true of
  every root, `still_root`) and the link is anything but a stack beginning with a hinge: **free**
  link, slide, ss, sss, sh, ssh.
Not covered (K1, false of the code): hh / hhh stacks; free / slide links under a rotating parent. -/
theorem inverse_forward_velocities_partial (s : Sys ℝ) (q qd : List ℝ) (h : FwdOK s q qd)
    (hq : q.length = s.nq) :
    ∃ qd', Inv.inverse s
        ((Kin.worldToJoint s ((Kin.forward s q qd).map (·.1)) ((Kin.forward s q qd).map (·.2))).map (·.1))
        ((Kin.worldToJoint s ((Kin.forward s q qd).map (·.1)) ((Kin.forward s q qd).map (·.2))).map (·.2.1))
      = some (q, qd') ∧ qd'.length = s.nv
      ∧ ∀ i l l', (Kin.linkSlices s.types q qd s.dofs)[i]? = some l →
          (Kin.linkSlices s.types q qd' s.dofs)[i]? = some l' →
          VelKind (Still (C04I.parentVal s (Kin.forward s q qd) i)) l → l'.qd = l.qd :=
  inverse_forward s q qd h hq

/-- roots qualify: the frame a root hangs on is the identity at rest -/
theorem still_of_root (s : Sys ℝ) (xs : List (Tf ℝ × Motion ℝ)) (i : Nat)
    (hroot : s.parents.getD i (-1) < 0) : Still (C04I.parentVal s xs i) :=
  still_root s xs i hroot

/-- … and so does every link all of whose proper ancestors are slide-only links (`StillChain`:
gantry-like chains; `NoSpin`: not a free link, every dof a slide) — such frames translate but never
turn, whatever `qd` -/
theorem still_of_slide_chain (s : Sys ℝ) (q qd : List ℝ) (h : FwdOK s q qd) (i : Nat)
    (hc : StillChain s q qd i) : Still (C04I.parentVal s (Kin.forward s q qd) i) :=
  still_of_chain s q qd h.tree h.unitJ i hc

/-- **Full round trip, positions and velocities**, for every forest all of whose links are
`VelKind` links — in particular every forest made of free roots and single hinges (any depth, any
branching), of roots of any kind but hh / hhh carrying single hinges, …:
`inverse(world_to_joint(forward(q, qd))) = (q, qd)` exactly. -/
theorem inverse_forward_roundtrip (s : Sys ℝ) (q qd : List ℝ) (h : FwdOK s q qd)
    (hq : q.length = s.nq) (hqd : qd.length = s.nv)
    (hv : ∀ i l, (Kin.linkSlices s.types q qd s.dofs)[i]? = some l →
      VelKind (Still (C04I.parentVal s (Kin.forward s q qd) i)) l) :
    Inv.inverse s
        ((Kin.worldToJoint s ((Kin.forward s q qd).map (·.1)) ((Kin.forward s q qd).map (·.2))).map (·.1))
        ((Kin.worldToJoint s ((Kin.forward s q qd).map (·.1)) ((Kin.forward s q qd).map (·.2))).map (·.2.1))
      = some (q, qd) :=
  inverse_forward_all s q qd h hq hqd hv

/-! ## what the pipelines report, whole systems -/

/-- `kinematics.inverse` cannot fail (`AssertionError` of `link_to_joint_frame`) on a well-formed
system -/
theorem inverse_total (s : Sys ℝ) (hwf : s.WF = true) (j : List (Tf ℝ)) (jd : List (Motion ℝ))
    (hj : j.length = s.numLinks) (hjd : jd.length = s.numLinks) :
    ∃ qq, Inv.inverse s j jd = some qq :=
  C08F.inverse_total s hwf j jd hj hjd

/-- **`step_q_is_inverse` lifted to `Spring.step`**: for every well-formed system, every state (no
hypothesis on it), action and contact function, the joint coordinates the spring pipeline reports
after a step are the inverse image of the link poses it reports:
`j, jd, a_p, a_c = world_to_joint(sys, x', xd')` and `kinematics.inverse(sys, j, jd) = some (q', qd')`.
(`inv` of the pipeline model is instantiated with the model of `kinematics.inverse`.) -/
theorem spring_step_q_is_inverse (cf : List (Tf ℝ) → List (MC.Contact ℝ)) (s : Sys ℝ)
    (hwf : s.WF = true) (st : Spring.State ℝ) (act : List ℝ) :
    let st' := Spring.step (C04I.invModel s) cf s st act
    Inv.inverse s st'.j st'.jd = some (st'.q, st'.qd)
      ∧ st'.j = (Kin.worldToJoint s st'.x st'.xd).map (·.1)
      ∧ st'.jd = (Kin.worldToJoint s st'.x st'.xd).map (·.2.1)
      ∧ st'.a_p = (Kin.worldToJoint s st'.x st'.xd).map (·.2.2.1)
      ∧ st'.a_c = (Kin.worldToJoint s st'.x st'.xd).map (·.2.2.2) :=
  step_q_is_inverse s _ _ _ (spring_step_reported cf s hwf st act)

/-- … and to `Positional.step` -/
theorem positional_step_q_is_inverse (cf : List (Tf ℝ) → List (MC.Contact ℝ)) (s : Sys ℝ)
    (hwf : s.WF = true) (st : Positional.State ℝ) (act : List ℝ) :
    let st' := Positional.step (C04I.invModel s) cf s st act
    Inv.inverse s st'.j st'.jd = some (st'.q, st'.qd)
      ∧ st'.j = (Kin.worldToJoint s st'.x st'.xd).map (·.1)
      ∧ st'.jd = (Kin.worldToJoint s st'.x st'.xd).map (·.2.1)
      ∧ st'.a_p = (Kin.worldToJoint s st'.x st'.xd).map (·.2.2.1)
      ∧ st'.a_c = (Kin.worldToJoint s st'.x st'.xd).map (·.2.2.2) :=
  step_q_is_inverse s _ _ _ (positional_step_reported cf s hwf st act)

/-! ## non-vacuity -/

/-- velocities for `C04.exSysH` (free root + two-hinge stack `(x, y)`): all non-zero -/
noncomputable def exQdH : List ℝ := [1, -2, 3, 1 / 2, -1, 2, 3 / 2, -5 / 2]

theorem exSysH_slicesV : insV C04.exSysH C04.exQH exQdH
    = [⟨.free, [0, 0, 1, 3 / 5, 0, 4 / 5, 0], [1, -2, 3, 1 / 2, -1, 2],
        [C04.exDofG ⟨0, 0, 0⟩ ⟨1, 0, 0⟩ none none, C04.exDofG ⟨0, 0, 0⟩ ⟨0, 1, 0⟩ none none,
         C04.exDofG ⟨0, 0, 0⟩ ⟨0, 0, 1⟩ none none, C04.exDofG ⟨1, 0, 0⟩ ⟨0, 0, 0⟩ none none,
         C04.exDofG ⟨0, 1, 0⟩ ⟨0, 0, 0⟩ none none, C04.exDofG ⟨0, 0, 1⟩ ⟨0, 0, 0⟩ none none]⟩,
       ⟨.two, [1 / 2, 3 / 10], [3 / 2, -5 / 2],
        [C04.exDofG ⟨1, 0, 0⟩ ⟨0, 0, 0⟩ (some (-1)) (some 1),
         C04.exDofG ⟨0, 1, 0⟩ ⟨0, 0, 0⟩ (some (-1)) (some 1)]⟩] := by
  unfold insV
  simp [C04.exSysH, C04.exQH, exQdH, Kin.linkSlices, LinkType.qWidth, LinkType.qdWidth]

/-- the hypotheses of `inverse_forward_positions` / `_velocities_partial` hold together on a concrete
moving system: free root (a `VelKind` link: its velocities come back) carrying a two-hinge stack
(positions only) -/
theorem exSysH_fwdOK : FwdOK C04.exSysH C04.exQH exQdH := by
  have hpi := Real.two_le_pi
  refine ⟨C04.exSysH_initOK.tree, ?_⟩
  intro l hl
  rw [exSysH_slicesV] at hl
  simp only [List.mem_cons, List.not_mem_nil, or_false] at hl
  rcases hl with rfl | rfl
  · exact FwdKind.free 0 0 1 (3 / 5) 0 (4 / 5) 0 1 (-2) 3 (1 / 2) (-1) 2 _ rfl (by norm_num)
  · exact FwdKind.stack (C04L.PureStack.hh _ _ ⟨1, 0, 0⟩ ⟨0, 1, 0⟩ _ _ (3 / 2) (-5 / 2) rfl rfl rfl
      (by simp [V3.dot]) (by simp [V3.dot]) (by simp [V3.dot]) (by linarith) (by linarith)
      (by rw [abs_le]; constructor <;> norm_num) (fun h => by cases h) (fun h => by cases h))

example : ∃ qd', Inv.inverse C04.exSysH (Spring.init C04.exSysH C04.exQH exQdH).j
    (Spring.init C04.exSysH C04.exQH exQdH).jd = some (C04.exQH, qd') :=
  (init_q_is_inverse C04.exSysH C04.exQH exQdH exSysH_fwdOK rfl).1

/-- … and the free root of that system is a `VelKind` link (root ⇒ `Still`) -/
example (l : Kin.LinkIn ℝ) (hl : (insV C04.exSysH C04.exQH exQdH)[0]? = some l) :
    VelKind (Still (C04I.parentVal C04.exSysH (Kin.forward C04.exSysH C04.exQH exQdH) 0)) l :=
  VelKind.still (still_of_root _ _ 0 (by simp [C04.exSysH])) (by
    rw [exSysH_slicesV] at hl
    simp only [List.getElem?_cons_zero, Option.some.injEq] at hl
    subst hl
    intro d0 d1 ds _ ht
    exact absurd rfl ht)

/-- velocities for `C04.exSysG` (free root + hinge about `z`) -/
noncomputable def exQdG : List ℝ := [1, -2, 3, 1 / 2, -1, 2, 3 / 2]

theorem exSysG_slicesV : insV C04.exSysG C04.exQG exQdG
    = [⟨.free, [0, 0, 1, 3 / 5, 0, 4 / 5, 0], [1, -2, 3, 1 / 2, -1, 2],
        [C04.exDofG ⟨0, 0, 0⟩ ⟨1, 0, 0⟩ none none, C04.exDofG ⟨0, 0, 0⟩ ⟨0, 1, 0⟩ none none,
         C04.exDofG ⟨0, 0, 0⟩ ⟨0, 0, 1⟩ none none, C04.exDofG ⟨1, 0, 0⟩ ⟨0, 0, 0⟩ none none,
         C04.exDofG ⟨0, 1, 0⟩ ⟨0, 0, 0⟩ none none, C04.exDofG ⟨0, 0, 1⟩ ⟨0, 0, 0⟩ none none]⟩,
       ⟨.one, [3 / 10], [3 / 2], [C04.exDofG ⟨0, 0, 1⟩ ⟨0, 0, 0⟩ (some (-1)) (some 1)]⟩] := by
  unfold insV
  simp [C04.exSysG, C04.exQG, exQdG, Kin.linkSlices, LinkType.qWidth, LinkType.qdWidth]

/-- all hypotheses of `inverse_forward_roundtrip` hold together: the moving free root + hinge system
round-trips exactly, positions and velocities -/
example :
    Inv.inverse C04.exSysG (Spring.init C04.exSysG C04.exQG exQdG).j
      (Spring.init C04.exSysG C04.exQG exQdG).jd = some (C04.exQG, exQdG) := by
  have hpi := Real.two_le_pi
  have htree : C04I.TreeOK C04.exSysG := by
    refine C04I.TreeOK.of_WF C04.exSysG (by decide) ?_
    intro lk hlk
    simp only [C04.exSysG, List.mem_cons, List.not_mem_nil, or_false, or_self] at hlk
    subst hlk
    exact ⟨by simp [C04.exLkG, Q4.normSq], rfl⟩
  refine inverse_forward_roundtrip C04.exSysG C04.exQG exQdG ⟨htree, ?_⟩ rfl rfl ?_
  · intro l hl
    rw [exSysG_slicesV] at hl
    simp only [List.mem_cons, List.not_mem_nil, or_false] at hl
    rcases hl with rfl | rfl
    · exact FwdKind.free 0 0 1 (3 / 5) 0 (4 / 5) 0 1 (-2) 3 (1 / 2) (-1) 2 _ rfl (by norm_num)
    · exact FwdKind.one (C04L.PureOne.hinge _ ⟨0, 0, 1⟩ (3 / 10) (3 / 2) rfl rfl (by simp [V3.dot])
        (by linarith) (by linarith) (fun h => by cases h))
  · intro i l hl
    have hl' : (insV C04.exSysG C04.exQG exQdG)[i]? = some l := hl
    rw [exSysG_slicesV] at hl'
    match i, hl' with
    | 0, hl' =>
      simp only [List.getElem?_cons_zero, Option.some.injEq] at hl'
      subst hl'
      exact VelKind.still (still_of_root _ _ 0 (by simp [C04.exSysG])) (fun _ _ _ _ ht => absurd rfl ht)
    | 1, hl' =>
      simp only [List.getElem?_cons_succ, List.getElem?_cons_zero, Option.some.injEq] at hl'
      subst hl'
      exact VelKind.hinge _ ⟨0, 0, 1⟩ _ _ rfl rfl
    | (n + 2), hl' => simp at hl'

/-- a gantry: slide along `x` (root), carrying a slide along `y`, carrying a slide-then-hinge stack
`(z, about x)`; rotated link frames and off-origin anchors (`exLk` of `Lemmas/C08.lean`) -/
noncomputable def exSysS : Sys ℝ :=
  { types := [.one, .one, .two], parents := [-1, 0, 1], links := [exLk, exLk, exLk],
    dofs := [exDof ⟨0, 0, 0⟩ ⟨1, 0, 0⟩, exDof ⟨0, 0, 0⟩ ⟨0, 1, 0⟩, exDof ⟨0, 0, 0⟩ ⟨0, 0, 1⟩,
      exDof ⟨1, 0, 0⟩ ⟨0, 0, 0⟩],
    hasLimit := false, acts := [], gravity := ⟨0, 0, -981 / 100⟩, dt := 0.002, velDamping := 0,
    angDamping := 0, baumgarteErp := 0.1, springMassScale := 0, springInertiaScale := 0,
    jointScaleAng := 0.2, jointScalePos := 0.5, collideScale := 1 }

noncomputable def exQS : List ℝ := [1 / 2, -3 / 2, 1, -1]
noncomputable def exQdS : List ℝ := [2, -1, 3, 1 / 2]

theorem exSysS_slicesV : insV exSysS exQS exQdS
    = [⟨.one, [1 / 2], [2], [exDof ⟨0, 0, 0⟩ ⟨1, 0, 0⟩]⟩,
       ⟨.one, [-3 / 2], [-1], [exDof ⟨0, 0, 0⟩ ⟨0, 1, 0⟩]⟩,
       ⟨.two, [1, -1], [3, 1 / 2], [exDof ⟨0, 0, 0⟩ ⟨0, 0, 1⟩, exDof ⟨1, 0, 0⟩ ⟨0, 0, 0⟩]⟩] := by
  unfold insV
  simp [exSysS, exQS, exQdS, Kin.linkSlices, LinkType.qWidth, LinkType.qdWidth]

/-- all hypotheses of `inverse_forward_roundtrip` hold together with `still_of_slide_chain`: every
velocity of the moving gantry comes back, the child slide and the slide-then-hinge stack because
all their ancestors are slides -/
example :
    Inv.inverse exSysS (Positional.init exSysS exQS exQdS).j (Positional.init exSysS exQS exQdS).jd
      = some (exQS, exQdS) := by
  have htree : C04I.TreeOK exSysS := by
    refine C04I.TreeOK.of_WF exSysS (by decide) ?_
    intro lk hlk
    simp only [exSysS, List.mem_cons, List.not_mem_nil, or_false, or_self] at hlk
    subst hlk
    exact ⟨by simp [exLk, Q4.normSq]; norm_num, rfl⟩
  have hok : FwdOK exSysS exQS exQdS := by
    refine ⟨htree, ?_⟩
    intro l hl
    rw [exSysS_slicesV] at hl
    simp only [List.mem_cons, List.not_mem_nil, or_false] at hl
    rcases hl with rfl | rfl | rfl
    · exact FwdKind.one (C04L.PureOne.slide _ ⟨1, 0, 0⟩ _ _ rfl rfl (by simp [V3.dot])
        (by rw [abs_le]; constructor <;> norm_num) (fun h => by cases h))
    · exact FwdKind.one (C04L.PureOne.slide _ ⟨0, 1, 0⟩ _ _ rfl rfl (by simp [V3.dot])
        (by rw [abs_le]; constructor <;> norm_num) (fun h => by cases h))
    · exact FwdKind.stack (C04L.PureStack.sh _ _ ⟨0, 0, 1⟩ ⟨1, 0, 0⟩ _ _ 3 (1 / 2) rfl rfl rfl
        (by simp [V3.dot]) (by simp [V3.dot]) (by rw [abs_le]; constructor <;> norm_num)
        (by rw [abs_le]; constructor <;> norm_num) (fun h => by cases h) (fun h => by cases h))
  have hn0 : NoSpin (⟨.one, [1 / 2], [2], [exDof ⟨0, 0, 0⟩ ⟨1, 0, 0⟩]⟩ : Kin.LinkIn ℝ) :=
    ⟨by simp, by intro d hd; simp only [List.mem_cons, List.not_mem_nil, or_false] at hd; subst hd; rfl⟩
  have hn1 : NoSpin (⟨.one, [-3 / 2], [-1], [exDof ⟨0, 0, 0⟩ ⟨0, 1, 0⟩]⟩ : Kin.LinkIn ℝ) :=
    ⟨by simp, by intro d hd; simp only [List.mem_cons, List.not_mem_nil, or_false] at hd; subst hd; rfl⟩
  have hc0 : StillChain exSysS exQS exQdS 0 := StillChain.root 0 (by simp [exSysS])
  have hc1 : StillChain exSysS exQS exQdS 1 :=
    StillChain.child 1 0 _ (by simp [exSysS]) (by rw [exSysS_slicesV]; rfl) hn0 hc0
  have hc2 : StillChain exSysS exQS exQdS 2 :=
    StillChain.child 2 1 _ (by simp [exSysS]) (by rw [exSysS_slicesV]; rfl) hn1 hc1
  refine inverse_forward_roundtrip exSysS exQS exQdS hok rfl rfl ?_
  intro i l hl
  have hl' : (insV exSysS exQS exQdS)[i]? = some l := hl
  rw [exSysS_slicesV] at hl'
  match i, hl' with
  | 0, hl' =>
    simp only [List.getElem?_cons_zero, Option.some.injEq] at hl'
    subst hl'
    exact VelKind.still (still_of_slide_chain _ _ _ hok 0 hc0) (fun _ _ _ hd _ => by simp at hd)
  | 1, hl' =>
    simp only [List.getElem?_cons_succ, List.getElem?_cons_zero, Option.some.injEq] at hl'
    subst hl'
    exact VelKind.still (still_of_slide_chain _ _ _ hok 1 hc1) (fun _ _ _ hd _ => by simp at hd)
  | 2, hl' =>
    simp only [List.getElem?_cons_succ, List.getElem?_cons_zero, Option.some.injEq] at hl'
    subst hl'
    refine VelKind.still (still_of_slide_chain _ _ _ hok 2 hc2) (fun d0 d1 ds hd _ => ?_)
    simp only [List.cons.injEq] at hd
    rw [← hd.1]
    rfl
  | (n + 3), hl' => simp at hl'

/-- `Sys.WF` is satisfiable: the example systems are well-formed, so the step theorems apply to them
for every state and action -/
example : C04.exSysH.WF = true ∧ C04.exSysG.WF = true ∧ exSysS.WF = true :=
  ⟨by decide, by decide, by decide⟩

end Brax.C08
