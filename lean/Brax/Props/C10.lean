import Brax.Lemmas.C10
import Brax.Lemmas.C10Mjx
import Brax.Lemmas.C10Cap
import Brax.Props.C09
import Mathlib.Tactic.Ring
import Mathlib.Tactic.Linarith
import Mathlib.Tactic.NormNum
import Mathlib.Tactic.FieldSimp
import Mathlib.Tactic.Positivity
/-!
# C10 — contact detection reports the true geometry of primitive pairs

Model: `Brax/Model/C10.lean` (`contact.get`: geom world pose, `link_idx`, elasticity; the external
`mjx.collision` is a parameter).  Spec: `Brax/Spec/C10.lean` (closed forms).

* Part 1 — brax's own code (all `collision` parameters, all scenes and link poses):
  `geom_world_pose*`, `link_idx_eq`, `get_rows`, `elasticity_*`.
* Part 2 — the closed forms are geometry: invariant under a common rigid motion
  (`*_rigid_invariant`, `dist_rigid_invariant`, `collide_rigid_invariant`), so evaluating them on
  link-composed poses is legitimate (`world_shape_eq_move`, `contact_frame_independent`);
  `sphere_sphere_symm`; and they are the true signed distances
  (`plane_sphere_dist_isLeast`, `sphere_sphere_dist_le`, `sphere_sphere_disjoint_iff`,
  `closestOnSeg_optimal`, `sphere_capsule_dist_le`, `plane_capsule_dist_le`,
  `segSegClosest_optimal`, `capsule_capsule_dist_le`, `*_gap`).

That `mjx.collision` returns these closed forms is **not** proved (external library): it enters
`get_reports_spec` as the hypothesis `hcol` and is sampled by the correspondence check.
-/
set_option linter.unusedSectionVars false
set_option linter.unusedSimpArgs false
set_option linter.unusedVariables false
namespace Brax.C10
open Brax Spec

/-! ## Part 1 — brax's own code -/
section model
variable {K : Type} [Field K]

/-- the geom pose handed to the collider is the composition *link pose ∘ local geom pose*
(`Transform.do`), the matrix being `quat_to_3x3` of the composed rotation -/
theorem geom_world_pose (x : List (Tf K)) (g : Geom K) :
    geomWorld x g
      = ((Tf.doTf (geomLink x g) ⟨g.pos, g.quat⟩).pos,
         quatTo3x3 (Tf.doTf (geomLink x g) ⟨g.pos, g.quat⟩).rot) := rfl

/-- a geom of body `b + 1` reads link `b` -/
theorem geomLink_link (x : List (Tf K)) (g : Geom K) {b : Nat} (h : g.bodyid = b + 1)
    (hb : b < x.length) : geomLink x g = x[b] := by
  have e : ((g.bodyid : Int) - 1) = (b : Int) := by rw [h]; push_cast; ring
  rw [geomLink, e, readIdx_append_nat _ _ hb]

/-- a geom of the world body (`bodyid = 0`) reads index `−1` = the appended identity -/
theorem geomLink_world (x : List (Tf K)) (g : Geom K) (h : g.bodyid = 0) :
    geomLink x g = Tf.id := by
  have e : ((g.bodyid : Int) - 1) = -1 := by rw [h]; norm_num
  rw [geomLink, e, readIdx_append_neg_one]

/-- `geom_xpos = x[link].pos + rotate(geom_pos, x[link].rot)`,
`geom_xmat = quat_to_3x3(x[link].rot · geom_quat)` with `link = bodyid − 1` -/
theorem geom_world_pose_link (x : List (Tf K)) (g : Geom K) {b : Nat} (h : g.bodyid = b + 1)
    (hb : b < x.length) :
    geomWorld x g = (x[b].pos + rotate g.pos x[b].rot, quatTo3x3 (quatMul x[b].rot g.quat)) := by
  rw [geomWorld, geomLink_link x g h hb]; rfl

/-- for the world body the geom pose is its local pose -/
theorem geom_world_pose_world (x : List (Tf K)) (g : Geom K) (h : g.bodyid = 0) :
    geomWorld x g = (g.pos, quatTo3x3 g.quat) := by
  rw [geomWorld, geomLink_world x g h]
  simp only [localToGlobal, Tf.id, rotate_one, one_quatMul, V3.zero_add']

/-- matrix form: `geom_xmat = mat(x.rot) · mat(geom_quat)` (C09 `quatTo3x3_quatMul`) -/
theorem geom_world_mat_mul (x : List (Tf K)) (g : Geom K)
    (hx : Q4.normSq (geomLink x g).rot ≠ 0) (hg : Q4.normSq g.quat ≠ 0) :
    (geomWorld x g).2 = M3.mul (quatTo3x3 (geomLink x g).rot) (quatTo3x3 g.quat) := by
  have := C09.quatTo3x3_quatMul (geomLink x g).rot g.quat hx hg
  simp only [C09.bridge_quatTo3x3, C09.bridge_quatMul] at this
  exact this

/-- a point `p` of the geom frame sits in the world where the link pose puts the body-frame point
`geom_pos + rotate(p, geom_quat)` (unit quaternions) -/
theorem geom_world_point (x : List (Tf K)) (g : Geom K) (hx : (geomLink x g).rot.IsUnit)
    (hg : g.quat.IsUnit) (p : V3 K) :
    (geomWorld x g).1 + M3.mulVec (geomWorld x g).2 p
      = mv (geomLink x g) (g.pos + rotate p g.quat) := by
  have hu : Q4.normSq (quatMul (geomLink x g).rot g.quat) = 1 := Q4.IsUnit.mul hx hg
  have h := C09.quatTo3x3_mulVec_unit (quatMul (geomLink x g).rot g.quat) hu p
  simp only [C09.bridge_quatTo3x3, C09.bridge_rotate] at h
  simp only [geomWorld, localToGlobal, mv]
  rw [h, rotate_quatMul, rotate_add]
  simp only [V3.add_def]; congr 1 <;> ring

/-- the axis the collider reads (third column of `geom_xmat`: plane normal, capsule axis) is the
geom's local z axis rotated by the geom and then by the link -/
theorem geom_world_axis (x : List (Tf K)) (g : Geom K) (hx : (geomLink x g).rot.IsUnit)
    (hg : g.quat.IsUnit) :
    (geomWorld x g).2.col2 = rotate (rotate ⟨0, 0, 1⟩ g.quat) (geomLink x g).rot := by
  have hu : Q4.normSq (quatMul (geomLink x g).rot g.quat) = 1 := Q4.IsUnit.mul hx hg
  have h := C09.quatTo3x3_mulVec_unit (quatMul (geomLink x g).rot g.quat) hu ⟨0, 0, 1⟩
  simp only [C09.bridge_quatTo3x3, C09.bridge_rotate] at h
  rw [← mulVec_ez, ← rotate_quatMul]
  exact h

/-- `linkOf` is `geom_bodyid − 1` -/
theorem linkOf_eq (sc : Scene K) {g : Nat} (hg : g < sc.geoms.length) :
    linkOf sc g = (sc.geoms[g].bodyid : Int) - 1 := by
  have h' : g < (sc.geoms.map (·.bodyid)).length := by simpa using hg
  simp only [linkOf, readIdx_nat _ _ h', List.getElem_map]

/-- geoms of the world body are attributed to link `−1` -/
theorem linkOf_world (sc : Scene K) {g : Nat} (hg : g < sc.geoms.length)
    (h : sc.geoms[g].bodyid = 0) : linkOf sc g = -1 := by
  rw [linkOf_eq sc hg, h]; norm_num

/-- geoms of body `b + 1` are attributed to link `b` -/
theorem linkOf_link (sc : Scene K) {g b : Nat} (hg : g < sc.geoms.length)
    (h : sc.geoms[g].bodyid = b + 1) : linkOf sc g = b := by
  rw [linkOf_eq sc hg, h]; push_cast; ring

end model

section get
variable {K : Type} [Field K] [CharZero K]

/-- `contact.get` passes the collider's rows through unchanged, in order, after handing it the
geom world poses; no contact ⇒ `None` -/
theorem get_rows (sc : Scene K) (x : List (Tf K))
    (collision : List (V3 K × M3 K) → List (MjxRow K)) (cs : List (Contact K))
    (h : get sc x collision = some cs) :
    cs.map (·.row) = collision (sc.geoms.map (geomWorld x)) ∧ cs ≠ [] := by
  simp only [get] at h
  split_ifs at h with he
  simp only [Option.some.injEq] at h
  subst h
  constructor
  · simp [List.map_map, Function.comp_def]
  · intro hc
    simp only [List.map_eq_nil_iff] at hc
    simp [hc] at he

theorem get_none_iff (sc : Scene K) (x : List (Tf K))
    (collision : List (V3 K × M3 K) → List (MjxRow K)) :
    get sc x collision = none ↔ collision (sc.geoms.map (geomWorld x)) = [] := by
  simp only [get]
  split_ifs with he
  · simp only [true_iff]; simpa using he
  · simp only [reduceCtorEq, false_iff]; simpa using he

/-- every reported contact is attributed to the links owning its two geoms and carries the
pair's elasticity -/
theorem link_idx_eq (sc : Scene K) (x : List (Tf K))
    (collision : List (V3 K × M3 K) → List (MjxRow K)) (cs : List (Contact K))
    (h : get sc x collision = some cs) :
    ∀ c ∈ cs, c.link1 = linkOf sc c.row.geom1 ∧ c.link2 = linkOf sc c.row.geom2
      ∧ c.elasticity = pairElasticity sc c.row.geom1 c.row.geom2 := by
  simp only [get] at h
  split_ifs at h with he
  simp only [Option.some.injEq] at h
  subst h
  intro c hc
  simp only [List.mem_map] at hc
  obtain ⟨r, _, rfl⟩ := hc
  exact ⟨rfl, rfl, rfl⟩

/-- elasticity is the arithmetic mean of the two geoms' elasticities -/
theorem elasticity_mean (sc : Scene K) {g1 g2 : Nat} (h1 : g1 < sc.elasticity.length)
    (h2 : g2 < sc.elasticity.length) :
    pairElasticity sc g1 g2 = (sc.elasticity[g1] + sc.elasticity[g2]) / 2 := by
  simp only [pairElasticity, readIdx_nat _ _ h1, readIdx_nat _ _ h2]
  norm_num
  ring

/-- … and symmetric in the pair -/
theorem elasticity_symm (sc : Scene K) (g1 g2 : Nat) :
    pairElasticity sc g1 g2 = pairElasticity sc g2 g1 := by
  simp only [pairElasticity]; ring

end get

/-! ## Part 2 — the closed forms are geometry -/

/-! ### invariance under a common rigid motion -/
section invariance
variable (g : Tf ℝ) (hu : g.rot.IsUnit)
include hu

/-- sphere–plane: moving plane and sphere by the same rigid motion keeps the distance, moves the
contact point and rotates the normal -/
theorem sphere_plane_frame_invariant (p n c : V3 ℝ) (r : ℝ) :
    planeSphere (mv g p) (rotate n g.rot) (mv g c) r = Cand.move g (planeSphere p n c r) := by
  simp only [planeSphere, Cand.move]
  rw [mv_sub, rotate_dot_unit _ _ hu, ← rotate_smul, mv_sub_vec]
  rfl

/-- capsule–plane: both end-sphere candidates, in the same order -/
theorem capsule_plane_rigid_invariant (p n c a : V3 ℝ) (h r : ℝ) :
    planeCapsule (mv g p) (rotate n g.rot) (mv g c) (rotate a g.rot) h r
      = (planeCapsule p n c a h r).map (Cand.move g) := by
  simp only [planeCapsule, List.map_cons, List.map_nil]
  rw [← rotate_smul, mv_add_vec, mv_sub_vec, sphere_plane_frame_invariant g hu,
    sphere_plane_frame_invariant g hu]

/-- sphere–sphere distance: invariant for all centres (also coincident ones) -/
theorem sphere_sphere_dist_rigid_invariant (c1 : V3 ℝ) (r1 : ℝ) (c2 : V3 ℝ) (r2 : ℝ) :
    (sphereSphere (mv g c1) r1 (mv g c2) r2).dist = (sphereSphere c1 r1 c2 r2).dist := by
  simp only [sphereSphere]
  rw [mv_sub, norm3_rotate _ hu]

/-- sphere–sphere with distinct centres: distance, contact point and normal -/
theorem sphere_sphere_rigid_invariant (c1 : V3 ℝ) (r1 : ℝ) (c2 : V3 ℝ) (r2 : ℝ) (hne : c1 ≠ c2) :
    sphereSphere (mv g c1) r1 (mv g c2) r2 = Cand.move g (sphereSphere c1 r1 c2 r2) := by
  have hd : c2 - c1 ≠ V3.zero := fun h => hne ((sub_eq_zero_iff _ _).mp h).symm
  simp only [sphereSphere, Cand.move]
  rw [mv_sub, norm3_rotate _ hu, unitOr_rotate hd hu, ← rotate_smul, mv_add_vec]
  rfl

/-- the clamped projection parameter on a segment is invariant … -/
theorem segParam_rigid_invariant (a b q : V3 ℝ) :
    segParam (mv g a) (mv g b) (mv g q) = segParam a b q := by
  simp only [segParam, mv_sub, rotate_dot_unit _ _ hu]

/-- … so the closest point moves with the segment -/
theorem closestOnSeg_rigid_invariant (a b q : V3 ℝ) :
    closestOnSeg (mv g a) (mv g b) (mv g q) = mv g (closestOnSeg a b q) := by
  simp only [closestOnSeg, segParam_rigid_invariant g hu]
  rw [mv_sub, ← rotate_smul, mv_add_vec]

theorem sphere_capsule_dist_rigid_invariant (c : V3 ℝ) (r : ℝ) (cc ca : V3 ℝ) (ch cr : ℝ) :
    (sphereCapsule (mv g c) r (mv g cc) (rotate ca g.rot) ch cr).dist
      = (sphereCapsule c r cc ca ch cr).dist := by
  simp only [sphereCapsule]
  rw [← rotate_smul, mv_sub_vec, mv_add_vec, closestOnSeg_rigid_invariant g hu,
    sphere_sphere_dist_rigid_invariant g hu]

/-- sphere–capsule (sphere centre off the capsule's segment) -/
theorem sphere_capsule_rigid_invariant (c : V3 ℝ) (r : ℝ) (cc ca : V3 ℝ) (ch cr : ℝ)
    (hne : c ≠ closestOnSeg (cc - V3.smul ch ca) (cc + V3.smul ch ca) c) :
    sphereCapsule (mv g c) r (mv g cc) (rotate ca g.rot) ch cr
      = Cand.move g (sphereCapsule c r cc ca ch cr) := by
  simp only [sphereCapsule]
  rw [← rotate_smul, mv_sub_vec, mv_add_vec, closestOnSeg_rigid_invariant g hu]
  exact sphere_sphere_rigid_invariant g hu _ _ _ _ hne

/-- the clamped closest-point parameters of two segments are invariant … -/
theorem segSegParams_rigid_invariant (p1 q1 p2 q2 : V3 ℝ) :
    segSegParams (mv g p1) (mv g q1) (mv g p2) (mv g q2) = segSegParams p1 q1 p2 q2 := by
  simp only [segSegParams, mv_sub, rotate_dot_unit _ _ hu]

/-- … so the closest points move with the segments -/
theorem segSegClosest_rigid_invariant (p1 q1 p2 q2 : V3 ℝ) :
    segSegClosest (mv g p1) (mv g q1) (mv g p2) (mv g q2)
      = (mv g (segSegClosest p1 q1 p2 q2).1, mv g (segSegClosest p1 q1 p2 q2).2) := by
  simp only [segSegClosest, segSegParams_rigid_invariant g hu]
  rw [mv_sub, mv_sub, ← rotate_smul, ← rotate_smul, mv_add_vec, mv_add_vec]

theorem capsule_capsule_dist_rigid_invariant (c1 a1 : V3 ℝ) (h1 r1 : ℝ) (c2 a2 : V3 ℝ) (h2 r2 : ℝ) :
    (capsuleCapsule (mv g c1) (rotate a1 g.rot) h1 r1 (mv g c2) (rotate a2 g.rot) h2 r2).dist
      = (capsuleCapsule c1 a1 h1 r1 c2 a2 h2 r2).dist := by
  simp only [capsuleCapsule]
  rw [← rotate_smul, ← rotate_smul, mv_sub_vec, mv_add_vec, mv_sub_vec, mv_add_vec,
    segSegClosest_rigid_invariant g hu]
  exact sphere_sphere_dist_rigid_invariant g hu _ _ _ _

/-- capsule–capsule (closest points of the two segments distinct) -/
theorem capsule_capsule_rigid_invariant (c1 a1 : V3 ℝ) (h1 r1 : ℝ) (c2 a2 : V3 ℝ) (h2 r2 : ℝ)
    (hne : (segSegClosest (c1 - V3.smul h1 a1) (c1 + V3.smul h1 a1) (c2 - V3.smul h2 a2)
              (c2 + V3.smul h2 a2)).1
         ≠ (segSegClosest (c1 - V3.smul h1 a1) (c1 + V3.smul h1 a1) (c2 - V3.smul h2 a2)
              (c2 + V3.smul h2 a2)).2) :
    capsuleCapsule (mv g c1) (rotate a1 g.rot) h1 r1 (mv g c2) (rotate a2 g.rot) h2 r2
      = Cand.move g (capsuleCapsule c1 a1 h1 r1 c2 a2 h2 r2) := by
  simp only [capsuleCapsule]
  rw [← rotate_smul, ← rotate_smul, mv_sub_vec, mv_add_vec, mv_sub_vec, mv_add_vec,
    segSegClosest_rigid_invariant g hu]
  exact sphere_sphere_rigid_invariant g hu _ _ _ _ hne

end invariance

/-- the pair is in general position: the two closest centres are distinct, so a normal exists
(always true for pairs with a plane) -/
def Generic : Shape ℝ → Shape ℝ → Prop
  | .sphere c1 _, .sphere c2 _ => c1 ≠ c2
  | .sphere c _, .capsule cc ca ch _ =>
      c ≠ closestOnSeg (cc - V3.smul ch ca) (cc + V3.smul ch ca) c
  | .capsule c1 a1 h1 _, .capsule c2 a2 h2 _ =>
      (segSegClosest (c1 - V3.smul h1 a1) (c1 + V3.smul h1 a1) (c2 - V3.smul h2 a2)
          (c2 + V3.smul h2 a2)).1
        ≠ (segSegClosest (c1 - V3.smul h1 a1) (c1 + V3.smul h1 a1) (c2 - V3.smul h2 a2)
          (c2 + V3.smul h2 a2)).2
  | _, _ => True

/-- **every closed-form distance is invariant under a common rigid motion** (unit quaternion `g.rot`,
translation `g.pos`, applied to all centres, axes and normals): all pair kinds, all
configurations, candidates in the same order -/
theorem dist_rigid_invariant (g : Tf ℝ) (hu : g.rot.IsUnit) (s1 s2 : Shape ℝ) :
    (collide (s1.move g) (s2.move g)).map (·.dist) = (collide s1 s2).map (·.dist) := by
  cases s1 <;> cases s2 <;> simp only [Shape.move, collide, List.map_nil, List.map_cons, mv_def]
  · rw [sphere_plane_frame_invariant g hu]; rfl
  · rw [capsule_plane_rigid_invariant g hu]; simp [planeCapsule, Cand.move]
  · rw [sphere_sphere_dist_rigid_invariant g hu]
  · rw [sphere_capsule_dist_rigid_invariant g hu]
  · rw [capsule_capsule_dist_rigid_invariant g hu]

/-- in general position the whole candidate (distance, contact point, normal) is equivariant -/
theorem collide_rigid_invariant (g : Tf ℝ) (hu : g.rot.IsUnit) (s1 s2 : Shape ℝ)
    (hgen : Generic s1 s2) :
    collide (s1.move g) (s2.move g) = (collide s1 s2).map (Cand.move g) := by
  cases s1 <;> cases s2 <;> simp only [Shape.move, collide, List.map_nil, List.map_cons, mv_def]
  · rw [sphere_plane_frame_invariant g hu]
  · rw [capsule_plane_rigid_invariant g hu]
  · rw [sphere_sphere_rigid_invariant g hu _ _ _ _ hgen]
  · rw [sphere_capsule_rigid_invariant g hu _ _ _ _ _ _ hgen]
  · rw [capsule_capsule_rigid_invariant g hu _ _ _ _ _ _ _ _ hgen]


/-! ### the closed forms are the true signed distances -/
section meaning

theorem sphere_sphere_dist_symm (c1 : V3 ℝ) (r1 : ℝ) (c2 : V3 ℝ) (r2 : ℝ) :
    (sphereSphere c2 r2 c1 r1).dist = (sphereSphere c1 r1 c2 r2).dist := by
  simp only [sphereSphere]; rw [norm3_sub_comm]; ring

/-- swapping the two geoms negates the normal and keeps distance and contact point -/
theorem sphere_sphere_symm (c1 : V3 ℝ) (r1 : ℝ) (c2 : V3 ℝ) (r2 : ℝ) (hne : c1 ≠ c2) :
    (sphereSphere c2 r2 c1 r1).dist = (sphereSphere c1 r1 c2 r2).dist
    ∧ (sphereSphere c2 r2 c1 r1).n = -(sphereSphere c1 r1 c2 r2).n
    ∧ (sphereSphere c2 r2 c1 r1).pos = (sphereSphere c1 r1 c2 r2).pos := by
  have hd : c2 - c1 ≠ V3.zero := fun h => hne ((sub_eq_zero_iff _ _).mp h).symm
  have hneg : c1 - c2 = -(c2 - c1) := by
    simp only [V3.sub_def, V3.neg_def]; congr 1 <;> ring
  refine ⟨sphere_sphere_dist_symm c1 r1 c2 r2, ?_, ?_⟩
  · simp only [sphereSphere]; rw [hneg, unitOr_neg hd]
  · have hL := norm_smul_unitOr hd
    simp only [sphereSphere]
    rw [hneg, unitOr_neg hd, norm3_neg]
    generalize norm3 (c2 - c1) = L at hL ⊢
    generalize unitOr (c2 - c1) = n at hL ⊢
    simp only [V3.smul, V3.sub_def, V3.mk.injEq] at hL
    obtain ⟨hx, hy, hz⟩ := hL
    simp only [V3.smul, V3.add_def, V3.neg_def]
    congr 1
    · linear_combination -hx
    · linear_combination -hy
    · linear_combination -hz

/-- sphere–sphere: `dist` is the signed gap between the surface points `c₁ + r₁ n` and `c₂ − r₂ n`
along the normal, and `pos` is their midpoint -/
theorem sphere_sphere_gap (c1 : V3 ℝ) (r1 : ℝ) (c2 : V3 ℝ) (r2 : ℝ) (hne : c1 ≠ c2) :
    let k := sphereSphere c1 r1 c2 r2
    (c2 - V3.smul r2 k.n) - (c1 + V3.smul r1 k.n) = V3.smul k.dist k.n
    ∧ k.pos = V3.smul (1 / 2) ((c1 + V3.smul r1 k.n) + (c2 - V3.smul r2 k.n))
    ∧ norm3 k.n = 1 := by
  have hd : c2 - c1 ≠ V3.zero := fun h => hne ((sub_eq_zero_iff _ _).mp h).symm
  have hL := norm_smul_unitOr hd
  have hn1 := norm3_unitOr (c2 - c1)
  simp only [sphereSphere]
  generalize norm3 (c2 - c1) = L at hL ⊢
  generalize unitOr (c2 - c1) = n at hL hn1 ⊢
  simp only [V3.smul, V3.sub_def, V3.mk.injEq] at hL
  obtain ⟨hx, hy, hz⟩ := hL
  refine ⟨?_, ?_, hn1⟩
  · simp only [V3.smul, V3.add_def, V3.sub_def]
    congr 1
    · linear_combination -hx
    · linear_combination -hy
    · linear_combination -hz
  · simp only [V3.smul, V3.add_def, V3.sub_def]
    congr 1
    · linear_combination (1 / 2 : ℝ) * hx
    · linear_combination (1 / 2 : ℝ) * hy
    · linear_combination (1 / 2 : ℝ) * hz

/-- plane–sphere (unit plane normal): the foot `c − (r + dist) n` of the sphere's lowest point
`c − r n` lies on the plane, the two are `dist·n` apart, `pos` is their midpoint -/
theorem plane_sphere_gap (p n c : V3 ℝ) (r : ℝ) (hn : V3.dot n n = 1) :
    let k := planeSphere p n c r
    V3.dot n ((c - V3.smul (r + k.dist) n) - p) = 0
    ∧ (c - V3.smul r n) - (c - V3.smul (r + k.dist) n) = V3.smul k.dist n
    ∧ k.pos = V3.smul (1 / 2) ((c - V3.smul r n) + (c - V3.smul (r + k.dist) n))
    ∧ k.n = n := by
  simp only [planeSphere, V3.dot] at hn ⊢
  refine ⟨?_, ?_, ?_, trivial⟩
  · simp only [V3.smul, V3.sub_def]
    linear_combination (-(n.x * (c.x - p.x) + n.y * (c.y - p.y) + n.z * (c.z - p.z))) * hn
  · simp only [V3.smul, V3.sub_def]; congr 1 <;> ring
  · simp only [V3.smul, V3.sub_def, V3.add_def]; congr 1 <;> ring

/-- plane–sphere: `dist` is the least height `n·(q − p)` above the plane over the ball
`‖q − c‖ ≤ r` (unit normal, `r ≥ 0`) -/
theorem plane_sphere_dist_isLeast (p n c : V3 ℝ) (r : ℝ) (hn : V3.dot n n = 1) (hr : 0 ≤ r) :
    (∀ q, norm3 (q - c) ≤ r → (planeSphere p n c r).dist ≤ V3.dot n (q - p))
    ∧ ∃ q, norm3 (q - c) ≤ r ∧ V3.dot n (q - p) = (planeSphere p n c r).dist := by
  have hn1 : norm3 n = 1 := by rw [norm3_def, hn, Real.sqrt_one]
  constructor
  · intro q hq
    have e : V3.dot n (q - p) = V3.dot n (c - p) + V3.dot n (q - c) := by
      simp only [V3.dot, V3.sub_def]; ring
    have h1 := neg_norm_mul_le_dot n (q - c)
    rw [hn1, one_mul] at h1
    simp only [planeSphere]
    linarith
  · refine ⟨c - V3.smul r n, ?_, ?_⟩
    · have e : c - V3.smul r n - c = V3.smul (-r) n := by
        simp only [V3.smul, V3.sub_def]; congr 1 <;> ring
      rw [e, norm3_smul, hn1, abs_neg, abs_of_nonneg hr, mul_one]
    · simp only [planeSphere, V3.dot, V3.smul, V3.sub_def] at hn ⊢
      linear_combination (-r) * hn

/-- `dist > 0` ⇔ the ball and the plane's half space `n·(q − p) ≤ 0` are disjoint -/
theorem plane_sphere_disjoint_iff (p n c : V3 ℝ) (r : ℝ) (hn : V3.dot n n = 1) (hr : 0 ≤ r) :
    0 < (planeSphere p n c r).dist ↔ ∀ q, norm3 (q - c) ≤ r → 0 < V3.dot n (q - p) := by
  obtain ⟨hle, q0, hq0, he⟩ := plane_sphere_dist_isLeast p n c r hn hr
  constructor
  · intro h q hq; exact lt_of_lt_of_le h (hle q hq)
  · intro h; rw [← he]; exact h q0 hq0

/-- `dist ≥ 0` ⇔ no point of the ball is strictly below the plane -/
theorem plane_sphere_nonneg_iff (p n c : V3 ℝ) (r : ℝ) (hn : V3.dot n n = 1) (hr : 0 ≤ r) :
    0 ≤ (planeSphere p n c r).dist ↔ ∀ q, norm3 (q - c) ≤ r → 0 ≤ V3.dot n (q - p) := by
  obtain ⟨hle, q0, hq0, he⟩ := plane_sphere_dist_isLeast p n c r hn hr
  constructor
  · intro h q hq; exact le_trans h (hle q hq)
  · intro h; rw [← he]; exact h q0 hq0

/-- sphere–sphere: `dist` bounds the distance of any two points of the two balls from below … -/
theorem sphere_sphere_dist_le (c1 : V3 ℝ) (r1 : ℝ) (c2 : V3 ℝ) (r2 : ℝ) (q1 q2 : V3 ℝ)
    (h1 : norm3 (q1 - c1) ≤ r1) (h2 : norm3 (q2 - c2) ≤ r2) :
    (sphereSphere c1 r1 c2 r2).dist ≤ norm3 (q2 - q1) := by
  have t1 := norm3_sub_le c2 q2 c1
  have t2 := norm3_sub_le q2 q1 c1
  rw [norm3_sub_comm c2 q2] at t1
  simp only [sphereSphere]
  linarith

/-- … and `dist > 0` ⇔ the two balls have no common point (`r₁, r₂ ≥ 0`) -/
theorem sphere_sphere_disjoint_iff (c1 : V3 ℝ) (r1 : ℝ) (c2 : V3 ℝ) (r2 : ℝ) (hr1 : 0 ≤ r1)
    (hr2 : 0 ≤ r2) :
    0 < (sphereSphere c1 r1 c2 r2).dist ↔ ¬ ∃ q, norm3 (q - c1) ≤ r1 ∧ norm3 (q - c2) ≤ r2 := by
  constructor
  · rintro h ⟨q, h1, h2⟩
    have := sphere_sphere_dist_le c1 r1 c2 r2 q q h1 h2
    have z : norm3 (q - q) = 0 := by
      rw [norm3_eq_zero_iff]; exact (sub_eq_zero_iff _ _).mpr rfl
    linarith
  · intro h
    by_contra hc
    apply h
    have hL : norm3 (c2 - c1) ≤ r1 + r2 := by
      simp only [sphereSphere, not_lt] at hc; linarith
    rcases (add_nonneg hr1 hr2).lt_or_eq with hpos | hzero
    · -- the point dividing the centre segment in the ratio r₁ : r₂
      refine ⟨c1 + V3.smul (r1 / (r1 + r2)) (c2 - c1), ?_, ?_⟩
      · have e : c1 + V3.smul (r1 / (r1 + r2)) (c2 - c1) - c1 = V3.smul (r1 / (r1 + r2)) (c2 - c1) := by
          simp only [V3.smul, V3.add_def, V3.sub_def]; congr 1 <;> ring
        rw [e, norm3_smul, abs_of_nonneg (by positivity)]
        have := norm3_nonneg (c2 - c1)
        rw [div_mul_eq_mul_div, div_le_iff₀ hpos]
        nlinarith
      · have e : c1 + V3.smul (r1 / (r1 + r2)) (c2 - c1) - c2 = V3.smul (-(r2 / (r1 + r2))) (c2 - c1) := by
          simp only [V3.smul, V3.add_def, V3.sub_def]; congr 1 <;> field_simp <;> ring
        rw [e, norm3_smul, abs_neg, abs_of_nonneg (by positivity)]
        have := norm3_nonneg (c2 - c1)
        rw [div_mul_eq_mul_div, div_le_iff₀ hpos]
        nlinarith
    · -- both radii are zero: the centres coincide
      have h1 : r1 = 0 := by linarith
      have h2 : r2 = 0 := by linarith
      have hz : norm3 (c2 - c1) = 0 := le_antisymm (by linarith) (norm3_nonneg _)
      refine ⟨c1, ?_, ?_⟩
      · have z : norm3 (c1 - c1) = 0 := by
          rw [norm3_eq_zero_iff]; exact (sub_eq_zero_iff _ _).mpr rfl
        rw [z, h1]
      · rw [norm3_sub_comm, hz, h2]

/-- the clamped parameter lies in `[0, 1]`: the closest point is a point of the segment -/
theorem segParam_mem (a b q : V3 ℝ) : 0 ≤ segParam a b q ∧ segParam a b q ≤ 1 := by
  simp only [segParam, clip_eq]
  exact ⟨le_min (le_max_right _ _) zero_le_one, min_le_right _ _⟩

/-- the clamped projection is the point of the segment `a…b` nearest to `q` -/
theorem closestOnSeg_optimal (a b q : V3 ℝ) (hab : a ≠ b) (s : ℝ) (hs0 : 0 ≤ s) (hs1 : s ≤ 1) :
    norm3 (q - closestOnSeg a b q) ≤ norm3 (q - (a + V3.smul s (b - a))) := by
  have hA : 0 < V3.dot (b - a) (b - a) := by
    have := norm3_pos_of_ne hab
    rw [← norm3_mul_self]; positivity
  have key : ∀ t : ℝ, V3.dot (q - (a + V3.smul t (b - a))) (q - (a + V3.smul t (b - a)))
      = V3.dot (q - a) (q - a) - 2 * t * V3.dot (q - a) (b - a) + t ^ 2 * V3.dot (b - a) (b - a) := by
    intro t; simp only [V3.dot, V3.smul, V3.add_def, V3.sub_def]; ring
  rw [norm3_def, norm3_def]
  apply Real.sqrt_le_sqrt
  simp only [closestOnSeg]
  rw [key, key]
  simp only [segParam, clip_eq]
  set A := V3.dot (b - a) (b - a) with hAdef
  set W := V3.dot (q - a) (b - a) with hW
  set u := W / A with hu
  have hWu : W = u * A := by rw [hu]; field_simp
  rw [hWu]
  rcases le_total u 0 with h0 | h0
  · rw [max_eq_right h0, min_eq_left zero_le_one]
    nlinarith [mul_nonneg hs0 (le_of_lt hA), mul_nonneg (mul_nonneg hs0 (neg_nonneg.mpr h0)) (le_of_lt hA)]
  · rw [max_eq_left h0]
    rcases le_total u 1 with h1 | h1
    · rw [min_eq_left h1]
      nlinarith [mul_nonneg (sq_nonneg (s - u)) (le_of_lt hA)]
    · rw [min_eq_right h1]
      have e : (1 - s) * (2 * u - s - 1) * A ≥ 0 :=
        mul_nonneg (mul_nonneg (by linarith) (by linarith)) (le_of_lt hA)
      nlinarith

/-- sphere–capsule: the reported distance is the least sphere–ball distance over all balls of the
capsule (centres `y` on its axis segment); it is attained at a point of the segment -/
theorem sphere_capsule_dist_le (c : V3 ℝ) (r : ℝ) (cc ca : V3 ℝ) (ch cr : ℝ)
    (hab : cc - V3.smul ch ca ≠ cc + V3.smul ch ca) (s : ℝ) (hs0 : 0 ≤ s) (hs1 : s ≤ 1) :
    (sphereCapsule c r cc ca ch cr).dist
      ≤ (sphereSphere c r ((cc - V3.smul ch ca)
            + V3.smul s ((cc + V3.smul ch ca) - (cc - V3.smul ch ca))) cr).dist := by
  have := closestOnSeg_optimal _ _ c hab s hs0 hs1
  simp only [sphereCapsule, sphereSphere]
  rw [norm3_sub_comm _ c, norm3_sub_comm _ c]
  linarith

theorem sphere_capsule_attained (c : V3 ℝ) (r : ℝ) (cc ca : V3 ℝ) (ch cr : ℝ) :
    ∃ t, 0 ≤ t ∧ t ≤ 1 ∧ sphereCapsule c r cc ca ch cr
      = sphereSphere c r ((cc - V3.smul ch ca)
            + V3.smul t ((cc + V3.smul ch ca) - (cc - V3.smul ch ca))) cr :=
  ⟨_, (segParam_mem _ _ c).1, (segParam_mem _ _ c).2, rfl⟩

/-- plane–capsule: every ball of the capsule (centre `c + s·h·a`, `−1 ≤ s ≤ 1`) is at least as far
from the plane as the nearer of the two reported end spheres -/
theorem plane_capsule_dist_le (p n c a : V3 ℝ) (h r : ℝ) (s : ℝ) (hs0 : -1 ≤ s) (hs1 : s ≤ 1) :
    min (planeSphere p n (c + V3.smul h a) r).dist (planeSphere p n (c - V3.smul h a) r).dist
      ≤ (planeSphere p n (c + V3.smul (s * h) a) r).dist := by
  have e : ∀ t : ℝ, (planeSphere p n (c + V3.smul (t * h) a) r).dist
      = V3.dot n (c - p) + t * (h * V3.dot n a) - r := by
    intro t; simp only [planeSphere, V3.dot, V3.smul, V3.add_def, V3.sub_def]; ring
  have e1 : (planeSphere p n (c + V3.smul h a) r).dist = V3.dot n (c - p) + (h * V3.dot n a) - r := by
    have := e 1; rw [one_mul, one_mul] at this; exact this
  have e2 : (planeSphere p n (c - V3.smul h a) r).dist = V3.dot n (c - p) - (h * V3.dot n a) - r := by
    simp only [planeSphere, V3.dot, V3.smul, V3.sub_def]; ring
  rw [e s, e1, e2]
  rcases le_total 0 (h * V3.dot n a) with hk | hk
  · apply le_trans (min_le_right _ _); nlinarith
  · apply le_trans (min_le_left _ _); nlinarith

/-- the clamped closest-point parameters lie in `[0,1]`: both points are on their segments -/
theorem segSegParams_mem (p1 q1 p2 q2 : V3 ℝ) :
    (0 ≤ (segSegParams p1 q1 p2 q2).1 ∧ (segSegParams p1 q1 p2 q2).1 ≤ 1)
    ∧ (0 ≤ (segSegParams p1 q1 p2 q2).2 ∧ (segSegParams p1 q1 p2 q2).2 ≤ 1) := by
  rw [segSegParams_eq_ssp]; exact ssp_mem _ _ _ _ _

/-- **the two reported points are a closest pair of the two segments** (non-degenerate segments) -/
theorem segSegClosest_optimal (p1 q1 p2 q2 : V3 ℝ) (h1 : p1 ≠ q1) (h2 : p2 ≠ q2) (s t : ℝ)
    (hs0 : 0 ≤ s) (hs1 : s ≤ 1) (ht0 : 0 ≤ t) (ht1 : t ≤ 1) :
    norm3 ((segSegClosest p1 q1 p2 q2).1 - (segSegClosest p1 q1 p2 q2).2)
      ≤ norm3 ((p1 + V3.smul s (q1 - p1)) - (p2 + V3.smul t (q2 - p2))) := by
  have ha : 0 < V3.dot (q1 - p1) (q1 - p1) := by
    have := norm3_pos_of_ne h1; rw [← norm3_mul_self]; positivity
  have he : 0 < V3.dot (q2 - p2) (q2 - p2) := by
    have := norm3_pos_of_ne h2; rw [← norm3_mul_self]; positivity
  have key : ∀ s t : ℝ, V3.dot ((p1 + V3.smul s (q1 - p1)) - (p2 + V3.smul t (q2 - p2)))
        ((p1 + V3.smul s (q1 - p1)) - (p2 + V3.smul t (q2 - p2)))
      = V3.dot (p1 - p2) (p1 - p2)
        + F (V3.dot (q1 - p1) (q1 - p1)) (V3.dot (q1 - p1) (q2 - p2)) (V3.dot (q1 - p1) (p1 - p2))
            (V3.dot (q2 - p2) (q2 - p2)) (V3.dot (q2 - p2) (p1 - p2)) s t := by
    intro s t; simp only [F, V3.dot, V3.smul, V3.add_def, V3.sub_def]; ring
  have hopt := ssp_optimal _ _ (V3.dot (q1 - p1) (p1 - p2)) _ (V3.dot (q2 - p2) (p1 - p2)) ha he
    (dot_sq_le (q1 - p1) (q2 - p2)) (dot_parallel (q1 - p1) (q2 - p2) (p1 - p2)) s t hs0 hs1 ht0 ht1
  rw [norm3_def, norm3_def]
  apply Real.sqrt_le_sqrt
  simp only [segSegClosest]
  rw [key, key, segSegParams_eq_ssp]
  linarith

/-- capsule–capsule: the reported distance is the least ball–ball distance over all pairs of
balls of the two capsules -/
theorem capsule_capsule_dist_le (c1 a1 : V3 ℝ) (h1 r1 : ℝ) (c2 a2 : V3 ℝ) (h2 r2 : ℝ)
    (hs1 : c1 - V3.smul h1 a1 ≠ c1 + V3.smul h1 a1) (hs2 : c2 - V3.smul h2 a2 ≠ c2 + V3.smul h2 a2)
    (s t : ℝ) (hs0 : 0 ≤ s) (hs1' : s ≤ 1) (ht0 : 0 ≤ t) (ht1 : t ≤ 1) :
    (capsuleCapsule c1 a1 h1 r1 c2 a2 h2 r2).dist
      ≤ (sphereSphere ((c1 - V3.smul h1 a1) + V3.smul s ((c1 + V3.smul h1 a1) - (c1 - V3.smul h1 a1))) r1
          ((c2 - V3.smul h2 a2) + V3.smul t ((c2 + V3.smul h2 a2) - (c2 - V3.smul h2 a2))) r2).dist := by
  have := segSegClosest_optimal _ _ _ _ hs1 hs2 s t hs0 hs1' ht0 ht1
  simp only [capsuleCapsule, sphereSphere]
  rw [norm3_sub_comm _ (segSegClosest _ _ _ _).1, norm3_sub_comm
    ((c2 - V3.smul h2 a2) + V3.smul t ((c2 + V3.smul h2 a2) - (c2 - V3.smul h2 a2)))]
  linarith

end meaning


/-! ### composing with link poses is legitimate -/
section frames

/-- third column of a unit quaternion's matrix = its rotated z axis -/
theorem quatTo3x3_col2 (q : Q4 ℝ) (hq : q.IsUnit) : (quatTo3x3 q).col2 = rotate ⟨0, 0, 1⟩ q := by
  have h := C09.quatTo3x3_mulVec_unit q hq ⟨0, 0, 1⟩
  simp only [C09.bridge_quatTo3x3, C09.bridge_rotate] at h
  rw [← mulVec_ez]; exact h

theorem shape_move_doTf (h t : Tf ℝ) (s : Shape ℝ) :
    Shape.move (Tf.doTf h t) s = Shape.move h (Shape.move t s) := by
  cases s <;> simp only [Shape.move, mv_def, mv_doTf] <;> simp only [Tf.doTf, rotate_quatMul]

theorem shape_move_id (s : Shape ℝ) : Shape.move (Tf.id : Tf ℝ) s = s := by
  cases s <;> simp only [Shape.move, mv_def, mv_id] <;> simp only [Tf.id, rotate_one]

/-- the world shape the collider sees is the geom's **local shape moved by its link pose**
(plane normal / capsule axis included) — so by `dist_rigid_invariant` nothing depends on the
frame in which the pair is described -/
theorem world_shape_eq_move (x : List (Tf ℝ)) (g : Geom ℝ) (hx : (geomLink x g).rot.IsUnit)
    (hg : g.quat.IsUnit) :
    toShape g.typ g.size (geomWorld x g).1 (geomWorld x g).2
      = (toShape g.typ g.size g.pos (quatTo3x3 g.quat)).map (Shape.move (geomLink x g)) := by
  have hax := geom_world_axis x g hx hg
  have hpos : (geomWorld x g).1 = (geomLink x g).pos + rotate g.pos (geomLink x g).rot := rfl
  unfold toShape
  split <;> simp only [Option.map_some, Option.map_none, Shape.move, hax, hpos, quatTo3x3_col2 _ hg]

/-- geoms of the world body: the world shape is the local shape -/
theorem world_shape_world (x : List (Tf ℝ)) (g : Geom ℝ) (h : g.bodyid = 0) :
    toShape g.typ g.size (geomWorld x g).1 (geomWorld x g).2
      = toShape g.typ g.size g.pos (quatTo3x3 g.quat) := by
  rw [geom_world_pose_world x g h]

/-- moving every link by a common rigid motion `h` moves the world shape of every link-attached
geom by `h` -/
theorem world_shape_common_motion (h : Tf ℝ) (hh : h.rot.IsUnit) (x : List (Tf ℝ)) (g : Geom ℝ)
    {b : Nat} (hb : g.bodyid = b + 1) (hbl : b < x.length) (hx : x[b].rot.IsUnit)
    (hg : g.quat.IsUnit) :
    toShape g.typ g.size (geomWorld (x.map (Tf.doTf h)) g).1 (geomWorld (x.map (Tf.doTf h)) g).2
      = (toShape g.typ g.size (geomWorld x g).1 (geomWorld x g).2).map (Shape.move h) := by
  have hbl' : b < (x.map (Tf.doTf h)).length := by simpa using hbl
  have l1 : geomLink x g = x[b] := geomLink_link x g hb hbl
  have l2 : geomLink (x.map (Tf.doTf h)) g = Tf.doTf h x[b] := by
    rw [geomLink_link _ g hb hbl', List.getElem_map]
  have hu2 : (geomLink (x.map (Tf.doTf h)) g).rot.IsUnit := by
    rw [l2]; exact Q4.IsUnit.mul hh hx
  rw [world_shape_eq_move _ g hu2 hg, world_shape_eq_move x g (by rw [l1]; exact hx) hg, l1, l2]
  cases toShape g.typ g.size g.pos (quatTo3x3 g.quat) with
  | none => rfl
  | some s => simp only [Option.map_some, shape_move_doTf]

/-- closed-form distances of a geom pair evaluated on the poses `contact.get` hands to the
collider -/
noncomputable def specDists (x : List (Tf ℝ)) (g1 g2 : Geom ℝ) : Option (List ℝ) :=
  match toShape g1.typ g1.size (geomWorld x g1).1 (geomWorld x g1).2,
        toShape g2.typ g2.size (geomWorld x g2).1 (geomWorld x g2).2 with
  | some s1, some s2 => some ((collide s1 s2).map (·.dist))
  | _, _ => none

/-- **frame independence of the reported distances**: composing all link poses with a common rigid
motion leaves every candidate distance of two link-attached geoms unchanged -/
theorem contact_frame_independent (h : Tf ℝ) (hh : h.rot.IsUnit) (x : List (Tf ℝ))
    (g1 g2 : Geom ℝ) {b1 b2 : Nat} (hb1 : g1.bodyid = b1 + 1) (hb2 : g2.bodyid = b2 + 1)
    (hl1 : b1 < x.length) (hl2 : b2 < x.length) (hx1 : x[b1].rot.IsUnit) (hx2 : x[b2].rot.IsUnit)
    (hg1 : g1.quat.IsUnit) (hg2 : g2.quat.IsUnit) :
    specDists (x.map (Tf.doTf h)) g1 g2 = specDists x g1 g2 := by
  unfold specDists
  rw [world_shape_common_motion h hh x g1 hb1 hl1 hx1 hg1,
    world_shape_common_motion h hh x g2 hb2 hl2 hx2 hg2]
  cases toShape g1.typ g1.size (geomWorld x g1).1 (geomWorld x g1).2 <;>
    cases toShape g2.typ g2.size (geomWorld x g2).1 (geomWorld x g2).2 <;>
    simp only [Option.map_some, Option.map_none, dist_rigid_invariant h hh]

end frames

/-! ### what `contact.get` reports, given that the external collider returns the closed forms -/
section report

/-- the row `r` carries a closed-form candidate of the pair `(geom1, geom2)` evaluated on the
world shapes of the two geoms -/
def RowIsSpec (sc : Scene ℝ) (x : List (Tf ℝ)) (r : MjxRow ℝ) : Prop :=
  ∃ (h1 : r.geom1 < sc.geoms.length) (h2 : r.geom2 < sc.geoms.length) (s1 s2 : Shape ℝ)
    (k : Cand ℝ),
    toShape sc.geoms[r.geom1].typ sc.geoms[r.geom1].size (geomWorld x sc.geoms[r.geom1]).1
        (geomWorld x sc.geoms[r.geom1]).2 = some s1
    ∧ toShape sc.geoms[r.geom2].typ sc.geoms[r.geom2].size (geomWorld x sc.geoms[r.geom2]).1
        (geomWorld x sc.geoms[r.geom2]).2 = some s2
    ∧ k ∈ collide s1 s2 ∧ r.dist = k.dist ∧ r.pos = k.pos ∧ r.normal = k.n

/-- Under the (unverified, sampled) hypothesis `hcol` that `mjx.collision` returns closed-form
candidates for the poses it is given, every contact of `contact.get` reports the closed-form
distance/point/normal of its pair **on the link-composed shapes**, is attributed to the owner
links (`bodyid − 1`, world = −1) and carries the mean elasticity. -/
theorem get_reports_spec (sc : Scene ℝ) (x : List (Tf ℝ))
    (collision : List (V3 ℝ × M3 ℝ) → List (MjxRow ℝ)) (cs : List (Contact ℝ))
    (hget : get sc x collision = some cs)
    (hcol : ∀ r ∈ collision (sc.geoms.map (geomWorld x)), RowIsSpec sc x r)
    (hel : sc.elasticity.length = sc.geoms.length) :
    ∀ c ∈ cs, ∃ (h1 : c.row.geom1 < sc.geoms.length) (h2 : c.row.geom2 < sc.geoms.length),
      RowIsSpec sc x c.row
      ∧ c.link1 = (sc.geoms[c.row.geom1].bodyid : Int) - 1
      ∧ c.link2 = (sc.geoms[c.row.geom2].bodyid : Int) - 1
      ∧ c.elasticity = (sc.elasticity[c.row.geom1]'(hel ▸ h1) + sc.elasticity[c.row.geom2]'(hel ▸ h2)) / 2 := by
  intro c hc
  obtain ⟨hrows, _⟩ := get_rows sc x collision cs hget
  have hmem : c.row ∈ collision (sc.geoms.map (geomWorld x)) := by
    rw [← hrows]; exact List.mem_map_of_mem hc
  have hspec := hcol c.row hmem
  obtain ⟨h1, h2, _⟩ := hspec
  obtain ⟨hl1, hl2, he⟩ := link_idx_eq sc x collision cs hget c hc
  refine ⟨h1, h2, hcol c.row hmem, ?_, ?_, ?_⟩
  · rw [hl1, linkOf_eq sc h1]
  · rw [hl2, linkOf_eq sc h2]
  · rw [he, elasticity_mean sc (hel ▸ h1) (hel ▸ h2)]

end report


/-! ## non-vacuity -/
section examples

/-- a unit quaternion (rotation about x by 2·atan(4/3)) with a translation -/
noncomputable def gEx : Tf ℝ := ⟨⟨1, 2, 3⟩, ⟨3 / 5, 4 / 5, 0, 0⟩⟩

example : gEx.rot.IsUnit := by norm_num [gEx, Q4.IsUnit, Q4.normSq]

/-- distinct centres -/
example : (⟨0, 0, 0⟩ : V3 ℝ) ≠ ⟨3, 4, 0⟩ := by
  intro h; have := congrArg V3.x h; norm_num at this

/-- the closed form evaluates as expected: centres 5 apart, radii 1 and 2 ⇒ gap 2, normal (3,4,0)/5,
contact point at distance 1 + 2/2 from the first centre -/
example : sphereSphere (⟨0, 0, 0⟩ : V3 ℝ) 1 ⟨3, 4, 0⟩ 2 = ⟨2, ⟨6 / 5, 8 / 5, 0⟩, ⟨3 / 5, 4 / 5, 0⟩⟩ := by
  have h5 : Real.sqrt 25 = 5 := by
    rw [show (25 : ℝ) = 5 ^ 2 by norm_num]; exact Real.sqrt_sq (by norm_num)
  have hn : norm3 ((⟨3, 4, 0⟩ : V3 ℝ) - ⟨0, 0, 0⟩) = 5 := by
    rw [norm3_def]; norm_num [V3.dot, h5]
  have hz : eqZero (5 : ℝ) = false := by
    rw [Bool.eq_false_iff]; intro hc; rw [eqZero_iff] at hc; norm_num at hc
  simp only [sphereSphere, unitOr, hn, hz]
  norm_num [V3.smul]

/-- a penetrating sphere on a plane: depth 0.3 -/
example : (planeSphere (⟨0, 0, 0⟩ : V3 ℝ) ⟨0, 0, 1⟩ ⟨1, 2, 1 / 5⟩ (1 / 2)).dist = -3 / 10 := by
  norm_num [planeSphere, V3.dot]

/-- sphere–capsule in general position (`Generic` holds): sphere above the middle of the axis -/
example : Generic (.sphere (⟨0, 0, 1⟩ : V3 ℝ) (1 / 4)) (.capsule ⟨0, 0, 0⟩ ⟨1, 0, 0⟩ 1 (1 / 4)) := by
  have hp : segParam ((⟨0, 0, 0⟩ : V3 ℝ) - V3.smul 1 ⟨1, 0, 0⟩) (⟨0, 0, 0⟩ + V3.smul 1 ⟨1, 0, 0⟩)
      ⟨0, 0, 1⟩ = 1 / 2 := by
    simp only [segParam, clip_eq]
    norm_num [V3.dot, V3.smul]
  simp only [Generic, closestOnSeg, hp]
  intro h; have := congrArg V3.z h; norm_num [V3.smul] at this

/-- `geom_world_pose_link` / `geomLink_world` hypotheses are met by a two-link scene -/
example : ∃ (x : List (Tf ℝ)) (g : Geom ℝ) (b : Nat), g.bodyid = b + 1 ∧ b < x.length
    ∧ (geomLink x g).rot.IsUnit ∧ g.quat.IsUnit :=
  ⟨[Tf.id, gEx], ⟨2, 3, ⟨1 / 10, 1 / 5, 0⟩, ⟨0, 0, 1⟩, ⟨0, 3 / 5, 0, 4 / 5⟩⟩, 1, rfl, by decide,
    by rw [geomLink_link _ _ (b := 1) rfl (by decide)]; norm_num [gEx, Q4.IsUnit, Q4.normSq],
    by norm_num [Q4.IsUnit, Q4.normSq]⟩

/-- a scene (plane on the world body, sphere on link 0) and a collider returning the closed form:
all hypotheses of `get_reports_spec` hold, and `get` returns a contact -/
noncomputable def scEx : Scene ℝ :=
  ⟨[⟨0, 0, ⟨40, 40, 40⟩, ⟨0, 0, 0⟩, ⟨1, 0, 0, 0⟩⟩, ⟨1, 2, ⟨1 / 2, 0, 0⟩, ⟨0, 0, 1 / 10⟩, ⟨1, 0, 0, 0⟩⟩],
   [1 / 5, 2 / 5]⟩
noncomputable def xEx : List (Tf ℝ) := [gEx]
noncomputable def colEx (w : List (V3 ℝ × M3 ℝ)) : List (MjxRow ℝ) :=
  match w with
  | [w0, w1] => let k := planeSphere w0.1 w0.2.col2 w1.1 (1 / 2); [⟨0, 1, k.dist, k.pos, k.n⟩]
  | _ => []

example : ∃ cs, get scEx xEx colEx = some cs ∧ cs.length = 1
    ∧ (∀ r ∈ colEx (scEx.geoms.map (geomWorld xEx)), RowIsSpec scEx xEx r)
    ∧ scEx.elasticity.length = scEx.geoms.length := by
  refine ⟨_, rfl, rfl, ?_, rfl⟩
  intro r hr
  simp only [scEx, colEx, List.map_cons, List.map_nil, List.mem_singleton] at hr
  subst hr
  refine ⟨by simp [scEx], by simp [scEx], _, _, _, rfl, rfl, ?_, rfl, rfl, rfl⟩
  simp [collide, scEx]

/-- link attribution and elasticity on that scene: the plane belongs to the world (−1), the sphere
to link 0, elasticity (1/5 + 2/5)/2 -/
example : linkOf scEx 0 = -1 ∧ linkOf scEx 1 = 0 ∧ pairElasticity scEx 0 1 = 3 / 10 := by
  refine ⟨linkOf_world scEx (by simp [scEx]) rfl, linkOf_link scEx (b := 0) (by simp [scEx]) rfl, ?_⟩
  rw [elasticity_mean scEx (by simp [scEx]) (by simp [scEx])]
  norm_num [scEx]

/-- crossing perpendicular capsules one unit apart: the closest points are the two centres -/
example : segSegClosest ((⟨0, 0, 0⟩ : V3 ℝ) - V3.smul 1 ⟨1, 0, 0⟩) (⟨0, 0, 0⟩ + V3.smul 1 ⟨1, 0, 0⟩)
      (⟨0, 0, 1⟩ - V3.smul 1 ⟨0, 1, 0⟩) (⟨0, 0, 1⟩ + V3.smul 1 ⟨0, 1, 0⟩)
    = (⟨0, 0, 0⟩, ⟨0, 0, 1⟩) := by
  have hp : segSegParams ((⟨0, 0, 0⟩ : V3 ℝ) - V3.smul 1 ⟨1, 0, 0⟩) (⟨0, 0, 0⟩ + V3.smul 1 ⟨1, 0, 0⟩)
      (⟨0, 0, 1⟩ - V3.smul 1 ⟨0, 1, 0⟩) (⟨0, 0, 1⟩ + V3.smul 1 ⟨0, 1, 0⟩) = (1 / 2, 1 / 2) := by
    simp only [segSegParams, clip_eq]
    norm_num [V3.dot, V3.smul]
  simp only [segSegClosest, hp]
  norm_num [V3.smul]

/-- a non-degenerate capsule segment (hypothesis of `segSegClosest_optimal`, `sphere_capsule_dist_le`) -/
example : (⟨0, 0, 0⟩ : V3 ℝ) - V3.smul 1 ⟨1, 0, 0⟩ ≠ ⟨0, 0, 0⟩ + V3.smul 1 ⟨1, 0, 0⟩ := by
  intro h; have := congrArg V3.x h; norm_num [V3.smul] at this

end examples

end Brax.C10

/-! ## Part 3 — the transcription `Mjx.*` of the external collider returns the closed forms

(deepening; proofs of the ingredients in `Brax/Lemmas/C10Mjx.lean`).  `Mjx.pairRows t₁ s₁ w₁ t₂ s₂ w₂`
is the hand transcription of `mujoco.mjx._src.collision_primitive.{plane_sphere, plane_capsule,
sphere_sphere, sphere_capsule, capsule_capsule}` (`w = (geom_xpos, geom_xmat)`, `s = geom_size`); it is
tied to the real functions by the generated `Brax/Gen/Mjx.lean` + the `mjx_translator_tie_*` theorems
below (four of the five kinds) and by leg A of the correspondence check.  `candRow k = (k.dist, k.pos, k.n)`.

* no regulariser: `mjx_plane_sphere_closed_form` (unit plane normal, which `contact.get` always hands
  over: `geomWorld_col2_unit`), `mjx_plane_capsule_closed_form` (all inputs);
* guard of `math.norm` (`Small d`: all `|dᵢ| ≤ 1e-8`): `mjx_sphere_sphere_closed_form` (outside the guard or
  exactly coincident), `mjx_sphere_sphere_dist_within` (always within `2e-8`, from below);
* `+1e-6` of `closest_segment_point`: `mjx_sphere_capsule_closed_form_at_ends` (equality when the nearest
  point is an end-cap centre), `mjx_sphere_capsule_dist_bounds` (never below the closed form; second-order
  and first-order upper bounds);
* `closest_segment_to_segment_points`: `mjx_capsule_capsule_dist_ge` (never below the closed form; no
  upper bound proved).
-/
namespace Brax.C10
open Brax Spec

/-- the plane normal / capsule axis `contact.get` hands to the collider (third column of `geom_xmat`)
is a unit vector whenever link and geom quaternions are unit -/
theorem geomWorld_col2_unit (x : List (Tf ℝ)) (g : Geom ℝ) (hx : (geomLink x g).rot.IsUnit)
    (hg : g.quat.IsUnit) : V3.dot (geomWorld x g).2.col2 (geomWorld x g).2.col2 = 1 := by
  rw [geom_world_axis x g hx hg, rotate_dot_unit _ _ hx, rotate_dot_unit _ _ hg]
  norm_num [V3.dot]

/-- **plane – sphere**: the transcription returns exactly the closed-form candidate (unit normal) -/
theorem mjx_plane_sphere_closed_form (s1 s2 : V3 ℝ) (w1 w2 : V3 ℝ × M3 ℝ)
    (hn : V3.dot w1.2.col2 w1.2.col2 = 1) :
    Mjx.pairRows 0 s1 w1 2 s2 w2 = some ((collide (.plane w1.1 w1.2.col2) (.sphere w2.1 s2.x)).map candRow) :=
  mjx_plane_sphere_rows s1 s2 w1 w2 hn

/-- **plane – capsule**: both rows are exactly the closed-form candidates, for all inputs -/
theorem mjx_plane_capsule_closed_form (s1 s2 : V3 ℝ) (w1 w2 : V3 ℝ × M3 ℝ) :
    Mjx.pairRows 0 s1 w1 3 s2 w2
      = some ((collide (.plane w1.1 w1.2.col2) (.capsule w2.1 w2.2.col2 s2.y s2.x)).map candRow) :=
  mjx_plane_capsule_rows s1 s2 w1 w2

/-- **sphere – sphere**: exactly the closed-form candidate when the centre difference is outside the
guard of `math.norm` (some `|Δᵢ| > 1e-8`) or the centres coincide exactly -/
theorem mjx_sphere_sphere_closed_form (s1 s2 : V3 ℝ) (w1 w2 : V3 ℝ × M3 ℝ)
    (h : ¬ Small (w2.1 - w1.1) ∨ w2.1 = w1.1) :
    Mjx.pairRows 2 s1 w1 2 s2 w2 = some ((collide (.sphere w1.1 s1.x) (.sphere w2.1 s2.x)).map candRow) := by
  rcases h with h | h
  · exact mjx_sphere_sphere_rows s1 s2 w1 w2 h
  · exact mjx_sphere_sphere_rows_coincident s1 s2 w1 w2 h

/-- sphere – sphere, all inputs: the reported distance is never above the closed form and at most
`2e-8` below it; inside the guard (non-coincident centres nearer than `1e-8` per axis) the reported
normal is `e_x` whatever the true direction -/
theorem mjx_sphere_sphere_dist_within (p1 : V3 ℝ) (r1 : ℝ) (p2 : V3 ℝ) (r2 : ℝ) :
    (Mjx.sphereSphere' p1 r1 p2 r2).1 ≤ (sphereSphere p1 r1 p2 r2).dist
    ∧ (sphereSphere p1 r1 p2 r2).dist ≤ (Mjx.sphereSphere' p1 r1 p2 r2).1 + 2e-8
    ∧ (Small (p2 - p1) → (Mjx.sphereSphere' p1 r1 p2 r2).2.2 = ⟨1, 0, 0⟩) :=
  ⟨(mjx_sphereSphere'_dist_err p1 r1 p2 r2).1, (mjx_sphereSphere'_dist_err p1 r1 p2 r2).2,
    fun h => (mjx_sphereSphere'_small_err p1 r1 p2 r2 h).2.2.2⟩

/-- **sphere – capsule**: exactly the closed-form candidate when the sphere centre projects outside
the open axis segment (the nearest point is an end-cap centre; at the far end by the margin `1e-6` of
the regulariser) and is not within the guard of that point -/
theorem mjx_sphere_capsule_closed_form_at_ends (s1 s2 : V3 ℝ) (w1 w2 : V3 ℝ × M3 ℝ)
    (hab : w2.1 - V3.smul s2.y w2.2.col2 ≠ w2.1 + V3.smul s2.y w2.2.col2)
    (hend : V3.dot (w1.1 - (w2.1 - V3.smul s2.y w2.2.col2))
              ((w2.1 + V3.smul s2.y w2.2.col2) - (w2.1 - V3.smul s2.y w2.2.col2)) ≤ 0
          ∨ V3.dot ((w2.1 + V3.smul s2.y w2.2.col2) - (w2.1 - V3.smul s2.y w2.2.col2))
                ((w2.1 + V3.smul s2.y w2.2.col2) - (w2.1 - V3.smul s2.y w2.2.col2)) + 1e-6
              ≤ V3.dot (w1.1 - (w2.1 - V3.smul s2.y w2.2.col2))
                  ((w2.1 + V3.smul s2.y w2.2.col2) - (w2.1 - V3.smul s2.y w2.2.col2)))
    (h : ¬ Small (closestOnSeg (w2.1 - V3.smul s2.y w2.2.col2) (w2.1 + V3.smul s2.y w2.2.col2) w1.1
            - w1.1)) :
    Mjx.pairRows 2 s1 w1 3 s2 w2
      = some ((collide (.sphere w1.1 s1.x) (.capsule w2.1 w2.2.col2 s2.y s2.x)).map candRow) :=
  mjx_sphere_capsule_rows_eq s1 s2 w1 w2 hab hend h

/-- sphere – capsule in general: the row is the exact sphere–sphere candidate against the ball at the
point `P` returned by `closest_segment_point` (`mjx_sphere_capsule_rows`); its distance `d_mjx` against
the closed form `d`:  `d ≤ d_mjx`,  `(d_mjx − d)·(d_mjx + d + 2(r + r_c)) ≤ 3e-12 / (|ab|² + 1e-6)`
(second order: `|ab| = 2h = 0.1`, centre distance `≈ 0.1` gives `≤ 1.5e-9`) and
`d_mjx − d ≤ 1e-6·|ab| / (|ab|² + 1e-6)` (first order, useful when the centre is on the axis) -/
theorem mjx_sphere_capsule_dist_bounds (c : V3 ℝ) (r : ℝ) (cc ca : V3 ℝ) (ch cr : ℝ)
    (hab : cc - V3.smul ch ca ≠ cc + V3.smul ch ca) :
    let a := cc - V3.smul ch ca
    let b := cc + V3.smul ch ca
    let dm := (sphereSphere c r (Mjx.closestSegmentPoint a b c) cr).dist
    let d := (sphereCapsule c r cc ca ch cr).dist
    d ≤ dm
    ∧ (dm - d) * (dm + d + 2 * (r + cr)) ≤ 3e-12 / (V3.dot (b - a) (b - a) + 1e-6)
    ∧ dm - d ≤ 1e-6 / (V3.dot (b - a) (b - a) + 1e-6) * norm3 (b - a) := by
  intro a b dm d
  obtain ⟨h1, h2⟩ := mjx_closestSegmentPoint_dist_err a b c hab
  have h3 := mjx_closestSegmentPoint_err a b c hab
  have ht := norm3_sub_le c (closestOnSeg a b c) (Mjx.closestSegmentPoint a b c)
  have edm : dm = norm3 (c - Mjx.closestSegmentPoint a b c) - r - cr := by
    simp only [dm, sphereSphere]; rw [norm3_sub_comm]
  have ed : d = norm3 (c - closestOnSeg a b c) - r - cr := by
    simp only [d, sphereCapsule, sphereSphere]; rw [norm3_sub_comm]
  rw [edm, ed]
  refine ⟨by linarith, ?_, by linarith⟩
  have e : (norm3 (c - Mjx.closestSegmentPoint a b c) - r - cr - (norm3 (c - closestOnSeg a b c) - r - cr))
      * (norm3 (c - Mjx.closestSegmentPoint a b c) - r - cr + (norm3 (c - closestOnSeg a b c) - r - cr)
          + 2 * (r + cr))
      = (norm3 (c - Mjx.closestSegmentPoint a b c) - norm3 (c - closestOnSeg a b c))
        * (norm3 (c - Mjx.closestSegmentPoint a b c) + norm3 (c - closestOnSeg a b c)) := by ring
  rw [e]; exact h2

/-- **capsule – capsule**: the two points returned by `closest_segment_to_segment_points` lie on the two
axis segments (all inputs), hence the sphere–sphere distance of the balls centred there — which is what
the row reports (`mjx_capsule_capsule_rows`) — is **never below the closed-form distance** -/
theorem mjx_capsule_capsule_dist_ge (c1 a1 : V3 ℝ) (h1 r1 : ℝ) (c2 a2 : V3 ℝ) (h2 r2 : ℝ)
    (hs1 : c1 - V3.smul h1 a1 ≠ c1 + V3.smul h1 a1) (hs2 : c2 - V3.smul h2 a2 ≠ c2 + V3.smul h2 a2) :
    let pq := Mjx.closestSegmentToSegmentPoints (c1 - V3.smul h1 a1) (c1 + V3.smul h1 a1)
      (c2 - V3.smul h2 a2) (c2 + V3.smul h2 a2)
    (capsuleCapsule c1 a1 h1 r1 c2 a2 h2 r2).dist ≤ (sphereSphere pq.1 r1 pq.2 r2).dist := by
  intro pq
  obtain ⟨⟨s, hs0, hs1', hs⟩, ⟨t, ht0, ht1, ht⟩⟩ := mjx_segseg_onSeg (c1 - V3.smul h1 a1)
    (c1 + V3.smul h1 a1) (c2 - V3.smul h2 a2) (c2 + V3.smul h2 a2)
  have := segSegClosest_optimal _ _ _ _ hs1 hs2 s t hs0 hs1' ht0 ht1
  rw [← hs, ← ht] at this
  simp only [capsuleCapsule, sphereSphere]
  rw [norm3_sub_comm _ (segSegClosest _ _ _ _).1, norm3_sub_comm pq.2 pq.1]
  linarith

/-! ### translator tie: `Mjx.pairRows` = the definitions generated from the real `mujoco.mjx` functions -/

/-- the transcription of `plane_sphere` is the function traced from the installed library -/
theorem mjx_translator_tie_plane_sphere (s1 p1 : V3 ℝ) (m1 : M3 ℝ) (s2 p2 : V3 ℝ) (m2 : M3 ℝ) :
    Mjx.pairRows 0 s1 (p1, m1) 2 s2 (p2, m2) = some (Gen.Mjx.planeSphere s1 p1 m1 s2 p2 m2) :=
  bridge_planeSphere s1 p1 m1 s2 p2 m2

theorem mjx_translator_tie_plane_capsule (s1 p1 : V3 ℝ) (m1 : M3 ℝ) (s2 p2 : V3 ℝ) (m2 : M3 ℝ) :
    Mjx.pairRows 0 s1 (p1, m1) 3 s2 (p2, m2) = some (Gen.Mjx.planeCapsule s1 p1 m1 s2 p2 m2) :=
  bridge_planeCapsule s1 p1 m1 s2 p2 m2

theorem mjx_translator_tie_sphere_sphere (s1 p1 : V3 ℝ) (m1 : M3 ℝ) (s2 p2 : V3 ℝ) (m2 : M3 ℝ) :
    Mjx.pairRows 2 s1 (p1, m1) 2 s2 (p2, m2) = some (Gen.Mjx.sphereSphere s1 p1 m1 s2 p2 m2) :=
  bridge_sphereSphere s1 p1 m1 s2 p2 m2

theorem mjx_translator_tie_sphere_capsule (s1 p1 : V3 ℝ) (m1 : M3 ℝ) (s2 p2 : V3 ℝ) (m2 : M3 ℝ) :
    Mjx.pairRows 2 s1 (p1, m1) 3 s2 (p2, m2) = some (Gen.Mjx.sphereCapsule s1 p1 m1 s2 p2 m2) :=
  bridge_sphereCapsule s1 p1 m1 s2 p2 m2

/-- so the *real* traced functions return the closed forms: e.g. `plane_capsule`, all inputs -/
theorem real_plane_capsule_closed_form (s1 p1 : V3 ℝ) (m1 : M3 ℝ) (s2 p2 : V3 ℝ) (m2 : M3 ℝ) :
    Gen.Mjx.planeCapsule s1 p1 m1 s2 p2 m2
      = (planeCapsule p1 m1.col2 p2 m2.col2 s2.y s2.x).map candRow := by
  have h := mjx_plane_capsule_rows s1 s2 (p1, m1) (p2, m2)
  rw [bridge_planeCapsule] at h
  exact Option.some.inj h

/-- … `sphere_sphere` outside the guard -/
theorem real_sphere_sphere_closed_form (s1 p1 : V3 ℝ) (m1 : M3 ℝ) (s2 p2 : V3 ℝ) (m2 : M3 ℝ)
    (h : ¬ Small (p2 - p1)) :
    Gen.Mjx.sphereSphere s1 p1 m1 s2 p2 m2 = [candRow (sphereSphere p1 s1.x p2 s2.x)] := by
  have h' := mjx_sphere_sphere_rows s1 s2 (p1, m1) (p2, m2) h
  rw [bridge_sphereSphere] at h'
  exact Option.some.inj h'

/-- … `plane_sphere` for a unit plane normal -/
theorem real_plane_sphere_closed_form (s1 p1 : V3 ℝ) (m1 : M3 ℝ) (s2 p2 : V3 ℝ) (m2 : M3 ℝ)
    (hn : V3.dot m1.col2 m1.col2 = 1) :
    Gen.Mjx.planeSphere s1 p1 m1 s2 p2 m2 = [candRow (planeSphere p1 m1.col2 p2 s2.x)] := by
  have h' := mjx_plane_sphere_rows s1 s2 (p1, m1) (p2, m2) hn
  rw [bridge_planeSphere] at h'
  exact Option.some.inj h'

/-! ### `hcol` of `get_reports_spec` discharged for the exact kinds -/

/-- the pair is of a kind (and in a configuration) for which the transcription is exactly the closed form -/
def ExactPair (x : List (Tf ℝ)) (g1 g2 : Geom ℝ) : Prop :=
  (g1.typ = 0 ∧ g2.typ = 2) ∨ (g1.typ = 0 ∧ g2.typ = 3)
  ∨ (g1.typ = 2 ∧ g2.typ = 2
      ∧ (¬ Small ((geomWorld x g2).1 - (geomWorld x g1).1) ∨ (geomWorld x g2).1 = (geomWorld x g1).1))

/-- rows of one pair: whatever `pairRows` returns as closed-form candidates satisfies `RowIsSpec` -/
theorem rowIsSpec_of_pairRows (sc : Scene ℝ) (x : List (Tf ℝ)) (i j : Nat) (hi : i < sc.geoms.length)
    (hj : j < sc.geoms.length) (sh1 sh2 : Shape ℝ)
    (e1 : toShape sc.geoms[i].typ sc.geoms[i].size (geomWorld x sc.geoms[i]).1 (geomWorld x sc.geoms[i]).2
        = some sh1)
    (e2 : toShape sc.geoms[j].typ sc.geoms[j].size (geomWorld x sc.geoms[j]).1 (geomWorld x sc.geoms[j]).2
        = some sh2)
    (r : MjxRow ℝ)
    (hr : r ∈ ((collide sh1 sh2).map candRow).map fun q => (⟨i, j, q.1, q.2.1, q.2.2⟩ : MjxRow ℝ)) :
    RowIsSpec sc x r := by
  simp only [List.map_map, List.mem_map, Function.comp] at hr
  obtain ⟨k, hk, rfl⟩ := hr
  exact ⟨hi, hj, sh1, sh2, k, e1, e2, hk, rfl, rfl, rfl⟩

/-- **`mjx.collision` (transcription) returns closed-form rows**: for a scene with unit geom and link
quaternions, every row produced for pairs of the exact kinds (plane–sphere, plane–capsule,
sphere–sphere outside the guard) satisfies `RowIsSpec` — the hypothesis `hcol` of `get_reports_spec` -/
theorem mjx_collision_rowIsSpec (sc : Scene ℝ) (x : List (Tf ℝ)) (pairs : List (Nat × Nat))
    (hunit : ∀ g ∈ sc.geoms, g.quat.IsUnit ∧ (geomLink x g).rot.IsUnit)
    (hpairs : ∀ p ∈ pairs, ∀ (h1 : p.1 < sc.geoms.length) (h2 : p.2 < sc.geoms.length),
        ExactPair x sc.geoms[p.1] sc.geoms[p.2]) :
    ∀ r ∈ Mjx.collision sc.geoms pairs (sc.geoms.map (geomWorld x)), RowIsSpec sc x r := by
  intro r hr
  simp only [Mjx.collision, List.mem_flatMap] at hr
  obtain ⟨p, hp, hr⟩ := hr
  by_cases h1 : p.1 < sc.geoms.length
  swap
  · simp [List.getElem?_eq_none (not_lt.mp h1)] at hr
  by_cases h2 : p.2 < sc.geoms.length
  swap
  · simp [List.getElem?_eq_none (not_lt.mp h2)] at hr
  have hm1 : (sc.geoms.map (geomWorld x))[p.1]? = some (geomWorld x sc.geoms[p.1]) := by
    simp [List.getElem?_map, List.getElem?_eq_getElem h1]
  have hm2 : (sc.geoms.map (geomWorld x))[p.2]? = some (geomWorld x sc.geoms[p.2]) := by
    simp [List.getElem?_map, List.getElem?_eq_getElem h2]
  rw [List.getElem?_eq_getElem h1, List.getElem?_eq_getElem h2, hm1, hm2] at hr
  simp only at hr
  obtain ⟨hq1, hx1⟩ := hunit _ (List.getElem_mem h1)
  rcases hpairs p hp h1 h2 with ⟨t1, t2⟩ | ⟨t1, t2⟩ | ⟨t1, t2, hc⟩
  · rw [t1, t2, mjx_plane_sphere_closed_form _ _ _ _ (geomWorld_col2_unit x _ hx1 hq1)] at hr
    exact rowIsSpec_of_pairRows sc x p.1 p.2 h1 h2 _ _ (by rw [t1]; rfl) (by rw [t2]; rfl) r hr
  · rw [t1, t2, mjx_plane_capsule_closed_form] at hr
    exact rowIsSpec_of_pairRows sc x p.1 p.2 h1 h2 _ _ (by rw [t1]; rfl) (by rw [t2]; rfl) r hr
  · rw [t1, t2, mjx_sphere_sphere_closed_form _ _ _ _ hc] at hr
    exact rowIsSpec_of_pairRows sc x p.1 p.2 h1 h2 _ _ (by rw [t1]; rfl) (by rw [t2]; rfl) r hr

/-- **end-to-end for the exact kinds** (no hypothesis about the collider left): with the transcription of
`mjx.collision` as the collider, every contact `contact.get` reports carries the closed-form
distance / point / normal of its pair on the link-composed shapes, the owner links and the mean elasticity -/
theorem get_reports_spec_mjx (sc : Scene ℝ) (x : List (Tf ℝ)) (pairs : List (Nat × Nat))
    (cs : List (Contact ℝ)) (hget : get sc x (Mjx.collision sc.geoms pairs) = some cs)
    (hunit : ∀ g ∈ sc.geoms, g.quat.IsUnit ∧ (geomLink x g).rot.IsUnit)
    (hpairs : ∀ p ∈ pairs, ∀ (h1 : p.1 < sc.geoms.length) (h2 : p.2 < sc.geoms.length),
        ExactPair x sc.geoms[p.1] sc.geoms[p.2])
    (hel : sc.elasticity.length = sc.geoms.length) :
    ∀ c ∈ cs, ∃ (h1 : c.row.geom1 < sc.geoms.length) (h2 : c.row.geom2 < sc.geoms.length),
      RowIsSpec sc x c.row
      ∧ c.link1 = (sc.geoms[c.row.geom1].bodyid : Int) - 1
      ∧ c.link2 = (sc.geoms[c.row.geom2].bodyid : Int) - 1
      ∧ c.elasticity = (sc.elasticity[c.row.geom1]'(hel ▸ h1) + sc.elasticity[c.row.geom2]'(hel ▸ h2)) / 2 :=
  get_reports_spec sc x _ cs hget (mjx_collision_rowIsSpec sc x pairs hunit hpairs) hel

/-! ### non-vacuity of the side conditions -/

/-- centres 5 apart are outside the guard -/
example : ¬ Small ((⟨3, 4, 0⟩ : V3 ℝ) - ⟨0, 0, 0⟩) := by
  apply not_small_of_dot; norm_num [V3.dot]

/-- the guard regime is inhabited by non-coincident centres: `Δ = (1e-9, 0, 0)` -/
example : Small ((⟨1e-9, 0, 0⟩ : V3 ℝ) - ⟨0, 0, 0⟩) ∧ (⟨1e-9, 0, 0⟩ : V3 ℝ) ≠ ⟨0, 0, 0⟩ := by
  constructor
  · rw [small_iff]; norm_num [abs_of_nonneg]
  · intro h; have := congrArg V3.x h; norm_num at this

/-- a unit plane normal (identity `geom_xmat`) -/
example : V3.dot (⟨⟨1, 0, 0⟩, ⟨0, 1, 0⟩, ⟨0, 0, 1⟩⟩ : M3 ℝ).col2
    (⟨⟨1, 0, 0⟩, ⟨0, 1, 0⟩, ⟨0, 0, 1⟩⟩ : M3 ℝ).col2 = 1 := by
  norm_num [M3.col2, V3.dot]

/-- a sphere beyond the end of a capsule axis (`hend`, first alternative): capsule along `x`,
half-length 1, sphere centre at `x = −2` -/
example : V3.dot ((⟨-2, 0, 1⟩ : V3 ℝ) - (⟨0, 0, 0⟩ - V3.smul 1 ⟨1, 0, 0⟩))
    ((⟨0, 0, 0⟩ + V3.smul 1 ⟨1, 0, 0⟩) - (⟨0, 0, 0⟩ - V3.smul 1 ⟨1, 0, 0⟩)) ≤ 0 := by
  norm_num [V3.dot, V3.smul]

/-- the hypotheses of `get_reports_spec_mjx` are met by the plane + sphere scene `scEx` at the pose `xEx`
with the candidate pair `(0, 1)`, and `get` returns a contact -/
example : (∀ g ∈ scEx.geoms, g.quat.IsUnit ∧ (geomLink xEx g).rot.IsUnit)
    ∧ (∀ p ∈ [((0 : Nat), (1 : Nat))], ∀ (h1 : p.1 < scEx.geoms.length) (h2 : p.2 < scEx.geoms.length),
        ExactPair xEx scEx.geoms[p.1] scEx.geoms[p.2])
    ∧ scEx.elasticity.length = scEx.geoms.length
    ∧ ∃ cs, get scEx xEx (Mjx.collision scEx.geoms [(0, 1)]) = some cs := by
  refine ⟨?_, ?_, rfl, ?_⟩
  · intro g hg
    simp only [scEx, List.mem_cons, List.mem_nil_iff, or_false] at hg
    rcases hg with rfl | rfl
    · refine ⟨by norm_num [Q4.IsUnit, Q4.normSq], ?_⟩
      rw [geomLink_world _ _ rfl]; norm_num [Tf.id, Q4.one, Q4.IsUnit, Q4.normSq]
    · refine ⟨by norm_num [Q4.IsUnit, Q4.normSq], ?_⟩
      rw [geomLink_link xEx _ (b := 0) rfl (by simp [xEx])]
      norm_num [xEx, gEx, Q4.IsUnit, Q4.normSq]
  · intro p hp h1 h2
    simp only [List.mem_singleton] at hp
    subst hp
    left
    simp [scEx]
  · simp [get, Mjx.collision, scEx, Mjx.pairRows]

end Brax.C10

/-! ## Part 4 — capsule–capsule: translator tie and an upper bound

(second deepening; proofs in `Brax/Lemmas/C10Cap.lean`.)

* `mjx_translator_tie_capsule_capsule`: the transcription of `capsule_capsule` **is** the function traced from
  the installed library — all five kinds are now translator-tied.
* `mjx_capsule_capsule_dist_within`: unit axes `u`, `v`, half-lengths `> 1e-8`, and the feet `(s⋆, t⋆)` of the
  common perpendicular of the two axis *lines* on both axis segments (`|s⋆| ≤ h₁`, `|t⋆| ≤ h₂`; `g1`, `g2` are the
  two stationarity equations that define the feet).  Then `d ≤ d_mjx ≤ d + capErr`, with
  `capErr = 2·h₁·1e-6/(D + 1e-6) + 2h₂·1e-6/(4h₂² + 1e-6)`, `D = 1 − (u·v)²` (`sin²` of the angle between the axes);
  for `D ≥ s₀`: `capErr ≤ 2e-6·h₁/s₀ + 1e-6/(2h₂)` (`mjx_capsule_capsule_dist_within_sin`).  The bound is first
  order in the regulariser; it is attained in order of magnitude when the axes intersect (measured `9e-5`,
  notes/C10-deepen.md).  `mjx_capsule_capsule_sqdist_within`: the *squared* centre distance exceeds the squared
  distance of the feet by at most `capErr²` (second order — this is why generic pairs are within `1e-8`).
* not covered: closest points at a segment end (clamped cases), nearly parallel axes (`D → 0` makes `capErr`
  useless), degenerate capsules. -/
namespace Brax.C10
open Brax Spec

/-- the transcription of `capsule_capsule` is the function traced from the installed library -/
theorem mjx_translator_tie_capsule_capsule (s1 p1 : V3 ℝ) (m1 : M3 ℝ) (s2 p2 : V3 ℝ) (m2 : M3 ℝ) :
    Mjx.pairRows 3 s1 (p1, m1) 3 s2 (p2, m2) = some (Gen.Mjx.capsuleCapsule s1 p1 m1 s2 p2 m2) :=
  bridge_capsuleCapsule s1 p1 m1 s2 p2 m2

/-- so the *real* traced `capsule_capsule` reports the exact sphere–sphere candidate of the balls at the two
points of `closest_segment_to_segment_points` (outside the guard of `math.norm`) -/
theorem real_capsule_capsule_rows (s1 p1 : V3 ℝ) (m1 : M3 ℝ) (s2 p2 : V3 ℝ) (m2 : M3 ℝ)
    (h : ¬ Small
      ((Mjx.closestSegmentToSegmentPoints (p1 - V3.smul s1.y m1.col2) (p1 + V3.smul s1.y m1.col2)
          (p2 - V3.smul s2.y m2.col2) (p2 + V3.smul s2.y m2.col2)).2
       - (Mjx.closestSegmentToSegmentPoints (p1 - V3.smul s1.y m1.col2) (p1 + V3.smul s1.y m1.col2)
          (p2 - V3.smul s2.y m2.col2) (p2 + V3.smul s2.y m2.col2)).1)) :
    Gen.Mjx.capsuleCapsule s1 p1 m1 s2 p2 m2
      = [candRow (sphereSphere
          (Mjx.closestSegmentToSegmentPoints (p1 - V3.smul s1.y m1.col2) (p1 + V3.smul s1.y m1.col2)
            (p2 - V3.smul s2.y m2.col2) (p2 + V3.smul s2.y m2.col2)).1 s1.x
          (Mjx.closestSegmentToSegmentPoints (p1 - V3.smul s1.y m1.col2) (p1 + V3.smul s1.y m1.col2)
            (p2 - V3.smul s2.y m2.col2) (p2 + V3.smul s2.y m2.col2)).2 s2.x)] := by
  have h' := mjx_capsule_capsule_rows s1 s2 (p1, m1) (p2, m2) h
  rw [bridge_capsuleCapsule] at h'
  exact Option.some.inj h'

/-- **capsule – capsule, two-sided**: common perpendicular of the axes meeting both axis segments ⇒
`d ≤ d_mjx ≤ d + capErr (1 − (u·v)²) h₁ h₂` -/
theorem mjx_capsule_capsule_dist_within (c1 u : V3 ℝ) (h1 r1 : ℝ) (c2 v : V3 ℝ) (h2 r2 : ℝ)
    (hu : V3.dot u u = 1) (hv : V3.dot v v = 1) (hh1 : 1e-8 < h1) (hh2 : 1e-8 < h2) (ss ts : ℝ)
    (g1 : ss + V3.dot u (c1 - c2) - ts * V3.dot u v = 0)
    (g2 : ts - V3.dot v (c1 - c2) - ss * V3.dot u v = 0)
    (hs : |ss| ≤ h1) (ht : |ts| ≤ h2) :
    let pq := Mjx.closestSegmentToSegmentPoints (c1 - V3.smul h1 u) (c1 + V3.smul h1 u)
      (c2 - V3.smul h2 v) (c2 + V3.smul h2 v)
    (capsuleCapsule c1 u h1 r1 c2 v h2 r2).dist ≤ (sphereSphere pq.1 r1 pq.2 r2).dist
    ∧ (sphereSphere pq.1 r1 pq.2 r2).dist
        ≤ (capsuleCapsule c1 u h1 r1 c2 v h2 r2).dist + capErr (1 - V3.dot u v * V3.dot u v) h1 h2 := by
  intro pq
  have h10 : (0 : ℝ) < h1 := lt_trans (by norm_num) hh1
  have h20 : (0 : ℝ) < h2 := lt_trans (by norm_num) hh2
  exact ⟨mjx_capsule_capsule_dist_ge c1 u h1 r1 c2 v h2 r2 (axis_seg_ne c1 u h1 hu h10)
      (axis_seg_ne c2 v h2 hv h20),
    (mjx_capsule_capsule_upper c1 u h1 r1 c2 v h2 r2 hu hv hh1 hh2 ss ts g1 g2 hs ht).1⟩

/-- the same with the axes not nearly parallel: `1 − (u·v)² ≥ s₀ > 0` gives the explicit
`d_mjx − d ≤ 2e-6·h₁/s₀ + 1e-6/(2h₂)` -/
theorem mjx_capsule_capsule_dist_within_sin (c1 u : V3 ℝ) (h1 r1 : ℝ) (c2 v : V3 ℝ) (h2 r2 : ℝ)
    (hu : V3.dot u u = 1) (hv : V3.dot v v = 1) (hh1 : 1e-8 < h1) (hh2 : 1e-8 < h2) (ss ts : ℝ)
    (g1 : ss + V3.dot u (c1 - c2) - ts * V3.dot u v = 0)
    (g2 : ts - V3.dot v (c1 - c2) - ss * V3.dot u v = 0)
    (hs : |ss| ≤ h1) (ht : |ts| ≤ h2) (s0 : ℝ) (hs0 : 0 < s0) (hsin : s0 ≤ 1 - V3.dot u v * V3.dot u v) :
    let pq := Mjx.closestSegmentToSegmentPoints (c1 - V3.smul h1 u) (c1 + V3.smul h1 u)
      (c2 - V3.smul h2 v) (c2 + V3.smul h2 v)
    (sphereSphere pq.1 r1 pq.2 r2).dist
        ≤ (capsuleCapsule c1 u h1 r1 c2 v h2 r2).dist + (2 * (1e-6 / s0 * h1) + 1e-6 / (2 * h2)) := by
  intro pq
  have h10 : (0 : ℝ) < h1 := lt_trans (by norm_num) hh1
  have h20 : (0 : ℝ) < h2 := lt_trans (by norm_num) hh2
  have h := (mjx_capsule_capsule_upper c1 u h1 r1 c2 v h2 r2 hu hv hh1 hh2 ss ts g1 g2 hs ht).1
  have hc := capErr_le _ s0 h1 h2 hs0 hsin h10.le h20
  exact le_trans h (by linarith)

/-- second order: the squared centre distance of the returned pair exceeds the squared distance of the feet
of the common perpendicular (which is at most the squared distance of any two points of the segments) by at
most `capErr²` -/
theorem mjx_capsule_capsule_sqdist_within (c1 u c2 v : V3 ℝ) (h1 h2 : ℝ)
    (hu : V3.dot u u = 1) (hv : V3.dot v v = 1) (hh1 : 1e-8 < h1) (hh2 : 1e-8 < h2) (ss ts : ℝ)
    (g1 : ss + V3.dot u (c1 - c2) - ts * V3.dot u v = 0)
    (g2 : ts - V3.dot v (c1 - c2) - ss * V3.dot u v = 0)
    (hs : |ss| ≤ h1) (ht : |ts| ≤ h2) :
    let pq := Mjx.closestSegmentToSegmentPoints (c1 - V3.smul h1 u) (c1 + V3.smul h1 u)
      (c2 - V3.smul h2 v) (c2 + V3.smul h2 v)
    let S := segSegClosest (c1 - V3.smul h1 u) (c1 + V3.smul h1 u) (c2 - V3.smul h2 v) (c2 + V3.smul h2 v)
    V3.dot (pq.2 - pq.1) (pq.2 - pq.1)
      ≤ V3.dot (S.2 - S.1) (S.2 - S.1) + capErr (1 - V3.dot u v * V3.dot u v) h1 h2 ^ 2 := by
  intro pq S
  have hU := mjx_segseg_upper c1 u c2 v h1 h2 hu hv hh1 hh2 ss ts g1 g2 hs ht
  have hL := spec_sqdist_ge c1 u c2 v h1 h2 hu hv ss ts g1 g2
  exact le_trans hU (by linarith)

/-- non-vacuity: two perpendicular skew capsules (axes `e_x` through the origin and `e_y` through `(0,0,1)`,
half-lengths 1) satisfy every hypothesis of `mjx_capsule_capsule_dist_within` with `s⋆ = t⋆ = 0`, `D = 1` -/
example : V3.dot (⟨1, 0, 0⟩ : V3 ℝ) ⟨1, 0, 0⟩ = 1 ∧ V3.dot (⟨0, 1, 0⟩ : V3 ℝ) ⟨0, 1, 0⟩ = 1
    ∧ (1e-8 : ℝ) < 1
    ∧ (0 : ℝ) + V3.dot (⟨1, 0, 0⟩ : V3 ℝ) ((⟨0, 0, 0⟩ : V3 ℝ) - ⟨0, 0, 1⟩)
        - 0 * V3.dot (⟨1, 0, 0⟩ : V3 ℝ) ⟨0, 1, 0⟩ = 0
    ∧ (0 : ℝ) - V3.dot (⟨0, 1, 0⟩ : V3 ℝ) ((⟨0, 0, 0⟩ : V3 ℝ) - ⟨0, 0, 1⟩)
        - 0 * V3.dot (⟨1, 0, 0⟩ : V3 ℝ) ⟨0, 1, 0⟩ = 0
    ∧ |(0 : ℝ)| ≤ 1
    ∧ (1 : ℝ) ≤ 1 - V3.dot (⟨1, 0, 0⟩ : V3 ℝ) ⟨0, 1, 0⟩ * V3.dot (⟨1, 0, 0⟩ : V3 ℝ) ⟨0, 1, 0⟩ := by
  norm_num [V3.dot, V3.sub_def]

/-- … and a tilted pair: axes `e_x` and `(3/5, 4/5, 0)` (so `D = 16/25`), offset `(0,0,1)`: feet at
`s⋆ = t⋆ = 0` again -/
example : V3.dot (⟨3/5, 4/5, 0⟩ : V3 ℝ) ⟨3/5, 4/5, 0⟩ = 1
    ∧ (0 : ℝ) + V3.dot (⟨1, 0, 0⟩ : V3 ℝ) ((⟨0, 0, 0⟩ : V3 ℝ) - ⟨0, 0, 1⟩)
        - 0 * V3.dot (⟨1, 0, 0⟩ : V3 ℝ) ⟨3/5, 4/5, 0⟩ = 0
    ∧ (0 : ℝ) - V3.dot (⟨3/5, 4/5, 0⟩ : V3 ℝ) ((⟨0, 0, 0⟩ : V3 ℝ) - ⟨0, 0, 1⟩)
        - 0 * V3.dot (⟨1, 0, 0⟩ : V3 ℝ) ⟨3/5, 4/5, 0⟩ = 0
    ∧ (16/25 : ℝ) ≤ 1 - V3.dot (⟨1, 0, 0⟩ : V3 ℝ) ⟨3/5, 4/5, 0⟩ * V3.dot (⟨1, 0, 0⟩ : V3 ℝ) ⟨3/5, 4/5, 0⟩ := by
  norm_num [V3.dot, V3.sub_def]

end Brax.C10
