import Brax.Lemmas.C19
import Mathlib.Tactic.Ring
import Mathlib.Tactic.NormNum
import Mathlib.Algebra.BigOperators.Intervals
import Mathlib.Algebra.Ring.Pi
import Mathlib.Data.List.GetD
import Mathlib.Data.Fin.VecNotation
/-!
# C19 — generalized advantage estimation equals its definition

`Brax.C19.gae` (Model/C19.lean) is `compute_gae` of `brax/training/agents/ppo/losses.py` for one
batch member, line by line.  `Brax.C19.Spec.gae` (Spec/C19.lean) is the defining sum

  `vs_t − v_t = Σ_{k=t}^{T−1} (Π_{j=t}^{k−1} γ λ (1−term_j)(1−trunc_j)) · δ_k`,
  `δ_k = (r_k + γ (1−term_k) v_{k+1} − v_k)(1−trunc_k)`,  `v_T = bootstrap`,
  `adv_t = (r_t + γ (1−term_t) vs_{t+1} − v_t)(1−trunc_t)`,  `vs_T = bootstrap`.

All theorems hold for every horizon `T`, every mask pattern (the masks are arbitrary ring
elements; `0/1` is not even needed), every `λ, γ`, over any commutative ring `R` — in particular
ℝ and ℚ.  Round-off is not modelled.  "Carrying no gradient" (`stop_gradient`) is not a statement
about values; it is tied in the harness (zero VJP / JVP of the real function).

Remark (proved below, `adv_eq_delta_add` / `adv_eq_vs_sub_val_of_lambda_one` /
`adv_ne_vs_sub_val_example`): the *advantages* of brax are built from `vs_{t+1}`, as in IMPALA's
V-trace, so `adv_t = δ_t + γ(1−term_t)(1−trunc_t)·(vs_{t+1} − v_{t+1})`: the first factor carries no
`λ`.  They coincide with the λ-sum `vs_t − v_t` iff that makes no difference (`λ = 1`, or the step is
terminated/truncated, or the tail vanishes).  This is what the code is anchored to do
("advantages from vs_{t+1}"), and it is what the theorems state.

Only property theorems live in this file; helpers are in `Brax/Lemmas/C19.lean`.
-/
namespace Brax.C19
open Spec

section CommRing
variable {R : Type} [CommRing R]

/-! ## the main theorem -/

/-- **GAE equals its definition**: for every horizon `T`, every trajectory of that length, all
masks, all `λ, γ`: the reverse scan of the implementation (value targets `vs`) and the advantages
equal the defining sum. -/
theorem gae_eq_def (lam disc : R) (T : Nat) (trunc term rew val : List R) (b : R)
    (h : WF T trunc term rew val) :
    gae lam disc trunc term rew val b = Spec.gae lam disc trunc term rew val b := by
  obtain ⟨h0, h1, h2, h3⟩ := h
  subst h0
  have hd : (deltas disc trunc term rew val b).length = trunc.length :=
    length_tdNext disc trunc term rew val val b h1 h2 h3 h3
  have hδ : tdErr disc term rew (shiftIn val b) val (trunc.map fun tr => 1 - tr)
      = deltas disc trunc term rew val b := tdErr_shiftIn disc trunc term rew val val b h1 h2 h3 h3
  simp only [gae, Spec.gae, hδ, scanRev_eq lam disc trunc term _ h1 hd]
  have hv : (Spec.vs lam disc trunc term rew val b).length = trunc.length := by
    simp [Spec.vs, length_vsMinusV, hd, h3]
  rw [Prod.mk.injEq]
  exact ⟨rfl, tdErr_shiftIn disc trunc term rew val _ b h1 h2 h3 hv⟩

example : WF 4 [(0 : ℤ), 0, 1, 0] [0, 1, 0, 0] [1, 2, 3, -1] [5, -1, 2, 3] := by decide
example : gae (2 : ℤ) 3 [0, 0, 1, 0] [0, 1, 0, 0] [1, 2, 3, -1] [5, -1, 2, 3] 7
    = ([16, 2, 2, 20], [2, 3, 0, 17]) := by decide
example : Spec.gae (2 : ℤ) 3 [0, 0, 1, 0] [0, 1, 0, 0] [1, 2, 3, -1] [5, -1, 2, 3] 7
    = ([16, 2, 2, 20], [2, 3, 0, 17]) := by decide
example : gae (1 / 2 : ℚ) (9 / 10) [0, 0, 1, 0] [0, 1, 0, 0] [1, 2, 3, -1] [1 / 2, -1, 2, 3] (5 / 2)
    = ([29 / 20, 2, 2, 5 / 4], [23 / 10, 3, 0, -7 / 4]) := by
  norm_num [gae, tdErr, scanRev, shiftIn]

/-- lengths are preserved: both outputs have the horizon of the inputs -/
theorem gae_length (lam disc : R) (T : Nat) (trunc term rew val : List R) (b : R)
    (h : WF T trunc term rew val) :
    (gae lam disc trunc term rew val b).1.length = T ∧ (gae lam disc trunc term rew val b).2.length = T := by
  have hd := length_deltas disc T trunc term rew val b h
  rw [gae_eq_def lam disc T trunc term rew val b h]
  obtain ⟨h0, h1, h2, h3⟩ := h
  subst h0
  have hv : (Spec.vs lam disc trunc term rew val b).length = trunc.length := by
    simp [Spec.vs, length_vsMinusV, hd, h3]
  exact ⟨hv, length_tdNext disc trunc term rew val _ b h1 h2 h3 hv⟩

/-! ## index forms of the definition -/

/-- `vs_t − v_t` is the defining sum started at `t` (list form of the sum) -/
theorem gae_vs_index (lam disc : R) (T : Nat) (trunc term rew val : List R) (b : R)
    (h : WF T trunc term rew val) (t : Nat)
    (hv : t < (gae lam disc trunc term rew val b).1.length) (hval : t < val.length) :
    (gae lam disc trunc term rew val b).1[t] - val[t]
      = gaeSum ((coefs lam disc trunc term).drop t) ((deltas disc trunc term rew val b).drop t) := by
  simp only [gae_eq_def lam disc T trunc term rew val b h, Spec.gae, Spec.vs, List.getElem_zipWith,
    getElem_vsMinusV]
  ring

/-- `c_j = γ λ (1 − term_j)(1 − trunc_j)` -/
theorem coefs_index (lam disc : R) (trunc term : List R) (j : Nat)
    (h0 : j < trunc.length) (h1 : j < term.length) (hj : j < (coefs lam disc trunc term).length) :
    (coefs lam disc trunc term)[j] = disc * lam * (1 - term[j]) * (1 - trunc[j]) := by
  simp [coefs, coef]

/-- `δ_k = (r_k + γ (1 − term_k) v_{k+1} − v_k)(1 − trunc_k)` with `v_T = bootstrap` -/
theorem deltas_index (disc : R) (trunc term rew val : List R) (b : R) (k : Nat)
    (h0 : k < trunc.length) (h1 : k < term.length) (h2 : k < rew.length) (h3 : k < val.length)
    (h4 : k + 1 < (val ++ [b]).length) (hd : k < (deltas disc trunc term rew val b).length) :
    (deltas disc trunc term rew val b)[k]
      = (rew[k] + disc * (1 - term[k]) * (val ++ [b])[k + 1] - val[k]) * (1 - trunc[k]) := by
  simp only [deltas]
  rw [getElem_tdNext disc trunc term rew val val b k h0 h1 h2 h3 h4, delta]

/-- **GAE equals its definition, textbook form**:
`vs_t − v_t = Σ_{k=t}^{T−1} (Π_{j=t}^{k−1} γλ(1−term_j)(1−trunc_j)) · (r_k + γ(1−term_k) v_{k+1} − v_k)(1−trunc_k)`.
(`getD` only abbreviates the entries; every index that occurs is in range.) -/
theorem gae_eq_def_sum (lam disc : R) (T : Nat) (trunc term rew val : List R) (b : R)
    (h : WF T trunc term rew val) (t : Nat)
    (hv : t < (gae lam disc trunc term rew val b).1.length) (hval : t < val.length) :
    (gae lam disc trunc term rew val b).1[t] - val[t]
      = ∑ k ∈ Finset.Ico t T,
          (∏ j ∈ Finset.Ico t k, disc * lam * (1 - term.getD j 0) * (1 - trunc.getD j 0))
            * ((rew.getD k 0 + disc * (1 - term.getD k 0) * (val ++ [b]).getD (k + 1) 0 - val.getD k 0)
                * (1 - trunc.getD k 0)) := by
  have hd := length_deltas disc T trunc term rew val b h
  rw [gae_vs_index lam disc T trunc term rew val b h t hv hval]
  obtain ⟨h0, h1, h2, h3⟩ := h
  have hc : (coefs lam disc trunc term).length = T := by
    rw [length_coefs lam disc trunc term (by omega), h0]
  rw [gaeSum_drop_eq_sum _ _ (by omega) t (by omega), hd]
  apply Finset.sum_congr rfl
  intro k hk
  have hkT : k < T := (Finset.mem_Ico.mp hk).2
  congr 1
  · apply Finset.prod_congr rfl
    intro j hj
    have hjT : j < T := lt_trans (Finset.mem_Ico.mp hj).2 hkT
    rw [List.getD_eq_getElem (coefs lam disc trunc term) 0 (show j < _ by omega),
      coefs_index lam disc trunc term j (by omega) (by omega),
      List.getD_eq_getElem term 0 (show j < _ by omega),
      List.getD_eq_getElem trunc 0 (show j < _ by omega)]
  · rw [List.getD_eq_getElem (deltas disc trunc term rew val b) 0 (show k < _ by omega),
      deltas_index disc trunc term rew val b k (by omega) (by omega) (by omega) (by omega)
        (by simp; omega),
      List.getD_eq_getElem rew 0 (show k < _ by omega),
      List.getD_eq_getElem term 0 (show k < _ by omega),
      List.getD_eq_getElem (val ++ [b]) 0 (show k + 1 < _ by simp; omega),
      List.getD_eq_getElem val 0 (show k < _ by omega),
      List.getD_eq_getElem trunc 0 (show k < _ by omega)]

/-! ## backward recursion (structural and by index) -/

/-- the estimator of a trajectory from the estimator of its tail: the first step adds its TD
error and `γλ(1−term)(1−trunc)` times the tail's `vs − v`; `headD b` is "the next entry, or the
bootstrap value if this is the last step". -/
theorem gae_cons (lam disc tr te r v : R) (n : Nat) (trs tes rs vs : List R) (b : R)
    (h : WF n trs tes rs vs) :
    gae lam disc (tr :: trs) (te :: tes) (r :: rs) (v :: vs) b
      = ((v + ((r + disc * (1 - te) * vs.headD b - v) * (1 - tr)
                + disc * lam * (1 - te) * (1 - tr)
                  * ((gae lam disc trs tes rs vs b).1.headD b - vs.headD b)))
            :: (gae lam disc trs tes rs vs b).1,
         ((r + disc * (1 - te) * (gae lam disc trs tes rs vs b).1.headD b - v) * (1 - tr))
            :: (gae lam disc trs tes rs vs b).2) := by
  have h' : WF (n + 1) (tr :: trs) (te :: tes) (r :: rs) (v :: vs) := by
    obtain ⟨h0, h1, h2, h3⟩ := h
    simp [WF, h0, h1, h2, h3]
  have hl := length_deltas disc n trs tes rs vs b h
  rw [gae_eq_def lam disc (n + 1) _ _ _ _ b h', gae_eq_def lam disc n trs tes rs vs b h]
  obtain ⟨h0, h1, h2, h3⟩ := h
  have hc : (coefs lam disc trs tes).length = (deltas disc trs tes rs vs b).length := by
    rw [hl, length_coefs lam disc trs tes (by omega), h0]
  simp only [Spec.gae, Spec.adv, Spec.vs, deltas, tdNext_cons, coefs, List.zipWith_cons_cons,
    vsMinusV_cons, gaeSum_cons, delta, coef, Prod.mk.injEq, List.cons.injEq, and_true]
  have key : gaeSum (List.zipWith (coef lam disc) trs tes) (tdNext disc trs tes rs vs vs b)
      = (List.zipWith (· + ·) (vsMinusV (List.zipWith (coef lam disc) trs tes)
          (tdNext disc trs tes rs vs vs b)) vs).headD b - vs.headD b := by
    have hh := gaeSum_eq_headD _ _ hc
    simp only [coefs, deltas] at hh
    rw [hh]
    cases hvs : vs with
    | nil =>
      have : (deltas disc trs tes rs vs b).length = 0 := by rw [hl, ← h3, hvs]; rfl
      have : deltas disc trs tes rs vs b = [] := List.eq_nil_of_length_eq_zero this
      simp only [deltas, hvs] at this
      simp [this, vsMinusV_nil]
    | cons v' vs' =>
      have : (vsMinusV (coefs lam disc trs tes) (deltas disc trs tes rs vs b)).length = vs'.length + 1 := by
        rw [length_vsMinusV, hl, ← h3, hvs]; rfl
      simp only [coefs, deltas, hvs] at this
      match hm : vsMinusV (List.zipWith (coef lam disc) trs tes)
          (tdNext disc trs tes rs (v' :: vs') (v' :: vs') b), this with
      | a :: as, _ => simp
  rw [key]; ring

theorem gae_nil (lam disc b : R) : gae lam disc [] [] [] [] b = ([], []) := by
  simp [gae, tdErr, scanRev, shiftIn]

/-- the estimates from step `t` on are the estimates of the trajectory started at `t`
(nothing flows forward in time) -/
theorem gae_drop (lam disc : R) (T : Nat) (trunc term rew val : List R) (b : R)
    (h : WF T trunc term rew val) (t : Nat) :
    gae lam disc (trunc.drop t) (term.drop t) (rew.drop t) (val.drop t) b
      = ((gae lam disc trunc term rew val b).1.drop t, (gae lam disc trunc term rew val b).2.drop t) := by
  induction t generalizing T trunc term rew val with
  | zero => simp
  | succ t ih =>
    obtain ⟨h0, h1, h2, h3⟩ := h
    match trunc, term, rew, val, h0, h1, h2, h3 with
    | [], [], [], [], _, _, _, _ => simp [gae_nil]
    | tr :: trs, te :: tes, r :: rs, v :: vs, h0, h1, h2, h3 =>
      subst h0
      simp only [List.length_cons, Nat.add_right_cancel_iff] at h1 h2 h3
      have hw : WF trs.length trs tes rs vs := ⟨rfl, h1, h2, h3⟩
      rw [gae_cons lam disc tr te r v trs.length trs tes rs vs b hw]
      simp only [List.drop_succ_cons]
      exact ih trs.length trs tes rs vs hw

/-- the recursion by index, with `v_T = vs_T = bootstrap` (entry `T` of `val ++ [b]`, `vs ++ [b]`):
`vs_t = v_t + δ_t + γλ(1−term_t)(1−trunc_t)(vs_{t+1} − v_{t+1})`,
`adv_t = (r_t + γ(1−term_t) vs_{t+1} − v_t)(1−trunc_t)`. -/
theorem gae_index (lam disc : R) (T : Nat) (trunc term rew val : List R) (b : R)
    (h : WF T trunc term rew val) (t : Nat)
    (h0 : t < trunc.length) (h1 : t < term.length) (h2 : t < rew.length) (h3 : t < val.length)
    (hv : t < (gae lam disc trunc term rew val b).1.length)
    (ha : t < (gae lam disc trunc term rew val b).2.length)
    (hv' : t + 1 < ((gae lam disc trunc term rew val b).1 ++ [b]).length)
    (h3' : t + 1 < (val ++ [b]).length) :
    (gae lam disc trunc term rew val b).1[t]
        = val[t] + ((rew[t] + disc * (1 - term[t]) * (val ++ [b])[t + 1] - val[t]) * (1 - trunc[t])
            + disc * lam * (1 - term[t]) * (1 - trunc[t])
              * (((gae lam disc trunc term rew val b).1 ++ [b])[t + 1] - (val ++ [b])[t + 1]))
    ∧ (gae lam disc trunc term rew val b).2[t]
        = (rew[t] + disc * (1 - term[t]) * ((gae lam disc trunc term rew val b).1 ++ [b])[t + 1] - val[t])
            * (1 - trunc[t]) := by
  have hd := gae_drop lam disc T trunc term rew val b h t
  have hd1 := gae_drop lam disc T trunc term rew val b h (t + 1)
  obtain ⟨l0, l1, l2, l3⟩ := h
  have hw : WF (T - (t + 1)) (trunc.drop (t + 1)) (term.drop (t + 1)) (rew.drop (t + 1))
      (val.drop (t + 1)) := by
    simp [WF, l0, l1, l2, l3]
  rw [List.drop_eq_getElem_cons h0, List.drop_eq_getElem_cons h1, List.drop_eq_getElem_cons h2,
    List.drop_eq_getElem_cons h3, List.drop_eq_getElem_cons hv, List.drop_eq_getElem_cons ha,
    gae_cons lam disc _ _ _ _ _ _ _ _ _ b hw, hd1] at hd
  simp only [Prod.mk.injEq, List.cons.injEq, and_true] at hd
  rw [getElem_append_singleton_succ _ b t hv', getElem_append_singleton_succ _ b t h3']
  exact ⟨hd.1.symm, hd.2.symm⟩

/-- the hypotheses of `gae_index` are satisfiable (t = 1 of a 3-step trajectory) -/
example : (gae (2 : ℤ) 3 [0, 0, 0] [0, 0, 1] [1, 2, 4] [10, 20, 5] 100).1[1]
    = 20 + ((2 + 3 * (1 - 0) * ([10, 20, 5] ++ [100])[2] - 20) * (1 - 0)
        + 3 * 2 * (1 - 0) * (1 - 0) * (([7, 11, 4] ++ [100])[2] - ([10, 20, 5] ++ [100])[2])) := by
  decide

/-! ## corollaries: masks -/

/-- no accumulation across a terminated step: the factor is `0` -/
theorem coef_of_terminated (lam disc tr : R) : coef lam disc tr 1 = 0 := by
  simp [coef]

/-- no accumulation across a truncated step: the factor is `0` -/
theorem coef_of_truncated (lam disc te : R) : coef lam disc 1 te = 0 := by
  simp [coef]

/-- a truncated step contributes `δ = 0` -/
theorem delta_of_truncated (disc te r v vnext : R) : delta disc 1 te r v vnext = 0 := by
  simp [delta]

/-- the bootstrap from `v_{t+1}` is suppressed exactly by termination: with `term = 1` the TD error
does not contain the next value at all … -/
theorem delta_of_terminated (disc tr r v vnext : R) :
    delta disc tr 1 r v vnext = (r - v) * (1 - tr) := by
  simp [delta]

/-- … and with `term = 0` it contains exactly `γ · v_{t+1}` -/
theorem delta_of_not_terminated (disc tr r v vnext : R) :
    delta disc tr 0 r v vnext = (r + disc * vnext - v) * (1 - tr) := by
  simp [delta]

/-- the sum stops at the first step `j ≥ t` whose factor vanishes (in particular a terminated or
truncated step): `vs_t − v_t = Σ_{k=t}^{j} …`, nothing after `j` is accumulated. -/
theorem gae_sum_stops_at_boundary (lam disc : R) (T : Nat) (trunc term rew val : List R) (b : R)
    (h : WF T trunc term rew val) (t j : Nat) (htj : t ≤ j) (hjT : j < T)
    (hend : term.getD j 0 = 1 ∨ trunc.getD j 0 = 1)
    (hv : t < (gae lam disc trunc term rew val b).1.length) (hval : t < val.length) :
    (gae lam disc trunc term rew val b).1[t] - val[t]
      = ∑ k ∈ Finset.Ico t (j + 1),
          (∏ i ∈ Finset.Ico t k, disc * lam * (1 - term.getD i 0) * (1 - trunc.getD i 0))
            * ((rew.getD k 0 + disc * (1 - term.getD k 0) * (val ++ [b]).getD (k + 1) 0 - val.getD k 0)
                * (1 - trunc.getD k 0)) := by
  rw [gae_eq_def_sum lam disc T trunc term rew val b h t hv hval,
    ← Finset.sum_Ico_consecutive _ (show t ≤ j + 1 by omega) (show j + 1 ≤ T by omega)]
  rw [add_eq_left]
  apply Finset.sum_eq_zero
  intro k hk
  have hk' : j + 1 ≤ k := (Finset.mem_Ico.mp hk).1
  have hz : (∏ i ∈ Finset.Ico t k, disc * lam * (1 - term.getD i 0) * (1 - trunc.getD i 0)) = 0 := by
    apply Finset.prod_eq_zero (i := j) (Finset.mem_Ico.mpr ⟨htj, by omega⟩)
    rcases hend with h | h <;> rw [h] <;> ring
  rw [hz, zero_mul]

/-- **episodes do not mix**: if step `n` of a trajectory is terminated or truncated, the estimates
of the whole trajectory are those of the part up to and including step `n` (with *any* bootstrap
value `b₀` — it is never used) followed by those of the rest.  So nothing is accumulated across
the boundary, in either direction. -/
theorem gae_append_of_boundary (lam disc : R) (n m : Nat)
    (tr₁ te₁ r₁ v₁ tr₂ te₂ r₂ v₂ : List R) (tr te r v b b₀ : R)
    (h₁ : WF n tr₁ te₁ r₁ v₁) (h₂ : WF m tr₂ te₂ r₂ v₂) (hend : te = 1 ∨ tr = 1) :
    gae lam disc (tr₁ ++ tr :: tr₂) (te₁ ++ te :: te₂) (r₁ ++ r :: r₂) (v₁ ++ v :: v₂) b
      = ((gae lam disc (tr₁ ++ [tr]) (te₁ ++ [te]) (r₁ ++ [r]) (v₁ ++ [v]) b₀).1
            ++ (gae lam disc tr₂ te₂ r₂ v₂ b).1,
         (gae lam disc (tr₁ ++ [tr]) (te₁ ++ [te]) (r₁ ++ [r]) (v₁ ++ [v]) b₀).2
            ++ (gae lam disc tr₂ te₂ r₂ v₂ b).2) := by
  obtain ⟨a0, a1, a2, a3⟩ := h₁
  have hfull : WF (n + 1 + m) (tr₁ ++ tr :: tr₂) (te₁ ++ te :: te₂) (r₁ ++ r :: r₂) (v₁ ++ v :: v₂) := by
    obtain ⟨c0, c1, c2, c3⟩ := h₂
    refine ⟨?_, ?_, ?_, ?_⟩ <;> simp <;> omega
  have hcut : WF (n + 1) (tr₁ ++ [tr]) (te₁ ++ [te]) (r₁ ++ [r]) (v₁ ++ [v]) := by
    refine ⟨?_, ?_, ?_, ?_⟩ <;> simp <;> omega
  have hdc := length_deltas disc (n + 1) _ _ _ _ b₀ hcut
  rw [gae_eq_def lam disc _ _ _ _ _ b hfull, gae_eq_def lam disc _ _ _ _ _ b₀ hcut,
    gae_eq_def lam disc _ _ _ _ _ b h₂]
  have e1 : te₁.length = tr₁.length := by omega
  have e2 : r₁.length = tr₁.length := by omega
  have e3 : v₁.length = tr₁.length := by omega
  have hc0 : coef lam disc tr te = 0 := by
    rcases hend with h | h <;> subst h <;> simp [coef]
  -- TD errors split
  have hδ : deltas disc (tr₁ ++ tr :: tr₂) (te₁ ++ te :: te₂) (r₁ ++ r :: r₂) (v₁ ++ v :: v₂) b
      = deltas disc (tr₁ ++ [tr]) (te₁ ++ [te]) (r₁ ++ [r]) (v₁ ++ [v]) b₀
        ++ deltas disc tr₂ te₂ r₂ v₂ b := by
    have := tdNext_append disc tr₁ te₁ r₁ v₁ (v₁ ++ [v]) tr₂ te₂ r₂ v₂ v₂ tr te r v b b₀ e1 e2 e3
      (by simp; omega) hend
    simpa [deltas] using this
  -- factors split, with a zero at the boundary
  have hcs : coefs lam disc (tr₁ ++ tr :: tr₂) (te₁ ++ te :: te₂)
      = coefs lam disc tr₁ te₁ ++ 0 :: coefs lam disc tr₂ te₂ := by
    rw [coefs_append lam disc tr₁ _ te₁ _ e1]
    simp only [coefs, List.zipWith_cons_cons, hc0]
  have hcs' : coefs lam disc (tr₁ ++ [tr]) (te₁ ++ [te]) = coefs lam disc tr₁ te₁ ++ [0] := by
    rw [coefs_append lam disc tr₁ _ te₁ _ e1]
    simp only [coefs, List.zipWith_cons_cons, hc0, List.zipWith_nil_left]
  have hlc : (coefs lam disc tr₁ te₁).length = n := by
    rw [length_coefs lam disc tr₁ te₁ e1, a0]
  -- value targets split
  have hvs : Spec.vs lam disc (tr₁ ++ tr :: tr₂) (te₁ ++ te :: te₂) (r₁ ++ r :: r₂) (v₁ ++ v :: v₂) b
      = Spec.vs lam disc (tr₁ ++ [tr]) (te₁ ++ [te]) (r₁ ++ [r]) (v₁ ++ [v]) b₀
        ++ Spec.vs lam disc tr₂ te₂ r₂ v₂ b := by
    simp only [Spec.vs, hδ, hcs, hcs']
    rw [vsMinusV_append_zero _ _ _ _ (by rw [hdc, hlc]),
      show v₁ ++ v :: v₂ = (v₁ ++ [v]) ++ v₂ by simp]
    apply List.zipWith_append
    rw [length_vsMinusV, hdc]; simp; omega
  have hlv : (Spec.vs lam disc (tr₁ ++ [tr]) (te₁ ++ [te]) (r₁ ++ [r]) (v₁ ++ [v]) b₀).length
      = tr₁.length + 1 := by
    simp only [Spec.vs, List.length_zipWith, length_vsMinusV, hdc]; simp; omega
  simp only [Spec.gae, Spec.adv, hvs, Prod.mk.injEq, true_and]
  exact tdNext_append disc tr₁ te₁ r₁ v₁ _ tr₂ te₂ r₂ v₂ _ tr te r v b b₀ e1 e2 e3 hlv hend

/-- non-vacuity: a terminated third step splits `[…, step₂ | step₃]`; bootstrap `100` of the cut
part is irrelevant, compare `gae_eq_def`'s example data -/
example : gae (2 : ℤ) 3 ([0, 0] ++ 0 :: [1]) ([0, 0] ++ 1 :: [0]) ([1, 2] ++ 4 :: [8]) ([10, 20] ++ 5 :: [6]) 7
    = ((gae (2 : ℤ) 3 ([0, 0] ++ [0]) ([0, 0] ++ [1]) ([1, 2] ++ [4]) ([10, 20] ++ [5]) 100).1
          ++ (gae (2 : ℤ) 3 [1] [0] [8] [6] 7).1,
       (gae (2 : ℤ) 3 ([0, 0] ++ [0]) ([0, 0] ++ [1]) ([1, 2] ++ [4]) ([10, 20] ++ [5]) 100).2
          ++ (gae (2 : ℤ) 3 [1] [0] [8] [6] 7).2) := by decide

/-- a truncated step: value target = value (nothing accumulated, `δ = 0`) and advantage `0` -/
theorem truncated_step (lam disc : R) (T : Nat) (trunc term rew val : List R) (b : R)
    (h : WF T trunc term rew val) (t : Nat) (ht : t < T) (h0 : t < trunc.length) (h3 : t < val.length)
    (hv : t < (gae lam disc trunc term rew val b).1.length)
    (ha : t < (gae lam disc trunc term rew val b).2.length)
    (htr : trunc[t] = 1) :
    (gae lam disc trunc term rew val b).1[t] = val[t] ∧ (gae lam disc trunc term rew val b).2[t] = 0 := by
  have hl := gae_length lam disc T trunc term rew val b h
  obtain ⟨l0, l1, l2, l3⟩ := h
  have := gae_index lam disc T trunc term rew val b ⟨l0, l1, l2, l3⟩ t h0 (by omega) (by omega) h3 hv ha
    (by simp; omega) (by simp; omega)
  rw [this.1, this.2, htr]
  constructor <;> ring

/-- a terminated step: neither `v_{t+1}` nor `vs_{t+1}` nor anything later enters -/
theorem terminated_step (lam disc : R) (T : Nat) (trunc term rew val : List R) (b : R)
    (h : WF T trunc term rew val) (t : Nat) (ht : t < T)
    (h0 : t < trunc.length) (h1 : t < term.length) (h2 : t < rew.length) (h3 : t < val.length)
    (hv : t < (gae lam disc trunc term rew val b).1.length)
    (ha : t < (gae lam disc trunc term rew val b).2.length)
    (hte : term[t] = 1) :
    (gae lam disc trunc term rew val b).1[t] = val[t] + (rew[t] - val[t]) * (1 - trunc[t])
    ∧ (gae lam disc trunc term rew val b).2[t] = (rew[t] - val[t]) * (1 - trunc[t]) := by
  have hl := gae_length lam disc T trunc term rew val b h
  have := gae_index lam disc T trunc term rew val b h t h0 h1 h2 h3 hv ha
    (by simp; omega) (by simp; omega)
  rw [this.1, this.2, hte]
  constructor <;> ring

/-- the last step uses `bootstrap_value` for both `v_T` and `vs_T` -/
theorem last_step (lam disc : R) (T : Nat) (trunc term rew val : List R) (b : R)
    (h : WF T trunc term rew val) (t : Nat) (ht : t + 1 = T)
    (h0 : t < trunc.length) (h1 : t < term.length) (h2 : t < rew.length) (h3 : t < val.length)
    (hv : t < (gae lam disc trunc term rew val b).1.length)
    (ha : t < (gae lam disc trunc term rew val b).2.length) :
    (gae lam disc trunc term rew val b).1[t]
        = val[t] + (rew[t] + disc * (1 - term[t]) * b - val[t]) * (1 - trunc[t])
    ∧ (gae lam disc trunc term rew val b).2[t]
        = (rew[t] + disc * (1 - term[t]) * b - val[t]) * (1 - trunc[t]) := by
  have hl := gae_length lam disc T trunc term rew val b h
  have l3 : val.length = T := h.2.2.2
  have := gae_index lam disc T trunc term rew val b h t h0 h1 h2 h3 hv ha
    (by simp; omega) (by simp; omega)
  have e1 : ((gae lam disc trunc term rew val b).1 ++ [b])[t + 1]'(by simp; omega) = b := by
    rw [List.getElem_append_right (by omega)]; simp
  have e2 : (val ++ [b])[t + 1]'(by simp; omega) = b := by
    rw [List.getElem_append_right (by omega)]; simp
  rw [this.1, this.2, e1, e2]
  constructor <;> ring

/-- one-step trajectory, in closed form -/
theorem gae_single_step (lam disc tr te r v b : R) :
    gae lam disc [tr] [te] [r] [v] b
      = ([v + (r + disc * (1 - te) * b - v) * (1 - tr)], [(r + disc * (1 - te) * b - v) * (1 - tr)]) := by
  rw [gae_cons lam disc tr te r v 0 [] [] [] [] b ⟨rfl, rfl, rfl, rfl⟩, gae_nil]
  simp only [List.headD_nil, Prod.mk.injEq, List.cons.injEq, and_true]
  ring

example : (gae (2 : ℤ) 3 [0, 0, 1, 0] [0, 1, 0, 0] [1, 2, 3, -1] [5, -1, 2, 3] 7).1[2] = 2
    ∧ (gae (2 : ℤ) 3 [0, 0, 1, 0] [0, 1, 0, 0] [1, 2, 3, -1] [5, -1, 2, 3] 7).2[2] = 0 := by decide
example : (gae (2 : ℤ) 3 [0, 0, 1, 0] [0, 1, 0, 0] [1, 2, 3, -1] [5, -1, 2, 3] 7).1[1] = -1 + (2 - -1) * (1 - 0) := by
  decide

/-! ## corollaries: `λ = 0`, `λ = 1`, Monte-Carlo -/

/-- `λ = 0`: one-step TD targets, `vs_t = v_t + δ_t` -/
theorem gae_lambda_zero (disc : R) (T : Nat) (trunc term rew val : List R) (b : R)
    (h : WF T trunc term rew val) :
    (gae 0 disc trunc term rew val b).1
      = List.zipWith (· + ·) (deltas disc trunc term rew val b) val := by
  have hd := length_deltas disc T trunc term rew val b h
  rw [gae_eq_def 0 disc T trunc term rew val b h]
  obtain ⟨h0, h1, h2, h3⟩ := h
  simp only [Spec.gae, Spec.vs]
  rw [vsMinusV_coefs_zero disc trunc term _ (by omega) (by omega)]

/-- … which for a live step (no termination, no truncation) is `r + γ v_{t+1}` -/
theorem td_target_live (disc r v vnext : R) : v + delta disc 0 0 r v vnext = r + disc * vnext := by
  simp only [delta]; ring

example : gae (0 : ℤ) 3 [0, 0, 0] [0, 0, 0] [1, 2, 3] [10, 20, 30] 7
    = ([1 + 3 * 20, 2 + 3 * 30, 3 + 3 * 7], [267, 54, -6]) := by decide

/-- the advantages in terms of the TD error and the *next* `vs − v`: the first factor has no `λ` -/
theorem adv_eq_delta_add (lam disc : R) (T : Nat) (trunc term rew val : List R) (b : R)
    (h : WF T trunc term rew val) (t : Nat) (ht : t < T)
    (h0 : t < trunc.length) (h1 : t < term.length) (h2 : t < rew.length) (h3 : t < val.length)
    (ha : t < (gae lam disc trunc term rew val b).2.length)
    (hv' : t + 1 < ((gae lam disc trunc term rew val b).1 ++ [b]).length)
    (h3' : t + 1 < (val ++ [b]).length) :
    (gae lam disc trunc term rew val b).2[t]
      = (rew[t] + disc * (1 - term[t]) * (val ++ [b])[t + 1] - val[t]) * (1 - trunc[t])
        + disc * (1 - term[t]) * (1 - trunc[t])
          * (((gae lam disc trunc term rew val b).1 ++ [b])[t + 1] - (val ++ [b])[t + 1]) := by
  have hl := gae_length lam disc T trunc term rew val b h
  have := gae_index lam disc T trunc term rew val b h t h0 h1 h2 h3 (by omega) ha hv' h3'
  rw [this.2]; ring

/-- `λ = 1`: the advantages are exactly `vs − v` -/
theorem adv_eq_vs_sub_val_of_lambda_one (disc : R) (T : Nat) (trunc term rew val : List R) (b : R)
    (h : WF T trunc term rew val) (t : Nat) (ht : t < T) (h3 : t < val.length)
    (hv : t < (gae 1 disc trunc term rew val b).1.length)
    (ha : t < (gae 1 disc trunc term rew val b).2.length) :
    (gae 1 disc trunc term rew val b).2[t] = (gae 1 disc trunc term rew val b).1[t] - val[t] := by
  have hl := gae_length 1 disc T trunc term rew val b h
  obtain ⟨l0, l1, l2, l3⟩ := h
  have := gae_index 1 disc T trunc term rew val b ⟨l0, l1, l2, l3⟩ t (by omega) (by omega) (by omega) h3
    hv ha (by simp; omega) (by simp; omega)
  rw [this.1, this.2]; ring

/-- witness that for `λ ≠ 1` brax's advantages are *not* `vs − v` (they use `vs_{t+1}`, V-trace
style): `λ = 0, γ = 1`, two live steps -/
theorem adv_ne_vs_sub_val_example :
    (gae (0 : ℤ) 1 [0, 0] [0, 0] [1, 1] [0, 0] 0).2 ≠
      List.zipWith (· - ·) (gae (0 : ℤ) 1 [0, 0] [0, 0] [1, 1] [0, 0] 0).1 [0, 0] := by decide

/-- `λ = 1, γ = 1`, no termination, no truncation: the value target is the Monte-Carlo return
`Σ_{k ≥ t} r_k + bootstrap` and the advantage is `return − value`. -/
theorem gae_monte_carlo (rew val : List R) (b : R) (h : val.length = rew.length) :
    gae 1 1 (List.replicate rew.length 0) (List.replicate rew.length 0) rew val b
      = ((List.range rew.length).map (fun t => sumL (rew.drop t) + b),
         List.zipWith (· - ·) ((List.range rew.length).map (fun t => sumL (rew.drop t) + b)) val) := by
  induction rew generalizing val with
  | nil =>
    cases val with
    | nil => simp [gae_nil]
    | cons _ _ => simp at h
  | cons r rs ih =>
    match val, h with
    | v :: vs, h =>
      simp only [List.length_cons, Nat.add_right_cancel_iff] at h
      have hw : WF rs.length (List.replicate rs.length (0 : R)) (List.replicate rs.length 0) rs vs := by
        simp [WF, h]
      simp only [List.length_cons, List.replicate_succ]
      rw [gae_cons 1 1 0 0 r v rs.length _ _ rs vs b hw, ih vs h, headD_returns]
      simp only [List.range_succ_eq_map, List.map_cons, List.map_map, List.drop_zero, sumL,
        List.zipWith_cons_cons, Function.comp_def, List.drop_succ_cons, Prod.mk.injEq,
        List.cons.injEq, and_true]
      constructor <;> ring

example : gae (1 : ℤ) 1 [0, 0, 0] [0, 0, 0] [1, 2, 3] [10, 20, 30] 7
    = ([1 + 2 + 3 + 7, 2 + 3 + 7, 3 + 7], [13 - 10, 12 - 20, 10 - 30]) := by decide

/-! ## the batch axis -/

/-- lengths preserved along the batch axis -/
theorem gaeBatch_length (lam disc : R) (xs : List (Traj R)) :
    (gaeBatch lam disc xs).length = xs.length := by
  simp [gaeBatch]

/-- member `i` of the output is the estimator of member `i` of the input -/
theorem gaeBatch_getElem (lam disc : R) (xs : List (Traj R)) (i : Nat) (h : i < xs.length)
    (h' : i < (gaeBatch lam disc xs).length) :
    (gaeBatch lam disc xs)[i] = gae lam disc xs[i].trunc xs[i].term xs[i].rew xs[i].val xs[i].boot := by
  simp [gaeBatch, Traj.gae]

/-- **batch members are independent**: replacing any other member `j ≠ i` leaves the outputs of
member `i` unchanged -/
theorem batch_members_independent (lam disc : R) (xs : List (Traj R)) (i j : Nat) (y : Traj R)
    (hij : i ≠ j) (h : i < (gaeBatch lam disc xs).length)
    (h' : i < (gaeBatch lam disc (xs.set j y)).length) :
    (gaeBatch lam disc (xs.set j y))[i] = (gaeBatch lam disc xs)[i] := by
  simp only [gaeBatch, List.getElem_map]
  rw [List.getElem_set_ne (Ne.symm hij)]

end CommRing

/-! ## the vectorised code: elementwise operations commute with taking a batch member -/

section RingHom
variable {R S : Type} [CommRing R] [CommRing S]

/-- `compute_gae` commutes with every ring homomorphism applied entrywise -/
theorem gae_map_ringHom (f : R →+* S) (lam disc : R) (trunc term rew val : List R) (b : R) :
    gae (f lam) (f disc) (trunc.map f) (term.map f) (rew.map f) (val.map f) (f b)
      = ((gae lam disc trunc term rew val b).1.map f, (gae lam disc trunc term rew val b).2.map f) := by
  have hm : (trunc.map f).map (fun tr => 1 - tr) = (trunc.map fun tr => 1 - tr).map f := by
    simp [List.map_map, Function.comp_def]
  have hs : ∀ xs : List R, shiftIn (xs.map f) (f b) = (shiftIn xs b).map f := by
    intro xs; cases xs <;> simp [shiftIn]
  have hsc := scanRev_map f lam disc 0 (trunc.map fun tr => 1 - tr)
    (tdErr disc term rew (shiftIn val b) val (trunc.map fun tr => 1 - tr)) term
  simp only [map_zero] at hsc
  have hz : ∀ xs ys : List R,
      List.zipWith (· + ·) (xs.map f) (ys.map f) = (List.zipWith (· + ·) xs ys).map f := by
    intro xs ys; simp [List.map_zipWith, List.zipWith_map]
  simp only [gae, hm, ← hsc.2, hz, hs, ← tdErr_map]

/-- **the vectorised `[T, B]` computation is the per-member computation**: run the very same
model on rows `Fin B → R` with pointwise operations (scalars `λ, γ` broadcast, `1 −` and the zero
initial carry broadcast — exactly what `jnp` does) and read off member `i`: this is `gae` of member
`i`'s slices. -/
theorem gae_vectorised {B : Nat} (lam disc : R) (trunc term rew val : List (Fin B → R))
    (boot : Fin B → R) (i : Fin B) :
    ((gae (fun _ => lam) (fun _ => disc) trunc term rew val boot).1.map (· i),
     (gae (fun _ => lam) (fun _ => disc) trunc term rew val boot).2.map (· i))
      = gae lam disc (trunc.map (· i)) (term.map (· i)) (rew.map (· i)) (val.map (· i)) (boot i) :=
  (gae_map_ringHom (Pi.evalRingHom (fun _ : Fin B => R) i) (fun _ => lam) (fun _ => disc)
    trunc term rew val boot).symm

end RingHom

/-- non-vacuity of the vectorised statement: two members with different masks, run as rows -/
example :
    ((gae (fun _ => (2 : ℤ)) (fun _ => 3) [![0, 1], ![0, 0]] [![0, 0], ![1, 0]] [![1, 5], ![2, 6]]
        [![10, 30], ![20, 40]] ![7, 8]).1.map (· 1))
      = (gae (2 : ℤ) 3 [1, 0] [0, 0] [5, 6] [30, 40] 8).1 := by
  decide

end Brax.C19
