import Brax.Lemmas.C06Pos
import Brax.Lemmas.C04Real
import Brax.Lemmas.C06Q
import Brax.Lemmas.C06Solver
/-!
# C06 — contacts and joint limits are inert until reached; contacts only push

Models: `Brax/Model/C06.lean` (generalized `constraint.py`), `Brax/Model/{Spring,Positional}.lean`
(C04's reusable models of the spring and positional pipelines).  All are tied to `/repo` on every
run by `harness/corr_C06.py` (exact-rational for `jac_limit`, 1e-9 for the contact rows, the
constraint force, the limit blocks and the impulse functions with contacts passed in as data, and
for whole steps) — and the property's own observations (twin models, push-only, resting height,
rebound) are evaluated there on the real pipelines.

Unless stated otherwise the theorems hold over an arbitrary ordered field `K` with **arbitrary**
interpretations of the opaque scalar functions (`sqrt`, `atan2`, `**`, `exp`, the `float32` cast):
what decides is the masks, not the numerics.  They hold for every model size (any number of
links, dofs, contact candidates).

"inside the range" is `InRange x lo hi` (`lo ≤ x ≤ hi`, an absent bound is `∓∞`) — weaker than the
property's *strictly inside* (`StrictlyInside.inRange`), so the theorems cover the boundary too.

## Contents
* generalized: `limit_rows_inactive`, `limit_row_active_above`, `contact_rows_inactive`,
  `force_zero_of_inactive`, `force_no_rows`, `constraint_force_inert`, `pyramid_push_only`,
  `generalized_contact_force`
* spring: `spring_limit_terms_zero_inside`, `spring_one_dof_limit_inert`, `spring_two_dof_limit_inert`,
  `spring_three_dof_limit_inert`, `spring_contact_separated`, `spring_collide_separated`,
  `spring_push_only`, `spring_rebound_impulse`, `spring_rebound_single_contact`,
  `spring_integrate_unit`, `spring_integrate_unit_real`
* positional: `positional_clip_inactive`, `positional_padded_axes_frozen`, `positional_limit_inert`,
  `positional_contact_separated`, `positional_resolve_position_separated`,
  `positional_resolve_velocity_separated`, `positional_push_only_dlambda`, `positional_push_only_direction`,
  `positional_rebound`, `normalize_unit`, `positional_integrate_unit`, `positional_integrate_unit_real`,
  `resolve_position_unit`, `resolve_position_no_contact_unit`, `generalized_forward_unit`,
  `resolve_position_pinned_early_return_not_unit` (defect D3, fixed in ce5b080)

What is **not** a theorem (float outcomes of a simulation, observed by the harness only, labelled
`corr/out` in the evidence): resting height, sink depth, the numerical rebound margins
(0.02 / −0.02…+0.2) over a history; that the code's measured joint angle equals `q` (C08's round
trip; defect D7 lives exactly there: the *measured* middle angle of a left-handed 3-hinge stack
has the wrong sign).
-/
set_option linter.unusedSectionVars false
set_option linter.unusedVariables false
namespace Brax.C06
open Brax MC C04L C06L

/-! ## generalized pipeline: `constraint.jac_limit`, `jac_contact`, `force` -/
section generalized
variable {K : Type} [Field K] [LinearOrder K] [IsStrictOrderedRing K] [HasPow K]

/-- **Limit rows are inert until the limit is reached.**  If every limited coordinate lies in its
range (`lo ≤ q ≤ hi`; in particular strictly inside), then `jac_limit` returns only zero rows:
`pos = min(min(q−lo, hi−q), 0) = 0`, every jacobian row is `0`, `diag = 0`, `aref = 0` —
whatever the solver parameters, `invweight` and `qd` are. -/
theorem limit_rows_inactive (s : Sys K) (sp : List (SolverParams K)) (q qd : List K)
    (h : AllInRange s q) :
    (∀ ix ∈ limitIdx s.types, limitPos (nthS q ix.1) (dofAt s ix.2).lo (dofAt s ix.2).hi = 0)
    ∧ RowsZero s.nv (jacLimit s sp q qd) :=
  ⟨fun ix hix => limitPos_eq_zero (h ix hix), jacLimit_inactive s sp q qd h⟩

/-- the same for one dof, as an equation on the row -/
theorem limit_row_inactive (nv : Nat) (d : DofP K) (p : SolverParams K) (di : Nat) (q : K)
    (qd : List K) (h : InRange q d.lo d.hi) :
    limitRow nv d p di q qd = (List.replicate nv 0, 0, 0) :=
  limitRow_inactive nv d p di q qd h

/-- the mask is not vacuous: beyond the upper limit `pos = hi − q < 0`, the row is active -/
theorem limit_row_active_above {q u : K} {lo : Option K} (h : u < q)
    (hlo : ∀ l, lo = some l → l ≤ q) : limitPos q lo (some u) = u - q ∧ limitPos q lo (some u) < 0 := by
  rw [limitPos_above h hlo]; exact ⟨rfl, sub_neg.mpr h⟩

/-- **Contact rows are inert until the geoms touch.**  The exact condition of the code is the mask
`(c.dist < 0)`: a candidate with `¬ dist < 0` (i.e. `dist ≥ 0`) contributes four rows that are
identically zero (jacobian, `diag`, `aref`), whatever the point jacobians, friction and solver
parameters are. -/
theorem contact_rows_inactive (s : Sys K) (com : List (V3 K)) (cdof : List (Motion K)) (qd : List K)
    (cs : List (GContact K)) (h : ∀ c ∈ cs, ¬ c.dist < 0) :
    (∀ row ∈ (jacContact s com cdof qd cs).1, ∀ e ∈ row, e = 0)
    ∧ (∀ d ∈ (jacContact s com cdof qd cs).2.1, d = 0)
    ∧ (∀ a ∈ (jacContact s com cdof qd cs).2.2, a = 0) :=
  jacContact_inactive s com cdof qd cs h

/-- **The constraint force vanishes when every row is zero — for WHATEVER the solver returns.**
`qf_constraint = Jᵀ x = 0` for any `solver` (no assumption on `jaxopt.ProjectedGradient` at all). -/
theorem force_zero_of_inactive (solver : List (List K) → List K → List K) (nv : Nat)
    (jac : List (List K)) (diag aref : List K) (minv : List (List K)) (qfs : List K)
    (h : ∀ row ∈ jac, ∀ e ∈ row, e = 0) :
    force solver nv jac diag aref minv qfs = List.replicate nv 0 :=
  force_zero solver nv jac diag aref minv qfs h

/-- with no candidate row at all (`con_jac.shape[0] == 0`: no limit in the model and
`contact.get` returned `None`) `force` returns `zeros(qd_size)` by the shape test, without calling
the solver -/
theorem force_no_rows (solver : List (List K) → List K → List K) (nv : Nat) (diag aref : List K)
    (minv : List (List K)) (qfs : List K) :
    force solver nv [] diag aref minv qfs = List.replicate nv 0 := rfl

/-- **Unreached limits and separated contacts have no influence on the generalized step's
constraint force**: it equals the force of the limit-free, collision-free model (both are
`zeros`), for any solver on either side. -/
theorem constraint_force_inert (solver solver' : List (List K) → List K → List K) (s : Sys K)
    (sp : List (SolverParams K)) (com : List (V3 K)) (cdof : List (Motion K)) (q qd : List K)
    (cs : List (GContact K)) (minv : List (List K)) (qfs : List K)
    (hl : AllInRange s q) (hc : ∀ c ∈ cs, ¬ c.dist < 0) :
    force solver s.nv (jacobian s sp com cdof q qd cs).1 (jacobian s sp com cdof q qd cs).2.1
        (jacobian s sp com cdof q qd cs).2.2 minv qfs
      = force solver' s.nv [] [] [] minv qfs := by
  rw [force_no_rows]
  exact force_zero _ _ _ _ _ _ _ (jacobian_inactive s sp com cdof q qd cs hl hc)

/-- **Contacts only push (generalized).**  The four rows of a contact are the pyramid directions
`±f·t₁ + n`, `±f·t₂ + n` (`n = frame[0]`).  For multipliers `x_k ≥ 0` (the solver projects onto
`x ≥ 0`: trusted) the contact force `F = Σ_k x_k · dir_k` on the second body has normal component
`n · F = Σ_k x_k ≥ 0`: it points from the first geom to the second, never back. -/
theorem pyramid_push_only (c : GContact K) (x : List K) (hx : ∀ v ∈ x, 0 ≤ v) (hlen : x.length = 4)
    (hn : V3.dot c.frame.r0 c.frame.r0 = 1) (h1 : V3.dot c.frame.r0 c.frame.r1 = 0)
    (h2 : V3.dot c.frame.r0 c.frame.r2 = 0) :
    V3.dot c.frame.r0 (pyramidForce c x) = x.sum ∧ 0 ≤ V3.dot c.frame.r0 (pyramidForce c x) := by
  have e : V3.dot c.frame.r0 (pyramidForce c x) = x.sum :=
    dot_sum_smul c.frame.r0 x (contactDirs c) (contactDirs_dot_normal c hn h1 h2)
      (by rw [hlen]; rfl)
  exact ⟨e, e ▸ list_sum_nonneg x hx⟩

/-- **what `qf_constraint = Jᵀx` is for a penetrating contact**: entry `j` is `diff_j · F` with
`F = Σ_k x_k·dir_k` the pyramid force of `pyramid_push_only` and `diff_j = b.vel_j − a.vel_j` the
relative velocity of the two contact points per unit `q̇_j` (second body minus first): the
generalized force is that of the world force `+F` on the second body and `−F` on the first -/
theorem generalized_contact_force (invw qd : List K) (diff : List (V3 K)) (c : GContact K)
    (x0 x1 x2 x3 : K) (hd : c.dist < 0) :
    jacTx diff.length ((contactRows invw qd diff c).map (·.1)) [x0, x1, x2, x3]
      = tab diff.length fun j => V3.dot (diff.getD j ⟨0, 0, 0⟩) (pyramidForce c [x0, x1, x2, x3]) :=
  contact_jacTx invw qd diff c x0 x1 x2 x3 hd

end generalized

/-! ## spring pipeline -/
section spring
variable {K : Type} [Field K] [LinearOrder K] [IsStrictOrderedRing K]
  [HasSqrt K] [HasTrig K] [HasExp K] [HasF32 K]

/-- **spring limit terms vanish inside the range**: `dang = 0`, `dvel = 0` -/
theorem spring_limit_terms_zero_inside {x : K} {lo hi : Option K} (h : InRange x lo hi) :
    Spring.limDelta x lo hi = 0 := limDelta_inRange h

/-- `_one_dof`: with the joint coordinate the code measures (the angle `psi` of a hinge, the offset
`j.pos · axis` of a slide) inside the range, the `dof.limit` path computes exactly the force of the
`dof.limit is None` path -/
theorem spring_one_dof_limit_inert (lk : LinkP K) (j : Tf K) (jd : Motion K) (d : DofP K) (tau : K)
    (h : if v3Any d.motion.vel
         then InRange (V3.dot j.pos (frame1 d.motion).vel.r0) d.lo d.hi
         else InRange (axisAngleAng j (frame1 d.motion).ang (frame1 d.motion).parity).psi d.lo d.hi) :
    Spring.oneDof true lk j jd d tau = Spring.oneDof false lk j jd d tau :=
  oneDof_limit_inert lk j jd d tau h

/-- `_two_dof`: each coordinate that the limit block reads (per dof: the angle if the dof rotates,
the offset if it translates) inside its range ⇒ same force as without limits -/
theorem spring_two_dof_limit_inert (lk : LinkP K) (j : Tf K) (jd : Motion K) (d0 d1 : DofP K)
    (t0 t1 : K)
    (ha0 : v3Any d0.motion.ang = true →
      InRange (axisAngleAng j (frame2 d0.motion d1.motion).ang (frame2 d0.motion d1.motion).parity).psi d0.lo d0.hi)
    (ha1 : v3Any d1.motion.ang = true →
      InRange (axisAngleAng j (frame2 d0.motion d1.motion).ang (frame2 d0.motion d1.motion).parity).theta d1.lo d1.hi)
    (hv0 : v3Any d0.motion.vel = true → InRange (V3.dot j.pos d0.motion.vel) d0.lo d0.hi)
    (hv1 : v3Any d1.motion.vel = true → InRange (V3.dot j.pos d1.motion.vel) d1.lo d1.hi) :
    Spring.twoDof true lk j jd d0 d1 t0 t1 = Spring.twoDof false lk j jd d0 d1 t0 t1 :=
  twoDof_limit_inert lk j jd d0 d1 t0 t1 ha0 ha1 hv0 hv1

/-- `_three_dof`, likewise -/
theorem spring_three_dof_limit_inert (lk : LinkP K) (j : Tf K) (jd : Motion K) (d0 d1 d2 : DofP K)
    (t0 t1 t2 : K)
    (ha0 : v3Any d0.motion.ang = true →
      InRange (axisAngleAng j (frame3 d0.motion d1.motion d2.motion).ang (frame3 d0.motion d1.motion d2.motion).parity).psi d0.lo d0.hi)
    (ha1 : v3Any d1.motion.ang = true →
      InRange (axisAngleAng j (frame3 d0.motion d1.motion d2.motion).ang (frame3 d0.motion d1.motion d2.motion).parity).theta d1.lo d1.hi)
    (ha2 : v3Any d2.motion.ang = true →
      InRange (axisAngleAng j (frame3 d0.motion d1.motion d2.motion).ang (frame3 d0.motion d1.motion d2.motion).parity).phi d2.lo d2.hi)
    (hv0 : v3Any d0.motion.vel = true → InRange (V3.dot d0.motion.vel j.pos) d0.lo d0.hi)
    (hv1 : v3Any d1.motion.vel = true → InRange (V3.dot d1.motion.vel j.pos) d1.lo d1.hi)
    (hv2 : v3Any d2.motion.vel = true → InRange (V3.dot d2.motion.vel j.pos) d2.lo d2.hi) :
    Spring.threeDof true lk j jd d0 d1 d2 t0 t1 t2 = Spring.threeDof false lk j jd d0 d1 d2 t0 t1 t2 :=
  threeDof_limit_inert lk j jd d0 d1 d2 t0 t1 t2 ha0 ha1 ha2 hv0 hv1 hv2

/-- **`apply_n = false` for a separated contact, and the impulse is zero**: the exact condition is
`c.dist < 0.0` being false -/
theorem spring_contact_separated (s : Sys K) (st : Spring.State K) (c : Contact K)
    (h : ¬ c.dist < 0) : Spring.impulse s st c = (⟨0, 0⟩, false) :=
  impulse_separated s st c h

/-- … hence `collisions.resolve` returns `Δv = 0/(0 + 1e-8) = 0` for every link: the step equals
the step of the collision-free model (whose `resolve` returns `Motion.zero`) -/
theorem spring_collide_separated (s : Sys K) (st : Spring.State K) (cs : List (Contact K))
    (h : ∀ c ∈ cs, ¬ c.dist < 0) {i : Nat} (hi : i < s.numLinks) :
    nth (Spring.collide s st cs) i = nth (Spring.collide s st []) i := by
  rw [collide_separated s st cs h hi, collide_separated s st [] (by simp) hi]

/-- **Contacts only push (spring).**  For a unit contact normal the impulse given to the first
body has a non-negative component along `−frame[0]` (away from the second body); it is strictly
positive exactly when `apply_n` holds (`impulse > 0` is part of `apply_n`), and the whole impulse
is zero otherwise.  The friction drag is tangential and cannot pull. -/
theorem spring_push_only (s : Sys K) (st : Spring.State K) (c : Contact K)
    (hn : V3.dot c.normal c.normal = 1) :
    0 ≤ V3.dot (Spring.impulse s st c).1.vel (-c.normal)
    ∧ ((Spring.impulse s st c).2 = true → 0 < V3.dot (Spring.impulse s st c).1.vel (-c.normal))
    ∧ ((Spring.impulse s st c).2 = false → (Spring.impulse s st c).1 = ⟨0, 0⟩) :=
  impulse_normal_component s st c hn

/-- **Rebound algebra (spring).**  When the lever arms are parallel to the normal (a sphere on a
plane) the angular term of the effective mass vanishes and rotation carries no normal velocity:
the normal impulse is `(−(1+e)·v_n − (erp/dt)·dist) / (1/m₁ + 1/m₂)` with `v_n` the relative normal
velocity of the two centres of mass.  (For one body of mass `m` on the world this changes `v_n`
by `−(1+e)·v_n − (erp/dt)·dist`, up to the `1 + 1e-8` of the contact averaging — the
`(erp/dt)·|dist|` is the penetration correction that "adds speed".) -/
theorem spring_rebound_impulse (s : Sys K) (st : Spring.State K) (c : Contact K)
    (hn : V3.dot c.normal c.normal = 1)
    (hl1 : -1 < c.link1 → V3.cross (c.pos - (takeWrap st.x_i c.link1).pos) (-c.normal) = ⟨0, 0, 0⟩)
    (hl2 : -1 < c.link2 → V3.cross (c.pos - (takeWrap st.x_i c.link2).pos) (-c.normal) = ⟨0, 0, 0⟩) :
    V3.dot (Spring.impulse s st c).1.vel (-c.normal)
      = if (Spring.impulse s st c).2
        then (-1 * (1 + c.elasticity) * contactNormalVel st c - s.baumgarteErp / s.dt * c.dist)
              / contactInvMass st c
        else 0 :=
  impulse_rebound s st c hn hl1 hl2

/-- one contact between the world and link `k`: `Δv_k = −impulse / float32(apply_n + 1e-8) / m_k` -/
theorem spring_rebound_single_contact (s : Sys K) (st : Spring.State K) (c : Contact K) (k : Nat)
    (hk : k < s.numLinks) (h1 : c.link1 = -1) (h2 : c.link2 = (k : Int)) :
    (nth (Spring.collide s st [c]) k).vel
      = vdiv (vdiv (-(Spring.impulse s st c).1.vel)
          (HasF32.f32 ((if (Spring.impulse s st c).2 then (1 : K) else 0) + 1e-8))) (nthS st.mass k) :=
  collide_single_world s st c k hk h1 h2

/-- **Unit quaternions (spring integrator).**  `rot + ½dt·ω⊗rot` has squared norm
`‖rot‖²(1 + dt²‖ω‖²/4)` (quaternion-norm multiplicativity) and is divided by its norm: the
result is a unit quaternion for every non-zero incoming rotation, every velocity, every `dt`. -/
theorem spring_integrate_unit (s : Sys K) (x_i : Tf K) (xd_i xdv_i : Motion K) (hs : SqrtOK K)
    (h : 0 < Q4.normSq x_i.rot) : Q4.normSq (Spring.integrateLink s x_i xd_i xdv_i).1.rot = 1 :=
  integrateLink_unit s x_i xd_i xdv_i hs h

end spring

theorem sqrtOK_real : SqrtOK ℝ := fun x hx => Real.mul_self_sqrt hx

/-- the same over ℝ with the real square root -/
theorem spring_integrate_unit_real (s : Sys ℝ) (x_i : Tf ℝ) (xd_i xdv_i : Motion ℝ)
    (h : x_i.rot.IsUnit) : (Spring.integrateLink s x_i xd_i xdv_i).1.rot.IsUnit :=
  integrateLink_unit s x_i xd_i xdv_i sqrtOK_real (by rw [h]; exact one_pos)

/-! ## positional pipeline -/
section positional
variable {K : Type} [Field K] [LinearOrder K] [IsStrictOrderedRing K]
  [HasSqrt K] [HasTrig K] [HasExp K] [HasF32 K]

/-- **`clip` inactive**: with the measured angle (rotational axis) or offset (prismatic axis)
inside the range, `limit_angle` computes what it computes with the limits `(−∞, ∞)` -/
theorem positional_clip_inactive (xpos n n1 n2 : V3 K) (a : Positional.Axis3 K)
    (h : AxisInside xpos n n1 n2 a) :
    Positional.limitAngle xpos n n1 n2 a = Positional.limitAngle xpos n n1 n2 ⟨none, none, a.motion⟩ :=
  limitAngle_inert xpos n n1 n2 a h

/-- **padded axes are frozen in both paths** (true of the code since the `fix:` commit 0130879 for
defect D4; before it the `dof.limit is None` path padded with `(−∞, ∞)`): every axis of a
sphericalized 1- or 2-dof link beyond its own dofs is the zero motion with limits `(0, 0)` -/
theorem positional_padded_axes_frozen (hl : Bool) (l : Kin.LinkIn K) (h : l.typ ≠ .free) (k : Nat)
    (hk : l.dofs.length ≤ k) (hk3 : k < 3) :
    (Positional.sphericalize hl l).1[k]? = some (⟨some 0, some 0, ⟨0, 0⟩⟩ : Positional.Axis3 K) :=
  sphericalize_pad_frozen hl l h k hk hk3

/-- **The positional limit branch is inert inside the range**: for a non-free link whose own axes
satisfy `AxisInside`, `_three_dof_joint_update ∘ _sphericalize` gives the same joint displacement
with `dof.limit` as with `dof.limit = None`. -/
theorem positional_limit_inert (l : Kin.LinkIn K) (x : Tf K) (hfree : l.typ ≠ .free)
    (h : ∀ k (hk : k < l.dofs.length),
      AxisInside x.pos (limitTriple x (Positional.sphericalize true l).2 k).1
        (limitTriple x (Positional.sphericalize true l).2 k).2.1
        (limitTriple x (Positional.sphericalize true l).2 k).2.2
        ⟨l.dofs[k].lo, l.dofs[k].hi, l.dofs[k].motion⟩) :
    Positional.threeDofJointUpdate x (Positional.sphericalize true l).1 (Positional.sphericalize true l).2
      = Positional.threeDofJointUpdate x (Positional.sphericalize false l).1 (Positional.sphericalize false l).2 :=
  jointUpdate_limit_inert l x hfree h

/-- **`coll_mask = false ⇒ dp = 0`** (the exact condition is `c < 0` being false) -/
theorem positional_contact_separated (cscale : K) (x_i xPrev : List (Tf K)) (ii : List (M3 K))
    (im : List K) (c : Contact K) (h : ¬ c.dist < 0) :
    Positional.translate cscale x_i xPrev ii im c
      = (⟨⟨0, 0, 0⟩, ⟨0, 0, 0, 0⟩⟩, ⟨⟨0, 0, 0⟩, ⟨0, 0, 0, 0⟩⟩, 0) :=
  translate_separated cscale x_i xPrev ii im c h

/-- **separated collision geometry has no influence on `resolve_position`**: with every candidate
separated the normal path returns exactly the contact-free return (`Positional.resolvePosition …
[]`: positions unchanged, rotations renormalised) — true since the `fix:` commit ce5b080 for
defect D3 — and every `dlambda` is `0` -/
theorem positional_resolve_position_separated (s : Sys K) (x_i xp : List (Tf K)) (ii : List (M3 K))
    (im : List K) (cs : List (Contact K)) (hlen : x_i.length = s.numLinks)
    (h : ∀ c ∈ cs, ¬ c.dist < 0) :
    (Positional.resolvePosition s x_i xp ii im cs).1 = (Positional.resolvePosition s x_i xp ii im []).1
    ∧ ∀ d ∈ (Positional.resolvePosition s x_i xp ii im cs).2, d = 0 := by
  rw [resolvePosition_nil]
  exact resolvePosition_separated s x_i xp ii im cs hlen h

/-- … and none on `resolve_velocity` -/
theorem positional_resolve_velocity_separated (s : Sys K) (x_i : List (Tf K))
    (xd_i xdPrev : List (Motion K)) (ii : List (M3 K)) (im : List K) (cs : List (Contact K))
    (dl : List K) (h : ∀ c ∈ cs, ¬ c.dist < 0) {i : Nat} (hi : i < s.numLinks) :
    nth (Positional.resolveVelocity s x_i xd_i xdPrev ii im cs dl) i
      = nth (Positional.resolveVelocity s x_i xd_i xdPrev ii im [] [0]) i := by
  rw [resolveVelocity_separated s x_i xd_i xdPrev ii im cs dl h hi,
    resolveVelocity_separated s x_i xd_i xdPrev ii im [] [0] (by simp) hi]

/-- **Contacts only push (positional), magnitude**: `dlambda = −c/(w₁+w₂+1e-6) > 0` when the
contact penetrates (`c < 0`), for non-negative inverse masses and positive semi-definite inverse
inertias -/
theorem positional_push_only_dlambda (cscale : K) (x_i xPrev : List (Tf K)) (ii : List (M3 K))
    (im : List K) (c : Contact K) (hd : c.dist < 0) (hm : ∀ e ∈ im, 0 ≤ e)
    (hpsd : ∀ m ∈ ii, PSD m) :
    0 < (Positional.translate cscale x_i xPrev ii im c).2.2 :=
  translate_dlambda_pos cscale x_i xPrev ii im c hd hm hpsd

/-- **Contacts only push (positional), direction**: along `n = −frame[0]` the first body moves by
`+collide_scale·mass_inv₁·dlambda`, the second by `−collide_scale·mass_inv₂·dlambda` (unit normal;
the static-friction part is tangential).  With `positional_push_only_dlambda`, `mass_inv ≥ 0` and
`collide_scale ≥ 0` the first is `≥ 0` and the second `≤ 0`: pushed apart, never pulled in. -/
theorem positional_push_only_direction (cscale : K) (x_i xPrev : List (Tf K)) (ii : List (M3 K))
    (im : List K) (c : Contact K) (hn : V3.dot c.normal c.normal = 1) :
    V3.dot (Positional.translate cscale x_i xPrev ii im c).1.pos (-c.normal)
      = cscale * (invMassAt im c.link1 * (Positional.translate cscale x_i xPrev ii im c).2.2)
    ∧ V3.dot (Positional.translate cscale x_i xPrev ii im c).2.1.pos (-c.normal)
      = -(cscale * (invMassAt im c.link2 * (Positional.translate cscale x_i xPrev ii im c).2.2)) :=
  translate_normal_components cscale x_i xPrev ii im c hn

/-- **Rebound algebra (positional).**  Restitution `dv = n(−v_n − min(e·v_n,prev, 0))`: when both
lever arms are parallel to the normal (a sphere on a plane) the impulse along `n = −frame[0]` is
`[penetrating ∧ sinking] · ‖dv‖/(mass_inv₁+mass_inv₂+1e-6) · S/(‖dv‖+1e-6)` with
`S = −v_n − min(e·v_n,prev, 0)`: up to the two `1e-6` regularisers (and the `1+1e-8` of the contact
averaging) the relative normal velocity changes by `S`, to `−min(e·v_n,prev, 0) = e·|v_n,prev|`. -/
theorem positional_rebound (s : Sys K) (x_i : List (Tf K)) (xd_i xdPrev : List (Motion K))
    (ii : List (M3 K)) (im : List K) (c : Contact K) (dlambda : K)
    (hn : V3.dot c.normal c.normal = 1)
    (hl1 : -1 < c.link1 →
      V3.cross (c.pos - (Kin.takeParent x_i default c.link1).pos) (-c.normal) = ⟨0, 0, 0⟩)
    (hl2 : -1 < c.link2 →
      V3.cross (c.pos + V3.smul c.dist c.normal - (Kin.takeParent x_i default c.link2).pos) (-c.normal)
        = ⟨0, 0, 0⟩) :
    V3.dot (Positional.velImpulse s x_i xd_i xdPrev ii im c dlambda).1.vel (-c.normal)
      = if decide (c.dist < 0) && decide (pbdNormalVel x_i xdPrev c ≤ 0)
        then safeNorm3 (V3.smul (restitutionGap x_i xd_i xdPrev c) (-c.normal))
              / (invMassAt im c.link1 + invMassAt im c.link2 + 1e-6)
            * (restitutionGap x_i xd_i xdPrev c
              / (safeNorm3 (V3.smul (restitutionGap x_i xd_i xdPrev c) (-c.normal)) + 1e-6))
        else 0 :=
  velImpulse_rebound s x_i xd_i xdPrev ii im c dlambda hn hl1 hl2

/-- **`math.normalize` returns a unit quaternion** outside the `allclose(·, 0)` ball of `safe_norm`
(for any `sqrt` that squares back on non-negative numbers) -/
theorem normalize_unit (hs : SqrtOK K) {q : Q4 K} (h : allClose0 [q.w, q.x, q.y, q.z] = false) :
    Q4.normSq (normalize4 q) = 1 := normalize4_normSq hs h

/-- **Unit quaternions (positional integrator)**: `integrate_xdd` maps unit rotations to unit
rotations, for every velocity, acceleration, damping and `dt` -/
theorem positional_integrate_unit (s : Sys K) (x : Tf K) (xd xdd : Motion K) (hs : SqrtOK K)
    (h : Q4.normSq x.rot = 1) : Q4.normSq (Positional.integrateXddLink s x xd xdd).1.rot = 1 :=
  integrateXddLink_unit s x xd xdd hs h

/-- **`resolve_position` renormalises on the normal path**: every returned rotation is
`normalize(x_i.rot + Δ)` for the accumulated correction `Δ`, hence a unit quaternion unless that
sum lies in the `allclose` ball around `0` -/
theorem resolve_position_unit (hs : SqrtOK K) (n : Nat) (x_i : List (Tf K)) (cs : List (Contact K))
    (dps : List (Positional.DTf K × Positional.DTf K)) {i : Nat} (hi : i < n) :
    ∃ d : Positional.DTf K,
      (nth (Positional.positionSpread n x_i cs dps) i).rot = normalize4 ((nth x_i i).rot + d.rot)
      ∧ (allClose0 [((nth x_i i).rot + d.rot).w, ((nth x_i i).rot + d.rot).x,
            ((nth x_i i).rot + d.rot).y, ((nth x_i i).rot + d.rot).z] = false
          → Q4.normSq (nth (Positional.positionSpread n x_i cs dps) i).rot = 1) := by
  obtain ⟨d, hd⟩ := positionSpread_row n x_i cs dps hi
  refine ⟨d, by rw [hd], fun h => ?_⟩
  rw [hd]; exact normalize4_normSq hs h

/-- **… and, since the fix of defect D3, on the contact-free path too**: with no contact pair the
returned rotations are `normalize(x_i.rot)`, unit whenever `‖x_i.rot‖² > 4e-16` (the additive joint
correction of `position_update` leaves them near 1) -/
theorem resolve_position_no_contact_unit (hs : SqrtOK K) (s : Sys K) (x_i xp : List (Tf K))
    (ii : List (M3 K)) (im : List K) (h : ∀ t ∈ x_i, 4e-16 < Q4.normSq t.rot) :
    ∀ t ∈ (Positional.resolvePosition s x_i xp ii im []).1, Q4.normSq t.rot = 1 := by
  rw [resolvePosition_nil]
  intro t ht
  unfold noContactReturn at ht
  obtain ⟨u, hu, rfl⟩ := List.mem_map.mp ht
  exact normalize4_normSq hs (not_allClose0_of_normSq (h u hu))

end positional

/-- the same over ℝ -/
theorem positional_integrate_unit_real (s : Sys ℝ) (x : Tf ℝ) (xd xdd : Motion ℝ)
    (h : x.rot.IsUnit) : (Positional.integrateXddLink s x xd xdd).1.rot.IsUnit :=
  integrateXddLink_unit s x xd xdd sqrtOK_real h

/-- **Defect D3 (pinned tree, fixed by ce5b080), witness.**  The pinned early return handed
`state.x_i` back unchanged (`noContactReturnPinned`): a rotation that `position_update` has pushed
off the unit sphere stays non-unit, while the current code (`noContactReturn`) renormalises it. -/
theorem resolve_position_pinned_early_return_not_unit :
    ∃ x_i : List (Tf ℝ), (∀ t ∈ x_i, (4e-16 : ℝ) < Q4.normSq t.rot)
      ∧ (∃ t ∈ noContactReturnPinned x_i, Q4.normSq t.rot ≠ 1)
      ∧ (∀ t ∈ noContactReturn x_i, Q4.normSq t.rot = 1) := by
  refine ⟨[⟨⟨0, 0, 0⟩, ⟨1, 1 / 1000, 0, 0⟩⟩], ?_, ?_, ?_⟩
  · intro t ht
    simp only [List.mem_singleton] at ht; subst ht
    simp only [Q4.normSq]; norm_num
  · refine ⟨_, List.mem_singleton.mpr rfl, ?_⟩
    simp only [Q4.normSq]; norm_num
  · intro t ht
    unfold noContactReturn at ht
    simp only [List.map_cons, List.map_nil, List.mem_singleton] at ht; subst ht
    apply normalize4_normSq sqrtOK_real
    apply not_allClose0_of_normSq
    simp only [Q4.normSq]; norm_num

/-- **Unit quaternions (generalized pipeline)**: the link rotations of a generalized state are the
output of `kinematics.forward`, which ends with `x.replace(rot=vmap(math.normalize)(x.rot)[0])`:
every `x.rot` is `normalize(r)` for some `r`, hence unit unless `r` lies in the `allclose` ball
around `0` (for unit root quaternions and unit joint rotations `r` is a product of unit
quaternions: C01) -/
theorem generalized_forward_unit (s : Sys ℝ) (q qd : List ℝ) :
    ∀ t ∈ Kin.forward s q qd, ∃ r : Q4 ℝ, t.1.rot = normalize4 r
      ∧ (allClose0 [r.w, r.x, r.y, r.z] = false → Q4.normSq t.1.rot = 1) := by
  intro t ht
  unfold Kin.forward at ht
  simp only [List.mem_map] at ht
  obtain ⟨u, _, rfl⟩ := ht
  exact ⟨u.1.rot, rfl, fun h => normalize4_normSq sqrtOK_real h⟩

/-! ## non-vacuity -/

/-- a hinge with range `[-1, 1]` at `q = 0.3` (strictly inside): the hypothesis of
`limit_rows_inactive` holds and the row is zero -/
example : StrictlyInside (0.3 : ℝ) (some (-1)) (some 1) := by
  constructor <;> intro l hl <;> cases hl <;> norm_num

example : limitRow 1 (⟨⟨⟨0, 1, 0⟩, 0⟩, 0, 0, 0, some (-1), some 1, 2⟩ : DofP ℝ)
    ⟨0.02, 1, 0.9, 0.95, 0.001, 0.5, 2⟩ 0 (0.3 : ℝ) [5] = ([0], 0, 0) := by
  have h : InRange (0.3 : ℝ) (some (-1)) (some 1) := by
    constructor <;> intro l hl <;> cases hl <;> norm_num
  exact limitRow_inactive 1 _ _ 0 _ _ h

/-- beyond the range the row is active: `q = 1.5 > hi = 1` gives `pos = −0.5 < 0` -/
example : limitPos (1.5 : ℝ) (some (-1)) (some 1) = 1 - 1.5 ∧ limitPos (1.5 : ℝ) (some (-1)) (some 1) < 0 :=
  limit_row_active_above (by norm_num) (by intro l hl; cases hl; norm_num)

/-- a separated candidate (`dist = 0.01`) satisfies the hypothesis of `contact_rows_inactive`; a
touching one (`dist = 0`) does too (the code's mask is the strict `dist < 0`) -/
example : ¬ ((0.01 : ℝ) < 0) ∧ ¬ ((0 : ℝ) < 0) := by constructor <;> norm_num

/-- an orthonormal contact frame (the identity) satisfies the hypotheses of `pyramid_push_only` -/
example : let c : GContact ℝ := ⟨-1, 0, -0.01, ⟨0, 0, 0⟩, ⟨⟨0, 0, 1⟩, ⟨1, 0, 0⟩, ⟨0, 1, 0⟩⟩, 1,
      ⟨0.02, 1, 0.9, 0.95, 0.001, 0.5, 2⟩⟩
    V3.dot c.frame.r0 (pyramidForce c [1, 2, 0, 3]) = 6 := by
  intro c
  have := (pyramid_push_only c [1, 2, 0, 3] (by intro v hv; simp at hv; rcases hv with rfl | rfl | rfl | rfl <;> norm_num)
    rfl (by simp [c, V3.dot]) (by simp [c, V3.dot]) (by simp [c, V3.dot])).1
  rw [this]; norm_num

/-- the unit-quaternion theorems apply to every unit rotation, e.g. the identity -/
example : (Q4.one : Q4 ℝ).IsUnit := Q4.isUnit_one

/-- a sphere (link 0, mass 2) 1 cm inside the ground plane (world, link −1), falling at 1 m/s:
`apply_n` holds, so `spring_push_only` gives a strictly positive push and the hypotheses of
`spring_rebound_impulse` (lever arm parallel to the normal) are met -/
noncomputable def exSys : Sys ℝ :=
  { types := [.free], parents := [-1], links := [], dofs := [], hasLimit := false, acts := [],
    gravity := ⟨0, 0, -9.81⟩, dt := 0.001, velDamping := 0, angDamping := 0, baumgarteErp := 0.1,
    springMassScale := 0, springInertiaScale := 0, jointScaleAng := 0.2, jointScalePos := 0.5,
    collideScale := 1 }
noncomputable def exState : Spring.State ℝ :=
  { q := [], qd := [], x := [], xd := [], x_i := [⟨⟨0, 0, 0.09⟩, ⟨1, 0, 0, 0⟩⟩],
    xd_i := [⟨⟨0, 0, 0⟩, ⟨0, 0, -1⟩⟩], j := [], jd := [], a_p := [], a_c := [],
    i_inv := [⟨⟨1, 0, 0⟩, ⟨0, 1, 0⟩, ⟨0, 0, 1⟩⟩], mass := [2] }
noncomputable def exContact : Contact ℝ := ⟨-1, 0, -0.01, ⟨0, 0, -0.005⟩, ⟨0, 0, 1⟩, 1, 0.5⟩

example : (Spring.impulse exSys exState exContact).2 = true := by
  simp only [Spring.impulse, exSys, exState, exContact]
  norm_num [takeWrap, maskV, maskS, V3.dot, V3.cross, V3.smul, Spring.flatInv]

example : V3.dot exContact.normal exContact.normal = 1 := by simp [exContact, V3.dot]

example : (-1 : Int) < exContact.link2 →
    V3.cross (exContact.pos - (takeWrap exState.x_i exContact.link2).pos) (-exContact.normal) = ⟨0, 0, 0⟩ := by
  intro _
  simp [exContact, exState, takeWrap, V3.cross, V3.sub_def, V3.neg_def]

/-- the identity inverse inertia is positive semi-definite and `1/m = 0.5 ≥ 0`: the hypotheses of
`positional_push_only_dlambda` are met by the same contact (`dist = −0.01 < 0`) -/
example : PSD (⟨⟨1, 0, 0⟩, ⟨0, 1, 0⟩, ⟨0, 0, 1⟩⟩ : M3 ℝ) ∧ exContact.dist < 0 := by
  constructor
  · intro v
    simp only [V3.dot, M3.mulVec]
    nlinarith [mul_self_nonneg v.x, mul_self_nonneg v.y, mul_self_nonneg v.z]
  · simp [exContact]; norm_num

end Brax.C06

/-! # Deepening: the joint-limit theorems stated on the joint coordinates `q`

(`Lemmas/C06Q.lean`, notes `notes/C06-deepen.md`.)  Theorems 11–13, 22, 24 above have their hypothesis
on the joint angle / offset the code *measures*.  Below the hypothesis is on `q`: the link is in the
pure joint configuration `j = jcalc q` of a supported kind —

* `PureOne true lq`: hinge about a unit axis (`q ∈ (−π, π]`) or slide along a unit axis (`|q| ≤ 2`);
* `PureStack true lq`: two / three hinges with orthonormal axes of EITHER handedness (`a2 = ±a0×a1`;
  the left-handed case is the configuration of defect D7), two / three orthonormal slides, one or two
  slides followed by a hinge; charts: outer hinges `(−π, π]`, middle hinge and the hinge of
  slide–hinge `|q| ≤ 1.2`, slides `|q| ≤ 2` —

and the clauses `true = true → InLim q_k lo_k hi_k` of these predicates are the range hypotheses
(`lo ≤ q ≤ hi`, an absent bound is `∓∞`: weaker than the property's *strictly inside*, see
`strictlyInside_inLim`).  The measured coordinates are then `q` by C08's identities (`hinge_psi`,
`hinge2_angles`, `hinge3_angles`, `hinge_theta`, `hinge_phi`) — which is where D7 lived. -/
namespace Brax.C06
open Brax MC C04L C06L

/-- the property's hypothesis implies the one the predicates carry -/
theorem strictlyInside_inLim {q : ℝ} {lo hi : Option ℝ} (h : StrictlyInside q lo hi) :
    InLim q lo hi := inLim_of_strictlyInside h

/-! ## spring pipeline -/

/-- **Spring, one link, on `q`: range limits that are not reached have no influence.**  `lq` = the
link's slice of `(q, qd, dofs)`, `l` = the slice of `(tau, dofs)` that `joints.resolve` hands to
`_one_dof/_two_dof/_three_dof` (`l.qd` carries `tau`).  With `j = jcalc q` and `q` inside every range,
the joint force with `dof.limit` equals the joint force of the model without limits — for ANY joint
velocity `jd` and ANY `tau` (not only at rest). -/
theorem spring_limit_inert_q (lk : LinkP ℝ) (lq l : Kin.LinkIn ℝ) (jd : Motion ℝ)
    (h : PureOne true lq ∨ PureStack true lq) (hd : l.dofs = lq.dofs) :
    Spring.jointForce true lk (Kin.jcalc lq).1 jd l
      = Spring.jointForce false lk (Kin.jcalc lq).1 jd l :=
  jointForce_limit_inert_q lk lq l jd h hd

/-- **Spring, all links** (`AllPureInside s j tau`: every non-free link `i` has `j_i = jcalc lq_i` with
`lq_i` as above): `joints.resolve` returns the same constraint forces as for the model with every
range removed (`noLimits s` = `s` with `dof.limit = None`), for any `jd`, `tau`. -/
theorem spring_resolve_limit_inert_q (s : Sys ℝ) (st : Spring.State ℝ) (tau : List ℝ)
    (h : AllPureInside s st.j tau) :
    Spring.jointForces s st.j st.jd tau = Spring.jointForces (noLimits s) st.j st.jd tau
    ∧ Spring.resolve s st tau = Spring.resolve (noLimits s) st tau :=
  ⟨jointForces_limit_inert_q s st.j st.jd tau h, resolve_limit_inert_q s st tau h⟩

/-- **Spring, one whole step**: "a step gives the same result as with the limits removed" — for any
state whose joint transforms are pure configurations with `q` inside every range, any velocities,
action, gravity, contacts (`cf`) and `inv` (nothing else in `pipeline.step` reads `dof.limit`). -/
theorem spring_step_limit_inert_q (inv : List (Tf ℝ) → List (Motion ℝ) → List ℝ × List ℝ)
    (cf : List (Tf ℝ) → List (Contact ℝ)) (s : Sys ℝ) (st : Spring.State ℝ) (act : List ℝ)
    (h : AllPureInside s st.j (toTau s act st.q st.qd)) :
    Spring.step inv cf s st act = Spring.step inv cf (noLimits s) st act :=
  step_limit_inert_q inv cf s st act h

/-- **Spring, one step from `pipeline.init(sys, q, 0)`: every hypothesis is on `sys` and `q`.**
`TreeOK s` (consistent tree, unit link frames, identity joint orientation: `Sys.WF` +
`mjcf.load_model`), every link slice of `q` a free link with a unit quaternion, a `PureOne` or a
`PureStack` link with `q` inside every range.  Then `j = world_to_joint(forward(q, 0))` is `jcalc` of
the slices (C04 `w2j_rest` / C08 `worldToJoint_forward_id`) and the step equals the step of the
limit-free model. -/
theorem spring_step_init_limit_inert_q (inv : List (Tf ℝ) → List (Motion ℝ) → List ℝ × List ℝ)
    (cf : List (Tf ℝ) → List (Contact ℝ)) (s : Sys ℝ) (q act : List ℝ) (ht : C04I.TreeOK s)
    (hk : ∀ l ∈ C04I.ins s q, C04I.RestKind true l) :
    Spring.step inv cf s (Spring.init s q (List.replicate s.nv 0)) act
      = Spring.step inv cf (noLimits s) (Spring.init s q (List.replicate s.nv 0)) act :=
  step_init_limit_inert_q inv cf s q act ht hk

/-! ## positional pipeline -/

/-- **Positional, one link, on `q`.**  For a 1-dof link or one of the six stack kinds in the pure
configuration `jcalc q` with `q` inside every range — the angle of a hinge in the MIDDLE of a stack
outside the `allclose` window of `normalize(a1 × p0)` (`StackMid`: `θ = 0 ∨ |sin θ| > 1e-7`, see
`notes/C04-deepen2.md`) — `_three_dof_joint_update ∘ _sphericalize` gives the same joint displacement
with `dof.limit` as with `dof.limit = None`; both are zero (the clip leaves the measured `q` alone). -/
theorem positional_limit_inert_q (lq l : Kin.LinkIn ℝ)
    (h : PureOne true lq ∨ (PureStack true lq ∧ StackMid lq)) (ht : l.typ = lq.typ)
    (hd : l.dofs = lq.dofs) :
    Positional.threeDofJointUpdate (Kin.jcalc lq).1 (Positional.sphericalize true l).1
        (Positional.sphericalize true l).2
      = Positional.threeDofJointUpdate (Kin.jcalc lq).1 (Positional.sphericalize false l).1
        (Positional.sphericalize false l).2
    ∧ Positional.threeDofJointUpdate (Kin.jcalc lq).1 (Positional.sphericalize true l).1
        (Positional.sphericalize true l).2 = (⟨0, 0, 0⟩, ⟨0, 0, 0⟩) :=
  threeDofJointUpdate_limit_inert_q lq l h ht hd

/-- **Positional, all links**: `joints.position_update` is the same with and without limits when the
joint transforms it computes (`world_to_joint(x, xd)`) are pure configurations with `q` inside every
range (`AllPureInsidePos`).  (In `pipeline.step` this function acts on the pose AFTER the acceleration
update, so there is no step-level statement on the incoming `q`.) -/
theorem positional_position_update_limit_inert_q (s : Sys ℝ) (st : Positional.State ℝ)
    (h : AllPureInsidePos s ((Kin.worldToJoint s st.x st.xd).map (·.1))) :
    Positional.jointDisplacements s ((Kin.worldToJoint s st.x st.xd).map (·.1))
        ((Kin.worldToJoint s st.x st.xd).map (·.2.2.1))
      = Positional.jointDisplacements (noLimits s) ((Kin.worldToJoint s st.x st.xd).map (·.1))
        ((Kin.worldToJoint s st.x st.xd).map (·.2.2.1))
    ∧ Positional.positionUpdate s st = Positional.positionUpdate (noLimits s) st :=
  ⟨jointDisplacements_limit_inert_q s _ _ h, positionUpdate_limit_inert_q s st h⟩

/-! ## generalized pipeline: inactive EXACTLY when `q` is in the range -/
section generalizedQ
variable {K : Type} [Field K] [LinearOrder K] [IsStrictOrderedRing K] [HasPow K]

/-- **`jac_limit`'s position term**: `pos = min(min(q−lo, hi−q), 0)` is `0` exactly when
`lo ≤ q ≤ hi`, and the mask `pos < 0` holds exactly when `q` is outside the closed range -/
theorem limit_pos_zero_iff_in_range {q : K} {lo hi : Option K} :
    (limitPos q lo hi = 0 ↔ InRange q lo hi) ∧ (limitPos q lo hi < 0 ↔ ¬ InRange q lo hi) :=
  ⟨limitPos_eq_zero_iff, limitPos_neg_iff⟩

/-- **a limit row is the zero row exactly when its coordinate is in the range**; outside, entry `di`
of the jacobian row is `side = ±1` -/
theorem limit_row_zero_iff_in_range (nv : Nat) (d : DofP K) (p : SolverParams K) (di : Nat)
    (hdi : di < nv) (q : K) (qd : List K) :
    (limitRow nv d p di q qd).1 = List.replicate nv 0 ↔ InRange q d.lo d.hi :=
  limitRow_zero_iff nv d p di hdi q qd

/-- `constraint_force_inert` with the property's own hypothesis: every limited coordinate of `q`
STRICTLY inside its range, every contact candidate separated ⇒ the constraint force is that of the
limit-free, collision-free model, for any solver on either side -/
theorem constraint_force_inert_strict (solver solver' : List (List K) → List K → List K) (s : Sys K)
    (sp : List (SolverParams K)) (com : List (V3 K)) (cdof : List (Motion K)) (q qd : List K)
    (cs : List (GContact K)) (minv : List (List K)) (qfs : List K)
    (hl : AllStrictlyInside s q) (hc : ∀ c ∈ cs, ¬ c.dist < 0) :
    force solver s.nv (jacobian s sp com cdof q qd cs).1 (jacobian s sp com cdof q qd cs).2.1
        (jacobian s sp com cdof q qd cs).2.2 minv qfs
      = force solver' s.nv [] [] [] minv qfs :=
  constraint_force_inert solver solver' s sp com cdof q qd cs minv qfs hl.allInRange hc

end generalizedQ

/-! ## non-vacuity: the limited LEFT-HANDED three-hinge stack of defect D7 -/

noncomputable def exDofQ (ang vel : V3 ℝ) (lo hi : Option ℝ) : DofP ℝ :=
  { motion := ⟨ang, vel⟩, armature := 0, stiffness := 0, damping := 1 / 10, lo := lo, hi := hi,
    invweight := 1 }

/-- hinges about `(x, y, −z)` (left-handed: `a2 = −a0×a1`) with asymmetric ranges
`[−1/2, 1] × [−1, 1/5] × [−3/10, 9/10]` at `q = (3/10, −2/5, 1/2)` -/
noncomputable def exD7 : Kin.LinkIn ℝ :=
  ⟨.three, [3 / 10, -2 / 5, 1 / 2], [0, 0, 0],
    [exDofQ ⟨1, 0, 0⟩ ⟨0, 0, 0⟩ (some (-1 / 2)) (some 1),
     exDofQ ⟨0, 1, 0⟩ ⟨0, 0, 0⟩ (some (-1)) (some (1 / 5)),
     exDofQ ⟨0, 0, -1⟩ ⟨0, 0, 0⟩ (some (-3 / 10)) (some (9 / 10))]⟩

/-- every coordinate is STRICTLY inside its range -/
theorem exD7_strict :
    StrictlyInside (3 / 10 : ℝ) (some (-1 / 2)) (some 1)
    ∧ StrictlyInside (-2 / 5 : ℝ) (some (-1)) (some (1 / 5))
    ∧ StrictlyInside (1 / 2 : ℝ) (some (-3 / 10)) (some (9 / 10)) := by
  refine ⟨⟨fun l hl => ?_, fun u hu => ?_⟩, ⟨fun l hl => ?_, fun u hu => ?_⟩,
    ⟨fun l hl => ?_, fun u hu => ?_⟩⟩ <;>
  first
    | (cases hl; norm_num)
    | (cases hu; norm_num)

theorem exD7_pure : PureStack true exD7 := by
  have hpi := Real.two_le_pi
  obtain ⟨s0, s1, s2⟩ := exD7_strict
  exact PureStack.hhh _ _ _ ⟨1, 0, 0⟩ ⟨0, 1, 0⟩ ⟨0, 0, -1⟩ _ _ _ 0 0 0 rfl rfl rfl rfl
    (by simp [V3.dot]) (by simp [V3.dot]) (by simp [V3.dot]) (Or.inr (by simp [V3.cross]))
    (by linarith) (by linarith) (by rw [abs_le]; constructor <;> norm_num) (by linarith) (by linarith)
    (fun _ => strictlyInside_inLim s0) (fun _ => strictlyInside_inLim s1)
    (fun _ => strictlyInside_inLim s2)

theorem exD7_stackMid : StackMid exD7 := by
  intro d1 q1 _ hq
  simp [exD7] at hq
  subst hq
  exact Or.inr (midOK_of_abs _ (by rw [abs_of_neg] <;> norm_num) (by rw [abs_of_neg] <;> norm_num))

/-- the spring limit force of the D7 stack vanishes for every `jd`, `tau`: instance of
`spring_limit_inert_q` -/
example (lk : LinkP ℝ) (jd : Motion ℝ) (t0 t1 t2 : ℝ) :
    Spring.jointForce true lk (Kin.jcalc exD7).1 jd ⟨.three, [], [t0, t1, t2], exD7.dofs⟩
      = Spring.jointForce false lk (Kin.jcalc exD7).1 jd ⟨.three, [], [t0, t1, t2], exD7.dofs⟩ :=
  spring_limit_inert_q lk exD7 _ jd (Or.inr exD7_pure) rfl

/-- … and the positional joint update (the function defect D7 was in): instance of
`positional_limit_inert_q` -/
example :
    Positional.threeDofJointUpdate (Kin.jcalc exD7).1 (Positional.sphericalize true exD7).1
        (Positional.sphericalize true exD7).2
      = Positional.threeDofJointUpdate (Kin.jcalc exD7).1 (Positional.sphericalize false exD7).1
        (Positional.sphericalize false exD7).2 :=
  (positional_limit_inert_q exD7 exD7 (Or.inr ⟨exD7_pure, exD7_stackMid⟩) rfl rfl).1

/-- a limited slide `[−1, 1/2]` at `q = −3/4` along `(0, 3/5, 4/5)`: `PureOne` -/
example : PureOne true ⟨.one, [-3 / 4], [0],
    [exDofQ ⟨0, 0, 0⟩ ⟨0, 3 / 5, 4 / 5⟩ (some (-1)) (some (1 / 2))]⟩ := by
  refine PureOne.slide _ ⟨0, 3 / 5, 4 / 5⟩ _ 0 rfl rfl (by simp [V3.dot]; norm_num)
    (by rw [abs_le]; constructor <;> norm_num) (fun _ => ⟨fun l hl => ?_, fun u hu => ?_⟩)
  · simp [exDofQ] at hl; rw [← hl]; norm_num
  · simp [exDofQ] at hu; rw [← hu]; norm_num

/-- a whole system for `spring_step_init_limit_inert_q`: free root carrying the D7 stack, WITH gravity -/
noncomputable def exLkQ : LinkP ℝ :=
  { tf := ⟨⟨0, 0, 0⟩, ⟨1, 0, 0, 0⟩⟩, joint := ⟨⟨0, 0, 0⟩, ⟨1, 0, 0, 0⟩⟩,
    inertia := ⟨⟨⟨0, 0, 0⟩, ⟨1, 0, 0, 0⟩⟩, ⟨⟨1, 0, 0⟩, ⟨0, 1, 0⟩, ⟨0, 0, 1⟩⟩, 1⟩,
    invweight := 1, cStiffness := 1, cVelDamping := 1, cLimitStiffness := 1, cAngDamping := 1 }

noncomputable def exSysQ : Sys ℝ :=
  { types := [.free, .three], parents := [-1, 0], links := [exLkQ, exLkQ],
    dofs := [exDofQ ⟨0, 0, 0⟩ ⟨1, 0, 0⟩ none none, exDofQ ⟨0, 0, 0⟩ ⟨0, 1, 0⟩ none none,
      exDofQ ⟨0, 0, 0⟩ ⟨0, 0, 1⟩ none none, exDofQ ⟨1, 0, 0⟩ ⟨0, 0, 0⟩ none none,
      exDofQ ⟨0, 1, 0⟩ ⟨0, 0, 0⟩ none none, exDofQ ⟨0, 0, 1⟩ ⟨0, 0, 0⟩ none none,
      exDofQ ⟨1, 0, 0⟩ ⟨0, 0, 0⟩ (some (-1 / 2)) (some 1),
      exDofQ ⟨0, 1, 0⟩ ⟨0, 0, 0⟩ (some (-1)) (some (1 / 5)),
      exDofQ ⟨0, 0, -1⟩ ⟨0, 0, 0⟩ (some (-3 / 10)) (some (9 / 10))],
    hasLimit := true, acts := [], gravity := ⟨0, 0, -981 / 100⟩, dt := 0.002, velDamping := 0,
    angDamping := 0, baumgarteErp := 0.1, springMassScale := 0, springInertiaScale := 0,
    jointScaleAng := 0.2, jointScalePos := 0.5, collideScale := 1 }

noncomputable def exQQ : List ℝ := [0, 0, 1, 3 / 5, 0, 4 / 5, 0, 3 / 10, -2 / 5, 1 / 2]

theorem exSysQ_slices : C04I.ins exSysQ exQQ
    = [⟨.free, [0, 0, 1, 3 / 5, 0, 4 / 5, 0], [0, 0, 0, 0, 0, 0],
        [exDofQ ⟨0, 0, 0⟩ ⟨1, 0, 0⟩ none none, exDofQ ⟨0, 0, 0⟩ ⟨0, 1, 0⟩ none none,
         exDofQ ⟨0, 0, 0⟩ ⟨0, 0, 1⟩ none none, exDofQ ⟨1, 0, 0⟩ ⟨0, 0, 0⟩ none none,
         exDofQ ⟨0, 1, 0⟩ ⟨0, 0, 0⟩ none none, exDofQ ⟨0, 0, 1⟩ ⟨0, 0, 0⟩ none none]⟩, exD7] := by
  have hnv : exSysQ.nv = 9 := rfl
  unfold C04I.ins
  rw [hnv]
  simp [exSysQ, exQQ, exD7, Kin.linkSlices, LinkType.qWidth, LinkType.qdWidth, List.replicate]

theorem exSysQ_ok : C04I.TreeOK exSysQ ∧ ∀ l ∈ C04I.ins exSysQ exQQ, C04I.RestKind true l := by
  refine ⟨C04I.TreeOK.of_WF exSysQ (by decide) ?_, ?_⟩
  · intro lk hlk
    simp only [exSysQ, List.mem_cons, List.not_mem_nil, or_false, or_self] at hlk
    subst hlk
    exact ⟨by simp [exLkQ, Q4.normSq], rfl⟩
  · intro l hl
    rw [exSysQ_slices] at hl
    simp only [List.mem_cons, List.not_mem_nil, or_false] at hl
    rcases hl with rfl | rfl
    · exact C04I.RestKind.free 0 0 1 (3 / 5) 0 (4 / 5) 0 _ rfl (by norm_num)
    · exact C04I.RestKind.stack exD7_pure

/-- all hypotheses of `spring_step_init_limit_inert_q` hold together -/
example (inv : List (Tf ℝ) → List (Motion ℝ) → List ℝ × List ℝ)
    (cf : List (Tf ℝ) → List (Contact ℝ)) (act : List ℝ) :
    Spring.step inv cf exSysQ (Spring.init exSysQ exQQ (List.replicate exSysQ.nv 0)) act
      = Spring.step inv cf (noLimits exSysQ) (Spring.init exSysQ exQQ (List.replicate exSysQ.nv 0)) act :=
  spring_step_init_limit_inert_q inv cf exSysQ exQQ act exSysQ_ok.1 exSysQ_ok.2

/-! ## sharpness: the chart hypothesis of `PureOne.hinge` cannot be dropped -/

/-- **Spring (and, on the real code, positional): a hinge coordinate beyond `π` is measured modulo
`2π`.**  For `π < q ≤ 3π` the limit block of `_one_dof` sees `q − 2π`; when `lo ≤ q ≤ hi` but
`q − 2π < lo` the limit torque `−k·(q − 2π − lo)·axis` is applied although `q` is inside its range: the
joint force with limits differs from the one without.  (Real code, hinge about `y`, `qd = 0.7`, one step: range `[−1, 4]`, `q = 3.5`: `qd′ = 213.6` (spring) /
`98.0` (positional) with the limit, `0.7` without; range `[1, 5]`, `q = 4.5`: `332.9` / `35.9` vs `0.7`;
the generalized pipeline is unaffected in both.  Ranges of the property's generator stay within
`±2.5 < π`, so this is outside its quantifier: see `notes/C06-deepen.md`.) -/
theorem spring_hinge_beyond_pi_limit_active (lk : LinkP ℝ) (jd : Motion ℝ) (d : DofP ℝ) (a : V3 ℝ)
    (q qd tau l : ℝ) (hdm : d.motion = ⟨a, ⟨0, 0, 0⟩⟩) (ha : V3.dot a a = 1)
    (h1 : Real.pi < q) (h2 : q ≤ 3 * Real.pi) (hlo : d.lo = some l) (hl : q - 2 * Real.pi < l)
    (hhi : ∀ u, d.hi = some u → q - 2 * Real.pi ≤ u) (hk : lk.cLimitStiffness ≠ 0) :
    Spring.oneDof true lk (Kin.jcalc ⟨.one, [q], [qd], [d]⟩).1 jd d tau
      ≠ Spring.oneDof false lk (Kin.jcalc ⟨.one, [q], [qd], [d]⟩).1 jd d tau :=
  oneDof_hinge_wrap_ne lk jd d a q qd tau l hdm ha h1 h2 hlo hl hhi hk

/-- a concrete case confirmed on the real code: hinge about `y`, range `[1, 5]`, `q = 9/2` is inside the
range and satisfies every hypothesis of `spring_hinge_beyond_pi_limit_active` (only `2 ≤ π ≤ 4` is used) -/
example (jd : Motion ℝ) (qd tau : ℝ) :
    InRange (9 / 2 : ℝ) (some 1) (some 5)
    ∧ Spring.oneDof true exLkQ (Kin.jcalc ⟨.one, [9 / 2], [qd],
          [exDofQ ⟨0, 1, 0⟩ ⟨0, 0, 0⟩ (some 1) (some 5)]⟩).1 jd
          (exDofQ ⟨0, 1, 0⟩ ⟨0, 0, 0⟩ (some 1) (some 5)) tau
      ≠ Spring.oneDof false exLkQ (Kin.jcalc ⟨.one, [9 / 2], [qd],
          [exDofQ ⟨0, 1, 0⟩ ⟨0, 0, 0⟩ (some 1) (some 5)]⟩).1 jd
          (exDofQ ⟨0, 1, 0⟩ ⟨0, 0, 0⟩ (some 1) (some 5)) tau := by
  have hp2 := Real.two_le_pi
  have hp4 := Real.pi_le_four
  refine ⟨⟨fun l hl => ?_, fun u hu => ?_⟩, ?_⟩
  · cases hl; norm_num
  · cases hu; norm_num
  · refine spring_hinge_beyond_pi_limit_active exLkQ jd _ ⟨0, 1, 0⟩ (9 / 2) qd tau 1 rfl
      (by simp [V3.dot]) (by linarith) (by linarith) rfl (by linarith) ?_ (by simp [exLkQ])
    intro u hu
    simp [exDofQ] at hu
    rw [← hu]; linarith

/-- beyond the range the generalized limit row is NOT zero (the iff is not vacuous) -/
example : ¬ InRange (3 / 2 : ℝ) (some (-1)) (some 1) := by
  intro h; have := h.2 1 rfl; norm_num at this

end Brax.C06

/-! ## deepening: the constraint solver is MODELLED — no hypothesis about it remains

`Brax/Model/C06Solver.lean` transcribes what `jaxopt.ProjectedGradient(objective, projection_non_negative,
maxiter=sys.solver_iterations, implicit_diff=False, maxls=sys.solver_maxls).run(zeros_like(b)).params` computes
(FISTA with backtracking line search, `objective(x) = Σ ½ (a x + b)²`; tied to the real library by
`harness/corr_C06_solver.py` on every run: equal iteration counts, 1e-9 on the result).  `pgSolve a b maxiter tol eps maxls`
replaces the parameter `solver a b` of `force`.  The theorems hold for EVERY `a`, `b` (any shapes, not only
symmetric positive definite), iteration bound, tolerance, `eps`, line-search bound and any `sqrt`. -/
namespace Brax.C06
open Brax MC C04L C06L

section solver
variable {K : Type} [Field K] [LinearOrder K] [IsStrictOrderedRing K] [HasPow K] [HasSqrt K]

/-- **The solver returns `x ≥ 0`**: every entry of the returned vector is nonnegative.  (The returned point
is the initial `zeros` when `maxiter = 0`, otherwise the last line-search candidate, which is an output of
`projection_non_negative = relu` — whether or not the sufficient-decrease test succeeded and whichever way the
stopping rule `error > tol` went.) -/
theorem pgSolve_nonneg (a : List (List K)) (b : List K) (maxiter : Nat) (tol eps : K) (maxls : Nat) :
    ∀ v ∈ pgSolve a b maxiter tol eps maxls, 0 ≤ v :=
  C06L.pgSolve_nonneg a b maxiter tol eps maxls

/-- one multiplier per constraint row -/
theorem pgSolve_length (a : List (List K)) (b : List K) (maxiter : Nat) (tol eps : K) (maxls : Nat) :
    (pgSolve a b maxiter tol eps maxls).length = b.length :=
  C06L.pgSolve_length a b maxiter tol eps maxls

/-- **Inactive ⇒ the multipliers are exactly zero.**  If the gradient of the objective at the initial point `0`
(`residual(0) @ a`; `= b @ a = aᵀ b` when `a` has a row per entry of `b`: `solver_gradient_at_zero`) is `≥ 0`
componentwise, the solver returns exactly `0`, for every iteration bound, tolerance, `eps`, line-search bound.
NOTE the hypothesis is `aᵀ b ≥ 0`, not `b ≥ 0`: brax minimises `½‖a x + b‖²` over `x ≥ 0` (least squares), not
the complementarity problem `0 ≤ x ⊥ a x + b ≥ 0`; for one row the two agree (`a₁₁ b₁ ≥ 0 ⇔ b₁ ≥ 0` when
`a₁₁ > 0`), for coupled rows they differ (see `notes/C06-deepen-solver.md`). -/
theorem pgSolve_zero_of_inactive (a : List (List K)) (b : List K) (maxiter : Nat) (tol eps : K)
    (maxls : Nat) (hg : ∀ v ∈ grad a b (List.replicate b.length 0), 0 ≤ v) :
    pgSolve a b maxiter tol eps maxls = List.replicate b.length 0 :=
  pgSolve_zero_of_grad_nonneg a b maxiter tol eps maxls hg

/-- the gradient at `0` in matrix form: `b @ a` (entry `j` is `Σ_i b_i a_ij`) -/
theorem solver_gradient_at_zero (a : List (List K)) (b : List K) (h : b.length ≤ a.length) :
    grad a b (List.replicate b.length 0) = vecMat b.length b a :=
  grad_zero_eq a b h

/-- `b = 0` ⇒ the solver returns `0` (whatever `a` is) -/
theorem pgSolve_zero_of_b_zero (a : List (List K)) (b : List K) (maxiter : Nat) (tol eps : K)
    (maxls : Nat) (hb : ∀ e ∈ b, e = 0) :
    pgSolve a b maxiter tol eps maxls = List.replicate b.length 0 :=
  C06L.pgSolve_zero_of_b_zero a b maxiter tol eps maxls hb

/-- `constraint.force` with the modelled solver: the multipliers that `con_jac.T @ ·` is applied to are `≥ 0`,
one per row — no assumption about the solver -/
theorem force_solved_multipliers (nv : Nat) (jac : List (List K)) (diag aref : List K)
    (minv : List (List K)) (qfs : List K) (maxiter : Nat) (tol eps : K) (maxls : Nat)
    (hne : jac ≠ []) :
    ∃ x : List K, x.length = jac.length ∧ (∀ v ∈ x, 0 ≤ v)
      ∧ force (fun a b => pgSolve a b maxiter tol eps maxls) nv jac diag aref minv qfs = jacTx nv jac x := by
  refine ⟨pgSolve (forceAb nv jac diag aref minv qfs).1 (forceAb nv jac diag aref minv qfs).2
    maxiter tol eps maxls, ?_, C06L.pgSolve_nonneg _ _ _ _ _ _, ?_⟩
  · rw [C06L.pgSolve_length]
    unfold forceAb
    exact tab_length _ _
  · unfold force
    rw [if_neg (by simpa using hne)]

/-- **Contacts only push (generalized), with the solver modelled.**  `jacobian` puts the four pyramid rows of
contact `i` at positions `4i … 4i+3` (contact rows first, four per candidate); the four multipliers the modelled
solver returns there give a contact force `F = Σ_k x_k · dir_k` on the second body whose normal component is
`n · F = Σ_k x_k ≥ 0`.  `pyramid_push_only` without its hypothesis `x ≥ 0`. -/
theorem contacts_only_push_solved (c : GContact K) (a : List (List K)) (b : List K) (maxiter : Nat)
    (tol eps : K) (maxls : Nat) (i : Nat) (hi : 4 * i + 4 ≤ b.length)
    (hn : V3.dot c.frame.r0 c.frame.r0 = 1) (h1 : V3.dot c.frame.r0 c.frame.r1 = 0)
    (h2 : V3.dot c.frame.r0 c.frame.r2 = 0) :
    V3.dot c.frame.r0 (pyramidForce c (((pgSolve a b maxiter tol eps maxls).drop (4 * i)).take 4))
        = (((pgSolve a b maxiter tol eps maxls).drop (4 * i)).take 4).sum
    ∧ 0 ≤ V3.dot c.frame.r0
        (pyramidForce c (((pgSolve a b maxiter tol eps maxls).drop (4 * i)).take 4)) := by
  apply pyramid_push_only c _ _ _ hn h1 h2
  · intro v hv
    exact C06L.pgSolve_nonneg a b maxiter tol eps maxls v
      (List.mem_of_mem_drop (List.mem_of_mem_take hv))
  · rw [List.length_take, List.length_drop, C06L.pgSolve_length]
    omega

/-- the contact block of `jacobian` has exactly four rows per candidate (so contact `i` owns rows `4i … 4i+3`) -/
theorem jacContact_rows (s : Sys K) (com : List (V3 K)) (cdof : List (Motion K)) (qd : List K)
    (cs : List (GContact K)) : (jacContact s com cdof qd cs).1.length = 4 * cs.length := by
  unfold jacContact
  simp only [List.length_map]
  induction cs with
  | nil => rfl
  | cons c cs ih =>
    rw [List.flatMap_cons, List.length_append, ih]
    simp [contactRows, contactDirs]
    omega

/-- **Inert, with the solver modelled: the multipliers themselves vanish.**  Limits unreached and contacts
separated ⇒ the `b` handed to the solver is `0` and the modelled solver returns exactly `0` (so `qf_constraint = Jᵀ0`;
`constraint_force_inert` showed `Jᵀx = 0` for whatever `x`). -/
theorem inert_multipliers_zero (s : Sys K) (sp : List (SolverParams K)) (com : List (V3 K))
    (cdof : List (Motion K)) (q qd : List K) (cs : List (GContact K)) (minv : List (List K))
    (qfs : List K) (maxiter : Nat) (tol eps : K) (maxls : Nat)
    (hl : AllInRange s q) (hc : ∀ c ∈ cs, ¬ c.dist < 0) :
    pgSolve
      (forceAb s.nv (jacobian s sp com cdof q qd cs).1 (jacobian s sp com cdof q qd cs).2.1
        (jacobian s sp com cdof q qd cs).2.2 minv qfs).1
      (forceAb s.nv (jacobian s sp com cdof q qd cs).1 (jacobian s sp com cdof q qd cs).2.1
        (jacobian s sp com cdof q qd cs).2.2 minv qfs).2 maxiter tol eps maxls
      = List.replicate (jacobian s sp com cdof q qd cs).1.length 0 := by
  have hb := forceAb_b_zero s.nv (jacobian s sp com cdof q qd cs).1 (jacobian s sp com cdof q qd cs).2.1
    (jacobian s sp com cdof q qd cs).2.2 minv qfs (jacobian_inactive s sp com cdof q qd cs hl hc)
    (by
      intro e he
      unfold jacobian at he
      simp only [List.mem_append] at he
      rcases he with h | h
      · exact (jacContact_inactive s com cdof qd cs hc).2.2 e h
      · exact (jacLimit_inactive s sp q qd hl).2.2 e h)
  rw [C06L.pgSolve_zero_of_b_zero _ _ _ _ _ _ hb]
  congr 1
  unfold forceAb
  exact tab_length _ _

/-- `constraint_force_inert` with the modelled solver on both sides -/
theorem constraint_force_inert_solved (s : Sys K) (sp : List (SolverParams K)) (com : List (V3 K))
    (cdof : List (Motion K)) (q qd : List K) (cs : List (GContact K)) (minv : List (List K))
    (qfs : List K) (maxiter : Nat) (tol eps : K) (maxls : Nat)
    (hl : AllInRange s q) (hc : ∀ c ∈ cs, ¬ c.dist < 0) :
    force (fun a b => pgSolve a b maxiter tol eps maxls) s.nv (jacobian s sp com cdof q qd cs).1
        (jacobian s sp com cdof q qd cs).2.1 (jacobian s sp com cdof q qd cs).2.2 minv qfs
      = force (fun a b => pgSolve a b maxiter tol eps maxls) s.nv [] [] [] minv qfs :=
  constraint_force_inert _ _ s sp com cdof q qd cs minv qfs hl hc

end solver

/-! ### non-vacuity of the solver theorems -/
section solverExamples
variable {K : Type} [Field K] [LinearOrder K] [IsStrictOrderedRing K] [HasSqrt K]

theorem solver_example_lsLoop (eps : K) (he : 0 ≤ eps) (maxls : Nat) :
    lsLoop [[1]] [-1] [0] (objective [[1]] [-1] [0]) (grad [[1]] [-1] [0]) eps maxls ([1], 1)
      = ([(1 : K)], 1) := by
  cases maxls with
  | zero => rfl
  | succ n =>
    unfold lsLoop
    have : lsCond [[1]] [-1] [0] (objective [[1]] [-1] [0]) (grad [[1]] [-1] [0]) eps ([(1 : K)], 1)
        = false := by
      simp [lsCond, objective, C06.residual, grad, vecMat, tab, dotL, vsub, sqNorm, List.range_succ]
      norm_num
      linarith
    rw [this]; rfl

/-- **the solver is not the zero function**: one active row `a = [[1]]`, `b = [−1]` (the unconstrained
acceleration violates the constraint by 1), one iteration: the multiplier is exactly `1 > 0`, the solution of
`a x + b = 0` (for every tolerance, line-search bound and `eps ≥ 0`) -/
theorem solver_example_active (tol eps : K) (he : 0 ≤ eps) (maxls : Nat) :
    pgSolve [[1]] [-1] 1 tol eps maxls = [(1 : K)] := by
  have hp : proxGrad [0] (grad [[1]] [-1] [0]) (1.0 : K) = [(1 : K)] := by
    simp [proxGrad, grad, C06.residual, vecMat, tab, dotL, relu, maxv, List.range_succ]
    norm_num
  simp only [pgSolve, pgRun, update, lineSearch, initState, List.length_cons, List.length_nil]
  simp only [Nat.reduceAdd, List.replicate, one_ne_zero, if_false]
  rw [hp]
  have h1 : (1.0 : K) = 1 := by norm_num
  rw [h1, solver_example_lsLoop eps he maxls]
  rfl

/-- the hypothesis of `pgSolve_zero_of_inactive` is satisfiable with `b ≠ 0`: `a = [[1]]`, `b = [1]` (the row
is active but the unconstrained acceleration already satisfies it): the multiplier is `0` -/
example (maxiter : Nat) (tol eps : K) (maxls : Nat) :
    pgSolve [[1]] [(1 : K)] maxiter tol eps maxls = [0] := by
  have := pgSolve_zero_of_grad_nonneg [[1]] [(1 : K)] maxiter tol eps maxls (by
    intro v hv
    simp [grad, C06.residual, vecMat, tab, dotL, List.range_succ] at hv
    rw [hv]; norm_num)
  simpa using this

/-- `contacts_only_push_solved` has satisfiable hypotheses: the frame `(z, x, y)`, a 4-row problem -/
example (c : GContact ℝ) (hf : c.frame = ⟨⟨0, 0, 1⟩, ⟨1, 0, 0⟩, ⟨0, 1, 0⟩⟩) (a : List (List ℝ))
    (b0 b1 b2 b3 : ℝ) (maxiter : Nat) (tol eps : ℝ) (maxls : Nat) :
    0 ≤ V3.dot c.frame.r0
      (pyramidForce c (((pgSolve a [b0, b1, b2, b3] maxiter tol eps maxls).drop (4 * 0)).take 4)) :=
  (contacts_only_push_solved c a [b0, b1, b2, b3] maxiter tol eps maxls 0 (by simp)
    (by rw [hf]; simp [V3.dot]) (by rw [hf]; simp [V3.dot]) (by rw [hf]; simp [V3.dot])).2

end solverExamples

end Brax.C06

/-! ### sharpness of `pgSolve_zero_of_inactive`: `aᵀ b ≥ 0` cannot be weakened to `b ≥ 0` -/
namespace Brax.C06
open Brax MC C04L C06L

section solverCoupled
variable {K : Type} [Field K] [LinearOrder K] [IsStrictOrderedRing K] [HasSqrt K]

/-- two coupled rows: `a` symmetric positive definite -/
def exCoupledA : List (List K) := [[1, -9 / 10], [-9 / 10, 1]]
/-- `b ≥ 0`: with zero multipliers every row already has `a x + b ≥ 0` -/
def exCoupledB : List K := [1, 1 / 10]

theorem exCoupled_grad : grad (exCoupledA (K := K)) exCoupledB [0, 0] = [91 / 100, -4 / 5] := by
  simp [exCoupledA, exCoupledB, grad, C06.residual, vecMat, tab, dotL, List.range_succ]
  norm_num

theorem exCoupled_obj0 : objective (exCoupledA (K := K)) exCoupledB [0, 0] = 101 / 200 := by
  simp [exCoupledA, exCoupledB, objective, C06.residual, dotL]
  norm_num

theorem exCoupled_prox1 : proxGrad [0, 0] [91 / 100, -4 / 5] (1 : K) = [0, 4 / 5] := by
  simp [proxGrad, relu, maxv]
  norm_num

theorem exCoupled_prox2 : proxGrad [0, 0] [91 / 100, -4 / 5] ((1 : K) * 0.5) = [0, 2 / 5] := by
  simp [proxGrad, relu, maxv]
  norm_num

theorem exCoupled_cond1 (eps : K) (h : eps < 1 / 4) :
    lsCond (exCoupledA (K := K)) exCoupledB [0, 0] (101 / 200) [91 / 100, -4 / 5] eps ([0, 4 / 5], 1)
      = true := by
  simp [lsCond, exCoupledA, exCoupledB, objective, C06.residual, dotL, vsub, sqNorm]
  norm_num
  linarith

theorem exCoupled_cond2 (eps : K) (h : 0 ≤ eps) :
    lsCond (exCoupledA (K := K)) exCoupledB [0, 0] (101 / 200) [91 / 100, -4 / 5] eps
      ([0, 2 / 5], 1 * 0.5) = false := by
  simp [lsCond, exCoupledA, exCoupledB, objective, C06.residual, dotL, vsub, sqNorm]
  norm_num
  linarith

theorem exCoupled_ls (eps : K) (h0 : 0 ≤ eps) (h : eps < 1 / 4) (maxls : Nat) :
    (lsLoop (exCoupledA (K := K)) exCoupledB [0, 0] (101 / 200) [91 / 100, -4 / 5] eps maxls
        ([0, 4 / 5], 1)).1
      = (if maxls = 0 then [0, 4 / 5] else [0, 2 / 5]) := by
  cases maxls with
  | zero => rfl
  | succ n =>
    unfold lsLoop
    rw [exCoupled_cond1 eps h]
    simp only [if_true, lsBody, exCoupled_prox2]
    cases n with
    | zero => rfl
    | succ m =>
      unfold lsLoop
      rw [exCoupled_cond2 eps h0]
      simp

/-- **brax's solver is least squares, not complementarity.**  `a = [[1, −9/10], [−9/10, 1]]` (symmetric positive
definite), `b = [1, 1/10] ≥ 0` (the complementarity problem `0 ≤ x ⊥ a x + b ≥ 0` has the solution `x = 0`), one
iteration: the modelled solver returns `[0, 2/5]` (`[0, 4/5]` without line search) — a positive multiplier on the second
row, because `aᵀ b = [91/100, −4/5]` has a negative entry.  The real solver returns `[0, 0.4]`, `[0, 0.8]`, and
`[0, 0.4422]` at convergence.  (The force still pushes: `pgSolve_nonneg`.) -/
theorem solver_coupled_rows_force (tol eps : K) (h0 : 0 ≤ eps) (h : eps < 1 / 4) (maxls : Nat) :
    pgSolve (exCoupledA (K := K)) exCoupledB 1 tol eps maxls
      = (if maxls = 0 then [0, 4 / 5] else [0, 2 / 5]) := by
  have h1 : (1.0 : K) = 1 := by norm_num
  have hl : (exCoupledB (K := K)).length = 2 := rfl
  simp only [pgSolve, pgRun, update, lineSearch, initState, hl]
  simp only [one_ne_zero, if_false, List.replicate, Nat.sub_self, iterate]
  rw [exCoupled_grad, exCoupled_obj0, h1, exCoupled_prox1, exCoupled_ls eps h0 h maxls]

/-- … although `b ≥ 0` -/
example : ∀ v ∈ (exCoupledB : List ℝ), 0 ≤ v := by
  intro v hv
  simp [exCoupledB] at hv
  rcases hv with rfl | rfl <;> norm_num

end solverCoupled

end Brax.C06
