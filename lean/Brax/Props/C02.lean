import Brax.Lemmas.C02Root
import Brax.Lemmas.C02FullM
import Brax.Lemmas.ScanLevelsRev
import Brax.Props.C01
/-!
# C02 — generalized-pipeline dynamics terms equal the reference engine

Model: `Brax/Model/C02.lean` (`Brax.Gd`), tied to `/repo` on every run by `harness/corr_C02.py`
(every stage, float 1e-9; exact on the integer lattice for the polynomial stages).
Spec: `Brax/Spec/C02.lean` (`Brax.MjD`, MuJoCo's sequential algorithms), tied to the real
`MjData` by the second leg.  Only property theorems and non-vacuity examples live here.
-/
set_option linter.unusedSectionVars false
namespace Brax.C02
open Brax Kin Gd KinPos

/-! ## Layer B stage 2: the leaves → root `scan.tree` as coded is the backward accumulation -/

/-- **`scan.tree(…, reverse=True)` as coded** — links grouped by depth, `None` carry on the deepest level,
the deeper level's carry scatter-added onto its parents (`jp.zeros(…).at[parent_map].add`), results
inserted at the front, concatenated and reordered — **computes the backward accumulation `revAcc`** the
theorems below are stated with, for every forest whose parents precede their children, and every carry
function of the form `body + child` over a commutative monoid. -/
theorem reverse_scan_levels_eq_accumulation {M : Type} {add : M → M → M} {z : M} (h : CMon add z)
    (ps : List Int) (as : List M) (dflt : M) (hlen : ps.length = as.length) (hwf : ParentsWF ps) :
    scanTreeLevelsRev (addF add) ps as dflt z add = revAcc add ps as :=
  scanTreeLevelsRev_eq_revAcc ps as dflt h hlen hwf

/-- the zero leaves `index_sum` starts from (`jp.zeros`: the unused quaternion leaf is zero too) -/
def zInertia {R : Type} [CommRing R] : Inertia R := ⟨⟨V3.zero, ⟨0, 0, 0, 0⟩⟩, M3.zero, 0⟩

theorem cmon_force {R : Type} [CommRing R] : CMon (Force.add : Force R → Force R → Force R) Force.zero := by
  refine ⟨fun a b c => ?_, fun a b => ?_, fun a => ?_⟩ <;>
    simp only [Force.add, Force.zero, V3.add_def, V3.zero, Force.mk.injEq, V3.mk.injEq] <;>
    and_intros <;> ring

theorem cmon_inertia {R : Type} [CommRing R] : CMon (inertiaAdd : Inertia R → Inertia R → Inertia R) zInertia := by
  refine ⟨fun a b c => ?_, fun a b => ?_, fun a => ?_⟩ <;>
    simp only [inertiaAdd, zInertia, M3.add, M3.zero, Q4.add, V3.add_def, V3.zero, Inertia.mk.injEq, Tf.mk.injEq,
      M3.mk.injEq, Q4.mk.injEq, V3.mk.injEq] <;>
    and_intros <;> ring

/-- `mass.matrix`'s composite-rigid-body scan, as coded = the model's `crb` -/
theorem crb_levels {R : Type} [CommRing R] (ps : List Int) (cinr : List (Inertia R)) (dflt : Inertia R)
    (hlen : ps.length = cinr.length) (hwf : ParentsWF ps) :
    scanTreeLevelsRev (addF inertiaAdd) ps cinr dflt zInertia inertiaAdd = crb ps cinr :=
  scanTreeLevelsRev_eq_revAcc ps cinr dflt cmon_inertia hlen hwf

/-- `dynamics.inverse`'s force scan (`cfrc_fn`), as coded = the accumulation in the model's `inverse` -/
theorem cfrc_levels {R : Type} [CommRing R] (ps : List Int) (frc : List (Force R)) (dflt : Force R)
    (hlen : ps.length = frc.length) (hwf : ParentsWF ps) :
    scanTreeLevelsRev (addF Force.add) ps frc dflt Force.zero Force.add = revAcc Force.add ps frc :=
  scanTreeLevelsRev_eq_revAcc ps frc dflt cmon_force hlen hwf

/-! ## the joint-space inertia matrix is symmetric -/

/-- **`mass.matrix` returns a symmetric matrix**, for every forest, every `cinr`, `cdof`,
armature — by construction (`tril(mx) + tril(mx,-1)ᵀ + diag`), whatever the scalar type. -/
theorem massMatrix_symm {α : Type} [Zero α] [One α] [Add α] [Sub α] [Mul α]
    (ps : List Int) (cinr : List (Inertia α)) (cdof : List (List (Motion α))) (arm : List (List α))
    (i j : Nat) :
    entry (massMatrix ps cinr cdof arm) i j = entry (massMatrix ps cinr cdof arm) j i := by
  unfold massMatrix
  simp only
  generalize ((List.range cdof.length).flatMap fun l =>
    (List.range (cdof.getD l []).length).map fun r => (l, r)) = idx
  rw [entry_map_map idx (fun lr as => massEntry ps (crb ps cinr) cdof arm lr.1 lr.2 as.1 as.2),
    entry_map_map idx (fun lr as => massEntry ps (crb ps cinr) cdof arm lr.1 lr.2 as.1 as.2)]
  cases idx[i]? <;> cases idx[j]? <;> simp only
  exact massEntry_symm _ _ _ _ _ _ _ _

/-! ## the quadratic form of the mass matrix is the kinetic energy (CRB correctness) -/

/-- the flat generalized-velocity vector with entry `X l r` at the `r`-th dof of link `l` -/
def flatVec {R : Type} (cdof : List (List (Motion R))) (X : Nat → Nat → R) : List R :=
  (dofIdx cdof.length (wAt cdof)).map fun lr => X lr.1 lr.2

/-- **`xᵀ M x = Σ_k v_k(x)ᵀ I_k v_k(x) + Σ_i armature_i x_i²`** with
`v_k(x) = Σ_{i ∈ dofs of ancestors-or-self of k} cdof_i x_i` (`velAnc`): the matrix built by
`mass.matrix` (composite inertias by the reverse tree scan, ancestor mask, lower triangle
mirrored, armature on the diagonal) is the joint-space inertia matrix of the tree — for every
forest (parents precede children), every `cdof`, every symmetric `cinr`, over any commutative
ring. -/
theorem massMatrix_eq_keForm {R : Type} [CommRing R] (ps : List Int) (cinr : List (Inertia R))
    (cdof : List (List (Motion R))) (arm : List (List R)) (X : Nat → Nat → R)
    (hps : ps.length = cdof.length) (hI : cinr.length = cdof.length) (hwf : PWF ps)
    (hsym : ∀ x ∈ cinr, SymmI x) :
    quadForm (massMatrix ps cinr cdof arm) (flatVec cdof X)
      = rsum cdof.length (fun k => ke (cinr.getD k dI) (velAnc ps cdof X k))
        + nsum cdof.length (wAt cdof) (fun l r => armAt arm l r * (X l r * X l r)) :=
  quadForm_massMatrix ps cinr cdof arm X hps hI hwf hsym

section ordered
variable {K : Type} [Field K] [LinearOrder K] [IsStrictOrderedRing K]

/-- **positive semidefinite**: when every CoM-frame link inertia is a non-negative form and the
armatures are non-negative, `xᵀ M x ≥ 0`. -/
theorem massMatrix_posSemidef (ps : List Int) (cinr : List (Inertia K))
    (cdof : List (List (Motion K))) (arm : List (List K)) (X : Nat → Nat → K)
    (hps : ps.length = cdof.length) (hI : cinr.length = cdof.length) (hwf : PWF ps)
    (hsym : ∀ x ∈ cinr, SymmI x) (hpsd : ∀ k v, 0 ≤ ke (cinr.getD k dI) v)
    (harm : ∀ l r, l < cdof.length → r < wAt cdof l → 0 ≤ armAt arm l r) :
    0 ≤ quadForm (massMatrix ps cinr cdof arm) (flatVec cdof X) := by
  rw [massMatrix_eq_keForm ps cinr cdof arm X hps hI hwf hsym]
  apply add_nonneg
  · exact rsum_nonneg _ _ fun k _ => hpsd k _
  · exact rsum_nonneg _ _ fun l hl => rsum_nonneg _ _ fun r hr =>
      mul_nonneg (harm l r hl hr) (mul_self_nonneg _)

/-- **positive definite when the armature is positive**: `xᵀ M x > 0` for every `x ≠ 0`. -/
theorem massMatrix_posDef_of_armature (ps : List Int) (cinr : List (Inertia K))
    (cdof : List (List (Motion K))) (arm : List (List K)) (X : Nat → Nat → K)
    (hps : ps.length = cdof.length) (hI : cinr.length = cdof.length) (hwf : PWF ps)
    (hsym : ∀ x ∈ cinr, SymmI x) (hpsd : ∀ k v, 0 ≤ ke (cinr.getD k dI) v)
    (harm : ∀ l r, l < cdof.length → r < wAt cdof l → 0 < armAt arm l r)
    (hX : ∃ l r, l < cdof.length ∧ r < wAt cdof l ∧ X l r ≠ 0) :
    0 < quadForm (massMatrix ps cinr cdof arm) (flatVec cdof X) := by
  rw [massMatrix_eq_keForm ps cinr cdof arm X hps hI hwf hsym]
  obtain ⟨l, r, hl, hr, hx⟩ := hX
  apply add_pos_of_nonneg_of_pos
  · exact rsum_nonneg _ _ fun k _ => hpsd k _
  · have hterm : ∀ a s, a < cdof.length → s < wAt cdof a → 0 ≤ armAt arm a s * (X a s * X a s) :=
      fun a s ha hs => mul_nonneg (le_of_lt (harm a s ha hs)) (mul_self_nonneg _)
    apply rsum_pos _ _ (fun a ha => rsum_nonneg _ _ fun s hs => hterm a s ha hs) l hl
    apply rsum_pos _ _ (fun s hs => hterm l s hl hs) r hr
    exact mul_pos (harm l r hl hr) (mul_self_pos.mpr hx)

end ordered

/-! ## passive force and total smooth force, against the Spec -/

/-- **`_passive` equals MuJoCo's `qfrc_passive`** (springs on hinge/slide dofs, dampers on every
dof) — every system, every state. -/
theorem passive_eq (s : Sys ℝ) (q qd ctrl : List ℝ) :
    passiveFlat s q qd = (MjD.forwardData s q qd ctrl).qfrcPassive := by
  unfold passiveFlat nested MjD.forwardData
  simp only
  congr 1
  apply List.map_congr_left
  intro l _
  exact passiveLink_eq l

/-- closed form of one link's passive force: `−k·q − d·q̇` on hinge/slide dofs -/
theorem passive_axis (l : LinkIn ℝ) (h : l.typ ≠ .free) :
    passiveLink l = (l.dofs.zip (l.q.zip l.qd)).map fun t =>
      -(t.1.stiffness * t.2.1) + -(t.1.damping * t.2.2) := by
  rw [passiveLink_eq]
  unfold MjD.passive
  cases ht : l.typ with
  | free => exact absurd ht h
  | one | two | three => rfl

/-- … and `−d·q̇` only on the dofs of a free link (stiffness is **not** applied to free `q`) -/
theorem passive_free (l : LinkIn ℝ) (h : l.typ = .free) :
    passiveLink l = (l.dofs.zip l.qd).map fun t => -(t.1.damping * t.2) := by
  rw [passiveLink_eq]
  unfold MjD.passive
  rw [h]

/-- **`actuator.to_tau` equals the Spec's `qfrc_actuator`** (scatter-add of `gear·clip(gain·clip(u)
+ bias)` = per-dof gather with `length = gear·q`, `velocity = gear·q̇`), for actuators that address
existing coordinates (`Sys.WF`).  The actuator property in its own right is C11. -/
theorem tau_eq (s : Sys ℝ) (q qd act : List ℝ)
    (hacts : ∀ a ∈ s.acts, a.qId < q.length ∧ a.qdId < qd.length ∧ a.qdId < s.nv) :
    toTau s.nv s.acts act q qd = (MjD.forwardData s q qd act).qfrcActuator :=
  toTau_eq_actuation s.nv s.acts act q qd hacts

/-- **`dynamics.forward`: `qf_smooth = passive − bias + tau` equals MuJoCo's `qfrc_smooth`**
whenever the bias force does (`rne_eq_mj` reduces that to the CoM-frame quantities). -/
theorem forward_eq (s : Sys ℝ) (st : DynState ℝ) (q qd act : List ℝ)
    (hbias : biasFlat s st q qd = (MjD.forwardData s q qd act).qfrcBias)
    (hacts : ∀ a ∈ s.acts, a.qId < q.length ∧ a.qdId < qd.length ∧ a.qdId < s.nv) :
    qfSmooth s st q qd act = (MjD.forwardData s q qd act).qfrcSmooth := by
  unfold qfSmooth
  rw [hbias, tau_eq s q qd act hacts, passive_eq s q qd act]
  rfl

/-! ## semi-implicit Euler with implicit joint damping -/

/-- entries of `mass_mx + diag(damping)·dt` -/
theorem dampedMatrix_entry (m : List (List ℝ)) (d : List ℝ) (dt : ℝ) (i j : Nat)
    (hi : i < m.length) (hj : j < (m.getD i []).length) :
    entry (dampedMatrix m d dt) i j = entry m i j + (if j = i then d.getD i 0 * dt else 0) := by
  unfold dampedMatrix entry
  rw [getD_map_zip_range m _ [] [] i hi]
  simp only
  rw [getD_map_zip_range (m.getD i []) _ 0 0 j hj]
  simp only
  split <;> simp

/-- **`integrator.integrate` is the semi-implicit Euler step with implicit joint damping.**
With `solve` an exact solve of `M′ = mass_mx + dt·diag(damping)` for the right-hand side at hand:
`M′ (q̇′ − q̇) = dt·(qf_smooth + qf_constraint)`, the reported `qdd` is the solution, and the
positions are integrated link by link from the **new** velocities. -/
theorem integrate_semiImplicit (solve : List (List ℝ) → List ℝ → List ℝ) (s : Sys ℝ)
    (m : List (List ℝ)) (q qd f c : List ℝ)
    (hsolve : matVec (dampedMatrix m (s.dofs.map (·.damping)) s.dt)
        (solve (dampedMatrix m (s.dofs.map (·.damping)) s.dt) (List.zipWith (· + ·) f c))
      = List.zipWith (· + ·) f c)
    (hlen : (solve (dampedMatrix m (s.dofs.map (·.damping)) s.dt) (List.zipWith (· + ·) f c)).length
      = qd.length) :
    let r := integrate solve s m q qd f c
    matVec (dampedMatrix m (s.dofs.map (·.damping)) s.dt) (List.zipWith (· - ·) r.2.1 qd)
        = (List.zipWith (· + ·) f c).map (· * s.dt)
    ∧ r.1 = ((linkSlices s.types q r.2.1 s.dofs).map (integrateQLink s.dt)).flatten := by
  intro r
  refine ⟨?_, rfl⟩
  show matVec _ (List.zipWith (· - ·) (List.zipWith (fun v a => v + a * s.dt) qd _) qd) = _
  rw [zipWith_sub_update qd _ s.dt hlen, matVec_map_mul_right, hsolve]

/-- hinge/slide links: `q′ = q + dt·q̇′` -/
theorem integrate_axis (dt : ℝ) (l : LinkIn ℝ) (h : l.typ ≠ .free) :
    integrateQLink dt l = List.zipWith (fun q v => q + v * dt) l.q l.qd := by
  unfold integrateQLink
  cases ht : l.typ with
  | free => exact absurd ht h
  | one | two | three => rfl

/-- free links: `pos′ = pos + dt·v′`, and the new orientation is a **unit** quaternion -/
theorem integrate_free (dt : ℝ) (hdt : |dt| ≤ 1) (l : LinkIn ℝ) (h : l.typ = .free)
    (p0 p1 p2 r0 r1 r2 r3 v0 v1 v2 w0 w1 w2 : ℝ)
    (hq : l.q = [p0, p1, p2, r0, r1, r2, r3]) (hqd : l.qd = [v0, v1, v2, w0, w1, w2])
    (hr : 0 < Q4.normSq (⟨r0, r1, r2, r3⟩ : Q4 ℝ)) :
    ∃ rot : Q4 ℝ, rot.IsUnit ∧ integrateQLink dt l
      = [p0 + v0 * dt, p1 + v1 * dt, p2 + v2 * dt, rot.w, rot.x, rot.y, rot.z] := by
  unfold integrateQLink
  rw [h, hq, hqd]
  exact integrateQFree_unit dt hdt p0 p1 p2 r0 r1 r2 r3 v0 v1 v2 w0 w1 w2 hr

/-! ## dof axes in the CoM frame (`cdof`) equal MuJoCo's -/

/-- **`cdof` of a hinge/slide stack equals MuJoCo's** `[axis_w ; axis_w × (c − anchor_w)]` (hinge) /
`[0 ; axis_w]` (slide), with `axis_w`, `anchor_w` taken in the body frame *as it is after the
preceding joints of the stack*: for every stack (any number and mix of hinge/slide joints, any —
also non-orthogonal — unit axes, shared anchor), every parent pose, every `q`, every reference
point `c`.  `par'` is the parent's world pose (`none`: world). -/
theorem cdof_eq_mj (p : Int) (par' : Option (Tf ℝ)) (hpar : ∀ t, par' = some t → t.rot.IsUnit)
    (lk : LinkP ℝ) (l : LinkIn ℝ) (hok : LinkOK p lk l) (hnf : l.typ ≠ .free) (c : V3 ℝ) :
    cdofLink l (Tf.doTf (Tf.doTf (par'.getD Tf.id) lk.tf) lk.joint) c
      = MjD.cdofBody l (MjD.bodyKin par' lk l).1 (MjD.bodyKin par' lk l).2 c := by
  obtain ⟨_, _, hd⟩ := hok.nonfree hnf
  have hstart : Tf.doTf (par'.getD Tf.id) lk.tf = startPose par' lk := by
    cases par' with
    | none => exact Tf.id_doTf lk.tf
    | some t => rfl
  have hsU : (startPose par' lk).rot.IsUnit := by
    cases par' with
    | none => exact hok.bodyUnit
    | some t => simp only [startPose, Tf.doTf]; exact Q4.IsUnit.mul (hpar t rfl) hok.bodyUnit
  have hkin : (MjD.bodyKin par' lk l).2
      = ((l.dofs.zip l.q).foldl (MjD.jointStep lk.joint.pos) (startPose par' lk, [])).2 := by
    unfold MjD.bodyKin startPose
    cases par' <;> cases ht : l.typ <;> first | exact absurd ht hnf | rfl
  have hbody : ∀ pose joints, MjD.cdofBody l pose joints c = joints.map (MjD.jointCdof c) := by
    intro pose joints
    unfold MjD.cdofBody
    cases ht : l.typ <;> first | exact absurd ht hnf | rfl
  have hlocal : cdofLocal l = cdofStack (l.dofs.zip l.q) Tf.id := by
    unfold cdofLocal
    cases ht : l.typ <;> first | exact absurd ht hnf | rfl
  have hfree : (l.typ == LinkType.free) = false := by
    cases ht : l.typ <;> first | exact absurd ht hnf | rfl
  rw [hbody, hkin, hstart]
  have := stack_cdof_eq (startPose par' lk) hsU lk.joint.pos c (l.dofs.zip l.q) Tf.id Q4.isUnit_one hd []
  rw [stackPose_id] at this
  rw [this]
  unfold cdofLink
  rw [hlocal, hfree]
  simp only [List.map_nil, List.nil_append, Tf.doTf, hok.jointRot, quatMul_one]

/-- **`cdof` of a free link equals MuJoCo's**: translations `[0 ; e_k]` stay in the world frame
(this is the clause the `fix:` for D2 must not touch), rotations are
`[R e_k ; R e_k × (c − xpos)]`.  `pose` is the link's own world pose. -/
theorem cdof_eq_mj_free (p : Int) (lk : LinkP ℝ) (l : LinkIn ℝ) (hok : LinkOK p lk l)
    (hf : l.typ = .free) (hdofs : l.dofs.map (·.motion) = freeBasis) (pose : Tf ℝ) (c : V3 ℝ) :
    cdofLink l (Tf.doTf (Tf.doTf pose lk.tf) lk.joint) c = MjD.cdofBody l pose [] c := by
  obtain ⟨_, htf, hjp, _⟩ := hok.free hf
  have hj : Tf.doTf (Tf.doTf pose lk.tf) lk.joint = pose := by
    have : lk.joint = Tf.id := by
      apply Tf.ext' hjp hok.jointRot
    rw [htf, this, Tf.doTf_id, Tf.doTf_id]
  rw [hj]
  unfold cdofLink cdofLocal MjD.cdofBody
  rw [hf]
  have hb : (LinkType.free == LinkType.free) = true := rfl
  simp only [hb, hdofs, freeBasis, List.map_cons, List.map_nil, List.cons_append,
    List.nil_append, cdofWorld, if_true, Tf.doMotion, rotate_quatInv_one, rotate_zero,
    MjD.dofComLin, MjD.dofComRot, cross_zero_right', sub_zero']
  refine List.cons_eq_cons.mpr ⟨rfl, List.cons_eq_cons.mpr ⟨rfl, List.cons_eq_cons.mpr ⟨rfl, ?_⟩⟩⟩
  refine List.cons_eq_cons.mpr ⟨?_, List.cons_eq_cons.mpr ⟨?_, List.cons_eq_cons.mpr ⟨?_, rfl⟩⟩⟩
  all_goals
    apply Motion.ext'
    · rfl
    · simp only [V3.cross, V3.sub_def, V3.zero]
      apply V3.ext' <;> simp only <;> ring

/-! ## recursive Newton–Euler -/

/-- **the bias force vanishes at rest without gravity**: `dynamics.inverse` of the state
`pipeline.init(sys, q, 0)` is identically 0 when `gravity = 0` — every system, every `q`.
(A sign slip in the gravity trick or a velocity-independent spurious term would break this.) -/
theorem rne_zero (s : Sys ℝ) (q : List ℝ) (hg : s.gravity = V3.zero) :
    ∀ x ∈ biasFlat s (dynInit s q (List.replicate s.nv 0)) q (List.replicate s.nv 0), x = 0 := by
  intro x hx
  unfold biasFlat at hx
  obtain ⟨row, hrow, hxr⟩ := List.mem_flatten.mp hx
  rw [hg] at hrow
  have hzero : ∀ l ∈ nested s q (List.replicate s.nv (0 : ℝ)), ∀ y ∈ l.qd, y = 0 := by
    intro l hl y hy
    exact List.eq_of_mem_replicate (linkSlices_qd_mem _ _ _ _ l hl y hy)
  refine inverse_zero s.parents _ _ ?_ ?_ row hrow x hxr
  · -- link velocities vanish
    unfold dynInit transformCom
    simp only
    apply cd_zero
    intro us hus m hm
    obtain ⟨cs, _, l, hl, rfl⟩ := mem_zipWith _ _ _ _ hus
    obtain ⟨c, _, y, hy, rfl⟩ := mem_zipWith _ _ _ _ hm
    rw [hzero l hl y hy, mulr_zero]
  · intro r hr y hy
    obtain ⟨l, hl, rfl⟩ := List.mem_map.mp hr
    exact hzero l hl y hy

/-- **`dynamics.inverse` equals MuJoCo's `mj_rne`** on the same CoM-frame quantities (`cinr` ≙
`cinert`, `cd` = `cvel`, `cdof`, `cdofd` = `cdof_dot`): the level-grouped forward scan with the
gravity trick, the per-link force, the reverse accumulation and the projection on `cdof` are the
sequential recursions of the reference — every forest, every state, any commutative ring. -/
theorem rne_eq_mj {R : Type} [CommRing R] (ps : List Int) (g : V3 R) (st : ComState R)
    (cinert : List (MjD.CInert R)) (qd : List (List R))
    (hI : List.Forall₂ SameInertia st.cinr cinert) :
    (inverse ps g st qd).flatten = MjD.rne ps g cinert st.cd st.cdof st.cdofd qd :=
  inverse_eq_rne ps g st cinert qd hI

/-! ## link velocities `cd` and dof-axis derivatives `cdofd` -/

/-- **`cd` equals MuJoCo's `cvel`** whenever `cdof` does: the forward level scan
`cd = cd[parent] + Σ cdof·q̇` is `mj_comVel`'s recursion (free links are roots with six dofs:
`CdOK`, part of `Sys.WF`). -/
theorem cd_eq (s : Sys ℝ) (x : List (Tf ℝ)) (q qd ctrl : List ℝ)
    (hcdof : (transformCom s x q qd).cdof = (MjD.forwardData s q qd ctrl).cdof)
    (hok : ∀ y ∈ s.parents.zip ((linkSlices s.types q qd s.dofs).zip (MjD.forwardData s q qd ctrl).cdof),
      CdOK y.1 y.2.1 y.2.2) :
    (transformCom s x q qd).cd = (MjD.forwardData s q qd ctrl).cvel := by
  have h1 : (transformCom s x q qd).cd = scanFwd cdStep s.parents
      (List.zipWith (fun cs (l : LinkIn ℝ) => List.zipWith mulr cs l.qd) (transformCom s x q qd).cdof
        (linkSlices s.types q qd s.dofs)) := rfl
  have h2 : (MjD.forwardData s q qd ctrl).cvel
      = (scanFwd comVelStep s.parents
          ((linkSlices s.types q qd s.dofs).zip (MjD.forwardData s q qd ctrl).cdof)).map Prod.snd := rfl
  rw [h1, h2, hcdof]
  exact cd_eq_spec _ _ _ hok

/-- **`cdofd` of a hinge/slide link equals MuJoCo's `cdof_dot`**: the partial-sum construction
(`cds[0] = cd[parent]`, `cds[i+1] = cds[i] + cdof_i q̇_i`, `cdofd_i = cds[i] × cdof_i`) is the
running `cvel × cdof` of `mj_comVel`, given the parent's velocity. -/
theorem cdofd_eq (typ : LinkType) (h : typ ≠ .free) (cvelP : Motion ℝ) (cs : List (Motion ℝ))
    (qd : List ℝ) :
    cdofdLink typ cvelP cs (List.zipWith mulr cs qd) = (MjD.comVelBody typ cvelP cs qd).1 := by
  rw [comVelBody_axis typ h]

/-- … and of a free root link: zero for the three translations, `(Σ translations) × cdof` for
the rotations -/
theorem cdofd_eq_free (c0 c1 c2 c3 c4 c5 : Motion ℝ) (v0 v1 v2 v3 v4 v5 : ℝ) :
    cdofdLink .free Motion.zero [c0, c1, c2, c3, c4, c5]
        (List.zipWith mulr [c0, c1, c2, c3, c4, c5] [v0, v1, v2, v3, v4, v5])
      = (MjD.comVelBody .free Motion.zero [c0, c1, c2, c3, c4, c5] [v0, v1, v2, v3, v4, v5]).1 := by
  rw [comVelBody_free]

/-- **whole-system `cdofd` equals MuJoCo's `cdof_dot`** whenever `cdof` does: `transform_com`
computes `cdofd` *after* the tree scan from `cd.take(parent_idx)`, `mj_comVel` inside its body
loop from the running parent velocity; the pointwise characterisation of the scan
(`scanFwd_lookup`) identifies the two — every forest with parents before children. -/
theorem cdofd_eq_sys (s : Sys ℝ) (x : List (Tf ℝ)) (q qd ctrl : List ℝ)
    (hcdof : (transformCom s x q qd).cdof = (MjD.forwardData s q qd ctrl).cdof)
    (hps : s.parents.length = s.types.length)
    (hlen : (MjD.forwardData s q qd ctrl).cdof.length = s.types.length)
    (hwf : PWF s.parents) (hlow : ∀ i : Nat, -1 ≤ s.parents.getD i (-1))
    (hok : ∀ y ∈ s.parents.zip ((linkSlices s.types q qd s.dofs).zip (MjD.forwardData s q qd ctrl).cdof),
      CdOK y.1 y.2.1 y.2.2) :
    (transformCom s x q qd).cdofd = (MjD.forwardData s q qd ctrl).cdofDot := by
  have h1 : (transformCom s x q qd).cdofd
      = List.zipWith (fun (lp : LinkIn ℝ × Int) (cc : List (Motion ℝ) × List (Motion ℝ)) =>
          cdofdLink lp.1.typ
            (takeParent (scanFwd cdStep s.parents
              (List.zipWith (fun cs (l : LinkIn ℝ) => List.zipWith mulr cs l.qd)
                (transformCom s x q qd).cdof (linkSlices s.types q qd s.dofs))) Motion.zero lp.2)
            cc.1 cc.2)
        ((linkSlices s.types q qd s.dofs).zip (parentIdx s.types s.parents))
        ((transformCom s x q qd).cdof.zip
          (List.zipWith (fun cs (l : LinkIn ℝ) => List.zipWith mulr cs l.qd)
            (transformCom s x q qd).cdof (linkSlices s.types q qd s.dofs))) := rfl
  have h2 : (MjD.forwardData s q qd ctrl).cdofDot
      = (scanFwd comVelStep s.parents
          ((linkSlices s.types q qd s.dofs).zip (MjD.forwardData s q qd ctrl).cdof)).map Prod.fst := rfl
  rw [h1, h2, hcdof]
  have hp : parentIdx s.types s.parents
      = parentIdx ((linkSlices s.types q qd s.dofs).map (·.typ)) s.parents := by
    rw [linkSlices_typ]
  rw [hp]
  exact cdofd_sys s.parents _ _ s.types.length hps (linkSlices_length _ _ _ _) hlen hwf hlow hok

/-! ## the CoM-frame inertia -/

/-- **`cinr` equals MuJoCo's `cinert`** (`mju_inertCom` of the body inertia about the tree's
centre of mass): same rotational part `R I Rᵀ + m(|o|²1 − o oᵀ)`, same `m·o`, same mass — for any
inertial frame `xi`, reference point and body inertia, over any field. -/
theorem cinr_eq {K : Type} [Field K] (xi : Tf K) (com : V3 K) (it : Inertia K) :
    SameInertia (cinrLink xi com it) (MjD.inertCom xi.rot it.i it.mass (xi.pos - com)) :=
  cinrLink_same xi com it

/-- **`cinr` is a non-negative quadratic form** (this discharges `hpsd` of
`massMatrix_posSemidef` / `massMatrix_posDef_of_armature`) when the body's inertia matrix is a
non-negative form and its mass is non-negative. -/
theorem cinr_psd (xi : Tf ℝ) (com : V3 ℝ) (it : Inertia ℝ)
    (hI : ∀ w : V3 ℝ, 0 ≤ V3.dot w (M3.mulVec it.i w)) (hm : 0 ≤ it.mass) (v : Motion ℝ) :
    0 ≤ ke (cinrLink xi com it) v :=
  ke_cinrLink_nonneg xi com it hI hm v

/-! ## the matrix `pipeline.init` computes is symmetric positive definite -/

/-- what a physical model satisfies (the generator's models do): consistent shapes, parents
before children, symmetric non-negative body inertias with non-negative mass, and positive
armature on every dof -/
structure PhysOK (s : Sys ℝ) : Prop where
  parents : s.parents.length = s.types.length
  links : s.links.length = s.types.length
  wf : PWF s.parents
  inertia : ∀ lk ∈ s.links, SymmI lk.inertia
    ∧ (∀ w : V3 ℝ, 0 ≤ V3.dot w (M3.mulVec lk.inertia.i w)) ∧ 0 ≤ lk.inertia.mass
  armature : ∀ d ∈ s.dofs, 0 < d.armature

/-- **The joint-space inertia matrix used by the generalized pipeline (`pipeline.init(...).mass_mx`)
is symmetric and positive definite** for every `PhysOK` system and every state: all hypotheses of
`massMatrix_symm` / `massMatrix_eq_keForm` / `massMatrix_posDef_of_armature` are discharged for the
values `transform_com` actually produces. -/
theorem pipeline_massMatrix_spd (s : Sys ℝ) (h : PhysOK s) (q qd : List ℝ) (X : Nat → Nat → ℝ) :
    (∀ i j, entry (dynInit s q qd).massMx i j = entry (dynInit s q qd).massMx j i)
    ∧ 0 ≤ quadForm (dynInit s q qd).massMx (flatVec (dynInit s q qd).com.cdof X)
    ∧ ((∃ l r, l < (dynInit s q qd).com.cdof.length ∧ r < wAt (dynInit s q qd).com.cdof l ∧ X l r ≠ 0) →
        0 < quadForm (dynInit s q qd).massMx (flatVec (dynInit s q qd).com.cdof X)) := by
  set x := (Kin.forward s q qd).map (·.1) with hxdef
  have hx : x.length = s.types.length := by
    rw [hxdef, List.length_map]; exact forward_length s q qd h.parents h.links
  obtain ⟨hc, hd⟩ := transformCom_lengths s x q qd hx h.parents h.links
  set com := transformCom s x q qd with hcom
  set arm := (nested s q qd).map (fun l => l.dofs.map (·.armature)) with harmdef
  have hM : (dynInit s q qd).massMx = massMatrix s.parents com.cinr com.cdof arm := rfl
  have hC : (dynInit s q qd).com = com := rfl
  rw [hM, hC]
  have hps : s.parents.length = com.cdof.length := by rw [hd, h.parents]
  have hI : com.cinr.length = com.cdof.length := by rw [hc, hd]
  have hsym : ∀ I ∈ com.cinr, SymmI I := by
    intro I hI'
    obtain ⟨xi, c, lk, hlk, rfl⟩ := transformCom_cinr_mem s x q qd I hI'
    exact cinrLink_symm xi c lk.inertia (h.inertia lk hlk).1
  have hpsd : ∀ k v, 0 ≤ ke (com.cinr.getD k dI) v := by
    intro k v
    rw [List.getD_eq_getElem?_getD]
    cases hk : com.cinr[k]? with
    | none => simp only [Option.getD_none]; rw [ke_dI]
    | some I =>
      simp only [Option.getD_some]
      obtain ⟨xi, c, lk, hlk, rfl⟩ := transformCom_cinr_mem s x q qd I (List.mem_of_getElem? hk)
      exact cinr_psd xi c lk.inertia (h.inertia lk hlk).2.1 (h.inertia lk hlk).2.2 v
  have harm : ∀ l r, l < com.cdof.length → r < wAt com.cdof l → 0 < armAt arm l r := by
    intro l r hl hr
    have hcdof : com.cdof = List.zipWith (fun (li : LinkIn ℝ) (jc : Tf ℝ × V3 ℝ) => cdofLink li jc.1 jc.2)
        (linkSlices s.types q qd s.dofs)
        ((jointFrames s x).zip (rootCom s.parents (s.links.map (·.inertia.mass))
          (List.zipWith (fun (t : Tf ℝ) (lk : LinkP ℝ) => Tf.doTf t lk.inertia.tf) x s.links))) := rfl
    rw [hcdof, List.length_zipWith] at hl
    have hl1 : l < (linkSlices s.types q qd s.dofs).length := lt_of_lt_of_le hl (min_le_left _ _)
    have hl2 := lt_of_lt_of_le hl (min_le_right _ _)
    obtain ⟨j, c, hrow⟩ : ∃ j c, com.cdof.getD l [] = cdofLink (linkSlices s.types q qd s.dofs)[l] j c :=
      ⟨_, _, by rw [hcdof]; exact getD_zipWith _ _ _ [] l hl1 hl2⟩
    unfold wAt at hr
    rw [hrow] at hr
    have hr' : r < ((linkSlices s.types q qd s.dofs)[l]).dofs.length :=
      lt_of_lt_of_le hr (cdofLink_length_le _ _ _)
    have harow : arm.getD l [] = ((linkSlices s.types q qd s.dofs)[l]).dofs.map (·.armature) := by
      rw [harmdef, List.getD_eq_getElem?_getD]
      unfold nested
      rw [List.getElem?_map, List.getElem?_eq_getElem hl1]; rfl
    unfold armAt
    rw [harow, List.getD_eq_getElem?_getD, List.getElem?_map, List.getElem?_eq_getElem hr']
    simp only [Option.map_some, Option.getD_some]
    apply h.armature
    exact linkSlices_dofs_mem _ _ _ _ _ (List.getElem_mem hl1) _ (List.getElem_mem hr')
  refine ⟨fun i j => massMatrix_symm _ _ _ _ i j, ?_, ?_⟩
  · exact massMatrix_posSemidef _ _ _ _ X hps hI h.wf hsym hpsd
      (fun l r hl hr => le_of_lt (harm l r hl hr))
  · intro hX
    exact massMatrix_posDef_of_armature _ _ _ _ X hps hI h.wf hsym hpsd harm hX

/-! ## the whole system: every dynamics term equals the reference engine's -/

/-- what the property's generator produces (and `Sys.WF` + `mjcf.load_model` guarantee): consistent
shapes, parents before children, `C01.KinOK` (unit body quaternions, identity joint frames, unit
hinge/slide axes, free links are roots with unit root quaternion), the standard dof rows on free
joints -/
structure DynOK (s : Sys ℝ) (q qd : List ℝ) : Prop where
  parents : s.parents.length = s.types.length
  links : s.links.length = s.types.length
  wf : PWF s.parents
  low : ∀ i : Nat, -1 ≤ s.parents.getD i (-1)
  kin : C01.KinOK s q qd
  basis : ∀ l ∈ linkSlices s.types q qd s.dofs, l.typ = .free → l.dofs.map (·.motion) = freeBasis

/-- **`root_com` equals MuJoCo's `subtree_com[body_rootid]`**: the per-tree centre of mass brax
computes with `segment_sum` over the root index is the reference's backward subtree accumulation
read at the root body — every `DynOK` system and state (`revAcc_root`: peel-last-link induction
over an abstract commutative monoid; `scan_root_value`). -/
theorem rootCom_eq (s : Sys ℝ) (q qd ctrl : List ℝ) (h : DynOK s q qd) :
    (dynInit s q qd).com.rootCom = (MjD.forwardData s q qd ctrl).rootCom := by
  set x := (Kin.forward s q qd).map (·.1) with hxdef
  have hx : x = (MjD.forwardData s q qd ctrl).xpose := by
    rw [xpose_eq_kinematics]; exact C01.forward_pos_eq_mj s q qd h.kin
  have hxl : x.length = s.types.length := by
    rw [hxdef, List.length_map]; exact forward_length s q qd h.parents h.links
  have h1 : (dynInit s q qd).com.rootCom
      = (rootIdx s.parents).map (fun r =>
          (⟨(segSum V3.zero V3.add (List.zipWith (fun m (t : Tf ℝ) => V3.smul m t.pos)
                (s.links.map (·.inertia.mass))
                (List.zipWith (fun (t : Tf ℝ) (lk : LinkP ℝ) => Tf.doTf t lk.inertia.tf) x s.links))
              (rootIdx s.parents) r).x
              / segSum 0 (· + ·) (s.links.map (·.inertia.mass)) (rootIdx s.parents) r,
            (segSum V3.zero V3.add (List.zipWith (fun m (t : Tf ℝ) => V3.smul m t.pos)
                (s.links.map (·.inertia.mass))
                (List.zipWith (fun (t : Tf ℝ) (lk : LinkP ℝ) => Tf.doTf t lk.inertia.tf) x s.links))
              (rootIdx s.parents) r).y
              / segSum 0 (· + ·) (s.links.map (·.inertia.mass)) (rootIdx s.parents) r,
            (segSum V3.zero V3.add (List.zipWith (fun m (t : Tf ℝ) => V3.smul m t.pos)
                (s.links.map (·.inertia.mass))
                (List.zipWith (fun (t : Tf ℝ) (lk : LinkP ℝ) => Tf.doTf t lk.inertia.tf) x s.links))
              (rootIdx s.parents) r).z
              / segSum 0 (· + ·) (s.links.map (·.inertia.mass)) (rootIdx s.parents) r⟩ : V3 ℝ)) := rfl
  have h2 : (MjD.forwardData s q qd ctrl).rootCom
      = scanFwd (fun (par : Option (V3 ℝ)) (c : V3 ℝ) => par.getD c) s.parents
          (List.zipWith (fun (v : V3 ℝ) m => (⟨v.x / m, v.y / m, v.z / m⟩ : V3 ℝ))
            (revAcc V3.add s.parents (List.zipWith V3.smul (s.links.map (·.inertia.mass))
              (List.zipWith (fun (x : Tf ℝ) (lk : LinkP ℝ) => x.pos + rotate lk.inertia.tf.pos x.rot)
                (MjD.forwardData s q qd ctrl).xpose s.links)))
            (revAcc (· + ·) s.parents (s.links.map (·.inertia.mass)))) := rfl
  rw [h1, h2, ← hx, zipWith_smul_pos]
  exact rootCom_eq_spec s.parents _ _ s.types.length h.parents (by simp [h.links])
    (by simp [hxl, h.links]) h.wf

/-- **Model = Spec for every CoM-frame quantity, the bias force and the total smooth force**, for
every `DynOK` system and state — composing C01's `forward_pos_eq_mj` (link poses), `rootCom_eq`,
`cdof_eq_mj` (+ free), `cd_eq`, `cdofd_eq_sys`, `cinr_eq`, `rne_eq_mj`, `passive_eq`, `tau_eq`,
`forward_eq`.  No hypothesis about the outputs is left: the generalized pipeline's `root_com`,
`cdof`, `cd`, `cdofd`, `cinr`, Coriolis/centrifugal/gravity bias force and total smooth joint force
are the reference engine's, for all forests, all joint stacks, all states and controls. -/
theorem dynamics_eq_mj (s : Sys ℝ) (q qd ctrl : List ℝ) (h : DynOK s q qd)
    (hacts : ∀ a ∈ s.acts, a.qId < q.length ∧ a.qdId < qd.length ∧ a.qdId < s.nv) :
    (dynInit s q qd).com.rootCom = (MjD.forwardData s q qd ctrl).rootCom
    ∧ (dynInit s q qd).com.cdof = (MjD.forwardData s q qd ctrl).cdof
    ∧ (dynInit s q qd).com.cd = (MjD.forwardData s q qd ctrl).cvel
    ∧ (dynInit s q qd).com.cdofd = (MjD.forwardData s q qd ctrl).cdofDot
    ∧ List.Forall₂ SameInertia (dynInit s q qd).com.cinr (MjD.forwardData s q qd ctrl).cinert
    ∧ biasFlat s (dynInit s q qd) q qd = (MjD.forwardData s q qd ctrl).qfrcBias
    ∧ qfSmooth s (dynInit s q qd) q qd ctrl = (MjD.forwardData s q qd ctrl).qfrcSmooth := by
  have hcom := rootCom_eq s q qd ctrl h
  have hcom0 := hcom
  set x := (Kin.forward s q qd).map (·.1) with hxdef
  set ins := linkSlices s.types q qd s.dofs with hins
  set kin := scanFwd kinStep s.parents (s.links.zip ins) with hkin
  have hxpose : (MjD.forwardData s q qd ctrl).xpose = kin.map Prod.fst := rfl
  have hfree6 : ∀ y ∈ s.parents.zip (ins.zip (MjD.forwardData s q qd ctrl).cdof), CdOK y.1 y.2.1 y.2.2 :=
    cdOK_of_linkOK s.parents s.links ins kin (MjD.forwardData s q qd ctrl).rootCom s.types.length
      h.links (linkSlices_length _ _ _ _) h.kin
  have hx : x = kin.map Prod.fst := by
    rw [← hxpose, xpose_eq_kinematics]
    exact C01.forward_pos_eq_mj s q qd h.kin
  have hst : (dynInit s q qd).com = transformCom s x q qd := rfl
  rw [hst] at hcom ⊢
  have hinsLen : ins.length = s.types.length := linkSlices_length _ _ _ _
  have htyp : ins.map (·.typ) = s.types := linkSlices_typ _ _ _ _
  -- (1) cdof
  have hcdof : (transformCom s x q qd).cdof = (MjD.forwardData s q qd ctrl).cdof := by
    have h1 : (transformCom s x q qd).cdof
        = List.zipWith (fun (l : LinkIn ℝ) (jc : Tf ℝ × V3 ℝ) => cdofLink l jc.1 jc.2) ins
            (((s.links.zip (parentIdx s.types s.parents)).map fun lp =>
                Tf.doTf (Tf.doTf (takeParent x Tf.id lp.2) lp.1.tf) lp.1.joint).zip
              (transformCom s x q qd).rootCom) := rfl
    have h2 : (MjD.forwardData s q qd ctrl).cdof
        = List.zipWith (fun (lk : LinkIn ℝ × (Tf ℝ × List (MjD.JointW ℝ))) (c : V3 ℝ) =>
            MjD.cdofBody lk.1 lk.2.1 lk.2.2 c) (ins.zip kin) (MjD.forwardData s q qd ctrl).rootCom := rfl
    rw [h1, h2, ← hcom, hx, ← htyp]
    have hcomLen : (transformCom s (kin.map Prod.fst) q qd).rootCom.length = s.types.length := by
      have : (transformCom s (kin.map Prod.fst) q qd).rootCom
          = rootCom s.parents (s.links.map (·.inertia.mass))
              (List.zipWith (fun (t : Tf ℝ) (lk : LinkP ℝ) => Tf.doTf t lk.inertia.tf) (kin.map Prod.fst) s.links) := rfl
      rw [this, rootCom_length, h.parents]
    rw [← hx] at hcomLen ⊢
    rw [hx]
    refine cdof_sys s.parents s.links ins _ s.types.length h.parents h.links hinsLen
      (by rw [← hx]; exact hcomLen) h.wf h.low ?_
    intro p lk l hmem
    have hok : LinkOK p lk l := h.kin (p, lk, l) hmem
    constructor
    · intro hnf par' c hpar
      exact cdof_eq_mj p par' (fun t ht => kin_unit s.parents s.links ins h.kin t (hpar t ht)) lk l hok hnf c
    · intro hf pose c
      have hl : l ∈ ins := (List.of_mem_zip (List.of_mem_zip hmem).2).2
      exact cdof_eq_mj_free p lk l hok hf (h.basis l hl hf) pose c
  -- (2) cd, (3) cdofd
  have hcd := cd_eq s x q qd ctrl hcdof hfree6
  have hlenD : (MjD.forwardData s q qd ctrl).cdof.length = s.types.length := by
    rw [← hcdof]
    have hxl : x.length = s.types.length := by
      rw [hxdef, List.length_map]; exact forward_length s q qd h.parents h.links
    exact (transformCom_lengths s x q qd hxl h.parents h.links).2
  have hcdofd := cdofd_eq_sys s x q qd ctrl hcdof h.parents hlenD h.wf h.low hfree6
  -- (4) cinr
  have hcinr : List.Forall₂ SameInertia (transformCom s x q qd).cinr (MjD.forwardData s q qd ctrl).cinert := by
    have h1 : (transformCom s x q qd).cinr
        = List.zipWith (fun (tc : Tf ℝ × V3 ℝ) (lk : LinkP ℝ) => cinrLink tc.1 tc.2 lk.inertia)
            ((List.zipWith (fun (t : Tf ℝ) (lk : LinkP ℝ) => Tf.doTf t lk.inertia.tf) x s.links).zip
              (transformCom s x q qd).rootCom) s.links := rfl
    have h2 : (MjD.forwardData s q qd ctrl).cinert
        = List.zipWith (fun (pq : V3 ℝ × Q4 ℝ) (lc : LinkP ℝ × V3 ℝ) =>
            MjD.inertCom pq.2 lc.1.inertia.i lc.1.inertia.mass (pq.1 - lc.2))
          ((List.zipWith (fun (x : Tf ℝ) (lk : LinkP ℝ) => x.pos + rotate lk.inertia.tf.pos x.rot)
              (MjD.forwardData s q qd ctrl).xpose s.links).zip
            (List.zipWith (fun (x : Tf ℝ) (lk : LinkP ℝ) => quatMul x.rot lk.inertia.tf.rot)
              (MjD.forwardData s q qd ctrl).xpose s.links))
          (s.links.zip (MjD.forwardData s q qd ctrl).rootCom) := rfl
    rw [h1, h2, ← hcom, hxpose, ← hx]
    exact forall₂_cinr s.links x _
  -- (5) bias
  have hbias : biasFlat s (dynInit s q qd) q qd = (MjD.forwardData s q qd ctrl).qfrcBias := by
    have h1 : biasFlat s (dynInit s q qd) q qd
        = (inverse s.parents s.gravity (transformCom s x q qd) (ins.map (·.qd))).flatten := rfl
    have h2 : (MjD.forwardData s q qd ctrl).qfrcBias
        = MjD.rne s.parents s.gravity (MjD.forwardData s q qd ctrl).cinert
            (MjD.forwardData s q qd ctrl).cvel (MjD.forwardData s q qd ctrl).cdof
            (MjD.forwardData s q qd ctrl).cdofDot (ins.map (·.qd)) := rfl
    rw [h1, h2, rne_eq_mj s.parents s.gravity _ _ _ hcinr, hcd, hcdof, hcdofd]
  exact ⟨hcom0, hcdof, hcd, hcdofd, hcinr, hbias, forward_eq s _ q qd ctrl hbias hacts⟩

/-! ## non-vacuity -/

/-- a two-link chain over ℤ (polynomial stages run at any commutative ring): hypotheses of
`massMatrix_eq_keForm` hold … -/
def exPs : List Int := [-1, 0]
def exCinr : List (Inertia ℤ) :=
  [⟨⟨⟨1, 2, -1⟩, ⟨1, 0, 0, 0⟩⟩, ⟨⟨4, 1, 0⟩, ⟨1, 5, -2⟩, ⟨0, -2, 6⟩⟩, 3⟩,
   ⟨⟨⟨0, -1, 2⟩, ⟨1, 0, 0, 0⟩⟩, ⟨⟨2, 0, 1⟩, ⟨0, 3, 0⟩, ⟨1, 0, 4⟩⟩, 2⟩]
def exCdof : List (List (Motion ℤ)) :=
  [[⟨⟨0, 0, 1⟩, ⟨1, -1, 0⟩⟩, ⟨⟨0, 0, 0⟩, ⟨0, 1, 0⟩⟩], [⟨⟨1, 0, 0⟩, ⟨0, 2, 1⟩⟩]]
def exArm : List (List ℤ) := [[1, 0], [2]]
def exX : Nat → Nat → ℤ := fun l r => if l = 0 then (if r = 0 then 2 else -1) else 3

example : PWF exPs := by
  intro i
  match i with
  | 0 => decide
  | 1 => decide
  | k + 2 => simp [exPs]; omega

example : ∀ x ∈ exCinr, SymmI x := by
  intro x hx
  simp only [exCinr, List.mem_cons, List.mem_nil_iff, or_false] at hx
  rcases hx with rfl | rfl <;> simp [SymmI]

/-- … and both sides of the identity evaluate to the same non-trivial number -/
example : quadForm (massMatrix exPs exCinr exCdof exArm) (flatVec exCdof exX) = 101 := by decide
example : rsum exCdof.length (fun k => ke (exCinr.getD k dI) (velAnc exPs exCdof exX k))
    + nsum exCdof.length (wAt exCdof) (fun l r => armAt exArm l r * (exX l r * exX l r)) = 101 := by
  decide

/-- a concrete `PhysOK` system: one hinge link with unit inertia and armature 1/2 -/
noncomputable def exPhys : Sys ℝ :=
  { types := [.one], parents := [-1],
    links := [⟨Tf.id, Tf.id, ⟨Tf.id, M3.one, 1⟩, 0, 0, 0, 0, 0⟩],
    dofs := [⟨⟨⟨0, 0, 1⟩, ⟨0, 0, 0⟩⟩, 1/2, 0, 0, none, none, 0⟩],
    hasLimit := false, acts := [], gravity := V3.zero, dt := 1, velDamping := 0, angDamping := 0,
    baumgarteErp := 0, springMassScale := 0, springInertiaScale := 0, jointScaleAng := 0,
    jointScalePos := 0, collideScale := 0 }

example : PhysOK exPhys := by
  refine ⟨rfl, rfl, ?_, ?_, ?_⟩
  · intro i
    match i with
    | 0 => simp [exPhys]
    | k + 1 => simp [exPhys]
  · intro lk hlk
    simp only [exPhys, List.mem_cons, List.mem_nil_iff, or_false] at hlk
    subst hlk
    refine ⟨by simp [SymmI, M3.one], ?_, by norm_num⟩
    intro w
    simp only [M3.mulVec, M3.one, V3.dot]
    nlinarith [mul_self_nonneg w.x, mul_self_nonneg w.y, mul_self_nonneg w.z]
  · intro d hd
    simp only [exPhys, List.mem_cons, List.mem_nil_iff, or_false] at hd
    subst hd
    norm_num

/-- `DynOK` is satisfiable: C01's example system (free root, child on a hinge about z on a body
rotated by (3/5, 4/5, 0, 0) and offset (1, 2, 3)) in its example state -/
example : DynOK C01.exSys C01.exQ C01.exQd := by
  refine ⟨rfl, rfl, ?_, ?_, ?_, ?_⟩
  · intro i
    match i with
    | 0 => simp [C01.exSys]
    | 1 => simp [C01.exSys]
    | k + 2 => simp [C01.exSys]; omega
  · intro i
    match i with
    | 0 => simp [C01.exSys]
    | 1 => simp [C01.exSys]
    | k + 2 => simp [C01.exSys]
  · intro x hx
    simp only [C01.exSys, C01.exQ, C01.exQd, C01.exFreeDofs, linkSlices, LinkType.qWidth, LinkType.qdWidth,
      List.zip_cons_cons, List.zip_nil_right, List.mem_cons, List.mem_nil_iff, or_false,
      List.take, List.drop, List.cons_append, List.nil_append] at hx
    rcases hx with rfl | rfl
    · refine ⟨Q4.isUnit_one, rfl, fun _ => ⟨by norm_num, rfl, rfl, rfl, 0, 0, 1, 0, 1, 0, 0, rfl, ?_⟩,
        fun h => absurd rfl h⟩
      norm_num [Q4.IsUnit, Q4.normSq]
    · refine ⟨by norm_num [C01.exLink, Q4.IsUnit, Q4.normSq], rfl, fun h => by simp at h, fun _ => ⟨rfl, rfl, ?_⟩⟩
      intro dq hdq
      simp only [List.zip_cons_cons, List.zip_nil_right, List.mem_cons, List.mem_nil_iff, or_false] at hdq
      subst hdq
      left
      refine ⟨rfl, ?_⟩
      norm_num [C01.exDof, V3.dot]
  · intro l hl hf
    simp only [C01.exSys, C01.exQ, C01.exQd, C01.exFreeDofs, linkSlices, LinkType.qWidth, LinkType.qdWidth,
      List.mem_cons, List.mem_nil_iff, or_false, List.take, List.drop, List.cons_append,
      List.nil_append] at hl
    rcases hl with rfl | rfl
    · rfl
    · simp at hf

/-! ### the D2 configuration: a slide along body-z on a body rotated about y

Hypotheses of `cdof_eq_mj` hold for it, and the theorem yields the world-frame slide axis
`(24/25, 0, −7/25)` (= `R_y(θ) e_z`, `cos θ/2 = 3/5`) — on the pinned tree (before the `fix:`
commit) `cdof.vel` was `(0, 0, 1)`. -/

noncomputable def d2Link : LinkP ℝ :=
  ⟨⟨⟨0, 0, 1⟩, ⟨3/5, 0, 4/5, 0⟩⟩, ⟨V3.zero, Q4.one⟩, ⟨Tf.id, M3.one, 1⟩, 0, 0, 0, 0, 0⟩
noncomputable def d2Dof : DofP ℝ := ⟨⟨⟨0, 0, 0⟩, ⟨0, 0, 1⟩⟩, 0, 0, 0, none, none, 0⟩
noncomputable def d2In : LinkIn ℝ := ⟨.one, [3/10], [1], [d2Dof]⟩

theorem d2_linkOK : LinkOK (-1) d2Link d2In := by
  refine ⟨by norm_num [d2Link, Q4.IsUnit, Q4.normSq], rfl, fun h => by simp [d2In] at h,
    fun _ => ⟨rfl, rfl, ?_⟩⟩
  intro dq hdq
  simp only [d2In, List.zip_cons_cons, List.zip_nil_right, List.mem_cons, List.mem_nil_iff,
    or_false] at hdq
  subst hdq
  right
  refine ⟨rfl, by norm_num [d2Dof, V3.dot], ?_⟩
  have h := Real.cos_bound (x := (3/10 : ℝ) / 2) (by rw [abs_le]; constructor <;> norm_num)
  rw [abs_le] at h
  have h1 := h.1
  have habs : |(3/10 : ℝ) / 2| = 3/20 := by rw [abs_of_pos] <;> norm_num
  rw [habs] at h1
  show (1e-8 : ℝ) < Real.cos ((3/10 : ℝ) / 2)
  norm_num at h1 ⊢
  linarith

theorem d2_cdof (c : V3 ℝ) :
    cdofLink d2In (Tf.doTf (Tf.doTf Tf.id d2Link.tf) d2Link.joint) c
      = [⟨V3.zero, ⟨24/25, 0, -7/25⟩⟩] := by
  have h := cdof_eq_mj (-1) none (by intro t ht; cases ht) d2Link d2In d2_linkOK
    (by simp [d2In]) c
  simp only [Option.getD_none] at h
  rw [h]
  have hz : Mj.v3IsZero (⟨0, 0, 1⟩ : V3 ℝ) = false := by
    rw [Bool.eq_false_iff]; intro hc; rw [v3IsZero_iff] at hc; simp at hc
  simp only [MjD.cdofBody, MjD.bodyKin, d2In, d2Dof, d2Link, List.zip_cons_cons, List.zip_nil_right,
    List.foldl, MjD.jointStep, hz, Bool.false_eq_true, if_false, List.nil_append, List.map_cons,
    List.map_nil, MjD.jointCdof, MjD.dofComLin]
  congr 1
  apply Motion.ext'
  · rfl
  · simp only [rotate, V3.dot, V3.cross, Q4.vec]
    apply V3.ext' <;> simp only <;> norm_num

/-! ## the mass matrix equals the reference engine's, entry by entry

`mass.matrix` (block form: one block per pair of links, ancestor mask, lower triangle mirrored,
armature on the diagonal, composite inertias as brax `Inertia` leaves) against the Spec's `fullM`
(MuJoCo's `mj_crb`: flat dof indexing, `dof_parentid` chain walk, composite inertias as MuJoCo's 10
numbers, `+ dof_armature` on the diagonal).  Lemmas: `Brax/Lemmas/C02FullM.lean`. -/

/-- **the composite rigid-body inertias agree**: the representation change brax `Inertia` ↔
MuJoCo's `cinert` (`SameInertia`: same rotational part, same `m·offset`, same mass) commutes with
the backward accumulation — every forest, any commutative ring. -/
theorem crb_eq_mj {R : Type} [CommRing R] (ps : List Int) (cinr : List (Inertia R))
    (cinert : List (MjD.CInert R)) (hI : List.Forall₂ SameInertia cinr cinert) :
    List.Forall₂ SameInertia (crb ps cinr) (revAcc MjD.CInert.add ps cinert) :=
  crb_same ps cinr cinert hI

/-- **the `dof_parentid` chain of MuJoCo visits exactly the dofs brax's ancestor mask keeps**: the
chain started at dof `r` of link `l` contains dof `s` of link `a` iff `a = l ∧ s ≤ r`, or `a` is a
strict ancestor of `l` (`ancs` = the `while j > -1` walk over `link_parents`) — every forest whose
parents precede their children, every assignment of link types. -/
theorem dofChain_mem_iff (ts : List LinkType) (ps : List Int) (hps : ps.length = ts.length) (hwf : PWF ps)
    (l r a s : Nat) (hl : l < ts.length) (hr : r < Tw ts l) (ha : a < ts.length) (hs : s < Tw ts a) :
    offs (Tw ts) a + s ∈ MjD.dofChain (MjD.dofParent ts ps) (offs (Tw ts) l + r + 1) (offs (Tw ts) l + r)
      ↔ (a = l ∧ s ≤ r) ∨ (a ≠ l ∧ a ∈ ancs ps l) := by
  rw [dofChain_eq_ancs]
  exact chain_mem ts ps hps hwf l hl r hr a s ha hs

/-- **`mass.matrix` = `mj_crb` + armature, as matrices** (generic form): for every forest whose
parents precede their children, every `cdof` (nested per link), every two link-inertia lists that
describe the same forms, every armature given nested (`arm`) and flat (`armF`), and link types `ts`
whose widths are the row widths of `cdof` (`WidthsOK`: up to the last link that has a dof at all) —
the block-form matrix of the model **is** the Spec's dense `fullM`, as lists of rows.  Any commutative
ring (so it also runs on the exact integer lattice of the correspondence). -/
theorem massMatrix_eq_fullM_of_same {R : Type} [CommRing R] (ts : List LinkType) (ps : List Int)
    (cinr : List (Inertia R)) (cinert : List (MjD.CInert R)) (cdof : List (List (Motion R)))
    (arm : List (List R)) (armF : List R)
    (hps : ps.length = cdof.length) (hts : ts.length = cdof.length) (hcinr : cinr.length = cdof.length)
    (hwf : PWF ps) (hI : List.Forall₂ SameInertia cinr cinert) (hW : WidthsOK ts (wAt cdof))
    (harm : ∀ l r, l < cdof.length → r < wAt cdof l →
      armAt arm l r = armF.getD (offs (wAt cdof) l + r) 0) :
    massMatrix ps cinr cdof arm
      = MjD.fullM ts ps (revAcc MjD.CInert.add ps cinert) cdof.flatten armF :=
  massMatrix_eq_fullM ts ps cinr cinert cdof arm armF hps hts hcinr hwf hI hW harm

/-- **the composite inertias of the pipeline equal MuJoCo's `crb`** for every `DynOK` system and
state. -/
theorem pipeline_crb_eq_mj (s : Sys ℝ) (q qd ctrl : List ℝ) (h : DynOK s q qd) :
    List.Forall₂ SameInertia (crb s.parents (dynInit s q qd).com.cinr) (MjD.forwardData s q qd ctrl).crb := by
  have h' : DynOK { s with acts := [] } q qd := ⟨h.parents, h.links, h.wf, h.low, h.kin, h.basis⟩
  obtain ⟨_, _, _, _, hcinr', _, _⟩ :=
    dynamics_eq_mj { s with acts := [] } q qd ctrl h' (by intro a ha; simp at ha)
  have hcinr : List.Forall₂ SameInertia (dynInit s q qd).com.cinr (MjD.forwardData s q qd ctrl).cinert :=
    hcinr'
  exact crb_eq_mj s.parents _ _ hcinr

/-- **The generalized pipeline's mass matrix equals the reference engine's, entry by entry.**
For every `DynOK` system and state (the hypotheses of `dynamics_eq_mj`; the actuators are not
read), `pipeline.init(sys, q, qd).mass_mx` — `mass.matrix` applied to the `cinr`, `cdof` of
`transform_com` and `dof.armature` — **is** the Spec's `fullM` (MuJoCo's composite-rigid-body
matrix `mj_crb`, dense as `mj_fullM` returns it, plus `dof_armature` on the diagonal), as lists of
rows: same size, same entries.  Ingredients: `dynamics_eq_mj` (`cdof` equal, `cinr` ≙ `cinert`),
`crb_eq_mj` (the representation map commutes with the backward accumulation), `SameInertia.mul`
(the bilinear form is the same in both representations), `dofChain_mem_iff` (chain walk = ancestor
mask + lower triangle), `flat_le_iff`/`flat_eq_iff` (flat order = block order), `armAt_flat`
(nested armature = flat `dof_armature`). -/
theorem massMatrix_eq_mj (s : Sys ℝ) (q qd ctrl : List ℝ) (h : DynOK s q qd) :
    (dynInit s q qd).massMx = (MjD.forwardData s q qd ctrl).fullM := by
  -- the CoM-frame inputs agree (`dynamics_eq_mj`; none of them reads the actuators)
  have h' : DynOK { s with acts := [] } q qd := ⟨h.parents, h.links, h.wf, h.low, h.kin, h.basis⟩
  obtain ⟨_, hcdof', _, _, hcinr', _, _⟩ :=
    dynamics_eq_mj { s with acts := [] } q qd ctrl h' (by intro a ha; simp at ha)
  have hcdof : (dynInit s q qd).com.cdof = (MjD.forwardData s q qd ctrl).cdof := hcdof'
  have hcinr : List.Forall₂ SameInertia (dynInit s q qd).com.cinr (MjD.forwardData s q qd ctrl).cinert :=
    hcinr'
  set x := (Kin.forward s q qd).map (·.1) with hxdef
  have hx : x.length = s.types.length := by
    rw [hxdef, List.length_map]; exact forward_length s q qd h.parents h.links
  obtain ⟨hc, hd⟩ := transformCom_lengths s x q qd hx h.parents h.links
  set com := transformCom s x q qd with hcom
  have hM : (dynInit s q qd).massMx = massMatrix s.parents com.cinr com.cdof
      ((linkSlices s.types q qd s.dofs).map fun l => l.dofs.map (·.armature)) := rfl
  have hF : (MjD.forwardData s q qd ctrl).fullM
      = MjD.fullM s.types s.parents
          (revAcc MjD.CInert.add s.parents (MjD.forwardData s q qd ctrl).cinert)
          (MjD.forwardData s q qd ctrl).cdof.flatten (s.dofs.map (·.armature)) := rfl
  have hC : (dynInit s q qd).com = com := rfl
  rw [hC] at hcdof hcinr
  rw [hM, hF, ← hcdof]
  -- hinge/slide links have as many coordinates as dofs (`LinkOK`), so every link has as many
  -- `cdof` rows as the slicing gave it dofs
  have hq : ∀ l ∈ linkSlices s.types q qd s.dofs, l.typ ≠ .free → l.q.length = l.dofs.length := by
    intro l hl hnf
    rw [List.mem_iff_getElem] at hl
    obtain ⟨i, hi, rfl⟩ := hl
    have hi' : i < s.types.length := by rwa [linkSlices_length] at hi
    have hmem : (s.parents[i]'(by rw [h.parents]; exact hi'), s.links[i]'(by rw [h.links]; exact hi'),
        (linkSlices s.types q qd s.dofs)[i]) ∈ s.parents.zip (s.links.zip (linkSlices s.types q qd s.dofs)) := by
      rw [List.mem_iff_getElem]
      exact ⟨i, by simp [h.parents, h.links, linkSlices_length]; exact hi', by simp⟩
    exact ((h.kin _ hmem).nonfree hnf).1
  have hw := transformCom_widths s x q qd h.parents h.links hq
  rw [← hcom] at hw
  refine massMatrix_eq_fullM s.types s.parents com.cinr _ com.cdof _ _ (by rw [hd, h.parents]) (by rw [hd])
    (by rw [hc, hd]) h.wf hcinr ((linkSlices_widthsOK s.types q qd s.dofs).congr hw) ?_
  intro l r hl hr
  rw [hd] at hl
  exact armAt_flat s.types q qd s.dofs (wAt com.cdof) hw l r hl hr

/-- entrywise form (same `entry` accessor as `massMatrix_symm`) -/
theorem massMatrix_entry_eq_mj (s : Sys ℝ) (q qd ctrl : List ℝ) (h : DynOK s q qd) (i j : Nat) :
    entry (dynInit s q qd).massMx i j = entry (MjD.forwardData s q qd ctrl).fullM i j := by
  rw [massMatrix_eq_mj s q qd ctrl h]

/-- consequently **MuJoCo's `fullM` (as the Spec computes it) is symmetric positive definite** on
every `DynOK` ∧ `PhysOK` system: the two top-level mass-matrix theorems compose. -/
theorem mj_fullM_spd (s : Sys ℝ) (q qd ctrl : List ℝ) (h : DynOK s q qd) (hp : PhysOK s)
    (X : Nat → Nat → ℝ) :
    (∀ i j, entry (MjD.forwardData s q qd ctrl).fullM i j = entry (MjD.forwardData s q qd ctrl).fullM j i)
    ∧ ((∃ l r, l < (dynInit s q qd).com.cdof.length ∧ r < wAt (dynInit s q qd).com.cdof l ∧ X l r ≠ 0) →
        0 < quadForm (MjD.forwardData s q qd ctrl).fullM (flatVec (dynInit s q qd).com.cdof X)) := by
  rw [← massMatrix_eq_mj s q qd ctrl h]
  obtain ⟨h1, _, h3⟩ := pipeline_massMatrix_spd s hp q qd X
  exact ⟨h1, h3⟩

/-! ### non-vacuity of the generic form: the two-link ℤ chain of `massMatrix_eq_keForm`

`massMatrix_eq_mj` has `DynOK` as its only hypothesis, which the example above shows satisfiable.
For `massMatrix_eq_fullM_of_same`: link types `[two, one]`, MuJoCo's 10 numbers read off `exCinr`,
flat armature `[1, 0, 2]`; the hypotheses hold and both sides are the same non-trivial matrix. -/

def exCinert : List (MjD.CInert ℤ) := exCinr.map fun I => ⟨I.i, I.tf.pos, I.mass⟩

example : List.Forall₂ SameInertia exCinr exCinert := by
  simp [exCinr, exCinert, SameInertia]

example : WidthsOK [.two, .one] (wAt exCdof) := by
  intro l hl _
  match l with
  | 0 => exact ⟨fun k hk => absurd hk (Nat.not_lt_zero k), by decide⟩
  | 1 => exact ⟨fun k hk => by (have : k = 0 := by omega); subst this; decide, by decide⟩
  | k + 2 => simp at hl

example : massMatrix exPs exCinr exCdof exArm = [[17, -4, -1], [-4, 5, 2], [-1, 2, 4]] := by decide
example : MjD.fullM [.two, .one] exPs (revAcc MjD.CInert.add exPs exCinert) exCdof.flatten [1, 0, 2]
    = [[17, -4, -1], [-4, 5, 2], [-1, 2, 4]] := by decide

end Brax.C02
