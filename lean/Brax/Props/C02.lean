import Brax.Lemmas.C02
/-!
# C02 — generalized-pipeline dynamics terms equal the reference engine

Model: `Brax/Model/C02.lean` (`Brax.Gd`), tied to `/repo` on every run by `harness/corr_C02.py`
(every stage, float 1e-9; exact on the integer lattice for the polynomial stages).
Spec: `Brax/Spec/C02.lean` (`Brax.MjD`, MuJoCo's sequential algorithms), tied to the real
`MjData` by the second leg.  Only property theorems and non-vacuity examples live here.
-/
set_option linter.unusedSectionVars false
namespace Brax.C02
open Brax Kin Gd

/-! ## the joint-space inertia matrix is symmetric -/

/-- **`mass.matrix` returns a symmetric matrix**, for every forest, every `cinr`, `cdof`,
armature — by construction (`tril(mx) + tril(mx,-1)ᵀ + diag`), whatever the scalar type. -/
theorem massMatrix_symm {α : Type} [Zero α] [One α] [Add α] [Sub α] [Mul α]
    (ps : List Int) (cinr : List (Inertia α)) (cdof : List (List (Motion α))) (arm : List (List α))
    (i j : Nat) :
    entry (massMatrix ps cinr cdof arm) i j = entry (massMatrix ps cinr cdof arm) j i := by
  unfold massMatrix
  simp only
  generalize ((List.range cdof.length).flatMap fun l =>
    (List.range (cdof.getD l []).length).map fun r => (l, r)) = idx
  rw [entry_map_map idx (fun lr as => massEntry ps (crb ps cinr) cdof arm lr.1 lr.2 as.1 as.2),
    entry_map_map idx (fun lr as => massEntry ps (crb ps cinr) cdof arm lr.1 lr.2 as.1 as.2)]
  cases idx[i]? <;> cases idx[j]? <;> simp only
  exact massEntry_symm _ _ _ _ _ _ _ _

end Brax.C02
