import Brax.Lemmas.C02Dyn
/-!
# C02 — generalized-pipeline dynamics terms equal the reference engine

Model: `Brax/Model/C02.lean` (`Brax.Gd`), tied to `/repo` on every run by `harness/corr_C02.py`
(every stage, float 1e-9; exact on the integer lattice for the polynomial stages).
Spec: `Brax/Spec/C02.lean` (`Brax.MjD`, MuJoCo's sequential algorithms), tied to the real
`MjData` by the second leg.  Only property theorems and non-vacuity examples live here.
-/
set_option linter.unusedSectionVars false
namespace Brax.C02
open Brax Kin Gd

/-! ## the joint-space inertia matrix is symmetric -/

/-- **`mass.matrix` returns a symmetric matrix**, for every forest, every `cinr`, `cdof`,
armature — by construction (`tril(mx) + tril(mx,-1)ᵀ + diag`), whatever the scalar type. -/
theorem massMatrix_symm {α : Type} [Zero α] [One α] [Add α] [Sub α] [Mul α]
    (ps : List Int) (cinr : List (Inertia α)) (cdof : List (List (Motion α))) (arm : List (List α))
    (i j : Nat) :
    entry (massMatrix ps cinr cdof arm) i j = entry (massMatrix ps cinr cdof arm) j i := by
  unfold massMatrix
  simp only
  generalize ((List.range cdof.length).flatMap fun l =>
    (List.range (cdof.getD l []).length).map fun r => (l, r)) = idx
  rw [entry_map_map idx (fun lr as => massEntry ps (crb ps cinr) cdof arm lr.1 lr.2 as.1 as.2),
    entry_map_map idx (fun lr as => massEntry ps (crb ps cinr) cdof arm lr.1 lr.2 as.1 as.2)]
  cases idx[i]? <;> cases idx[j]? <;> simp only
  exact massEntry_symm _ _ _ _ _ _ _ _

/-! ## the quadratic form of the mass matrix is the kinetic energy (CRB correctness) -/

/-- the flat generalized-velocity vector with entry `X l r` at the `r`-th dof of link `l` -/
def flatVec {R : Type} (cdof : List (List (Motion R))) (X : Nat → Nat → R) : List R :=
  (dofIdx cdof.length (wAt cdof)).map fun lr => X lr.1 lr.2

/-- **`xᵀ M x = Σ_k v_k(x)ᵀ I_k v_k(x) + Σ_i armature_i x_i²`** with
`v_k(x) = Σ_{i ∈ dofs of ancestors-or-self of k} cdof_i x_i` (`velAnc`): the matrix built by
`mass.matrix` (composite inertias by the reverse tree scan, ancestor mask, lower triangle
mirrored, armature on the diagonal) is the joint-space inertia matrix of the tree — for every
forest (parents precede children), every `cdof`, every symmetric `cinr`, over any commutative
ring. -/
theorem massMatrix_eq_keForm {R : Type} [CommRing R] (ps : List Int) (cinr : List (Inertia R))
    (cdof : List (List (Motion R))) (arm : List (List R)) (X : Nat → Nat → R)
    (hps : ps.length = cdof.length) (hI : cinr.length = cdof.length) (hwf : PWF ps)
    (hsym : ∀ x ∈ cinr, SymmI x) :
    quadForm (massMatrix ps cinr cdof arm) (flatVec cdof X)
      = rsum cdof.length (fun k => ke (cinr.getD k dI) (velAnc ps cdof X k))
        + nsum cdof.length (wAt cdof) (fun l r => armAt arm l r * (X l r * X l r)) :=
  quadForm_massMatrix ps cinr cdof arm X hps hI hwf hsym

section ordered
variable {K : Type} [Field K] [LinearOrder K] [IsStrictOrderedRing K]

/-- **positive semidefinite**: when every CoM-frame link inertia is a non-negative form and the
armatures are non-negative, `xᵀ M x ≥ 0`. -/
theorem massMatrix_posSemidef (ps : List Int) (cinr : List (Inertia K))
    (cdof : List (List (Motion K))) (arm : List (List K)) (X : Nat → Nat → K)
    (hps : ps.length = cdof.length) (hI : cinr.length = cdof.length) (hwf : PWF ps)
    (hsym : ∀ x ∈ cinr, SymmI x) (hpsd : ∀ k v, 0 ≤ ke (cinr.getD k dI) v)
    (harm : ∀ l r, 0 ≤ armAt arm l r) :
    0 ≤ quadForm (massMatrix ps cinr cdof arm) (flatVec cdof X) := by
  rw [massMatrix_eq_keForm ps cinr cdof arm X hps hI hwf hsym]
  apply add_nonneg
  · exact rsum_nonneg _ _ fun k _ => hpsd k _
  · exact rsum_nonneg _ _ fun l _ => rsum_nonneg _ _ fun r _ =>
      mul_nonneg (harm l r) (mul_self_nonneg _)

/-- **positive definite when the armature is positive**: `xᵀ M x > 0` for every `x ≠ 0`. -/
theorem massMatrix_posDef_of_armature (ps : List Int) (cinr : List (Inertia K))
    (cdof : List (List (Motion K))) (arm : List (List K)) (X : Nat → Nat → K)
    (hps : ps.length = cdof.length) (hI : cinr.length = cdof.length) (hwf : PWF ps)
    (hsym : ∀ x ∈ cinr, SymmI x) (hpsd : ∀ k v, 0 ≤ ke (cinr.getD k dI) v)
    (harm : ∀ l r, 0 < armAt arm l r)
    (hX : ∃ l r, l < cdof.length ∧ r < wAt cdof l ∧ X l r ≠ 0) :
    0 < quadForm (massMatrix ps cinr cdof arm) (flatVec cdof X) := by
  rw [massMatrix_eq_keForm ps cinr cdof arm X hps hI hwf hsym]
  obtain ⟨l, r, hl, hr, hx⟩ := hX
  apply add_pos_of_nonneg_of_pos
  · exact rsum_nonneg _ _ fun k _ => hpsd k _
  · have hterm : ∀ a s, 0 ≤ armAt arm a s * (X a s * X a s) := fun a s =>
      mul_nonneg (le_of_lt (harm a s)) (mul_self_nonneg _)
    apply rsum_pos _ _ (fun a _ => rsum_nonneg _ _ fun s _ => hterm a s) l hl
    apply rsum_pos _ _ (fun s _ => hterm l s) r hr
    exact mul_pos (harm l r) (mul_self_pos.mpr hx)

end ordered

/-! ## passive force and total smooth force, against the Spec -/

/-- **`_passive` equals MuJoCo's `qfrc_passive`** (springs on hinge/slide dofs, dampers on every
dof) — every system, every state. -/
theorem passive_eq (s : Sys ℝ) (q qd ctrl : List ℝ) :
    passiveFlat s q qd = (MjD.forwardData s q qd ctrl).qfrcPassive := by
  unfold passiveFlat nested MjD.forwardData
  simp only
  congr 1
  apply List.map_congr_left
  intro l _
  exact passiveLink_eq l

/-- closed form of one link's passive force: `−k·q − d·q̇` on hinge/slide dofs -/
theorem passive_axis (l : LinkIn ℝ) (h : l.typ ≠ .free) :
    passiveLink l = (l.dofs.zip (l.q.zip l.qd)).map fun t =>
      -(t.1.stiffness * t.2.1) + -(t.1.damping * t.2.2) := by
  rw [passiveLink_eq]
  unfold MjD.passive
  cases ht : l.typ with
  | free => exact absurd ht h
  | one | two | three => rfl

/-- … and `−d·q̇` only on the dofs of a free link (stiffness is **not** applied to free `q`) -/
theorem passive_free (l : LinkIn ℝ) (h : l.typ = .free) :
    passiveLink l = (l.dofs.zip l.qd).map fun t => -(t.1.damping * t.2) := by
  rw [passiveLink_eq]
  unfold MjD.passive
  rw [h]

/-- **`dynamics.forward`: `qf_smooth = passive − bias + tau` equals MuJoCo's `qfrc_smooth`**
whenever the bias force and the actuator force do. -/
theorem forward_eq (s : Sys ℝ) (st : DynState ℝ) (q qd act : List ℝ)
    (hbias : biasFlat s st q qd = (MjD.forwardData s q qd act).qfrcBias)
    (htau : toTau s.nv s.acts act q qd = (MjD.forwardData s q qd act).qfrcActuator) :
    qfSmooth s st q qd act = (MjD.forwardData s q qd act).qfrcSmooth := by
  unfold qfSmooth
  rw [hbias, htau, passive_eq s q qd act]
  rfl

/-! ## semi-implicit Euler with implicit joint damping -/

/-- entries of `mass_mx + diag(damping)·dt` -/
theorem dampedMatrix_entry (m : List (List ℝ)) (d : List ℝ) (dt : ℝ) (i j : Nat)
    (hi : i < m.length) (hj : j < (m.getD i []).length) :
    entry (dampedMatrix m d dt) i j = entry m i j + (if j = i then d.getD i 0 * dt else 0) := by
  unfold dampedMatrix entry
  rw [getD_map_zip_range m _ [] [] i hi]
  simp only
  rw [getD_map_zip_range (m.getD i []) _ 0 0 j hj]
  simp only
  split <;> simp

/-- **`integrator.integrate` is the semi-implicit Euler step with implicit joint damping.**
With `solve` an exact solve of `M′ = mass_mx + dt·diag(damping)` for the right-hand side at hand:
`M′ (q̇′ − q̇) = dt·(qf_smooth + qf_constraint)`, the reported `qdd` is the solution, and the
positions are integrated link by link from the **new** velocities. -/
theorem integrate_semiImplicit (solve : List (List ℝ) → List ℝ → List ℝ) (s : Sys ℝ)
    (m : List (List ℝ)) (q qd f c : List ℝ)
    (hsolve : matVec (dampedMatrix m (s.dofs.map (·.damping)) s.dt)
        (solve (dampedMatrix m (s.dofs.map (·.damping)) s.dt) (List.zipWith (· + ·) f c))
      = List.zipWith (· + ·) f c)
    (hlen : (solve (dampedMatrix m (s.dofs.map (·.damping)) s.dt) (List.zipWith (· + ·) f c)).length
      = qd.length) :
    let r := integrate solve s m q qd f c
    matVec (dampedMatrix m (s.dofs.map (·.damping)) s.dt) (List.zipWith (· - ·) r.2.1 qd)
        = (List.zipWith (· + ·) f c).map (· * s.dt)
    ∧ r.1 = ((linkSlices s.types q r.2.1 s.dofs).map (integrateQLink s.dt)).flatten := by
  intro r
  refine ⟨?_, rfl⟩
  show matVec _ (List.zipWith (· - ·) (List.zipWith (fun v a => v + a * s.dt) qd _) qd) = _
  rw [zipWith_sub_update qd _ s.dt hlen, matVec_map_mul_right, hsolve]

/-- hinge/slide links: `q′ = q + dt·q̇′` -/
theorem integrate_axis (dt : ℝ) (l : LinkIn ℝ) (h : l.typ ≠ .free) :
    integrateQLink dt l = List.zipWith (fun q v => q + v * dt) l.q l.qd := by
  unfold integrateQLink
  cases ht : l.typ with
  | free => exact absurd ht h
  | one | two | three => rfl

/-- free links: `pos′ = pos + dt·v′`, and the new orientation is a **unit** quaternion -/
theorem integrate_free (dt : ℝ) (hdt : |dt| ≤ 1) (l : LinkIn ℝ) (h : l.typ = .free)
    (p0 p1 p2 r0 r1 r2 r3 v0 v1 v2 w0 w1 w2 : ℝ)
    (hq : l.q = [p0, p1, p2, r0, r1, r2, r3]) (hqd : l.qd = [v0, v1, v2, w0, w1, w2])
    (hr : 0 < Q4.normSq (⟨r0, r1, r2, r3⟩ : Q4 ℝ)) :
    ∃ rot : Q4 ℝ, rot.IsUnit ∧ integrateQLink dt l
      = [p0 + v0 * dt, p1 + v1 * dt, p2 + v2 * dt, rot.w, rot.x, rot.y, rot.z] := by
  unfold integrateQLink
  rw [h, hq, hqd]
  exact integrateQFree_unit dt hdt p0 p1 p2 r0 r1 r2 r3 v0 v1 v2 w0 w1 w2 hr

end Brax.C02
