import Brax.Model.C02
/-!
# C02 — generalized-pipeline dynamics terms equal the reference engine (theorems: stage 3)
-/
namespace Brax.C02
end Brax.C02
