import Brax.Lemmas.C04
namespace Brax.C04
open Brax MC C04L

/-- placeholder while the development is in progress -/
theorem segmentSum_total {M : Type} [AddCommMonoid M] (vals : List M) (ids : List Int) (n : Nat) :
    (segmentSum vals ids n).sum
      = (((vals.zip ids).filter fun p => decide (0 ≤ p.2 ∧ p.2 < (n : Int))).map (·.1)).sum :=
  C04L.segmentSum_total vals ids n

end Brax.C04
