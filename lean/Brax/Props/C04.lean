import Brax.Lemmas.C04Real
import Brax.Lemmas.C04Rest2
import Brax.Lemmas.C04PosRest
import Brax.Lemmas.C04Gen
import Brax.Lemmas.C04PosRest2
import Brax.Lemmas.C04Init
import Brax.Lemmas.C04Tau
import Brax.Props.C08
import Mathlib.Tactic.IntervalCases
/-!
# C04 — internal forces obey Newton's first and third laws

Models: `Brax/Model/{Com,Spring,Positional}.lean` (tied to `/repo` on every run by
`harness/corr_C04.py`: exact-lattice for the assembly functions, 1e-9 for whole steps).

All theorems are stated over an arbitrary ordered field `K` with **arbitrary** interpretations of
the opaque scalar functions (`HasSqrt/HasTrig/HasExp/HasPow/HasF32`): conservation of momentum
does not depend on what `sqrt`, `atan2`, `exp`, `**` compute, hence neither on the complicated
per-type joint functions — they hold for arbitrary joint-frame forces and impulses, for every
forest (any number of links) and every control history.

* `segmentSum_total`                     — Layer B: what `jax.ops.segment_sum` sums to
* `resolve_total_force`, `resolve_total_force_free_roots`, `accelerationUpdate_total_force_free_roots`
* `positionUpdate_momentum`
* `collision_momentum_two_body`, `collide_momentum_spring`, `resolvePosition_momentum`,
  `resolveVelocity_momentum_positional`, `three_body_averaging_counterexample`
* `step_momentum_spring`, `step_momentum_positional`, `history_momentum_spring`,
  `history_momentum_positional`
* rest case (partial): `jointForce_restLink`, `rest_stays_at_rest_spring_partial`,
  `rest_stays_at_rest_positional_partial`, `jointDisplacements_free_link`; full statements as a
  comment block (`…Stmt`).
* rest case, deepened (section `deepen`, ℝ): `rest_stays_at_rest_generalized` (the whole
  generalized step, every link type), `gaussSolve_zero_rhs`, `jointForce_pureStack`,
  `rest_stays_at_rest_spring_stacks` (spring: free, 1-dof and the six 2- and 3-dof stack kinds),
  `jointForce_forward_pureStack` (link level: `world_to_joint ∘ forward` feeds `jcalc q`),
  `threeDofJointUpdate_oneDof`, `rest_stays_at_rest_positional_oneDof` (positional: free + 1-dof).
* rest case from `init(q, 0)` (section `deepen2`, ℝ, whole trees): `forward_init_rest`,
  `worldToJoint_init_rest`, `inverse_init_rest`, `rest_stays_at_rest_spring_init`,
  `rest_stays_at_rest_spring_init_inverse`, `threeDofJointUpdate_stacks`,
  `rest_stays_at_rest_positional_stacks`, `rest_stays_at_rest_positional_init`,
  `rest_stays_at_rest_positional_init_inverse`.

Helper lemmas live in `Brax/Lemmas/C04*.lean`.
-/
set_option linter.unusedSectionVars false
set_option linter.unusedVariables false
namespace Brax.C04
open Brax MC C04L

/-! ## Layer B -/

/-- **`segment_sum` conserves the total of the in-range entries**: the sum of
`segment_sum(vals, ids, n)` is the sum of the `vals` whose id lies in `[0, n)`; every other
entry — the world parent `-1` in particular — is dropped.  Any `n`, any ids, any additive
commutative monoid. -/
theorem segmentSum_total {M : Type} [AddCommMonoid M] (vals : List M) (ids : List Int) (n : Nat) :
    (segmentSum vals ids n).sum
      = (((vals.zip ids).filter fun p => decide (0 ≤ p.2 ∧ p.2 < (n : Int))).map (·.1)).sum :=
  C04L.segmentSum_total vals ids n

/-! ## joint forces -/
section forces
variable {K : Type} [Field K] [LinearOrder K] [IsStrictOrderedRing K]
  [HasSqrt K] [HasTrig K] [HasExp K] [HasPow K] [HasF32 K]

/-- **Total force of `joints.resolve` / `acceleration_update`, for ANY joint-frame force.**
Whatever per-link joint-frame force `jf` enters the assembly, and whatever the poses are, the
world forces `xf_i` it produces sum to the rotated child forces of the links whose parent index
is not a link of the system (the rows `segment_sum` drops — the world parent `-1`): each force
on a child is applied, negated, to its parent (Newton's third law). -/
theorem resolve_total_force (parents : List Int) (a_p a_c x_i : List (Tf K)) (jf : List (Force K)) :
    ((Spring.assemble parents a_p a_c x_i jf).map (·.vel)).sum
      = ∑ i ∈ Finset.range parents.length,
          if inRange parents.length (parentOf parents i) then 0
          else rotate (nth jf i).vel (nth a_p i).rot :=
  assemble_total_force parents a_p a_c x_i jf

/-- … hence with free roots (`jf = 0` there, `_free`) the internal joint forces of the spring
pipeline sum to **zero**, for every actuator torque `tau` and every state. -/
theorem resolve_total_force_free_roots (s : Sys K) (h : FreeRooted s) (st : Spring.State K)
    (tau : List K) :
    (∑ i ∈ Finset.range s.numLinks, (nth (Spring.resolve s st tau) i).vel) = 0 :=
  resolve_sum_zero s h st tau

/-- the same for the positional pipeline's `joints.acceleration_update` -/
theorem accelerationUpdate_total_force_free_roots (s : Sys K) (h : FreeRooted s)
    (st : Positional.State K) (tau : List K) :
    (∑ i ∈ Finset.range s.numLinks, (nth (Positional.accelerationUpdate s st tau) i).vel) = 0 :=
  accUpdate_sum_zero s h st tau

/-- **The positional joint position update conserves `Σ m_i · pos_i`**, for ANY per-link
correction `dw` that vanishes on the links without a parent link (the free roots, whose
correction `free_mask` zeroes): `Σ_i m_i · Δpos_i = 0`. -/
theorem positionUpdate_momentum (parents : List Int) (jsp jsa : K) (a_p a_c x_i : List (Tf K))
    (iInv : List (M3 K)) (massInv : List K) (dw : List (V3 K × V3 K)) (m : Nat → K)
    (hlenM : massInv.length = parents.length)
    (hm : ∀ i, i < parents.length → m i * nthS massInv i = 1)
    (hpar : ∀ i, i < parents.length → -1 ≤ parentOf parents i ∧ parentOf parents i < (i : Int))
    (hroot : ∀ i, i < parents.length → parentOf parents i = -1 → (nth dw i).1 = 0) :
    (∑ i ∈ Finset.range parents.length,
      V3.smul (m i) ((nth (Positional.positionAssemble parents jsp jsa a_p a_c x_i iInv massInv dw) i).pos
        - (nth x_i i).pos)) = 0 :=
  positionAssemble_momentum parents jsp jsa a_p a_c x_i iInv massInv dw m hlenM hm hpar hroot

/-! ## contacts -/

/-- **Two-body contacts conserve the total impulse**, for ANY impulses: for any list of contacts
all between the same two links `a`, `b`, any per-contact impulses `ps` and counters `isC`, the
per-link impulses produced by the shared tail of `spring.collisions.resolve` and
`positional.collisions.resolve_velocity` (`(p, -p)`, lever arm, `segment_sum`, division by
`num_contacts + 1e-8`) sum to zero — both links are divided by the same number. -/
theorem collision_momentum_two_body (n : Nat) (xiAt : Int → Tf K) (cs : List (Contact K))
    (ps : List (Force K)) (isC : List K) (a b : Nat) (ha : a < n) (hb : b < n)
    (h : ∀ c ∈ cs, c.link1 = (a : Int) ∧ c.link2 = (b : Int))
    (hps : ps.length = cs.length) (hc : isC.length = cs.length) :
    (∑ i ∈ Finset.range n, (nth (Spring.spreadImpulses n xiAt cs ps isC) i).vel) = 0 :=
  spread_two_body n xiAt cs ps isC a b ha hb h hps hc

/-- `spring.collisions.resolve`: `Σ_i m_i · Δv_i = 0` for two-body contact lists -/
theorem collide_momentum_spring (s : Sys K) (st : Spring.State K) (cs : List (Contact K))
    (hcs : TwoBody s.numLinks cs) (hm : ∀ i, i < s.numLinks → nthS st.mass i ≠ 0) :
    (∑ i ∈ Finset.range s.numLinks, V3.smul (nthS st.mass i) (nth (Spring.collide s st cs) i).vel) = 0 :=
  collide_momentum s st cs hcs hm

/-- `positional.collisions.resolve_position`: `Σ_i m_i · Δpos_i = 0` for ANY per-contact deltas that
are opposite after weighting with the masses, for any number of bodies (no averaging here) -/
theorem resolvePosition_momentum (n : Nat) (x_i : List (Tf K)) (cs : List (Contact K))
    (dps : List (Positional.DTf K × Positional.DTf K)) (m : Nat → K) (hlen : dps.length = cs.length)
    (hrel : ∀ cd ∈ cs.zip dps, ∃ a b : Nat, a < n ∧ b < n ∧ cd.1.link1 = (a : Int) ∧ cd.1.link2 = (b : Int)
        ∧ V3.smul (m a) cd.2.1.pos + V3.smul (m b) cd.2.2.pos = 0) :
    (∑ i ∈ Finset.range n,
      V3.smul (m i) ((nth (Positional.positionSpread n x_i cs dps) i).pos - (nth x_i i).pos)) = 0 :=
  positionSpread_momentum n x_i cs dps m hlen hrel

/-- `positional.collisions.resolve_velocity`: `Σ_i m_i · Δv_i = 0` for two-body contact lists -/
theorem resolveVelocity_momentum_positional (s : Sys K) (x_i : List (Tf K)) (xd_i xdPrev : List (Motion K))
    (ii : List (M3 K)) (im : List K) (cs : List (Contact K)) (dl : List K) (m : Nat → K)
    (hcs : TwoBody s.numLinks cs) (hdl : cs ≠ [] → dl.length = cs.length)
    (hm : ∀ i, i < s.numLinks → m i * nthS im i = 1) :
    (∑ i ∈ Finset.range s.numLinks,
      V3.smul (m i) (nth (Positional.resolveVelocity s x_i xd_i xdPrev ii im cs dl) i).vel) = 0 :=
  resolveVelocity_momentum s x_i xd_i xdPrev ii im cs dl m hcs hdl hm

/-! ## whole steps and histories -/

/-- **One `spring.pipeline.step` of a free-rooted system**: `P' = P + (Σ m_i)·dt·g`, for every
state, every control, with `vel_damping = 0` (i.e. `exp(vel_damping·dt) = 1`) and contacts (if
any) between two bodies; `P = Σ_i mass_i · xd_i.vel` with the pipeline's own
`mass = link mass ** (1 - spring_mass_scale)`. -/
theorem step_momentum_spring (inv : List (Tf K) → List (Motion K) → List K × List K)
    (cf : List (Tf K) → List (Contact K)) (s : Sys K) (st : Spring.State K) (act : List K)
    (h : FreeRooted s) (hlen : st.mass.length = s.numLinks)
    (hm : ∀ i, i < s.numLinks → nthS st.mass i ≠ 0)
    (hdamp : HasExp.exp (s.velDamping * s.dt) = (1 : K))
    (hcs : TwoBody s.numLinks (cf st.x)) :
    momentum (Spring.step inv cf s st act).mass (Spring.step inv cf s st act).xd_i
      = momentum st.mass st.xd_i + V3.smul (totalMass st.mass * s.dt) s.gravity :=
  spring_step_momentum inv cf s st act h hlen hm hdamp hcs

/-- **One `positional.pipeline.step` of a free-rooted system**: `P' = P + (Σ m_i)·dt·g`. -/
theorem step_momentum_positional (inv : List (Tf K) → List (Motion K) → List K × List K)
    (cf : List (Tf K) → List (Contact K)) (s : Sys K) (st : Positional.State K) (act : List K)
    (h : FreeRooted s) (hok : PosOK s st) (hlen : st.mass.length = s.numLinks)
    (hdamp : HasExp.exp (s.velDamping * s.dt) = (1 : K)) (hdt : s.dt ≠ 0)
    (hcs : TwoBody s.numLinks (cf (posX2 s st act))) :
    momentum (Positional.step inv cf s st act).mass (Positional.step inv cf s st act).xd_i
      = momentum st.mass st.xd_i + V3.smul (totalMass st.mass * s.dt) s.gravity :=
  positional_step_momentum inv cf s st act h hok hlen hdamp hdt hcs

/-- a control history applied to a spring state -/
def runSpring (inv : List (Tf K) → List (Motion K) → List K × List K)
    (cf : List (Tf K) → List (Contact K)) (s : Sys K) (st : Spring.State K) (acts : List (List K)) :
    Spring.State K :=
  acts.foldl (fun st a => Spring.step inv cf s st a) st

/-- a control history applied to a positional state -/
def runPositional (inv : List (Tf K) → List (Motion K) → List K × List K)
    (cf : List (Tf K) → List (Contact K)) (s : Sys K) (st : Positional.State K) (acts : List (List K)) :
    Positional.State K :=
  acts.foldl (fun st a => Positional.step inv cf s st a) st

/-- **Every step of every history (spring).**  After any control sequence of any length `T`,
`P_T = P_0 + T·(Σ m_i)·dt·g` — even when the simulation itself is stiff or unstable. -/
theorem history_momentum_spring (inv : List (Tf K) → List (Motion K) → List K × List K)
    (cf : List (Tf K) → List (Contact K)) (s : Sys K) (h : FreeRooted s)
    (hdamp : HasExp.exp (s.velDamping * s.dt) = (1 : K))
    (hcs : ∀ x, TwoBody s.numLinks (cf x)) (acts : List (List K)) :
    ∀ st : Spring.State K, st.mass.length = s.numLinks → (∀ i, i < s.numLinks → nthS st.mass i ≠ 0) →
      momentum (runSpring inv cf s st acts).mass (runSpring inv cf s st acts).xd_i
        = momentum st.mass st.xd_i
          + V3.smul ((acts.length : K) * (totalMass st.mass * s.dt)) s.gravity := by
  induction acts with
  | nil =>
    intro st _ _
    simp only [runSpring, List.foldl_nil, List.length_nil, Nat.cast_zero, zero_mul, zero_smul']
    exact (V3.add_zero' _).symm
  | cons a acts ih =>
    intro st hlen hm
    have hstep := step_momentum_spring inv cf s st a h hlen hm hdamp (hcs st.x)
    have hmass : (Spring.step inv cf s st a).mass = st.mass := rfl
    have := ih (Spring.step inv cf s st a) (by rw [hmass]; exact hlen) (by rw [hmass]; exact hm)
    simp only [runSpring, List.foldl_cons] at this ⊢
    rw [this, hstep, hmass, List.length_cons, Nat.cast_succ, V3.add_assoc', ← add_smul']
    congr 2
    ring

/-- **Every step of every history (positional).** -/
theorem history_momentum_positional (inv : List (Tf K) → List (Motion K) → List K × List K)
    (cf : List (Tf K) → List (Contact K)) (s : Sys K) (h : FreeRooted s)
    (hdamp : HasExp.exp (s.velDamping * s.dt) = (1 : K)) (hdt : s.dt ≠ 0)
    (hcs : ∀ x, TwoBody s.numLinks (cf x)) (acts : List (List K)) :
    ∀ st : Positional.State K, PosOK s st → st.mass.length = s.numLinks →
      momentum (runPositional inv cf s st acts).mass (runPositional inv cf s st acts).xd_i
        = momentum st.mass st.xd_i
          + V3.smul ((acts.length : K) * (totalMass st.mass * s.dt)) s.gravity := by
  induction acts with
  | nil =>
    intro st _ _
    simp only [runPositional, List.foldl_nil, List.length_nil, Nat.cast_zero, zero_mul, zero_smul']
    exact (V3.add_zero' _).symm
  | cons a acts ih =>
    intro st hok hlen
    have hstep := step_momentum_positional inv cf s st a h hok hlen hdamp hdt (hcs _)
    have hmass : (Positional.step inv cf s st a).mass = st.mass := rfl
    have hok' : PosOK s (Positional.step inv cf s st a) :=
      ⟨hok.hlinks, by rw [hmass]; exact hok.hmass, by rw [hmass]; exact hok.hne⟩
    have := ih (Positional.step inv cf s st a) hok' (by rw [hmass]; exact hlen)
    simp only [runPositional, List.foldl_cons] at this ⊢
    rw [this, hstep, hmass, List.length_cons, Nat.cast_succ, V3.add_assoc', ← add_smul']
    congr 2
    ring

/-! ## rest case (partial) -/

/-- what `rest_stays_at_rest_spring_partial` asks of one link: it is free, or it is a 1-dof link
(hinge or slide) in a pure joint configuration inside its limits, with no joint-frame velocity.
`l` is the link's slice of `(types, dofs, tau = 0)`. -/
def RestLink (hasLimit : Bool) (j : Tf K) (jd : Motion K) (l : Kin.LinkIn K) : Prop :=
  l.typ = .free ∨
  ∃ d : DofP K, l.typ = .one ∧ l.dofs = [d] ∧ l.qd = [0] ∧ jd = ⟨⟨0, 0, 0⟩, ⟨0, 0, 0⟩⟩ ∧
    (-- hinge: anchors coincide, child axis parallel to parent axis, angle inside the limits
     (v3Any d.motion.vel = false ∧ j.pos = ⟨0, 0, 0⟩
        ∧ V3.cross (frame1 d.motion).ang.r0 (rotate (frame1 d.motion).ang.r0 j.rot) = ⟨0, 0, 0⟩
        ∧ (hasLimit = true → Spring.limDelta
            (axisAngleAng j (frame1 d.motion).ang (frame1 d.motion).parity).psi d.lo d.hi = 0))
     ∨ -- slide: unit axis, displaced along the axis only, not rotated, coordinate inside the limits
     (v3Any d.motion.vel = true ∧ v3Any d.motion.ang = false ∧ V3.dot d.motion.vel d.motion.vel = 1
        ∧ (∃ c : K, j.pos = V3.smul c d.motion.vel) ∧ j.rot = Q4.one
        ∧ (hasLimit = true → Spring.limDelta (V3.dot j.pos d.motion.vel) d.lo d.hi = 0)))

/-- the spring joint-frame force of a link satisfying `RestLink` is zero -/
theorem jointForce_restLink (hasLimit : Bool) (lk : LinkP K) (j : Tf K) (jd : Motion K)
    (l : Kin.LinkIn K) (h : RestLink hasLimit j jd l) :
    Spring.jointForce hasLimit lk j jd l = ⟨0, 0⟩ := by
  rcases h with hfree | ⟨d, ht, hd, hq, hjd, hcase⟩
  · simp only [Spring.jointForce, hfree]
  · simp only [Spring.jointForce, ht, hd, hq, hjd]
    rcases hcase with ⟨h1, h2, h3, h4⟩ | ⟨h1, h2, h3, ⟨c, h4⟩, h5, h6⟩
    · exact oneDof_rest_hinge hasLimit lk j d h1 h2 h3 h4
    · exact oneDof_rest_slide hasLimit lk j d c h1 h2 h3 h4 h5 h6

/-- **Newton's first law, spring pipeline (partial: free links and 1-dof links).**  A consistent
state with zero velocities and unit link quaternions, in a system without gravity, actuators and
contact, all of whose links are free or 1-dof links in a pure joint configuration inside their
limits, is returned *unchanged* by `spring.pipeline.step`.  (Not covered: 2- and 3-dof links — the
Euler-angle extraction identities of C08's stretch goal; see `rest_stays_at_rest_springStmt`.) -/
theorem rest_stays_at_rest_spring_partial (inv : List (Tf K) → List (Motion K) → List K × List K)
    (cf : List (Tf K) → List (Contact K)) (s : Sys K) (st : Spring.State K) (act : List K)
    (hc : SpringConsistent inv s st) (hq : Quiet s)
    (hrest : ∀ i, i < s.numLinks → nth st.xd i = ⟨0, 0⟩)
    (hunit : ∀ i, i < s.numLinks → Q4.normSq (nth st.x i).rot = 1)
    (hcf : cf st.x = [])
    (hlinks : ∀ i, i < s.numLinks → ∀ l,
      (Kin.linkSlices s.types ([] : List K) (List.replicate s.nv 0) s.dofs)[i]? = some l →
        RestLink s.hasLimit (nth st.j i) (nth st.jd i) l) :
    Spring.step inv cf s st act = st := by
  apply spring_rest_of_zero_jointForces inv cf s st act hc hq hrest hunit hcf
  intro i hi
  unfold Spring.jointForces
  rw [nth_tab _ hi]
  cases hl : (Kin.linkSlices s.types ([] : List K) (List.replicate s.nv 0) s.dofs)[i]? with
  | none => rfl
  | some l => exact jointForce_restLink _ _ _ _ _ (hlinks i hi l hl)

/-- **Newton's first law, positional pipeline (partial).**  A consistent state with zero
velocities (world and joint-frame) and unit link quaternions, in a system without gravity,
actuators and contact, whose joint position corrections `d_w` all vanish, is returned *unchanged* by
`positional.pipeline.step` — for every link type: the acceleration-level force `_damp` vanishes
by itself (`posJointForces_zero`).  The correction vanishes for free links by `free_mask`
(`jointDisplacements_free`); that it vanishes for 1-, 2- and 3-dof links in a pure joint
configuration inside the limits is the part that is not proved (see the `…Stmt` below). -/
theorem rest_stays_at_rest_positional_partial
    (inv : List (Tf K) → List (Motion K) → List K × List K)
    (cf : List (Tf K) → List (Contact K)) (s : Sys K) (st : Positional.State K) (act : List K)
    (hc : PosConsistent inv s st) (hq : Quiet s) (hdt : s.dt ≠ 0)
    (hrest : ∀ i, i < s.numLinks → nth st.xd i = ⟨0, 0⟩)
    (hjd : ∀ i, i < s.numLinks → nth st.jd i = ⟨⟨0, 0, 0⟩, ⟨0, 0, 0⟩⟩)
    (hunit : ∀ i, i < s.numLinks → Q4.normSq (nth st.x i).rot = 1)
    (hcf : ∀ x, cf x = [])
    (hdisp : ∀ i, i < s.numLinks → nth (Positional.jointDisplacements s st.j st.a_p) i = (0, 0)) :
    Positional.step inv cf s st act = st :=
  positional_rest_of_zero_displacements inv cf s st act hc hq hdt hrest hunit hcf
    (fun i hi => posJointForces_zero s st.jd hjd hi) hdisp

/-- a system all of whose links are free satisfies the last hypothesis: the correction of a free
link is zeroed by `free_mask` (first component; the rotational one is `rotate 0 = 0` as well) -/
theorem jointDisplacements_free_link (s : Sys K) (j a_p : List (Tf K)) {i : Nat}
    (hi : i < s.numLinks) (hfree : s.types[i]? = some .free) :
    (nth (Positional.jointDisplacements s j a_p) i).1 = 0 :=
  jointDisplacements_free s j a_p hi hfree

/- FULL statements and what is proved of them (details: notes/C04-deepen.md):

def rest_stays_at_rest_springStmt : Prop :=
  ∀ (inv : …) (cf : …) (s : Sys ℝ) (q : List ℝ) (act : List ℝ),
    s.WF = true → Quiet s → C01.KinOK s q (zeros s.nv) → InsideLimits s q →
    (∀ x, cf x = []) → (∀ j jd, inv j jd = Inv.inverse s j jd) →
    Spring.step inv cf s (Spring.init s q (zeros s.nv)) act = Spring.init s q (zeros s.nv)
    -- PROVED (section `deepen`): the state-level form for every supported link type —
    --   `rest_stays_at_rest_spring_stacks`: a consistent state at rest whose links are free, 1-dof
    --   (`RestLink`) or one of the six 2- and 3-dof stack kinds of `PureStack` with `j_i = jcalc q_i`
    --   is returned unchanged (gap (b): `jointForce_pureStack`, from C08's Euler-angle identities);
    --   `jointForce_forward_pureStack`: for one link, the `j` that `world_to_joint` computes from
    --   `forward`'s pose is `jcalc q` (gap (a), C08 `worldToJoint_forward_id`), so its force is 0.
    -- PROVED (section `deepen2`): the system-level form `rest_stays_at_rest_spring_init_inverse`
    --   (`inv` = C08's model of `kinematics.inverse`, state = `Spring.init s q 0`, every link free /
    --   `PureOne` / `PureStack`: `C04I.InitOK`), from `forward_init_rest` (forward as the per-link
    --   recursion over the whole tree, unit quaternions, zero motions), `worldToJoint_init_rest`
    --   (`j_i = jcalc q_i`, `jd_i = 0` at every link) and `inverse_init_rest`
    --   (`inverse (world_to_joint (forward q 0)) = (q, 0)`).  Stacks outside `PureStack` are FALSE of the
    --   code (known findings F1/F2).

def rest_stays_at_rest_positionalStmt : Prop :=
  the same with Positional.step / Positional.init; additionally needs
  `threeDofJointUpdate (jcalc q) (sphericalize …) = 0` inside the limits (atan2 / half-angle
  identities for the three limit axes).  On the pinned tree it was FALSE for a left-handed
  three-hinge stack with a limited middle joint (defect D7, found by this check's rest clause,
  repaired in /repo by commit f5f04c1; witness in notes/C04-D7.md).
  -- PROVED: `threeDofJointUpdate_oneDof` (section `deepen`), `threeDofJointUpdate_stacks` (section
  --   `deepen2`: the six 2- and 3-dof stack kinds, a hinge in the middle of the stack at `θ = 0` or
  --   `|sin θ| > 1e-7`), `rest_stays_at_rest_positional_stacks` (state level) and the system-level
  --   `rest_stays_at_rest_positional_init_inverse`.  NOT PROVED: the window `0 < |sin θ_mid| ≤ 1e-7`,
  --   where `_three_dof_joint_update` is NOT zero (size ≈ |sin θ|; discarded afterwards by the
  --   `safe_norm` of `_rotation_update`; the real pipeline stays at rest there, notes/C04-deepen2.md).

def rest_stays_at_rest_generalizedStmt : Prop :=
  generalized pipeline: `qf_smooth = 0` at `qd = 0`, `g = 0` (RNE bias vanishes) ⇒ `qdd = 0`.
  -- PROVED in full for C02's model `Gd.step` (every link type, every tree, free-link quaternion
  --   included): `rest_stays_at_rest_generalized` + `gaussSolve_zero_rhs` (section `deepen`).
  --   The constraint force enters as the parameter `qfc = 0` (no contact; inactive limits: C06).
-/

end forces

/-! ## rest case, deepened (ℝ): generalized pipeline; spring pipeline with 2- and 3-dof links -/
section deepen
open Kin

/-- **Newton's first law, generalized pipeline — every link type, every tree.**
`Gd.step` is C02's model of `generalized/pipeline.step` (`qf_smooth = passive − bias + tau`,
`qdd = solve (M + dt·D) (qf_smooth + qf_constraint)`, semi-implicit Euler, quaternion integration of
free links, refreshed dynamics terms); `dynInit s q 0` is what `pipeline.init(sys, q, 0)` computes.
For a system with consistent shapes and unit free-link quaternions (`C04G.RestOK`), without gravity,
without joint stiffness, with vanishing actuator force (`toTau … = 0`: no actuators, or zero control
inside the control range with `biasQ = biasQd = 0` and force range containing 0 —
`C04G.toTau_zero`, `C04G.actForce_zero_ctrl`), zero constraint force (no contact; limits inactive:
C06), a linear solve with `solve M′ 0 = 0` for the matrix at hand, and `|dt| ≤ 1`: the step returns
**literally** `q′ = q`, `q̇′ = 0`, `q̈ = 0` and the same dynamics terms.  The free-link quaternion is
also returned literally: `_integrate_q_free` multiplies it by `(cos(dt·1e-8/2), 0, 0, 0)` (its
`+1e-8` guard) and renormalises, which is the identity on unit quaternions as that cosine is
positive (`C04G.integrateQFree_rest`). -/
theorem rest_stays_at_rest_generalized (solve : List (List ℝ) → List ℝ → List ℝ) (s : Sys ℝ)
    (q act : List ℝ) (h : C04G.RestOK s q) (hg : s.gravity = V3.zero)
    (hstiff : ∀ d ∈ s.dofs, d.stiffness = 0)
    (htau : Gd.toTau s.nv s.acts act q (List.replicate s.nv 0) = List.replicate s.nv 0)
    (hsolve : solve (Gd.dampedMatrix (Gd.dynInit s q (List.replicate s.nv 0)).massMx
        (s.dofs.map (·.damping)) s.dt) (List.replicate s.nv 0) = List.replicate s.nv 0)
    (hdt : |s.dt| ≤ 1) :
    Gd.step solve s (Gd.dynInit s q (List.replicate s.nv 0)) q (List.replicate s.nv 0) act
        (List.replicate s.nv 0)
      = ((q, List.replicate s.nv 0, List.replicate s.nv 0),
         Gd.dynInit s q (List.replicate s.nv 0)) :=
  C04G.step_rest solve s q act h hg hstiff htau hsolve hdt

/-- the hypothesis `hsolve` holds for the exact solve the driver uses (Gauss–Jordan with partial
pivoting): the damped mass matrix of `pipeline.init` is square of size `nv`, and `gaussSolve M 0 = 0`
for every square `M` (singular or not) -/
theorem gaussSolve_zero_rhs (s : Sys ℝ) (q : List ℝ) (h : C04G.RestOK s q) :
    Gd.gaussSolve (Gd.dampedMatrix (Gd.dynInit s q (List.replicate s.nv 0)).massMx
        (s.dofs.map (·.damping)) s.dt) (List.replicate s.nv 0) = List.replicate s.nv 0 :=
  C04G.gaussSolve_rest s q h

/-- **spring joint force of a 2- and 3-dof link in a pure joint configuration** (`C04L.PureStack`: two /
three hinges with orthonormal axes of either handedness, two / three orthonormal slides, one or two
slides followed by a hinge; coordinates inside the chart and the limits): `_two_dof` / `_three_dof`
return the zero force at `j = jcalc q`, `jd = 0`, `tau = 0` — the Euler angles `axis_angle_ang`
extracts from `jcalc q` are `q` (C08's `hinge2_angles`, `hinge3_angles`, `hinge_theta`,
`hinge_phi`), the plane-alignment / pinning torques vanish, the offset lies in the span of the slide
axes. -/
theorem jointForce_pureStack (hasLimit : Bool) (lk : LinkP ℝ) (lq l : LinkIn ℝ)
    (h : PureStack hasLimit lq) (ht : l.typ = lq.typ) (hd : l.dofs = lq.dofs)
    (htau : l.qd = List.replicate lq.dofs.length 0) :
    Spring.jointForce hasLimit lk (Kin.jcalc lq).1 ⟨⟨0, 0, 0⟩, ⟨0, 0, 0⟩⟩ l = ⟨0, 0⟩ :=
  C04L.jointForce_pureStack hasLimit lk lq l h ht hd htau

/-- … and the `j` that `world_to_joint` computes from the pose `forward` gives the link **is**
`jcalc q` (C08's `worldToJoint_forward_id`: unit parent and link-frame quaternions, identity joint
orientation as `mjcf.load_model` writes), so the joint force computed from the link's world pose
vanishes — gaps (a) and (b) closed at the level of one link. -/
theorem jointForce_forward_pureStack (hasLimit : Bool) (lk : LinkP ℝ) (lq l : LinkIn ℝ)
    (parent : Option (Tf ℝ × Motion ℝ))
    (hp : Q4.normSq (Inv.parentOr parent).1.rot = 1) (hlk : Q4.normSq lk.tf.rot = 1)
    (hjr : lk.joint.rot = ⟨1, 0, 0, 0⟩)
    (h : PureStack hasLimit lq) (ht : l.typ = lq.typ) (hd : l.dofs = lq.dofs)
    (htau : l.qd = List.replicate lq.dofs.length 0) :
    Spring.jointForce hasLimit lk
      (Inv.w2jLink lk (Inv.parentOr parent).1 (Inv.parentOr parent).2
        (Inv.fwdLink parent lk lq).1 (Inv.fwdLink parent lk lq).2).1
      ⟨⟨0, 0, 0⟩, ⟨0, 0, 0⟩⟩ l = ⟨0, 0⟩ := by
  rw [C08.worldToJoint_forward_id parent lk lq hp hlk hjr h.unit]
  exact C04L.jointForce_pureStack hasLimit lk lq l h ht hd htau

/-- **Newton's first law, spring pipeline — free links, 1-dof links and the six 2- and 3-dof stack
kinds.**  Strengthens `rest_stays_at_rest_spring_partial` (ℝ): every link is free, or a 1-dof link
satisfying `RestLink`, or a 2- and 3-dof link whose joint transform is the pure joint configuration
`jcalc q` of a `PureStack` with no joint-frame velocity.  Then `spring.pipeline.step` returns the
state unchanged.  (Stacks outside `PureStack` — hinge-then-slide, non-orthogonal axes — really move:
known findings F1/F2.) -/
theorem rest_stays_at_rest_spring_stacks (inv : List (Tf ℝ) → List (Motion ℝ) → List ℝ × List ℝ)
    (cf : List (Tf ℝ) → List (Contact ℝ)) (s : Sys ℝ) (st : Spring.State ℝ) (act : List ℝ)
    (hc : SpringConsistent inv s st) (hq : Quiet s)
    (hrest : ∀ i, i < s.numLinks → nth st.xd i = ⟨0, 0⟩)
    (hunit : ∀ i, i < s.numLinks → Q4.normSq (nth st.x i).rot = 1)
    (hcf : cf st.x = [])
    (hlinks : ∀ i, i < s.numLinks → ∀ l,
      (Kin.linkSlices s.types ([] : List ℝ) (List.replicate s.nv 0) s.dofs)[i]? = some l →
        RestLink s.hasLimit (nth st.j i) (nth st.jd i) l
        ∨ ∃ lq, PureStack s.hasLimit lq ∧ l.typ = lq.typ ∧ l.dofs = lq.dofs
            ∧ l.qd = List.replicate lq.dofs.length 0
            ∧ nth st.j i = (Kin.jcalc lq).1 ∧ nth st.jd i = ⟨⟨0, 0, 0⟩, ⟨0, 0, 0⟩⟩) :
    Spring.step inv cf s st act = st := by
  apply spring_rest_of_zero_jointForces inv cf s st act hc hq hrest hunit hcf
  intro i hi
  unfold Spring.jointForces
  rw [nth_tab _ hi]
  cases hl : (Kin.linkSlices s.types ([] : List ℝ) (List.replicate s.nv 0) s.dofs)[i]? with
  | none => rfl
  | some l =>
    rcases hlinks i hi l hl with h | ⟨lq, hps, ht, hd, htau, hj, hjd⟩
    · exact jointForce_restLink _ _ _ _ _ h
    · simp only [hj, hjd]
      exact C04L.jointForce_pureStack _ _ lq l hps ht hd htau

/-- **positional pipeline: `_three_dof_joint_update = 0` for 1-dof links** (gap (c), 1-dof part):
for a hinge about a unit axis at `q ∈ (−π, π]` or a slide along a unit axis at `|q| ≤ 2`, inside the
limits, the joint-frame correction computed from `jcalc q` and the link's `_sphericalize` data (own
axis + two frozen pad axes) is zero — the three signed angles are `(q, 0, 0)`, clipping inside the
limits leaves them, and the translational rest is removed by the coordinate-wise prismatic mask. -/
theorem threeDofJointUpdate_oneDof (hasLimit : Bool) (lq l : LinkIn ℝ) (h : PureOne hasLimit lq)
    (ht : l.typ = lq.typ) (hd : l.dofs = lq.dofs) :
    Positional.threeDofJointUpdate (Kin.jcalc lq).1 (Positional.sphericalize hasLimit l).1
      (Positional.sphericalize hasLimit l).2 = (⟨0, 0, 0⟩, ⟨0, 0, 0⟩) :=
  threeDofJointUpdate_pureOne hasLimit lq l h ht hd

/-- **Newton's first law, positional pipeline — free links and 1-dof links.**  Discharges the
hypothesis `hdisp` of `rest_stays_at_rest_positional_partial` (ℝ): every link is free, or a 1-dof
link whose joint transform is the pure joint configuration `jcalc q` (`PureOne`: hinge or slide,
unit axis, inside the chart and the limits).  Then `positional.pipeline.step` returns the state
unchanged.  (Not covered: 2- and 3-dof links in the positional pipeline.) -/
theorem rest_stays_at_rest_positional_oneDof
    (inv : List (Tf ℝ) → List (Motion ℝ) → List ℝ × List ℝ)
    (cf : List (Tf ℝ) → List (Contact ℝ)) (s : Sys ℝ) (st : Positional.State ℝ) (act : List ℝ)
    (hc : PosConsistent inv s st) (hq : Quiet s) (hdt : s.dt ≠ 0)
    (hrest : ∀ i, i < s.numLinks → nth st.xd i = ⟨0, 0⟩)
    (hjd : ∀ i, i < s.numLinks → nth st.jd i = ⟨⟨0, 0, 0⟩, ⟨0, 0, 0⟩⟩)
    (hunit : ∀ i, i < s.numLinks → Q4.normSq (nth st.x i).rot = 1)
    (hcf : ∀ x, cf x = [])
    (hlinks : ∀ i, i < s.numLinks → ∀ l,
      (Kin.linkSlices s.types ([] : List ℝ) [] s.dofs)[i]? = some l →
        l.typ = .free ∨ ∃ lq, PureOne s.hasLimit lq ∧ l.typ = lq.typ ∧ l.dofs = lq.dofs
          ∧ nth st.j i = (Kin.jcalc lq).1) :
    Positional.step inv cf s st act = st :=
  rest_stays_at_rest_positional_partial inv cf s st act hc hq hdt hrest hjd hunit hcf
    (fun i hi => jointDisplacements_zero s st.j st.a_p hi (hlinks i hi))

end deepen

/-! ## rest case from `pipeline.init(sys, q, 0)`: whole trees (ℝ) -/
section deepen2
open Kin C04I

/-- **`kinematics.forward(sys, q, 0)` over the whole tree, link by link.**  For a well-formed tree
(`C04I.TreeOK`: lengths, parents precede children — `Sys.WF`, `TreeOK.of_WF` — unit link-frame
quaternions and identity joint orientation, as `mjcf.load_model` writes) whose joint transforms
`jcalc` have unit quaternions: every world quaternion is unit, every world motion is zero, and the
value at link `i` is C08's `Inv.fwdLink` of the value at the parent (`none` for a root) — the
recursion `scan.tree` implements (`Kin.scanFwd_getElem`), with the final `normalize` the identity. -/
theorem forward_init_rest (s : Sys ℝ) (q : List ℝ) (h : TreeOK s)
    (hj : ∀ l ∈ ins s q, Q4.normSq (jcalc l).1.rot = 1) :
    ∀ i, i < s.types.length → ∃ x lk l,
      (forward s q (List.replicate s.nv 0))[i]? = some (x, ⟨⟨0, 0, 0⟩, ⟨0, 0, 0⟩⟩) ∧ s.links[i]? = some lk
      ∧ (ins s q)[i]? = some l ∧ Q4.normSq x.rot = 1
      ∧ (x, (⟨⟨0, 0, 0⟩, ⟨0, 0, 0⟩⟩ : Motion ℝ))
          = Inv.fwdLink (parentVal s (forward s q (List.replicate s.nv 0)) i) lk l :=
  C04I.forward_rest s q h hj

/-- **`world_to_joint(forward(q, 0))` over the whole tree**: one row per link, `j_i = jcalc(q_i)`
(C08's `worldToJoint_forward_id` at every link) and `jd_i = 0` (`xd = 0 ⇒ jd = 0`). -/
theorem worldToJoint_init_rest (s : Sys ℝ) (q : List ℝ) (h : TreeOK s)
    (hj : ∀ l ∈ ins s q, Q4.normSq (jcalc l).1.rot = 1) :
    (worldToJoint s (initX s q) (initXd s q)).length = s.types.length
    ∧ ∀ i, i < s.types.length → ∃ l a_p a_c, (ins s q)[i]? = some l
        ∧ (worldToJoint s (initX s q) (initXd s q))[i]? = some ((jcalc l).1, ⟨⟨0, 0, 0⟩, ⟨0, 0, 0⟩⟩, a_p, a_c) :=
  C04I.w2j_rest s q h hj

/-- **`kinematics.inverse(sys, *world_to_joint(forward(q, 0))) = (q, 0)`** for C08's model `Inv.inverse`,
for every tree whose links are free links with a unit quaternion, 1-dof links or the six 2- and 3-dof
stack kinds (`C04I.InitOK`), `q` of length `nq`.  Per link from C08's `inverse_free`,
`inverse_one_hinge`, `inverse_slide_stack1/2/3`, `inverse_slide_then_hinge`,
`inverse_slides_then_hinge`, `inverse_two_hinges`, `inverse_three_hinges`; the joint velocities C08
leaves open for stacked hinges (finding K1) are zero here because `jd = 0`. -/
theorem inverse_init_rest (s : Sys ℝ) (q : List ℝ) (h : InitOK s q) (hq : q.length = s.nq) :
    Inv.inverse s ((worldToJoint s (initX s q) (initXd s q)).map (·.1))
        ((worldToJoint s (initX s q) (initXd s q)).map (·.2.1))
      = some (q, List.replicate s.nv 0) :=
  C04I.inverse_init s q h hq

/-- **Newton's first law, spring pipeline, system level.**  The state is `pipeline.init(sys, q, 0)`.
Hypotheses: `InitOK s q` — the tree is well formed (`TreeOK`) and every link's slice of `(q, 0, dofs)` is
a free link with a unit quaternion, a `PureOne` 1-dof link or a `PureStack` link inside its chart and
limits (`RestKind`; stacks outside are findings F1/F2); no gravity; no actuators; no contact at the
initial pose; and the one equation the step needs of `kinematics.inverse`:
`inv (world_to_joint (forward q 0)) = (q, 0)` (discharged below for C08's model).  Conclusion: the step
returns the state **literally** unchanged. -/
theorem rest_stays_at_rest_spring_init (inv : List (Tf ℝ) → List (Motion ℝ) → List ℝ × List ℝ)
    (cf : List (Tf ℝ) → List (Contact ℝ)) (s : Sys ℝ) (q act : List ℝ) (h : InitOK s q)
    (hg : s.gravity = 0) (hacts : s.acts = []) (hcf : cf (initX s q) = [])
    (hinv : inv ((worldToJoint s (initX s q) (initXd s q)).map (·.1))
        ((worldToJoint s (initX s q) (initXd s q)).map (·.2.1)) = (q, List.replicate s.nv 0)) :
    Spring.step inv cf s (Spring.init s q (List.replicate s.nv 0)) act
      = Spring.init s q (List.replicate s.nv 0) :=
  C04I.spring_init_rest inv cf s q act h hg hacts hcf hinv

/-- … with `inv` the model of `kinematics.inverse` (`C04I.invModel s = (Inv.inverse s · ·).getD`):
no hypothesis about `inv` is left -/
theorem rest_stays_at_rest_spring_init_inverse (cf : List (Tf ℝ) → List (Contact ℝ)) (s : Sys ℝ)
    (q act : List ℝ) (h : InitOK s q) (hq : q.length = s.nq) (hg : s.gravity = 0)
    (hacts : s.acts = []) (hcf : cf (initX s q) = []) :
    Spring.step (invModel s) cf s (Spring.init s q (List.replicate s.nv 0)) act
      = Spring.init s q (List.replicate s.nv 0) :=
  C04I.spring_init_rest_inverse cf s q act h hq hg hacts hcf

/-- **positional pipeline: `_three_dof_joint_update = 0` for the six 2- and 3-dof stack kinds** (gap (c)).
`StackMid`: a hinge in the middle of the stack (`hh`, `hhh`, `sh`) has its angle `θ = 0` or
`|sin θ| > 1e-7` (`C04L.midOK_of_abs`: `1e-6 ≤ |θ| ≤ 1` suffices).  In the window `0 < |sin θ| ≤ 1e-8`
the statement is false of the code: `normalize(a1 × p0)` is then not a unit vector (`safe_norm`'s
`allclose` branch) and the middle axis returns a correction of size `≈ |sin θ|`; see notes/C04-deepen2.md. -/
theorem threeDofJointUpdate_stacks (hasLimit : Bool) (lq l : LinkIn ℝ) (h : PureStack hasLimit lq)
    (hm : StackMid lq) (ht : l.typ = lq.typ) (hd : l.dofs = lq.dofs) :
    Positional.threeDofJointUpdate (Kin.jcalc lq).1 (Positional.sphericalize hasLimit l).1
      (Positional.sphericalize hasLimit l).2 = (⟨0, 0, 0⟩, ⟨0, 0, 0⟩) :=
  threeDofJointUpdate_pureStack hasLimit lq l h hm ht hd

/-- **Newton's first law, positional pipeline — free, 1-dof and the six 2- and 3-dof stack kinds**
(state level; strengthens `rest_stays_at_rest_positional_oneDof`) -/
theorem rest_stays_at_rest_positional_stacks
    (inv : List (Tf ℝ) → List (Motion ℝ) → List ℝ × List ℝ)
    (cf : List (Tf ℝ) → List (Contact ℝ)) (s : Sys ℝ) (st : Positional.State ℝ) (act : List ℝ)
    (hc : PosConsistent inv s st) (hq : Quiet s) (hdt : s.dt ≠ 0)
    (hrest : ∀ i, i < s.numLinks → nth st.xd i = ⟨0, 0⟩)
    (hjd : ∀ i, i < s.numLinks → nth st.jd i = ⟨⟨0, 0, 0⟩, ⟨0, 0, 0⟩⟩)
    (hunit : ∀ i, i < s.numLinks → Q4.normSq (nth st.x i).rot = 1)
    (hcf : ∀ x, cf x = [])
    (hlinks : ∀ i, i < s.numLinks → ∀ l,
      (Kin.linkSlices s.types ([] : List ℝ) [] s.dofs)[i]? = some l →
        l.typ = .free ∨ ∃ lq, (PureOne s.hasLimit lq ∨ (PureStack s.hasLimit lq ∧ StackMid lq))
          ∧ l.typ = lq.typ ∧ l.dofs = lq.dofs ∧ nth st.j i = (Kin.jcalc lq).1) :
    Positional.step inv cf s st act = st :=
  rest_stays_at_rest_positional_partial inv cf s st act hc hq hdt hrest hjd hunit hcf
    (fun i hi => jointDisplacements_zero' s st.j st.a_p hi (hlinks i hi))

/-- **Newton's first law, positional pipeline, system level** (as `rest_stays_at_rest_spring_init`;
additionally `dt ≠ 0` — the velocity projection divides by it — and `StackMid` for every link) -/
theorem rest_stays_at_rest_positional_init (inv : List (Tf ℝ) → List (Motion ℝ) → List ℝ × List ℝ)
    (cf : List (Tf ℝ) → List (Contact ℝ)) (s : Sys ℝ) (q act : List ℝ) (h : InitOK s q)
    (hmid : ∀ l ∈ ins s q, StackMid l)
    (hg : s.gravity = 0) (hacts : s.acts = []) (hdt : s.dt ≠ 0) (hcf : ∀ x, cf x = [])
    (hinv : inv ((worldToJoint s (initX s q) (initXd s q)).map (·.1))
        ((worldToJoint s (initX s q) (initXd s q)).map (·.2.1)) = (q, List.replicate s.nv 0)) :
    Positional.step inv cf s (Positional.init s q (List.replicate s.nv 0)) act
      = Positional.init s q (List.replicate s.nv 0) :=
  C04I.positional_init_rest inv cf s q act h hmid hg hacts hdt hcf hinv

/-- … with `inv` the model of `kinematics.inverse` -/
theorem rest_stays_at_rest_positional_init_inverse (cf : List (Tf ℝ) → List (Contact ℝ)) (s : Sys ℝ)
    (q act : List ℝ) (h : InitOK s q) (hmid : ∀ l ∈ ins s q, StackMid l) (hq : q.length = s.nq)
    (hg : s.gravity = 0) (hacts : s.acts = []) (hdt : s.dt ≠ 0) (hcf : ∀ x, cf x = []) :
    Positional.step (invModel s) cf s (Positional.init s q (List.replicate s.nv 0)) act
      = Positional.init s q (List.replicate s.nv 0) :=
  C04I.positional_init_rest_inverse cf s q act h hmid hq hg hacts hdt hcf

end deepen2

/-! ## the three-body remark, non-vacuity -/
section witness

def cAB : Contact ℚ := ⟨0, 1, -1, ⟨0, 0, 0⟩, ⟨1, 0, 0⟩, 1, 0⟩
def cAC : Contact ℚ := ⟨0, 2, -1, ⟨0, 0, 0⟩, ⟨1, 0, 0⟩, 1, 0⟩
def pX : Force ℚ := ⟨⟨0, 0, 0⟩, ⟨1, 0, 0⟩⟩

/-- **Remark (outside the property's two-body quantifier).**  With three bodies — A–B and A–C in
contact, the same unit impulse on both — the per-link averaging divides A's total by `2 + 1e-8`
and B's, C's by `1 + 1e-8`: the impulses no longer sum to zero
(`2/(2+1e-8) − 2/(1+1e-8) ≠ 0`). -/
theorem three_body_averaging_counterexample :
    ((Spring.spreadImpulses 3 (fun _ => (default : Tf ℚ)) [cAB, cAC] [pX, pX] [1, 1]).map
      (·.vel.x)).sum ≠ 0 := by
  simp [Spring.spreadImpulses, segmentSum, tab, nth, nthS, cAB, cAC, pX, HasF32.f32, Tf.doForce, tfPos,
    rotate, List.range_succ, Q4.one, V3.cross, V3.dot, Q4.vec, List.sum_cons, List.filterMap_cons]
  norm_num

/-- … while the same two contacts between the *same* two bodies do sum to zero (instance of
`collision_momentum_two_body`; also shows its hypotheses are satisfiable) -/
example (c : Contact ℝ) (h1 : c.link1 = 0) (h2 : c.link2 = 1) (p q : Force ℝ) (n1 n2 : ℝ) :
    (∑ i ∈ Finset.range 3,
      (nth (Spring.spreadImpulses 3 (fun _ => (default : Tf ℝ)) [c, c] [p, q] [n1, n2]) i).vel) = 0 :=
  collision_momentum_two_body 3 _ [c, c] [p, q] [n1, n2] 0 1 (by norm_num) (by norm_num)
    (by intro c' hc; simp at hc; subst hc; exact ⟨by simpa using h1, by simpa using h2⟩) rfl rfl

/-- a free-rooted forest: a free root with a chain of two 1-dof links, and a second free root -/
def exSys : Sys ℝ :=
  { types := [.free, .one, .one, .free], parents := [-1, 0, 1, -1], links := [], dofs := [],
    hasLimit := false, acts := [], gravity := ⟨0, 0, -9.81⟩, dt := 0.002, velDamping := 0,
    angDamping := 0, baumgarteErp := 0.1, springMassScale := 0, springInertiaScale := 0,
    jointScaleAng := 0.2, jointScalePos := 0.5, collideScale := 1 }

example : FreeRooted exSys := by
  refine ⟨rfl, ?_, ?_⟩
  · intro i hi
    have : i < 4 := hi
    interval_cases i <;> simp [parentOf, exSys]
  · intro i hi
    have : i < 4 := hi
    interval_cases i <;> simp [parentOf, exSys]

/-- `vel_damping = 0` gives the damping factor 1 -/
example : HasExp.exp (exSys.velDamping * exSys.dt) = (1 : ℝ) := by
  simp [exSys, HasExp.exp]

/-- a two-body contact list, and the empty one -/
example : TwoBody 4 [(⟨0, 3, -0.01, ⟨0, 0, 0⟩, ⟨0, 0, 1⟩, 1, 0⟩ : Contact ℝ),
    ⟨0, 3, 0.02, ⟨0, 0, 0⟩, ⟨0, 0, 1⟩, 1, 0⟩] :=
  Or.inr ⟨0, 3, by norm_num, by norm_num, by intro c hc; simp at hc; rcases hc with rfl | rfl <;> exact ⟨rfl, rfl⟩⟩
example : TwoBody 4 ([] : List (Contact ℝ)) := Or.inl rfl

/-- all hypotheses of `history_momentum_spring` hold together: after any control history the
momentum of `exSys` (masses 1, 2, 3, 4) is `P_0 + T · 10 · dt · g` -/
example (inv : List (Tf ℝ) → List (Motion ℝ) → List ℝ × List ℝ) (st : Spring.State ℝ)
    (hmass : st.mass = [1, 2, 3, 4]) (acts : List (List ℝ)) :
    momentum (runSpring inv (fun _ => []) exSys st acts).mass (runSpring inv (fun _ => []) exSys st acts).xd_i
      = momentum st.mass st.xd_i
        + V3.smul ((acts.length : ℝ) * (totalMass st.mass * exSys.dt)) exSys.gravity := by
  apply history_momentum_spring inv (fun _ => []) exSys
  · refine ⟨rfl, ?_, ?_⟩
    · intro i hi
      have : i < 4 := hi
      interval_cases i <;> simp [parentOf, exSys]
    · intro i hi
      have : i < 4 := hi
      interval_cases i <;> simp [parentOf, exSys]
  · simp [exSys, HasExp.exp]
  · intro x; exact Or.inl rfl
  · rw [hmass]; rfl
  · intro i hi
    have : i < 4 := hi
    rw [hmass]
    interval_cases i <;> simp [nthS]

/-- `RestLink` is satisfiable by a hinge: axis z, rotated by any unit quaternion about z -/
example (c sn : ℝ) :
    V3.cross (⟨0, 0, 1⟩ : V3 ℝ) (rotate ⟨0, 0, 1⟩ (⟨c, 0, 0, sn⟩ : Q4 ℝ)) = ⟨0, 0, 0⟩ := by
  simp [rotate, V3.cross, V3.dot, Q4.vec]

/-! ### non-vacuity of the deepened rest theorems -/

/-- a link / dof with unit data -/
noncomputable def exLkG : LinkP ℝ :=
  { tf := ⟨⟨0, 0, 0⟩, ⟨1, 0, 0, 0⟩⟩, joint := ⟨⟨0, 0, 0⟩, ⟨1, 0, 0, 0⟩⟩,
    inertia := ⟨⟨⟨0, 0, 0⟩, ⟨1, 0, 0, 0⟩⟩, ⟨⟨1, 0, 0⟩, ⟨0, 1, 0⟩, ⟨0, 0, 1⟩⟩, 1⟩,
    invweight := 1, cStiffness := 1, cVelDamping := 1, cLimitStiffness := 1, cAngDamping := 1 }
noncomputable def exDofG (ang vel : V3 ℝ) (lo hi : Option ℝ) : DofP ℝ :=
  { motion := ⟨ang, vel⟩, armature := 0, stiffness := 0, damping := 1 / 10, lo := lo, hi := hi,
    invweight := 1 }

/-- a free root carrying a hinge about `z`: no gravity, no actuators, no stiffness -/
noncomputable def exSysG : Sys ℝ :=
  { types := [.free, .one], parents := [-1, 0], links := [exLkG, exLkG],
    dofs := [exDofG ⟨0, 0, 0⟩ ⟨1, 0, 0⟩ none none, exDofG ⟨0, 0, 0⟩ ⟨0, 1, 0⟩ none none,
      exDofG ⟨0, 0, 0⟩ ⟨0, 0, 1⟩ none none, exDofG ⟨1, 0, 0⟩ ⟨0, 0, 0⟩ none none,
      exDofG ⟨0, 1, 0⟩ ⟨0, 0, 0⟩ none none, exDofG ⟨0, 0, 1⟩ ⟨0, 0, 0⟩ none none,
      exDofG ⟨0, 0, 1⟩ ⟨0, 0, 0⟩ (some (-1)) (some 1)],
    hasLimit := true, acts := [], gravity := ⟨0, 0, 0⟩, dt := 0.002, velDamping := 0,
    angDamping := 0, baumgarteErp := 0.1, springMassScale := 0, springInertiaScale := 0,
    jointScaleAng := 0.2, jointScalePos := 0.5, collideScale := 1 }

/-- free root at height 1 turned by the unit quaternion `(3/5, 0, 4/5, 0)`, hinge at 0.3 -/
noncomputable def exQG : List ℝ := [0, 0, 1, 3 / 5, 0, 4 / 5, 0, 3 / 10]

theorem exSysG_restOK : C04G.RestOK exSysG exQG := by
  refine ⟨rfl, rfl, rfl, rfl, ?_⟩
  intro l hl hf
  have hnv : exSysG.nv = 7 := rfl
  rw [hnv] at hl
  simp only [exSysG, exQG, Kin.linkSlices, LinkType.qWidth, LinkType.qdWidth, List.take, List.drop,
    List.mem_cons, List.not_mem_nil, or_false] at hl
  rcases hl with rfl | rfl
  · simp [Q4.normSq]; norm_num
  · exact absurd hf (by simp)

/-- all hypotheses of `rest_stays_at_rest_generalized` hold together (with the driver's exact
solve): the concrete system stays exactly at rest -/
example (act : List ℝ) :
    Gd.step Gd.gaussSolve exSysG (Gd.dynInit exSysG exQG (List.replicate exSysG.nv 0)) exQG
        (List.replicate exSysG.nv 0) act (List.replicate exSysG.nv 0)
      = ((exQG, List.replicate exSysG.nv 0, List.replicate exSysG.nv 0),
         Gd.dynInit exSysG exQG (List.replicate exSysG.nv 0)) :=
  rest_stays_at_rest_generalized Gd.gaussSolve exSysG exQG act exSysG_restOK rfl
    (by intro d hd; simp [exSysG] at hd; rcases hd with rfl | rfl | rfl | rfl | rfl | rfl | rfl <;> rfl)
    (C04G.toTau_nil _ _ _ _) (gaussSolve_zero_rhs exSysG exQG exSysG_restOK)
    (by simp [exSysG]; rw [abs_le]; constructor <;> norm_num)

/-- `PureStack` is satisfiable: a limited left-handed three-hinge stack `(x, y, −z)` (the stack of
defect D7) at `q = (0.5, 0.3, −0.4)` inside its limits `[-1, 1]` … -/
example : PureStack true
    ⟨.three, [1 / 2, 3 / 10, -2 / 5], [0, 0, 0],
      [exDofG ⟨1, 0, 0⟩ ⟨0, 0, 0⟩ (some (-1)) (some 1), exDofG ⟨0, 1, 0⟩ ⟨0, 0, 0⟩ (some (-1)) (some 1),
       exDofG ⟨0, 0, -1⟩ ⟨0, 0, 0⟩ (some (-1)) (some 1)]⟩ := by
  have hpi := Real.two_le_pi
  refine PureStack.hhh _ _ _ ⟨1, 0, 0⟩ ⟨0, 1, 0⟩ ⟨0, 0, -1⟩ _ _ _ 0 0 0 rfl rfl rfl rfl
    (by simp [V3.dot]) (by simp [V3.dot]) (by simp [V3.dot]) (Or.inr (by simp [V3.cross]))
    (by linarith) (by linarith) (by rw [abs_le]; constructor <;> norm_num) (by linarith) (by linarith)
    ?_ ?_ ?_
  all_goals
    intro _
    refine ⟨fun l hl => ?_, fun u hu => ?_⟩
    · simp [exDofG] at hl; rw [← hl]; norm_num
    · simp [exDofG] at hu; rw [← hu]; norm_num

/-- … and a slide-then-hinge stack -/
example : PureStack false
    ⟨.two, [-3 / 2, 6 / 5], [0, 0],
      [exDofG ⟨0, 0, 0⟩ ⟨0, 3 / 5, 4 / 5⟩ none none, exDofG ⟨2 / 3, -1 / 3, 2 / 3⟩ ⟨0, 0, 0⟩ none none]⟩ :=
  PureStack.sh _ _ ⟨0, 3 / 5, 4 / 5⟩ ⟨2 / 3, -1 / 3, 2 / 3⟩ _ _ 0 0 rfl rfl rfl
    (by simp [V3.dot]; norm_num) (by simp [V3.dot]; norm_num)
    (by rw [abs_le]; constructor <;> norm_num) (by rw [abs_le]; constructor <;> norm_num)
    (by intro h; cases h) (by intro h; cases h)

/-- `PureOne` is satisfiable: a limited hinge about `(2/3, −1/3, 2/3)` at `q = 0.7 ∈ [−1, 1]` -/
example : PureOne true ⟨.one, [7 / 10], [0], [exDofG ⟨2 / 3, -1 / 3, 2 / 3⟩ ⟨0, 0, 0⟩ (some (-1)) (some 1)]⟩ := by
  have hpi := Real.two_le_pi
  refine PureOne.hinge _ ⟨2 / 3, -1 / 3, 2 / 3⟩ _ 0 rfl rfl (by simp [V3.dot]; norm_num) (by linarith)
    (by linarith) (fun _ => ⟨fun l hl => ?_, fun u hu => ?_⟩)
  · simp [exDofG] at hl; rw [← hl]; norm_num
  · simp [exDofG] at hu; rw [← hu]; norm_num

/-! ### non-vacuity of the system-level rest theorems (`deepen2`) -/

/-- a free root carrying a limited two-hinge stack `(x, y)`: no gravity, no actuators -/
noncomputable def exSysH : Sys ℝ :=
  { types := [.free, .two], parents := [-1, 0], links := [exLkG, exLkG],
    dofs := [exDofG ⟨0, 0, 0⟩ ⟨1, 0, 0⟩ none none, exDofG ⟨0, 0, 0⟩ ⟨0, 1, 0⟩ none none,
      exDofG ⟨0, 0, 0⟩ ⟨0, 0, 1⟩ none none, exDofG ⟨1, 0, 0⟩ ⟨0, 0, 0⟩ none none,
      exDofG ⟨0, 1, 0⟩ ⟨0, 0, 0⟩ none none, exDofG ⟨0, 0, 1⟩ ⟨0, 0, 0⟩ none none,
      exDofG ⟨1, 0, 0⟩ ⟨0, 0, 0⟩ (some (-1)) (some 1), exDofG ⟨0, 1, 0⟩ ⟨0, 0, 0⟩ (some (-1)) (some 1)],
    hasLimit := true, acts := [], gravity := ⟨0, 0, 0⟩, dt := 0.002, velDamping := 0,
    angDamping := 0, baumgarteErp := 0.1, springMassScale := 0, springInertiaScale := 0,
    jointScaleAng := 0.2, jointScalePos := 0.5, collideScale := 1 }

/-- root at height 1 turned by the unit quaternion `(3/5, 0, 4/5, 0)`, hinges at `(0.5, 0.3)` -/
noncomputable def exQH : List ℝ := [0, 0, 1, 3 / 5, 0, 4 / 5, 0, 1 / 2, 3 / 10]

theorem exSysH_slices : C04I.ins exSysH exQH
    = [⟨.free, [0, 0, 1, 3 / 5, 0, 4 / 5, 0], [0, 0, 0, 0, 0, 0],
        [exDofG ⟨0, 0, 0⟩ ⟨1, 0, 0⟩ none none, exDofG ⟨0, 0, 0⟩ ⟨0, 1, 0⟩ none none,
         exDofG ⟨0, 0, 0⟩ ⟨0, 0, 1⟩ none none, exDofG ⟨1, 0, 0⟩ ⟨0, 0, 0⟩ none none,
         exDofG ⟨0, 1, 0⟩ ⟨0, 0, 0⟩ none none, exDofG ⟨0, 0, 1⟩ ⟨0, 0, 0⟩ none none]⟩,
       ⟨.two, [1 / 2, 3 / 10], [0, 0],
        [exDofG ⟨1, 0, 0⟩ ⟨0, 0, 0⟩ (some (-1)) (some 1), exDofG ⟨0, 1, 0⟩ ⟨0, 0, 0⟩ (some (-1)) (some 1)]⟩] := by
  have hnv : exSysH.nv = 8 := rfl
  unfold C04I.ins
  rw [hnv]
  simp [exSysH, exQH, Kin.linkSlices, LinkType.qWidth, LinkType.qdWidth, List.replicate]

theorem exSysH_initOK : C04I.InitOK exSysH exQH := by
  have hpi := Real.two_le_pi
  refine ⟨C04I.TreeOK.of_WF exSysH (by decide) ?_, ?_⟩
  · intro lk hlk
    simp only [exSysH, List.mem_cons, List.not_mem_nil, or_false, or_self] at hlk
    subst hlk
    exact ⟨by simp [exLkG, Q4.normSq], rfl⟩
  · intro l hl
    rw [exSysH_slices] at hl
    simp only [List.mem_cons, List.not_mem_nil, or_false] at hl
    rcases hl with rfl | rfl
    · exact C04I.RestKind.free 0 0 1 (3 / 5) 0 (4 / 5) 0 _ rfl (by norm_num)
    · refine C04I.RestKind.stack (PureStack.hh _ _ ⟨1, 0, 0⟩ ⟨0, 1, 0⟩ _ _ 0 0 rfl rfl rfl
        (by simp [V3.dot]) (by simp [V3.dot]) (by simp [V3.dot]) (by linarith) (by linarith)
        (by rw [abs_le]; constructor <;> norm_num) ?_ ?_)
      all_goals
        intro _
        refine ⟨fun l hl => ?_, fun u hu => ?_⟩
        · simp [exDofG] at hl; rw [← hl]; norm_num
        · simp [exDofG] at hu; rw [← hu]; norm_num

theorem exSysH_stackMid : ∀ l ∈ C04I.ins exSysH exQH, StackMid l := by
  intro l hl
  rw [exSysH_slices] at hl
  simp only [List.mem_cons, List.not_mem_nil, or_false] at hl
  rcases hl with rfl | rfl
  · intro d1 q1 _ hq
    simp at hq
    subst hq
    exact Or.inr (midOK_zero)
  · intro d1 q1 _ hq
    simp at hq
    subst hq
    exact Or.inr (midOK_of_abs _ (by rw [abs_of_pos] <;> norm_num) (by rw [abs_of_pos] <;> norm_num))

/-- all hypotheses of `rest_stays_at_rest_spring_init_inverse` hold together: the concrete system
(free root + limited two-hinge stack) started from `pipeline.init(sys, q, 0)` is returned unchanged by
`spring.pipeline.step` with the model of `kinematics.inverse` -/
example (act : List ℝ) :
    Spring.step (C04I.invModel exSysH) (fun _ => []) exSysH
        (Spring.init exSysH exQH (List.replicate exSysH.nv 0)) act
      = Spring.init exSysH exQH (List.replicate exSysH.nv 0) :=
  rest_stays_at_rest_spring_init_inverse (fun _ => []) exSysH exQH act exSysH_initOK rfl rfl rfl rfl

/-- … and of `rest_stays_at_rest_positional_init_inverse` -/
example (act : List ℝ) :
    Positional.step (C04I.invModel exSysH) (fun _ => []) exSysH
        (Positional.init exSysH exQH (List.replicate exSysH.nv 0)) act
      = Positional.init exSysH exQH (List.replicate exSysH.nv 0) :=
  rest_stays_at_rest_positional_init_inverse (fun _ => []) exSysH exQH act exSysH_initOK
    exSysH_stackMid rfl rfl rfl (by simp [exSysH]; norm_num) (fun _ => rfl)

end witness

/-! ## rest case from `pipeline.init(sys, q, 0)` with actuators present: "no actuator force" as
`to_tau = 0` (ℝ) -/
section deepen3
open Kin C04I

/-- **`actuator.to_tau` vanishes when every actuator force does** (the system may have actuators):
discharges `htau` of the `…_zeroTau` theorems below. -/
theorem toTau_zero_of_zero_forces (s : Sys ℝ) (act q qd : List ℝ)
    (h : ∀ au ∈ s.acts.zip act,
      MC.actForce au.1 au.2 (MC.nthS q au.1.qId) (MC.nthS qd au.1.qdId) = 0) :
    MC.toTau s act q qd = List.replicate s.nv 0 :=
  C04T.toTau_zero_of_forces s act q qd h

/-- **zero control, zero bias ⇒ zero torque.**  Every control is 0 and every actuator is a pure motor
(`C04T.ZeroAt0`: `bias_q = bias_qd = 0`, control range and force range contain 0): `to_tau = 0` at every
`(q, qd)`.  (The spring/positional analogue of `C04G.actForce_zero_ctrl` + `C04G.toTau_zero`.) -/
theorem toTau_zero_of_zero_ctrl (s : Sys ℝ) (act q qd : List ℝ) (hact : ∀ u ∈ act, u = 0)
    (hacts : ∀ a ∈ s.acts, C04T.ZeroAt0 a) : MC.toTau s act q qd = List.replicate s.nv 0 :=
  C04T.toTau_zero_ctrl s act q qd hact hacts

/-- **Newton's first law, spring pipeline, system level, actuators allowed.**
`rest_stays_at_rest_spring_init` with `s.acts = []` replaced by the exact, weaker hypothesis that the
actuator torque `Spring.step` evaluates vanishes: `actuator.to_tau(sys, act, q, 0) = 0` (the step calls
`toTau s act st.q st.qd` with `(st.q, st.qd) = (q, 0)` for `st = init(q, 0)`). -/
theorem rest_stays_at_rest_spring_init_zeroTau (inv : List (Tf ℝ) → List (Motion ℝ) → List ℝ × List ℝ)
    (cf : List (Tf ℝ) → List (Contact ℝ)) (s : Sys ℝ) (q act : List ℝ) (h : InitOK s q)
    (hg : s.gravity = 0)
    (htau : MC.toTau s act q (List.replicate s.nv 0) = List.replicate s.nv 0)
    (hcf : cf (initX s q) = [])
    (hinv : inv ((worldToJoint s (initX s q) (initXd s q)).map (·.1))
        ((worldToJoint s (initX s q) (initXd s q)).map (·.2.1)) = (q, List.replicate s.nv 0)) :
    Spring.step inv cf s (Spring.init s q (List.replicate s.nv 0)) act
      = Spring.init s q (List.replicate s.nv 0) :=
  C04T.spring_init_rest_tau inv cf s q act h hg htau hcf hinv

/-- … with `inv` the model of `kinematics.inverse` -/
theorem rest_stays_at_rest_spring_init_inverse_zeroTau (cf : List (Tf ℝ) → List (Contact ℝ))
    (s : Sys ℝ) (q act : List ℝ) (h : InitOK s q) (hq : q.length = s.nq) (hg : s.gravity = 0)
    (htau : MC.toTau s act q (List.replicate s.nv 0) = List.replicate s.nv 0)
    (hcf : cf (initX s q) = []) :
    Spring.step (invModel s) cf s (Spring.init s q (List.replicate s.nv 0)) act
      = Spring.init s q (List.replicate s.nv 0) :=
  C04T.spring_init_rest_inverse_tau cf s q act h hq hg htau hcf

/-- **Newton's first law, positional pipeline, system level, actuators allowed** (as
`rest_stays_at_rest_positional_init`, `s.acts = []` replaced by `to_tau(sys, act, q, 0) = 0`) -/
theorem rest_stays_at_rest_positional_init_zeroTau
    (inv : List (Tf ℝ) → List (Motion ℝ) → List ℝ × List ℝ)
    (cf : List (Tf ℝ) → List (Contact ℝ)) (s : Sys ℝ) (q act : List ℝ) (h : InitOK s q)
    (hmid : ∀ l ∈ ins s q, StackMid l) (hg : s.gravity = 0)
    (htau : MC.toTau s act q (List.replicate s.nv 0) = List.replicate s.nv 0)
    (hdt : s.dt ≠ 0) (hcf : ∀ x, cf x = [])
    (hinv : inv ((worldToJoint s (initX s q) (initXd s q)).map (·.1))
        ((worldToJoint s (initX s q) (initXd s q)).map (·.2.1)) = (q, List.replicate s.nv 0)) :
    Positional.step inv cf s (Positional.init s q (List.replicate s.nv 0)) act
      = Positional.init s q (List.replicate s.nv 0) :=
  C04T.positional_init_rest_tau inv cf s q act h hmid hg htau hdt hcf hinv

/-- … with `inv` the model of `kinematics.inverse` -/
theorem rest_stays_at_rest_positional_init_inverse_zeroTau (cf : List (Tf ℝ) → List (Contact ℝ))
    (s : Sys ℝ) (q act : List ℝ) (h : InitOK s q) (hmid : ∀ l ∈ ins s q, StackMid l)
    (hq : q.length = s.nq) (hg : s.gravity = 0)
    (htau : MC.toTau s act q (List.replicate s.nv 0) = List.replicate s.nv 0)
    (hdt : s.dt ≠ 0) (hcf : ∀ x, cf x = []) :
    Positional.step (invModel s) cf s (Positional.init s q (List.replicate s.nv 0)) act
      = Positional.init s q (List.replicate s.nv 0) :=
  C04T.positional_init_rest_inverse_tau cf s q act h hmid hq hg htau hdt hcf

/-- the `acts = []` theorems are the special case -/
example (s : Sys ℝ) (act q : List ℝ) (h : s.acts = []) :
    MC.toTau s act q (List.replicate s.nv 0) = List.replicate s.nv 0 :=
  C04T.toTau_zero_of_noacts s act q _ h

/-! ### non-vacuity: a system that HAS actuators -/

/-- a motor on the first stacked hinge (`q_id = 7`, `qd_id = 6`): gain 100, gear 2, control range
`[-1, 1]`, force range `[-50, 50]`, no bias -/
noncomputable def exMotor : ActP ℝ :=
  { qId := 7, qdId := 6, ctrlLo := some (-1), ctrlHi := some 1, forceLo := some (-50),
    forceHi := some 50, gain := 100, gear := 2, biasQ := 0, biasQd := 0 }

/-- `exSysH` with two actuators: the motor above and an unclipped one on the second hinge -/
noncomputable def exMotor2 : ActP ℝ :=
  { qId := 8, qdId := 7, ctrlLo := none, ctrlHi := none, forceLo := none, forceHi := none,
    gain := 100, gear := 2, biasQ := 0, biasQd := 0 }

noncomputable def exSysA : Sys ℝ := { exSysH with acts := [exMotor, exMotor2] }

theorem exSysA_initOK : C04I.InitOK exSysA exQH := by
  refine ⟨C04I.TreeOK.of_WF exSysA (by decide) exSysH_initOK.tree.hlk, ?_⟩
  intro l hl
  exact exSysH_initOK.kind l hl

theorem exSysA_zeroAt0 : ∀ a ∈ exSysA.acts, C04T.ZeroAt0 a := by
  intro a ha
  simp only [exSysA, List.mem_cons, List.not_mem_nil, or_false] at ha
  rcases ha with rfl | rfl
  · refine ⟨rfl, rfl, ?_, ?_, ?_, ?_⟩ <;> intro x hx <;> simp [exMotor] at hx <;> rw [← hx] <;> norm_num
  · refine ⟨rfl, rfl, ?_, ?_, ?_, ?_⟩ <;> intro x hx <;> simp [exMotor2] at hx

/-- the system really has actuators, and they really act: control `1` on the motor gives the torque
`clip(100·1, -50, 50)·2 = 100` at dof 6 -/
example : exSysA.acts.length = 2 := rfl
example : MC.actForce exMotor 1 (1 / 2) 0 = 100 := by
  simp [MC.actForce, MC.clipO, exMotor]; norm_num

/-- all hypotheses of `rest_stays_at_rest_spring_init_inverse_zeroTau` hold together on a system with
two actuators under zero control -/
example :
    Spring.step (C04I.invModel exSysA) (fun _ => []) exSysA
        (Spring.init exSysA exQH (List.replicate exSysA.nv 0)) [0, 0]
      = Spring.init exSysA exQH (List.replicate exSysA.nv 0) :=
  rest_stays_at_rest_spring_init_inverse_zeroTau (fun _ => []) exSysA exQH [0, 0] exSysA_initOK rfl rfl
    (toTau_zero_of_zero_ctrl exSysA _ _ _ (by simp) exSysA_zeroAt0) rfl

/-- … and of `rest_stays_at_rest_positional_init_inverse_zeroTau` -/
example :
    Positional.step (C04I.invModel exSysA) (fun _ => []) exSysA
        (Positional.init exSysA exQH (List.replicate exSysA.nv 0)) [0, 0]
      = Positional.init exSysA exQH (List.replicate exSysA.nv 0) :=
  rest_stays_at_rest_positional_init_inverse_zeroTau (fun _ => []) exSysA exQH [0, 0] exSysA_initOK
    exSysH_stackMid rfl rfl (toTau_zero_of_zero_ctrl exSysA _ _ _ (by simp) exSysA_zeroAt0)
    (by simp [exSysA, exSysH]; norm_num) (fun _ => rfl)

end deepen3

end Brax.C04
