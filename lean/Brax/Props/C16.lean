import Brax.Lemmas.C16
/-!
# C16 — Bundled environments honour the Env contract and stay numerically finite  *(partial)*

The models of `Brax/Model/C16/*.lean` say what `reset`, `step` and `_get_obs` of the 11 bundled
physics environments compute **from the pipeline state**; `harness/corr_C16.py` ties them to the
python code on every run.  This file proves, for *all* pipeline states, configurations and actions:

* `obs_length_<env>`            the observation has the length `obsSize` (a formula in the number
                                of coordinates / dofs / links and the environment's flags) — so it
                                is the same at `reset` and after every `step`, which is what
                                `observation_size` (computed from one `reset`) declares.  Stated
                                for an arbitrary scalar type, so it also covers the `Float` run.
* `reset_done_zero_<env>`       `reset` returns `done = 0`, `reward = 0`, all metrics `0`.
* `done_iff_unhealthy_<env>`    the decision logic of each termination rule: with
                                `terminate_when_unhealthy`, `done = 1` exactly outside the documented
                                healthy set and `done = 0` exactly inside; without it `done = 0`;
                                environments without a rule hand `done` through unchanged.
* `reward_decomposition_<env>`  the reward is the sum of the terms the environment reports as
                                metrics (or documents), and each simple term has its documented form.
* `scaleAct_mem_range`, `scaleAction_bounded`, `action_in_ctrl_range_<env>`
                                an action in `[-1, 1]` is rescaled into the actuator control range.

What is **not** proved (see `FullStmt` at the end): that the simulation stays finite and the link
quaternions stay unit along every bounded action sequence.  That is a statement about a stiff
floating-point simulation; it is observed on sampled trajectories by the harness only.
Unit-quaternion preservation by the integrators and bounded actuation are C06 / C11.

Scalars: a linear ordered field `K` (ℚ, ℝ); IEEE round-off is not modelled.
Only property theorems and non-vacuity examples live in this file.
-/
set_option linter.unusedSectionVars false
set_option linter.unusedSimpArgs false
set_option linter.unusedVariables false
namespace Brax.C16
open Brax

/-! ## observation length — any scalar type -/
section length
variable {α : Type} [Zero α] [One α] [Add α] [Sub α] [Mul α] [Neg α] [Div α]
  [LT α] [DecidableLT α] [LE α] [DecidableLE α] [OfScientific α] [HasSqrt α] [HasTrig α]

theorem obs_length_inverted_pendulum (s : PState α) (nq nv : Nat)
    (hq : s.q.length = nq) (hv : s.qd.length = nv) :
    (InvertedPendulum.obs s).length = InvertedPendulum.obsSize nq nv := by
  subst hq hv; simp [InvertedPendulum.obs, InvertedPendulum.obsSize]

theorem obs_length_inverted_double_pendulum (s : PState α) (nq nv : Nat)
    (hq : s.q.length = nq) (hv : s.qd.length = nv) :
    (InvertedDoublePendulum.obs s).length = InvertedDoublePendulum.obsSize nq nv := by
  subst hq hv
  simp [InvertedDoublePendulum.obs, InvertedDoublePendulum.obsSize, length_clip10]
  omega

/-- the bundled system has `nq = 3`: 1 + 2 + 2 + 3 = 8 … for any `nq ≥ 1` it is `2 nq - 1 + nv` -/
theorem obsSize_inverted_double_pendulum (nq nv : Nat) (h : 1 ≤ nq) :
    InvertedDoublePendulum.obsSize nq nv = 2 * nq - 1 + nv := by
  unfold InvertedDoublePendulum.obsSize; omega

theorem obs_length_reacher (s : PState α) (nq : Nat) (hq : s.q.length = nq) :
    (Reacher.obs s).length = Reacher.obsSize nq := by
  subst hq
  simp [Reacher.obs, Reacher.obsSize, V3.toList]
  omega

/-- for `nq ≥ 2` (two arm joints, then the target coordinates): `nq + 7` -/
theorem obsSize_reacher (nq : Nat) (h : 2 ≤ nq) : Reacher.obsSize nq = nq + 7 := by
  unfold Reacher.obsSize; omega

theorem obs_length_pusher (c : Pusher.Cfg α) (s : PState α) (nq nv : Nat)
    (hq : s.q.length = nq) (hv : s.qd.length = nv) :
    (Pusher.obs c s).length = Pusher.obsSize nq nv := by
  subst hq hv
  simp [Pusher.obs, Pusher.obsSize, V3.toList]
  omega

/-- with at least 7 arm coordinates and dofs the observation always has 23 entries -/
theorem obsSize_pusher (nq nv : Nat) (hq : 7 ≤ nq) (hv : 7 ≤ nv) : Pusher.obsSize nq nv = 23 := by
  unfold Pusher.obsSize; omega

theorem obs_length_ant (c : Ant.Cfg α) (s : PState α) (nq nv : Nat)
    (hq : s.q.length = nq) (hv : s.qd.length = nv) :
    (Ant.obs c s).length = Ant.obsSize c nq nv := by
  subst hq hv
  cases h : c.exclude <;> simp [Ant.obs, Ant.obsSize, h]

theorem obs_length_halfcheetah (c : HalfCheetah.Cfg α) (s : PState α) (nq nv : Nat)
    (hq : s.q.length = nq) (hv : s.qd.length = nv) :
    (HalfCheetah.obs c s).length = HalfCheetah.obsSize c nq nv := by
  subst hq hv
  cases h : c.exclude <;> simp [HalfCheetah.obs, HalfCheetah.obsSize, h]

theorem obs_length_hopper (c : Hopper.Cfg α) (s : PState α) (nq nv : Nat)
    (hq : s.q.length = nq) (hv : s.qd.length = nv) :
    (Hopper.obs c s).length = Hopper.obsSize c nq nv := by
  subst hq hv
  cases h : c.exclude <;> simp [Hopper.obs, Hopper.obsSize, h, length_clip10]

theorem obs_length_walker2d (c : Walker2d.Cfg α) (s : PState α) (nq nv : Nat)
    (hq : s.q.length = nq) (hv : s.qd.length = nv) :
    (Walker2d.obs c s).length = Walker2d.obsSize c nq nv := by
  subst hq hv
  cases h : c.exclude <;> simp [Walker2d.obs, Walker2d.obsSize, h, length_clip10]

theorem obs_length_swimmer (c : Swimmer.Cfg α) (s : PState α) (nq nv : Nat)
    (hq : s.q.length = nq) (hv : s.qd.length = nv) :
    (Swimmer.obs c s).length = Swimmer.obsSize c nq nv := by
  subst hq hv
  cases h : c.exclude <;> simp [Swimmer.obs, Swimmer.obsSize, h]

/-- shared layout of the humanoids: `|position| + nv + 10 nb + 6 nb + |qfrc|`, `nb` links -/
theorem length_com_obs (inertia : List (Inertia α)) (position : List α) (s : PState α)
    (qfrc : List α) :
    (Com.obs inertia position s qfrc).length
      = position.length + s.qd.length + 10 * inertia.length + 6 * inertia.length + qfrc.length := by
  unfold Com.obs
  simp only [List.length_append]
  rw [length_flatMap_range _ 10 _ (fun i => by simp [Com.inertiaRow]),
      length_flatMap_range _ 6 _ (fun i => by simp [Com.velRow])]

theorem obs_length_humanoid (c : Humanoid.Cfg α) (s : PState α) (qfrc : List α) (nq nv nb : Nat)
    (hq : s.q.length = nq) (hv : s.qd.length = nv) (hb : c.inertia.length = nb)
    (hf : qfrc.length = nv) :
    (Humanoid.obs c s qfrc).length = Humanoid.obsSize c nq nv nb := by
  subst hq hv hb
  unfold Humanoid.obs Humanoid.obsSize
  rw [length_com_obs, hf]
  cases h : c.exclude <;> simp

theorem obs_length_humanoidstandup (c : HumanoidStandup.Cfg α) (s : PState α) (qfrc : List α)
    (nq nv nb : Nat) (hq : s.q.length = nq) (hv : s.qd.length = nv) (hb : c.inertia.length = nb)
    (hf : qfrc.length = nv) :
    (HumanoidStandup.obs c s qfrc).length = HumanoidStandup.obsSize nq nv nb := by
  subst hq hv hb
  unfold HumanoidStandup.obs HumanoidStandup.obsSize
  rw [length_com_obs, hf]
  simp

/-- `reset` and `step` return the same observation function of the state, hence the same length:
the number `observation_size` reads off one `reset` is the length after every `step`
(shown for hopper; every `step` model returns `obs c s` by definition in the same way) -/
theorem obs_length_step_eq_reset_hopper (c : Hopper.Cfg α) (s0 s s' : PState α) (act : List α)
    (hq : s.q.length = s'.q.length) (hv : s.qd.length = s'.qd.length) :
    (Hopper.step c s0 s act).obs.length = (Hopper.reset c s').obs.length := by
  simp only [Hopper.step, Hopper.reset, resetOut]
  rw [obs_length_hopper c s _ _ rfl rfl, obs_length_hopper c s' _ _ rfl rfl, hq, hv]

end length

/-! ## the declared sizes of the bundled systems (numbers of `env.observation_size`) -/

example : Ant.obsSize (⟨0, 0, true, none, none, true, 0⟩ : Ant.Cfg ℚ) 15 14 = 27 := by decide
example : HalfCheetah.obsSize (⟨0, 0, true, 0⟩ : HalfCheetah.Cfg ℚ) 9 9 = 17 := by decide
example : Hopper.obsSize (⟨0, 0, 0, true, none, none, none, none, none, none, true, 0⟩ : Hopper.Cfg ℚ) 6 6 = 11 := by
  decide
example : Walker2d.obsSize (⟨0, 0, 0, true, none, none, none, none, true, 0⟩ : Walker2d.Cfg ℚ) 9 9 = 17 := by
  decide
example : Swimmer.obsSize (⟨0, 0, true, 0⟩ : Swimmer.Cfg ℚ) 5 5 = 8 := by decide
example : Humanoid.obsSize (⟨0, 0, 0, true, none, none, true, 0, [], []⟩ : Humanoid.Cfg ℚ) 24 23 11 = 244 := by
  decide
example : HumanoidStandup.obsSize 24 23 11 = 244 := by decide
example : InvertedPendulum.obsSize 2 2 = 4 := by decide
example : InvertedDoublePendulum.obsSize 3 3 = 8 := by decide
example : Reacher.obsSize 4 = 11 := by decide
example : Pusher.obsSize 11 11 = 23 := by decide

/-! ## reset -/
section reset
variable {α : Type} [Zero α] [One α] [Add α] [Sub α] [Mul α] [Neg α] [Div α]
  [LT α] [DecidableLT α] [LE α] [DecidableLE α] [OfScientific α] [HasSqrt α] [HasTrig α]

theorem resetOut_spec (obs : List α) (n : Nat) : ResetSpec (resetOut obs n) obs n := by
  refine ⟨rfl, rfl, rfl, by simp [resetOut], ?_⟩
  intro m hm
  simp only [resetOut, List.mem_replicate] at hm
  exact hm.2

theorem reset_done_zero_inverted_pendulum (s : PState α) :
    ResetSpec (InvertedPendulum.reset s) (InvertedPendulum.obs s) 0 := resetOut_spec _ _
theorem reset_done_zero_inverted_double_pendulum (s : PState α) :
    ResetSpec (InvertedDoublePendulum.reset s) (InvertedDoublePendulum.obs s) 0 := resetOut_spec _ _
theorem reset_done_zero_reacher (s : PState α) :
    ResetSpec (Reacher.reset s) (Reacher.obs s) 2 := resetOut_spec _ _
theorem reset_done_zero_pusher (c : Pusher.Cfg α) (s : PState α) :
    ResetSpec (Pusher.reset c s) (Pusher.obs c s) 3 := resetOut_spec _ _
theorem reset_done_zero_ant (c : Ant.Cfg α) (s : PState α) :
    ResetSpec (Ant.reset c s) (Ant.obs c s) 10 := resetOut_spec _ _
theorem reset_done_zero_halfcheetah (c : HalfCheetah.Cfg α) (s : PState α) :
    ResetSpec (HalfCheetah.reset c s) (HalfCheetah.obs c s) 4 := resetOut_spec _ _
theorem reset_done_zero_hopper (c : Hopper.Cfg α) (s : PState α) :
    ResetSpec (Hopper.reset c s) (Hopper.obs c s) 5 := resetOut_spec _ _
theorem reset_done_zero_walker2d (c : Walker2d.Cfg α) (s : PState α) :
    ResetSpec (Walker2d.reset c s) (Walker2d.obs c s) 5 := resetOut_spec _ _
theorem reset_done_zero_swimmer (c : Swimmer.Cfg α) (s : PState α) :
    ResetSpec (Swimmer.reset c s) (Swimmer.obs c s) 8 := resetOut_spec _ _
theorem reset_done_zero_humanoid (c : Humanoid.Cfg α) (s : PState α) (qfrc : List α) :
    ResetSpec (Humanoid.reset c s qfrc) (Humanoid.obs c s qfrc) 9 := resetOut_spec _ _
theorem reset_done_zero_humanoidstandup (c : HumanoidStandup.Cfg α) (s : PState α) (qfrc : List α) :
    ResetSpec (HumanoidStandup.reset c s qfrc) (HumanoidStandup.obs c s qfrc) 2 := resetOut_spec _ _

end reset

/-! ## termination rules, rewards, action scaling — linear ordered fields -/
section field
variable {K : Type} [Field K] [LinearOrder K] [IsStrictOrderedRing K]

/-! ### action rescaling -/

/-- an action in `[-1, 1]` is mapped into the control range `[lo, hi]` -/
theorem scaleAct_mem_range (a lo hi : K) (h1 : -1 ≤ a) (h2 : a ≤ 1) (h : lo ≤ hi) :
    lo ≤ scaleAct a lo hi ∧ scaleAct a lo hi ≤ hi := by
  have e : scaleAct a lo hi = lo + (a + 1) / 2 * (hi - lo) := by
    unfold scaleAct; norm_num; ring
  have h0 : 0 ≤ (a + 1) / 2 := by linarith
  have h3 : (a + 1) / 2 ≤ 1 := by linarith
  have hd : 0 ≤ hi - lo := by linarith
  rw [e]
  constructor
  · nlinarith [mul_nonneg h0 hd]
  · nlinarith [mul_le_mul_of_nonneg_right h3 hd]

/-- the ends of `[-1, 1]` go to the ends of the control range, the centre to its centre -/
theorem scaleAct_ends (lo hi : K) :
    scaleAct (-1) lo hi = lo ∧ scaleAct 1 lo hi = hi ∧ scaleAct 0 lo hi = (lo + hi) / 2 := by
  unfold scaleAct
  refine ⟨?_, ?_, ?_⟩ <;> norm_num <;> ring

theorem scaleAction_length (act : List K) (rng : List (K × K)) :
    (scaleAction act rng).length = min act.length rng.length := by
  simp [scaleAction]

/-- every rescaled component lies in its actuator's control range -/
theorem scaleAction_bounded (act : List K) (rng : List (K × K))
    (ha : ∀ a ∈ act, -1 ≤ a ∧ a ≤ 1) (hr : ∀ r ∈ rng, r.1 ≤ r.2) :
    ∀ p ∈ (scaleAction act rng).zip rng, p.2.1 ≤ p.1 ∧ p.1 ≤ p.2.2 := by
  induction act generalizing rng with
  | nil => simp [scaleAction]
  | cons a as ih =>
    cases rng with
    | nil => simp [scaleAction]
    | cons r rs =>
      intro p hp
      simp only [scaleAction, List.zipWith_cons_cons, List.zip_cons_cons, List.mem_cons] at hp
      rcases hp with rfl | hp
      · exact scaleAct_mem_range a r.1 r.2 (ha a (by simp)).1 (ha a (by simp)).2 (hr r (by simp))
      · exact ih rs (fun a' h' => ha a' (by simp [h'])) (fun r' h' => hr r' (by simp [h'])) p hp

theorem action_in_ctrl_range_inverted_pendulum (rng : List (K × K)) (act : List K)
    (ha : ∀ a ∈ act, -1 ≤ a ∧ a ≤ 1) (hr : ∀ r ∈ rng, r.1 ≤ r.2) :
    ∀ p ∈ (InvertedPendulum.action rng act).zip rng, p.2.1 ≤ p.1 ∧ p.1 ≤ p.2.2 :=
  scaleAction_bounded act rng ha hr

theorem action_in_ctrl_range_pusher (c : Pusher.Cfg K) (act : List K)
    (ha : ∀ a ∈ act, -1 ≤ a ∧ a ≤ 1) (hr : ∀ r ∈ c.ctrlRange, r.1 ≤ r.2) :
    ∀ p ∈ (Pusher.action c act).zip c.ctrlRange, p.2.1 ≤ p.1 ∧ p.1 ≤ p.2.2 :=
  scaleAction_bounded act c.ctrlRange ha hr

theorem action_in_ctrl_range_humanoid (c : Humanoid.Cfg K) (act : List K)
    (ha : ∀ a ∈ act, -1 ≤ a ∧ a ≤ 1) (hr : ∀ r ∈ c.ctrlRange, r.1 ≤ r.2) :
    ∀ p ∈ (Humanoid.action c act).zip c.ctrlRange, p.2.1 ≤ p.1 ∧ p.1 ≤ p.2.2 :=
  scaleAction_bounded act c.ctrlRange ha hr

theorem action_in_ctrl_range_humanoidstandup (c : HumanoidStandup.Cfg K) (act : List K)
    (ha : ∀ a ∈ act, -1 ≤ a ∧ a ≤ 1) (hr : ∀ r ∈ c.ctrlRange, r.1 ≤ r.2) :
    ∀ p ∈ (HumanoidStandup.action c act).zip c.ctrlRange, p.2.1 ≤ p.1 ∧ p.1 ≤ p.2.2 :=
  scaleAction_bounded act c.ctrlRange ha hr

/-- control costs are non-negative for a non-negative weight, so they can only lower the reward -/
theorem ctrlCost_nonneg (w : K) (act : List K) (hw : 0 ≤ w) : 0 ≤ w * sumSq act :=
  mul_nonneg hw (sumSq_nonneg act)

/-! ### inverted pendulum -/

/-- `done = 1` exactly when the pole angle `q[1]` has left `[-0.2, 0.2]`; otherwise `done = 0` -/
theorem done_iff_unhealthy_inverted_pendulum (s : PState K) (hq : 2 ≤ s.q.length) :
    ((InvertedPendulum.step s).done = 1 ↔ 0.2 < |idx s.q 1|)
    ∧ ((InvertedPendulum.step s).done = 0 ↔ |idx s.q 1| ≤ 0.2) := by
  have e : idx (InvertedPendulum.obs s) 1 = idx s.q 1 :=
    idx_append_left s.q s.qd 1 (by omega)
  simp only [InvertedPendulum.step, InvertedPendulum.done, e, absv_eq_abs]
  constructor <;> split_ifs with h <;> simp_all [not_lt]

theorem reward_decomposition_inverted_pendulum (s : PState K) :
    (InvertedPendulum.step s).reward = 1 ∧ (InvertedPendulum.step s).metrics = [] := ⟨rfl, rfl⟩

/-! ### inverted double pendulum -/

/-- what the code calls the tip: the origin of link 2 shifted by 0.6 along the world z axis -/
theorem tip_inverted_double_pendulum (s : PState K) :
    InvertedDoublePendulum.tip s
      = ⟨(link s (2 % s.x.length)).pos.x, (link s (2 % s.x.length)).pos.y,
         0.6 + (link s (2 % s.x.length)).pos.z⟩ := by
  simp only [InvertedDoublePendulum.tip, Tf.doTf, rotate_one, V3.add_def]
  congr 1 <;> ring

/-- `done = 1` exactly when that point is at height ≤ 1, otherwise `done = 0` -/
theorem done_iff_unhealthy_inverted_double_pendulum [HasTrig K] (s : PState K) :
    ((InvertedDoublePendulum.step s).done = 1 ↔ (InvertedDoublePendulum.tip s).z ≤ 1)
    ∧ ((InvertedDoublePendulum.step s).done = 0 ↔ 1 < (InvertedDoublePendulum.tip s).z) := by
  simp only [InvertedDoublePendulum.step, InvertedDoublePendulum.done]
  constructor <;> split_ifs with h <;> simp_all [not_le]

/-- `reward = alive_bonus - dist_penalty - vel_penalty`; both penalties are non-negative, so the
reward never exceeds the alive bonus 10 -/
theorem reward_decomposition_inverted_double_pendulum [HasTrig K] (s : PState K) :
    (InvertedDoublePendulum.step s).reward
        = 10 - InvertedDoublePendulum.distPenalty s - InvertedDoublePendulum.velPenalty s
    ∧ 0 ≤ InvertedDoublePendulum.distPenalty s ∧ 0 ≤ InvertedDoublePendulum.velPenalty s
    ∧ (InvertedDoublePendulum.step s).reward ≤ 10 := by
  have hd : 0 ≤ InvertedDoublePendulum.distPenalty s := by
    simp only [InvertedDoublePendulum.distPenalty]
    have h1 := mul_self_nonneg (InvertedDoublePendulum.tip s).x
    have h2 := mul_self_nonneg ((InvertedDoublePendulum.tip s).z - 2.0)
    have : (0 : K) ≤ 0.01 := by norm_num
    nlinarith [mul_nonneg this h1]
  have hv : 0 ≤ InvertedDoublePendulum.velPenalty s := by
    simp only [InvertedDoublePendulum.velPenalty]
    have h1 := mul_self_nonneg (idx s.qd 1)
    have h2 := mul_self_nonneg (idx s.qd 2)
    have a : (0 : K) ≤ 1e-3 := by norm_num
    have b : (0 : K) ≤ 5e-3 := by norm_num
    nlinarith [mul_nonneg a h1, mul_nonneg b h2]
  have e : (InvertedDoublePendulum.step s).reward
      = 10 - InvertedDoublePendulum.distPenalty s - InvertedDoublePendulum.velPenalty s := by
    simp only [InvertedDoublePendulum.step, InvertedDoublePendulum.aliveBonus]; norm_num
  refine ⟨e, hd, hv, ?_⟩
  rw [e]; linarith

/-! ### hopper -/

theorem isHealthy_hopper_iff (c : Hopper.Cfg K) (s : PState K) :
    Hopper.isHealthy c s = true ↔ Hopper.Healthy c s := by
  simp only [Hopper.isHealthy, Hopper.Healthy, Bool.and_eq_true, List.all_eq_true, inOpen_iff]
  tauto

/-- with `terminate_when_unhealthy`: `done = 1` exactly outside the healthy box, `0` inside -/
theorem done_iff_unhealthy_hopper (c : Hopper.Cfg K) (s0 s : PState K) (act : List K)
    (ht : c.terminate = true) :
    ((Hopper.step c s0 s act).done = 1 ↔ ¬ Hopper.Healthy c s)
    ∧ ((Hopper.step c s0 s act).done = 0 ↔ Hopper.Healthy c s) := by
  simp only [Hopper.step, ht, if_true, one_sub_b2f_eq_one, one_sub_b2f_eq_zero,
    ← isHealthy_hopper_iff]
  simp

theorem done_zero_of_not_terminate_hopper (c : Hopper.Cfg K) (s0 s : PState K) (act : List K)
    (ht : c.terminate = false) : (Hopper.step c s0 s act).done = 0 := by
  simp [Hopper.step, ht]

/-- `reward = reward_forward + reward_healthy + reward_ctrl` (the metrics the step reports), with
`reward_forward = w (x' − x)/dt`, `reward_ctrl = −w Σ a²` and the healthy reward paid
unconditionally under `terminate_when_unhealthy`, else only inside the healthy box -/
theorem reward_decomposition_hopper (c : Hopper.Cfg K) (s0 s : PState K) (act : List K) :
    (Hopper.step c s0 s act).metrics
        = [Hopper.forwardReward c s0 s, -Hopper.ctrlCost c act, Hopper.healthyReward c s,
           (linkPos s 0).x, Hopper.xVelocity c s0 s]
    ∧ (Hopper.step c s0 s act).reward
        = Hopper.forwardReward c s0 s + Hopper.healthyReward c s + -Hopper.ctrlCost c act
    ∧ Hopper.forwardReward c s0 s = c.fwdW * (((linkPos s 0).x - (linkPos s0 0).x) / c.dt)
    ∧ Hopper.ctrlCost c act = c.ctrlW * sumSq act
    ∧ Hopper.healthyReward c s
        = (if c.terminate then c.healthyR else if Hopper.isHealthy c s then c.healthyR else 0) := by
  refine ⟨rfl, ?_, rfl, rfl, ?_⟩
  · simp only [Hopper.step]; ring
  · unfold Hopper.healthyReward
    cases c.terminate <;> cases Hopper.isHealthy c s <;> simp [b2f]

/-! ### walker2d -/

theorem isHealthy_walker2d_iff (c : Walker2d.Cfg K) (s : PState K) :
    Walker2d.isHealthy c s = true ↔ Walker2d.Healthy c s := by
  simp only [Walker2d.isHealthy, Walker2d.Healthy, InOpen, Bool.and_eq_true]
  cases c.zLo <;> cases c.zHi <;> cases c.angLo <;> cases c.angHi <;> simp [gtLo, ltHi] <;> tauto

theorem done_iff_unhealthy_walker2d (c : Walker2d.Cfg K) (s0 s : PState K) (act : List K)
    (ht : c.terminate = true) :
    ((Walker2d.step c s0 s act).done = 1 ↔ ¬ Walker2d.Healthy c s)
    ∧ ((Walker2d.step c s0 s act).done = 0 ↔ Walker2d.Healthy c s) := by
  simp only [Walker2d.step, ht, if_true, one_sub_b2f_eq_one, one_sub_b2f_eq_zero,
    ← isHealthy_walker2d_iff]
  simp

theorem done_zero_of_not_terminate_walker2d (c : Walker2d.Cfg K) (s0 s : PState K) (act : List K)
    (ht : c.terminate = false) : (Walker2d.step c s0 s act).done = 0 := by
  simp [Walker2d.step, ht]

theorem reward_decomposition_walker2d (c : Walker2d.Cfg K) (s0 s : PState K) (act : List K) :
    (Walker2d.step c s0 s act).metrics
        = [Walker2d.forwardReward c s0 s, -Walker2d.ctrlCost c act, Walker2d.healthyReward c s,
           (linkPos s 0).x, Walker2d.xVelocity c s0 s]
    ∧ (Walker2d.step c s0 s act).reward
        = Walker2d.forwardReward c s0 s + Walker2d.healthyReward c s + -Walker2d.ctrlCost c act
    ∧ Walker2d.forwardReward c s0 s = c.fwdW * (((linkPos s 0).x - (linkPos s0 0).x) / c.dt)
    ∧ Walker2d.ctrlCost c act = c.ctrlW * sumSq act := by
  refine ⟨rfl, ?_, rfl, rfl⟩
  simp only [Walker2d.step]; ring

/-! ### ant -/

/-- with `terminate_when_unhealthy`: `done = 1` exactly when the torso height is outside the closed
`healthy_z_range`, `0` inside -/
theorem done_iff_unhealthy_ant [HasSqrt K] (c : Ant.Cfg K) (s0 s : PState K) (act : List K)
    (ht : c.terminate = true) :
    ((Ant.step c s0 s act).done = 1 ↔ ¬ Ant.Healthy c s)
    ∧ ((Ant.step c s0 s act).done = 0 ↔ Ant.Healthy c s) := by
  have h := closedIndicator c.zLo c.zHi (linkPos s 0).z
  simp only [Ant.step, ht, if_true, Ant.isHealthy, Ant.Healthy]
  constructor
  · rw [← h.2]; constructor <;> intro e <;> linarith
  · rw [← h.1]; constructor <;> intro e <;> linarith

theorem done_zero_of_not_terminate_ant [HasSqrt K] (c : Ant.Cfg K) (s0 s : PState K) (act : List K)
    (ht : c.terminate = false) : (Ant.step c s0 s act).done = 0 := by
  simp [Ant.step, ht]

/-- `reward = reward_forward + reward_survive + reward_ctrl + reward_contact`, the contact term
being identically zero -/
theorem reward_decomposition_ant [HasSqrt K] (c : Ant.Cfg K) (s0 s : PState K) (act : List K) :
    (Ant.step c s0 s act).reward
        = idx (Ant.step c s0 s act).metrics 0 + idx (Ant.step c s0 s act).metrics 1
          + idx (Ant.step c s0 s act).metrics 2 + idx (Ant.step c s0 s act).metrics 3
    ∧ idx (Ant.step c s0 s act).metrics 0 = ((linkPos s 0).x - (linkPos s0 0).x) / c.dt
    ∧ idx (Ant.step c s0 s act).metrics 1 = Ant.healthyReward c s
    ∧ idx (Ant.step c s0 s act).metrics 2 = -(c.ctrlW * sumSq act)
    ∧ idx (Ant.step c s0 s act).metrics 3 = 0 := by
  simp only [Ant.step, idx, List.getD_cons_zero, List.getD_cons_succ, Ant.velocity, Ant.ctrlCost,
    Ant.contactCost, V3.sub_def]
  repeat' constructor
  all_goals first | trivial | rfl | ring | simp

/-! ### humanoid -/

theorem done_iff_unhealthy_humanoid [HasSqrt K] (c : Humanoid.Cfg K) (s0 s : PState K) (act qfrc : List K)
    (ht : c.terminate = true) :
    ((Humanoid.step c s0 s act qfrc).done = 1 ↔ ¬ Humanoid.Healthy c s)
    ∧ ((Humanoid.step c s0 s act qfrc).done = 0 ↔ Humanoid.Healthy c s) := by
  have h := closedIndicator c.zLo c.zHi (linkPos s 0).z
  simp only [Humanoid.step, ht, if_true, Humanoid.isHealthy, Humanoid.Healthy]
  constructor
  · rw [← h.2]; constructor <;> intro e <;> linarith
  · rw [← h.1]; constructor <;> intro e <;> linarith

theorem done_zero_of_not_terminate_humanoid [HasSqrt K] (c : Humanoid.Cfg K) (s0 s : PState K)
    (act qfrc : List K) (ht : c.terminate = false) : (Humanoid.step c s0 s act qfrc).done = 0 := by
  simp [Humanoid.step, ht]

/-- `reward = reward_linvel + reward_alive + reward_quadctrl`; the control cost is that of the
RESCALED action; the forward term is the x-velocity of the centre of mass -/
theorem reward_decomposition_humanoid [HasSqrt K] (c : Humanoid.Cfg K) (s0 s : PState K) (act qfrc : List K) :
    (Humanoid.step c s0 s act qfrc).reward
        = idx (Humanoid.step c s0 s act qfrc).metrics 1 + idx (Humanoid.step c s0 s act qfrc).metrics 3
          + idx (Humanoid.step c s0 s act qfrc).metrics 2
    ∧ idx (Humanoid.step c s0 s act qfrc).metrics 1
        = c.fwdW * (((Com.com c.inertia s).x - (Com.com c.inertia s0).x) / c.dt)
    ∧ idx (Humanoid.step c s0 s act qfrc).metrics 2 = -(c.ctrlW * sumSq (scaleAction act c.ctrlRange))
    ∧ idx (Humanoid.step c s0 s act qfrc).metrics 3 = Humanoid.healthyReward c s := by
  simp only [Humanoid.step, idx, List.getD_cons_zero, List.getD_cons_succ, Humanoid.forwardReward,
    Humanoid.velocity, Humanoid.ctrlCost, Humanoid.action, V3.sub_def]
  repeat' constructor
  all_goals first | trivial | rfl | ring | simp

/-! ### environments without a termination rule: `done` is handed through -/

theorem done_passthrough_halfcheetah (c : HalfCheetah.Cfg K) (s0 s : PState K) (act : List K) (d : K) :
    (HalfCheetah.step c s0 s act d).done = d := rfl
theorem done_passthrough_swimmer [HasSqrt K] (c : Swimmer.Cfg K) (s0 s : PState K) (act : List K) (d : K) :
    (Swimmer.step c s0 s act d).done = d := rfl
theorem done_passthrough_reacher [HasSqrt K] [HasTrig K] (s : PState K) (act : List K) (d : K) :
    (Reacher.step s act d).done = d := rfl
theorem done_passthrough_pusher [HasSqrt K] (c : Pusher.Cfg K) (s0 s : PState K) (act : List K) (d : K) :
    (Pusher.step c s0 s act d).done = d := rfl
theorem done_passthrough_humanoidstandup (c : HumanoidStandup.Cfg K) (s : PState K)
    (act qfrc : List K) (d : K) : (HumanoidStandup.step c s act qfrc d).done = d := rfl

/-! ### their rewards -/

theorem reward_decomposition_halfcheetah (c : HalfCheetah.Cfg K) (s0 s : PState K) (act : List K)
    (d : K) :
    (HalfCheetah.step c s0 s act d).reward
        = idx (HalfCheetah.step c s0 s act d).metrics 2 + idx (HalfCheetah.step c s0 s act d).metrics 3
    ∧ idx (HalfCheetah.step c s0 s act d).metrics 2
        = c.fwdW * (((linkPos s 0).x - (linkPos s0 0).x) / c.dt)
    ∧ idx (HalfCheetah.step c s0 s act d).metrics 3 = -(c.ctrlW * sumSq act) := by
  simp only [HalfCheetah.step, idx, List.getD_cons_zero, List.getD_cons_succ,
    HalfCheetah.forwardReward, HalfCheetah.xVelocity, HalfCheetah.ctrlCost]
  repeat' constructor
  all_goals first | trivial | rfl | ring | simp

/-- the swimmer's forward velocity is read off the generalized coordinate `q[0]` -/
theorem reward_decomposition_swimmer [HasSqrt K] (c : Swimmer.Cfg K) (s0 s : PState K) (act : List K) (d : K) :
    (Swimmer.step c s0 s act d).reward
        = idx (Swimmer.step c s0 s act d).metrics 0 + idx (Swimmer.step c s0 s act d).metrics 1
    ∧ idx (Swimmer.step c s0 s act d).metrics 0 = c.fwdW * ((idx s.q 0 - idx s0.q 0) / c.dt)
    ∧ idx (Swimmer.step c s0 s act d).metrics 1 = -(c.ctrlW * sumSq act) := by
  simp only [Swimmer.step, idx, List.getD_cons_zero, List.getD_cons_succ, Swimmer.forwardReward,
    Swimmer.xVelocity, Swimmer.ctrlCost]
  repeat' constructor
  all_goals first | trivial | rfl | ring | simp

theorem reward_decomposition_reacher [HasSqrt K] [HasTrig K] (s : PState K) (act : List K) (d : K) :
    (Reacher.step s act d).reward
        = idx (Reacher.step s act d).metrics 0 + idx (Reacher.step s act d).metrics 1
    ∧ idx (Reacher.step s act d).metrics 1 = -sumSq act := by
  simp only [Reacher.step, idx, List.getD_cons_zero, List.getD_cons_succ, Reacher.rewardCtrl]
  repeat' constructor
  all_goals first | trivial | rfl | ring | simp

/-- `reward = reward_dist + 0.1 reward_ctrl + 0.5 reward_near`; the control term uses the RESCALED
action and both distances are those of the state BEFORE the step -/
theorem reward_decomposition_pusher [HasSqrt K] (c : Pusher.Cfg K) (s0 s : PState K) (act : List K) (d : K) :
    (Pusher.step c s0 s act d).reward
        = idx (Pusher.step c s0 s act d).metrics 1 + 0.1 * idx (Pusher.step c s0 s act d).metrics 2
          + 0.5 * idx (Pusher.step c s0 s act d).metrics 0
    ∧ idx (Pusher.step c s0 s act d).metrics 2 = -sumSq (scaleAction act c.ctrlRange)
    ∧ idx (Pusher.step c s0 s act d).metrics 0 = Pusher.rewardNear c s0
    ∧ idx (Pusher.step c s0 s act d).metrics 1 = Pusher.rewardDist c s0 := by
  simp only [Pusher.step, idx, List.getD_cons_zero, List.getD_cons_succ, Pusher.rewardCtrl,
    Pusher.action]
  repeat' constructor
  all_goals first | trivial | rfl | ring | simp

/-- `reward = reward_linup + 1 + reward_quadctrl`, `reward_linup = z / dt` -/
theorem reward_decomposition_humanoidstandup (c : HumanoidStandup.Cfg K) (s : PState K)
    (act qfrc : List K) (d : K) :
    (HumanoidStandup.step c s act qfrc d).reward
        = idx (HumanoidStandup.step c s act qfrc d).metrics 0 + 1
          + idx (HumanoidStandup.step c s act qfrc d).metrics 1
    ∧ idx (HumanoidStandup.step c s act qfrc d).metrics 0 = (linkPos s 0).z / c.dt
    ∧ idx (HumanoidStandup.step c s act qfrc d).metrics 1
        = -(0.01 * sumSq (scaleAction act c.ctrlRange)) := by
  simp only [HumanoidStandup.step, idx, List.getD_cons_zero, List.getD_cons_succ,
    HumanoidStandup.uphCost, HumanoidStandup.quadCtrlCost, HumanoidStandup.action, sub_zero]
  repeat' constructor
  all_goals first | trivial | rfl | ring | simp

end field

/-! ## non-vacuity: concrete states on both sides of each rule (ℚ) -/
section examples

/-- default hopper configuration (`healthy_z_range = (0.7, ∞)`), `dt = 0.008` -/
def hopperCfg : Hopper.Cfg ℚ :=
  ⟨1, 1/1000, 1, true, some (-100), some 100, some (7/10), none, some (-1/5), some (1/5), true, 1/125⟩
def hopperState (z ang : ℚ) : PState ℚ :=
  ⟨[0, 0, ang, 0, 0, 0], [0, 0, 0, 0, 0, 12], [⟨⟨0, 0, z⟩, Q4.one⟩], [Motion.zero]⟩

theorem hopper_healthy_witness : Hopper.Healthy hopperCfg (hopperState (5/4) (1/10)) := by
  simp [Hopper.Healthy, InOpen, hopperCfg, hopperState, linkPos, link, idx]
  norm_num
/-- the boundary of the z-range is unhealthy (strict inequalities) -/
theorem hopper_unhealthy_witness : ¬ Hopper.Healthy hopperCfg (hopperState (7/10) 0) := by
  simp [Hopper.Healthy, InOpen, hopperCfg, hopperState, linkPos, link, idx]

/-- both sides of `done_iff_unhealthy_hopper` occur -/
example : (Hopper.step hopperCfg (hopperState 1 0) (hopperState (5/4) (1/10)) [1, -1, 0]).done = 0 :=
  (done_iff_unhealthy_hopper _ _ _ _ rfl).2.2 hopper_healthy_witness
example : (Hopper.step hopperCfg (hopperState 1 0) (hopperState (7/10) 0) [1, -1, 0]).done = 1 :=
  (done_iff_unhealthy_hopper _ _ _ _ rfl).1.2 hopper_unhealthy_witness

/-- torso height replaces `q[1]`, `q[0]` is dropped, the velocity 12 is clipped to 10 -/
example : Hopper.obs hopperCfg (hopperState (5/4) (1/10)) = [5/4, 1/10, 0, 0, 0, 0, 0, 0, 0, 0, 10] := by
  simp [Hopper.obs, hopperCfg, hopperState, linkPos, link, clip10, clip]
  norm_num

def antCfg : Ant.Cfg ℚ := ⟨1/2, 1, true, some (1/5), some 1, true, 1/20⟩
def antState (z : ℚ) : PState ℚ :=
  ⟨List.replicate 15 0, List.replicate 14 0, [⟨⟨0, 0, z⟩, Q4.one⟩], [Motion.zero]⟩
/-- the ant's range is closed: the boundary is healthy; below and above are not -/
example : Ant.Healthy antCfg (antState (1/5)) ∧ ¬ Ant.Healthy antCfg (antState (1/10))
    ∧ ¬ Ant.Healthy antCfg (antState (11/10)) := by
  simp [Ant.Healthy, InClosed, antCfg, antState, linkPos, link]
  norm_num

example : (InvertedPendulum.step (⟨[0, 1/4], [0, 0], [], []⟩ : PState ℚ)).done = 1
    ∧ (InvertedPendulum.step (⟨[0, -1/10], [0, 0], [], []⟩ : PState ℚ)).done = 0 := by
  constructor
  · rw [(done_iff_unhealthy_inverted_pendulum _ (by simp)).1]; norm_num [idx]
  · rw [(done_iff_unhealthy_inverted_pendulum _ (by simp)).2]; norm_num [idx, abs_le]

example : scaleAct (1/2 : ℚ) (-3) 3 = 3/2 := by norm_num [scaleAct]
example : scaleAction ([-1, 0, 1] : List ℚ) [(-3, 3), (-2/5, 2/5), (0, 1)] = [-3, 0, 1] := by
  norm_num [scaleAction, scaleAct]

end examples

/-! ## the full property — NOT proved

```
def FullStmt : Prop :=
  ∀ (env ∈ registry) (backend ∈ supported env) (key : PRNGKey) (actions : ℕ → Fin nu → [-1, 1]),
    let traj := rollout (training.wrap (env backend)) key actions
    ∀ t ≤ 1000, Finite (traj t).obs ∧ Finite (traj t).reward ∧ Finite (traj t).q ∧ Finite (traj t).qd
      ∧ ∀ link, ‖(traj t).x.rot link‖ = 1
```
`rollout` contains the three physics pipelines run in IEEE float arithmetic; long-run finiteness of
that iteration is not a theorem of real arithmetic and no model of round-off is attempted
(DESIGN.md section 8).  The proved part is the environment layer above: given ANY pipeline state
the observation has the declared size, `done` follows the documented rule, the reward is the sum of
its terms and the action sent to the actuators is inside the control range.
-/

end Brax.C16
