import Brax.Props.C05
import Brax.Lemmas.C05GenPerm
/-!
# C05, generalized pipeline — mechanically disconnected parts for a WHOLE `pipeline.step`

For the disjoint union `unionSys s1 s2` of two systems (`C05Perm.unionSys`: links of `s1` followed by the
links of `s2`, parent ids of `s2` shifted, dof arrays concatenated, actuator ids of `s2` moved behind the
coordinates of `s1`, options of `s1`), the coordinates `q1 ++ q2`, `qd1 ++ qd2`, the controls `act1 ++ act2`
and the constraint force `qfc1 ++ qfc2`, one `generalized.pipeline.step` of the union is the concatenation of
the two separate steps: new `q`, `qd`, `qdd` concatenated, and the recomputed dynamics terms
(`transform_com` fields concatenated, mass matrix **block diagonal**).

* `generalized_init_components` — `pipeline.init` (`transform_com` + `mass.matrix`) of the union.
* `generalized_massMatrix_block_diagonal` — the mass matrix of the union, for any CoM terms.
* `generalized_step_components_of_solve` — the step, for any state with the shapes `pipeline.init` produces,
  given that the linear solve splits over the two diagonal blocks.
* `generalized_solve_splits` — an exact solve with a unique solution on the union's system splits.
* `generalized_step_components` — the step from the state `pipeline.init` holds, exact + unique solve.
* `exists_exact_solve_split` — the solve hypotheses are satisfiable.

**The constraint force is a parameter** (`qfc` of `Gd.step`, as in `generalized_step_equivariant`): the theorem
says that *if* the union is handed the concatenation of the two constraint forces, it evolves as the two parts
alone.  How the real code computes `qf_constraint` for a merged scene (one projected-gradient solve shared by
all contacts/limits of both parts — the known finding of the components clause for the generalized pipeline)
is outside this theorem; with `qfc = 0` (no contact candidate, no active limit) the statement is unconditional.

Hypotheses, and why each is there:
`s1.WF`, `s2.WF` — array lengths, `-1 ≤ parent i < i` (the scans and the ancestor walk of `mass.matrix` need
"a child comes after its parent"; the ancestor mask is empty across components only then), actuator ids in range
(else `to_tau` of the first part would read coordinates of the second in the union and clamp alone);
`SameGlobalsG` — one merged model has one gravity and one `dt` (the only options a generalized step reads);
`Full` — `q`, `qd` have `q_size`/`qd_size` entries (where the concatenation is split);
`act1.length`, `qfc1.length` — where the control / constraint-force vectors are split;
`hex*`, `hlen*`, `huniq` — `solve` (the model's parameter for `jax.scipy.linalg.solve`) is exact on the two
parts and its result on the union's block system is the unique solution.  Not needed: free roots, unit
quaternions, positive masses, symmetric inertias, non-zero tree masses (division by zero is the same total
function in both scenes), isotropic damping.

Sibling order (second half of this file): only partial results — the leaves→root scans, the ancestor walk and
**the mass matrix** of a relabelled system (`reverse_scan_sibling_permutation`, `ancestors_sibling_permutation`,
`generalized_massMatrix_sibling_order_partial`); the whole relabelled step is proved in `Props/C05GenPerm2.lean` (`generalized_step_sibling_order`; what was missing here is listed
there and in `notes/C05-deepen-genperm.md`).  Whole trajectories of a union: not stated (the step theorem's
output state is again `pipeline.init` of the new coordinates, `generalized_step_components_state`).
-/
set_option linter.unusedSectionVars false
set_option linter.unusedSimpArgs false
set_option linter.unusedVariables false
namespace Brax.C05
section genComponents
open Brax Kin Gd C05G C05GP C05Perm

/-- **C05, generalized pipeline, mechanically disconnected parts, `pipeline.init`**: the CoM-frame terms of
`transform_com` of the union are the concatenations (`root_com` is per tree), the mass matrix is
`diag(M1, M2)` -/
theorem generalized_init_components (s1 s2 : Sys ℝ) (hwf1 : s1.WF = true) (hwf2 : s2.WF = true)
    (q1 q2 qd1 qd2 : List ℝ) (hq : q1.length = s1.nq) (hqd : qd1.length = s1.nv) :
    dynInit (unionSys s1 s2) (q1 ++ q2) (qd1 ++ qd2)
      = unionDyn (dynInit s1 q1 qd1) (dynInit s2 q2 qd2) :=
  dynInit_union s1 s2 (WFParts.of_wf hwf1) (WFParts.of_wf hwf2) q1 q2 qd1 qd2 hq hqd

/-- **the mass matrix of a disjoint union is block diagonal**, for any per-link CoM inertias, dof rows and
armatures: the ancestor mask of `mass.matrix` is empty across components and the composite inertias
(`scan.tree(reverse=True)`) are per tree -/
theorem generalized_massMatrix_block_diagonal (p1 p2 : List Int) (cinr1 cinr2 : List (Inertia ℝ))
    (cdof1 cdof2 : List (List (Motion ℝ))) (arm1 arm2 : List (List ℝ))
    (hC : cinr1.length = p1.length) (hcd : cdof1.length = p1.length) (har : arm1.length = p1.length)
    (hwf1 : PWF p1) (hwf2 : PWF p2) :
    massMatrix (p1 ++ shiftParents p1.length p2) (cinr1 ++ cinr2) (cdof1 ++ cdof2) (arm1 ++ arm2)
      = blockDiag (massMatrix p1 cinr1 cdof1 arm1) (massMatrix p2 cinr2 cdof2 arm2) :=
  massMatrix_union p1 p2 cinr1 cinr2 cdof1 cdof2 arm1 arm2 hC hcd har hwf1 hwf2

/-- **C05, generalized pipeline, mechanically disconnected parts, one whole step, given that the linear solve
splits over the two diagonal blocks** (`hsolve`).  The states are arbitrary `DynState`s with the array shapes
`pipeline.init` produces (`ComShape`); the state of the union is their `unionDyn`. -/
theorem generalized_step_components_of_solve (solve : List (List ℝ) → List ℝ → List ℝ) (s1 s2 : Sys ℝ)
    (hwf1 : s1.WF = true) (hwf2 : s2.WF = true) (hg : SameGlobalsG s1 s2)
    (st1 st2 : DynState ℝ) (hc1 : ComShape s1.types st1.com) (hc2 : ComShape s2.types st2.com)
    (q1 q2 qd1 qd2 act1 act2 qfc1 qfc2 : List ℝ) (hf1 : Full s1 q1 qd1) (hf2 : Full s2 q2 qd2)
    (hact : act1.length = s1.acts.length) (hqfc1 : qfc1.length = s1.nv)
    (hlen1 : (solve (dampedP s1 st1.massMx)
        (List.zipWith (· + ·) (qfSmooth s1 st1 q1 qd1 act1) qfc1)).length = s1.nv)
    (hsolve : solve (dampedU s1 s2 st1.massMx st2.massMx)
        (List.zipWith (· + ·) (qfSmooth s1 st1 q1 qd1 act1) qfc1
          ++ List.zipWith (· + ·) (qfSmooth s2 st2 q2 qd2 act2) qfc2)
      = solve (dampedP s1 st1.massMx) (List.zipWith (· + ·) (qfSmooth s1 st1 q1 qd1 act1) qfc1)
        ++ solve (dampedP s2 st2.massMx) (List.zipWith (· + ·) (qfSmooth s2 st2 q2 qd2 act2) qfc2)) :
    Gd.step solve (unionSys s1 s2) (unionDyn st1 st2) (q1 ++ q2) (qd1 ++ qd2) (act1 ++ act2) (qfc1 ++ qfc2)
      = (((Gd.step solve s1 st1 q1 qd1 act1 qfc1).1.1 ++ (Gd.step solve s2 st2 q2 qd2 act2 qfc2).1.1,
          (Gd.step solve s1 st1 q1 qd1 act1 qfc1).1.2.1 ++ (Gd.step solve s2 st2 q2 qd2 act2 qfc2).1.2.1,
          (Gd.step solve s1 st1 q1 qd1 act1 qfc1).1.2.2 ++ (Gd.step solve s2 st2 q2 qd2 act2 qfc2).1.2.2),
         unionDyn (Gd.step solve s1 st1 q1 qd1 act1 qfc1).2 (Gd.step solve s2 st2 q2 qd2 act2 qfc2).2) :=
  step_union solve s1 s2 (WFParts.of_wf hwf1) (WFParts.of_wf hwf2) hg st1 st2 hc1 hc2 q1 q2 qd1 qd2
    act1 act2 qfc1 qfc2 hf1 hf2 hact hqfc1 hlen1 hsolve

/-- the state `pipeline.init` computes has the shapes `generalized_step_components_of_solve` asks for, and its
mass matrix is square of size `qd_size` -/
theorem generalized_init_shapes (s : Sys ℝ) (hwf : s.WF = true) (q qd : List ℝ) (hf : Full s q qd) :
    ComShape s.types (dynInit s q qd).com ∧ (dynInit s q qd).massMx.length = s.nv
      ∧ ∀ r ∈ (dynInit s q qd).massMx, r.length = s.nv :=
  ⟨comShape_dynInit s (WFParts.of_wf hwf) q qd hf, massMx_square s (WFParts.of_wf hwf) q qd hf⟩

/-- **the reduction of `hsolve` to exactness and uniqueness**: if `solve` returns a solution of each part's
damped system and its result on the union's block-diagonal system is the unique solution, it splits -/
theorem generalized_solve_splits (solve : List (List ℝ) → List ℝ → List ℝ) (s1 s2 : Sys ℝ)
    (hg : SameGlobalsG s1 s2) (M1 M2 : List (List ℝ)) (b1 b2 : List ℝ)
    (hM1 : M1.length = s1.nv) (hr1 : ∀ r ∈ M1, r.length = s1.nv)
    (hM2 : M2.length = s2.nv) (hr2 : ∀ r ∈ M2, r.length = s2.nv)
    (hd1 : s1.dofs.length = s1.nv) (hd2 : s2.dofs.length = s2.nv)
    (hex1 : matVec (dampedP s1 M1) (solve (dampedP s1 M1) b1) = b1)
    (hlen1 : (solve (dampedP s1 M1) b1).length = s1.nv)
    (hex2 : matVec (dampedP s2 M2) (solve (dampedP s2 M2) b2) = b2)
    (hlen2 : (solve (dampedP s2 M2) b2).length = s2.nv)
    (huniq : ∀ y : List ℝ, y.length = s1.nv + s2.nv → matVec (dampedU s1 s2 M1 M2) y = b1 ++ b2 →
      solve (dampedU s1 s2 M1 M2) (b1 ++ b2) = y) :
    solve (dampedU s1 s2 M1 M2) (b1 ++ b2) = solve (dampedP s1 M1) b1 ++ solve (dampedP s2 M2) b2 :=
  solve_split_of_exact solve s1 s2 hg M1 M2 b1 b2 hM1 hr1 hM2 hr2 hd1 hd2 hex1 hlen1 hex2 hlen2 huniq

/-- **C05, generalized pipeline, mechanically disconnected parts, one whole `pipeline.step`** from the state
`pipeline.init` holds (which is also what every `pipeline.step` returns, so the statement iterates), for an
exact linear solve with a unique solution: new `q`, `qd`, `qdd` are the concatenations, the recomputed
dynamics terms are the `unionDyn` (concatenated `transform_com` fields, block-diagonal mass matrix) -/
theorem generalized_step_components (solve : List (List ℝ) → List ℝ → List ℝ) (s1 s2 : Sys ℝ)
    (hwf1 : s1.WF = true) (hwf2 : s2.WF = true) (hg : SameGlobalsG s1 s2)
    (q1 q2 qd1 qd2 act1 act2 qfc1 qfc2 : List ℝ) (hf1 : Full s1 q1 qd1) (hf2 : Full s2 q2 qd2)
    (hact : act1.length = s1.acts.length) (hqfc1 : qfc1.length = s1.nv)
    (hex1 : matVec (dampedP s1 (dynInit s1 q1 qd1).massMx)
        (solve (dampedP s1 (dynInit s1 q1 qd1).massMx)
          (List.zipWith (· + ·) (qfSmooth s1 (dynInit s1 q1 qd1) q1 qd1 act1) qfc1))
      = List.zipWith (· + ·) (qfSmooth s1 (dynInit s1 q1 qd1) q1 qd1 act1) qfc1)
    (hlen1 : (solve (dampedP s1 (dynInit s1 q1 qd1).massMx)
        (List.zipWith (· + ·) (qfSmooth s1 (dynInit s1 q1 qd1) q1 qd1 act1) qfc1)).length = s1.nv)
    (hex2 : matVec (dampedP s2 (dynInit s2 q2 qd2).massMx)
        (solve (dampedP s2 (dynInit s2 q2 qd2).massMx)
          (List.zipWith (· + ·) (qfSmooth s2 (dynInit s2 q2 qd2) q2 qd2 act2) qfc2))
      = List.zipWith (· + ·) (qfSmooth s2 (dynInit s2 q2 qd2) q2 qd2 act2) qfc2)
    (hlen2 : (solve (dampedP s2 (dynInit s2 q2 qd2).massMx)
        (List.zipWith (· + ·) (qfSmooth s2 (dynInit s2 q2 qd2) q2 qd2 act2) qfc2)).length = s2.nv)
    (huniq : ∀ y : List ℝ, y.length = s1.nv + s2.nv →
      matVec (dampedU s1 s2 (dynInit s1 q1 qd1).massMx (dynInit s2 q2 qd2).massMx) y
        = List.zipWith (· + ·) (qfSmooth s1 (dynInit s1 q1 qd1) q1 qd1 act1) qfc1
          ++ List.zipWith (· + ·) (qfSmooth s2 (dynInit s2 q2 qd2) q2 qd2 act2) qfc2 →
      solve (dampedU s1 s2 (dynInit s1 q1 qd1).massMx (dynInit s2 q2 qd2).massMx)
        (List.zipWith (· + ·) (qfSmooth s1 (dynInit s1 q1 qd1) q1 qd1 act1) qfc1
          ++ List.zipWith (· + ·) (qfSmooth s2 (dynInit s2 q2 qd2) q2 qd2 act2) qfc2) = y) :
    Gd.step solve (unionSys s1 s2) (dynInit (unionSys s1 s2) (q1 ++ q2) (qd1 ++ qd2))
        (q1 ++ q2) (qd1 ++ qd2) (act1 ++ act2) (qfc1 ++ qfc2)
      = (((Gd.step solve s1 (dynInit s1 q1 qd1) q1 qd1 act1 qfc1).1.1
            ++ (Gd.step solve s2 (dynInit s2 q2 qd2) q2 qd2 act2 qfc2).1.1,
          (Gd.step solve s1 (dynInit s1 q1 qd1) q1 qd1 act1 qfc1).1.2.1
            ++ (Gd.step solve s2 (dynInit s2 q2 qd2) q2 qd2 act2 qfc2).1.2.1,
          (Gd.step solve s1 (dynInit s1 q1 qd1) q1 qd1 act1 qfc1).1.2.2
            ++ (Gd.step solve s2 (dynInit s2 q2 qd2) q2 qd2 act2 qfc2).1.2.2),
         unionDyn (Gd.step solve s1 (dynInit s1 q1 qd1) q1 qd1 act1 qfc1).2
          (Gd.step solve s2 (dynInit s2 q2 qd2) q2 qd2 act2 qfc2).2) :=
  step_union_exact solve s1 s2 (WFParts.of_wf hwf1) (WFParts.of_wf hwf2) hg q1 q2 qd1 qd2 act1 act2
    qfc1 qfc2 hf1 hf2 hact hqfc1 hex1 hlen1 hex2 hlen2 huniq

/-- the recomputed state of `generalized_step_components` is again `pipeline.init` of the new coordinates of
the union (so the theorem applies to the next step) -/
theorem generalized_step_components_state (solve : List (List ℝ) → List ℝ → List ℝ) (s : Sys ℝ)
    (st : DynState ℝ) (q qd act qfc : List ℝ) :
    (Gd.step solve s st q qd act qfc).2
      = dynInit s (Gd.step solve s st q qd act qfc).1.1 (Gd.step solve s st q qd act qfc).1.2.1 := rfl

/-- **the solve hypotheses `hex1`, `hlen1`, `hex2`, `hlen2`, `huniq` are satisfiable**: whenever the two
parts' systems are solvable and the union's matrix is injective on vectors of the right size, a solve with
the five properties exists -/
theorem exists_exact_solve_split (D1 D2 D12 : List (List ℝ)) (b1 b2 : List ℝ) (n1 n2 : Nat)
    (hD1 : D1.length = n1) (hD2 : D2.length = n2) (hD12 : D12.length = n1 + n2)
    (hsol1 : ∃ y : List ℝ, y.length = n1 ∧ matVec D1 y = b1)
    (hsol2 : ∃ y : List ℝ, y.length = n2 ∧ matVec D2 y = b2)
    (hinj : ∀ y z : List ℝ, y.length = n1 + n2 → z.length = n1 + n2 → matVec D12 y = matVec D12 z → y = z) :
    ∃ solve : List (List ℝ) → List ℝ → List ℝ,
      matVec D1 (solve D1 b1) = b1 ∧ (solve D1 b1).length = n1
      ∧ matVec D2 (solve D2 b2) = b2 ∧ (solve D2 b2).length = n2
      ∧ ∀ y : List ℝ, y.length = n1 + n2 → matVec D12 y = b1 ++ b2 → solve D12 (b1 ++ b2) = y := by
  classical
  refine ⟨fun m c => if h : ∃ y : List ℝ, y.length = m.length ∧ matVec m y = c then Classical.choose h else [],
    ?_, ?_, ?_, ?_, ?_⟩
  · have h : ∃ y : List ℝ, y.length = D1.length ∧ matVec D1 y = b1 := by rw [hD1]; exact hsol1
    simp only [dif_pos h]; exact (Classical.choose_spec h).2
  · have h : ∃ y : List ℝ, y.length = D1.length ∧ matVec D1 y = b1 := by rw [hD1]; exact hsol1
    simp only [dif_pos h]; rw [(Classical.choose_spec h).1, hD1]
  · have h : ∃ y : List ℝ, y.length = D2.length ∧ matVec D2 y = b2 := by rw [hD2]; exact hsol2
    simp only [dif_pos h]; exact (Classical.choose_spec h).2
  · have h : ∃ y : List ℝ, y.length = D2.length ∧ matVec D2 y = b2 := by rw [hD2]; exact hsol2
    simp only [dif_pos h]; rw [(Classical.choose_spec h).1, hD2]
  · intro y hy hyb
    have h' : ∃ z : List ℝ, z.length = D12.length ∧ matVec D12 z = b1 ++ b2 := ⟨y, by rw [hy, hD12], hyb⟩
    simp only [dif_pos h']
    exact hinj _ _ (by rw [(Classical.choose_spec h').1, hD12]) hy
      ((Classical.choose_spec h').2.trans hyb.symm)

/-! ### non-vacuity: two copies of the free root + hinged, motor-driven child (`exSys`): the union is the
4-link model `parents = [-1, 0, -1, 2]` with 14 dofs, actuator ids `(7,6)`, `(15,13)` -/

example :
    let q : List ℝ := [0, 0, 1, 1, 0, 0, 0, 0.3]
    let qd : List ℝ := [0, 0, 0, 0, 0, 0, 0.1]
    let qfc : List ℝ := [0, 0, 0, 0, 0, 0, 0]
    exSys.WF = true ∧ SameGlobalsG exSys exSys ∧ Full exSys q qd
    ∧ ([0.5] : List ℝ).length = exSys.acts.length ∧ qfc.length = exSys.nv
    ∧ (unionSys exSys exSys).parents = [-1, 0, -1, 2]
    ∧ (unionSys exSys exSys).nv = 14
    ∧ (unionSys exSys exSys).acts.map (fun a => (a.qId, a.qdId)) = [(7, 6), (15, 13)]
    -- the splitting hypothesis of `generalized_step_components_of_solve` holds for some solve of the right
    -- output size on this pair (here: the identity on the right-hand side)
    ∧ (∀ (M1 M2 : List (List ℝ)) (b1 b2 : List ℝ),
        (fun (_ : List (List ℝ)) (b : List ℝ) => b) (dampedU exSys exSys M1 M2) (b1 ++ b2)
          = (fun (_ : List (List ℝ)) (b : List ℝ) => b) (dampedP exSys M1) b1
            ++ (fun (_ : List (List ℝ)) (b : List ℝ) => b) (dampedP exSys M2) b2) := by
  intro q qd qfc
  refine ⟨exSys_wf, ⟨rfl, rfl⟩, ⟨?_, ?_, ?_⟩, rfl, ?_, ?_, ?_, ?_, fun _ _ _ _ => rfl⟩
  · simp [q, exSys, Sys.nq, LinkType.qWidth]
  · simp [qd, exSys, Sys.nv, LinkType.qdWidth]
  · simp [exSys, Sys.nv, LinkType.qdWidth]
  · simp [qfc, exSys, Sys.nv, LinkType.qdWidth]
  · simp [unionSys, exSys, Kin.shiftParents, Sys.numLinks]
  · simp [unionSys, exSys, Sys.nv, LinkType.qdWidth]
  · simp [unionSys, exSys, shiftAct, Sys.nq, Sys.nv, LinkType.qWidth, LinkType.qdWidth]

/-- the shapes `generalized_step_components_of_solve` asks of the two states hold for what `pipeline.init`
computes on `exSys` -/
example : ComShape exSys.types (dynInit exSys [0, 0, 1, 1, 0, 0, 0, 0.3] [0, 0, 0, 0, 0, 0, 0.1]).com :=
  (generalized_init_shapes exSys exSys_wf _ _
    ⟨by simp [exSys, Sys.nq, LinkType.qWidth], by simp [exSys, Sys.nv, LinkType.qdWidth],
     by simp [exSys, Sys.nv, LinkType.qdWidth]⟩).1

/-! ## sibling order for the generalized step — partial results

Full statement (proved later as `generalized_step_sibling_order` in `Props/C05GenPerm2.lean`; kept as a comment):
```
-- for `Relabel σ τ s s'` / `DofsRelabel σ s s'` with parents before children in both numberings,
-- `q'`, `qd'`, `act`-ids, `qfc'` the blockwise permutations of `q`, `qd`, …, and an exact + unique solve:
--   Gd.step solve s' (dynInit s' q' qd') q' qd' act qfc'
--     = ((blockPerm σ r.1.1, blockPerm σ r.1.2.1, blockPerm σ r.1.2.2), dynInit s' (blockPerm σ r.1.1) (blockPerm σ r.1.2.1))
--   with r = Gd.step solve s (dynInit s q qd) q qd act qfc
```
Proved below, for every forest and every relabelling `σ` (inverse `τ`) that keeps parents before children in
both numberings — the hypothesis IS needed here, the generalized pipeline scans the tree:
the three Layer-B facts the step rests on besides `scan_sibling_permutation` (root→leaves scans: `cd`, `cdd`,
`kinematics.forward`) — the leaves→root accumulation (`crb`, `cfrc`), the ancestor walk of `mass.matrix` —
and **the mass matrix itself**: its entries are those of the original matrix at the relabelled dofs
(`M' = Π M Πᵀ`), including the composite inertias.
Missing for the full statement: `root_com` under a relabelling (re-indexing of the two `segment_sum`s over
`root_fn`, same technique as `csum_perm`), the blockwise permutation of the flat `q`/`qd`/dof arrays through
`linkSlices` (`DofsRelabel`), the row-by-row stages of `transform_com`/`inverse` (immediate from the above),
`to_tau` with re-indexed actuators (`C05Perm.insAgree_of_flat` is the spring analogue), the integrator's
blockwise `q` update and the transport of the solve hypothesis along `Π`. -/

/-- **sibling order, leaves→root scans** (`crb_fn`, `cfrc_fn`: additive carry): the accumulation of the
relabelled forest is the relabelled accumulation, for any commutative monoid `(add, z)` -/
theorem reverse_scan_sibling_permutation {M : Type} {add : M → M → M} {z : M} (h : CMon add z)
    (n : Nat) (σ τ : Nat → Nat) (hσ : ∀ k, k < n → σ k < n) (hτ : ∀ i, i < n → τ i < n)
    (hτσ : ∀ k, k < n → τ (σ k) = k) (hστ : ∀ i, i < n → σ (τ i) = i)
    (ps : List Int) (hps : ps.length = n) (hwf : PWF ps) (hwf' : PWF (permParents n σ τ ps))
    (as : List M) (has : as.length = n) :
    ∀ k, k < n → (revAcc add (permParents n σ τ ps) (permArgs n σ as z)).getD k z
      = (revAcc add ps as).getD (σ k) z :=
  revAcc_perm n σ τ hσ hτ hτσ hστ ps hps hwf hwf' h as has

/-- **sibling order, the ancestor walk of `mass.matrix`** -/
theorem ancestors_sibling_permutation (n : Nat) (σ τ : Nat → Nat) (hσ : ∀ k, k < n → σ k < n)
    (hτ : ∀ i, i < n → τ i < n) (hτσ : ∀ k, k < n → τ (σ k) = k) (hστ : ∀ i, i < n → σ (τ i) = i)
    (ps : List Int) (hwf : PWF ps) (hwf' : PWF (permParents n σ τ ps)) :
    ∀ k, k < n → ancs (permParents n σ τ ps) k = (ancs ps (σ k)).map τ :=
  ancs_perm n σ τ hσ hτ hτσ hστ ps hwf hwf'

/-- **sibling order, `mass.matrix` (partial result of the sibling-order clause for the generalized step)**:
with the per-link CoM inertias, dof rows and armatures relabelled by `σ`, the entry of the relabelled
system's mass matrix at the dofs `(k, r)`, `(b, s)` is the entry of the original matrix at `(σ k, r)`,
`(σ b, s)`.  The comparison `a < l` that selects "lower triangle, else mirrored" may flip under `σ`, but never
for an ancestor/descendant pair, and every other pair is masked to zero. -/
theorem generalized_massMatrix_sibling_order_partial (n : Nat) (σ τ : Nat → Nat)
    (hσ : ∀ k, k < n → σ k < n) (hτ : ∀ i, i < n → τ i < n)
    (hτσ : ∀ k, k < n → τ (σ k) = k) (hστ : ∀ i, i < n → σ (τ i) = i)
    (ps : List Int) (hps : ps.length = n) (hwf : PWF ps) (hwf' : PWF (permParents n σ τ ps))
    (cinr : List (Inertia ℝ)) (hc : cinr.length = n)
    (cdof : List (List (Motion ℝ))) (arm : List (List ℝ)) (k b r s : Nat) (hk : k < n) (hb : b < n) :
    massEntry (permParents n σ τ ps) (crb (permParents n σ τ ps) (permArgs n σ cinr zI))
        (permArgs n σ cdof []) (permArgs n σ arm []) k r b s
      = massEntry ps (crb ps cinr) cdof arm (σ k) r (σ b) s :=
  massEntry_sibling n σ τ hσ hτ hτσ hστ ps hps hwf hwf' cinr hc cdof arm k b r s hk hb

/-- non-vacuity: swapping the two children of a root keeps parents before children in both numberings -/
example : PWF [-1, 0, 0] ∧ PWF (permParents 3 (fun k => [0, 2, 1].getD k 0)
    (fun i => [0, 2, 1].getD i 0) [-1, 0, 0])
    ∧ (∀ k, k < 3 → (fun k => [0, 2, 1].getD k 0) k < 3)
    ∧ (∀ k, k < 3 → (fun i => [0, 2, 1].getD i 0) ((fun k => [0, 2, 1].getD k 0) k) = k) := by
  have hp : permParents 3 (fun k => [0, 2, 1].getD k 0) (fun i => [0, 2, 1].getD i 0) [-1, 0, 0]
      = [-1, 0, 0] := by
    simp [permParents, List.range_succ]
  have hw : PWF [-1, 0, 0] := by
    intro i
    match i with
    | 0 => simp
    | 1 => simp
    | 2 => simp
    | i + 3 => simp; omega
  refine ⟨hw, by rw [hp]; exact hw, ?_, ?_⟩
  · intro k hk
    match k, hk with
    | 0, _ => simp
    | 1, _ => simp
    | 2, _ => simp
  · intro k hk
    match k, hk with
    | 0, _ => simp
    | 1, _ => simp
    | 2, _ => simp

end genComponents
end Brax.C05
