import Brax.Model.Dual
import Brax.Lemmas.Norm
import Mathlib.Analysis.SpecialFunctions.Trigonometric.InverseDeriv
/-!
# C03 — simulation is differentiable: gradients are finite and correct

A gradient is JAX's program transformation; what *is* brax code are (i) the guards that keep every
derivative expression defined at the singular inputs (zero vectors, coincident anchors, `qd = 0`,
`|x| = 1` for arccos/arcsin) and (ii) the two custom JVP rules.  Proved here, over ℝ:

* inside `safe_norm` the argument of `sqrt` is **strictly positive for every input** (including the
  zero vector), so `d sqrt` is taken away from its singularity; `normalize` divides by a positive
  number; the same for the `ε`-guarded denominators of the pipelines;
* the denominator of the custom JVP rules of `safe_arccos` / `safe_arcsin` is positive for every
  `x` (also `|x| ≥ 1`), and for `|x| ≤ 1 − 1e-7` the rule's tangent **is** the derivative of
  `arccos` / `arcsin`;
* the dual-number scalars (`Model/Dual.lean`) — through which the harness compares the models'
  own forward-mode derivative with `jax.jvp` of the real functions — implement these rules.

Not provable here (stated in DESIGN.md 8): that `jax.grad` of a multi-step rollout equals the
analytic derivative is JAX's correctness; it is covered by the dual-number correspondence and the
finite-difference search only.
-/
set_option linter.unusedSectionVars false
set_option linter.unusedSimpArgs false
namespace Brax.C03
open Brax

/-- sum of squares as `safe_norm` accumulates it -/
theorem foldl_sq_ge (ys : List ℝ) (acc : ℝ) : acc ≤ ys.foldl (fun a y => a + y * y) acc := by
  induction ys generalizing acc with
  | nil => exact le_refl _
  | cons y ys ih =>
    simp only [List.foldl]
    exact le_trans (by nlinarith [mul_self_nonneg y]) (ih _)

theorem foldl_sq_pos_of_mem (ys : List ℝ) (acc : ℝ) (hacc : 0 ≤ acc) (y : ℝ) (hy : y ∈ ys)
    (hne : y ≠ 0) : 0 < ys.foldl (fun a y => a + y * y) acc := by
  induction ys generalizing acc with
  | nil => simp at hy
  | cons z zs ih =>
    simp only [List.foldl]
    rcases List.mem_cons.mp hy with rfl | hmem
    · have : 0 < acc + y * y := by
        have := mul_self_pos.mpr hne
        linarith
      exact lt_of_lt_of_le this (foldl_sq_ge _ _)
    · exact ih _ (by nlinarith [mul_self_nonneg z]) hmem

/-- **`safe_norm`: the argument of `sqrt` is strictly positive for every non-empty input**,
including the zero vector (where the code adds 1 to every component first) -/
theorem safeNorm_sqrt_arg_pos (xs : List ℝ) (hne : xs ≠ []) :
    0 < (if allClose0 xs then xs.map (· + 1) else xs).foldl (fun a y => a + y * y) 0 := by
  by_cases hz : allClose0 xs = true
  · simp only [hz, if_true]
    obtain ⟨x, hx⟩ := List.exists_mem_of_ne_nil xs hne
    have hsmall := (allClose0_iff xs).mp hz x hx
    have hx1 : x + 1 ≠ 0 := by
      have := abs_le.mp hsmall
      norm_num at this
      linarith [this.1]
    exact foldl_sq_pos_of_mem _ 0 (le_refl _) (x + 1) (List.mem_map.mpr ⟨x, hx, rfl⟩) hx1
  · simp only [hz, Bool.false_eq_true, if_false]
    have : ∃ x ∈ xs, ¬ |x| ≤ 1e-8 := by
      by_contra hall
      push_neg at hall
      exact hz ((allClose0_iff xs).mpr hall)
    obtain ⟨x, hx, hbig⟩ := this
    have hx0 : x ≠ 0 := by
      intro h; apply hbig; rw [h]; norm_num
    exact foldl_sq_pos_of_mem xs 0 (le_refl _) x hx hx0

theorem safeNormL_nonneg (xs : List ℝ) : 0 ≤ safeNormL xs := by
  unfold safeNormL
  simp only
  split
  · exact le_refl _
  · exact Real.sqrt_nonneg _

/-- **`normalize` divides by a strictly positive number for every input** -/
theorem normalize_den_pos (xs : List ℝ) :
    0 < (if eqZero (safeNormL xs) then safeNormL xs + 1e-6 else safeNormL xs) := by
  have h := safeNormL_nonneg xs
  by_cases hz : eqZero (safeNormL xs) = true
  · simp only [hz, if_true]
    have : safeNormL xs = 0 := (eqZero_iff _).mp hz
    rw [this]; norm_num
  · simp only [hz, Bool.false_eq_true, if_false]
    have hne : safeNormL xs ≠ 0 := fun h0 => hz ((eqZero_iff _).mpr h0)
    exact lt_of_le_of_ne h (Ne.symm hne)

/-- ε-guarded denominators of the pipelines: a non-negative quantity plus a positive guard
(`w₁+w₂+1e-6` in positional collisions/joints with `mass_inv, i_inv ⪰ 0`; `1e-6 + ‖v‖` in spring
collisions; `num_contacts + 1e-8`; `‖ω‖ + 1e-8` in `_integrate_q_free`) -/
theorem guard_pos (a ε : ℝ) (ha : 0 ≤ a) (hε : 0 < ε) : 0 < a + ε := by linarith

theorem guard_pos_norm (v : List ℝ) : 0 < (1e-6 : ℝ) + Real.sqrt (v.foldl (fun a y => a + y * y) 0) := by
  have := Real.sqrt_nonneg (v.foldl (fun a y => a + y * y) 0)
  linarith [show (0 : ℝ) < 1e-6 by norm_num]

/-- the clipped argument stays strictly inside `(−1, 1)` for **every** `x` -/
theorem safeClip_bounds (x : ℝ) : -(1 - 1e-7) ≤ Dual.safeClip x ∧ Dual.safeClip x ≤ 1 - 1e-7 := by
  unfold Dual.safeClip
  rw [clip_eq]
  constructor
  · refine le_min ?_ (by norm_num)
    exact le_trans (by norm_num) (le_max_right _ _)
  · exact min_le_right _ _

/-- **custom JVP of `safe_arccos`/`safe_arcsin`: the denominator is positive for every `x`**,
also at and beyond `|x| = 1` where the derivative of `arccos` does not exist -/
theorem safe_jvp_den_pos (x : ℝ) : 0 < Real.sqrt (1 - Dual.safeClip x * Dual.safeClip x) := by
  obtain ⟨h1, h2⟩ := safeClip_bounds x
  apply Real.sqrt_pos.mpr
  have : Dual.safeClip x * Dual.safeClip x ≤ (1 - 1e-7) * (1 - 1e-7) := by
    have habs : |Dual.safeClip x| ≤ 1 - 1e-7 := abs_le.mpr ⟨h1, h2⟩
    have := mul_self_le_mul_self (abs_nonneg _) habs
    rwa [abs_mul_abs_self] at this
  norm_num at this ⊢
  linarith

theorem safeClip_of_inside (x : ℝ) (h : |x| ≤ 1 - 1e-7) : Dual.safeClip x = x := by
  unfold Dual.safeClip
  rw [clip_eq]
  obtain ⟨h1, h2⟩ := abs_le.mp h
  rw [max_eq_left (by linarith), min_eq_left h2]

/-- **the `safe_arccos` rule is the derivative of `arccos`** wherever the clip is inactive -/
theorem safeArccos_jvp_correct (x : ℝ) (h : |x| ≤ 1 - 1e-7) :
    HasDerivAt Real.arccos ((HasTrig.acos (⟨x, 1⟩ : Dual ℝ)).du) x := by
  obtain ⟨h1, h2⟩ := abs_le.mp h
  have hx1 : x ≠ -1 := by intro hh; rw [hh] at h1; norm_num at h1
  have hx2 : x ≠ 1 := by intro hh; rw [hh] at h2; norm_num at h2
  have hd := Real.hasDerivAt_arccos hx1 hx2
  have : (HasTrig.acos (⟨x, 1⟩ : Dual ℝ)).du = -(1 / Real.sqrt (1 - x ^ 2)) := by
    show -(1 : ℝ) / HasSqrt.sqrt ((1 : ℝ) - Dual.safeClip x * Dual.safeClip x) = _
    rw [safeClip_of_inside x h]
    simp only [HasSqrt.sqrt]
    rw [show x * x = x ^ 2 by ring]; ring
  rw [this]; exact hd

theorem safeArcsin_jvp_correct (x : ℝ) (h : |x| ≤ 1 - 1e-7) :
    HasDerivAt Real.arcsin ((HasTrig.asin (⟨x, 1⟩ : Dual ℝ)).du) x := by
  obtain ⟨h1, h2⟩ := abs_le.mp h
  have hx1 : x ≠ -1 := by intro hh; rw [hh] at h1; norm_num at h1
  have hx2 : x ≠ 1 := by intro hh; rw [hh] at h2; norm_num at h2
  have hd := Real.hasDerivAt_arcsin hx1 hx2
  have : (HasTrig.asin (⟨x, 1⟩ : Dual ℝ)).du = 1 / Real.sqrt (1 - x ^ 2) := by
    show (1 : ℝ) / HasSqrt.sqrt ((1 : ℝ) - Dual.safeClip x * Dual.safeClip x) = _
    rw [safeClip_of_inside x h]
    simp only [HasSqrt.sqrt]
    rw [show x * x = x ^ 2 by ring]
  rw [this]; exact hd

/-- the tangent of the rule is a real number with a non-zero denominator for every `x`:
the rule never divides by zero -/
theorem safeArccos_jvp_total (x dx : ℝ) :
    (HasTrig.acos (⟨x, dx⟩ : Dual ℝ)).du * Real.sqrt (1 - Dual.safeClip x * Dual.safeClip x) = -dx := by
  show -dx / HasSqrt.sqrt ((1 : ℝ) - Dual.safeClip x * Dual.safeClip x) * _ = _
  simp only [HasSqrt.sqrt]
  rw [div_mul_cancel₀ _ (ne_of_gt (safe_jvp_den_pos x))]

/-- dual-number `sqrt` implements the derivative of `Real.sqrt` at positive arguments — which is
where `safe_norm` evaluates it (`safeNorm_sqrt_arg_pos`) -/
theorem dual_sqrt_correct (x : ℝ) (hx : 0 < x) :
    HasDerivAt Real.sqrt ((HasSqrt.sqrt (⟨x, 1⟩ : Dual ℝ)).du) x := by
  have hd := Real.hasDerivAt_sqrt (ne_of_gt hx)
  have : (HasSqrt.sqrt (⟨x, 1⟩ : Dual ℝ)).du = 1 / (2 * Real.sqrt x) := by
    show (1 : ℝ) / ((1 + 1) * HasSqrt.sqrt x) = _
    simp only [HasSqrt.sqrt]; norm_num
  rw [this]; exact hd

/-- dual numbers implement the product rule (sanity of the `Mul` instance) -/
theorem dual_mul (a b : Dual ℝ) : (a * b).re = a.re * b.re ∧ (a * b).du = a.re * b.du + a.du * b.re :=
  ⟨rfl, rfl⟩

/-- non-vacuity: the zero vector really takes the guarded branch, and `x = 1` the clipped one -/
example : allClose0 ([0, 0, 0] : List ℝ) = true := by
  rw [allClose0_iff]; intro x hx; simp at hx; subst hx; norm_num
example : Dual.safeClip (1 : ℝ) = 1 - 1e-7 := by
  unfold Dual.safeClip; rw [clip_eq]; norm_num

end Brax.C03
