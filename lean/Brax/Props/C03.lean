import Brax.Model.Dual
import Brax.Lemmas.Norm
import Brax.Lemmas.C03Sound
import Brax.Lemmas.C03Forest
import Mathlib.Analysis.SpecialFunctions.Trigonometric.InverseDeriv
/-!
# C03 — simulation is differentiable: gradients are finite and correct

A gradient is JAX's program transformation; what *is* brax code are (i) the guards that keep every
derivative expression defined at the singular inputs (zero vectors, coincident anchors, `qd = 0`,
`|x| = 1` for arccos/arcsin) and (ii) the two custom JVP rules.  Proved here, over ℝ:

* inside `safe_norm` the argument of `sqrt` is **strictly positive for every input** (including the
  zero vector), so `d sqrt` is taken away from its singularity; `normalize` divides by a positive
  number; the same for the `ε`-guarded denominators of the pipelines;
* the denominator of the custom JVP rules of `safe_arccos` / `safe_arcsin` is positive for every
  `x` (also `|x| ≥ 1`), and for `|x| ≤ 1 − 1e-7` the rule's tangent **is** the derivative of
  `arccos` / `arcsin`;
* the dual-number scalars (`Model/Dual.lean`) — through which the harness compares the models'
  own forward-mode derivative with `jax.jvp` of the real functions — implement these rules.

Not provable here (stated in DESIGN.md 8): that `jax.grad` of a multi-step rollout equals the
analytic derivative is JAX's correctness; it is covered by the dual-number correspondence and the
finite-difference search only.
-/
set_option linter.unusedSectionVars false
set_option linter.unusedSimpArgs false
namespace Brax.C03
open Brax

/-- sum of squares as `safe_norm` accumulates it -/
theorem foldl_sq_ge (ys : List ℝ) (acc : ℝ) : acc ≤ ys.foldl (fun a y => a + y * y) acc := by
  induction ys generalizing acc with
  | nil => exact le_refl _
  | cons y ys ih =>
    simp only [List.foldl]
    exact le_trans (by nlinarith [mul_self_nonneg y]) (ih _)

theorem foldl_sq_pos_of_mem (ys : List ℝ) (acc : ℝ) (hacc : 0 ≤ acc) (y : ℝ) (hy : y ∈ ys)
    (hne : y ≠ 0) : 0 < ys.foldl (fun a y => a + y * y) acc := by
  induction ys generalizing acc with
  | nil => simp at hy
  | cons z zs ih =>
    simp only [List.foldl]
    rcases List.mem_cons.mp hy with rfl | hmem
    · have : 0 < acc + y * y := by
        have := mul_self_pos.mpr hne
        linarith
      exact lt_of_lt_of_le this (foldl_sq_ge _ _)
    · exact ih _ (by nlinarith [mul_self_nonneg z]) hmem

/-- **`safe_norm`: the argument of `sqrt` is strictly positive for every non-empty input**,
including the zero vector (where the code adds 1 to every component first) -/
theorem safeNorm_sqrt_arg_pos (xs : List ℝ) (hne : xs ≠ []) :
    0 < (if allClose0 xs then xs.map (· + 1) else xs).foldl (fun a y => a + y * y) 0 := by
  by_cases hz : allClose0 xs = true
  · simp only [hz, if_true]
    obtain ⟨x, hx⟩ := List.exists_mem_of_ne_nil xs hne
    have hsmall := (allClose0_iff xs).mp hz x hx
    have hx1 : x + 1 ≠ 0 := by
      have := abs_le.mp hsmall
      norm_num at this
      linarith [this.1]
    exact foldl_sq_pos_of_mem _ 0 (le_refl _) (x + 1) (List.mem_map.mpr ⟨x, hx, rfl⟩) hx1
  · simp only [hz, Bool.false_eq_true, if_false]
    have : ∃ x ∈ xs, ¬ |x| ≤ 1e-8 := by
      by_contra hall
      push_neg at hall
      exact hz ((allClose0_iff xs).mpr hall)
    obtain ⟨x, hx, hbig⟩ := this
    have hx0 : x ≠ 0 := by
      intro h; apply hbig; rw [h]; norm_num
    exact foldl_sq_pos_of_mem xs 0 (le_refl _) x hx hx0

theorem safeNormL_nonneg (xs : List ℝ) : 0 ≤ safeNormL xs := by
  unfold safeNormL
  simp only
  split
  · exact le_refl _
  · exact Real.sqrt_nonneg _

/-- **`normalize` divides by a strictly positive number for every input** -/
theorem normalize_den_pos (xs : List ℝ) :
    0 < (if eqZero (safeNormL xs) then safeNormL xs + 1e-6 else safeNormL xs) := by
  have h := safeNormL_nonneg xs
  by_cases hz : eqZero (safeNormL xs) = true
  · simp only [hz, if_true]
    have : safeNormL xs = 0 := (eqZero_iff _).mp hz
    rw [this]; norm_num
  · simp only [hz, Bool.false_eq_true, if_false]
    have hne : safeNormL xs ≠ 0 := fun h0 => hz ((eqZero_iff _).mpr h0)
    exact lt_of_le_of_ne h (Ne.symm hne)

/-- ε-guarded denominators of the pipelines: a non-negative quantity plus a positive guard
(`w₁+w₂+1e-6` in positional collisions/joints with `mass_inv, i_inv ⪰ 0`; `1e-6 + ‖v‖` in spring
collisions; `num_contacts + 1e-8`; `‖ω‖ + 1e-8` in `_integrate_q_free`) -/
theorem guard_pos (a ε : ℝ) (ha : 0 ≤ a) (hε : 0 < ε) : 0 < a + ε := by linarith

theorem guard_pos_norm (v : List ℝ) : 0 < (1e-6 : ℝ) + Real.sqrt (v.foldl (fun a y => a + y * y) 0) := by
  have := Real.sqrt_nonneg (v.foldl (fun a y => a + y * y) 0)
  linarith [show (0 : ℝ) < 1e-6 by norm_num]

/-- the clipped argument stays strictly inside `(−1, 1)` for **every** `x` -/
theorem safeClip_bounds (x : ℝ) : -(1 - 1e-7) ≤ Dual.safeClip x ∧ Dual.safeClip x ≤ 1 - 1e-7 := by
  unfold Dual.safeClip
  rw [clip_eq]
  constructor
  · refine le_min ?_ (by norm_num)
    exact le_trans (by norm_num) (le_max_right _ _)
  · exact min_le_right _ _

/-- **custom JVP of `safe_arccos`/`safe_arcsin`: the denominator is positive for every `x`**,
also at and beyond `|x| = 1` where the derivative of `arccos` does not exist -/
theorem safe_jvp_den_pos (x : ℝ) : 0 < Real.sqrt (1 - Dual.safeClip x * Dual.safeClip x) := by
  obtain ⟨h1, h2⟩ := safeClip_bounds x
  apply Real.sqrt_pos.mpr
  have : Dual.safeClip x * Dual.safeClip x ≤ (1 - 1e-7) * (1 - 1e-7) := by
    have habs : |Dual.safeClip x| ≤ 1 - 1e-7 := abs_le.mpr ⟨h1, h2⟩
    have := mul_self_le_mul_self (abs_nonneg _) habs
    rwa [abs_mul_abs_self] at this
  norm_num at this ⊢
  linarith

theorem safeClip_of_inside (x : ℝ) (h : |x| ≤ 1 - 1e-7) : Dual.safeClip x = x := by
  unfold Dual.safeClip
  rw [clip_eq]
  obtain ⟨h1, h2⟩ := abs_le.mp h
  rw [max_eq_left (by linarith), min_eq_left h2]

/-- **the `safe_arccos` rule is the derivative of `arccos`** wherever the clip is inactive -/
theorem safeArccos_jvp_correct (x : ℝ) (h : |x| ≤ 1 - 1e-7) :
    HasDerivAt Real.arccos ((HasTrig.acos (⟨x, 1⟩ : Dual ℝ)).du) x := by
  obtain ⟨h1, h2⟩ := abs_le.mp h
  have hx1 : x ≠ -1 := by intro hh; rw [hh] at h1; norm_num at h1
  have hx2 : x ≠ 1 := by intro hh; rw [hh] at h2; norm_num at h2
  have hd := Real.hasDerivAt_arccos hx1 hx2
  have : (HasTrig.acos (⟨x, 1⟩ : Dual ℝ)).du = -(1 / Real.sqrt (1 - x ^ 2)) := by
    show -(1 : ℝ) / HasSqrt.sqrt ((1 : ℝ) - Dual.safeClip x * Dual.safeClip x) = _
    rw [safeClip_of_inside x h]
    simp only [HasSqrt.sqrt]
    rw [show x * x = x ^ 2 by ring]; ring
  rw [this]; exact hd

theorem safeArcsin_jvp_correct (x : ℝ) (h : |x| ≤ 1 - 1e-7) :
    HasDerivAt Real.arcsin ((HasTrig.asin (⟨x, 1⟩ : Dual ℝ)).du) x := by
  obtain ⟨h1, h2⟩ := abs_le.mp h
  have hx1 : x ≠ -1 := by intro hh; rw [hh] at h1; norm_num at h1
  have hx2 : x ≠ 1 := by intro hh; rw [hh] at h2; norm_num at h2
  have hd := Real.hasDerivAt_arcsin hx1 hx2
  have : (HasTrig.asin (⟨x, 1⟩ : Dual ℝ)).du = 1 / Real.sqrt (1 - x ^ 2) := by
    show (1 : ℝ) / HasSqrt.sqrt ((1 : ℝ) - Dual.safeClip x * Dual.safeClip x) = _
    rw [safeClip_of_inside x h]
    simp only [HasSqrt.sqrt]
    rw [show x * x = x ^ 2 by ring]
  rw [this]; exact hd

/-- the tangent of the rule is a real number with a non-zero denominator for every `x`:
the rule never divides by zero -/
theorem safeArccos_jvp_total (x dx : ℝ) :
    (HasTrig.acos (⟨x, dx⟩ : Dual ℝ)).du * Real.sqrt (1 - Dual.safeClip x * Dual.safeClip x) = -dx := by
  show -dx / HasSqrt.sqrt ((1 : ℝ) - Dual.safeClip x * Dual.safeClip x) * _ = _
  simp only [HasSqrt.sqrt]
  rw [div_mul_cancel₀ _ (ne_of_gt (safe_jvp_den_pos x))]

/-- dual-number `sqrt` implements the derivative of `Real.sqrt` at positive arguments — which is
where `safe_norm` evaluates it (`safeNorm_sqrt_arg_pos`) -/
theorem dual_sqrt_correct (x : ℝ) (hx : 0 < x) :
    HasDerivAt Real.sqrt ((HasSqrt.sqrt (⟨x, 1⟩ : Dual ℝ)).du) x := by
  have hd := Real.hasDerivAt_sqrt (ne_of_gt hx)
  have : (HasSqrt.sqrt (⟨x, 1⟩ : Dual ℝ)).du = 1 / (2 * Real.sqrt x) := by
    show (1 : ℝ) / ((1 + 1) * HasSqrt.sqrt x) = _
    simp only [HasSqrt.sqrt]; norm_num
  rw [this]; exact hd

/-- dual numbers implement the product rule (sanity of the `Mul` instance) -/
theorem dual_mul (a b : Dual ℝ) : (a * b).re = a.re * b.re ∧ (a * b).du = a.re * b.du + a.du * b.re :=
  ⟨rfl, rfl⟩

/-- non-vacuity: the zero vector really takes the guarded branch, and `x = 1` the clipped one -/
example : allClose0 ([0, 0, 0] : List ℝ) = true := by
  rw [allClose0_iff]; intro x hx; simp at hx; subst hx; norm_num
example : Dual.safeClip (1 : ℝ) = 1 - 1e-7 := by
  unfold Dual.safeClip; rw [clip_eq]; norm_num

end Brax.C03

/-!
# C03 (deepening) — forward-mode AD over `Dual ℝ` is SOUND

Proved in `Brax/Lemmas/C03Sound.lean`, restated here.  `Sound d t` means
`HasDerivAt (fun u => (d u).re) (d t).du t`: the tangent part of the dual-valued curve `d` at `t`
is the derivative of its value part.

General statement (NOT proved in this generality — it is a parametricity theorem over all models):
  for every model function `f` written over the raw operator classes, and every sound input curve,
  `u ↦ f_{Dual ℝ}(x u)` is sound wherever every `sqrt`/`/`/`atan2`/`acos`/`asin` argument is in
  the domain of differentiability and every comparison is decided by a strict inequality.
Proved: the closure lemmas for every operator of `Dual`, and their composition on the concrete
model functions below, up to one and two links of `Kin.forward` and the tree scan of
`Kin.forward` for every forest.
-/
namespace Brax.C03
open Brax Filter Topology

/-- **closure of soundness under every operator instance of `Model/Dual.lean`**, each under the
side condition the real derivative needs -/
theorem dual_closure (a b : ℝ → Dual ℝ) (t : ℝ) (ha : Sound a t) (hb : Sound b t) :
    (∀ c : ℝ, Sound (fun _ => ⟨c, 0⟩) t) ∧ Sound (fun u => ⟨u, 1⟩) t
    ∧ Sound (fun u => a u + b u) t ∧ Sound (fun u => a u - b u) t ∧ Sound (fun u => a u * b u) t
    ∧ Sound (fun u => -a u) t
    ∧ ((b t).re ≠ 0 → Sound (fun u => a u / b u) t)
    ∧ (0 < (a t).re → Sound (fun u => HasSqrt.sqrt (a u)) t)
    ∧ Sound (fun u => HasTrig.sin (a u)) t ∧ Sound (fun u => HasTrig.cos (a u)) t
    ∧ ((0 < (b t).re ∨ (a t).re ≠ 0) → Sound (fun u => HasTrig.atan2 (a u) (b u)) t)
    ∧ (|(a t).re| ≤ 1 - 1e-7 → Sound (fun u => HasTrig.acos (a u)) t)
    ∧ (|(a t).re| ≤ 1 - 1e-7 → Sound (fun u => HasTrig.asin (a u)) t)
    ∧ Sound (fun u => HasExp.exp (a u)) t
    ∧ ((a t).re ≠ 0 → Sound (fun u => HasExp.log (a u)) t)
    ∧ Sound (fun u => HasExp.tanh (a u)) t :=
  ⟨fun c => Sound.const c, Sound.id, ha.add hb, ha.sub hb, ha.mul hb, ha.neg,
   fun h => ha.div hb h, fun h => ha.sqrt h, ha.sin, ha.cos, fun h => Sound.atan2 ha hb h,
   fun h => ha.acos h, fun h => ha.asin h, ha.exp, fun h => ha.log h, ha.tanh⟩

/-- **`jp.where(x < y, a, b)` / `x ≤ y`** is sound when both the compared values are sound and the
decision is made by a strict inequality at `t` (an open condition); only the taken branch needs to
be sound -/
theorem dual_closure_ite (x y a b : ℝ → Dual ℝ) (t : ℝ) (hx : Sound x t) (hy : Sound y t) :
    ((x t).re < (y t).re → Sound a t → Sound (fun u => if x u < y u then a u else b u) t)
    ∧ ((y t).re < (x t).re → Sound b t → Sound (fun u => if x u < y u then a u else b u) t)
    ∧ ((x t).re < (y t).re → Sound a t → Sound (fun u => if x u ≤ y u then a u else b u) t)
    ∧ ((y t).re < (x t).re → Sound b t → Sound (fun u => if x u ≤ y u then a u else b u) t) :=
  ⟨fun h ha => Sound.ite_lt_true hx hy ha h, fun h hb => Sound.ite_lt_false hx hy hb h,
   fun h ha => Sound.ite_le_true hx hy ha h, fun h hb => Sound.ite_le_false hx hy hb h⟩

/-- any locally constant decision (e.g. the `Bool`s `allClose0`, `eqZero` of the models) -/
theorem dual_closure_ite_eventually (a b : ℝ → Dual ℝ) (t : ℝ) (c : ℝ → Prop) [DecidablePred c] :
    ((∀ᶠ u in 𝓝 t, c u) → Sound a t → Sound (fun u => if c u then a u else b u) t)
    ∧ ((∀ᶠ u in 𝓝 t, ¬ c u) → Sound b t → Sound (fun u => if c u then a u else b u) t) :=
  ⟨fun h ha => Sound.ite_of_eventually_true ha h, fun h hb => Sound.ite_of_eventually_false hb h⟩

/-- `Gen.quatMul`, `Gen.rotate` (generated from the source; polynomial): for all inputs the tangent
of the dual-number run is the derivative of the real run -/
theorem gen_quatMul_rotate_tangent_is_derivative (p q : ℝ → Q4 (Dual ℝ)) (v : ℝ → V3 (Dual ℝ))
    (t : ℝ) (hp : SoundQ4 p t) (hq : SoundQ4 q t) (hv : SoundV3 v t) :
    DerivQ4 (fun u => Gen.quatMul (reQ4 (p u)) (reQ4 (q u))) (duQ4 (Gen.quatMul (p t) (q t))) t
    ∧ DerivV3 (fun u => Gen.rotate (reV3 (v u)) (reQ4 (q u))) (duV3 (Gen.rotate (v t) (q t))) t :=
  ⟨gen_quatMul_deriv hp hq, gen_rotate_deriv hv hq⟩

/-- `math.normalize` under its guard: value part = real run for every input; tangent = derivative
whenever some component has `|xᵢ| > 1e-8` at `t` -/
theorem normalize_tangent_is_derivative (q : ℝ → Q4 (Dual ℝ)) (v : ℝ → V3 (Dual ℝ)) (t : ℝ)
    (hq : SoundQ4 q t) (hv : SoundV3 v t)
    (hgq : allClose0 [(q t).w.re, (q t).x.re, (q t).y.re, (q t).z.re] = false)
    (hgv : allClose0 [(v t).x.re, (v t).y.re, (v t).z.re] = false) :
    DerivQ4 (fun u => normalize4 (reQ4 (q u))) (duQ4 (normalize4 (q t))) t
    ∧ DerivV3 (fun u => normalize3 (reV3 (v u))) (duV3 (normalize3 (v t))) t := by
  have h1 := (SoundQ4.normalize4 hq hgq).deriv
  have h2 := (SoundV3.normalize3 hv hgv).deriv
  simp only [reQ4_normalize4] at h1
  simp only [reV3_normalize3] at h2
  exact ⟨h1, h2⟩

/-- **`jcalc` of one hinge dof: for every `q`, `qd` the dual-number tangent is the derivative of
the model w.r.t. `q`** (unit axis; the general guard form is `jcalcDof_tangent_is_derivative`) -/
theorem jcalc_hinge_tangent_is_derivative (d : DofP ℝ) (q qd : ℝ)
    (ha : V3.dot d.motion.ang d.motion.ang = 1) :
    DerivTf (fun u => (Kin.jcalcDof d u qd).1) (duTf (Kin.jcalcDof (cDof d) (var q) (cR qd)).1) q
    ∧ DerivMotion (fun u => (Kin.jcalcDof d u qd).2)
        (duMotion (Kin.jcalcDof (cDof d) (var q) (cR qd)).2) q :=
  jcalcDof_hinge_tangent_is_derivative d q qd ha

/-- **one link of `kinematics.forward`** (one-dof root; guards explicit) -/
theorem forward_one_link_tangent_is_derivative (s : Sys ℝ) (lk : LinkP ℝ) (d : DofP ℝ) (q qd : ℝ)
    (ht : s.types = [.one]) (hp : s.parents = [-1]) (hl : s.links = [lk]) (hd : s.dofs = [d])
    (hg1 : let r := quatRotAxis d.motion.ang q; allClose0 [r.w, r.x, r.y, r.z] = false)
    (hg2 : let r := (link1 none lk d q qd).1.rot; allClose0 [r.w, r.x, r.y, r.z] = false) :
    ∃ X : Tf (Dual ℝ) × Motion (Dual ℝ), ∃ x : ℝ → Tf ℝ × Motion ℝ,
      Kin.forward (cSys s) [var q] [cR qd] = [X] ∧ (∀ u, Kin.forward s [u] [qd] = [x u])
      ∧ reTM X = x q ∧ DerivTM x (duTM X) q :=
  forward_single_tangent_is_derivative s lk d q qd ht hp hl hd hg1 hg2

/-- **one hinge link, unit link rotation: no side condition** -/
theorem forward_one_hinge_tangent_is_derivative (s : Sys ℝ) (lk : LinkP ℝ) (d : DofP ℝ) (q qd : ℝ)
    (ht : s.types = [.one]) (hp : s.parents = [-1]) (hl : s.links = [lk]) (hd : s.dofs = [d])
    (ha : V3.dot d.motion.ang d.motion.ang = 1) (hr : lk.tf.rot.IsUnit) :
    ∃ X : Tf (Dual ℝ) × Motion (Dual ℝ), ∃ x : ℝ → Tf ℝ × Motion ℝ,
      Kin.forward (cSys s) [var q] [cR qd] = [X] ∧ (∀ u, Kin.forward s [u] [qd] = [x u])
      ∧ reTM X = x q ∧ DerivTM x (duTM X) q :=
  forward_hinge_tangent_is_derivative s lk d q qd ht hp hl hd ha hr

/-- **two hinges in a chain, derivative w.r.t. the root angle (moves both links)** -/
theorem forward_two_hinges_tangent_is_derivative (s : Sys ℝ) (l0 l1 : LinkP ℝ) (d0 d1 : DofP ℝ)
    (q0 q1 qd0 qd1 : ℝ)
    (ht : s.types = [.one, .one]) (hp : s.parents = [-1, 0]) (hl : s.links = [l0, l1])
    (hd : s.dofs = [d0, d1])
    (ha0 : V3.dot d0.motion.ang d0.motion.ang = 1) (ha1 : V3.dot d1.motion.ang d1.motion.ang = 1)
    (hr0 : l0.tf.rot.IsUnit) (hr1 : l1.tf.rot.IsUnit) :
    ∃ X0 X1 : Tf (Dual ℝ) × Motion (Dual ℝ), ∃ x0 x1 : ℝ → Tf ℝ × Motion ℝ,
      Kin.forward (cSys s) [var q0, cR q1] [cR qd0, cR qd1] = [X0, X1]
      ∧ (∀ u, Kin.forward s [u, q1] [qd0, qd1] = [x0 u, x1 u])
      ∧ DerivTM x0 (duTM X0) q0 ∧ DerivTM x1 (duTM X1) q0 :=
  forward_chain2_hinge_tangent_is_derivative s l0 l1 d0 d1 q0 q1 qd0 qd1 ht hp hl hd ha0 ha1 hr0 hr1

/-- **every forest**: `kinematics.forward` run at `Dual ℝ` yields sound curves whenever the
per-link joint data (`jointOf` = `jcalc` + placement) are sound curves and the final `normalize`s
are off their `allclose` ball -/
theorem forward_sound_every_forest (s : Sys (Dual ℝ)) (q qd : ℝ → List (Dual ℝ)) (t : ℝ)
    (args : List (ℝ → Tf (Dual ℝ) × Motion (Dual ℝ)))
    (hjj : ∀ u, (s.links.zip (Kin.linkSlices s.types (q u) (qd u) s.dofs)).map jointOf
      = args.map (· u))
    (hs : ∀ a ∈ args, SoundTM a t)
    (hg : ∀ r ∈ Kin.scanFwd worldFn s.parents args,
      let p := reQ4 (r t).1.rot; allClose0 [p.w, p.x, p.y, p.z] = false) :
    ∃ res : List (ℝ → Tf (Dual ℝ) × Motion (Dual ℝ)),
      (∀ u, Kin.forward s (q u) (qd u) = res.map (· u)) ∧ ∀ r ∈ res, SoundTM r t :=
  forward_sound_of_joints s q qd args hjj hs hg

/-- non-vacuity: `exSys` (one z-axis hinge, identity link transform) satisfies every hypothesis of
`forward_one_hinge_tangent_is_derivative`; so the conclusion holds for it at every `q`, `qd` -/
example (q qd : ℝ) : ∃ X : Tf (Dual ℝ) × Motion (Dual ℝ), ∃ x : ℝ → Tf ℝ × Motion ℝ,
    Kin.forward (cSys exSys) [var q] [cR qd] = [X] ∧ (∀ u, Kin.forward exSys [u] [qd] = [x u])
    ∧ reTM X = x q ∧ DerivTM x (duTM X) q :=
  forward_one_hinge_tangent_is_derivative exSys exLink exDof q qd rfl rfl rfl rfl
    (by norm_num [exDof, V3.dot]) Q4.isUnit_one
/-- non-vacuity of the closure hypotheses: the seed and constants are sound -/
example (t : ℝ) : Sound (fun u => (⟨u, 1⟩ : Dual ℝ) * ⟨u, 1⟩ + ⟨3, 0⟩) t :=
  (Sound.id.mul Sound.id).add (Sound.const 3)

end Brax.C03

/-!
# C03 (deepening 2) — the dual-number derivative of `kinematics.forward` is sound for EVERY forest

Proved in `Brax/Lemmas/C03Forest.lean`, restated here.  `s` is any system over ℝ — any number of links,
any parents list, free links and stacks of any number of hinge/slide dofs — lifted to `Dual ℝ` with
zero tangents (`cSys`, the ℝ twin of `Model/C03.lean`'s lifting).  `dualOf q δq` are the dual inputs
`⟨q_i, δq_i⟩`, `lineOf q δq u` is the real line `q + u·δq`.

Hypothesis `ADOK s q qd` (every `(link, slice)` satisfies `LinkAD`), all at the base state only:
  * the link transform's rotation is a unit quaternion;
  * a free link's slice is well-formed (7 + 6 entries) with a unit quaternion;
  * every dof of a hinge/slide stack has `normalize(quat_rot_axis(axis, q))` off the `allclose` ball
    (`DofGuard`): holds for **every** `q` when the axis is a unit vector (hinge, `dofGuard_of_hinge`);
    for a slide (`axis = 0`) it reads `|cos(q/2)| > 1e-8` (`dofGuard_of_slide`).  This one is really
    needed: at `|cos(q/2)| = 1e-8` the model's `normalize` jumps (from `±1` to `±1e-2`), so the real
    `Kin.forward` is not differentiable there.
It is implied by C01's `KinOK` (`forward_tangent_is_derivative_of_kinOK`).  The final-`normalize`
guards of every link are **discharged**: all world rotations are unit quaternions
(`forward_unit_rotations`), by induction over the tree scan.
-/
namespace Brax.C03
open Brax

/-- **value part = the real run, unconditionally**: for every system, state and tangent, the value
parts of `Kin.forward` run at `Dual ℝ` are `Kin.forward` run at ℝ -/
theorem forward_value_is_real_forward (s : Sys ℝ) (Q QD : List (Dual ℝ)) :
    (Kin.forward (cSys s) Q QD).map reTM = Kin.forward s (Q.map Dual.re) (QD.map Dual.re) :=
  re_forward s Q QD

/-- **unit rotations propagate through the whole tree** (discharges every final-`normalize` guard) -/
theorem forward_unit_rotations (s : Sys ℝ) (q qd : List ℝ) (hok : ADOK s q qd) :
    ∀ x ∈ Kin.scanFwd Kin.world s.parents
      ((s.links.zip (Kin.linkSlices s.types q qd s.dofs)).map jointOf), x.1.rot.IsUnit :=
  forward_rot_isUnit s q qd hok

/-- **C03 for `kinematics.forward`, every forest, every direction.**  The dual-number run on
`⟨q_i, δq_i⟩`, `⟨qd_i, δqd_i⟩` has value part `Kin.forward s q qd` and, link by link (position,
rotation, angular and linear velocity, componentwise), tangent part = the derivative at `u = 0` of
`u ↦ Kin.forward s (q + u·δq) (qd + u·δqd)`. -/
theorem forward_tangent_is_derivative (s : Sys ℝ) (q qd δq δqd : List ℝ)
    (hq : δq.length = q.length) (hqd : δqd.length = qd.length) (hok : ADOK s q qd) :
    ∃ xs : List (ℝ → Tf ℝ × Motion ℝ),
      (∀ u, Kin.forward s (lineOf q δq u) (lineOf qd δqd u) = xs.map (· u))
      ∧ (Kin.forward (cSys s) (dualOf q δq) (dualOf qd δqd)).map reTM = Kin.forward s q qd
      ∧ List.Forall₂ (fun X x => reTM X = x 0 ∧ DerivTM x (duTM X) 0)
          (Kin.forward (cSys s) (dualOf q δq) (dualOf qd δqd)) xs :=
  forward_directional_derivative s q qd δq δqd hq hqd hok

/-- the same for an arbitrary dual-valued state (value parts = state, tangent parts = direction) -/
theorem forward_tangent_is_derivative_dual_state (s : Sys ℝ) (Q QD : List (Dual ℝ))
    (hok : ADOK s (Q.map Dual.re) (QD.map Dual.re)) :
    ∃ xs : List (ℝ → Tf ℝ × Motion ℝ),
      (∀ u, Kin.forward s (Q.map (line u)) (QD.map (line u)) = xs.map (· u))
      ∧ List.Forall₂ (fun X x => reTM X = x 0 ∧ DerivTM x (duTM X) 0)
          (Kin.forward (cSys s) Q QD) xs :=
  forward_tangent_is_derivative_dual s Q QD hok

/-- per link: the `i`-th output of the dual run carries the value and the directional derivative of
the `i`-th link of the real run -/
theorem forward_tangent_is_derivative_link (s : Sys ℝ) (q qd δq δqd : List ℝ)
    (hq : δq.length = q.length) (hqd : δqd.length = qd.length) (hok : ADOK s q qd)
    (i : Nat) (X : Tf (Dual ℝ) × Motion (Dual ℝ))
    (hX : (Kin.forward (cSys s) (dualOf q δq) (dualOf qd δqd))[i]? = some X) :
    ∃ x : ℝ → Tf ℝ × Motion ℝ,
      (∀ u, (Kin.forward s (lineOf q δq u) (lineOf qd δqd u))[i]? = some (x u))
      ∧ (Kin.forward s q qd)[i]? = some (reTM X) ∧ x 0 = reTM X ∧ DerivTM x (duTM X) 0 :=
  forward_directional_derivative_link s q qd δq δqd hq hqd hok i X hX

/-- from the hypotheses of C01 (`KinOK`, spelled out) for a system with as many parents as types -/
theorem forward_tangent_is_derivative_of_kinOK (s : Sys ℝ) (q qd δq δqd : List ℝ)
    (hq : δq.length = q.length) (hqd : δqd.length = qd.length)
    (hp : s.parents.length = s.types.length)
    (hok : ∀ x ∈ s.parents.zip (s.links.zip (Kin.linkSlices s.types q qd s.dofs)),
      KinPos.LinkOK x.1 x.2.1 x.2.2) :
    ∃ xs : List (ℝ → Tf ℝ × Motion ℝ),
      (∀ u, Kin.forward s (lineOf q δq u) (lineOf qd δqd u) = xs.map (· u))
      ∧ (Kin.forward (cSys s) (dualOf q δq) (dualOf qd δqd)).map reTM = Kin.forward s q qd
      ∧ List.Forall₂ (fun X x => reTM X = x 0 ∧ DerivTM x (duTM X) 0)
          (Kin.forward (cSys s) (dualOf q δq) (dualOf qd δqd)) xs :=
  forward_directional_derivative_of_kinOK s q qd δq δqd hq hqd hp hok

/-- the hinge / slide forms of the per-dof guard -/
theorem dof_guard_hinge_slide (ang : V3 ℝ) (q : ℝ) :
    (V3.dot ang ang = 1 → DofGuard ang q) ∧ ((1e-8 : ℝ) < |Real.cos (q / 2)| → DofGuard ⟨0, 0, 0⟩ q) :=
  ⟨dofGuard_of_hinge ang q, dofGuard_of_slide q⟩

/-- non-vacuity: `exSysF` — a free root (unit quaternion (0,1,0,0)), a child with a 2-dof stack
(hinge about z, slide along x; rotated, offset body, anchor (0,1,0)) and a grandchild hinge about
(0, 3/5, 4/5) — satisfies `ADOK` at `exQF`, `exQdF`; so the theorem holds on it for every direction -/
example : ADOK exSysF exQF exQdF := exSysF_ADOK
example (δq δqd : List ℝ) (hq : δq.length = 10) (hqd : δqd.length = 9) :
    ∃ xs : List (ℝ → Tf ℝ × Motion ℝ),
      (∀ u, Kin.forward exSysF (lineOf exQF δq u) (lineOf exQdF δqd u) = xs.map (· u))
      ∧ (Kin.forward (cSys exSysF) (dualOf exQF δq) (dualOf exQdF δqd)).map reTM
          = Kin.forward exSysF exQF exQdF
      ∧ List.Forall₂ (fun X x => reTM X = x 0 ∧ DerivTM x (duTM X) 0)
          (Kin.forward (cSys exSysF) (dualOf exQF δq) (dualOf exQdF δqd)) xs :=
  forward_tangent_is_derivative exSysF exQF exQdF δq δqd hq hqd exSysF_ADOK

end Brax.C03

/-!
# C03 (deepening 2, part 2) — further instances on the generated functions of `Brax/Gen/Math.lean`

For each: (P) the value part of the dual run is the function at ℝ — for every input; (S) the tangent
part is the derivative, under the side condition the function genuinely needs.
-/
namespace Brax.C03
open Brax

/-- **`Gen.normalize4` / `Gen.normalize3`** (the generated `where`-arithmetic form
`x / (n + 1e-6·[n == 0])`, `n = sqrt(Σ(xᵢ+z)²)·(1−z)`, `z = [allclose(x, 0)]`): off the `allclose`
ball the tangent of the dual run is the derivative of the real run -/
theorem gen_normalize_tangent_is_derivative (q : ℝ → Q4 (Dual ℝ)) (v : ℝ → V3 (Dual ℝ)) (t : ℝ)
    (hq : SoundQ4 q t) (hv : SoundV3 v t)
    (hgq : allClose0 [(q t).w.re, (q t).x.re, (q t).y.re, (q t).z.re] = false)
    (hgv : allClose0 [(v t).x.re, (v t).y.re, (v t).z.re] = false) :
    DerivQ4 (fun u => Gen.normalize4 (reQ4 (q u))) (duQ4 (Gen.normalize4 (q t))) t
    ∧ DerivV3 (fun u => Gen.normalize3 (reV3 (v u))) (duV3 (Gen.normalize3 (v t))) t :=
  ⟨gen_normalize4_deriv hq hgq, gen_normalize3_deriv hv hgv⟩

/-- **`Gen.safeNorm4` / `Gen.safeNorm3`**: value part for every input; sound off the ball -/
theorem gen_safeNorm_tangent_is_derivative (q : ℝ → Q4 (Dual ℝ)) (v : ℝ → V3 (Dual ℝ)) (t : ℝ)
    (hq : SoundQ4 q t) (hv : SoundV3 v t)
    (hgq : allClose0 [(q t).w.re, (q t).x.re, (q t).y.re, (q t).z.re] = false)
    (hgv : allClose0 [(v t).x.re, (v t).y.re, (v t).z.re] = false) :
    (∀ p : Q4 (Dual ℝ), (Gen.safeNorm4 p).re = Gen.safeNorm4 (reQ4 p))
    ∧ (∀ p : V3 (Dual ℝ), (Gen.safeNorm3 p).re = Gen.safeNorm3 (reV3 p))
    ∧ Sound (fun u => Gen.safeNorm4 (q u)) t ∧ Sound (fun u => Gen.safeNorm3 (v u)) t :=
  ⟨re_gen_safeNorm4, re_gen_safeNorm3, Sound.gen_safeNorm4 hq hgq, Sound.gen_safeNorm3 hv hgv⟩

/-- (P) for the generated `normalize`, every input (both branches of both `where`s) -/
theorem gen_normalize_value_is_real (p : Q4 (Dual ℝ)) (w : V3 (Dual ℝ)) :
    reQ4 (Gen.normalize4 p) = Gen.normalize4 (reQ4 p) ∧ reV3 (Gen.normalize3 w) = Gen.normalize3 (reV3 w) :=
  ⟨reQ4_gen_normalize4 p, reV3_gen_normalize3 w⟩

/-- **`Gen.quatTo3x3`**: sound wherever the quaternion is non-zero (the only division is by `|q|²`) -/
theorem gen_quatTo3x3_tangent_is_derivative (q : ℝ → Q4 (Dual ℝ)) (t : ℝ) (hq : SoundQ4 q t)
    (hn : (q t).w.re * (q t).w.re + (q t).x.re * (q t).x.re + (q t).y.re * (q t).y.re
      + (q t).z.re * (q t).z.re ≠ 0) :
    DerivM3 (fun u => Gen.quatTo3x3 (reQ4 (q u))) (duM3 (Gen.quatTo3x3 (q t))) t :=
  gen_quatTo3x3_deriv hq hn

/-- **`Gen.signedAngle`** `= atan2((p × c)·axis, p·c)`: sound off the branch cut of `atan2` -/
theorem gen_signedAngle_tangent_is_derivative (ax p c : ℝ → V3 (Dual ℝ)) (t : ℝ)
    (hax : SoundV3 ax t) (hp : SoundV3 p t) (hc : SoundV3 c t)
    (h : 0 < V3.dot (reV3 (p t)) (reV3 (c t))
      ∨ V3.dot (V3.cross (reV3 (p t)) (reV3 (c t))) (reV3 (ax t)) ≠ 0) :
    HasDerivAt (fun u => Gen.signedAngle (reV3 (ax u)) (reV3 (p u)) (reV3 (c u)))
      (Gen.signedAngle (ax t) (p t) (c t)).du t :=
  gen_signedAngle_deriv hax hp hc h

/-- **`Gen.fromTo`**, strictly off its switching surface on the generic side (`1 + v1·v2 > 1e-6`):
no other side condition.  (P) holds for every input. -/
theorem gen_fromTo_tangent_is_derivative (v1 v2 : ℝ → V3 (Dual ℝ)) (t : ℝ)
    (h1 : SoundV3 v1 t) (h2 : SoundV3 v2 t)
    (hfar : (1e-6 : ℝ) < 1 + V3.dot (reV3 (v1 t)) (reV3 (v2 t))) :
    (∀ a b : V3 (Dual ℝ), reQ4 (Gen.fromTo a b) = Gen.fromTo (reV3 a) (reV3 b))
    ∧ DerivQ4 (fun u => Gen.fromTo (reV3 (v1 u)) (reV3 (v2 u))) (duQ4 (Gen.fromTo (v1 t) (v2 t))) t :=
  ⟨reQ4_gen_fromTo, gen_fromTo_deriv h1 h2 hfar⟩

/-- non-vacuity: the guards are satisfiable (a unit quaternion / unit vector; orthogonal unit
vectors for `from_to`; `p = c` for `signed_angle`) -/
example : allClose0 [(1 : ℝ), 0, 0, 0] = false ∧ allClose0 [(0 : ℝ), 0, 1] = false := by
  constructor <;> (rw [Bool.eq_false_iff]; intro hc; rw [allClose0_iff] at hc
                   have := hc 1 (by simp); norm_num at this)
example : (1e-6 : ℝ) < 1 + V3.dot (⟨1, 0, 0⟩ : V3 ℝ) ⟨0, 1, 0⟩ := by norm_num [V3.dot]
example : 0 < V3.dot (⟨1, 0, 0⟩ : V3 ℝ) ⟨1, 0, 0⟩ := by norm_num [V3.dot]

end Brax.C03

namespace Brax.C03
open Brax

/-- **the slide guard `|cos(q/2)| > 1e-8` of `ADOK` is necessary**: there is a slide coordinate `q₀`
with `cos(q₀/2) = 1e-8` at which the joint rotation that `jcalc` computes for a slide dof (rotation
axis `0`) is discontinuous in `q` (it jumps from `1` to `1e-2`), so no derivative exists there -/
theorem slide_guard_is_needed (d : DofP ℝ) (h : d.motion.ang = ⟨0, 0, 0⟩) (qd : ℝ) :
    ∃ q0 : ℝ, Real.cos (q0 / 2) = 1e-8
      ∧ ¬ ContinuousAt (fun q => (Kin.jcalcDof d q qd).1.rot.w) q0 := by
  obtain ⟨q0, h0, hc⟩ := slide_guard_needed
  refine ⟨q0, h0, ?_⟩
  have e : (fun q => (Kin.jcalcDof d q qd).1.rot.w) = slideW := by
    funext q; exact jcalcDof_slide_rot_w d h q qd
  rw [e]; exact hc

end Brax.C03
