import Brax.Props.C15
import Brax.Lemmas.C07
import Brax.Lemmas.Real
import Mathlib.Tactic.NormNum
/-!
# C07 — Batching and compilation are transparent; batch members are independent

**Full statement** (properties.jsonl): resetting or stepping a batch of simulations or environments
under `vmap` gives every member the same result as running that member alone; `jit` agrees with
eager evaluation to round-off; changing the state, action or seed of *other* members never changes a
member's result, also across episode boundaries handled by the training wrappers.

```
def C07Stmt : Prop :=
  ∀ (f : brax function) (batch : Array Input) (i < batch.size),
    (jax.jit (jax.vmap f) batch)[i] ≈ f batch[i]   ∧   jax.jit f x ≈ f x
```

This is **not** a theorem about brax alone: that `jax.vmap` maps and `jax.jit` preserves meaning is the
contract of JAX/XLA (trusted base, DESIGN.md 4, 8).  What is proved here is the part that is about
*brax's own code*, namely that the code is written so that the contract applies member by member:

* `wrappers_*` — the training wrappers as written over arrays with a leading batch axis (explicit
  `jp.where`, `jp.sum(axis=0)`, `done` reshaped to `[B,1,…]`) equal the `List.map` of the
  single-member wrappers, for every inner environment and history (proved in `Props/C15.lean`,
  restated), and therefore member `i` does not depend on the keys and actions of the others
  (`wrappers_other_members_irrelevant`, new);
* `where_done_*` — the `[B,1,…,1]` broadcast of `AutoResetWrapper.where_done` gives member `i` its own
  snapshot iff its own flag is set, for leaves of **any rank** and whole pytrees (new; C15 models the
  `[B, n]` observation leaf only: `whereDoneRows_is_rank1` shows that is the rank-1 instance);
* `*B_eq_map` — the whole-argument reductions of the physics code (`allclose` in `safe_norm`, `any` in
  `orthogonals` and in the 1-dof branch of `link_to_joint_frame`), batched primitive by primitive as
  `vmap` does (one flag per member), equal the map of the member function;
* `*Whole_not_independent` — the negative: the same code with the reduction taken over the whole
  batched array (a hand-vectorised or mis-batched implementation) is **not** member-independent;
  concrete rational batches.  The harness replays these witnesses on the real `jax.vmap` (which must
  give the per-member value) and on every generator model with a member placed at the singular input.

Only *tied* (observed by `harness/corr_C07.py`, not proved): batching of the physics pipelines as a
whole, `DomainRandomizationVmapWrapper` (`vmap` with `in_axes`), `jit ≡ eager`.
-/
set_option linter.unusedSectionVars false
set_option linter.unusedVariables false
namespace Brax.C07
open Brax.C15

/-! ## the training wrappers (proved in C15, restated) -/
section wrappers
variable {K P X R A : Type}
variable [CommRing R] [LinearOrder R] [IsStrictOrderedRing R]

/-- `VmapWrapper → EpisodeWrapper → AutoResetWrapper` (and `EvalWrapper` on top) as written on
batched arrays = the stacked single-member runs.  (`C15.batched_wrappers_eq_map`) -/
theorem wrappers_batched_eq_map (env : BEnv K P X R A) (n : Nat)
    (hreset : ∀ k, (env.reset k).obs.length = n) (hstep : ∀ s a, (env.step s a).obs.length = n)
    (L r : Nat) (ks : List K) (hist : List (List A)) (hshape : ∀ as ∈ hist, as.length = ks.length) :
    bRun env L r ks hist = BArSt.stack (memberRuns env L r ks hist) ∧
    bEvRun env L r ks hist = BEvSt.stack (memberEvRuns env L r ks hist) :=
  batched_wrappers_eq_map env n hreset hstep L r ks hist hshape

/-- member `i` of the member-wise runs is the solo run on key `i` and action column `i`.
(`C15.batched_member_independent`) -/
theorem wrappers_member_is_solo (env : BEnv K P X R A) (L r : Nat) (ks : List K)
    (hist : List (List A)) (i : Nat) (k : K) (col : List A) (hk : ks[i]? = some k)
    (hcol : hist.map (·[i]?) = col.map some) :
    (memberRuns env L r ks hist)[i]? = some (run env L r k col) ∧
    (memberEvRuns env L r ks hist)[i]? = some (evRun env L r k col) :=
  batched_member_independent env L r ks hist i k col hk hcol

/-- batched `actor_step` = stacked member-wise `actor_step`.  (`C15.batched_actor_step_eq_map`) -/
theorem actor_step_batched_eq_map {Ky : Type} (env : BEnv K P X R A) (n : Nat)
    (hstep : ∀ s a, (env.step s a).obs.length = n) (L r : Nat) (π : List R → Ky → A) (key : Ky)
    (l : List (ArSt P (List R) X R)) (hl : ∀ s ∈ l, s.firstObs.length = n ∧ s.obs.length = n) :
    bActorStep bArView (bArStep env L r) (fun obs k => obs.map (π · k)) (BArSt.stack l) key
      = (BArSt.stack (l.map fun s => (actorStep arView (arStep env L r) π s key).1),
         BTransition.stack (l.map fun s => (actorStep arView (arStep env L r) π s key).2)) :=
  batched_actor_step_eq_map env n hstep L r π key l hl

/-- **Member independence of the wrapped environment.**  Two batched runs — different batch sizes
allowed, any keys, actions and termination patterns of the *other* members — in which member `i`
has the same reset key and the same action column: both are stacks of member states whose `i`-th
entry is the solo run of that member; in particular the `i`-th entries coincide, at every point
of the history, across all episode boundaries. -/
theorem wrappers_other_members_irrelevant (env : BEnv K P X R A) (n : Nat)
    (hreset : ∀ k, (env.reset k).obs.length = n) (hstep : ∀ s a, (env.step s a).obs.length = n)
    (L r : Nat) (ks ks' : List K) (hist hist' : List (List A))
    (hshape : ∀ as ∈ hist, as.length = ks.length) (hshape' : ∀ as ∈ hist', as.length = ks'.length)
    (i : Nat) (k : K) (col : List A) (hk : ks[i]? = some k) (hk' : ks'[i]? = some k)
    (hcol : hist.map (·[i]?) = col.map some) (hcol' : hist'.map (·[i]?) = col.map some) :
    ∃ ms ms' es es',
      bRun env L r ks hist = BArSt.stack ms ∧ bRun env L r ks' hist' = BArSt.stack ms' ∧
      bEvRun env L r ks hist = BEvSt.stack es ∧ bEvRun env L r ks' hist' = BEvSt.stack es' ∧
      ms[i]? = some (run env L r k col) ∧ ms'[i]? = some (run env L r k col) ∧
      es[i]? = some (evRun env L r k col) ∧ es'[i]? = some (evRun env L r k col) := by
  have h := batched_wrappers_eq_map env n hreset hstep L r ks hist hshape
  have h' := batched_wrappers_eq_map env n hreset hstep L r ks' hist' hshape'
  have m := batched_member_independent env L r ks hist i k col hk hcol
  have m' := batched_member_independent env L r ks' hist' i k col hk' hcol'
  exact ⟨_, _, _, _, h.1, h'.1, h.2, h'.2, m.1, m'.1, m.2, m'.2⟩

end wrappers

/-! ## `where_done` for leaves of any rank -/
section wheredone
variable {α : Type}

/-- `where_done(x, y)` on a leaf of rank `k+1` — the `done` vector reshaped to `[B, 1, …, 1]`,
numpy-broadcast against `x`, element-wise `jp.where` — is the member-wise selection: member `i`
gets all of `x[i]` if `done[i]` and all of `y[i]` otherwise.  Any rank `k`, any (even ragged)
member shapes as long as `x` and `y` have the same shape. -/
theorem where_done_eq_select (k : Nat) (d : List Bool) (x y : List (Tensor α k))
    (hd : d.length = x.length) (hxy : AllRel (SameShape k) x y) :
    whereDone k d x y = selectMember d x y := by
  unfold whereDone
  rw [bcastLike_lead k d x hd]
  exact zw3_whereT_rows k d x y hxy

/-- member `i` of the result is a function of `done[i]`, `x[i]`, `y[i]` alone -/
theorem where_done_member (k : Nat) (d : List Bool) (x y : List (Tensor α k))
    (hd : d.length = x.length) (hxy : AllRel (SameShape k) x y) (i : Nat) :
    (whereDone k d x y)[i]? = (match d[i]?, x[i]?, y[i]? with
      | some di, some xi, some yi => some (if di then xi else yi)
      | _, _, _ => none) := by
  rw [where_done_eq_select k d x y hd hxy, selectMember, zw3_getElem?]
  cases d[i]? <;> cases x[i]? <;> cases y[i]? <;> rfl

/-- … hence two batches that agree on member `i` (flag, snapshot, current value) agree on member
`i` of the restored leaf, whatever the other members' flags and values are -/
theorem where_done_member_independent (k : Nat) (d d' : List Bool) (x y x' y' : List (Tensor α k))
    (hd : d.length = x.length) (hxy : AllRel (SameShape k) x y)
    (hd' : d'.length = x'.length) (hxy' : AllRel (SameShape k) x' y') (i : Nat)
    (h1 : d[i]? = d'[i]?) (h2 : x[i]? = x'[i]?) (h3 : y[i]? = y'[i]?) :
    (whereDone k d x y)[i]? = (whereDone k d' x' y')[i]? := by
  rw [where_done_member k d x y hd hxy, where_done_member k d' x' y' hd' hxy', h1, h2, h3]

/-- the same for a whole pytree (`jax.tree.map(where_done, first_pipeline_state, pipeline_state)`):
every leaf of the result, whatever its rank, is the member-wise selection -/
theorem tree_where_done_eq_select (d : List Bool) (t : List (LeafPair α))
    (hd : ∀ l ∈ t, d.length = l.first.length) (hxy : ∀ l ∈ t, AllRel (SameShape l.k) l.first l.cur) :
    treeWhereDone d t = t.map fun l => ⟨l.k, selectMember d l.first l.cur⟩ := by
  unfold treeWhereDone
  apply List.map_congr_left
  intro l hl
  rw [where_done_eq_select l.k d l.first l.cur (hd l hl) (hxy l hl)]

/-- the `[B, n]` observation broadcast of the C15 model (`whereDoneRows`) is the rank-1 instance
of `whereDone` -/
theorem whereDoneRows_is_rank1 (d : List Bool) (x y : List (List α)) (hd : d.length = x.length) :
    whereDoneRows d x y = whereDone (α := α) 1 d x y := by
  unfold whereDone whereDoneRows
  rw [bcastLike_lead 1 d x hd]
  show zw3 where3 _ x y = zw3 (whereT 1) _ x y
  congr 1
  rw [List.zipWith_map_left]
  apply List.zipWith_congr
  induction d generalizing x with
  | nil =>
    cases x with
    | nil => exact List.Forall₂.nil
    | cons _ _ => simp at hd
  | cons d0 ds ih =>
    cases x with
    | nil => simp at hd
    | cons x0 xs =>
      refine List.Forall₂.cons ?_ (ih xs (by simpa using hd))
      exact (bcastLike_row d0 x0).symm

/-- the negative: a mask reduced over the batch (`jp.where(done.any(), x, y)`) hands member 0 its
snapshot because *another* member is done -/
theorem where_done_any_not_independent :
    (whereDoneAny [false, false] [(10 : Int), 20] [1, 2])[0]? ≠
    (whereDoneAny [false, true] [(10 : Int), 20] [1, 2])[0]? := by decide

end wheredone

/-! ## one reduction inside a member function: the general shape -/
section red
variable {α β : Type}

/-- batched primitive by primitive (flags `[B]` first, then row-wise with the flags broadcast)
= the member function mapped over the batch -/
theorem vmapRed_eq_map (red : List α → Bool) (f : Bool → List α → β) (xs : List (List α)) :
    vmapRed red f xs = xs.map (withRed red f) := by
  unfold vmapRed withRed
  exact zipWith_map_self f red xs

/-- … so member `i` of the batched result depends on row `i` only -/
theorem vmapRed_member_independent (red : List α → Bool) (f : Bool → List α → β)
    (xs xs' : List (List α)) (i : Nat) (h : xs[i]? = xs'[i]?) :
    (vmapRed red f xs)[i]? = (vmapRed red f xs')[i]? := by
  rw [vmapRed_eq_map, vmapRed_eq_map, List.getElem?_map, List.getElem?_map, h]

/-- the reduction taken over the whole batch is not member-independent as soon as some row `x`
sits at a point where the flag matters and another member can flip the flag -/
theorem wholeRed_not_independent (red : List α → Bool) (f : Bool → List α → β) (x w w' : List α)
    (hr : red (x ++ w) = true) (hr' : red (x ++ w') = false) (hf : f true x ≠ f false x) :
    (wholeRed red f [x, w])[0]? ≠ (wholeRed red f [x, w'])[0]? := by
  simp only [wholeRed, List.flatten_cons, List.flatten_nil, List.append_nil, List.map_cons,
    List.getElem?_cons_zero, hr, hr', ne_eq, Option.some.injEq]
  exact hf

end red

/-! ## `safe_norm`, `normalize`, `orthogonals`, the 1-dof joint frame: batched = map -/
section real
variable {α : Type} [Zero α] [One α] [Add α] [Sub α] [Mul α] [Neg α] [Div α]
  [LT α] [DecidableLT α] [LE α] [DecidableLE α] [OfScientific α] [HasSqrt α]

/-- `vmap(safe_norm)` written primitive by primitive (`allclose` reduced per row) is `safe_norm`
mapped over the rows; over any scalar type (ℚ, ℝ, floats) -/
theorem safeNormB_eq_map (xs : List (List α)) : safeNormB xs = xs.map safeNormL := by
  unfold safeNormB
  simp only [zipWith_map_self, List.map_map, Function.comp_def, zipWith_map_map']
  rfl

/-- the same for `normalize`: both outputs -/
theorem normalizeB_eq_map (xs : List (List α)) :
    normalizeB xs = (xs.map fun x => (normalizeL x).1, xs.map fun x => (normalizeL x).2) := by
  unfold normalizeB
  simp only [safeNormB_eq_map, List.map_map, Function.comp_def, zipWith_self_map]
  rfl

/-- the hand model of `normalize` on 3-vectors used by the other layers is this `normalizeL` -/
theorem normalize3_eq_normalizeL (v : V3 α) :
    V3.toL (normalize3 v) = (normalizeL (V3.toL v)).1 := rfl

/-- `vmap(orthogonals)` with `jp.any` reduced per row = `orthogonals` mapped over the rows -/
theorem orthogonalsB_eq_map (as : List (V3 α)) : orthogonalsB as = as.map orthogonals := by
  unfold orthogonalsB
  simp only [List.map_map, Function.comp_def, zipWith_map_map', zipWith_self_map]
  rfl

/-- the 1-dof frame of `link_to_joint_frame` with `.any()` reduced per row = map -/
theorem frame1B_eq_map (as : List (V3 α)) : frame1B as = as.map frame1 := by
  unfold frame1B
  simp only [orthogonalsB_eq_map, zipWith_self_map, zipWith_map_map']
  rfl

/-- segment sums under `vmap` are per member (definitional) -/
theorem segSumB_member {β : Type} [Zero β] [Add β] (n : Nat) (idss : List (List Int))
    (valss : List (List β)) (i : Nat) :
    (segSumB n idss valss)[i]? = (match idss[i]?, valss[i]? with
      | some ids, some vals => some (segSum n ids vals)
      | _, _ => none) := by
  unfold segSumB
  rw [List.getElem?_zipWith]
  cases idss[i]? <;> cases valss[i]? <;> rfl

end real

/-! ## the negative: reductions over the whole batch are not member-independent (ℚ) -/

/-- `jp.allclose(x, 0.0)` over the batched array: member 0 = `(1e-9, 0, 0)` is "zero" next to a
zero member and "non-zero" next to the member `(1, 0, 0)` -/
theorem allclose_whole_flips :
    allClose0 (([1e-9, 0, 0] ++ [0, 0, 0] : List Rat)) = true ∧
    allClose0 (([1e-9, 0, 0] ++ [1, 0, 0] : List Rat)) = false ∧
    allClose0 ([1e-9, 0, 0] : List Rat) = true := by
  refine ⟨?_, ?_, ?_⟩ <;> norm_num [allClose0, absv_eq_abs, abs_le]

/-- `safe_norm` with the whole-batch `allclose`: the norm reported for member 0 = `(1e-9, 0, 0)`
is `0` next to a zero member and `sqrt(1e-18)` next to `(1, 0, 0)` — for **any** square-root
function that is positive on positive numbers -/
theorem safeNormWhole_not_independent (sq : HasSqrt Rat)
    (hpos : ∀ x : Rat, 0 < x → 0 < HasSqrt.sqrt x) :
    (safeNormWhole ([[1e-9, 0, 0], [0, 0, 0]] : List (List Rat)))[0]? ≠
    (safeNormWhole ([[1e-9, 0, 0], [1, 0, 0]] : List (List Rat)))[0]? := by
  apply wholeRed_not_independent allClose0 safeNormWith _ _ _ allclose_whole_flips.1
    allclose_whole_flips.2.1
  have h := hpos ((0 + 1e-9 * 1e-9 + 0 * 0 + 0 * 0 : Rat)) (by norm_num)
  simp only [safeNormWith, if_true, Bool.false_eq_true, if_false, List.foldl_cons, List.foldl_nil]
  exact (ne_of_gt h).symm

/-- while the batched-by-primitive version gives member 0 the same value in both batches -/
theorem safeNormB_independent_witness (sq : HasSqrt Rat) :
    (safeNormB ([[1e-9, 0, 0], [0, 0, 0]] : List (List Rat)))[0]? =
    (safeNormB ([[1e-9, 0, 0], [1, 0, 0]] : List (List Rat)))[0]? := by
  rw [safeNormB_eq_map, safeNormB_eq_map]; rfl

/-- `orthogonals` with `jp.any` over the whole batch: the zero axis of member 0 gets `b = 0` next
to a zero member and `b = normalize((0,1,0)) ≠ 0` next to the member `(1, 0, 0)`; for **every**
square-root function -/
theorem orthogonalsWhole_not_independent (sq : HasSqrt Rat) :
    (orthogonalsWhole ([⟨0, 0, 0⟩, ⟨0, 0, 0⟩] : List (V3 Rat)))[0]? ≠
    (orthogonalsWhole ([⟨0, 0, 0⟩, ⟨1, 0, 0⟩] : List (V3 Rat)))[0]? := by
  have hf : anyNZ (([⟨0, 0, 0⟩, ⟨0, 0, 0⟩] : List (V3 Rat)).map V3.toL).flatten = false := by decide
  have ht : anyNZ (([⟨0, 0, 0⟩, ⟨1, 0, 0⟩] : List (V3 Rat)).map V3.toL).flatten = true := by decide
  unfold orthogonalsWhole
  rw [hf, ht]
  simp only [List.map_cons, List.getElem?_cons_zero, ne_eq,
    Option.some.injEq, orthoWith, Bool.false_eq_true, if_false, if_true, Prod.mk.injEq, not_and]
  intro h
  exfalso
  have hy := congrArg V3.y h
  have hpre : orthoPre (⟨0, 0, 0⟩ : V3 Rat) = ⟨0, 1, 0⟩ := by
    simp only [orthoPre, V3.dot]; norm_num
  rw [hpre] at hy
  simp only [V3.zero, normalize3] at hy
  -- hy : 0 = 1 / d with d ≠ 0
  set n := safeNorm3 (⟨0, 1, 0⟩ : V3 Rat) with hn
  by_cases h0 : eqZero n = true
  · rw [if_pos h0, (eqZero_iff n).mp h0] at hy
    norm_num at hy
  · rw [if_neg h0] at hy
    have : n ≠ 0 := fun e => h0 ((eqZero_iff n).mpr e)
    have : (1 : Rat) / n ≠ 0 := one_div_ne_zero this
    exact this hy.symm

/-- the 1-dof joint frame with `.any()` over the whole batch: the zero axis of member 0 gets
`eye(3)` next to a zero member and the degenerate frame with first row `(0,0,0)` next to the member
`(1, 0, 0)`; for every square-root function -/
theorem frame1Whole_not_independent (sq : HasSqrt Rat) :
    (frame1Whole ([⟨0, 0, 0⟩, ⟨0, 0, 0⟩] : List (V3 Rat)))[0]? ≠
    (frame1Whole ([⟨0, 0, 0⟩, ⟨1, 0, 0⟩] : List (V3 Rat)))[0]? := by
  have hf : anyNZ (([⟨0, 0, 0⟩, ⟨0, 0, 0⟩] : List (V3 Rat)).map V3.toL).flatten = false := by decide
  have ht : anyNZ (([⟨0, 0, 0⟩, ⟨1, 0, 0⟩] : List (V3 Rat)).map V3.toL).flatten = true := by decide
  unfold frame1Whole
  rw [hf, ht]
  simp only [List.map_cons, List.getElem?_cons_zero, ne_eq,
    Option.some.injEq, frame1With, Bool.false_eq_true, if_false, if_true, eye3]
  intro h
  have := congrArg (fun m : M3 Rat => m.r0.x) h
  norm_num at this

/-- a segment sum over the flattened `[B, contacts]` arrays adds member 1's contact impulses to
member 0's links -/
theorem segSumFlat_not_independent :
    (segSumFlat 2 [[0, 1], [0, 0]] [[(1 : Int), 2], [0, 0]])[0]? ≠
    (segSumFlat 2 [[0, 1], [0, 0]] [[(1 : Int), 2], [3, 4]])[0]? ∧
    (segSumB 2 [[0, 1], [0, 0]] [[(1 : Int), 2], [0, 0]])[0]? =
    (segSumB 2 [[0, 1], [0, 0]] [[(1 : Int), 2], [3, 4]])[0]? := by decide

/-! ## non-vacuity -/

/-- a rank-3 leaf (`[B, 2, 2]`), `B = 3`, flags `[true, false, true]`: the literal broadcast
computes the member-wise selection; hypotheses of `where_done_eq_select` hold -/
example :
    let x : List (Tensor Int 2) := [[[1, 2], [3, 4]], [[5, 6], [7, 8]], [[9, 10], [11, 12]]]
    let y : List (Tensor Int 2) := [[[-1, -2], [-3, -4]], [[-5, -6], [-7, -8]], [[-9, -10], [-11, -12]]]
    whereDone 2 [true, false, true] x y = [[[1, 2], [3, 4]], [[-5, -6], [-7, -8]], [[9, 10], [11, 12]]] ∧
    AllRel (SameShape 2) x y ∧ [true, false, true].length = x.length := by
  refine ⟨by decide, ?_, rfl⟩
  simp only [AllRel, SameShape, and_self]

/-- a batch of one member (`B = 1`, where the leading axis of the mask is itself a singleton) and a
rank-1 leaf (`[B]`, e.g. a scalar per member) -/
example : whereDone (α := Int) 1 [true] [[1, 2, 3]] [[4, 5, 6]] = [[1, 2, 3]] ∧
    whereDone (α := Int) 0 [false, true] [1, 2] [3, 4] = [3, 2] := by decide

/-- there are square-root functions on ℚ meeting the hypothesis of `safeNormWhole_not_independent`
(the identity is positive on positive numbers); over ℝ the real square root does -/
example : ∃ sq : HasSqrt Rat, ∀ x : Rat, 0 < x → 0 < sq.sqrt x := ⟨⟨id⟩, fun _ h => h⟩
example : ∀ x : ℝ, 0 < x → 0 < HasSqrt.sqrt x := fun _ h => Real.sqrt_pos.mpr h

/-- the hypotheses of `wholeRed_not_independent` are met by `allclose`/`safe_norm` on ℚ with the
identity as "square root" (values: `0` against `1e-18`) -/
example :
    letI : HasSqrt Rat := ⟨id⟩
    (safeNormWhole ([[1e-9, 0, 0], [0, 0, 0]] : List (List Rat)))[0]? = some (0 : Rat) ∧
    (safeNormWhole ([[1e-9, 0, 0], [1, 0, 0]] : List (List Rat)))[0]? = some (1e-18 : Rat) := by
  constructor
  · simp only [safeNormWhole, wholeRed, List.flatten_cons, List.flatten_nil, List.append_nil,
      allclose_whole_flips.1, List.map_cons, List.getElem?_cons_zero, safeNormWith, if_true]
  · simp only [safeNormWhole, wholeRed, List.flatten_cons, List.flatten_nil, List.append_nil,
      allclose_whole_flips.2.1, List.map_cons, List.getElem?_cons_zero, safeNormWith,
      Bool.false_eq_true, if_false, List.foldl_cons, List.foldl_nil, id, Option.some.injEq]
    norm_num

/-- two batches of the scripted environment of C15 (`L = 5`, `r = 2`) that share member 0 (same
script, same action column `[0, 1, 0]`) and differ in size and in everything else: member 0 of the
batched results coincides (both sides computed) -/
example :
    let other : Script Int := { exScript with dones := [1], c := 2 }
    let a := bRun (R := Int) scripted 5 2 [exScript, other] [[0, 1], [1, 0], [0, 0]]
    let b := bRun (R := Int) scripted 5 2 [exScript, exScript, other] [[0, 3, 1], [1, 1, 1], [0, 0, 3]]
    (a.ep.st.obs[0]?, a.ep.st.reward[0]?, a.ep.st.done[0]?, a.ep.steps[0]?)
      = (b.ep.st.obs[0]?, b.ep.st.reward[0]?, b.ep.st.done[0]?, b.ep.steps[0]?) ∧
    a.ep.st.done[1]? ≠ b.ep.st.done[1]? := by decide

end Brax.C07
