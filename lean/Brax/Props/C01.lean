import Brax.Spec.MjKinematics
import Brax.Lemmas.Real
/-! # C01 — placeholder while the model/correspondence is being brought up -/
namespace Brax.C01
theorem placeholder : True := trivial
end Brax.C01
