import Brax.Lemmas.KinVel
import Brax.Lemmas.ScanLevels
import Brax.Lemmas.ScanTypes
import Brax.Model.KinCoded
/-!
# C01 — forward kinematics matches the reference engine for every model and pose

`Kin.forward` is the model of `brax.kinematics.forward` (tied to the code on every run by the
correspondence of `harness/corr_C01.py`), `Mj.kinematics` is MuJoCo's sequential algorithm
(tied to the real `mujoco.mj_forward` by the second leg).  The theorems below hold for
**every** forest (any number of links), every joint stack (any number and mix of hinge/slide
joints, arbitrary unit axes, shared anchor) and every `q`.

Only property theorems live here; helper lemmas are in `Brax/Lemmas/{Algebra,Norm,Scan,KinPos}`.
-/
set_option linter.unusedSectionVars false
namespace Brax.C01
open Brax Kin KinPos KinVel

/-- **one link** (restated from `Lemmas/KinPos`): brax's world transform of a link equals MuJoCo's
body pose, given the same parent pose (a unit quaternion), and is again a unit quaternion -/
theorem link_pose_eq_mj (p : Int) (par : Option (Tf ℝ × Motion ℝ)) (par' : Option (Tf ℝ))
    (lk : LinkP ℝ) (l : LinkIn ℝ) (jd : Motion ℝ)
    (hpar : OptRel (fun (x : Tf ℝ × Motion ℝ) (s : Tf ℝ) => x.1 = s ∧ s.rot.IsUnit) par par')
    (hok : LinkOK p lk l) (hroot : p < 0 → par = none) :
    (world par (placeJoint lk (jcalc l).1, jd)).1 = Mj.bodyPose par' lk l
      ∧ (Mj.bodyPose par' lk l).rot.IsUnit :=
  link_pose_eq p par par' lk l jd hpar hok hroot

/-- all links of a system with state `q`, `qd` satisfy `LinkOK` -/
def KinOK (s : Sys ℝ) (q qd : List ℝ) : Prop :=
  ∀ x ∈ s.parents.zip (s.links.zip (linkSlices s.types q qd s.dofs)), LinkOK x.1 x.2.1 x.2.2

/-- **C01, positions and orientations.**  For every system (any forest, any stacks) and every
state satisfying `KinOK`, the world transform brax reports for every link equals MuJoCo's
`xpos`/`xquat` — exactly, over the reals (so "up to quaternion sign" is not even needed). -/
theorem forward_pos_eq_mj (s : Sys ℝ) (q qd : List ℝ) (h : KinOK s q qd) :
    (forward s q qd).map (·.1) = Mj.kinematics s q := by
  have hrel := scanFwd_rel
    (fun (x : Tf ℝ × Motion ℝ) (y : Tf ℝ) => x.1 = y ∧ y.rot.IsUnit)
    (fun p (a : Tf ℝ × Motion ℝ) (b : LinkP ℝ × LinkIn ℝ) => ∃ l, a = linkArg (b.1, l)
      ∧ (l.typ = b.2.typ ∧ l.q = b.2.q ∧ l.dofs = b.2.dofs) ∧ LinkOK p b.1 l)
    world (fun par (a : LinkP ℝ × LinkIn ℝ) => Mj.bodyPose par a.1 a.2)
    (by
      intro p par par' a b hpar hS hroot
      obtain ⟨l, ha, hc, hok⟩ := hS
      subst ha
      have := link_pose_eq p par par' b.1 l (linkArg (b.1, l)).2 hpar hok hroot
      rw [bodyPose_congr par' b.1 l b.2 hc] at this
      exact this)
    s.parents _ _
    (zip_rel s.parents s.links _ _ (linkSlices_q_rel s.types q qd (q.map fun _ => 0) s.dofs) h)
  unfold forward Mj.kinematics
  simp only [List.map_map]
  have hmapArg : (s.links.zip (linkSlices s.types q qd s.dofs)).map (fun li =>
        (placeJoint li.1 (jcalc li.2).1,
          (⟨(jcalc li.2).2.ang, rotate (jcalc li.2).2.vel li.1.tf.rot⟩ : Motion ℝ)))
      = (s.links.zip (linkSlices s.types q qd s.dofs)).map linkArg := rfl
  rw [hmapArg]
  generalize scanFwd world s.parents ((s.links.zip (linkSlices s.types q qd s.dofs)).map linkArg) = xs at hrel
  generalize scanFwd (fun par (a : LinkP ℝ × LinkIn ℝ) => Mj.bodyPose par a.1 a.2) s.parents
    (s.links.zip (linkSlices s.types q (q.map fun _ => 0) s.dofs)) = ys at hrel
  induction hrel with
  | nil => rfl
  | @cons x y xs ys hxy _ ih =>
    obtain ⟨h1, h2⟩ := hxy
    simp only [List.map_cons, Function.comp]
    rw [ih]
    congr 1
    rw [← h1] at h2 ⊢
    rw [normalize4_unit h2]


/-- the flagged reference scan projects onto `Mj.kinematicsVel` (the flag is only carried along) -/
theorem kinematicsVelFlag_fst (s : Sys ℝ) (q qd : List ℝ) :
    (kinematicsVelFlag s q qd).map (·.1) = Mj.kinematicsVel s q qd := by
  have hrel := scanFwd_rel
    (fun (y : (Tf ℝ × Motion ℝ) × Prop) (y' : Tf ℝ × Motion ℝ) => y.1 = y')
    (fun _ (a b : LinkP ℝ × LinkIn ℝ) => a = b)
    specStep (fun par (a : LinkP ℝ × LinkIn ℝ) => Mj.bodyPoseVel par a.1 a.2)
    (by
      intro p par par' a b hpar hS _
      subst hS
      simp only [specStep]
      congr 1
      cases hpar with
      | none => rfl
      | some h => simp only [Option.map_some, h])
    s.parents (s.links.zip (linkSlices s.types q qd s.dofs)) (s.links.zip (linkSlices s.types q qd s.dofs))
    (zip_refl s.parents _)
  unfold kinematicsVelFlag Mj.kinematicsVel
  generalize scanFwd specStep s.parents _ = xs at hrel
  generalize scanFwd (fun par (a : LinkP ℝ × LinkIn ℝ) => Mj.bodyPoseVel par a.1 a.2) s.parents _ = ys at hrel
  induction hrel with
  | nil => rfl
  | cons h _ ih => simp only [List.map_cons, ih, h]

/-- **C01, velocities (partial: the links the property names).**  For every system and state
satisfying `KinOK`, every link reports MuJoCo's pose, and every link that is attached — and
whose ancestors are all attached — by a free joint, a single slide joint, or a single hinge
joint anchored at the link origin (the flag of `kinematicsVelFlag`) also reports MuJoCo's world
linear and angular velocity.  Links with stacked joints or a hinge anchor away from the link
origin, and their descendants, are not covered: that is the documented upstream limitation
(known finding K1), for which the full statement is false of the code. -/
theorem forward_vel_eq_mj_partial (s : Sys ℝ) (q qd : List ℝ) (h : KinOK s q qd) :
    List.Forall₂ (fun (x : Tf ℝ × Motion ℝ) (y : (Tf ℝ × Motion ℝ) × Prop) =>
        x.1 = y.1.1 ∧ (y.2 → x.2 = y.1.2))
      (forward s q qd) (kinematicsVelFlag s q qd) := by
  have hrel := scanFwd_rel
    (fun (x : Tf ℝ × Motion ℝ) (y : (Tf ℝ × Motion ℝ) × Prop) =>
      x.1 = y.1.1 ∧ y.1.1.rot.IsUnit ∧ (y.2 → x.2 = y.1.2))
    (fun p (a : Tf ℝ × Motion ℝ) (b : LinkP ℝ × LinkIn ℝ) => a = linkArg b ∧ LinkOK p b.1 b.2)
    world specStep
    (by
      intro p par par' a b hpar hS hroot
      obtain ⟨ha, hok⟩ := hS
      subst ha
      have hparPos : OptRel (fun (x : Tf ℝ × Motion ℝ) (s : Tf ℝ) => x.1 = s ∧ s.rot.IsUnit) par
          ((par'.map Prod.fst).map Prod.fst) := by
        cases hpar with
        | none => exact OptRel.none
        | some hab => exact OptRel.some ⟨hab.1, hab.2.1⟩
      have hpos : (world par (linkArg (b.1, b.2))).1
            = Mj.bodyPose ((par'.map Prod.fst).map Prod.fst) b.1 b.2
          ∧ (Mj.bodyPose ((par'.map Prod.fst).map Prod.fst) b.1 b.2).rot.IsUnit :=
        link_pose_eq p par ((par'.map Prod.fst).map Prod.fst) b.1 b.2 (linkArg b).2 hparPos hok hroot
      have hfst := bodyPoseVel_fst (par'.map Prod.fst) b.1 b.2
      simp only [specStep]
      refine ⟨?_, ?_, ?_⟩
      · rw [hfst]; exact hpos.1
      · rw [hfst]; exact hpos.2
      · rintro ⟨hflag, hel⟩
        have hparFull : OptRel (fun (x y : Tf ℝ × Motion ℝ) => x = y ∧ y.1.rot.IsUnit) par
            (par'.map Prod.fst) := by
          cases hpar with
          | none => exact OptRel.none
          | @some x y hab =>
            refine OptRel.some ⟨?_, hab.2.1⟩
            exact Prod.ext hab.1 (hab.2.2 hflag)
        exact link_vel_eq p par (par'.map Prod.fst) b.1 b.2 hparFull hok hroot hel hpos.1)
    s.parents _ _ (zip_rel_same s.parents _ h)
  unfold forward kinematicsVelFlag
  have hmapArg : (s.links.zip (linkSlices s.types q qd s.dofs)).map (fun li =>
        (placeJoint li.1 (jcalc li.2).1,
          (⟨(jcalc li.2).2.ang, rotate (jcalc li.2).2.vel li.1.tf.rot⟩ : Motion ℝ)))
      = (s.links.zip (linkSlices s.types q qd s.dofs)).map linkArg := rfl
  simp only
  rw [hmapArg]
  generalize scanFwd world s.parents ((s.links.zip (linkSlices s.types q qd s.dofs)).map linkArg) = xs at hrel
  generalize scanFwd specStep s.parents (s.links.zip (linkSlices s.types q qd s.dofs)) = ys at hrel
  induction hrel with
  | nil => exact List.Forall₂.nil
  | @cons x y xs ys hxy _ ih =>
    obtain ⟨h1, h2, h3⟩ := hxy
    simp only [List.map_cons]
    refine List.Forall₂.cons ⟨?_, h3⟩ ih
    rw [← h1] at h2
    rw [normalize4_unit h2]
    exact h1


/-- **Layer B, stage 2 (restated from `Lemmas/ScanLevels`).**  `scan.tree` as coded — links grouped by
depth, the function applied once per level, the carry of the previous level re-indexed through
`parent_map`, outputs concatenated and reordered to link order — computes exactly the per-link
recursion `scanFwd` that all theorems above are stated with, for every forest (any size, any
shape) whose parents precede their children. -/
theorem scanTree_levels_eq_recursion {β γ : Type} (f : Option β → γ → β) (ps : List Int) (as : List γ)
    (dflt : γ) (dfltY : β) (hlen : ps.length = as.length) (hwf : ParentsWF ps) :
    scanTreeLevels f ps as dflt dfltY = scanFwd f ps as :=
  scanTreeLevels_eq_scanFwd f ps as dflt dfltY hlen hwf

/-- **Layer B, stage 2 (restated from `Lemmas/ScanTypes`).**  `scan.link_types` as coded — links grouped by
type in order of first appearance, the flat `q`/`qd`/dof index lists of each type gathered and reshaped to
rows, the per-link function applied to every row, the per-type outputs concatenated and reordered through
the output kind's index list — computes exactly the per-link slicing `linkSlices` followed by the per-link
function, for every string of link types, every per-link function `g` whose output width is the kind's
width table `wo` (`'l'`: 1, `'q'`: `Q_WIDTHS`, `'d'`: `QD_WIDTHS`), and inputs of the right total widths. -/
theorem scanLinkTypes_coded_eq_slices {α β : Type} (g : LinkIn α → List β) (wo : LinkType → Nat)
    (ts : List LinkType) (q qd : List α) (ds : List (DofP α)) (dq : α) (dd : DofP α) (dy : β)
    (hq : q.length = (ts.map LinkType.qWidth).sum) (hqd : qd.length = (ts.map LinkType.qdWidth).sum)
    (hds : ds.length = (ts.map LinkType.qdWidth).sum) (hg : ∀ l, (g l).length = wo l.typ) :
    scanLinkTypesCoded g wo ts q qd ds dq dd dy = ((linkSlices ts q qd ds).map g).flatten :=
  scanLinkTypesCoded_eq g wo ts q qd ds dq dd dy hq hqd hds hg

/-- **`kinematics.forward` including the scan code.**  With `scan.link_types` and `scan.tree` replaced by
their faithful transcriptions, the function is the same as the model the theorems above are about — for
every well-formed system (lengths fit, parents precede children) and every state of the right widths. -/
theorem forwardCoded_eq_forward (s : Sys ℝ) (q qd : List ℝ) (dq : ℝ) (dd : DofP ℝ)
    (hp : s.parents.length = s.types.length) (hl : s.links.length = s.types.length)
    (hwf : ParentsWF s.parents) (hq : q.length = s.nq) (hqd : qd.length = s.nv) (hds : s.dofs.length = s.nv) :
    forwardCoded s q qd dq dd = forward s q qd := by
  unfold forwardCoded forward
  simp only
  rw [scanLinkTypesCoded_eq (fun l => [jcalc l]) (fun _ => 1) s.types q qd s.dofs dq dd _ hq hqd hds
    (fun _ => rfl)]
  have hflat : ((linkSlices s.types q qd s.dofs).map fun l => [jcalc l]).flatten
      = (linkSlices s.types q qd s.dofs).map jcalc := by
    induction linkSlices s.types q qd s.dofs with
    | nil => rfl
    | cons a l ih => simp [ih]
  rw [hflat, List.zip_map_right, List.map_map]
  have hjj : ((fun (lj : LinkP ℝ × Tf ℝ × Motion ℝ) =>
        (placeJoint lj.1 lj.2.1, (⟨lj.2.2.ang, rotate lj.2.2.vel lj.1.tf.rot⟩ : Motion ℝ))) ∘ Prod.map id jcalc)
      = fun (li : LinkP ℝ × LinkIn ℝ) =>
        (placeJoint li.1 (jcalc li.2).1, (⟨(jcalc li.2).2.ang, rotate (jcalc li.2).2.vel li.1.tf.rot⟩ : Motion ℝ)) := by
    funext li; rfl
  rw [hjj]
  rw [scanTreeLevels_eq_scanFwd world s.parents _ _ _ (by
    simp [linkSlices_length, hp, hl]) hwf]

/-- C01 positions for the function including the scan code -/
theorem forwardCoded_pos_eq_mj (s : Sys ℝ) (q qd : List ℝ) (dq : ℝ) (dd : DofP ℝ) (h : KinOK s q qd)
    (hp : s.parents.length = s.types.length) (hl : s.links.length = s.types.length)
    (hwf : ParentsWF s.parents) (hq : q.length = s.nq) (hqd : qd.length = s.nv) (hds : s.dofs.length = s.nv) :
    (forwardCoded s q qd dq dd).map (·.1) = Mj.kinematics s q := by
  rw [forwardCoded_eq_forward s q qd dq dd hp hl hwf hq hqd hds]
  exact forward_pos_eq_mj s q qd h

/-! ## non-vacuity: a concrete system and state satisfying `KinOK`

A free root and a child attached by a hinge about z at the link origin, on a body rotated by the
unit quaternion (3/5, 4/5, 0, 0) and offset by (1, 2, 3); root quaternion (0, 1, 0, 0). -/

noncomputable def exLink (tf : Tf ℝ) : LinkP ℝ :=
  ⟨tf, ⟨V3.zero, Q4.one⟩, ⟨Tf.id, M3.one, 1⟩, 0, 0, 0, 0, 0⟩
noncomputable def exDof (m : Motion ℝ) : DofP ℝ := ⟨m, 0, 0, 0, none, none, 0⟩
noncomputable def exFreeDofs : List (DofP ℝ) :=
  [exDof ⟨V3.zero, ⟨1, 0, 0⟩⟩, exDof ⟨V3.zero, ⟨0, 1, 0⟩⟩, exDof ⟨V3.zero, ⟨0, 0, 1⟩⟩,
   exDof ⟨⟨1, 0, 0⟩, V3.zero⟩, exDof ⟨⟨0, 1, 0⟩, V3.zero⟩, exDof ⟨⟨0, 0, 1⟩, V3.zero⟩]
noncomputable def exSys : Sys ℝ :=
  { types := [.free, .one], parents := [-1, 0],
    links := [exLink Tf.id, exLink ⟨⟨1, 2, 3⟩, ⟨3/5, 4/5, 0, 0⟩⟩],
    dofs := exFreeDofs ++ [exDof ⟨⟨0, 0, 1⟩, ⟨0, 0, 0⟩⟩],
    hasLimit := false, acts := [], gravity := V3.zero, dt := 1, velDamping := 0, angDamping := 0,
    baumgarteErp := 0, springMassScale := 0, springInertiaScale := 0, jointScaleAng := 0,
    jointScalePos := 0, collideScale := 0 }
noncomputable def exQ : List ℝ := [0, 0, 1, 0, 1, 0, 0, 1/2]
noncomputable def exQd : List ℝ := [1, 0, 0, 0, 0, 1, 2]

example : KinOK exSys exQ exQd := by
  intro x hx
  simp only [exSys, exQ, exQd, exFreeDofs, linkSlices, LinkType.qWidth, LinkType.qdWidth,
    List.zip_cons_cons, List.zip_nil_right, List.mem_cons, List.mem_nil_iff, or_false,
    List.take, List.drop, List.cons_append, List.nil_append] at hx
  rcases hx with rfl | rfl
  · refine ⟨Q4.isUnit_one, rfl, fun _ => ⟨by norm_num, rfl, rfl, rfl, 0, 0, 1, 0, 1, 0, 0, rfl, ?_⟩,
      fun h => absurd rfl h⟩
    norm_num [Q4.IsUnit, Q4.normSq]
  · refine ⟨by norm_num [exLink, Q4.IsUnit, Q4.normSq], rfl, fun h => by simp at h, fun _ => ⟨rfl, rfl, ?_⟩⟩
    intro dq hdq
    simp only [List.zip_cons_cons, List.zip_nil_right, List.mem_cons, List.mem_nil_iff, or_false] at hdq
    subst hdq
    left
    refine ⟨rfl, ?_⟩
    norm_num [exDof, V3.dot]

/-- in that example the child link is eligible for the velocity clause -/
example : VelElig (exLink ⟨⟨1, 2, 3⟩, ⟨3/5, 4/5, 0, 0⟩⟩)
    ⟨.one, [1/2], [2], [exDof ⟨⟨0, 0, 1⟩, ⟨0, 0, 0⟩⟩]⟩ := by
  right
  refine ⟨rfl, _, _, _, rfl, rfl, rfl, Or.inr ⟨⟨rfl, ?_⟩, rfl⟩⟩
  norm_num [exDof, V3.dot]

end Brax.C01
